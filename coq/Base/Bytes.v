(* Byte strings as lists of N (each < 256 on the Go side), the operations of Go's strings/bytes/strconv
   packages the anchored code uses, and decimal rendering. Definitions only; lemmas in Proofs/BytesProofs.v *)
From Verif Require Import Base.Prelude.
From Coq Require Import Decimal DecimalN.

Definition bytes := list N.

Definition bytes_eqb : bytes -> bytes -> bool := list_eqb N.eqb.

Fixpoint has_prefix (p s : bytes) : bool :=
  match p, s with
  | [], _ => true
  | a :: p', b :: s' => N.eqb a b && has_prefix p' s'
  | _ :: _, [] => false
  end.

(* strings.Split with a one-byte separator: n separators give n+1 fields, "" gives [""] *)
Fixpoint split (sep : N) (s : bytes) : list bytes :=
  match s with
  | [] => [[]]
  | c :: s' =>
      if N.eqb c sep then [] :: split sep s'
      else match split sep s' with
           | h :: t => (c :: h) :: t
           | [] => [[c]]
           end
  end.

Fixpoint contains (c : N) (s : bytes) : bool :=
  match s with [] => false | x :: s' => N.eqb x c || contains c s' end.

(* decimal digits *)
Definition digit_val (b : N) : option N :=
  if (48 <=? b)%N && (b <=? 57)%N then Some (b - 48)%N else None.

(* value of a digit string, most significant first; None if empty or a non-digit occurs *)
Fixpoint digits_val_acc (acc : N) (s : bytes) : option N :=
  match s with
  | [] => Some acc
  | b :: s' => match digit_val b with
               | Some d => digits_val_acc (acc * 10 + d)%N s'
               | None => None
               end
  end.
Definition digits_val (s : bytes) : option N :=
  match s with [] => None | _ => digits_val_acc 0 s end.

(* rendering through the standard library's decimal representation *)
Fixpoint uint_bytes (u : uint) : bytes :=
  match u with
  | Nil => []
  | D0 u => 48%N :: uint_bytes u | D1 u => 49%N :: uint_bytes u | D2 u => 50%N :: uint_bytes u
  | D3 u => 51%N :: uint_bytes u | D4 u => 52%N :: uint_bytes u | D5 u => 53%N :: uint_bytes u
  | D6 u => 54%N :: uint_bytes u | D7 u => 55%N :: uint_bytes u | D8 u => 56%N :: uint_bytes u
  | D9 u => 57%N :: uint_bytes u
  end.
(* strconv.Itoa / FormatUint on a non-negative number *)
Definition dec (n : N) : bytes := uint_bytes (N.to_uint n).

(* strconv.Atoi: optional sign, digits only, int64 range; on a syntax error the value is 0, on a
   range error it is saturated; the boolean says whether err == nil *)
Definition two63 : N := 9223372036854775808%N.
Definition atoi (s : bytes) : Z * bool :=
  let '(neg, ds) := match s with
                    | 45%N :: r => (true, r)
                    | 43%N :: r => (false, r)
                    | _ => (false, s)
                    end in
  match digits_val ds with
  | None => (0%Z, false)
  | Some v =>
      if neg then (if (two63 <? v)%N then ((- Z.of_N two63)%Z, false) else ((- Z.of_N v)%Z, true))
      else (if (two63 <=? v)%N then ((Z.of_N two63 - 1)%Z, false) else (Z.of_N v, true))
  end.
