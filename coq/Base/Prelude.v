(* Common imports and small utilities shared by every model file. No proofs about the code here. *)
From Coq Require Export List Arith NArith ZArith Bool Lia.
Export ListNotations.

(* ids of the cases whose check fails; the correspondence prints this list and expects [] *)
Definition bad_ids {A : Type} (chk : A -> bool) (cases : list (nat * A)) : list nat :=
  map fst (filter (fun c => negb (chk (snd c))) cases).

Fixpoint list_eqb {A : Type} (eqb : A -> A -> bool) (l1 l2 : list A) : bool :=
  match l1, l2 with
  | [], [] => true
  | x :: l1', y :: l2' => eqb x y && list_eqb eqb l1' l2'
  | _, _ => false
  end.

Definition pair_eqb {A B : Type} (ea : A -> A -> bool) (eb : B -> B -> bool) (p q : A * B) : bool :=
  ea (fst p) (fst q) && eb (snd p) (snd q).

Definition option_eqb {A : Type} (ea : A -> A -> bool) (p q : option A) : bool :=
  match p, q with
  | None, None => true
  | Some x, Some y => ea x y
  | _, _ => false
  end.
