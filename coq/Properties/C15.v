(* C15 -- Start-up fails fast instead of running on an inconsistent or partial basis.
   Model: Model/Backends.v startup (checkpoint.Load + openAllStreams with injected faults).
   Tie to /repo: Corr/CorrC15.v (the real stream.Open in child processes, one per case). *)
From Verif Require Import Base.Prelude Base.Bytes Model.Stream Model.Backends Proofs.StreamProofs Proofs.BackendsProofs Model.Retry Proofs.RetryProofs.
Local Open Scope N_scope.

(* a session that starts covers its whole assignment, and no stream is requested from a position the
   server has not reached; it starts only if nothing went wrong *)
Theorem C15_started_complete : forall c st first last sv f reqs,
  startup c st first last sv f = Started reqs ->
  f_load f = false /\ f_seqno f = false /\ (forall vb, In vb (vb_list first last) -> mem vb (f_open f) = false) /\
  (forall vb, In vb (vb_list first last) -> exists o, In (vb, o) reqs /\ o_seq o <= get0 (assoc (sv_high sv)) vb).
Proof. exact startup_started. Qed.
Print Assumptions C15_started_complete.

(* a stored checkpoint beyond the current high seqNo of any assigned vBucket refuses the start-up before
   any stream request -- whatever the other vBuckets, faults and settings *)
Theorem C15_checkpoint_ahead : forall c st first last sv f vb d,
  In vb (vb_list first last) -> st vb = Some d -> get0 (assoc (sv_high sv)) vb < d_seq d ->
  startup c st first last sv f = Refused.
Proof. exact startup_ahead. Qed.
Print Assumptions C15_checkpoint_ahead.

(* load and seqNo failures refuse; an open failure on any assigned vBucket fails the start-up *)
Theorem C15_guards : forall c st first last sv f,
  (f_load f = true \/ f_seqno f = true -> startup c st first last sv f = Refused) /\
  (forall vb, In vb (vb_list first last) -> mem vb (f_open f) = true ->
     forall reqs, startup c st first last sv f <> Started reqs).
Proof.
  intros c st first last sv f. split.
  - intros H. unfold startup. replace (f_load f || f_seqno f) with true; [reflexivity|].
    destruct H as [-> | ->]; [reflexivity|now rewrite orb_true_r].
  - intros vb Hin Hm reqs Hs. destruct (startup_started _ _ _ _ _ _ _ Hs) as (_ & _ & Ho & _).
    rewrite (Ho vb Hin) in Hm. discriminate.
Qed.
Print Assumptions C15_guards.

Example C15_example :
  let sv := Srv [(0, 5); (1, 9)] [(0, 7); (1, 8)] [] in
  startup (Cfg false false None []) (fupd fempty 0 (MkD 7 6 6 6)) 0 1 sv (Faults false false false [] false) = Refused /\
  startup (Cfg false false None []) (fupd fempty 0 (MkD 7 5 5 5)) 0 1 sv (Faults false false false [] false) =
    Started [(0, MkO 7 5 5 5 18446744073709551615); (1, MkO 0 0 0 0 18446744073709551615)] /\
  startup (Cfg false false None []) fempty 0 1 sv (Faults false false false [1] false) = OpenFailed /\
  (* a checkpoint file that lacks an assigned vBucket: the start-up fails instead of covering part of the assignment *)
  startup (Cfg false false None []) (fupd fempty 0 (MkD 7 5 5 5)) 0 1 sv (Faults false false false [] true) = OpenFailed.
Proof. vm_compute. repeat split; reflexivity. Qed.

(* --- "after the bounded retries on re-open" (Model/Retry.v); nat arithmetic --- *)
Local Close Scope N_scope.

(* the client terminates on a reopen exactly when all five requests failed with the stream open throughout: never
   earlier, never when a request succeeded, never once the stream has been closed, and it never runs on without the
   vBucket (the only other outcomes are "streamed again" and "the whole stream was closed") *)
Theorem C15_retry_gives_up_iff : forall closed answers,
  snd (reopen closed answers) = GaveUp <-> (forall j, j < retry_budget -> closed j = false /\ answers j = false).
Proof. exact reopen_gives_up_iff. Qed.
Print Assumptions C15_retry_gives_up_iff.

Theorem C15_retry_bounded : forall closed answers, fst (reopen closed answers) <= retry_budget.
Proof. intros closed answers. apply requests_bounded. Qed.
Print Assumptions C15_retry_bounded.

Example C15_retry_example :
  reopen (closed_of None) (answers_of 5) = (5, GaveUp) /\ reopen (closed_of None) (answers_of 4) = (5, Reopened) /\
  reopen (closed_of (Some 4)) (answers_of 5) = (4, Abandoned).
Proof. vm_compute. repeat split; reflexivity. Qed.
