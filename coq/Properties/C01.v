(* C01 -- Durable checkpoint never runs ahead of what the consumer settled.
   Model: Model/Stream.v with the ghost log of settled positions (Proofs/StreamProofs.v log_add).
   Tie to /repo: Corr/CorrStream.v. *)
From Verif Require Import Base.Prelude Base.Bytes Model.Stream Proofs.StreamProofs Proofs.NoSkipProofs.
Local Open Scope N_scope.

(* (a) For every history -- any interleaving of deliveries, acknowledgements, saves that succeed, fail or
   are cut after any subset of their per-vBucket writes, crashes, rebalances -- the document in the store
   for a vBucket is either the one the history started with or the position of something settled:
   the resume position of a session, an acknowledged event, or an event the library absorbed. *)
Theorem C01_store_settled : forall c st0 ops vb d,
  s_store (fst (run (init_state c st0) ops)) vb = Some d ->
  st0 vb = Some d \/ exists o, In (vb, o) (log_run (init_state c st0) ops) /\ d = doc_of o.
Proof.
  intros c st0 ops vb d H.
  pose proof (LogInv_run st0 ops (init_state c st0) [] (LogInv_init st0 c)) as LI.
  exact (li_store st0 _ _ LI vb d H).
Qed.
Print Assumptions C01_store_settled.

(* ... and it was settled before the write began: what a save hands to the store is settled at that moment *)
Theorem C01_dump_settled_before_write : forall c st0 ops dump dl vb d,
  s_inflight (fst (run (init_state c st0) ops)) = Some (dump, dl) -> lookup_doc dump vb = Some d ->
  exists o, In (vb, o) (log_run (init_state c st0) ops) /\ d = doc_of o.
Proof.
  intros c st0 ops dump dl vb d H Hl.
  pose proof (LogInv_run st0 ops (init_state c st0) [] (LogInv_init st0 c)) as LI.
  exact (li_inflight st0 _ _ LI dump dl H vb d Hl).
Qed.
Print Assumptions C01_dump_settled_before_write.

(* the log is exactly: resume positions of opens, acknowledged contexts, absorbed events *)
Theorem C01_log_entries : forall s o vb x, In (vb, x) (log_add s o) ->
  (exists f l sv, (o = Open f l sv \/ o = RebOpen f l sv)) \/
  (exists i, o = Ack i /\ nth_error (s_ctxs s) i = Some (vb, x)) \/
  (exists e ob, o = Deliver vb e /\ s_obs s vb = Some ob /\
     match snd (obs_event (s_cfg s) ob e) with
     | FAdvance y => y = x
     | FDoc _ it y _ _ => y = x /\ is_meta (i_key it) = true
     | _ => False
     end).
Proof.
  intros s o vb x H. unfold log_add in H. destruct (s_failed s); [contradiction|].
  destruct o as [f l sv| |f l sv|cancel|v e|i| | |v|ok| |high|v c uuid roll]; try contradiction.
  - left. eauto.
  - left. eauto.
  - right. right. destruct (s_obs s v) as [ob|] eqn:Eo; [|contradiction].
    destruct (snd (obs_event (s_cfg s) ob e)) as [|k it y coll t|y|] eqn:Ef; try contradiction.
    + destruct (is_meta (i_key it)) eqn:Em; [|contradiction]. destruct H as [[= <- <-]|[]].
      exists e, ob. rewrite Ef. auto.
    + destruct H as [[= <- <-]|[]]. exists e, ob. rewrite Ef. auto.
  - right. left. destruct (nth_error (s_ctxs s) i) as [p|] eqn:E; [|contradiction].
    destruct H as [<-|[]]. eauto.
Qed.
Print Assumptions C01_log_entries.

(* (b) "no delivered-but-unacknowledged event is skipped by a restart" is FALSE of the code as it stands:
   an event the library absorbs (system event, seqno-advanced, reserved key) moves the position past an
   earlier delivery of the same vBucket that is still waiting for its acknowledgement
   (known_findings.json: absorbed-event-overtakes-outstanding-delivery).  Witness on the model; the
   harness replays it on the real code on every run: event 2 is delivered and never acknowledged, the
   restart requests the stream from 3. *)
Example C01_no_skip_refuted :
  let sv := Srv [(0, 20)] [(0, 77)] [] in
  let it n := MkI n 1700000000000000000 0 [100] n in
  let outs := snd (run (init_state (Cfg false false None []) fempty)
    [Open 0 0 sv; Deliver 0 (Marker 1 5); Deliver 0 (Doc KMut (it 1)); Ack 0; Deliver 0 (Doc KMut (it 2));
     Deliver 0 (Sys SCreateColl 3 8); SaveBegin; SaveEnd true; Crash; Open 0 0 sv]) in
  nth 4 outs [] = [Consume 0 KMut (it 2) (MkO 77 2 1 5 18446744073709551615) default_collection 1700000000] /\
  nth 9 outs [] = [Callback BeforeStreamStart; OpenReq 0 (MkO 77 3 1 5 18446744073709551615); Callback AfterStreamStart].
Proof. vm_compute. split; reflexivity. Qed.

(* (b), the part that holds. A fresh process opens its session; the history then stays within the discipline [grun]
   checks along the way: deliveries, acknowledgements (of the oldest waiting delivery of a vBucket, or repeated ones),
   saves in any interleaving with any outcome, scrapes; sequence numbers of a vBucket increase; and nothing is absorbed
   for a vBucket while one of its deliveries is waiting (the class of K1). Then at every moment, for every delivery
   (i, q) of vBucket vb that is waiting for its acknowledgement: the tracked position, every document in the store and
   every document a save in flight is writing for vb are strictly below q -- so wherever the process dies, the restart
   (C02_stored: the stream is requested from the stored position) delivers it again. [g] is exactly the set of
   waiting deliveries: any other context has been passed by the position, or is foreign. *)
Theorem C01_no_skip_partial : forall c st first last sv s1 outs ops g,
  do_open (init_state c st) first last sv = Some (s1, outs) ->
  grun s1 gempty ops = Some g ->
  let s := fst (run s1 ops) in
  (forall vb i q, In (i, q) (g vb) ->
     (exists o, nth_error (s_ctxs s) i = Some (vb, o) /\ o_seq o = q) /\
     (forall cur, s_offs s vb = Some cur -> o_seq cur < q) /\
     (forall d, in_range (s_range s) vb = true -> s_store s vb = Some d -> d_seq d < q) /\
     (forall dump dl d, in_range (s_range s) vb = true -> s_inflight s = Some (dump, dl) -> lookup_doc dump vb = Some d -> d_seq d < q)) /\
  (forall i vb o, nth_error (s_ctxs s) i = Some (vb, o) ->
     queued i (g vb) = true \/ in_range (s_range s) vb = false \/ exists cur, s_offs s vb = Some cur /\ o_seq o <= o_seq cur).
Proof.
  intros c st first last sv s1 outs ops g Ho Hg s.
  pose proof (GI_run ops s1 gempty g (GI_start _ _ _ _ _ _ _ Ho) Hg) as I. fold s in I.
  split; [|apply (gi_done s g I)].
  intros vb i q Hin. split; [apply (gi_ctx s g I vb i q Hin)|]. split; [intros cur Hc; apply (gi_front s g I vb cur i q Hc Hin)|].
  split.
  - intros d Rg Hs. destruct (gi_assigned s g I vb Rg) as [cur Hc].
    pose proof (gi_store s g I vb d cur Hs Hc). pose proof (gi_front s g I vb cur i q Hc Hin). lia.
  - intros dump dl d Rg Hi Hl. destruct (gi_assigned s g I vb Rg) as [cur Hc].
    pose proof (gi_infl s g I dump dl vb d cur Hi Hl Hc). pose proof (gi_front s g I vb cur i q Hc Hin). lia.
Qed.
Print Assumptions C01_no_skip_partial.

(* the discipline is satisfiable by a history that does something (two deliveries, one acknowledged, a system event once
   nothing is waiting, saves); the witness of K1 leaves it at the system event *)
Example C01_discipline :
  let sv := Srv [(0, 20)] [(0, 77)] [] in
  let it n := MkI n 1700000000000000000 0 [100] n in
  let s1 := fst (step (init_state (Cfg false false None []) fempty) (Open 0 0 sv)) in
  (match grun s1 gempty [Deliver 0 (Marker 1 9); Deliver 0 (Doc KMut (it 1)); Deliver 0 (Doc KMut (it 2)); Ack 0; SaveBegin; Ack 1;
                          SaveEnd true; Deliver 0 (Sys SCreateColl 3 8); Deliver 0 (Doc KMut (it 4)); SaveBegin; SaveEnd false] with
   | Some g => g 0 = [(2%nat, 4)] | None => False end) /\
  grun s1 gempty [Deliver 0 (Marker 1 5); Deliver 0 (Doc KMut (it 1)); Ack 0; Deliver 0 (Doc KMut (it 2)); Deliver 0 (Sys SCreateColl 3 8)] = None.
Proof. vm_compute. split; reflexivity. Qed.
