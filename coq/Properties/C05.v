(* C05 -- Settled progress becomes durable; a failed save loses nothing.
   Model: Model/Stream.v (SaveBegin / SaveWrite / SaveEnd with the dirty-set hand-over, i.e. the code
   after the two fix: commits 596fd26 and 795b6ef). Tie to /repo: Corr/CorrStream.v. *)
From Verif Require Import Base.Prelude Base.Bytes Model.Stream Proofs.StreamProofs.
Local Open Scope N_scope.

(* Whatever happens while the store call is in flight -- deliveries, acknowledgements, rebalances,
   some of the per-vBucket writes landing early -- if the save completes successfully, every assigned
   vBucket that was marked when the save began holds exactly the position tracked at that moment. *)
Theorem C05_durable : forall s mid,
  s_failed s = false -> s_inflight s = None -> s_any_dirty s = true ->
  forallb keeps_inflight mid = true ->
  let s1 := fst (step s SaveBegin) in
  let s2 := fst (run s1 mid) in
  s_failed s2 = false ->
  let s3 := fst (step s2 (SaveEnd true)) in
  forall vb o, vb <= 1023 -> in_range (s_range s) vb = true -> s_dirty s vb = Some true -> s_offs s vb = Some o ->
  s_store s3 vb = Some (doc_of o).
Proof. exact save_makes_durable. Qed.
Print Assumptions C05_durable.

(* a position advanced by an acknowledgement or a non-document event is marked, and a mark always
   raises the flag the save fast path looks at: nothing marked is ever skipped (invariant of every
   reachable state) *)
Theorem C05_marked_implies_flag : forall c st0 ops vb,
  (forall v d, st0 v = Some d -> valid_doc d) ->
  s_dirty (fst (run (init_state c st0) ops)) vb = Some true ->
  s_any_dirty (fst (run (init_state c st0) ops)) = true.
Proof. intros c st0 ops vb H0. apply inv_flag. apply Inv_run. now apply Inv_init. Qed.
Print Assumptions C05_marked_implies_flag.

Theorem C05_advance_marks : forall s vb o,
  accepts s vb o = true ->
  s_dirty (fst (set_offset s vb o true)) vb = Some true /\ s_any_dirty (fst (set_offset s vb o true)) = true.
Proof.
  intros s vb o A. pose proof (set_offset_spec s vb o true) as H. destruct (set_offset s vb o true) as [s' outs].
  cbn [fst]. destruct H as [_ H]. rewrite A in H. destruct H as (_ & _ & -> & ->). split; [apply fupd_same|reflexivity].
Qed.
Print Assumptions C05_advance_marks.

(* a rejected or timed-out save forgets nothing: positions and store unchanged, and every mark -- those it
   had taken and those made meanwhile -- is back in the dirty set or already in the hands of the next
   Save() that was waiting for the lock; so the next successful save stores them (C05_durable) *)
Theorem C05_failed_save_keeps : forall s dump dl,
  s_failed s = false -> s_inflight s = Some (dump, dl) ->
  let s' := fst (step s (SaveEnd false)) in
  s_offs s' = s_offs s /\ s_store s' = s_store s /\
  (forall vb, vb <= 1023 -> In vb dl \/ s_dirty s vb = Some true ->
     s_dirty s' vb = Some true \/ exists dump' dl', s_inflight s' = Some (dump', dl') /\ In vb dl') /\
  (s_queued s = 0%nat -> s_inflight s' = None /\ s_any_dirty s' = true).
Proof. exact save_end_fail_spec. Qed.
Print Assumptions C05_failed_save_keeps.

(* a Save() issued while another one is in flight is not lost, and does not return before that one has: it
   waits for the save lock (repaired defect K9) and, if anything is marked by then, runs its own dump as soon
   as the first returns (so positions acknowledged during the first store call are written by it) *)
Theorem C05_queued_save_runs : forall s dump dl ok,
  s_failed s = false -> s_inflight s = Some (dump, dl) -> s_any_dirty s = true ->
  let s1 := fst (step s SaveQueue) in
  snd (step s SaveQueue) = [] /\ s_queued s1 = S (s_queued s) /\
  exists dump' dl', snd (step s1 (SaveEnd ok)) = [MetaSave dump' dl'].
Proof.
  intros s dump dl ok F I A. unfold step at 1 2 3. rewrite F, I. cbn [fst snd]. split; [reflexivity|]. split; [reflexivity|].
  unfold step. cbn [s_failed set_queued s_inflight]. rewrite F, I.
  destruct ok; unfold next_queued; cbn [s_queued set_inflight set_store set_dirty set_queued drain s_any_dirty]; rewrite ?A;
    unfold save_body; cbn [snd]; eauto.
Qed.
Print Assumptions C05_queued_save_runs.

(* ... and when nothing is marked by then it returns without calling the store *)
Theorem C05_queued_save_waits : forall s dump dl,
  s_failed s = false -> s_inflight s = Some (dump, dl) -> s_any_dirty s = false -> s_queued s = 0%nat ->
  let s1 := fst (step s SaveQueue) in
  snd (step s SaveQueue) = [] /\ snd (step s1 (SaveEnd true)) = [NoSave] /\ s_inflight (fst (step s1 (SaveEnd true))) = None.
Proof.
  intros s dump dl F I A Q. unfold step at 1 2. rewrite F, I. cbn [fst snd]. split; [reflexivity|].
  unfold step. cbn [s_failed set_queued s_inflight]. rewrite F, I.
  unfold next_queued; cbn [s_queued set_inflight set_store set_dirty set_queued drain s_any_dirty]. rewrite Q, A. cbn. auto.
Qed.
Print Assumptions C05_queued_save_waits.

(* a save issued when nothing changed performs no write: the store is not even called *)
Theorem C05_nothing_changed_no_write : forall s,
  s_failed s = false -> s_inflight s = None -> s_any_dirty s = false -> step s SaveBegin = (s, [NoSave]).
Proof. exact save_skips_when_clean. Qed.
Print Assumptions C05_nothing_changed_no_write.

(* what the save hands to the store: the tracked positions of the assigned range and the marked set *)
Theorem C05_dump : forall s,
  s_failed s = false -> s_inflight s = None -> s_any_dirty s = true ->
  let dump := dump_of (s_offs s) (range_list (s_range s)) in
  let dl := dirty_of (s_dirty s) all_vbs in
  snd (step s SaveBegin) = [MetaSave dump dl] /\
  s_inflight (fst (step s SaveBegin)) = Some (dump, dl) /\
  s_offs (fst (step s SaveBegin)) = s_offs s /\ s_store (fst (step s SaveBegin)) = s_store s /\
  s_any_dirty (fst (step s SaveBegin)) = false /\ (forall vb, s_dirty (fst (step s SaveBegin)) vb = None) /\
  s_failed (fst (step s SaveBegin)) = false.
Proof. exact save_begin_spec. Qed.
Print Assumptions C05_dump.

(* non-vacuity, and the two repaired defects as regression witnesses: a vBucket advanced only by a system
   event is saved (K2); an acknowledgement landing during the store call is saved by the next save (K3) *)
Example C05_example :
  let sv := Srv [(0, 20)] [(0, 77)] [] in
  let it n := MkI n 1700000000000000000 0 [100] n in
  snd (run (init_state (Cfg false false None []) fempty)
    [Open 0 0 sv; Deliver 0 (Marker 1 5); Deliver 0 (Sys SCreateColl 1 8); SaveBegin; SaveEnd true;
     Deliver 0 (Doc KMut (it 2)); Deliver 0 (Doc KMut (it 3)); Ack 0; SaveBegin; Ack 1; SaveEnd true; SaveBegin; SaveEnd false; SaveBegin]) =
  [[Callback BeforeStreamStart; OpenReq 0 (MkO 0 0 0 0 18446744073709551615); Callback AfterStreamStart]; [];
   [Track 0 (MkO 77 1 1 5 18446744073709551615)]; [MetaSave [(0, MkD 77 1 1 5)] [0]]; [];
   [Consume 0 KMut (it 2) (MkO 77 2 1 5 18446744073709551615) default_collection 1700000000];
   [Consume 0 KMut (it 3) (MkO 77 3 1 5 18446744073709551615) default_collection 1700000000];
   [Track 0 (MkO 77 2 1 5 18446744073709551615)]; [MetaSave [(0, MkD 77 2 1 5)] [0]];
   [Track 0 (MkO 77 3 1 5 18446744073709551615)]; []; [MetaSave [(0, MkD 77 3 1 5)] [0]]; []; [MetaSave [(0, MkD 77 3 1 5)] [0]]].
Proof. vm_compute. reflexivity. Qed.

(* ---- the container behind the tracked positions, the dirty set and the loaded documents ----
   Model/Stream.v treats stream.offsets / stream.dirtyOffsets (wrapper.ConcurrentSwissMap) as total functions.
   Model/SwissMap.v models the container itself; tie to /repo: Corr/CorrSwissMap.v (operation sequences on the real
   wrapper).  For EVERY operation sequence the container is that function: a lookup after the sequence is the lookup
   in the function updated step by step ... *)
From Verif Require Import Model.SwissMap Proofs.SwissMapProofs.

Theorem C05_container_refines : forall ops k,
  sm_load (fst (sm_run [] ops)) k = fold_left spec_step ops (fun _ => None) k.
Proof. exact (fun ops => run_refines ops [] (fun _ => None) (fun _ => eq_refl)). Qed.
Print Assumptions C05_container_refines.

(* ... and what a save walks (Range / ToMap, hence the dump handed to Metadata.Save and the JSON written by the file
   backend) is exactly the graph of that function, every key once: nothing acknowledged is left out of a dump, nothing
   is listed twice with two values, and Count is the number of keys held *)
Theorem C05_container_listing : forall ops,
  let m := fst (sm_run [] ops) in
  NoDup (map fst m) /\
  (forall k v, In (k, v) m <-> sm_load m k = Some v) /\
  (forall k, In k (map fst m) <-> sm_load m k <> None).
Proof.
  intros ops m.
  assert (H : sm_inv m) by (apply run_inv; constructor).
  exact (conj H (conj (fun k v => in_load m k v H) (keys_load m))).
Qed.
Print Assumptions C05_container_listing.

(* what each operation shows: Load and the condition function of StoreIf see the current value; a walk that is never
   told to stop visits every entry, one that is told to stop at its n-th call makes exactly min(n, size) calls *)
Theorem C05_container_outputs : forall m o,
  snd (sm_step m o) =
  match o with
  | SStore _ _ | SDelete _ => OUnit
  | SLoad k | SStoreIf k _ _ => OLoad (sm_load m k)
  | SCount => OCount (length m)
  | SRange None => ORange (length m)
  | SRange (Some n) => ORange (Nat.min n (length m))
  | SToMap | SJson => OMap m
  end.
Proof. exact step_out. Qed.
Print Assumptions C05_container_outputs.

(* a conditional store with the monotone condition never lowers a held value *)
Theorem C05_container_monotone_update : forall m k v p, sm_load m k = Some p ->
  exists q, sm_load (fst (sm_step m (SStoreIf k 3 v))) k = Some q /\ p <= q /\ v <= q.
Proof. exact storeif_monotone. Qed.
Print Assumptions C05_container_monotone_update.

Example C05_container_example :
  snd (sm_run [] [SStore 3 30; SStore 1 10; SStore 3 31; SStoreIf 1 3 5; SStoreIf 2 1 20; SDelete 1; SCount; SRange (Some 1%nat); SRange None; SLoad 1; SToMap]) =
  [OUnit; OUnit; OUnit; OLoad (Some 10); OLoad None; OUnit; OCount 2; ORange 1; ORange 2; OLoad None; OMap [(2, 20); (3, 31)]].
Proof. vm_compute. reflexivity. Qed.

(* checkpoint.Save's two walks over the containers give the dump and the dirty list of the model: for every container
   pair representing the two functions of a state whose keys lie in the walked id lists, the document looked up for any
   vBucket in the dump built by offsets.Range is the one of dump_of, and the vBuckets dirtyOffsets.Range marks for
   writing are those of dirty_of *)
From Verif Require Import Proofs.ContainerStream.

Theorem C05_container_dump : forall (offs : smap_of offset) (dirty : smap_of bool) f g vbs,
  NoDup (map fst dirty) ->
  (forall k, sm_load offs k = f k) -> (forall k, f k <> None -> mem k vbs = true) ->
  (forall k, sm_load dirty k = g k) -> (forall k, g k <> None -> In k all_vbs) ->
  (forall vb, lookup_doc (c_dump offs) vb = lookup_doc (dump_of f vbs) vb) /\
  (forall vb, In vb (c_dirty dirty) <-> In vb (dirty_of g all_vbs)).
Proof.
  exact (fun offs dirty f g vbs Hi Ho Hk Hd Hg =>
    conj (c_dump_is_dump offs f vbs Ho Hk) (c_dirty_is_dirty dirty g all_vbs Hi Hd Hg)).
Qed.
Print Assumptions C05_container_dump.

Example C05_container_dump_example :
  let o n := MkO 77 n 1 9 18446744073709551615 in
  c_dump [(3, o 7); (1, o 5)] = [(3, MkD 77 7 1 9); (1, MkD 77 5 1 9)] /\
  dump_of (fun k => sm_load [(3, o 7); (1, o 5)] k) [1; 2; 3] = [(1, MkD 77 5 1 9); (3, MkD 77 7 1 9)] /\
  c_dirty [(3, true); (1, false); (2, true)] = [3; 2].
Proof. vm_compute. repeat split; reflexivity. Qed.

(* acknowledgements of different vBuckets store into the containers from different goroutines: stores of pairwise distinct
   keys represent the same function whatever order they take effect in (the correspondence issues such batches from
   goroutines released together and evaluates the model in list order) *)
From Coq Require Import Permutation.
Theorem C05_container_stores_commute : forall (kvs kvs' m : smap) k,
  NoDup (map fst kvs) -> Permutation kvs kvs' ->
  sm_load (sm_stores kvs m) k = sm_load (sm_stores kvs' m) k.
Proof. exact (fun kvs kvs' m k => stores_commute kvs kvs' m k). Qed.
Print Assumptions C05_container_stores_commute.
