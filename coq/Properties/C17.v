(* C17 -- Configuration defaulting is safe, idempotent and unit-exact.
   Model: Model/Config.v. Tie to /repo: Corr/CorrC17.v. *)
From Verif Require Import Base.Prelude Base.Bytes Model.Config Proofs.BytesProofs Proofs.ConfigProofs.
Local Open Scope Z_scope.

Theorem C17_fills : forall e c c', apply_defaults e c = Some c' -> filled c'.
Proof. exact apply_defaults_fills. Qed.
Print Assumptions C17_fills.

Theorem C17_preserves : forall e c c', apply_defaults e c = Some c' ->
  preserved c c' /\
  (e_total e = None -> total_members c <> 0 -> total_members c' = total_members c) /\
  (e_member e = None -> member_number c <> 0 -> member_number c' = member_number c).
Proof. exact apply_defaults_preserves. Qed.
Print Assumptions C17_preserves.

Theorem C17_idempotent : forall e c c', apply_defaults e c = Some c' -> apply_defaults e c' = Some c'.
Proof. exact apply_defaults_idempotent. Qed.
Print Assumptions C17_idempotent.

(* the environment overrides beat file values, whatever those are *)
Theorem C17_env_wins : forall e c c' s v, apply_defaults e c = Some c' ->
  (e_total e = Some s -> atoi s = (v, true) -> total_members c' = v) /\
  (e_member e = Some s -> atoi s = (v, true) -> member_number c' = v).
Proof. exact env_wins. Qed.
Print Assumptions C17_env_wins.

(* derived Couchbase-metadata settings inherit the main connection settings unless overridden key by key;
   membership and leader-election settings take their documented defaults unless overridden *)
Theorem C17_inherits : forall m,
  cb_metadata m (CbMetaOv None None None None None None None None None None None) =
  CbMeta (m_hosts m) (m_user m) (m_pass m) (m_bucket m) b_default b_default 2048 5242880 minute (m_secure m) (m_rootca m).
Proof. reflexivity. Qed.
Print Assumptions C17_inherits.

Theorem C17_override_keywise : forall m o,
  md_user (cb_metadata m o) = ov (o_user o) (m_user m) /\ md_bucket (cb_metadata m o) = ov (o_bucket o) (m_bucket m) /\
  md_hosts (cb_metadata m o) = ov (o_hosts o) (m_hosts m) /\ md_scope (cb_metadata m o) = ov (o_scope o) b_default /\
  md_conn_buffer (cb_metadata m o) = ov (o_conn_buffer o) 5242880 /\ md_secure (cb_metadata m o) = ov (o_secure o) (m_secure m) /\
  cb_membership (None, None, None, None, None) = CbMember 120 (10 * sec) minute (30 * sec) (30 * sec) /\
  k8s_elector (None, None, None) = K8s (8 * sec) (5 * sec) sec.
Proof. intros. repeat split; reflexivity. Qed.
Print Assumptions C17_override_keywise.

(* size strings: <n><blanks><kb|mb|gb in any letter case> = n * 1024^k, for every n *)
Theorem C17_units : forall n bl u1 u2 k,
  Forall (fun b => is_blank b = true) bl -> unit_k u1 u2 = Some k ->
  resolve (UStr (dec n ++ bl ++ [u1; u2])) = Some (Z.of_N n * 1024 ^ k).
Proof. exact resolve_units. Qed.
Print Assumptions C17_units.

Theorem C17_plain_int : forall n, (n < two63)%N -> resolve (UStr (dec n)) = Some (Z.of_N n) /\ resolve (UInt (Z.of_N n)) = Some (Z.of_N n).
Proof. intros n H. split; [now apply resolve_plain_int|reflexivity]. Qed.
Print Assumptions C17_plain_int.

(* placeholders of variables that are not set are left alone *)
Theorem C17_subst_unset : forall env file,
  (forall name, In name (placeholders file) -> lookup_env env name = None) -> subst_env env file = file.
Proof. exact subst_env_no_vars. Qed.
Print Assumptions C17_subst_unset.

(* decimal forms and substitution of set variables: evaluated instances (the general statements are
   validated by the correspondence; see DESIGN.md, C17) *)
Example C17_examples :
  resolve (UStr [49;48;44;50;53;32;109;98]%N) = Some 10747904 /\           (* "10,25 mb" *)
  resolve (UStr [56;46;53;77;66]%N) = Some 8912896 /\                       (* "8.5MB" *)
  resolve (UStr [49;46;53;103;98]%N) = Some 1610612736 /\                   (* "1.5gb" *)
  resolve (UStr [49;50;120;98]%N) = None /\                                 (* "12xb" *)
  subst_env [([85]%N, [120;121]%N); ([86]%N, [122]%N)] [97;36;123;85;125;98;36;123;87;125;36;123;85;125;36;123;86;125]%N =
    [97;120;121;98;36;123;87;125;120;121;122]%N.                            (* "a${U}b${W}${U}${V}" *)
Proof. vm_compute. repeat split; reflexivity. Qed.

(* what the property demands of the witness of the known finding unit-float-rounding (known_findings.json): the exact
   product 18476.7341 x 1024^3 = 19839242174096.9984 truncated. The implementation converts through float64 and returns
   19839242174097 (the harness replays this input on every run). *)
Example C17_float_witness :
  resolve (UStr [49;56;52;55;54;46;55;51;52;49;32;71;98]%N) = Some 19839242174096%Z.
Proof. vm_compute. reflexivity. Qed.
