(* C13 -- Graceful shutdown is clean from every lifecycle state.
   Model: Model/Lifecycle.v (dcp.close around the stream core of Model/Stream.v). Tie to /repo: Corr/CorrC13.v
   (the real Dcp.Start() / Close() built by VerifNewDcp around interface-level fakes, in child processes).
   Dcp.Close() only posts the signal; "Close() has returned" is the return of Start() (output Returned).
   Bounded time is not a statement about the model's step function (it is total): what the model contributes is
   that the teardown never waits on anything but the store call(s) named by r1 / r2; the deadline is checked
   by the harness on the real code. *)
From Verif Require Import Base.Prelude Base.Bytes Model.Stream Proofs.StreamProofs Model.Lifecycle Proofs.LifecycleProofs.
Local Open Scope N_scope.

(* From every state reached while the client is streaming -- idle, between a delivery and its acknowledgement,
   with a Metadata.Save in flight that then succeeds (r1 = true) or fails (r1 = false), after ended and reopened
   vBucket streams, after completed rebalances -- and for either outcome r2 of the final save: the teardown runs
   to its end without dying; every vBucket stream that is open gets its close request; the DCP agent and the
   client are closed after that, in this order, exactly once, and Start() returns; what is left is a closed
   stream (observer map cleared, every observer object switched off for deliveries and for stream ends). *)
Theorem C13_clean : forall c auto st0 h r1 r2,
  let l := reached c auto st0 h in
  s_failed (l_s l) = false -> s_obs_nil (l_s l) = false ->
  let l' := fst (shutdown l r1 r2) in
  let outs := snd (shutdown l r1 r2) in
  Quiet (l_s l') /\ s_failed (l_s l') = false /\ l_down l' = true /\ l_dcp l' = false /\ l_cli l' = false /\
  (forall vb o, in_range (s_range (l_s l)) vb = true -> s_offs (l_s l) vb = Some o -> In (SOut (CloseReq vb)) outs) /\
  (exists pre, outs = pre ++ [DcpClose; CliClose; Returned] /\ ~ In Died pre /\ ~ In DcpClose pre /\ ~ In CliClose pre /\
               forall x, In x pre -> no_delivery x) /\
  ~ In Died outs.
Proof. exact clean_from_every_streaming_state. Qed.
Print Assumptions C13_clean.

(* After that, whatever still arrives -- late deliveries and stream ends from the network on any observer object
   ever handed out, acknowledgements of contexts handed out earlier, Commit() calls and stale schedule ticks,
   store calls returning, scrapes, rebalance timers, membership notifications, a second Close() -- nothing is handed to the consumer
   and no stream is opened. *)
Theorem C13_silent : forall c auto st0 h r1 r2 late,
  let l := reached c auto st0 h in
  s_failed (l_s l) = false -> s_obs_nil (l_s l) = false -> forallb late_lop late = true ->
  forall outs x, In outs (snd (lrun (fst (shutdown l r1 r2)) late)) -> In x outs -> no_delivery x.
Proof. exact silent_from_every_streaming_state. Qed.
Print Assumptions C13_silent.

(* Automatic checkpointing and a final save that succeeds, from every streaming state -- also with a Metadata.Save
   in flight (a slow schedule tick or Commit), which the final save waits for (repaired defect K9) and which then
   succeeds (r1 = true) or fails (r1 = false). When Start() returns:
   (A) every position marked at the time of the call (C05_advance_marks: every acknowledged and every absorbed
       position is marked) is in the store;
   (B) what the call in flight had taken over is there too: as it was dumped if that call succeeded, and -- its
       marks having been given back -- as tracked at the time of Close() if it failed;
   (C) the flag is down and no store call is in flight, so a stale schedule tick calls the store no more. *)
Theorem C13_durable : forall c st0 h r1,
  (forall v d, st0 v = Some d -> valid_doc d) ->
  let l := reached c true st0 h in
  let s := l_s l in
  s_failed s = false -> s_obs_nil s = false -> s_queued s = 0%nat ->
  let l' := fst (shutdown l r1 true) in
  (forall vb o, vb <= 1023 -> in_range (s_range s) vb = true -> s_dirty s vb = Some true ->
     s_offs s vb = Some o -> s_store (l_s l') vb = Some (doc_of o)) /\
  (forall dump dl vb, s_inflight s = Some (dump, dl) -> In vb dl ->
     (r1 = true -> s_dirty s vb <> Some true -> forall d, lookup_doc dump vb = Some d -> s_store (l_s l') vb = Some d) /\
     (r1 = false -> vb <= 1023 -> in_range (s_range s) vb = true -> forall o, s_offs s vb = Some o ->
        s_store (l_s l') vb = Some (doc_of o))) /\
  s_any_dirty (l_s l') = false /\ s_inflight (l_s l') = None /\
  snd (step (l_s l') SaveBegin) = [NoSave].
Proof. exact durable_from_every_streaming_state. Qed.
Print Assumptions C13_durable.

(* The other reachable states are those in which a rebalance has closed the stream and not yet reopened it (every
   reachable state with a rebalance under way has the observer map cleared) ... *)
Theorem C13_window_is_the_rest : forall c st0 h,
  let s := fst (run (init_state c st0) h) in s_balancing s = true -> s_obs_nil s = true.
Proof. intros c st0 h. apply bal_nil_run. cbn. discriminate. Qed.
Print Assumptions C13_window_is_the_rest.

(* ... and from them, too, the teardown runs to its end (repaired defect K4: stream.Close used to walk the cleared
   observer map and die): the reopen is cancelled, there is nothing left to close, the agents are closed, Start()
   returns; what is left is a closed stream. *)
Theorem C13_window_clean : forall c auto st0 h r1 r2,
  let l := reached c auto st0 h in
  s_failed (l_s l) = false -> s_obs_nil (l_s l) = true ->
  let l' := fst (shutdown l r1 r2) in
  let outs := snd (shutdown l r1 r2) in
  Quiet (l_s l') /\ s_failed (l_s l') = false /\ l_down l' = true /\ l_dcp l' = false /\ l_cli l' = false /\
  (exists pre, outs = pre ++ [DcpClose; CliClose; Returned] /\ forall x, In x pre -> no_delivery x /\ x <> Died) /\
  ~ In Died outs.
Proof. exact clean_from_every_window_state. Qed.
Print Assumptions C13_window_clean.

(* From every reachable state that has not failed -- streaming or inside a rebalance window -- whatever still arrives after
   the teardown (late deliveries, stream ends, acknowledgements, Commit()s, stale ticks, the reopen timer of the cancelled
   rebalance, further membership notifications, a second Close()) reaches nobody and opens nothing. *)
Theorem C13_silent_everywhere : forall c auto st0 h r1 r2 late,
  let l := reached c auto st0 h in
  s_failed (l_s l) = false -> forallb late_lop late = true ->
  forall outs x, In outs (snd (lrun (fst (shutdown l r1 r2)) late)) -> In x outs -> no_delivery x.
Proof. exact silent_from_every_state. Qed.
Print Assumptions C13_silent_everywhere.

(* the former witness of K4: start, a membership change closes the stream, Close(); then the reopen timer fires *)
Example C13_window_witness :
  let sv := Srv [(0, 20)] [(0, 77)] [] in
  snd (lrun (linit (Cfg false false None []) true fempty) [SOp (Open 0 0 sv); SOp RebClose; Shutdown true true; SOp (RebOpen 0 0 sv)]) =
  [ souts [Callback BeforeStreamStart; OpenReq 0 (MkO 0 0 0 0 18446744073709551615); Callback AfterStreamStart];
    souts [Callback BeforeRebalanceStart; Callback BeforeStreamStop; CloseReq 0; Callback AfterStreamStop; Callback AfterRebalanceStart];
    souts [NoSave] ++ [DcpClose; CliClose; Returned];
    souts [Ignored] ].
Proof. vm_compute. reflexivity. Qed.

(* non-vacuity: a streaming state with a delivery outstanding and a failing store call in flight; the final save
   waits for it, takes the marks it gives back, and stores them; a late delivery and a stale tick do nothing *)
Example C13_example :
  let sv := Srv [(0, 20)] [(0, 77)] [] in
  let it n := MkI n 1700000000000000000 0 [100] n in
  snd (lrun (linit (Cfg false false None []) true fempty)
    [SOp (Open 0 0 sv); SOp (Deliver 0 (Marker 1 5)); SOp (Deliver 0 (Doc KMut (it 1))); SOp (Deliver 0 (Doc KMut (it 2)));
     SOp (Ack 0); SOp SaveBegin; SOp (Ack 1); Shutdown false true; SOp (Deliver 0 (Doc KMut (it 3))); SOp SaveBegin]) =
  [ souts [Callback BeforeStreamStart; OpenReq 0 (MkO 0 0 0 0 18446744073709551615); Callback AfterStreamStart]; [];
    souts [Consume 0 KMut (it 1) (MkO 77 1 1 5 18446744073709551615) default_collection 1700000000];
    souts [Consume 0 KMut (it 2) (MkO 77 2 1 5 18446744073709551615) default_collection 1700000000];
    souts [Track 0 (MkO 77 1 1 5 18446744073709551615)];
    souts [MetaSave [(0, MkD 77 1 1 5)] [0]];
    souts [Track 0 (MkO 77 2 1 5 18446744073709551615)];
    souts [MetaSave [(0, MkD 77 2 1 5)] [0]; Callback BeforeStreamStop; CloseReq 0; Callback AfterStreamStop; Stop] ++ [DcpClose; CliClose; Returned];
    []; souts [NoSave] ].
Proof. vm_compute. reflexivity. Qed.

(* regression witness of the repaired defect K9: the store call in flight has taken the only mark over; the final
   save waits for it (no second store call is needed) and the position is in the store when Start() returns *)
Example C13_inflight_witness :
  let sv := Srv [(0, 20)] [(0, 77)] [] in
  let it n := MkI n 1700000000000000000 0 [100] n in
  let '(l, outs) := lrun (linit (Cfg false false None []) true fempty)
    [SOp (Open 0 0 sv); SOp (Deliver 0 (Marker 1 5)); SOp (Deliver 0 (Doc KMut (it 1))); SOp (Ack 0); SOp SaveBegin; Shutdown true true] in
  nth 5 outs [] = souts [NoSave; Callback BeforeStreamStop; CloseReq 0; Callback AfterStreamStop; Stop] ++ [DcpClose; CliClose; Returned] /\
  s_store (l_s l) 0 = Some (MkD 77 1 1 5) /\ s_inflight (l_s l) = None.
Proof. vm_compute. repeat split; reflexivity. Qed.

(* ... and a late acknowledgement (a consumer finishing its work after Close()) moves and reports nothing: the
   teardown leaves the observer map cleared, and while it is cleared set_offset does nothing (C04_closed_window_frozen,
   repaired defect K8), so a stale schedule tick or a late Commit() finds nothing to write either. *)
Theorem C13_late_ack_frozen : forall c auto st0 h r1 r2 i,
  let l := reached c auto st0 h in
  s_failed (l_s l) = false -> s_obs_nil (l_s l) = false ->
  let s' := l_s (fst (shutdown l r1 r2)) in
  snd (step s' (Ack i)) = [] \/ snd (step s' (Ack i)) = [Ignored].
Proof.
  intros c auto st0 h r1 r2 i l F N s'.
  destruct (clean_from_every_streaming_state c auto st0 h r1 r2 F N) as (Q & F' & _).
  fold l in Q, F'. fold s' in Q, F'. unfold step. rewrite F'.
  destruct (nth_error (s_ctxs s') i) as [[vb o]|]; [|now right].
  rewrite (set_offset_closed s' vb o true (q_nil _ Q)). now left.
Qed.
Print Assumptions C13_late_ack_frozen.
