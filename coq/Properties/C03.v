(* C03 -- Per-vBucket delivery is complete, ordered, duplicate-free and faithful.
   Model: the observer of Model/Stream.v as a transducer (Proofs/ObserverProofs.v) and the listener of
   the stream. Tie to /repo: Corr/CorrStream.v. *)
From Verif Require Import Base.Prelude Base.Bytes Model.Stream Proofs.StreamProofs Proofs.ObserverProofs.
Local Open Scope N_scope.

(* With no catch-up pending, what the observer forwards for a whole event sequence is the MAP of a pure
   per-event function over the sequence annotated with the snapshot in force: one output per input, in
   the server's order, each depending only on its own event -- no drop, no duplicate, no reordering;
   [fwd_spec] keeps every field of the server's event and attaches the event's own position. *)
Theorem C03_delivery_is_a_map : forall c evs ob,
  ob_catchup ob = None ->
  snd (obs_run c ob evs) = map (fwd_spec c (ob_uuid ob) (ob_latest ob) (ob_closed ob)) (annotate (ob_snap ob) evs).
Proof. exact obs_run_map. Qed.
Print Assumptions C03_delivery_is_a_map.

(* the only document events removed on the way to the consumer are the documented filters:
   before skipUntil (FNone), reserved keys (absorbed by the listener); everything else inside its
   snapshot is handed over unchanged with collection name, event time and its own offset *)
Theorem C03_kept_iff : forall c uuid latest k it sn,
  fwd_spec c uuid latest false (Doc k it, sn) =
  if before_skip c (i_cas it) then FNone
  else match sn with
       | Some (s, e') => if in_snap sn (i_seq it)
                         then FDoc k it (MkO uuid (i_seq it) s e' latest) (coll_name (c_colls c) (i_cid it)) (event_time_s (i_cas it))
                         else FFail
       | None => FFail
       end.
Proof. intros. reflexivity. Qed.
Print Assumptions C03_kept_iff.

(* the listener passes a forwarded document event to the consumer with all its fields, unless its key is reserved *)
Theorem C03_listener_faithful : forall s vb ob e ob' k it o coll t,
  s_failed s = false -> s_obs s vb = Some ob -> obs_event (s_cfg s) ob e = (ob', FDoc k it o coll t) ->
  is_meta (i_key it) = false ->
  snd (step s (Deliver vb e)) = [Consume vb k it o coll t].
Proof. intros s vb ob e ob' k it o coll t F Ho He Hm. unfold step. now rewrite F, Ho, He, Hm. Qed.
Print Assumptions C03_listener_faithful.

(* after a server-requested rollback (catch-up pending at F): an event at or below F is not shown again,
   the first event above F ends the catch-up and is treated exactly as without it *)
Theorem C03_catchup : forall c ob e F q,
  ob_catchup ob = Some F -> ev_seq e = Some q ->
  (q <= F -> snd (obs_event c ob e) = FNone) /\
  (F < q -> obs_event c ob e = obs_event c (with_catchup ob None) e).
Proof.
  intros c ob e F q Hc He. split; intros Hq.
  - exact (proj1 (catchup_suppresses c ob e F q Hc He Hq)).
  - exact (proj1 (catchup_passes c ob e F q Hc He Hq)).
Qed.
Print Assumptions C03_catchup.

(* different vBuckets do not interfere: a delivery on one leaves the observer of every other untouched *)
Theorem C03_independent : forall s vb e vb',
  vb' <> vb -> s_obs (fst (step s (Deliver vb e))) vb' = s_obs s vb'.
Proof.
  intros s vb e vb' Hne. unfold step. destruct (s_failed s); [reflexivity|].
  destruct (s_obs s vb) as [ob|] eqn:Eo; [|reflexivity]. destruct (obs_event (s_cfg s) ob e) as [ob1 f].
  assert (G : forall s1 o d, s_obs (fst (set_offset s1 vb o d)) = s_obs s1).
  { intros s1 o d. pose proof (set_offset_spec s1 vb o d) as H. destruct (set_offset s1 vb o d) as [s2 outs].
    cbn [fst]. destruct H as [R _]. apply R. }
  destruct f as [|k it o coll t|o|]; cbn [fst].
  - cbn. now apply fupd_other.
  - destruct (is_meta (i_key it)); [rewrite G|]; cbn; now apply fupd_other.
  - rewrite G. cbn. now apply fupd_other.
  - cbn. now apply fupd_other.
Qed.
Print Assumptions C03_independent.

Example C03_example :
  let it n key := MkI n 1700000005000000000 9 key n in
  let ob := with_uuid (new_obs 18446744073709551615) 77 in
  snd (obs_run (Cfg false false (Some 1700000003000000000) [(9, [99])]) ob
        [Marker 1 3; Doc KMut (it 1 [100]); Doc KDel (MkI 2 1700000002999999999 9 [101] 2); Sys SCreateColl 3 8; SeqAdv 4]) =
  [FNone; FDoc KMut (it 1 [100]) (MkO 77 1 1 3 18446744073709551615) [99] 1700000005; FNone;
   FAdvance (MkO 77 3 1 3 18446744073709551615); FAdvance (MkO 77 4 4 4 18446744073709551615)].
Proof. vm_compute. reflexivity. Qed.
