(* C02 -- A session resumes exactly where the persisted checkpoint says.
   Models: checkpoint.Load in Model/Stream.v (load_one / load_all / do_open), the backends in
   Model/Backends.v. Tie to /repo: Corr/CorrStream.v (real stream.Open on stores of every shape),
   Corr/CorrC02.v (real file backend, read-only wrapper, and -- wire level -- the real client.OpenStream). *)
From Verif Require Import Base.Prelude Base.Bytes Model.Stream Model.Backends Proofs.StreamProofs Proofs.BackendsProofs.
Local Open Scope N_scope.

(* an open requests every assigned vBucket, in ascending order, with exactly the loaded offset ... *)
Theorem C02_requests : forall s first last sv s' outs,
  do_open s first last sv = Some (s', outs) ->
  outs = [Callback BeforeStreamStart]
         ++ flat_map (fun vb => match s_offs s' vb with Some o => [OpenReq vb o] | None => [] end) (vb_list first last)
         ++ [Callback AfterStreamStart] /\
  forall vb, In vb (vb_list first last) ->
    exists o m, s_offs s' vb = Some o /\
      load_one (s_cfg s) (store_exists (s_store s) (vb_list first last)) (s_store s) (assoc (sv_high sv)) (assoc (sv_uuid sv)) vb = Some (o, m).
Proof. exact do_open_requests. Qed.
Print Assumptions C02_requests.

(* ... which is: the persisted vbUUID, seqNo and snapshot range, for ALL field values ... *)
Theorem C02_stored : forall c st high uuid0 vb d o m,
  st vb = Some d -> load_one c true st high uuid0 vb = Some (o, m) ->
  o = MkO (d_uuid d) (d_seq d) (d_start d) (d_end d) (latest_of c (get0 high vb)) /\ m = false.
Proof. exact load_one_stored. Qed.
Print Assumptions C02_stored.

(* ... all zero when the vBucket has no checkpoint and either another assigned vBucket has one or auto-reset is earliest ... *)
Theorem C02_none_earliest : forall c exist st high uuid0 vb o m,
  st vb = None -> (exist = true \/ c_latest c = false) -> load_one c exist st high uuid0 vb = Some (o, m) ->
  o = MkO 0 0 0 0 (latest_of c (get0 high vb)) /\ m = false.
Proof. exact load_one_none_earliest. Qed.
Print Assumptions C02_none_earliest.

(* ... the current high seqNo on the branch at the head of the failover log when no assigned vBucket has a
   checkpoint and auto-reset is latest (and that position is flagged for saving unless it is 0) *)
Theorem C02_latest : forall c st high uuid0 vb o m,
  c_latest c = true -> load_one c false st high uuid0 vb = Some (o, m) ->
  o = MkO (get0 uuid0 vb) (get0 high vb) (get0 high vb) (get0 high vb) (latest_of c (get0 high vb)) /\ m = negb (get0 high vb =? 0).
Proof. exact load_one_latest. Qed.
Print Assumptions C02_latest.

(* the requested end: unbounded in infinite mode, the high seqNo sampled at open in finite mode *)
Theorem C02_end : forall c h, latest_of c h = if c_finite c then h else 18446744073709551615.
Proof. reflexivity. Qed.
Print Assumptions C02_end.

(* save-then-load is lossless through every backend, for every field value: the file backend returns the
   whole dump, the Couchbase backend every document that was flagged, and leaves the others alone *)
Theorem C02_roundtrip : forall (f : file) st dump dirty vbs,
  file_load (file_save f dump dirty) vbs = (dump, true) /\
  (forall vb d, In vb dirty -> lookup_doc dump vb = Some d -> cb_save st dump dirty vb = Some d) /\
  (forall vb, ~ In vb dirty -> cb_save st dump dirty vb = st vb).
Proof.
  intros. split; [apply file_roundtrip|]. split; [intros; now apply cb_roundtrip|intros; now apply cb_untouched].
Qed.
Print Assumptions C02_roundtrip.

(* read-only mode: loads are identical, nothing is ever written *)
Theorem C02_readonly : forall (f : file) st dump dirty vbs,
  file_load (ro_save f dump dirty) vbs = file_load f vbs /\ cb_load (ro_save st dump dirty) vbs = cb_load st vbs /\
  ro_save f dump dirty = f /\ ro_save st dump dirty = st.
Proof. intros. repeat split; reflexivity. Qed.
Print Assumptions C02_readonly.

Example C02_example :
  let st := fupd fempty 3 (MkD 18446744073709551615 18446744073709551614 9007199254740993 18446744073709551615) in
  load_one (Cfg true false None []) true st (assoc [(3, 18446744073709551615)]) fempty 3 =
    Some (MkO 18446744073709551615 18446744073709551614 9007199254740993 18446744073709551615 18446744073709551615, false) /\
  load_one (Cfg false true None []) false fempty (assoc [(4, 17)]) (assoc [(4, 99)]) 4 = Some (MkO 99 17 17 17 18446744073709551615, true).
Proof. vm_compute. split; reflexivity. Qed.

(* read-only mode over a whole history of one wrapper object (saves reaching the wrapped backend directly in between,
   saves attempted through the wrapper, loads with changing vBucket sets): the backend and every load are what they would
   be without the attempted saves, and each load returns what the backend holds at that moment for the vBuckets asked
   for then -- not what an earlier load returned *)
Theorem C02_readonly_history : forall l f,
  ro_run f l = ro_run f (List.filter (fun s => negb (through_wrapper s)) l).
Proof. exact ro_run_ignores_wrapper_saves. Qed.
Print Assumptions C02_readonly_history.

Theorem C02_readonly_load_is_current : forall l1 vbs l2 f,
  nth_error (snd (ro_run f (l1 ++ RoLoad vbs :: l2))) (length (snd (ro_run f l1))) = Some (file_load (fst (ro_run f l1)) vbs).
Proof. exact ro_run_load_current. Qed.
Print Assumptions C02_readonly_load_is_current.

Example C02_readonly_history_example :
  snd (ro_run None [RoLoad [0; 1]; RoSave [(0, MkD 1 2 2 2)] [0]; RoLoad [2]; RoBackendSave [(2, MkD 7 5 5 5)] [2]; RoLoad [2]; RoBackendClear; RoLoad [3]]) =
  [([(0, empty_doc); (1, empty_doc)], false); ([(2, empty_doc)], false); ([(2, MkD 7 5 5 5)], true); ([(3, empty_doc)], false)].
Proof. vm_compute. reflexivity. Qed.
