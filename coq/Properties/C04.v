(* C04 -- Tracked position only moves forward and equals the furthest settled event.
   Model: Model/Stream.v (setOffset and everything that calls it). Tie to /repo: Corr/CorrStream.v. *)
From Verif Require Import Base.Prelude Base.Bytes Model.Stream Proofs.StreamProofs.
Local Open Scope N_scope.

(* In a session (any list of deliveries, acknowledgements in any order and with any repetition, saves,
   scrapes and stream ends while the stream is open), for every assigned vBucket the tracked sequence number
   is the maximum of the resume position and of everything settled so far. *)
Theorem C04_max : forall ops s vb cur,
  forallb session_op ops = true -> s_obs_nil s = false -> in_range (s_range s) vb = true -> s_offs s vb = Some cur ->
  exists x, s_offs (fst (run s ops)) vb = Some x /\ o_seq x = N.max (o_seq cur) (max_seq vb (log_run s ops)).
Proof. exact session_max. Qed.
Print Assumptions C04_max.

(* hence it never moves backwards, whatever the order of the acknowledgements *)
Theorem C04_monotone : forall s o v cur,
  session_op o = true -> s_offs s v = Some cur ->
  exists cur', s_offs (fst (step s o)) v = Some cur' /\ o_seq cur <= o_seq cur'.
Proof. exact session_step_mono. Qed.
Print Assumptions C04_monotone.

(* every accepted move is reported to the offset tracker with exactly the stored offset, every rejected
   one changes nothing at all *)
Theorem C04_track : forall s vb o d,
  let '(s', outs) := set_offset s vb o d in
  same_rest s s' /\
  if accepts s vb o then
    outs = [Track vb o] /\ s_offs s' = fupd (s_offs s) vb o /\
    s_dirty s' = (if d then fupd (s_dirty s) vb true else s_dirty s) /\
    s_any_dirty s' = (if d then true else s_any_dirty s)
  else outs = [] /\ s' = s.
Proof. exact set_offset_spec. Qed.
Print Assumptions C04_track.

(* acknowledgements for a vBucket outside the assigned range are ignored: no position, no mark, no
   checkpoint is created or altered (only the save fast-path flag is raised) *)
Theorem C04_foreign : forall s i vb o,
  s_failed s = false -> nth_error (s_ctxs s) i = Some (vb, o) -> in_range (s_range s) vb = false ->
  let s' := fst (step s (Ack i)) in
  snd (step s (Ack i)) = [] /\ s_offs s' = s_offs s /\ s_dirty s' = s_dirty s /\ s_store s' = s_store s /\
  s_inflight s' = s_inflight s.
Proof.
  intros s i vb o F E R. unfold step. rewrite F, E, (set_offset_foreign s vb o true R). cbn. auto.
Qed.
Print Assumptions C04_foreign.

(* acknowledgements on different vBuckets do not disturb each other: each leaves the other's position alone *)
Theorem C04_independent : forall s vb' o' d vb,
  vb <> vb' -> s_offs (fst (set_offset s vb' o' d)) vb = s_offs s vb.
Proof.
  intros s vb' o' d vb Hne. pose proof (set_offset_spec s vb' o' d) as H.
  destruct (set_offset s vb' o' d) as [s' outs]. cbn [fst]. destruct H as [_ H]. destruct (accepts s vb' o').
  - destruct H as (_ & -> & _). now apply fupd_other.
  - now destruct H as [_ ->].
Qed.
Print Assumptions C04_independent.

(* non-vacuity: out-of-order and repeated acknowledgements *)
Example C04_example :
  let sv := Srv [(0, 20)] [(0, 77)] [] in
  let it n := MkI n 1700000000000000000 0 [100] n in
  let s := fst (run (init_state (Cfg false false None []) fempty)
    [Open 0 0 sv; Deliver 0 (Marker 1 5); Deliver 0 (Doc KMut (it 1)); Deliver 0 (Doc KMut (it 2)); Deliver 0 (Doc KMut (it 3));
     Ack 2; Ack 0; Ack 1; Ack 2]) in
  option_map o_seq (s_offs s 0) = Some 3.
Proof. vm_compute. reflexivity. Qed.

(* While the stream is closed -- between the close and the reopen of a rebalance, after the shutdown -- an
   acknowledgement changes nothing and reports nothing: there is no position it could move backwards (repaired
   defect K8: the regression guard used to have nothing to compare with in that window). *)
Theorem C04_closed_window_frozen : forall s i,
  s_obs_nil s = true ->
  let s' := fst (step s (Ack i)) in
  (forall x, In x (snd (step s (Ack i))) -> match x with Track _ _ => False | _ => True end) /\
  s_offs s' = s_offs s /\ s_dirty s' = s_dirty s /\ s_store s' = s_store s.
Proof.
  intros s i N. unfold step. destruct (s_failed s); [cbn; split; [intros x [<-|[]]; exact I|auto]|].
  destruct (nth_error (s_ctxs s) i) as [[vb o]|]; [|cbn; split; [intros x [<-|[]]; exact I|auto]].
  rewrite (set_offset_closed s vb o true N). cbn. split; [intros x []|auto].
Qed.
Print Assumptions C04_closed_window_frozen.

(* the former witness of K8: the late acknowledgement of the older event is now ignored *)
Example C04_closed_window_witness :
  let sv := Srv [(0, 20)] [(0, 77)] [] in
  let it n := MkI n 1700000000000000000 0 [100] n in
  snd (run (init_state (Cfg false false None []) fempty)
    [Open 0 0 sv; Deliver 0 (Marker 1 5); Deliver 0 (Doc KMut (it 1)); Deliver 0 (Doc KMut (it 2));
     Ack 1; RebClose; Ack 0]) =
  [[Callback BeforeStreamStart; OpenReq 0 (MkO 0 0 0 0 18446744073709551615); Callback AfterStreamStart]; [];
   [Consume 0 KMut (it 1) (MkO 77 1 1 5 18446744073709551615) default_collection 1700000000];
   [Consume 0 KMut (it 2) (MkO 77 2 1 5 18446744073709551615) default_collection 1700000000];
   [Track 0 (MkO 77 2 1 5 18446744073709551615)];
   [Callback BeforeRebalanceStart; Callback BeforeStreamStop; CloseReq 0; Callback AfterStreamStop; Callback AfterRebalanceStart];
   []].
Proof. vm_compute. reflexivity. Qed.

(* ---- setOffset over the containers it really uses ----
   Model/Stream.v keeps the tracked positions and the dirty marks as total functions; the code keeps them in two
   wrapper.ConcurrentSwissMap containers and updates them with Load / Store / StoreIf (Model/SwissMap.v, tied to the real
   container by Corr/CorrSwissMap.v).  For every state of the open stream, every pair of containers that represent its two
   functions, every assigned vBucket, position and dirty flag: the code's sequence of container operations yields
   containers that represent the functions of set_offset's result, TrackOffset is called exactly when the model says so,
   and the containers keep one entry per key. *)
From Verif Require Import Model.SwissMap Proofs.SwissMapProofs Proofs.ContainerStream.

Theorem C04_setoffset_on_container : forall s offs dirty vb o d,
  s_obs_nil s = false -> in_range (s_range s) vb = true ->
  (forall k, sm_load offs k = s_offs s k) -> (forall k, sm_load dirty k = s_dirty s k) ->
  (forall k, sm_load (fst (fst (c_set_offset offs dirty vb o d))) k = s_offs (fst (set_offset s vb o d)) k) /\
  (forall k, sm_load (snd (fst (c_set_offset offs dirty vb o d))) k = s_dirty (fst (set_offset s vb o d)) k) /\
  snd (set_offset s vb o d) = (if snd (c_set_offset offs dirty vb o d) then [Track vb o] else []).
Proof. exact c_set_offset_abs. Qed.
Print Assumptions C04_setoffset_on_container.

Theorem C04_setoffset_keeps_containers : forall (offs : smap_of offset) (dirty : smap_of bool) vb o d,
  NoDup (map fst offs) -> NoDup (map fst dirty) ->
  NoDup (map fst (fst (fst (c_set_offset offs dirty vb o d)))) /\ NoDup (map fst (snd (fst (c_set_offset offs dirty vb o d)))).
Proof. exact c_set_offset_inv. Qed.
Print Assumptions C04_setoffset_keeps_containers.

(* non-vacuity: a later position replaces the entry and marks it, an earlier one changes nothing and is not tracked *)
Example C04_container_example :
  let o n := MkO 77 n 1 9 18446744073709551615 in
  c_set_offset [(0, o 5)] [(0, false)] 0 (o 7) true = ([(0, o 7)], [(0, true)], true) /\
  c_set_offset [(0, o 5)] [(0, false)] 0 (o 3) true = ([(0, o 5)], [(0, false)], false) /\
  c_set_offset [(0, o 5)] [(0, true)] 1 (o 2) false = ([(1, o 2); (0, o 5)], [(0, true)], true).
Proof. vm_compute. repeat split; reflexivity. Qed.
