(* C19 -- Health checking is fail-stop after five consecutive failures, and stoppable.
   Model: Model/Health.v (Start/Stop with their once-guards, ticker loop, bounded retry loop).
   Tie to /repo: Corr/CorrC19.v (the real NewHealthCheck driven through a scripted Ping). *)
From Verif Require Import Base.Prelude Model.Health Proofs.HealthProofs.

(* A round (tick, then one result per ping, every retry wait elapsing) terminates the process exactly
   when its first five results are failures -- for every result stream, of any length. *)
Theorem C19_panic_iff : forall rs,
  In OPanic (outs_of h_ready (Await false :: round_ops rs)) <-> 5 <= leading_failures rs.
Proof.
  intros rs. rewrite tick_round. split.
  - intros [H|H]; [discriminate|]. apply (round_panic rs 1) in H; unfold max_retries in *; lia.
  - intros H. right. apply (round_panic rs 1); unfold max_retries; lia.
Qed.
Print Assumptions C19_panic_iff.

(* number of pings issued in the round: one more than the leading failures, at most five *)
Theorem C19_pings : forall rs,
  count_pings (outs_of h_ready (Await false :: round_ops rs)) = Nat.min 5 (S (leading_failures rs)).
Proof.
  intros rs. rewrite tick_round. unfold count_pings. cbn [filter is_ping length].
  fold (count_pings (outs_of (in_round 1) (round_ops rs))).
  rewrite (round_pings rs 1) by (unfold max_retries; lia). unfold max_retries. lia.
Qed.
Print Assumptions C19_pings.

(* any success among the first five results ends the round without consequence: the checker is idle again *)
Theorem C19_success_ends_round : forall rs,
  leading_failures rs <= 4 -> leading_failures rs < length rs ->
  fst (h_run h_ready (Await false :: round_ops rs)) = h_ready /\
  ~ In OPanic (outs_of h_ready (Await false :: round_ops rs)).
Proof.
  intros rs H4 Hl. split.
  - cbn [h_run]. unfold h_step at 1; cbn.
    pose proof (round_success rs 1 ltac:(unfold max_retries; lia) ltac:(unfold max_retries; lia) Hl) as R.
    unfold in_round in R. destruct (h_run _ (round_ops rs)) as [s2 o2]. exact R.
  - rewrite C19_panic_iff. lia.
Qed.
Print Assumptions C19_success_ends_round.

(* after Stop() has returned no ping is issued, from any point of any history after Start *)
Theorem C19_no_ping_after_stop : forall pre o post,
  let s1 := fst (h_run h_ready pre) in
  In OStopReturned (snd (h_step s1 o)) -> ~ In OPing (outs_of (fst (h_step s1 o)) post).
Proof. exact no_ping_after_stop. Qed.
Print Assumptions C19_no_ping_after_stop.

(* Stop() returns at once unless a ping is in flight, in particular in the middle of a retry wait;
   with a ping in flight it returns with that ping (unless it was the fifth failure) *)
Theorem C19_stop_prompt : forall pre,
  let s := fst (h_run h_ready pre) in
  crashed s = false -> stop_once s = false ->
  ((forall n, ph s <> Pinging n) -> snd (h_step s Stop) = [OStopReturned]) /\
  (forall n ok, running s = true -> ph s = Pinging n -> ok = true \/ n < max_retries ->
     snd (h_step (fst (h_step s Stop)) (PingRes ok)) = [OStopReturned]).
Proof.
  intros pre s C S. pose proof (hinv_run pre h_ready hinv_ready) as I. split.
  - intros P. now apply stop_returns_promptly.
  - intros n ok R P Hok. now apply (stop_returns_with_ping s n ok).
Qed.
Print Assumptions C19_stop_prompt.

(* repeated Start and repeated Stop change nothing *)
Theorem C19_idempotent : forall s,
  (start_once s = true -> h_step s Start = (s, [])) /\
  (stop_once s = true -> stop_waiting s = 0 -> crashed s = false -> h_step s Stop = (s, [OStopReturned])).
Proof. exact (fun s => conj (start_idempotent s) (stop_idempotent s)). Qed.
Print Assumptions C19_idempotent.

(* observation (outside the property's quantifier, which speaks of Stop() calls made after Start()):
   a Stop() before the first Start() uses up the once-guard, after which the checker cannot be stopped *)
Example C19_stop_before_start_observation :
  h_outputs [Stop; Start; Await false; PingRes true; Stop; Await false] =
  [OStopReturned; OPing; OStopReturned; OPing].
Proof. vm_compute. reflexivity. Qed.

(* non-vacuity: the 32 patterns of a round, by computation *)
Definition all5 : list (list bool) :=
  map (fun '(a,(b,(c,(d,e)))) => [a;b;c;d;e])
    (list_prod [true;false] (list_prod [true;false] (list_prod [true;false] (list_prod [true;false] [true;false])))).
Example C19_all_32 :
  length all5 = 32 /\
  forallb (fun rs => Bool.eqb (existsb (fun o => match o with OPanic => true | _ => false end)
                                 (outs_of h_ready (Await false :: round_ops rs)))
                              (5 <=? leading_failures rs)) all5 = true.
Proof. vm_compute. split; reflexivity. Qed.
