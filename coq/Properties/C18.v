(* C18 -- Server-version gating rests on a consistent total order.
   Model: Model/Version.v (Higher/Equal/Lower, nodeVersionFromString, the three gates), components in
   unbounded Z. Tie to /repo: Corr/CorrC18.v. *)
From Verif Require Import Base.Prelude Base.Bytes Model.Version Proofs.VersionProofs.

(* for any two versions exactly one of lower / equal / higher holds *)
Theorem C18_trichotomy : forall v o,
  (lower v o = true /\ equal v o = false /\ higher v o = false) \/
  (lower v o = false /\ equal v o = true /\ higher v o = false) \/
  (lower v o = false /\ equal v o = false /\ higher v o = true).
Proof. exact trichotomy. Qed.
Print Assumptions C18_trichotomy.

Theorem C18_antisym : forall v o, higher v o = true -> higher o v = false.
Proof. exact higher_antisym. Qed.
Print Assumptions C18_antisym.

Theorem C18_trans : forall a b c, higher a b = true -> higher b c = true -> higher a c = true.
Proof. exact higher_trans. Qed.
Print Assumptions C18_trans.

(* lower is the converse of higher, equal is equality of the tuples *)
Theorem C18_lower_converse : forall v o, higher v o = lower o v.
Proof. exact higher_lower. Qed.
Print Assumptions C18_lower_converse.

Theorem C18_equal_eq : forall v o, equal v o = true <-> v = o.
Proof. exact equal_eq. Qed.
Print Assumptions C18_equal_eq.

(* "M.m.p-build-edition" parses to the tuple it denotes: all naturals below 2^63, any edition text *)
Theorem C18_parse_render : forall ma mi pa bu ed,
  (ma < two63)%N -> (mi < two63)%N -> (pa < two63)%N -> (bu < two63)%N ->
  parse (render ma mi pa bu ed) = Some (V (Z.of_N ma) (Z.of_N mi) (Z.of_N pa) (Z.of_N bu)).
Proof. exact parse_render. Qed.
Print Assumptions C18_parse_render.

(* gating is monotone in the server version: once on, on for every later version; the "<" gate conversely *)
Theorem C18_gate_monotone : forall v w, geq w v = true ->
  (use_expiry_opcode v = true -> use_expiry_opcode w = true) /\
  (forall magma, use_change_streams magma v = true -> use_change_streams magma w = true) /\
  (serial_close w = true -> serial_close v = true).
Proof.
  intros v w H. unfold use_expiry_opcode, use_change_streams, serial_close.
  fold (geq v srv650) (geq w srv650) (geq v srv720) (geq w srv720).
  rewrite !lower_not_geq. split; [|split].
  - intros G. exact (geq_trans _ _ _ H G).
  - intros magma G. apply andb_true_iff in G. destruct G as [-> G]. exact (geq_trans _ _ _ H G).
  - intros G. destruct (geq v srv550) eqn:E; [|reflexivity].
    rewrite (geq_trans _ _ _ H E) in G. exact G.
Qed.
Print Assumptions C18_gate_monotone.

Example C18_example :
  parse (render 7 2 0 5325 [101; 110; 116]%N) = Some (V 7 2 0 5325) /\
  use_change_streams true (V 7 2 0 5325) = true /\ use_change_streams true (V 7 1 9 9999) = false /\
  serial_close (V 5 4 9 9) = true /\ serial_close (V 5 5 0 0) = false.
Proof. vm_compute. repeat split; reflexivity. Qed.
