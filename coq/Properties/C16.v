(* C16 -- Exposed metrics and state endpoints tell the truth.
   Model: the Scrape op of Model/Stream.v (metric/collector.go Collect) and the observer counters.
   Tie to /repo: Corr/CorrStream.v (the real metric collector is run on the real stream). *)
From Verif Require Import Base.Prelude Base.Bytes Model.Stream Proofs.StreamProofs Proofs.ObserverProofs.
Local Open Scope N_scope.

Definition lag_spec (high seq : N) : Z := Z.max 0 (Z.of_N high - Z.of_N seq).

(* at every scrape of an open stream: one row per assigned vBucket with exactly the tracked position and
   its snapshot, lag = max(0, high - seq), total lag = their sum, active and rebalance counts as in effect *)
Theorem C16_scrape : forall s high,
  s_failed s = false -> s_obs_nil s = false ->
  exists orows frows total,
    snd (step s (Scrape high)) = [Metrics orows frows total (s_active s) (s_rebalances s)] /\
    (forall vb row, In (vb, row) frows ->
       exists o, s_offs s vb = Some o /\
       row = (o_seq o, o_start o, o_end o, Z.to_N (lag_spec (get0 (assoc high) vb) (o_seq o)))) /\
    (forall vb o, In vb (range_list (s_range s)) -> s_offs s vb = Some o -> exists row, In (vb, row) frows) /\
    total = fold_left (fun a r => a + snd (snd r)) frows 0 /\
    (forall vb row, In (vb, row) orows -> exists ob, s_obs s vb = Some ob /\ row = (0, ob_mut ob, ob_del ob, ob_exp ob)) /\
    fst (step s (Scrape high)) = s.
Proof.
  intros s high F Hn. unfold step. rewrite F, Hn. eexists _, _, _. split; [reflexivity|]. cbn [fst].
  split; [|split; [|split; [reflexivity|split; [|reflexivity]]]].
  - intros vb row Hin. apply in_flat_map in Hin. destruct Hin as (v & _ & Hin).
    destruct (s_offs s v) as [o|] eqn:Eo; [|contradiction]. destruct Hin as [[= <- <-]|[]].
    exists o. split; [exact Eo|]. f_equal. unfold lag_spec. destruct (N.ltb_spec (o_seq o) (get0 (assoc high) v)); lia.
  - intros vb o Hin Ho. eexists. apply in_flat_map. exists vb. split; [exact Hin|]. rewrite Ho. now left.
  - intros vb row Hin. apply in_flat_map in Hin. destruct Hin as (v & _ & Hin).
    destruct (s_obs s v) as [ob|] eqn:Eo; [|contradiction]. destruct Hin as [[= <- <-]|[]]. now exists ob.
Qed.
Print Assumptions C16_scrape.

(* the unsigned subtraction without its guard would lie: removing the guard is observable *)
Theorem C16_guard_matters : exists seq high, high < seq /\ ((Z.of_N high - Z.of_N seq) mod 2^64 <> 0)%Z.
Proof. exists 5, 3. split; [lia|]. vm_compute. discriminate. Qed.
Print Assumptions C16_guard_matters.

(* counters: each grows by exactly one for every accepted event of its kind (inside its snapshot, not
   before skipUntil, not suppressed by catch-up), and by nothing else *)
Theorem C16_counters : forall c ob e,
  let ob' := fst (obs_event c ob e) in
  ob_mut ob' = ob_mut ob + (match accepted c ob e with Some KMut => 1 | _ => 0 end) /\
  ob_del ob' = ob_del ob + (match accepted c ob e with Some KDel => 1 | _ => 0 end) /\
  ob_exp ob' = ob_exp ob + (match accepted c ob e with Some KExp => 1 | _ => 0 end).
Proof. exact obs_event_counts. Qed.
Print Assumptions C16_counters.

(* scraping while the stream is closed returns at once with nothing and changes nothing *)
Theorem C16_closed : forall s high, s_failed s = false -> s_obs_nil s = true -> step s (Scrape high) = (s, [NoMetrics]).
Proof. intros s high F Hn. unfold step. now rewrite F, Hn. Qed.
Print Assumptions C16_closed.

Example C16_example :
  let sv := Srv [(0, 20)] [(0, 77)] [] in
  let it n := MkI n 1700000000000000000 0 [100] n in
  nth 5 (snd (run (init_state (Cfg false false None []) fempty)
    [Open 0 0 sv; Deliver 0 (Marker 1 5); Deliver 0 (Doc KMut (it 1)); Deliver 0 (Doc KDel (it 2)); Ack 1; Scrape [(0, 1)]])) [] =
  [Metrics [(0, (0, 1, 1, 0))] [(0, (2, 1, 5, 0))] 0 1 0].
Proof. vm_compute. reflexivity. Qed.
