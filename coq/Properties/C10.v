(* C10 -- Group members derive a consistent, collision-free numbering.
   Model: Model/Membership.v. Part A: the heart-beat documents of couchbase/membership.go; whether a heart-beat is
   recent enough for the clock of the member running a round is an input of that round (the list [fresh]).
   Part B: the leader-assigned numbering of servicediscovery. Static, StatefulSet and dynamic membership take the
   numbering as given (configuration, host name, API): for them only the "announce on change" rule applies
   (Model.IsChanged, the same comparison as in both parts). Tie to /repo: Corr/CorrC10.v.
   Bounded number of rounds: once the set of instances with a fresh heart-beat is stable, ONE round of a member
   suffices for that member (C10_one_round); how long a dead instance keeps a fresh heart-beat is
   heartbeatInterval + heartbeatToleranceDuration by the clock (checked on the real code). *)
From Verif Require Import Base.Prelude Model.Chunk Proofs.ChunkProofs Model.Membership Proofs.MembershipProofs.
From Verif Require Model.StatefulSet Proofs.StatefulSetProofs Model.Retry Proofs.RetryProofs.

(* One round is enough: from every reachable state, a member that sees itself alive holds, after its round, exactly
   the view of that round (the registered instances with a document and a fresh heart-beat, in join order) and the
   numbering (its position, the size of the view). *)
Theorem C10_one_round : forall ops id f,
  let s := fst (cb_run cb_init ops) in
  In id (view s f) ->
  let s' := fst (monitor s id f) in
  cb_last s' id = view s f /\
  exists p, pos id (view s f) = Some p /\ cb_info s' id = Some (S p, length (view s f)).
Proof. intros ops id f s. apply monitor_self. apply cb_run_inv, CbInv_init. Qed.
Print Assumptions C10_one_round.

(* Agreement at quiescence: from every reachable state, if the live members (any list ms of members of the view, in
   any order, with repetitions) each run a round while the same heart-beats are fresh, every one of them ends up with
   the same view V, hence the same group size, and with its own position in V as member number. Rounds of other
   members (which rewrite the index under CAS) do not disturb a member that already holds V. *)
Theorem C10_agreement : forall ops ms f,
  let s := fst (cb_run cb_init ops) in
  (forall m, In m ms -> In m (view s f)) ->
  let s' := fst (cb_run s (map (fun m => Monitor m f) ms)) in
  NoDup (view s f) /\
  forall m, In m ms ->
    cb_last s' m = view s f /\ exists p, pos m (view s f) = Some p /\ cb_info s' m = Some (S p, length (view s f)).
Proof.
  intros ops ms f s H s'. assert (I : CbInv s) by apply cb_run_inv, CbInv_init.
  split; [apply view_nodup, I|]. intros m Hm.
  destruct (rounds_agree ms s f I H) as (_ & _ & _ & G). exact (G m Hm).
Qed.
Print Assumptions C10_agreement.

(* ... the numbers are pairwise distinct and lie in 1..size ... *)
Theorem C10_distinct_in_range : forall V a b p q,
  pos a V = Some p -> pos b V = Some q ->
  (1 <= S p <= length V) /\ (S p = S q -> a = b).
Proof.
  intros V a b p q Ha Hb. split; [pose proof (pos_lt _ _ _ Ha); lia|].
  intros [= ->]. eapply pos_inj; eauto.
Qed.
Print Assumptions C10_distinct_in_range.

(* ... in join order ... *)
Theorem C10_join_order : forall s f, ssorted (view_entries s f).
Proof. intros s f. unfold view_entries. apply ssorted_filter, sort_ssorted. Qed.
Print Assumptions C10_join_order.

(* ... so that together with the partition rule (C09) each vBucket has exactly one owner among the members of V *)
Theorem C10_one_owner : forall (V : list N) (n v : nat),
  NoDup V -> 1 <= length V <= n -> v < n ->
  exists m p s e, pos m V = Some p /\ member_range n (length V) (S p) = Some (s, e) /\ s <= v <= e /\
    forall m' p' s' e', pos m' V = Some p' -> member_range n (length V) (S p') = Some (s', e') -> s' <= v <= e' -> m' = m.
Proof. exact one_owner. Qed.
Print Assumptions C10_one_owner.

(* Dropped and admitted: a round sees exactly the registered instances that have their document and a fresh
   heart-beat; a member that sees itself is never told that it is not in the group. *)
Theorem C10_view : forall s f m,
  (In m (view s f) -> In m f /\ In m (cb_docs s) /\ In m (map fst (cb_index s))) /\
  (forall j, In (m, j) (cb_index s) -> In m (cb_docs s) -> In m f -> In m (view s f)) /\
  (snd (monitor s m f) = PanicNoSelf m -> ~ In m (view s f)).
Proof.
  intros s f m. split; [apply view_sound|]. split; [intros j; apply view_complete|apply monitor_panic].
Qed.
Print Assumptions C10_view.

(* Announced only on change *)
Theorem C10_announce_on_change : forall s id f i k t,
  snd (monitor s id f) = Publish i k t -> i = id /\ cb_info s id <> Some (k, t).
Proof. exact monitor_publish. Qed.
Print Assumptions C10_announce_on_change.

(* Leader-assigned: after a monitor round of the leader, from every reachable state: the leader is 1 of (followers + 1);
   a follower whose Rebalance RPC succeeded is 2 + its position in join order; one whose RPC failed keeps what it had
   (it is told in the next round); the followers' names are pairwise distinct, so the numbers handed out are too. *)
Theorem C10_leader_round : forall ops fail,
  let s := fst (sd_run sd_init ops) in
  let s' := fst (sd_step s (SRound fail)) in
  let total := S (length (sd_names s)) in
  NoDup (sd_names s) /\
  sd_leader s' = Some (1, total) /\ sd_services s' = sd_services s /\
  forall n, sd_follower s' n =
    match pos n (sd_names s) with
    | Some p => if mem n fail then sd_follower s n else Some (2 + p, total)
    | None => sd_follower s n
    end.
Proof.
  intros ops fail s s' total. assert (I : SdInv s) by (apply sd_run_inv; constructor; constructor).
  split; [now apply sd_names_nodup|]. now apply round_spec.
Qed.
Print Assumptions C10_leader_round.

(* Leader-assigned, the follower's side: a follower whose ping of the leader fails reconnects and, when that works,
   registers again -- always, a connection that looks fine after the reconnect is no reason not to (the leader drops a
   follower it cannot ping, a restarted leader knows nobody) -- and lets the leader go when either step fails. Once it
   has registered again the next leader round numbers it like every other follower, whatever happened before. *)
Theorem C10_follower_readmitted : forall p r g,
  fh_round true p r g =
    (if p then [] else if negb r then [FReconnect; FDropLeader] else if g then [FReconnect; FRegister] else [FReconnect; FRegister; FDropLeader],
     p || (r && g)) /\
  (p = false -> r = true -> In FRegister (fst (fh_round true p r g))) /\
  forall ops name join fail, mem name fail = false ->
    let s := fst (sd_run sd_init (ops ++ [SAdd name join])) in
    exists q, pos name (sd_names s) = Some q /\
              sd_follower (fst (sd_step s (SRound fail))) name = Some ((2 + q)%nat, S (length (sd_names s))).
Proof.
  intros p r g. split; [|split].
  - destruct p, r, g; reflexivity.
  - intros -> ->. destruct g; cbn; auto.
  - intros ops name join fail Hf. exact (registered_is_numbered ops name join fail Hf).
Qed.
Print Assumptions C10_follower_readmitted.

(* StatefulSet membership: the member number is the ordinal at the end of the pod's host name plus one, within the
   configured group size, or the start-up terminates; pods with distinct ordinals get distinct numbers of one group size *)
Theorem C10_statefulset : forall h1 h2 total m1 m2 t1 t2,
  StatefulSet.sts_member h1 total = Some (m1, t1) -> StatefulSet.sts_member h2 total = Some (m2, t2) ->
  (exists o, StatefulSet.pod_ordinal h1 = Some o /\ m1 = (o + 1)%Z /\ t1 = total /\ (m1 <= total)%Z) /\
  (StatefulSet.pod_ordinal h1 <> StatefulSet.pod_ordinal h2 -> m1 <> m2 /\ t1 = t2).
Proof.
  intros h1 h2 total m1 m2 t1 t2 H1 H2. split.
  - exact (StatefulSetProofs.sts_member_spec _ _ _ _ H1).
  - exact (StatefulSetProofs.sts_member_injective _ _ _ _ _ _ _ H1 H2).
Qed.
Print Assumptions C10_statefulset.

(* Leader-assigned: "an instance that stops answering is dropped" rests on the RPC client's retry helper reporting a failure
   when every attempt failed -- and only then *)
Theorem C10_retry_helper_reports_failure : forall answers attempts, (0 < attempts)%nat ->
  (snd (Retry.helper_retry answers attempts 0) = false <-> forall j, (j < attempts)%nat -> answers j = false).
Proof. exact RetryProofs.helper_retry_fails_iff. Qed.
Print Assumptions C10_retry_helper_reports_failure.

(* non-vacuity: three instances join, the second dies silently, the third's document expires; rounds in any order *)
Example C10_example_outputs :
  snd (cb_run cb_init [Register 0 10; Register 1 20; Monitor 1 [0; 1]; Monitor 0 [0; 1]; Register 2 30; Monitor 2 [0; 1; 2];
                       Monitor 0 [0; 2]; Monitor 2 [0; 2]; Expire 2; Monitor 0 [0; 2]; Monitor 2 [0; 2]]%N) =
  [Quiet; Quiet; Publish 1 2 2; Publish 0 1 2; Quiet; Publish 2 3 3; Quiet; Publish 2 2 2; Quiet; Publish 0 1 1; PanicNoSelf 2].
Proof. vm_compute. reflexivity. Qed.

Example C10_leader_example :
  snd (sd_run sd_init [SAdd 0 30; SAdd 1 10; SAdd 2 20; SRound [2]; SRemove 1; SRound []]%N) =
  [[]; []; []; [LPublish 1 4; RCall 1 2 4; FPublish 1 2 4; RCall 2 3 4; RCall 0 4 4; FPublish 0 4 4]; [];
   [LPublish 1 3; RCall 2 2 3; FPublish 2 2 3; RCall 0 3 3; FPublish 0 3 3]].
Proof. vm_compute. reflexivity. Qed.
