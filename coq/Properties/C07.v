(* C07 -- With rollback mitigation, nothing the cluster could still roll back is delivered.
   Model: Model/Rollback.v (replica table, getMinSeqNo, observe callback, delivery gate).
   Tie to /repo: Corr/CorrC07.v (getMinSeqNo through the hook, the gate of a real observer, and the real
   rollbackMitigation against the simulated node). *)
From Verif Require Import Base.Prelude Model.Rollback Proofs.RollbackProofs.
Local Open Scope N_scope.

(* a non-zero minimum means: every copy listed in the cluster map and present is on one common vbUUID and has
   persisted at least that much (and at least one copy is present) *)
Theorem C07_min_meaning : forall rows, min_seq rows <> 0 ->
  exists u, covered rows u (min_seq rows) /\ exists r, In r rows /\ r_absent r = false /\ r_uuid r = u.
Proof. exact min_seq_spec. Qed.
Print Assumptions C07_min_meaning.

(* copies that disagree on the vbUUID (in particular: a copy that has not reported yet, whose vbUUID is 0) block *)
Theorem C07_mismatch_blocks : forall rows r1 r2,
  In r1 rows -> In r2 rows -> r_absent r1 = false -> r_absent r2 = false -> r_uuid r1 <> r_uuid r2 -> min_seq rows = 0.
Proof. exact min_seq_mismatch. Qed.
Print Assumptions C07_mismatch_blocks.

(* the gate: for every history of arrivals, reports, polls and close, an event with seqNo q reaches the
   consumer only while the threshold is at least q, and the threshold is 0 or the minimum of the table at some
   earlier moment: hence every listed copy had reported, under one vbUUID, a persisted seqNo >= q *)
Theorem C07_gate : forall ops g hist,
  justified g hist ->
  let run := g_run g ops in
  forall i outs q, nth_error (snd run) i = Some outs -> In (GDelivered q) outs ->
  q = 0 \/ exists rows u, covered rows u q /\ (exists r, In r rows /\ r_absent r = false /\ r_uuid r = u).
Proof.
  induction ops as [|o r IH]; intros g hist J run i outs q Hn Hin; [destruct i; discriminate|].
  subst run. cbn [g_run] in Hn. pose proof (g_step_justified g o hist J) as J1. pose proof (g_step_delivered g o q) as D.
  destruct (g_step g o) as [g1 out1] eqn:E. cbn [fst snd] in *.
  destruct (g_run g1 r) as [g2 outs2] eqn:R. cbn [snd] in Hn. destruct i as [|i]; cbn in Hn.
  - injection Hn as <-. destruct (D Hin) as [Hle _]. destruct (N.eq_dec q 0) as [->|Hq]; [now left|]. right.
    destruct J as [Z|(rows & _ & Em)]; [lia|].
    assert (Hm : min_seq rows <> 0) by lia. destruct (min_seq_spec rows Hm) as (u & Hc & Hp).
    exists rows, u. split; [|exact Hp].
    unfold covered in *. eapply Forall_impl; [|exact Hc]. intros x [A|[A B]]; [now left|right; split; [exact A|lia]].
  - specialize (IH g1 _ J1 i outs q). rewrite R in IH. cbn [snd] in IH. exact (IH Hn Hin).
Qed.
Print Assumptions C07_gate.

(* the threshold applied to a stream never decreases *)
Theorem C07_threshold_monotone : forall g o, g_thr g <= g_thr (fst (g_step g o)).
Proof. exact g_step_thr_mono. Qed.
Print Assumptions C07_threshold_monotone.

(* an event above the threshold waits; once the threshold covers it the next poll delivers it (no lost
   wake-up); closing the stream releases it without delivering it *)
Theorem C07_wait_wake_close : forall g q, g_waiting g = Some q ->
  (g_thr g < q -> g_closed g = false -> g_step g GPoll = (g, [])) /\
  (q <= g_thr g -> g_closed g = false -> snd (g_step g GPoll) = [GDelivered q] /\ g_waiting (fst (g_step g GPoll)) = None) /\
  (let g1 := fst (g_step g GClose) in snd (g_step g1 GPoll) = [GDropped q] /\ g_waiting (fst (g_step g1 GPoll)) = None).
Proof.
  intros g q W. split; [|split].
  - now apply poll_waits.
  - now apply poll_delivers.
  - now apply close_releases.
Qed.
Print Assumptions C07_wait_wake_close.

(* "every copy listed in the cluster map": the table is rebuilt for a cluster map exactly when its (epoch, revision) is
   later in the lexicographic order -- a later epoch counts whatever its revision, an equal or earlier pair never does --
   and that order is a strict total order, so of two distinct maps exactly one replaces the other *)
Theorem C07_map_adopted_iff_later : forall old new,
  config_newer old new = true <-> (fst old < fst new \/ (fst old = fst new /\ snd old < snd new))%Z.
Proof. exact config_newer_lex. Qed.
Print Assumptions C07_map_adopted_iff_later.

Theorem C07_map_order : (forall a, config_newer a a = false) /\
  (forall a b c, config_newer a b = true -> config_newer b c = true -> config_newer a c = true) /\
  (forall a b, a <> b -> config_newer a b = true \/ config_newer b a = true).
Proof. split; [exact config_newer_irrefl|split; [exact config_newer_trans|exact config_newer_total]]. Qed.
Print Assumptions C07_map_order.

Example C07_example :
  min_seq [Row 7 50 false; Row 7 40 false; Row 0 0 true] = 40 /\ min_seq [Row 7 50 false; Row 8 40 false] = 0 /\
  min_seq [Row 7 50 false; Row 0 0 false] = 0 /\ min_seq [Row 0 0 true] = 0 /\
  snd (g_run (g_init [Row 0 0 false; Row 0 0 false])
        [GArrive 5; GReport 0 7 9; GPoll; GReport 1 7 4; GPoll; GReport 1 7 6; GPoll; GArrive 7; GClose; GPoll]) =
  [[]; []; []; []; []; []; [GDelivered 5]; []; []; [GDropped 7]] /\
  config_newer (1, 7)%Z (2, 3)%Z = true /\ config_newer (2, 3)%Z (1, 7)%Z = false /\ config_newer (1, 7)%Z (1, 7)%Z = false.
Proof. vm_compute. repeat split; reflexivity. Qed.
