(* C06 -- Every offset handed out or persisted is a valid, untorn DCP resume point.
   Model: Model/Stream.v. Tie to /repo: Corr/CorrStream.v (histories of the real stream package). *)
From Verif Require Import Base.Prelude Base.Bytes Model.Stream Proofs.StreamProofs.
Local Open Scope N_scope.

(* For every history from any store of valid documents: every offset attached to a delivered event,
   reported to the offset tracker, requested from the server, or passed to the metadata store satisfies
   snapshotStart <= seqNo <= snapshotEnd. *)
Theorem C06_all_outputs_valid : forall c st0 ops,
  (forall vb d, st0 vb = Some d -> valid_doc d) ->
  Forall (fun outs => Forall out_valid outs) (snd (run (init_state c st0) ops)).
Proof.
  intros c st0 ops H0. assert (I0 : Inv (init_state c st0)) by (now apply Inv_init).
  revert I0. generalize (init_state c st0) as s. induction ops as [|o r IH]; intros s I; [constructor|].
  cbn [run]. pose proof (step_outputs_valid s o I) as V. pose proof (Inv_step s o I) as I1.
  destruct (step s o) as [s1 out1]. cbn [fst snd] in *. specialize (IH s1 I1).
  destruct (run s1 r) as [s2 outs]. cbn [snd] in *. constructor; assumption.
Qed.
Print Assumptions C06_all_outputs_valid.

(* ... and so is everything in the durable store and in memory, at every instant *)
Theorem C06_state_valid : forall c st0 ops,
  (forall vb d, st0 vb = Some d -> valid_doc d) -> Inv (fst (run (init_state c st0) ops)).
Proof. intros c st0 ops H0. apply Inv_run. now apply Inv_init. Qed.
Print Assumptions C06_state_valid.

(* untorn: the offset of a delivered event is (branch of the open response, the event's own seqNo, the
   snapshot announced for it) -- all four fields from one event; same for absorbed events; a
   seqno-advanced event yields (s,[s,s]) *)
Theorem C06_offset_of_event : forall c ob e,
  match snd (obs_event c ob e) with
  | FDoc k it o coll t =>
      e = Doc k it /\ exists s e', ob_snap ob = Some (s, e') /\ o = mk_offset ob s e' (i_seq it) /\ s <= i_seq it <= e' /\
      coll = coll_name (c_colls c) (i_cid it) /\ t = event_time_s (i_cas it) /\ ob_closed ob = false
  | FAdvance o =>
      (exists q, e = SeqAdv q /\ o = mk_offset ob q q q) \/
      (exists k q cid s e', e = Sys k q cid /\ ob_snap ob = Some (s, e') /\ o = mk_offset ob s e' q /\ s <= q <= e')
  | _ => True
  end.
Proof. exact obs_event_offset. Qed.
Print Assumptions C06_offset_of_event.

(* an event that survives the earlier filters but lies outside its announced snapshot stops the client:
   no Consume, no Track *)
Theorem C06_out_of_snapshot_stops : forall c ob k it,
  snd (need_catchup (ob_catchup ob) (i_seq it)) = false -> before_skip c (i_cas it) = false ->
  in_snap (ob_snap ob) (i_seq it) = false ->
  snd (obs_event c ob (Doc k it)) = FFail.
Proof.
  intros c ob k it H1 H2 H3. cbn [obs_event]. destruct (need_catchup (ob_catchup ob) (i_seq it)) as [cu sup].
  cbn in H1. subst sup. rewrite H2. destruct (ob_snap ob) as [[s e']|]; [|reflexivity]. now rewrite H3.
Qed.
Print Assumptions C06_out_of_snapshot_stops.

(* non-vacuity: a history with a late acknowledgement across two snapshots keeps each offset's own range *)
Example C06_example :
  let sv := Srv [(0, 20)] [(0, 77)] [] in
  let it n := MkI n 1700000000000000000 0 [100] n in
  snd (run (init_state (Cfg false false None []) fempty)
    [Open 0 0 sv; Deliver 0 (Marker 1 5); Deliver 0 (Doc KMut (it 5)); Deliver 0 (Marker 11 20);
     Deliver 0 (Doc KMut (it 12)); Ack 1; Ack 0; SaveBegin]) =
  [[Callback BeforeStreamStart; OpenReq 0 (MkO 0 0 0 0 18446744073709551615); Callback AfterStreamStart]; [];
   [Consume 0 KMut (it 5) (MkO 77 5 1 5 18446744073709551615) default_collection 1700000000]; [];
   [Consume 0 KMut (it 12) (MkO 77 12 11 20 18446744073709551615) default_collection 1700000000];
   [Track 0 (MkO 77 12 11 20 18446744073709551615)]; [];
   [MetaSave [(0, MkD 77 12 11 20)] [0]]].
Proof. vm_compute. reflexivity. Qed.
