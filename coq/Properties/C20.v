(* C20 -- No Couchbase call made by the library can hang or invent an outcome.
   Model: Model/AsyncOp.v (async_op.go and the wrapper pattern of doc_op.go / client.go).
   Tie to /repo: Corr/CorrC20.v (every wrapper against the simulated node under scripted server behaviour). *)
From Verif Require Import Base.Prelude Model.AsyncOp Proofs.AsyncOpProofs.

(* for every schedule of reply, deadline and select branches: no send ever blocks, the signal channel never
   holds more than its capacity, Cancel is called at most once *)
Theorem C20_never_blocks : forall ops,
  a_blocked (a_run ops) = false /\ a_signal (a_run ops) <= 1 /\ a_cancels (a_run ops) <= 1.
Proof. intros ops. destruct (ainv_run ops) as (B & S1 & _ & _ & _ & C1 & _). auto. Qed.
Print Assumptions C20_never_blocks.

(* success is never invented: it is reported only if the server replied success, with that very value *)
Theorem C20_exact : forall ops x, a_ret (a_run ops) = Some (ROk x) -> In (Reply (Success x)) ops.
Proof.
  intros ops x H. destruct (ok_means_confirmed ops a_init x eq_refl H) as [Hc|Hin]; [discriminate|exact Hin].
Qed.
Print Assumptions C20_exact.

(* it returns: as soon as the server has answered or the deadline has passed, a select branch is enabled
   that makes the wrapper return (in either order of arrival) *)
Theorem C20_returns : forall ops,
  a_ret (a_run ops) = None -> (a_cb_done (a_run ops) = true \/ a_expired (a_run ops) = true) ->
  a_ret (a_step (a_run ops) SelectSignal) <> None \/ a_ret (a_step (a_run ops) SelectDeadline) <> None.
Proof. intros ops. apply returns_when_enabled, ainv_run. Qed.
Print Assumptions C20_returns.

(* a silent server: the pending operation is cancelled (once) and an error is returned *)
Theorem C20_silent : forall ops, (forall o, ~ In (Reply o) ops) ->
  a_ret (a_run ops) = None \/ (a_ret (a_run ops) = Some RErrDeadline /\ a_cancels (a_run ops) = 1).
Proof. exact silent_server. Qed.
Print Assumptions C20_silent.

(* a completion after the wrapper returned changes nothing and blocks nothing *)
Theorem C20_late : forall ops late r,
  a_ret (a_run ops) = Some r ->
  a_ret (a_run (ops ++ late)) = Some r /\ a_blocked (a_run (ops ++ late)) = false.
Proof.
  intros ops late r H. split.
  - unfold a_run in *. rewrite fold_left_app. now apply ret_stable.
  - apply C20_never_blocks.
Qed.
Print Assumptions C20_late.

Example C20_example :
  a_ret (a_run [Reply (Success 7); SelectSignal]) = Some (ROk 7) /\
  a_ret (a_run [Reply (ServerError 1); SelectSignal]) = Some (RErrServer 1) /\
  a_ret (a_run [Deadline; SelectDeadline; Reply (Success 7)]) = Some RErrDeadline /\
  a_ret (a_run [Reply (Success 7); Deadline; SelectSignal]) = Some RErrDeadline /\
  a_cancels (a_run [Deadline; SelectDeadline; Reply (Success 7)]) = 1.
Proof. vm_compute. repeat split; reflexivity. Qed.
