(* C12 -- Stream ends are recovered, counted and terminate the client correctly.
   Model: Model/Stream.v (listenEnd, reopenStream, wait). Tie to /repo: Corr/CorrStream.v. *)
From Verif Require Import Base.Prelude Base.Bytes Model.Stream Proofs.StreamProofs.
Local Open Scope N_scope.

(* the active-stream count is the number of assigned vBuckets minus the ends that were final, after
   any session history *)
Theorem C12_count : forall ops s, forallb session_op ops = true ->
  s_active (fst (run s ops)) = (s_active s - Z.of_nat (final_ends s ops))%Z.
Proof. exact run_active. Qed.
Print Assumptions C12_count.

(* a transient end while the client is running reopens the vBucket from its latest settled position; it
   stays counted *)
Theorem C12_transient_reopens : forall s vb uuid roll ob o,
  s_failed s = false -> s_obs s vb = Some ob -> ob_end_closed ob = false -> s_cancel s = false -> s_offs s vb = Some o ->
  snd (step s (End vb ETransient uuid roll)) = [OpenReq vb o] /\
  s_active (fst (step s (End vb ETransient uuid roll))) = s_active s /\
  s_offs (fst (step s (End vb ETransient uuid roll))) = s_offs s.
Proof. exact transient_end_reopens. Qed.
Print Assumptions C12_transient_reopens.

(* the client stops on its own exactly when the end that arrives is final and was the last one *)
Theorem C12_stop_iff : forall s vb c uuid roll,
  In Stop (snd (step s (End vb c uuid roll))) <->
  is_final_end s (End vb c uuid roll) = true /\ (s_active s - 1 = 0)%Z /\ s_fin_close s = false /\
  s_balancing s = false /\ s_stopped s = false.
Proof. exact end_stops_iff. Qed.
Print Assumptions C12_stop_iff.

(* finite mode: the end bound of every request is the high sequence number sampled at open *)
Theorem C12_finite_bound : forall c exist st high uuid0 vb o d,
  c_finite c = true -> load_one c exist st high uuid0 vb = Some (o, d) -> o_latest o = get0 high vb.
Proof.
  intros c exist st high uuid0 vb o d F. unfold load_one, latest_of. rewrite F.
  destruct (negb exist && c_latest c); [intros [= <- _]; reflexivity|].
  destruct (get0 high vb <? d_seq (loaded_doc st vb)); [discriminate|]. intros [= <- _]. reflexivity.
Qed.
Print Assumptions C12_finite_bound.

Example C12_example :
  let sv := Srv [(0, 9); (1, 4)] [(0, 77); (1, 78)] [] in
  snd (run (init_state (Cfg true false None []) fempty)
    [Open 0 1 sv; End 0 ETransient 99 false; End 0 EClean 0 false; End 1 EFinal 0 false]) =
  [[Callback BeforeStreamStart; OpenReq 0 (MkO 0 0 0 0 9); OpenReq 1 (MkO 0 0 0 0 4); Callback AfterStreamStart];
   [OpenReq 0 (MkO 0 0 0 0 9)]; []; [Stop]].
Proof. vm_compute. reflexivity. Qed.
