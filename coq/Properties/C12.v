(* C12 -- Stream ends are recovered, counted and terminate the client correctly.
   Model: Model/Stream.v (listenEnd, wait), Model/Retry.v (the retry loop of reopenStream).
   Tie to /repo: Corr/CorrStream.v, Corr/CorrC12.v. *)
From Verif Require Import Base.Prelude Base.Bytes Model.Stream Proofs.StreamProofs Model.Retry Proofs.RetryProofs.
Local Open Scope N_scope.

(* the active-stream count is the number of assigned vBuckets minus the ends that were final, after
   any session history *)
Theorem C12_count : forall ops s, forallb session_op ops = true ->
  s_active (fst (run s ops)) = (s_active s - Z.of_nat (final_ends s ops))%Z.
Proof. exact run_active. Qed.
Print Assumptions C12_count.

(* a transient end while the client is running reopens the vBucket from its latest settled position; it
   stays counted *)
Theorem C12_transient_reopens : forall s vb uuid roll ob o,
  s_failed s = false -> s_obs s vb = Some ob -> ob_end_closed ob = false -> s_cancel s = false -> s_offs s vb = Some o ->
  snd (step s (End vb ETransient uuid roll)) = [OpenReq vb o] /\
  s_active (fst (step s (End vb ETransient uuid roll))) = s_active s /\
  s_offs (fst (step s (End vb ETransient uuid roll))) = s_offs s.
Proof. exact transient_end_reopens. Qed.
Print Assumptions C12_transient_reopens.

(* the client stops on its own exactly when the end that arrives is final and was the last one *)
Theorem C12_stop_iff : forall s vb c uuid roll,
  In Stop (snd (step s (End vb c uuid roll))) <->
  is_final_end s (End vb c uuid roll) = true /\ (s_active s - 1 = 0)%Z /\ s_fin_close s = false /\
  s_balancing s = false /\ s_stopped s = false.
Proof. exact end_stops_iff. Qed.
Print Assumptions C12_stop_iff.

(* finite mode: the end bound of every request is the high sequence number sampled at open *)
Theorem C12_finite_bound : forall c exist st high uuid0 vb o d,
  c_finite c = true -> load_one c exist st high uuid0 vb = Some (o, d) -> o_latest o = get0 high vb.
Proof.
  intros c exist st high uuid0 vb o d F. unfold load_one, latest_of. rewrite F.
  destruct (negb exist && c_latest c); [intros [= <- _]; reflexivity|].
  destruct (get0 high vb <? d_seq (loaded_doc st vb)); [discriminate|]. intros [= <- _]. reflexivity.
Qed.
Print Assumptions C12_finite_bound.

Example C12_example :
  let sv := Srv [(0, 9); (1, 4)] [(0, 77); (1, 78)] [] in
  snd (run (init_state (Cfg true false None []) fempty)
    [Open 0 1 sv; End 0 ETransient 99 false; End 0 EClean 0 false; End 1 EFinal 0 false]) =
  [[Callback BeforeStreamStart; OpenReq 0 (MkO 0 0 0 0 9); OpenReq 1 (MkO 0 0 0 0 4); Callback AfterStreamStart];
   [OpenReq 0 (MkO 0 0 0 0 9)]; []; [Stop]].
Proof. vm_compute. reflexivity. Qed.

(* --- the bounded retries of the reopen (Model/Retry.v); nat arithmetic, so the scope is closed here --- *)
Local Close Scope N_scope.

(* the vBucket is streamed again exactly when some request within the budget succeeds, every earlier one having failed,
   and the stream was not closed on the way; then exactly k+1 requests were issued *)
Theorem C12_retry_reopens_iff : forall closed answers,
  snd (reopen closed answers) = Reopened <->
  exists k, k < retry_budget /\ closed k = false /\ answers k = true /\ forall j, j < k -> closed j = false /\ answers j = false.
Proof. exact reopen_reopened_iff. Qed.
Print Assumptions C12_retry_reopens_iff.

(* the loop is given up quietly exactly when an attempt finds the stream closed (by a rebalance or by Close()), every
   earlier request having failed: whoever opens the stream again requests every vBucket itself (fix K14) *)
Theorem C12_retry_abandoned_iff : forall closed answers,
  snd (reopen closed answers) = Abandoned <->
  exists k, k < retry_budget /\ closed k = true /\ forall j, j < k -> closed j = false /\ answers j = false.
Proof. exact reopen_abandoned_iff. Qed.
Print Assumptions C12_retry_abandoned_iff.

(* complete description of a run: the number of requests and the outcome, for every behaviour of server and closers *)
Theorem C12_retry_spec : forall closed answers, loop_spec closed answers retry_budget 0 (reopen closed answers).
Proof. exact reopen_spec. Qed.
Print Assumptions C12_retry_spec.

(* no request is issued by an attempt that found the stream closed, never more than five; and once the stream stays
   closed from attempt k on, nothing is requested from then on *)
Theorem C12_retry_silent_once_closed : forall closed answers,
  (forall j, In j (reopen_requests closed answers retry_budget 0) -> closed j = false /\ j < retry_budget) /\
  (forall k, (forall j, k <= j -> closed j = true) -> forall j, In j (reopen_requests closed answers retry_budget 0) -> j < k) /\
  reopen_requests closed answers retry_budget 0 = seq 0 (fst (reopen closed answers)).
Proof.
  intros closed answers. split; [|split].
  - intros j. apply reopen_never_after_close.
  - intros k. apply reopen_monotone_close.
  - apply requests_are_seq.
Qed.
Print Assumptions C12_retry_silent_once_closed.

Example C12_retry_example :
  reopen (closed_of None) (answers_of 2) = (3, Reopened) /\
  reopen (closed_of None) (answers_of 7) = (5, GaveUp) /\
  reopen (closed_of (Some 2)) (answers_of 4) = (2, Abandoned) /\
  reopen (closed_of (Some 0)) (answers_of 0) = (0, Abandoned).
Proof. vm_compute. repeat split; reflexivity. Qed.
