(* C14 -- The library never feeds on its own writes.
   Models: Model/Keys.v (key construction), Model/Stream.v (absorption of reserved keys).
   Tie to /repo: Corr/CorrStream.v (histories with reserved keys, closed loop) and Corr/CorrC14.v (keys). *)
From Verif Require Import Base.Prelude Base.Bytes Model.Stream Model.Keys Proofs.StreamProofs Proofs.KeysProofs.
Local Open Scope N_scope.

(* every key the library writes lies under the reserved connector prefix -- all group names, vBuckets, ids *)
Theorem C14_filtered : forall g vb u,
  (forall k, checkpoint_id g vb = Some k -> is_meta k = true) /\
  is_meta (instance_id g u) = true /\ is_meta (index_id g) = true.
Proof.
  intros g vb u. split; [exact (checkpoint_id_meta g vb)|]. split; apply is_meta_connector.
Qed.
Print Assumptions C14_filtered.

(* checkpoint keys are distinct for distinct (group, vBucket) pairs, for ALL group byte strings *)
Theorem C14_injective : forall g vb g' vb' k,
  checkpoint_id g vb = Some k -> checkpoint_id g' vb' = Some k -> g = g' /\ vb = vb'.
Proof. exact checkpoint_id_inj. Qed.
Print Assumptions C14_injective.

Theorem C14_dot_rejected : forall g vb, contains dotc g = true -> checkpoint_id g vb = None.
Proof. exact checkpoint_id_dot. Qed.
Print Assumptions C14_dot_rejected.

(* an event for a reserved key is never shown to the consumer; it may advance the position but never
   flags anything for saving, hands out no context and leaves the store alone *)
Theorem C14_absorbed : forall s vb k it,
  s_failed s = false -> is_meta (i_key it) = true ->
  let s' := fst (step s (Deliver vb (Doc k it))) in
  (forall x, In x (snd (step s (Deliver vb (Doc k it)))) -> match x with Consume _ _ _ _ _ _ => False | _ => True end) /\
  s_dirty s' = s_dirty s /\ s_any_dirty s' = s_any_dirty s /\ s_ctxs s' = s_ctxs s /\ s_store s' = s_store s.
Proof. exact meta_absorbed. Qed.
Print Assumptions C14_absorbed.

(* closed loop: after a successful save, feeding back any number of mutations of reserved keys (the
   documents the save wrote) causes no further save *)
Theorem C14_no_feedback : forall fed s,
  s_failed s = false -> s_inflight s = None -> s_any_dirty s = false ->
  Forall (fun o => exists vb k it, o = Deliver vb (Doc k it) /\ is_meta (i_key it) = true) fed ->
  let s' := fst (run s fed) in
  s_failed s' = true \/ step s' SaveBegin = (s', [NoSave]).
Proof.
  induction fed as [|o r IH]; intros s F I A H; cbn [run fst].
  - right. now apply save_skips_when_clean.
  - inversion H as [|? ? (vb & k & it & -> & M) Hr]; subst.
    destruct (meta_absorbed s vb k it F M) as (_ & _ & Ha & _ & _).
    pose proof (step_keeps_inflight s (Deliver vb (Doc k it)) eq_refl) as Hi.
    destruct (step s (Deliver vb (Doc k it))) as [s1 out1] eqn:E. cbn [fst] in *.
    destruct (s_failed s1) eqn:F1.
    + left. clear -F1. revert s1 F1. induction r as [|o r IHr]; intros s1 F1; [exact F1|].
      cbn [run]. unfold step at 1. rewrite F1. specialize (IHr s1 F1). destruct (run s1 r). exact IHr.
    + specialize (IH s1 F1 ltac:(congruence) ltac:(congruence) Hr). destruct (run s1 r) as [s2 outs]. exact IH.
Qed.
Print Assumptions C14_no_feedback.

Example C14_example :
  checkpoint_id [103] 7 = Some (prefix_connector ++ [103] ++ s_checkpoint ++ [55]) /\
  is_meta [95;116;120;110;58;1] = true /\ is_meta [95;116;120;110] = false /\ is_meta [] = false.
Proof. vm_compute. repeat split; reflexivity. Qed.
