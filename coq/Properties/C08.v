(* C08 -- A server-requested rollback is honoured without replaying or skipping.
   Models: Model/Client.v (stream request, rollback re-request, branch choice), the observer's catch-up
   filter (Model/Stream.v). Tie to /repo: Corr/CorrC08.v (the real client.OpenStream and a real observer
   against the simulated node). *)
From Verif Require Import Base.Prelude Base.Bytes Model.Stream Model.Client Proofs.ObserverProofs Proofs.ClientProofs.
Local Open Scope N_scope.

(* the re-request: flags 0, start R, snapshot [R,R], the same end, on the branch chosen from the failover log *)
Theorem C08_request : forall o log r a2,
  fst (open_stream o (ARollback r) log a2) =
  [SReq 128 (o_uuid o) (o_seq o) (o_latest o) (o_start o) (o_end o); SReq 0 (branch_for log r) r (o_latest o) r r].
Proof. intros o log r a2. unfold open_stream. destruct a2 as [l| |]; reflexivity. Qed.
Print Assumptions C08_request.

(* the branch: the newest failover entry whose first seqNo is at or below R -- i.e. the branch that contains R:
   it starts at or before R and every newer branch starts after R (0 when the log has no such entry) *)
Theorem C08_branch : forall log r,
  match first_le log r with
  | Some e => branch_for log r = fst e /\ snd e <= r /\
              exists newer older, log = newer ++ e :: older /\ Forall (fun x => r < snd x) newer
  | None => branch_for log r = 0 /\ Forall (fun x => r < snd x) log
  end.
Proof.
  intros log r. rewrite branch_for_first. destruct (first_le log r) as [e|] eqn:E.
  - split; [reflexivity|]. now apply first_le_contains.
  - split; [reflexivity|]. apply Forall_forall. intros x Hx. destruct (N.lt_ge_cases r (snd x)) as [|Hge]; [assumption|].
    destruct (first_le_exists log r (ex_intro _ x (conj Hx Hge))) as [e' He']. congruence.
Qed.
Print Assumptions C08_branch.

(* on success the observer is put on the branch at the head of the answered failover log and into catch-up
   at the position F that had been requested *)
Theorem C08_observer_setup : forall o log r u s l,
  snd (open_stream o (ARollback r) log (AOk ((u, s) :: l))) = Some (u, Some (o_seq o)).
Proof. reflexivity. Qed.
Print Assumptions C08_observer_setup.

(* afterwards, for every strictly increasing event stream the server sends (including none, and events exactly
   at F): the consumer is shown exactly what it would be shown without catch-up, minus every event at or below F *)
Theorem C08_catchup : forall c evs lo a b F,
  ob_catchup a = Some F -> ob_catchup b = None -> same_core a b -> sorted_from lo evs ->
  snd (obs_run c a evs) = mask F evs (snd (obs_run c b evs)).
Proof. exact catchup_is_filter. Qed.
Print Assumptions C08_catchup.

(* a second request that fails fails the open (the start-up then terminates, C15) *)
Theorem C08_fail : forall o log r, snd (open_stream o (ARollback r) log AErr) = None /\ snd (open_stream o AErr log AErr) = None.
Proof. intros. split; reflexivity. Qed.
Print Assumptions C08_fail.

Example C08_example :
  branch_for [(300, 90); (200, 40); (100, 0)] 40 = 200 /\ branch_for [(300, 90); (200, 40); (100, 0)] 39 = 100 /\
  branch_for [(300, 90); (200, 40); (100, 0)] 95 = 300 /\ branch_for [(300, 90)] 40 = 0 /\
  let ob := with_catchup (with_uuid (new_obs 999) 300) (Some 41) in
  let it n := MkI n 1700000000000000000 0 [100] n in
  snd (obs_run (Cfg false false None []) ob [Marker 40 43; Doc KMut (it 40); Doc KMut (it 41); Doc KMut (it 42); Doc KDel (it 43)]) =
  [FNone; FNone; FNone; FDoc KMut (it 42) (MkO 300 42 40 43 999) default_collection 1700000000;
   FDoc KDel (it 43) (MkO 300 43 40 43 999) default_collection 1700000000].
Proof. vm_compute. repeat split; reflexivity. Qed.
