(* C09 -- vBucket partition across group members is exact.
   Nothing but statements closed by [exact <lemma>] and their assumptions. The model is
   Model/Chunk.v (ChunkSlice and the member's choice of chunk); the tie to /repo is Corr/CorrC09.v. *)
From Verif Require Import Base.Prelude Model.Chunk Proofs.ChunkProofs.

(* For EVERY n and t with 1 <= t <= n (not only n <= 1024): t chunks; read in order they spell out
   0..n-1 exactly (hence ascending, contiguous, pairwise disjoint, covering); none is empty;
   sizes differ by at most one. *)
Theorem C09_partition : forall n t, 1 <= t <= n ->
  length (chunks n t) = t /\
  concat (map ids (chunks n t)) = seq 0 n /\
  Forall (fun c => 1 <= snd c) (chunks n t) /\
  (forall c d, In c (chunks n t) -> In d (chunks n t) -> snd c <= snd d + 1).
Proof.
  intros n t H. split; [exact (chunks_length n t)|].
  split; [exact (chunks_cover n t (proj1 H) (Nat.le_trans _ _ _ (proj1 H) (proj2 H)))|].
  split; [exact (chunks_nonempty n t H)|].
  exact (fun c d Hc Hd => chunks_balanced n t c d H Hc Hd).
Qed.
Print Assumptions C09_partition.

(* every vBucket has an owner among members 1..t ... *)
Theorem C09_owner_exists : forall n t v, 1 <= t <= n -> v < n ->
  exists k s e, 1 <= k <= t /\ member_range n t k = Some (s, e) /\ s <= v <= e.
Proof. exact owner_exists. Qed.
Print Assumptions C09_owner_exists.

(* ... and only one: members that agree on the group size never overlap *)
Theorem C09_owner_unique : forall n t v k1 k2 s1 e1 s2 e2, 1 <= t <= n ->
  1 <= k1 -> 1 <= k2 ->
  member_range n t k1 = Some (s1, e1) -> s1 <= v <= e1 ->
  member_range n t k2 = Some (s2, e2) -> s2 <= v <= e2 -> k1 = k2.
Proof. exact owner_unique. Qed.
Print Assumptions C09_owner_unique.

(* the (first,last) pair a member keeps as its range describes its chunk exactly (VbIDRange.In) *)
Theorem C09_range_sound : forall c v, 1 <= snd c ->
  (In v (ids c) <-> fst c <= v <= fst c + snd c - 1).
Proof. exact ids_range. Qed.
Print Assumptions C09_range_sound.

(* the binary-number twin evaluated by the correspondence check computes the same chunks *)
Theorem C09_twin : forall n t k,
  chunksN (N.of_nat n) (N.of_nat t) = map toN2 (chunks n t) /\
  member_rangeN (N.of_nat n) (N.of_nat t) (N.of_nat k) = option_map toN2 (member_range n t k).
Proof. exact (fun n t k => conj (chunksN_correct n t) (member_rangeN_correct n t k)). Qed.
Print Assumptions C09_twin.

(* non-vacuity: a concrete instance, 1024 vBuckets over 3 members *)
Example C09_example : lens_rle 1024 3 = [(342, 1); (341, 2)] /\ member_range 1024 3 2 = Some (342, 682).
Proof. vm_compute. split; reflexivity. Qed.
