(* C11 -- Rebalance converges to the latest assignment, once, without stopping the client.
   Models: Model/Rebalance.v (notifiers, timer, lock, phases at callback granularity) and, for the closed
   window, Model/Stream.v.  Tie to /repo: Corr/CorrC11.v (the real stream.Rebalance under held lifecycle
   callbacks) and Corr/CorrStream.v (RebClose / RebOpen histories). *)
From Verif Require Import Base.Prelude Base.Bytes Model.Rebalance Proofs.RebalanceProofs Model.Stream Proofs.StreamProofs Proofs.ObserverProofs Model.SerialClose Proofs.SerialCloseProofs.

(* lifecycle callbacks are emitted in properly bracketed order, for every schedule of notifications, close
   completions, timer firings, reopen completions and deferred timers *)
Theorem C11_bracketed : forall ops i,
  accept 0 (snd (r_run (r_init i) ops)) = Some (pos_of (r_phase (fst (r_run (r_init i) ops)))).
Proof. intros ops i. exact (run_accept ops (r_init i) (rinv_init i)). Qed.
Print Assumptions C11_bracketed.

(* a rebalance never terminates the client *)
Theorem C11_never_stops : forall ops s, ~ In RStop (snd (r_run s ops)).
Proof. exact never_stops. Qed.
Print Assumptions C11_never_stops.

(* convergence, safety half: whenever the system is quiet (open, nobody waiting for the lock, no deferred timer)
   the stream is opened on the most recent membership information *)
Theorem C11_quiet_on_latest : forall ops i,
  let s := fst (r_run (r_init i) ops) in quiet s = true -> r_range s = r_info s.
Proof. exact quiet_on_latest. Qed.
Print Assumptions C11_quiet_on_latest.

(* convergence, progress half: a reachable state that is not quiet always has an internal event (close done,
   timer, reopen done, deferred timer) that moves it on: no deadlock between notifiers, timer and lock *)
Theorem C11_progress : forall ops i,
  let s := fst (r_run (r_init i) ops) in quiet s = false ->
  exists o, (o = CloseDone \/ o = TimerFire \/ o = ReopenDone \/ o = DeferredFire) /\ fst (r_step s o) <> s.
Proof. intros ops i s Q. apply progress; [apply rinv_run, rinv_init|exact Q]. Qed.
Print Assumptions C11_progress.

(* once: from every reachable streaming state, a burst -- the first notification arrives while streaming, the others at
   any point before the reopen starts: while the close step is still running (possible from the API, a second bus event
   or a deferred timer; they find nothing to do since the repair of defect K6) or while the stream is closed and the
   reopen timer armed (each one pushing the timer back) -- causes exactly one close and one reopen, on the information of
   the LAST notification, with the eight callbacks in order *)
Theorem C11_once : forall ops i first during_close during_delay,
  let s := fst (r_run (r_init i) ops) in
  r_phase s = POpen ->
  let '(s', outs) := r_run s (burst_ops first during_close during_delay) in
  outs = [BRS; BSStop; ASStop; ARS; BRE; BSStart; ASStart; ARE] /\
  r_phase s' = POpen /\ r_cycles s' = S (r_cycles s) /\
  r_range s' = last (during_close ++ during_delay) first /\ r_info s' = last (during_close ++ during_delay) first /\
  r_blocked s' = 0%nat /\ r_deferred s' = r_deferred s.
Proof. intros ops i first r1 r2 s P. apply burst_one_cycle; [apply rinv_run, rinv_init|exact P]. Qed.
Print Assumptions C11_once.

(* a notification that arrives while the reopen is running cannot be part of it (Open() may have read the membership
   already): it is deferred by the delay and starts the next cycle -- the next burst by the property's definition *)
Example C11_during_reopen_next_burst :
  let '(s, outs) := r_run (r_init 1) [Notify 2; Notify 3; CloseDone; Notify 4; TimerFire; Notify 5; ReopenDone; DeferredFire; CloseDone; TimerFire; ReopenDone] in
  r_cycles s = 2%nat /\ r_range s = 5%N /\ quiet s = true /\
  outs = [BRS; BSStop; ASStop; ARS; BRE; BSStart; ASStart; ARE; BRS; BSStop; ASStop; ARS; BRE; BSStart; ASStart; ARE].
Proof. vm_compute. repeat split; reflexivity. Qed.

(* nothing is delivered while the stream is closed for the rebalance: every observer is closed *)
Theorem C11_closed_window_silent : forall s vb e,
  s_failed s = false -> (forall ob, s_obs s vb = Some ob -> ob_closed ob = true) ->
  forall x, In x (snd (step s (Deliver vb e))) -> match x with Consume _ _ _ _ _ _ | Track _ _ => False | _ => True end.
Proof.
  intros s vb e F Hc x Hin. unfold step in Hin. rewrite F in Hin.
  destruct (s_obs s vb) as [ob|] eqn:Eo; [|destruct Hin as [<-|[]]; exact I].
  pose proof (obs_event_closed (s_cfg s) ob e (Hc ob eq_refl)) as H.
  destruct (obs_event (s_cfg s) ob e) as [ob' f]. cbn [snd] in H.
  destruct H as [-> | ->]; cbn in Hin; [contradiction|]. destruct Hin as [<-|[]]. exact I.
Qed.
Print Assumptions C11_closed_window_silent.

(* and the close half of a rebalance closes every observer *)
Theorem C11_close_closes_observers : forall s vb ob,
  s_failed s = false -> s_open s = true -> s_balancing s = false ->
  s_obs (fst (step s RebClose)) vb = Some ob -> ob_closed ob = true.
Proof.
  intros s vb ob F O B. unfold step. rewrite F, O, B. cbn. destruct (s_obs s vb); [|discriminate]. intros [= <-]. reflexivity.
Qed.
Print Assumptions C11_close_closes_observers.

(* --- servers older than 5.5.0: the serial close sweep (Model/SerialClose.v) --- *)

(* "a rebalance never stops the client", at the level of the end-of-session signals: whatever the number of vBuckets and
   wherever the scheduler puts the steps of the wait() goroutines -- as long as the one of the old session runs at least
   once during the rebalance delay -- after the cycle the client is not stopped, no signal is left behind for the wait()
   of the reopened stream, exactly one wait() is waiting, and the session is as after a fresh Open(). Holds of the code
   after fix K15 (5d885dd). *)
Theorem C11_serial_close_keeps_running : forall n A W1 W2 W3 W4,
  sweep_steps A -> waits W1 -> waits W2 -> W2 <> [] -> waits W3 -> waits W4 ->
  let s := sc_run true (sc_streaming n)
             ([SweepStart] ++ A ++ [SweepEnd] ++ W1 ++ [CloseTail] ++ W2 ++ [Reopen n] ++ W3 ++ [BalOff] ++ W4) in
  sc_stopped s = false /\ sc_sig_end s = 0%nat /\ sc_sig_close s = 0%nat /\ sc_waiters s = 1%nat /\ sc_active s = n /\
  sc_balancing s = false /\ sc_fin_end s = false /\ sc_fin_close s = false.
Proof. exact fixed_cycle_keeps_running. Qed.
Print Assumptions C11_serial_close_keeps_running.

(* the witness of K15: a schedule of exactly that shape on which the code before the fix stops the client (the ends of
   the sweep post "finished by end events", close() posts "finished by close" before the flag is set, the second signal
   survives the reopen); the repaired code keeps running on it *)
Example C11_serial_close_K15_witness :
  k15_schedule = [SweepStart] ++ [SweepVb; SweepVb] ++ [SweepEnd] ++ [] ++ [CloseTail] ++ [WaitTake true] ++ [Reopen 2] ++ [] ++ [BalOff] ++ [WaitTake false] /\
  sc_stopped (sc_run false (sc_streaming 2) k15_schedule) = true /\
  sc_stopped (sc_run true (sc_streaming 2) k15_schedule) = false.
Proof. split; [reflexivity|split; vm_compute; reflexivity]. Qed.
