From Coq Require Import List Arith Bool Lia.
Import ListNotations.
From Verif Require Import Model.Retry.

Section Loop.
Variables (closed answers : nat -> bool).

(* the prefix property every characterisation uses: attempts i .. i+k-1 found the stream open and failed *)
Definition failed_open (i k : nat) : Prop := forall j, i <= j < i + k -> closed j = false /\ answers j = false.

Lemma failed_open_0 i : failed_open i 0.
Proof. intros j Hj. lia. Qed.

Lemma failed_open_S i k : closed i = false -> answers i = false -> failed_open (S i) k -> failed_open i (S k).
Proof.
  intros Hc Ha H j Hj. destruct (Nat.eq_dec j i) as [->|Hne]; [split; assumption|]. apply H. lia.
Qed.

Lemma failed_open_inv i k : failed_open i (S k) -> closed i = false /\ answers i = false /\ failed_open (S i) k.
Proof.
  intros H. destruct (H i) as [Hc Ha]; [lia|]. split; [exact Hc|]. split; [exact Ha|]. intros j Hj. apply H. lia.
Qed.

(* full specification of one run of the loop with `retry` >= 1 attempts left, starting at attempt i *)
Inductive loop_spec (retry i : nat) : nat * routcome -> Prop :=
  | spec_abandoned k : k < retry -> failed_open i k -> closed (i + k) = true -> loop_spec retry i (k, Abandoned)
  | spec_reopened k : k < retry -> failed_open i k -> closed (i + k) = false -> answers (i + k) = true ->
      loop_spec retry i (S k, Reopened)
  | spec_gaveup : failed_open i retry -> loop_spec retry i (retry, GaveUp).

Lemma loop_meets_spec : forall retry i, 0 < retry -> loop_spec retry i (reopen_loop closed answers retry i).
Proof.
  induction retry as [|r IH]; intros i Hr; [lia|].
  cbn [reopen_loop].
  destruct (closed i) eqn:Hc.
  { replace i with (i + 0) in Hc by lia. apply (spec_abandoned (S r) i 0); [lia|apply failed_open_0|exact Hc]. }
  destruct (answers i) eqn:Ha.
  { apply (spec_reopened (S r) i 0); [lia|apply failed_open_0|rewrite Nat.add_0_r; exact Hc|rewrite Nat.add_0_r; exact Ha]. }
  destruct r as [|r'].
  { apply spec_gaveup. apply failed_open_S; [exact Hc|exact Ha|apply failed_open_0]. }
  specialize (IH (S i) ltac:(lia)).
  set (r := reopen_loop closed answers (S r') (S i)) in *. clearbody r.
  destruct IH as [k Hk Hf Hcl|k Hk Hf Hcl Han|Hf].
  - replace (S i + k) with (i + S k) in Hcl by lia.
    apply (spec_abandoned (S (S r')) i (S k)); [lia|apply failed_open_S; assumption|exact Hcl].
  - replace (S i + k) with (i + S k) in Hcl, Han by lia.
    apply (spec_reopened (S (S r')) i (S k)); [lia|apply failed_open_S; assumption|exact Hcl|exact Han].
  - apply spec_gaveup. apply failed_open_S; assumption.
Qed.

(* the three cases of the specification exclude each other, so each is also necessary *)
Lemma spec_deterministic : forall retry i r1 r2, loop_spec retry i r1 -> loop_spec retry i r2 -> r1 = r2.
Proof.
  intros retry i r1 r2 H1 H2.
  assert (Hpre : forall k k', failed_open i k -> k' < k -> closed (i + k') = false /\ answers (i + k') = false).
  { intros k k' Hf Hlt. apply Hf. lia. }
  destruct H1 as [k Hk Hf Hc|k Hk Hf Hc Ha|Hf].
  - remember (k, Abandoned) as r1 eqn:E. destruct H2 as [k' Hk' Hf' Hc'|k' Hk' Hf' Hc' Ha'|Hf']; subst r1.
    + destruct (Nat.lt_trichotomy k k') as [L|[->|L]]; [|reflexivity|].
      * destruct (Hpre k' k Hf' L) as [X _]. congruence.
      * destruct (Hpre k k' Hf L) as [X _]. congruence.
    + destruct (Nat.lt_trichotomy k k') as [L|[->|L]]; [|congruence|].
      * destruct (Hpre k' k Hf' L) as [X _]. congruence.
      * destruct (Hpre k k' Hf L) as [_ X]. congruence.
    + destruct (Hpre retry k Hf' Hk) as [X _]. congruence.
  - remember (S k, Reopened) as r1 eqn:E. destruct H2 as [k' Hk' Hf' Hc'|k' Hk' Hf' Hc' Ha'|Hf']; subst r1.
    + destruct (Nat.lt_trichotomy k k') as [L|[->|L]]; [|congruence|].
      * destruct (Hpre k' k Hf' L) as [_ X]. congruence.
      * destruct (Hpre k k' Hf L) as [X _]. congruence.
    + destruct (Nat.lt_trichotomy k k') as [L|[->|L]]; [|reflexivity|].
      * destruct (Hpre k' k Hf' L) as [_ X]. congruence.
      * destruct (Hpre k k' Hf L) as [_ X]. congruence.
    + destruct (Hpre retry k Hf' Hk) as [_ X]. congruence.
  - remember (retry, GaveUp) as r1 eqn:E. destruct H2 as [k' Hk' Hf' Hc'|k' Hk' Hf' Hc' Ha'|Hf']; subst r1.
    + destruct (Hpre retry k' Hf Hk') as [X _]. congruence.
    + destruct (Hpre retry k' Hf Hk') as [_ X]. congruence.
    + reflexivity.
Qed.

Lemma loop_iff_spec : forall retry i r, 0 < retry -> (reopen_loop closed answers retry i = r <-> loop_spec retry i r).
Proof.
  intros retry i r Hr. split.
  - intros <-. apply loop_meets_spec. exact Hr.
  - intros H. apply (spec_deterministic retry i); [apply loop_meets_spec; exact Hr|exact H].
Qed.

(* the requests issued: consecutive attempt numbers from i, as many as the loop counts, none at or after an attempt
   that found the stream closed *)
Lemma requests_are_seq : forall retry i,
  reopen_requests closed answers retry i = seq i (fst (reopen_loop closed answers retry i)).
Proof.
  induction retry as [|r IH]; intros i; [reflexivity|].
  cbn [reopen_requests reopen_loop].
  destruct (closed i); [reflexivity|]. destruct (answers i); [reflexivity|].
  destruct r as [|r']; [reflexivity|].
  rewrite IH. destruct (reopen_loop closed answers (S r') (S i)) as [n o]. reflexivity.
Qed.

Lemma requests_found_open : forall retry i j, In j (reopen_requests closed answers retry i) -> closed j = false.
Proof.
  induction retry as [|r IH]; intros i j; cbn [reopen_requests]; [intros []|].
  destruct (closed i) eqn:Hc; [intros []|].
  destruct (answers i).
  - intros [<-|[]]. exact Hc.
  - intros [<-|H]; [exact Hc|]. apply (IH (S i)). exact H.
Qed.

Lemma requests_bounded : forall retry i, fst (reopen_loop closed answers retry i) <= retry.
Proof.
  induction retry as [|r IH]; intros i; cbn [reopen_loop]; [cbn; lia|].
  destruct (closed i); [cbn; lia|]. destruct (answers i); [cbn; lia|].
  destruct r as [|r']; [cbn; lia|].
  specialize (IH (S i)). destruct (reopen_loop closed answers (S r') (S i)) as [n o]. cbn in *. lia.
Qed.

End Loop.

(* --- the statements used by Properties/C12.v and C15.v, at the budget of the code (5) --- *)

Lemma reopen_spec closed answers : loop_spec closed answers retry_budget 0 (reopen closed answers).
Proof. apply loop_meets_spec. unfold retry_budget. lia. Qed.

Lemma reopen_gives_up_iff closed answers :
  snd (reopen closed answers) = GaveUp <-> (forall j, j < retry_budget -> closed j = false /\ answers j = false).
Proof.
  split.
  - intros H. pose proof (reopen_spec closed answers) as S. destruct (reopen closed answers) as [n o]. cbn in H. subst o.
    remember (n, GaveUp) as r eqn:E. destruct S as [k Hk Hf Hc|k Hk Hf Hc Ha|Hf]; try discriminate E.
    intros j Hj. apply Hf. lia.
  - intros H. assert (E : reopen closed answers = (retry_budget, GaveUp)).
    { apply loop_iff_spec; [unfold retry_budget; lia|]. apply spec_gaveup. intros j Hj. apply H. lia. }
    rewrite E. reflexivity.
Qed.

Lemma reopen_reopened_iff closed answers :
  snd (reopen closed answers) = Reopened <->
  exists k, k < retry_budget /\ closed k = false /\ answers k = true /\ forall j, j < k -> closed j = false /\ answers j = false.
Proof.
  split.
  - intros H. pose proof (reopen_spec closed answers) as S. destruct (reopen closed answers) as [n o]. cbn in H. subst o.
    remember (n, Reopened) as r eqn:E. destruct S as [k Hk Hf Hc|k Hk Hf Hc Ha|Hf]; try discriminate E.
    exists k. cbn in Hc, Ha. repeat split; try assumption; apply Hf; lia.
  - intros [k [Hk [Hc [Ha Hf]]]]. assert (E : reopen closed answers = (S k, Reopened)).
    { apply loop_iff_spec; [unfold retry_budget; lia|]. apply spec_reopened; [exact Hk| |exact Hc|exact Ha].
      intros j Hj. apply Hf. lia. }
    rewrite E. reflexivity.
Qed.

Lemma reopen_abandoned_iff closed answers :
  snd (reopen closed answers) = Abandoned <->
  exists k, k < retry_budget /\ closed k = true /\ forall j, j < k -> closed j = false /\ answers j = false.
Proof.
  split.
  - intros H. pose proof (reopen_spec closed answers) as S. destruct (reopen closed answers) as [n o]. cbn in H. subst o.
    remember (n, Abandoned) as r eqn:E. destruct S as [k Hk Hf Hc|k Hk Hf Hc Ha|Hf]; try discriminate E.
    exists k. cbn in Hc. repeat split; try assumption; apply Hf; lia.
  - intros [k [Hk [Hc Hf]]]. assert (E : reopen closed answers = (k, Abandoned)).
    { apply loop_iff_spec; [unfold retry_budget; lia|]. apply spec_abandoned; [exact Hk| |exact Hc].
      intros j Hj. apply Hf. lia. }
    rewrite E. reflexivity.
Qed.

Lemma reopen_never_after_close closed answers j :
  In j (reopen_requests closed answers retry_budget 0) -> closed j = false /\ j < retry_budget.
Proof.
  intros H. split; [exact (requests_found_open closed answers _ _ _ H)|].
  rewrite requests_are_seq in H. apply in_seq in H. pose proof (requests_bounded closed answers retry_budget 0). lia.
Qed.

(* once closed stays closed (no re-open of the whole stream during the retries): nothing is requested from the
   closing attempt on *)
Lemma reopen_monotone_close closed answers k :
  (forall j, k <= j -> closed j = true) -> forall j, In j (reopen_requests closed answers retry_budget 0) -> j < k.
Proof.
  intros Hm j H. destruct (le_lt_dec k j) as [L|L]; [|exact L].
  pose proof (requests_found_open closed answers _ _ _ H) as X. rewrite (Hm j L) in X. discriminate.
Qed.

(* --- helpers.Retry --- *)
Lemma helper_retry_spec answers : forall attempts i, 0 < attempts ->
  let '(n, ok) := helper_retry answers attempts i in
  (ok = true -> exists k, k < attempts /\ n = S k /\ answers (i + k) = true /\ forall j, j < k -> answers (i + j) = false) /\
  (ok = false -> n = attempts /\ forall j, j < attempts -> answers (i + j) = false).
Proof.
  induction attempts as [|r IH]; intros i Hr; [lia|].
  cbn [helper_retry]. destruct (answers i) eqn:Ha.
  - split; [|discriminate]. intros _. exists 0. rewrite Nat.add_0_r. repeat split; [lia|exact Ha|intros j Hj; lia].
  - destruct r as [|r'].
    + split; [discriminate|]. intros _. split; [reflexivity|]. intros j Hj. assert (j = 0) by lia. subst. rewrite Nat.add_0_r. exact Ha.
    + specialize (IH (S i) ltac:(lia)). destruct (helper_retry answers (S r') (S i)) as [n ok]. destruct IH as [IH1 IH2]. split.
      * intros Hok. destruct (IH1 Hok) as (k & Hk & -> & Hak & Hf). exists (S k). repeat split; [lia| |].
        -- replace (i + S k) with (S i + k) by lia. exact Hak.
        -- intros j Hj. destruct j as [|j']; [rewrite Nat.add_0_r; exact Ha|]. replace (i + S j') with (S i + j') by lia. apply Hf. lia.
      * intros Hok. destruct (IH2 Hok) as [-> Hf]. split; [reflexivity|]. intros j Hj.
        destruct j as [|j']; [rewrite Nat.add_0_r; exact Ha|]. replace (i + S j') with (S i + j') by lia. apply Hf. lia.
Qed.

(* the helper reports a failure exactly when every one of its (at least one) calls failed: a dead peer is never reported alive *)
Lemma helper_retry_fails_iff answers attempts : 0 < attempts ->
  (snd (helper_retry answers attempts 0) = false <-> forall j, j < attempts -> answers j = false).
Proof.
  intros Hr. pose proof (helper_retry_spec answers attempts 0 Hr) as S. destruct (helper_retry answers attempts 0) as [n ok].
  destruct S as [S1 S2]. cbn [snd]. split.
  - intros ->. destruct (S2 eq_refl) as [_ Hf]. exact Hf.
  - intros Hf. destruct ok; [|reflexivity]. destruct (S1 eq_refl) as (k & Hk & _ & Hak & _). cbn in Hak. rewrite (Hf k Hk) in Hak. discriminate.
Qed.
