From Verif Require Import Base.Prelude Base.Bytes Model.Stream Model.Keys Proofs.BytesProofs.
Local Open Scope N_scope.

Lemma has_prefix_app p s : has_prefix p (p ++ s) = true.
Proof. induction p as [|a p IH]; cbn; [reflexivity|]. now rewrite N.eqb_refl, IH. Qed.

Lemma is_meta_connector s : is_meta (prefix_connector ++ s) = true.
Proof. unfold is_meta. now rewrite has_prefix_app. Qed.

Lemma checkpoint_id_meta g vb k : checkpoint_id g vb = Some k -> is_meta k = true.
Proof. unfold checkpoint_id. destruct (contains dotc g); [discriminate|]. intros [= <-]. apply is_meta_connector. Qed.

Lemma dec_inj a b : dec a = dec b -> a = b.
Proof. intros H. pose proof (digits_val_dec a) as Ha. rewrite H, digits_val_dec in Ha. congruence. Qed.

(* the decimal suffix has no ':' so the last ':' of a ++ ":" ++ dec v delimits it *)
Lemma split_last_colon a a' d d' :
  contains colon d = false -> contains colon d' = false ->
  a ++ colon :: d = a' ++ colon :: d' -> a = a' /\ d = d'.
Proof.
  intros Hd Hd' E. assert (R : rev d ++ colon :: rev a = rev d' ++ colon :: rev a').
  { apply (f_equal (@rev N)) in E. rewrite !rev_app_distr in E. cbn [rev] in E. rewrite <- !app_assoc in E. exact E. }
  assert (C : forall l, contains colon l = false -> contains colon (rev l) = false).
  { induction l as [|x l IH]; cbn; [auto|]. intros H. apply orb_false_iff in H. destruct H as [H1 H2].
    rewrite contains_app, (IH H2). cbn. now rewrite H1. }
  assert (B : forall x y, contains colon x = false -> before colon (x ++ colon :: y) = x).
  { intros x y Hx. rewrite before_app by exact Hx. cbn. unfold colon. cbn. now rewrite app_nil_r. }
  pose proof (f_equal (before colon) R) as Q. rewrite !B in Q by (now apply C).
  assert (d = d') by (apply (f_equal (@rev N)) in Q; now rewrite !rev_involutive in Q). subst d'.
  split; [|reflexivity]. apply app_inv_tail in E. exact E.
Qed.

Lemma checkpoint_id_inj g vb g' vb' k :
  checkpoint_id g vb = Some k -> checkpoint_id g' vb' = Some k -> g = g' /\ vb = vb'.
Proof.
  unfold checkpoint_id. destruct (contains dotc g); [discriminate|]. destruct (contains dotc g'); [discriminate|].
  intros [= <-] [= E].
  set (m := [58;99;104;101;99;107;112;111;105;110;116]) in *.
  assert (E' : (g' ++ m) ++ colon :: dec vb' = (g ++ m) ++ colon :: dec vb) by (rewrite <- !app_assoc; exact E).
  assert (ND : forall n, contains colon (dec n) = false) by (intros n; apply digits_no; [apply dec_digits|unfold colon; lia]).
  destruct (split_last_colon _ _ _ _ (ND vb') (ND vb) E') as [Ha Hd].
  apply app_inv_tail in Ha. split; [congruence|]. symmetry. now apply dec_inj.
Qed.

Lemma checkpoint_id_dot g vb : contains dotc g = true -> checkpoint_id g vb = None.
Proof. intros H. unfold checkpoint_id. now rewrite H. Qed.
