From Verif Require Import Base.Prelude Base.Bytes.
From Coq Require Import Decimal DecimalN DecimalPos.

Definition is_digit (b : N) : Prop := (48 <= b <= 57)%N.

Lemma uint_bytes_digits u : Forall is_digit (uint_bytes u).
Proof. induction u; cbn; constructor; try assumption; unfold is_digit; lia. Qed.

Lemma dec_digits n : Forall is_digit (dec n).
Proof. apply uint_bytes_digits. Qed.

Lemma digits_val_acc_cons b d acc s :
  digit_val b = Some d -> digits_val_acc acc (b :: s) = digits_val_acc (acc * 10 + d)%N s.
Proof. intros H. cbn [digits_val_acc]. now rewrite H. Qed.

Lemma digits_acc_pos u : forall p,
  digits_val_acc (Npos p) (uint_bytes u) = Some (Npos (Pos.of_uint_acc u p)).
Proof.
  induction u; intros p; cbn [uint_bytes Pos.of_uint_acc]; [reflexivity|..];
  (erewrite digits_val_acc_cons by reflexivity);
  match goal with |- _ = Some (Npos (Pos.of_uint_acc _ ?q)) => rewrite <- (IHu q) end;
  f_equal; lia.
Qed.

Lemma digits_acc_zero u : digits_val_acc 0 (uint_bytes u) = Some (Pos.of_uint u).
Proof.
  induction u; cbn [uint_bytes Pos.of_uint]; [reflexivity|..];
  (erewrite digits_val_acc_cons by reflexivity); [exact IHu|..];
  match goal with |- _ = Some (Npos (Pos.of_uint_acc _ ?q)) => rewrite <- (digits_acc_pos u q) end;
  f_equal.
Qed.

Lemma dec_nonempty n : dec n <> [].
Proof.
  unfold dec. destruct n as [|p]; [cbn; discriminate|].
  cbn [N.to_uint]. pose proof (DecimalPos.Unsigned.to_uint_nonnil p) as H.
  destruct (Pos.to_uint p); try (cbn; discriminate). now elim H.
Qed.

Lemma digits_val_dec n : digits_val (dec n) = Some n.
Proof.
  unfold digits_val. pose proof (dec_nonempty n) as H.
  destruct (dec n) eqn:E; [now elim H|]. rewrite <- E. unfold dec.
  rewrite digits_acc_zero. f_equal. apply (DecimalN.Unsigned.of_to n).
Qed.

Lemma atoi_dec n : (n < two63)%N -> atoi (dec n) = (Z.of_N n, true).
Proof.
  intros Hn. unfold atoi. pose proof (dec_nonempty n) as Hne. pose proof (dec_digits n) as Hd.
  pose proof (digits_val_dec n) as Hv.
  destruct (dec n) as [|b r] eqn:E; [now elim Hne|].
  inversion Hd as [|? ? Hb _]; subst. unfold is_digit in Hb.
  assert (b <> 45%N /\ b <> 43%N) as [H45 H43] by lia.
  destruct b as [|p]; [lia|].
  do 6 (destruct p as [p|p|]; try (exfalso; lia); try (rewrite Hv; destruct (N.leb_spec two63 n); [lia|reflexivity])).
Qed.

(* ---- split ---- *)
Lemma split_nosep sep a : contains sep a = false -> split sep a = [a].
Proof.
  induction a as [|c a IH]; cbn; [reflexivity|].
  intros H. apply orb_false_iff in H. destruct H as [Hc Ha]. rewrite Hc, (IH Ha). reflexivity.
Qed.

Lemma split_app sep a b : contains sep a = false -> split sep (a ++ sep :: b) = a :: split sep b.
Proof.
  induction a as [|c a IH]; cbn.
  - intros _. now rewrite N.eqb_refl.
  - intros H. apply orb_false_iff in H. destruct H as [Hc Ha]. rewrite Hc, (IH Ha). reflexivity.
Qed.

Fixpoint before (sep : N) (s : bytes) : bytes :=
  match s with [] => [] | c :: s' => if N.eqb c sep then [] else c :: before sep s' end.

Lemma split_hd sep s : exists t, split sep s = before sep s :: t.
Proof.
  induction s as [|c s [t IH]]; cbn; [now exists []|].
  destruct (N.eqb c sep); [eexists; reflexivity|]. rewrite IH. eexists; reflexivity.
Qed.

Lemma before_app sep a b : contains sep a = false -> before sep (a ++ b) = a ++ before sep b.
Proof.
  induction a as [|c a IH]; cbn; [reflexivity|].
  intros H. apply orb_false_iff in H. destruct H as [Hc Ha]. rewrite Hc, (IH Ha). reflexivity.
Qed.

Lemma before_nosep sep s : contains sep (before sep s) = false.
Proof.
  induction s as [|c s IH]; cbn; [reflexivity|].
  destruct (N.eqb c sep) eqn:E; cbn; [reflexivity|]. now rewrite E, IH.
Qed.

Lemma digits_no sep s : Forall is_digit s -> (sep < 48 \/ 57 < sep)%N -> contains sep s = false.
Proof.
  intros H Hs. induction H as [|b s Hb _ IH]; cbn; [reflexivity|].
  rewrite IH, orb_false_r. apply N.eqb_neq. unfold is_digit in Hb. lia.
Qed.

Lemma contains_app c a b : contains c (a ++ b) = contains c a || contains c b.
Proof. induction a as [|x a IH]; cbn; [reflexivity|]. now rewrite IH, orb_assoc. Qed.
