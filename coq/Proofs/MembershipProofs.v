(* Proofs about Model/Membership.v (C10). *)
From Coq Require Import Permutation Lia.
From Verif Require Import Base.Prelude Model.Chunk Proofs.ChunkProofs Model.Membership.
Local Open Scope N_scope.

(* ---------- positions ---------- *)
Lemma pos_nth x l : forall p, pos x l = Some p -> nth_error l p = Some x.
Proof.
  induction l as [|h r IH]; intros p; cbn; [discriminate|].
  destruct (N.eqb_spec x h) as [->|Hne]; [intros [= <-]; reflexivity|].
  destruct (pos x r) as [q|]; cbn; [|discriminate]. intros [= <-]. cbn. now apply IH.
Qed.

Lemma pos_lt x l p : pos x l = Some p -> (p < length l)%nat.
Proof. intros H. apply pos_nth in H. apply nth_error_Some. congruence. Qed.

Lemma pos_in x l p : pos x l = Some p -> In x l.
Proof. intros H. apply pos_nth in H. eapply nth_error_In; eauto. Qed.

Lemma in_pos x l : In x l -> exists p, pos x l = Some p.
Proof.
  induction l as [|h r IH]; [contradiction|]. intros H. cbn.
  destruct (N.eqb_spec x h) as [->|Hne]; [eauto|].
  destruct H as [->|H]; [contradiction|]. destruct (IH H) as [p ->]. cbn. eauto.
Qed.

(* two different members never hold the same position *)
Lemma pos_inj a b l p : pos a l = Some p -> pos b l = Some p -> a = b.
Proof. intros Ha Hb. apply pos_nth in Ha, Hb. congruence. Qed.

Lemma nodup_nth_pos l : NoDup l -> forall p x, nth_error l p = Some x -> pos x l = Some p.
Proof.
  induction 1 as [|h r Hn Hd IH]; intros p x; [destruct p; discriminate|].
  destruct p as [|p]; cbn.
  - intros [= ->]. now rewrite N.eqb_refl.
  - intros Hx. destruct (N.eqb_spec x h) as [->|Hne].
    + exfalso. apply Hn. eapply nth_error_In; eauto.
    + rewrite (IH p x Hx). reflexivity.
Qed.

Lemma mem_in x l : mem x l = true <-> In x l.
Proof.
  unfold mem. rewrite existsb_exists. split.
  - intros (y & Hy & E). apply N.eqb_eq in E. now subst.
  - intros H. exists x. split; [exact H|apply N.eqb_refl].
Qed.

Lemma info_eqb_eq a b : info_eqb a b = true <-> a = b.
Proof.
  destruct a as [[k t]|], b as [[k' t']|]; cbn; try (split; [discriminate|discriminate]); try tauto.
  rewrite andb_true_iff, !Nat.eqb_eq. split; [intros [-> ->]; reflexivity|intros [= -> ->]; auto].
Qed.

Lemma list_eqb_N_eq (a b : list N) : list_eqb N.eqb a b = true <-> a = b.
Proof.
  revert b. induction a as [|x a IH]; intros [|y b]; cbn; try (split; [discriminate|discriminate]); try tauto.
  rewrite andb_true_iff, N.eqb_eq, IH. split; [intros [-> ->]; reflexivity|intros [= -> ->]; auto].
Qed.

(* ---------- sorting by join time ---------- *)
Fixpoint ssorted (l : list (N * N)) : Prop :=
  match l with [] => True | a :: r => Forall (fun b => snd a <= snd b) r /\ ssorted r end.

Lemma insert_perm e l : Permutation (insert_by e l) (e :: l).
Proof.
  induction l as [|h r IH]; cbn; [reflexivity|]. destruct (snd e <=? snd h); [reflexivity|].
  rewrite IH. apply perm_swap.
Qed.

Lemma sort_cons e r : sort_by_join (e :: r) = insert_by e (sort_by_join r).
Proof. reflexivity. Qed.

Lemma sort_perm l : Permutation (sort_by_join l) l.
Proof. induction l as [|e r IH]; [reflexivity|]. rewrite sort_cons, insert_perm. now constructor. Qed.

Lemma insert_ssorted e l : ssorted l -> ssorted (insert_by e l).
Proof.
  induction l as [|h r IH]; cbn; [auto|]. intros [Hh Hr].
  destruct (N.leb_spec (snd e) (snd h)) as [Hle|Hgt].
  - cbn. split; [|split; assumption]. constructor; [exact Hle|].
    rewrite Forall_forall in *. intros x Hx. specialize (Hh x Hx). lia.
  - cbn. split; [|now apply IH].
    rewrite Forall_forall in *. intros x Hx. apply (Permutation_in _ (insert_perm e r)) in Hx.
    destruct Hx as [<-|Hx]; [lia|now apply Hh].
Qed.

Lemma sort_ssorted l : ssorted (sort_by_join l).
Proof. induction l as [|e r IH]; [exact I|]. rewrite sort_cons. now apply insert_ssorted. Qed.

Lemma ssorted_filter f l : ssorted l -> ssorted (filter f l).
Proof.
  induction l as [|a r IH]; cbn; [auto|]. intros [Ha Hr]. destruct (f a); [|now apply IH].
  cbn. split; [|now apply IH]. rewrite Forall_forall in *. intros x Hx. apply filter_In in Hx. now apply Ha.
Qed.

Lemma ssorted_sort_id l : ssorted l -> sort_by_join l = l.
Proof.
  induction l as [|a r IH]; [reflexivity|]. intros [Ha Hr]. rewrite sort_cons, IH by exact Hr.
  destruct r as [|b r']; cbn [insert_by]; [reflexivity|]. inversion Ha as [|? ? Hab _]; subst.
  apply N.leb_le in Hab. now rewrite Hab.
Qed.

Lemma nodup_fst_perm (a b : list (N * N)) : Permutation a b -> NoDup (map fst a) -> NoDup (map fst b).
Proof. intros P. apply Permutation_NoDup. now apply Permutation_map. Qed.

Lemma nodup_fst_filter f (l : list (N * N)) : NoDup (map fst l) -> NoDup (map fst (filter f l)).
Proof.
  induction l as [|a r IH]; cbn; [auto|]. intros H. inversion H as [|? ? Hn Hd]; subst.
  destruct (f a); [|now apply IH]. cbn. constructor; [|now apply IH].
  intros Hin. apply Hn. apply in_map_iff in Hin. destruct Hin as (x & E & Hx). apply filter_In in Hx.
  apply in_map_iff. exists x. tauto.
Qed.

Lemma in_upsert x l id j : In x (map fst (upsert l id j)) -> x = id \/ In x (map fst l).
Proof.
  induction l as [|h r IH]; cbn; [intros [<-|[]]; auto|].
  destruct (N.eqb_spec (fst h) id) as [E|Hne]; cbn.
  - intros [<-|H]; auto.
  - intros [<-|H]; [auto|]. destruct (IH H); auto.
Qed.

Lemma nodup_upsert l id j : NoDup (map fst l) -> NoDup (map fst (upsert l id j)).
Proof.
  induction l as [|h r IH]; cbn; [intros _; constructor; [intros []|constructor]|].
  intros H. inversion H as [|? ? Hn Hd]; subst.
  destruct (N.eqb_spec (fst h) id) as [E|Hne]; cbn.
  - constructor; [now rewrite <- E|exact Hd].
  - constructor; [|now apply IH]. intros Hin. apply in_upsert in Hin. destruct Hin as [E|Hin]; [congruence|contradiction].
Qed.

(* ---------- Part A: the invariant ---------- *)
Record CbInv (s : cbst) : Prop := {
  (* whoever holds a non-empty view holds the numbering that view gives it *)
  ci_info : forall m, cb_last s m <> [] ->
            exists p, pos m (cb_last s m) = Some p /\ cb_info s m = Some (S p, length (cb_last s m));
  ci_index : NoDup (map fst (cb_index s))
}.

Lemma CbInv_init : CbInv cb_init.
Proof. constructor; cbn; [intros m H; now elim H|constructor]. Qed.

Lemma view_nodup s f : NoDup (map fst (cb_index s)) -> NoDup (view s f).
Proof.
  intros H. unfold view, view_entries. apply nodup_fst_filter. eapply nodup_fst_perm; [|exact H].
  symmetry. apply sort_perm.
Qed.

Lemma upd_same {A} (f : N -> A) k v : upd f k v k = v.
Proof. unfold upd. now rewrite N.eqb_refl. Qed.
Lemma upd_other {A} (f : N -> A) k v x : x <> k -> upd f k v x = f x.
Proof. intros H. unfold upd. now apply N.eqb_neq in H as ->. Qed.

Lemma monitor_inv s id f : CbInv s -> CbInv (fst (monitor s id f)).
Proof.
  intros [I1 I2]. unfold monitor. destruct (list_eqb N.eqb (view s f) (cb_last s id)); [now constructor|].
  assert (N2 : NoDup (map fst (view_entries s f))).
  { unfold view_entries. apply nodup_fst_filter. eapply nodup_fst_perm; [|exact I2]. symmetry. apply sort_perm. }
  destruct (pos id (view s f)) as [p|] eqn:E; cbn [fst]; constructor; cbn; auto.
  intros m Hm. destruct (N.eq_dec m id) as [->|Hne].
  - rewrite !upd_same in *. exists p. auto.
  - rewrite !upd_other in * by exact Hne. now apply I1.
Qed.

Lemma cb_step_inv s o : CbInv s -> CbInv (fst (cb_step s o)).
Proof.
  intros I. destruct o as [id j|id|id f]; cbn [cb_step]; [| |now apply monitor_inv].
  - destruct I as [I1 I2]. constructor; cbn; [exact I1|now apply nodup_upsert].
  - destruct I as [I1 I2]. constructor; cbn; assumption.
Qed.

Lemma cb_run_inv ops : forall s, CbInv s -> CbInv (fst (cb_run s ops)).
Proof.
  induction ops as [|o r IH]; intros s I; [exact I|]. cbn [cb_run].
  pose proof (cb_step_inv s o I) as I1. destruct (cb_step s o) as [s1 x]. cbn [fst] in I1.
  specialize (IH s1 I1). destruct (cb_run s1 r) as [s2 xs]. exact IH.
Qed.

(* ---------- one monitor round ---------- *)
(* a member that is in the view holds, after its round, exactly that view and the numbering it gives *)
Lemma monitor_self s id f :
  CbInv s -> In id (view s f) ->
  let s' := fst (monitor s id f) in
  cb_last s' id = view s f /\
  exists p, pos id (view s f) = Some p /\ cb_info s' id = Some (S p, length (view s f)).
Proof.
  intros [I1 _] Hin. unfold monitor.
  destruct (list_eqb N.eqb (view s f) (cb_last s id)) eqn:E.
  - apply list_eqb_N_eq in E. cbn [fst]. split; [now symmetry|].
    assert (Hne : cb_last s id <> []) by (rewrite <- E; intros H; rewrite H in Hin; contradiction).
    destruct (I1 id Hne) as (p & Hp & Hi). rewrite <- E in Hp, Hi. eauto.
  - destruct (in_pos _ _ Hin) as [p Hp]. rewrite Hp. cbn [fst cb_last cb_info]. rewrite !upd_same. eauto.
Qed.

Lemma monitor_other s id f m : m <> id ->
  cb_last (fst (monitor s id f)) m = cb_last s m /\ cb_info (fst (monitor s id f)) m = cb_info s m.
Proof.
  intros Hne. unfold monitor. destruct (list_eqb N.eqb (view s f) (cb_last s id)); [auto|].
  destruct (pos id (view s f)); cbn; [|auto]. now rewrite !upd_other by exact Hne.
Qed.

Lemma filter_idem {A} (g : A -> bool) l : filter g (filter g l) = filter g l.
Proof.
  induction l as [|a r IH]; cbn; [reflexivity|]. destruct (g a) eqn:E; cbn; [rewrite E, IH; reflexivity|exact IH].
Qed.

(* rewriting the index does not change what a round sees *)
Lemma monitor_view s id f : view (fst (monitor s id f)) f = view s f.
Proof.
  unfold monitor. destruct (list_eqb N.eqb (view s f) (cb_last s id)); [reflexivity|].
  assert (E : forall l i, view (CB (view_entries s f) (cb_docs s) l i) f = view s f).
  { intros l i. unfold view, view_entries at 1. cbn [cb_index].
    rewrite ssorted_sort_id by (unfold view_entries; apply ssorted_filter, sort_ssorted).
    unfold view_entries. f_equal.
    replace (live (CB (filter (live s f) (sort_by_join (cb_index s))) (cb_docs s) l i) f) with (live s f) by reflexivity.
    apply filter_idem. }
  destruct (pos id (view s f)); cbn [fst]; apply E.
Qed.

(* the numbering is announced only when it differs from the one in effect *)
Lemma monitor_publish s id f i k t :
  snd (monitor s id f) = Publish i k t -> i = id /\ cb_info s id <> Some (k, t).
Proof.
  unfold monitor. destruct (list_eqb N.eqb (view s f) (cb_last s id)); [discriminate|].
  destruct (pos id (view s f)) as [p|]; cbn [snd]; [|discriminate].
  destruct (info_eqb (cb_info s id) (Some (S p, length (view s f)))) eqn:E; [discriminate|].
  intros [= <- <- <-]. split; [reflexivity|]. intros H. apply info_eqb_eq in H. congruence.
Qed.

(* ---------- quiescence: every live member has run a round on the same view ---------- *)
Definition holds (s : cbst) (V : list N) (m : N) : Prop :=
  cb_last s m = V /\ exists p, pos m V = Some p /\ cb_info s m = Some (S p, length V).

Lemma rounds_agree ms : forall s f,
  CbInv s -> (forall m, In m ms -> In m (view s f)) ->
  let s' := fst (cb_run s (map (fun m => Monitor m f) ms)) in
  view s' f = view s f /\ CbInv s' /\
  (forall m, holds s (view s f) m -> holds s' (view s f) m) /\
  forall m, In m ms -> holds s' (view s f) m.
Proof.
  induction ms as [|a r IH]; intros s f I Hin; cbn [map cb_run fst].
  - split; [reflexivity|]. split; [exact I|]. split; [auto|]. intros m [].
  - cbn [cb_step].
    pose proof (monitor_inv s a f I) as I1.
    pose proof (monitor_view s a f) as V1.
    pose proof (monitor_self s a f I (Hin a (or_introl eq_refl))) as S1.
    assert (K1 : forall m, holds s (view s f) m -> holds (fst (monitor s a f)) (view s f) m).
    { intros m H. destruct (N.eq_dec m a) as [->|Hne]; [exact S1|].
      destruct (monitor_other s a f m Hne) as [E1 E2]. unfold holds. now rewrite E1, E2. }
    destruct (monitor s a f) as [s1 x]. cbn [fst] in *.
    assert (Hin1 : forall m, In m r -> In m (view s1 f)) by (intros m Hm; rewrite V1; apply Hin; now right).
    specialize (IH s1 f I1 Hin1). cbn zeta in IH. rewrite V1 in IH.
    destruct (cb_run s1 (map (fun m => Monitor m f) r)) as [s2 xs]. cbn [fst] in *.
    destruct IH as (V2 & I2 & K2 & H2).
    split; [exact V2|]. split; [exact I2|]. split; [intros m H; apply K2, K1, H|].
    intros m [<-|Hm]; [apply K2, S1|now apply H2].
Qed.

(* ---------- Part B ---------- *)
Lemma tell_spec names : forall i total fail f, NoDup names ->
  forall n, fst (tell names i total fail f) n =
    match pos n names with
    | Some p => if mem n fail then f n else Some ((i + p)%nat, total)
    | None => f n
    end.
Proof.
  induction names as [|h r IH]; intros i total fail f ND n; cbn [tell pos]; [reflexivity|].
  inversion ND as [|? ? Hn Hd]; subst.
  assert (NP : pos h r = None).
  { destruct (pos h r) eqn:Ep; [exfalso; apply Hn; eapply pos_in; eauto|reflexivity]. }
  destruct (mem h fail) eqn:Ef.
  - specialize (IH (S i) total fail f Hd n). destruct (tell r (S i) total fail f) as [f2 o2]. cbn [fst] in *.
    rewrite IH. destruct (N.eqb_spec n h) as [->|Hne].
    + now rewrite Ef, NP.
    + destruct (pos n r) as [p|]; cbn [option_map]; [|reflexivity].
      replace (S i + p)%nat with (i + S p)%nat by lia. reflexivity.
  - specialize (IH (S i) total fail (upd f h (Some (i, total))) Hd n).
    destruct (tell r (S i) total fail (upd f h (Some (i, total)))) as [f2 o2]. cbn [fst] in *.
    rewrite IH. destruct (N.eqb_spec n h) as [->|Hne].
    + rewrite Ef, NP, upd_same. now rewrite Nat.add_0_r.
    + rewrite upd_other by exact Hne. destruct (pos n r) as [p|]; cbn [option_map]; [|reflexivity].
      replace (S i + p)%nat with (i + S p)%nat by lia. reflexivity.
Qed.

Record SdInv (s : sdst) : Prop := { si_nodup : NoDup (map fst (sd_services s)) }.

Lemma sd_step_inv s o : SdInv s -> SdInv (fst (sd_step s o)).
Proof.
  intros [H]. destruct o as [n j|n|fail]; cbn [sd_step].
  - constructor. cbn. now apply nodup_upsert.
  - constructor. cbn. now apply nodup_fst_filter.
  - destruct (tell _ _ _ _ _). constructor. exact H.
Qed.

Lemma sd_run_inv ops : forall s, SdInv s -> SdInv (fst (sd_run s ops)).
Proof.
  induction ops as [|o r IH]; intros s I; [exact I|]. cbn [sd_run].
  pose proof (sd_step_inv s o I) as I1. destruct (sd_step s o) as [s1 x]. cbn [fst] in I1.
  specialize (IH s1 I1). destruct (sd_run s1 r) as [s2 xs]. exact IH.
Qed.

Definition sd_names (s : sdst) : list N := map fst (sort_by_join (sd_services s)).

Lemma sd_names_nodup s : SdInv s -> NoDup (sd_names s).
Proof. intros [H]. unfold sd_names. eapply nodup_fst_perm; [|exact H]. symmetry. apply sort_perm. Qed.

(* one monitor round of the leader *)
Lemma round_spec s fail :
  SdInv s ->
  let s' := fst (sd_step s (SRound fail)) in
  let total := S (length (sd_names s)) in
  sd_leader s' = Some (1%nat, total) /\ sd_services s' = sd_services s /\
  forall n, sd_follower s' n =
    match pos n (sd_names s) with
    | Some p => if mem n fail then sd_follower s n else Some ((2 + p)%nat, total)
    | None => sd_follower s n
    end.
Proof.
  intros I. cbn [sd_step]. fold (sd_names s).
  pose proof (tell_spec (sd_names s) 2 (S (length (sd_names s))) fail (sd_follower s) (sd_names_nodup s I)) as T.
  destruct (tell (sd_names s) 2 (S (length (sd_names s))) fail (sd_follower s)) as [f fo]. cbn [fst] in *.
  split; [reflexivity|]. split; [reflexivity|exact T].
Qed.

(* ---------- numbering + partition rule: exactly one owner per vBucket ---------- *)
Local Close Scope N_scope.
Theorem one_owner (V : list N) (n v : nat) :
  NoDup V -> 1 <= length V <= n -> v < n ->
  exists m p s e, pos m V = Some p /\ member_range n (length V) (S p) = Some (s, e) /\ s <= v <= e /\
    forall m' p' s' e', pos m' V = Some p' -> member_range n (length V) (S p') = Some (s', e') -> s' <= v <= e' -> m' = m.
Proof.
  intros ND HT Hv. destruct (owner_exists n (length V) v HT Hv) as (k & s & e & Hk & Hr & Hin).
  destruct (nth_error V (k - 1)) as [m|] eqn:En; [|apply nth_error_None in En; lia].
  exists m, (k - 1), s, e. replace (S (k - 1)) with k by lia.
  split; [now apply nodup_nth_pos|]. split; [exact Hr|]. split; [exact Hin|].
  intros m' p' s' e' Hp' Hr' Hin'.
  assert (E : S p' = k) by (eapply (owner_unique n (length V) v); eauto; lia).
  apply pos_nth in Hp'. replace p' with (k - 1) in Hp' by lia. congruence.
Qed.

(* what a round sees: an instance whose heart-beat is stale or whose document is gone is not in it; one that has
   registered, has its document and a fresh heart-beat is *)
Lemma view_sound s f m : In m (view s f) -> In m f /\ In m (cb_docs s) /\ In m (map fst (cb_index s)).
Proof.
  unfold view, view_entries. rewrite in_map_iff. intros ((i, j) & <- & H). apply filter_In in H. destruct H as [Hi Hl].
  unfold live in Hl. apply andb_true_iff in Hl. destruct Hl as [H1 H2]. cbn in *.
  split; [now apply mem_in|]. split; [now apply mem_in|].
  apply (Permutation_in _ (sort_perm (cb_index s))) in Hi. apply in_map_iff. now exists (i, j).
Qed.

Lemma view_complete s f m j : In (m, j) (cb_index s) -> In m (cb_docs s) -> In m f -> In m (view s f).
Proof.
  intros Hi Hd Hf. unfold view, view_entries. apply in_map_iff. exists (m, j). split; [reflexivity|].
  apply filter_In. split; [apply (Permutation_in _ (Permutation_sym (sort_perm (cb_index s)))); exact Hi|].
  unfold live. cbn. apply andb_true_iff. split; now apply mem_in.
Qed.

Lemma monitor_panic s id f : snd (monitor s id f) = PanicNoSelf id -> ~ In id (view s f).
Proof.
  unfold monitor. destruct (list_eqb N.eqb (view s f) (cb_last s id)); [discriminate|].
  destruct (pos id (view s f)) as [p|] eqn:E; cbn [snd].
  - destruct (info_eqb _ _); discriminate.
  - intros _ Hin. destruct (in_pos _ _ Hin) as [p Hp]. congruence.
Qed.

(* --- re-admission of a follower --- *)
Lemma upsert_in l id j : In id (map fst (upsert l id j)).
Proof.
  induction l as [|h r IH]; cbn [upsert]; [left; reflexivity|].
  destruct (N.eqb (fst h) id) eqn:E; cbn [map fst]; [left; reflexivity|right; exact IH].
Qed.

Lemma registered_is_numbered ops name join fail : mem name fail = false ->
  let s := fst (sd_run sd_init (ops ++ [SAdd name join])) in
  exists p, pos name (sd_names s) = Some p /\
            sd_follower (fst (sd_step s (SRound fail))) name = Some ((2 + p)%nat, S (length (sd_names s))).
Proof.
  intros Hf s.
  assert (I : SdInv s) by (apply sd_run_inv; constructor; constructor).
  assert (Hin : In name (sd_names s)).
  { unfold sd_names. apply (Permutation_in name (Permutation_map fst (Permutation_sym (sort_perm (sd_services s))))).
    unfold s. clear.
    assert (G : forall l s0, sd_services (fst (sd_run s0 (l ++ [SAdd name join]))) =
                             upsert (sd_services (fst (sd_run s0 l))) name join).
    { intros l. induction l as [|o r IH]; intros s0.
      - cbn [app sd_run]. destruct (sd_step s0 (SAdd name join)) as [s1 x] eqn:E. cbn in E. injection E as <- _. reflexivity.
      - cbn [app sd_run]. destruct (sd_step s0 o) as [s1 x]. specialize (IH s1).
        destruct (sd_run s1 (r ++ [SAdd name join])) as [s2 xs]. destruct (sd_run s1 r) as [s3 ys]. exact IH. }
    rewrite G. apply upsert_in. }
  destruct (in_pos _ _ Hin) as [p Hp]. exists p. split; [exact Hp|].
  destruct (round_spec s fail I) as (_ & _ & Hn). rewrite (Hn name). fold (sd_names s). rewrite Hp, Hf. reflexivity.
Qed.
