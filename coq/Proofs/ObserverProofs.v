(* The observer as a stream transducer: with no catch-up pending, what it forwards for an event is a
   pure function of that event and the snapshot in force; counters count accepted events. *)
From Verif Require Import Base.Prelude Base.Bytes Model.Stream.
Local Open Scope N_scope.

Fixpoint obs_run (c : cfg) (ob : obs) (evs : list ev) : obs * list fwd :=
  match evs with
  | [] => (ob, [])
  | e :: r => let '(ob1, f) := obs_event c ob e in let '(ob2, fs) := obs_run c ob1 r in (ob2, f :: fs)
  end.

(* the snapshot in force before each event *)
Definition next_snap (sn : option (N * N)) (e : ev) : option (N * N) :=
  match e with Marker s e' => Some (s, e') | SeqAdv q => Some (q, q) | _ => sn end.
Fixpoint annotate (sn : option (N * N)) (evs : list ev) : list (ev * option (N * N)) :=
  match evs with [] => [] | e :: r => (e, sn) :: annotate (next_snap sn e) r end.

(* what is forwarded for one event, given only the constant parameters of the observer *)
Definition fwd_spec (c : cfg) (uuid latest : N) (closed : bool) (p : ev * option (N * N)) : fwd :=
  let '(e, sn) := p in
  match e with
  | Marker _ _ | Oso => FNone
  | SeqAdv q => if closed then FNone else FAdvance (MkO uuid q q q latest)
  | Sys _ q _ =>
      match sn with
      | Some (s, e') => if in_snap sn q then (if closed then FNone else FAdvance (MkO uuid q s e' latest)) else FFail
      | None => FFail
      end
  | Doc k it =>
      if before_skip c (i_cas it) then FNone else
      match sn with
      | Some (s, e') =>
          if in_snap sn (i_seq it)
          then (if closed then FNone
                else FDoc k it (MkO uuid (i_seq it) s e' latest) (coll_name (c_colls c) (i_cid it)) (event_time_s (i_cas it)))
          else FFail
      | None => FFail
      end
  end.

Lemma obs_event_nocatchup c ob e :
  ob_catchup ob = None ->
  let '(ob', f) := obs_event c ob e in
  f = fwd_spec c (ob_uuid ob) (ob_latest ob) (ob_closed ob) (e, ob_snap ob) /\
  ob_catchup ob' = None /\ ob_uuid ob' = ob_uuid ob /\ ob_latest ob' = ob_latest ob /\ ob_closed ob' = ob_closed ob /\
  ob_snap ob' = next_snap (ob_snap ob) e.
Proof.
  intros Hc. destruct ob as [sn uu cu cl ecl la m d x]. cbn in Hc. subst cu.
  destruct e as [s e'|k it|k q cid|q|]; cbn [obs_event fwd_spec next_snap need_catchup ob_catchup ob_snap ob_closed ob_uuid ob_latest with_catchup with_snap mk_offset count_kind].
  - cbn. repeat split; reflexivity.
  - destruct (before_skip c (i_cas it)); [cbn; repeat split; reflexivity|].
    destruct sn as [[s e']|]; [|cbn; repeat split; reflexivity].
    destruct (in_snap (Some (s, e')) (i_seq it)); [|cbn; repeat split; reflexivity].
    destruct k, cl; cbn; repeat split; reflexivity.
  - destruct sn as [[s e']|]; [|cbn; repeat split; reflexivity].
    destruct (in_snap (Some (s, e')) q), cl; cbn; repeat split; reflexivity.
  - destruct cl; cbn; repeat split; reflexivity.
  - cbn. repeat split; reflexivity.
Qed.

Theorem obs_run_map c evs : forall ob,
  ob_catchup ob = None ->
  snd (obs_run c ob evs) = map (fwd_spec c (ob_uuid ob) (ob_latest ob) (ob_closed ob)) (annotate (ob_snap ob) evs).
Proof.
  induction evs as [|e r IH]; intros ob Hc; [reflexivity|]. cbn [obs_run annotate map].
  pose proof (obs_event_nocatchup c ob e Hc) as H. destruct (obs_event c ob e) as [ob1 f].
  destruct H as (-> & C1 & U1 & L1 & K1 & S1). specialize (IH ob1 C1). destruct (obs_run c ob1 r) as [ob2 fs].
  cbn [snd] in *. rewrite IH, U1, L1, K1, S1. reflexivity.
Qed.

(* ---- catch-up after a rollback: with increasing sequence numbers, exactly the events above F get through ---- *)
Definition ev_seq (e : ev) : option N :=
  match e with Doc _ it => Some (i_seq it) | Sys _ q _ => Some q | _ => None end.

Lemma need_catchup_above F q : F < q -> need_catchup (Some F) q = (None, false).
Proof. intros H. cbn. destruct (N.leb_spec F q); [|lia]. destruct (N.eqb_spec q F); [lia|reflexivity]. Qed.
Lemma need_catchup_at F : need_catchup (Some F) F = (None, true).
Proof. cbn. rewrite N.leb_refl, N.eqb_refl. reflexivity. Qed.
Lemma need_catchup_below F q : q < F -> need_catchup (Some F) q = (Some F, true).
Proof. intros H. cbn. destruct (N.leb_spec F q); [lia|reflexivity]. Qed.

(* an event at or below F is suppressed while catch-up is pending; the first one above F ends catch-up and passes *)
Lemma catchup_suppresses c ob e F q :
  ob_catchup ob = Some F -> ev_seq e = Some q -> q <= F ->
  snd (obs_event c ob e) = FNone /\
  (ob_catchup (fst (obs_event c ob e)) = Some F \/ (q = F /\ ob_catchup (fst (obs_event c ob e)) = None)).
Proof.
  intros Hc He Hq. destruct e as [s e'|k it|k q' cid|q'|]; try discriminate; cbn in He; injection He as <-.
  - cbn [obs_event]. rewrite Hc. destruct (N.eq_dec (i_seq it) F) as [->|Hne].
    + rewrite need_catchup_at. cbn. auto.
    + rewrite need_catchup_below by lia. cbn. auto.
  - cbn [obs_event]. rewrite Hc. destruct (N.eq_dec q' F) as [->|Hne].
    + rewrite need_catchup_at. cbn. auto.
    + rewrite need_catchup_below by lia. cbn. auto.
Qed.

Lemma catchup_passes c ob e F q :
  ob_catchup ob = Some F -> ev_seq e = Some q -> F < q ->
  obs_event c ob e = obs_event c (with_catchup ob None) e /\ ob_catchup (fst (obs_event c ob e)) = None.
Proof.
  intros Hc He Hq. destruct e as [s e'|k it|k q' cid|q'|]; try discriminate; cbn in He; injection He as <-.
  - cbn [obs_event]. rewrite Hc, need_catchup_above by exact Hq. cbn [need_catchup ob_catchup with_catchup].
    destruct (before_skip c (i_cas it)); [cbn; auto|]. cbn [ob_snap ob_closed with_catchup].
    destruct (ob_snap ob) as [[s e']|]; [|cbn; auto]. destruct (in_snap _ _); [|cbn; auto]. destruct k; cbn; auto.
  - cbn [obs_event]. rewrite Hc, need_catchup_above by exact Hq. cbn [need_catchup ob_catchup with_catchup ob_snap ob_closed].
    destruct (ob_snap ob) as [[s e']|]; [|cbn; auto]. destruct (in_snap _ _); cbn; auto.
Qed.

(* ---- counters (C16): each counter grows by one exactly for an accepted event of its kind ---- *)
Definition accepted (c : cfg) (ob : obs) (e : ev) : option dkind :=
  match e with
  | Doc k it =>
      if snd (need_catchup (ob_catchup ob) (i_seq it)) then None
      else if before_skip c (i_cas it) then None
      else if in_snap (ob_snap ob) (i_seq it) then Some k else None
  | _ => None
  end.

Lemma obs_event_counts c ob e :
  let ob' := fst (obs_event c ob e) in
  ob_mut ob' = ob_mut ob + (match accepted c ob e with Some KMut => 1 | _ => 0 end) /\
  ob_del ob' = ob_del ob + (match accepted c ob e with Some KDel => 1 | _ => 0 end) /\
  ob_exp ob' = ob_exp ob + (match accepted c ob e with Some KExp => 1 | _ => 0 end).
Proof.
  destruct e as [s e'|k it|k q cid|q|]; cbn [obs_event accepted]; try (cbn; lia).
  - destruct (need_catchup (ob_catchup ob) (i_seq it)) as [cu sup]. cbn [snd]. destruct sup; [cbn; lia|].
    destruct (before_skip c (i_cas it)); [cbn; lia|].
    destruct (ob_snap ob) as [[s e']|] eqn:Es; [|cbn; lia].
    destruct (in_snap (Some (s, e')) (i_seq it)); [|cbn; lia]. destruct k; cbn; lia.
  - destruct (need_catchup (ob_catchup ob) q) as [cu sup]. destruct sup; [cbn; lia|].
    destruct (ob_snap ob) as [[s e']|]; [|cbn; lia]. destruct (in_snap _ q); cbn; lia.
Qed.

(* a closed observer forwards nothing (it can still stop the client on an out-of-snapshot event) *)
Lemma obs_event_closed c ob e : ob_closed ob = true -> snd (obs_event c ob e) = FNone \/ snd (obs_event c ob e) = FFail.
Proof.
  intros H. destruct ob as [sn uu cu cl ecl la m d x]. cbn in H. subst cl.
  destruct e as [s e'|k it|k q cid|q|]; cbn [obs_event ob_catchup ob_snap ob_closed with_snap with_catchup mk_offset].
  - now left.
  - destruct (need_catchup cu (i_seq it)) as [cu' [|]]; [now left|]. destruct (before_skip c (i_cas it)); [now left|].
    destruct sn as [[s e']|]; [|now right]. destruct (in_snap _ _); [now left|now right].
  - destruct (need_catchup cu q) as [cu' [|]]; [now left|]. destruct sn as [[s e']|]; [|now right].
    destruct (in_snap _ _); [now left|now right].
  - now left.
  - now left.
Qed.
