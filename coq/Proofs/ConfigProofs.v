From Verif Require Import Base.Prelude Base.Bytes Model.Config Proofs.BytesProofs.
Local Open Scope Z_scope.

Lemma dz_idem d x : d <> 0 -> dz d (dz d x) = dz d x.
Proof. intros Hd. unfold dz. destruct (Z.eqb_spec x 0); [destruct (Z.eqb_spec d 0); [contradiction|reflexivity]|].
  destruct (Z.eqb_spec x 0); [contradiction|reflexivity]. Qed.
Lemma dz_set d x : x <> 0 -> dz d x = x.
Proof. intros H. unfold dz. now destruct (Z.eqb_spec x 0). Qed.
Lemma dz_nonzero d x : d <> 0 -> dz d x <> 0.
Proof. intros Hd. unfold dz. destruct (Z.eqb_spec x 0); auto. Qed.
Lemma ds_idem d x : d <> [] -> ds d (ds d x) = ds d x.
Proof. intros Hd. destruct x; cbn; [destruct d; [contradiction|reflexivity]|reflexivity]. Qed.
Lemma ds_set d x : x <> [] -> ds d x = x.
Proof. destruct x; [contradiction|reflexivity]. Qed.
Lemma ds_nonempty d x : d <> [] -> ds d x <> [].
Proof. intros Hd. destruct x; cbn; [exact Hd|discriminate]. Qed.
Lemma dopt_idem {A} (d : A) x : dopt d (dopt d x) = dopt d x.
Proof. destruct x; reflexivity. Qed.

Lemma env_int_idem e cur v : env_int e cur = Some v -> env_int e v = Some v.
Proof.
  unfold env_int. destruct e as [s|]; [|intros [= <-]; reflexivity].
  destruct (atoi s) as [w ok]. destruct ok; [auto|discriminate].
Qed.

Theorem apply_defaults_idempotent e c c' : apply_defaults e c = Some c' -> apply_defaults e c' = Some c'.
Proof.
  unfold apply_defaults.
  destruct (env_int (e_total e) (dz 1 (total_members c))) as [t|] eqn:Et; [|discriminate].
  destruct (env_int (e_member e) (dz 1 (member_number c))) as [m|] eqn:Em; [|discriminate].
  intros [= <-]. cbn [total_members member_number].
  assert (Et' : env_int (e_total e) (dz 1 t) = Some t).
  { unfold env_int in *. destruct (e_total e) as [s|]; [exact Et|]. injection Et as <-. now rewrite dz_idem. }
  assert (Em' : env_int (e_member e) (dz 1 m) = Some m).
  { unfold env_int in *. destruct (e_member e) as [s|]; [exact Em|]. injection Em as <-. now rewrite dz_idem. }
  rewrite Et', Em'. cbn.
  rewrite !dz_idem by (unfold sec, minute; lia). rewrite !ds_idem by discriminate. rewrite !dopt_idem. reflexivity.
Qed.

(* every option is filled *)
Definition filled (c : conf) : Prop :=
  rm_interval c <> 0 /\ rm_config_watch c <> 0 /\ cp_interval c <> 0 /\ cp_timeout c <> 0 /\ cp_type c <> [] /\ cp_autoreset c <> [] /\
  hc_interval c <> 0 /\ hc_timeout c <> 0 /\ rebalance_delay c <> 0 /\ membership_type c <> [] /\
  dcp_conn_timeout c <> 0 /\ conn_timeout c <> 0 /\ collection_names c <> None /\ scope_name c <> [] /\ conn_buffer c <> None /\
  max_queue c <> 0 /\ metric_path c <> [] /\ api_port c <> 0 /\ le_type c <> [] /\ rpc_port c <> 0 /\
  dcp_buffer c <> None /\ dcp_conn_buffer c <> None /\ dcp_max_queue c <> 0 /\ metadata_type c <> [].

Theorem apply_defaults_fills e c c' : apply_defaults e c = Some c' -> filled c'.
Proof.
  unfold apply_defaults.
  destruct (env_int (e_total e) _) as [t|]; [|discriminate]. destruct (env_int (e_member e) _) as [m|]; [|discriminate].
  intros [= <-]. unfold filled; cbn.
  repeat split; try (apply dz_nonzero; unfold sec, minute; lia); try (apply ds_nonempty; discriminate);
    match goal with |- dopt _ ?x <> None => destruct x; discriminate end.
Qed.

(* explicitly set values are never altered (the two membership numbers: unless the environment overrides them) *)
Definition preserved (c c' : conf) : Prop :=
  (rm_interval c <> 0 -> rm_interval c' = rm_interval c) /\ (rm_config_watch c <> 0 -> rm_config_watch c' = rm_config_watch c) /\
  (cp_interval c <> 0 -> cp_interval c' = cp_interval c) /\ (cp_timeout c <> 0 -> cp_timeout c' = cp_timeout c) /\
  (cp_type c <> [] -> cp_type c' = cp_type c) /\ (cp_autoreset c <> [] -> cp_autoreset c' = cp_autoreset c) /\
  (hc_interval c <> 0 -> hc_interval c' = hc_interval c) /\ (hc_timeout c <> 0 -> hc_timeout c' = hc_timeout c) /\
  (rebalance_delay c <> 0 -> rebalance_delay c' = rebalance_delay c) /\ (membership_type c <> [] -> membership_type c' = membership_type c) /\
  (dcp_conn_timeout c <> 0 -> dcp_conn_timeout c' = dcp_conn_timeout c) /\ (conn_timeout c <> 0 -> conn_timeout c' = conn_timeout c) /\
  (collection_names c <> None -> collection_names c' = collection_names c) /\ (scope_name c <> [] -> scope_name c' = scope_name c) /\
  (conn_buffer c <> None -> conn_buffer c' = conn_buffer c) /\ (max_queue c <> 0 -> max_queue c' = max_queue c) /\
  (metric_path c <> [] -> metric_path c' = metric_path c) /\ (api_port c <> 0 -> api_port c' = api_port c) /\
  (le_type c <> [] -> le_type c' = le_type c) /\ (rpc_port c <> 0 -> rpc_port c' = rpc_port c) /\
  (dcp_buffer c <> None -> dcp_buffer c' = dcp_buffer c) /\ (dcp_conn_buffer c <> None -> dcp_conn_buffer c' = dcp_conn_buffer c) /\
  (dcp_max_queue c <> 0 -> dcp_max_queue c' = dcp_max_queue c) /\ (metadata_type c <> [] -> metadata_type c' = metadata_type c).

Theorem apply_defaults_preserves e c c' : apply_defaults e c = Some c' ->
  preserved c c' /\
  (e_total e = None -> total_members c <> 0 -> total_members c' = total_members c) /\
  (e_member e = None -> member_number c <> 0 -> member_number c' = member_number c).
Proof.
  unfold apply_defaults.
  destruct (env_int (e_total e) _) as [t|] eqn:Et; [|discriminate]. destruct (env_int (e_member e) _) as [m|] eqn:Em; [|discriminate].
  intros [= <-]. split; [|split].
  - unfold preserved; cbn. repeat split; intros H; try (now apply dz_set); try (now apply ds_set);
      match goal with |- dopt _ ?x = ?x => destruct x; [reflexivity|contradiction] end.
  - cbn. intros He H. rewrite He in Et. cbn in Et. injection Et as <-. now apply dz_set.
  - cbn. intros He H. rewrite He in Em. cbn in Em. injection Em as <-. now apply dz_set.
Qed.

Theorem env_wins e c c' s v : apply_defaults e c = Some c' ->
  (e_total e = Some s -> atoi s = (v, true) -> total_members c' = v) /\
  (e_member e = Some s -> atoi s = (v, true) -> member_number c' = v).
Proof.
  unfold apply_defaults.
  destruct (env_int (e_total e) _) as [t|] eqn:Et; [|discriminate]. destruct (env_int (e_member e) _) as [m|] eqn:Em; [|discriminate].
  intros [= <-]. cbn. split; intros He Ha.
  - rewrite He in Et. cbn in Et. rewrite Ha in Et. now injection Et.
  - rewrite He in Em. cbn in Em. rewrite Ha in Em. now injection Em.
Qed.

(* ---------- units ---------- *)
Lemma last2_app x a b : last2 (x ++ [a; b]) = Some (x, a, b).
Proof.
  induction x as [|y x IH]; [reflexivity|]. cbn [app]. destruct (x ++ [a; b]) as [|p [|q r]] eqn:E.
  - destruct x; discriminate.
  - destruct x as [|? [|? ?]]; discriminate.
  - cbn [last2]. cbn [last2] in IH. rewrite IH. reflexivity.
Qed.

Lemma ltrim_digits s : Forall is_digit s -> ltrim s = s.
Proof. intros H. destruct H as [|b r Hb _]; [reflexivity|]. cbn. unfold is_blank. unfold is_digit in Hb.
  destruct (N.eqb_spec b 32); [lia|]. destruct (N.eqb_spec b 9); [lia|]. reflexivity. Qed.

Lemma ltrim_blanks bl s : Forall (fun b => is_blank b = true) bl -> ltrim (bl ++ s) = ltrim s.
Proof. induction 1 as [|b r Hb _ IH]; [reflexivity|]. cbn. now rewrite Hb. Qed.

Lemma rev_digits s : Forall is_digit s -> Forall is_digit (rev s).
Proof. intros H. apply Forall_forall. intros x Hx. apply in_rev in Hx. rewrite Forall_forall in H. auto. Qed.

Lemma trim_digits_blanks s bl : s <> [] -> Forall is_digit s -> Forall (fun b => is_blank b = true) bl -> trim (s ++ bl) = s.
Proof.
  intros Hne Hd Hb. unfold trim.
  assert (L : ltrim (s ++ bl) = s ++ bl).
  { destruct s as [|b r]; [contradiction|]. inversion Hd as [|? ? Hb1 _]; subst. cbn. unfold is_blank. unfold is_digit in Hb1.
    destruct (N.eqb_spec b 32); [lia|]. destruct (N.eqb_spec b 9); [lia|]. reflexivity. }
  rewrite L, rev_app_distr. rewrite ltrim_blanks.
  - rewrite ltrim_digits by (now apply rev_digits). apply rev_involutive.
  - apply Forall_forall. intros x Hx. apply in_rev in Hx. rewrite Forall_forall in Hb. auto.
Qed.

Lemma split_sep_digits s : Forall is_digit s -> split_sep s = (s, None).
Proof.
  induction 1 as [|b r Hb _ IH]; [reflexivity|]. cbn. unfold is_digit in Hb.
  destruct (N.eqb_spec b 46); [lia|]. destruct (N.eqb_spec b 44); [lia|]. cbn. now rewrite IH.
Qed.

Lemma parse_decimal_dec n : parse_decimal (dec n) = Some (false, n, 0%nat).
Proof.
  pose proof (dec_digits n) as Hd. pose proof (dec_nonempty n) as Hne. pose proof (digits_val_dec n) as Hv.
  unfold parse_decimal. destruct (dec n) as [|b r] eqn:E; [contradiction|].
  inversion Hd as [|? ? Hb Hr]; subst. unfold is_digit in Hb.
  assert (b <> 45%N /\ b <> 43%N) as [H1 H2] by lia.
  assert (S : split_sep (b :: r) = (b :: r, None)) by (apply split_sep_digits; now constructor).
  destruct b as [|p]; [lia|].
  do 6 (destruct p as [p|p|]; try (exfalso; lia); try (rewrite S; unfold all_digits; unfold digits_val in Hv; rewrite Hv; reflexivity)).
Qed.

Lemma atoi_not_digits s : digits_val_acc 0 s = None ->
  match s with 45%N :: _ | 43%N :: _ => False | _ => True end -> s <> [] -> atoi s = (0, false).
Proof.
  intros H Hs Hne. unfold atoi. destruct s as [|b r]; [contradiction|].
  destruct b as [|p]; [unfold digits_val; now rewrite H|].
  do 6 (destruct p as [p|p|]; try contradiction; try (unfold digits_val; now rewrite H)).
Qed.

Lemma digits_val_acc_app_nondigit s x r : forall acc, digit_val x = None -> digits_val_acc acc (s ++ x :: r) = None.
Proof.
  induction s as [|b s IH]; intros acc Hx; cbn; [now rewrite Hx|]. destruct (digit_val b); [apply IH; exact Hx|reflexivity].
Qed.

(* the unit spellings: any letter case of kb / mb / gb *)
Definition unit_k (u1 u2 : N) : option Z :=
  if (upper u2 =? 66)%N then
    (if (upper u1 =? 75)%N then Some 1 else if (upper u1 =? 77)%N then Some 2 else if (upper u1 =? 71)%N then Some 3 else None)
  else None.

Theorem resolve_units n bl u1 u2 k :
  Forall (fun b => is_blank b = true) bl -> unit_k u1 u2 = Some k ->
  resolve (UStr (dec n ++ bl ++ [u1; u2])) = Some (Z.of_N n * 1024 ^ k).
Proof.
  intros Hb Hk. unfold resolve.
  assert (Hu1 : digit_val u1 = None /\ is_blank u1 = false).
  { unfold unit_k in Hk. destruct (upper u2 =? 66)%N; [|discriminate]. unfold upper in Hk. unfold digit_val, is_blank.
    destruct ((97 <=? u1) && (u1 <=? 122))%N eqn:E.
    - apply andb_true_iff in E. destruct E as [E1 E2]. apply N.leb_le in E1, E2.
      destruct (N.leb_spec 48 u1), (N.leb_spec u1 57); cbn; try lia; split; try reflexivity;
        destruct (N.eqb_spec u1 32), (N.eqb_spec u1 9); try lia; reflexivity.
    - destruct (N.eqb_spec u1 75) as [->|]; [cbn; auto|]. destruct (N.eqb_spec u1 77) as [->|]; [cbn; auto|].
      destruct (N.eqb_spec u1 71) as [->|]; [cbn; auto|discriminate]. }
  destruct Hu1 as [Hu1 Hu1b].
  assert (A : atoi (dec n ++ bl ++ [u1; u2]) = (0, false)).
  { apply atoi_not_digits.
    - clear Hk. induction Hb as [|b r Hbb _ IH].
      + cbn [app]. now apply digits_val_acc_app_nondigit.
      + replace (dec n ++ (b :: r) ++ [u1; u2]) with (dec n ++ b :: (r ++ [u1; u2])) by reflexivity.
        apply digits_val_acc_app_nondigit. unfold is_blank in Hbb. unfold digit_val.
        destruct (N.eqb_spec b 32) as [->|]; [reflexivity|]. destruct (N.eqb_spec b 9) as [->|]; [reflexivity|discriminate].
    - pose proof (dec_digits n) as Hd. pose proof (dec_nonempty n) as Hne. destruct (dec n) as [|b r]; [contradiction|].
      inversion Hd as [|? ? Hbd _]; subst. unfold is_digit in Hbd. cbn [app].
      destruct b as [|p]; [exact I|]. do 6 (destruct p as [p|p|]; try exact I; try lia).
    - pose proof (dec_nonempty n). destruct (dec n); [contradiction|discriminate]. }
  rewrite A. unfold unit_to_bytes. rewrite app_assoc, last2_app. fold (unit_k u1 u2). rewrite Hk.
  rewrite trim_digits_blanks by (try apply dec_nonempty; try apply dec_digits; exact Hb).
  rewrite parse_decimal_dec. cbn [Z.of_nat Z.pow]. rewrite Z.div_1_r. reflexivity.
Qed.

Theorem resolve_plain_int n : (n < two63)%N -> resolve (UStr (dec n)) = Some (Z.of_N n).
Proof. intros H. unfold resolve. now rewrite atoi_dec. Qed.

(* ---------- substitution ---------- *)
Lemma subst_env_no_vars env file :
  (forall name, In name (placeholders file) -> lookup_env env name = None) -> subst_env env file = file.
Proof.
  unfold subst_env. generalize (placeholders file) as ps. intros ps. revert file.
  induction ps as [|p ps IH]; intros file H; [reflexivity|]. cbn [fold_left].
  rewrite (H p (or_introl eq_refl)). apply IH. intros name Hn. apply H. now right.
Qed.
