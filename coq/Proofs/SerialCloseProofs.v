From Coq Require Import List Bool Arith Lia.
Import ListNotations.
From Verif Require Import Model.SerialClose.

Definition is_wait (o : scop) : Prop := exists b, o = WaitTake b.
Definition waits (l : list scop) : Prop := Forall is_wait l.
Definition sweep_steps (l : list scop) : Prop := Forall (fun o => o = SweepVb \/ is_wait o) l.

Lemma run_app f s a b : sc_run f s (a ++ b) = sc_run f (sc_run f s a) b.
Proof. unfold sc_run. apply fold_left_app. Qed.

Lemma run_cons f s o r : sc_run f s (o :: r) = sc_run f (sc_step f s o) r.
Proof. reflexivity. Qed.

(* nothing posted: a wait() goroutine has nothing to take *)
Lemma wait_noop f s b : sc_sig_end s = 0 -> sc_sig_close s = 0 -> sc_step f s (WaitTake b) = s.
Proof.
  intros He Hc. cbn [sc_step]. destruct (sc_waiters s) as [|w]; [reflexivity|].
  rewrite He, Hc. cbn. destruct b; reflexivity.
Qed.

Lemma waits_noop f : forall l s, waits l -> sc_sig_end s = 0 -> sc_sig_close s = 0 -> sc_run f s l = s.
Proof.
  induction l as [|o r IH]; intros s W He Hc; [reflexivity|].
  inversion W as [|? ? [b ->] Wr]; subst. rewrite run_cons, wait_noop by assumption. apply IH; assumption.
Qed.

(* nobody waiting: nothing is taken *)
Lemma waits_nobody f : forall l s, waits l -> sc_waiters s = 0 -> sc_run f s l = s.
Proof.
  induction l as [|o r IH]; intros s W Hw; [reflexivity|].
  inversion W as [|? ? [b ->] Wr]; subst. rewrite run_cons.
  assert (E : sc_step f s (WaitTake b) = s) by (cbn [sc_step]; rewrite Hw; reflexivity).
  rewrite E. apply IH; assumption.
Qed.

(* --- the repaired code: the close sweep posts nothing --- *)
Record SweepInv (s : sc) : Prop := {
  si_ending : sc_ending s = true; si_end : sc_sig_end s = 0; si_close : sc_sig_close s = 0; si_waiters : sc_waiters s = 1;
  si_fe : sc_fin_end s = false; si_fc : sc_fin_close s = false; si_bal : sc_balancing s = true; si_stop : sc_stopped s = false }.

Lemma sweep_keeps : forall l s, sweep_steps l -> SweepInv s -> SweepInv (sc_run true s l).
Proof.
  induction l as [|o r IH]; intros s W I; [exact I|].
  inversion W as [|? ? Ho Wr]; subst. rewrite run_cons. apply IH; [exact Wr|].
  destruct Ho as [->|[b ->]].
  - destruct I as [E1 E2 E3 E4 E5 E6 E7 E8]. constructor; cbn [sc_step sc_ending sc_sig_end sc_sig_close sc_waiters sc_fin_end sc_fin_close sc_balancing sc_stopped]; try assumption.
    rewrite E1. cbn. rewrite andb_false_r. exact E2.
  - rewrite wait_noop; [exact I|apply (si_end _ I)|apply (si_close _ I)].
Qed.

Theorem fixed_cycle_keeps_running : forall n A W1 W2 W3 W4,
  sweep_steps A -> waits W1 -> waits W2 -> W2 <> [] -> waits W3 -> waits W4 ->
  let s := sc_run true (sc_streaming n)
             ([SweepStart] ++ A ++ [SweepEnd] ++ W1 ++ [CloseTail] ++ W2 ++ [Reopen n] ++ W3 ++ [BalOff] ++ W4) in
  sc_stopped s = false /\ sc_sig_end s = 0 /\ sc_sig_close s = 0 /\ sc_waiters s = 1 /\ sc_active s = n /\
  sc_balancing s = false /\ sc_fin_end s = false /\ sc_fin_close s = false.
Proof.
  intros n A W1 W2 W3 W4 HA H1 H2 H2n H3 H4. cbv zeta.
  rewrite run_app. cbn [sc_run fold_left sc_step sc_streaming sc_active sc_fin_end sc_fin_close sc_sig_end sc_sig_close sc_waiters sc_balancing sc_stopped].
  fold (sc_run true).
  set (s0 := SC n true false false 0 0 1 true false).
  assert (I0 : SweepInv s0) by (constructor; reflexivity).
  rewrite run_app. pose proof (sweep_keeps A s0 HA I0) as IA. set (sA := sc_run true s0 A) in *. clearbody sA.
  rewrite run_app. cbn [sc_run fold_left sc_step]. fold (sc_run true).
  destruct IA as [E1 E2 E3 E4 E5 E6 E7 E8].
  set (sB := SC (sc_active sA) false (sc_fin_end sA) (sc_fin_close sA) (sc_sig_end sA) (sc_sig_close sA) (sc_waiters sA) (sc_balancing sA) (sc_stopped sA)).
  rewrite run_app. rewrite (waits_noop true W1 sB H1) by (cbn; assumption).
  rewrite run_app. cbn [sc_run fold_left sc_step sB sc_active sc_ending sc_fin_end sc_fin_close sc_sig_end sc_sig_close sc_waiters sc_balancing sc_stopped]. fold (sc_run true).
  rewrite E5, E3.
  (* the wait() goroutine takes "finished by close" during the delay *)
  destruct W2 as [|o W2']; [contradiction|]. inversion H2 as [|? ? [b ->] H2']; subst.
  rewrite run_app, run_cons.
  cbn [sc_step sc_active sc_ending sc_fin_end sc_fin_close sc_sig_end sc_sig_close sc_waiters sc_balancing sc_stopped].
  rewrite E4, E2, E7, E8. cbn [Nat.ltb Nat.leb andb orb negb Nat.eqb Nat.sub].
  replace ((0 <? 0) && (b || (1 =? 0))) with false by (destruct b; reflexivity). cbn [negb andb Nat.ltb Nat.leb].
  rewrite (waits_nobody true W2' _ H2') by reflexivity.
  rewrite run_app. cbn [sc_run fold_left sc_step sc_active sc_ending sc_fin_end sc_fin_close sc_sig_end sc_sig_close sc_waiters sc_balancing sc_stopped]. fold (sc_run true).
  rewrite run_app, (waits_noop true W3 _ H3) by reflexivity.
  rewrite run_app. cbn [sc_run fold_left sc_step sc_active sc_ending sc_fin_end sc_fin_close sc_sig_end sc_sig_close sc_waiters sc_balancing sc_stopped]. fold (sc_run true).
  rewrite (waits_noop true W4 _ H4) by reflexivity.
  cbn. repeat split; reflexivity.
Qed.

(* --- the code before the repair: a schedule of the same shape stops the client --- *)
Definition k15_schedule : list scop :=
  [SweepStart; SweepVb; SweepVb; SweepEnd; CloseTail; WaitTake true; Reopen 2; BalOff; WaitTake false].

Lemma k15_schedule_shape :
  k15_schedule = [SweepStart] ++ [SweepVb; SweepVb] ++ [SweepEnd] ++ [] ++ [CloseTail] ++ [WaitTake true] ++ [Reopen 2] ++ [] ++ [BalOff] ++ [WaitTake false].
Proof. reflexivity. Qed.

Lemma unfixed_cycle_stops : sc_stopped (sc_run false (sc_streaming 2) k15_schedule) = true.
Proof. vm_compute. reflexivity. Qed.

Lemma fixed_same_schedule_runs : sc_stopped (sc_run true (sc_streaming 2) k15_schedule) = false.
Proof. vm_compute. reflexivity. Qed.
