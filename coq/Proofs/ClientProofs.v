From Verif Require Import Base.Prelude Base.Bytes Model.Stream Model.Client Proofs.ObserverProofs.
Local Open Scope N_scope.

(* the loop picks the NEWEST entry whose first seqNo is at or below the rollback point *)
Fixpoint first_le (log : list (N * N)) (r : N) : option (N * N) :=
  match log with [] => None | e :: l => if snd e <=? r then Some e else first_le l r end.

Lemma branch_for_first log r :
  branch_for log r = match first_le log r with Some e => fst e | None => 0 end.
Proof.
  unfold branch_for. induction log as [|e l IH]; [reflexivity|].
  cbn [rev]. rewrite fold_left_app. cbn [fold_left first_le]. rewrite IH.
  destruct (snd e <=? r); reflexivity.
Qed.

(* with a well-formed log (first seqNos strictly decreasing from newest to oldest) the chosen entry is the
   one whose branch contains r: its start is <= r and every newer branch starts after r *)
Lemma first_le_contains log r e :
  first_le log r = Some e ->
  snd e <= r /\ exists newer older, log = newer ++ e :: older /\ Forall (fun x => r < snd x) newer.
Proof.
  induction log as [|x l IH]; [discriminate|]. cbn. destruct (N.leb_spec (snd x) r) as [Hle|Hgt].
  - intros [= <-]. split; [exact Hle|]. exists [], l. split; [reflexivity|constructor].
  - intros H. destruct (IH H) as (Hs & newer & older & -> & Hf). split; [exact Hs|].
    exists (x :: newer), older. split; [reflexivity|]. constructor; assumption.
Qed.

Lemma first_le_exists log r : (exists e, In e log /\ snd e <= r) -> exists e, first_le log r = Some e.
Proof.
  induction log as [|x l IH]; intros (e & Hin & Hle); [contradiction|]. cbn.
  destruct (N.leb_spec (snd x) r); [eauto|]. apply IH. destruct Hin as [->|Hin]; [lia|eauto].
Qed.

(* ---- catch-up as a filter on a sorted stream ---- *)
Definition same_core (a b : obs) : Prop :=
  ob_snap a = ob_snap b /\ ob_uuid a = ob_uuid b /\ ob_closed a = ob_closed b /\ ob_latest a = ob_latest b.

Lemma same_core_refl a : same_core a a.
Proof. unfold same_core; auto. Qed.
Lemma same_core_trans a b c : same_core a b -> same_core b c -> same_core a c.
Proof. unfold same_core; intuition congruence. Qed.
Lemma same_core_sym a b : same_core a b -> same_core b a.
Proof. unfold same_core; intuition congruence. Qed.

Ltac obs_cases :=
  repeat match goal with
  | |- context [need_catchup ?c ?q] => destruct (need_catchup c q) as [? []]
  | |- context [before_skip ?c ?x] => destruct (before_skip c x)
  | |- context [in_snap ?s ?q] => destruct (in_snap s q)
  | |- context [match ?s with Some _ => _ | None => _ end] => is_var s; destruct s as [[? ?]|]
  | |- context [if ?b then _ else _] => is_var b; destruct b
  | k : dkind |- _ => destruct k
  end.

(* two observers that agree on snapshot, branch, closed flag, end bound and catch-up state forward the same *)
Lemma obs_event_core c a b e :
  same_core a b -> ob_catchup a = ob_catchup b ->
  snd (obs_event c a e) = snd (obs_event c b e) /\ same_core (fst (obs_event c a e)) (fst (obs_event c b e)) /\
  ob_catchup (fst (obs_event c a e)) = ob_catchup (fst (obs_event c b e)).
Proof.
  intros (S1 & S2 & S3 & S4) Hc. destruct a as [sa ua ca cla eca la ma da xa], b as [sb ub cb clb ecb lb mb db xb].
  cbn in *. subst. unfold same_core.
  destruct e as [s e'|k it|k q cid|q|];
    cbn [obs_event ob_catchup ob_snap ob_closed ob_uuid ob_latest with_snap with_catchup mk_offset];
    obs_cases; unfold mk_offset; cbn; repeat split; reflexivity.
Qed.

(* events without a sequence number of their own neither read nor write the catch-up state *)
Lemma obs_event_noseq c a e : ev_seq e = None -> ob_catchup (fst (obs_event c a e)) = ob_catchup a.
Proof. destruct e; try discriminate; intros _; destruct a; cbn; obs_cases; reflexivity. Qed.

Lemma obs_event_noseq_core c a b e : ev_seq e = None -> same_core a b ->
  snd (obs_event c a e) = snd (obs_event c b e) /\ same_core (fst (obs_event c a e)) (fst (obs_event c b e)).
Proof.
  intros He (S1 & S2 & S3 & S4). destruct a as [sa ua ca cla eca la ma da xa], b as [sb ub cb clb ecb lb mb db xb].
  cbn in *. subst. unfold same_core. destruct e; try discriminate; cbn; obs_cases; unfold mk_offset; cbn; repeat split; reflexivity.
Qed.

(* events with a sequence number never change snapshot, branch, closed flag or end bound *)
Lemma obs_event_seq_core c a e q : ev_seq e = Some q -> same_core a (fst (obs_event c a e)).
Proof.
  intros He. destruct a as [sa ua ca cla eca la ma da xa]. unfold same_core.
  destruct e as [s e'|k it|k q' cid|q'|]; try discriminate;
    cbn [obs_event ob_catchup ob_snap ob_closed ob_uuid ob_latest with_snap with_catchup mk_offset];
    obs_cases; unfold mk_offset; cbn; repeat split; reflexivity.
Qed.

Lemma obs_event_keeps_none c b e : ob_catchup b = None -> ob_catchup (fst (obs_event c b e)) = None.
Proof.
  intros H. pose proof (obs_event_nocatchup c b e H) as X. destruct (obs_event c b e) as [b1 f]. apply X.
Qed.

(* seq-bearing events come in strictly increasing order (what a DCP producer sends) *)
Fixpoint sorted_from (lo : N) (evs : list ev) : Prop :=
  match evs with
  | [] => True
  | e :: r => match ev_seq e with
              | Some q => lo < q /\ sorted_from q r
              | None => sorted_from lo r
              end
  end.

Fixpoint mask (F : N) (evs : list ev) (fs : list fwd) : list fwd :=
  match evs, fs with
  | e :: r, f :: fr => (match ev_seq e with Some q => if q <=? F then FNone else f | None => f end) :: mask F r fr
  | _, _ => []
  end.

Lemma mask_id F evs : forall lo fs, F <= lo -> sorted_from lo evs -> length fs = length evs -> mask F evs fs = fs.
Proof.
  induction evs as [|e r IH]; intros lo fs Hlo Hs Hl; [destruct fs; [reflexivity|discriminate]|].
  destruct fs as [|f fr]; [discriminate|]. cbn in *. injection Hl as Hl.
  destruct (ev_seq e) as [q|].
  - destruct Hs as [Hq Hs]. destruct (N.leb_spec q F); [lia|]. f_equal. apply (IH q); auto; lia.
  - f_equal. now apply (IH lo).
Qed.

Lemma obs_run_length c evs : forall ob, length (snd (obs_run c ob evs)) = length evs.
Proof.
  induction evs as [|e r IH]; intros ob; [reflexivity|]. cbn. destruct (obs_event c ob e) as [ob1 f].
  specialize (IH ob1). destruct (obs_run c ob1 r) as [ob2 fs]. cbn in *. now rewrite IH.
Qed.

Lemma obs_run_core c evs : forall a b, same_core a b -> ob_catchup a = ob_catchup b ->
  snd (obs_run c a evs) = snd (obs_run c b evs).
Proof.
  induction evs as [|e r IH]; intros a b Hs Hc; [reflexivity|]. cbn.
  destruct (obs_event_core c a b e Hs Hc) as (E1 & E2 & E3).
  destruct (obs_event c a e) as [a1 fa], (obs_event c b e) as [b1 fb]. cbn in *. subst fb.
  specialize (IH a1 b1 E2 E3). destruct (obs_run c a1 r) as [a2 fsa], (obs_run c b1 r) as [b2 fsb]. cbn in *. now rewrite IH.
Qed.

(* after a rollback the consumer sees exactly what it would have seen without catch-up, minus every event at or
   below the position F it had already reached *)
Theorem catchup_is_filter c evs : forall lo a b F,
  ob_catchup a = Some F -> ob_catchup b = None -> same_core a b -> sorted_from lo evs ->
  snd (obs_run c a evs) = mask F evs (snd (obs_run c b evs)).
Proof.
  induction evs as [|e r IH]; intros lo a b F Ha Hb Hs Hso; [reflexivity|]. cbn [obs_run mask sorted_from] in *.
  destruct (ev_seq e) as [q|] eqn:Eq.
  - destruct Hso as [Hlo Hso].
    pose proof (obs_event_seq_core c a e q Eq) as Ca. pose proof (obs_event_seq_core c b e q Eq) as Cb.
    pose proof (obs_event_keeps_none c b e Hb) as Nb.
    assert (Hcore : same_core (fst (obs_event c a e)) (fst (obs_event c b e))).
    { eapply same_core_trans; [apply same_core_sym; exact Ca|]. eapply same_core_trans; [exact Hs|exact Cb]. }
    destruct (N.leb_spec q F) as [Hle|Hgt].
    + destruct (catchup_suppresses c a e F q Ha Eq Hle) as (Hf & Hcu).
      destruct (obs_event c a e) as [a1 fa], (obs_event c b e) as [b1 fb]. cbn [fst snd] in *. subst fa.
      destruct Hcu as [Hcu|[-> Hcu]].
      * specialize (IH q a1 b1 F Hcu Nb Hcore Hso).
        destruct (obs_run c a1 r) as [a2 fsa], (obs_run c b1 r) as [b2 fsb]. cbn [snd] in *. now rewrite IH.
      * pose proof (obs_run_core c r a1 b1 Hcore (eq_trans Hcu (eq_sym Nb))) as Ec.
        pose proof (obs_run_length c r b1) as Len.
        destruct (obs_run c a1 r) as [a2 fsa], (obs_run c b1 r) as [b2 fsb]. cbn [snd] in *. subst fsa.
        f_equal. symmetry. apply (mask_id F r F); [lia|exact Hso|exact Len].
    + destruct (catchup_passes c a e F q Ha Eq Hgt) as (Hev & Hcu).
      assert (Hs' : same_core (with_catchup a None) b) by (destruct a; exact Hs).
      destruct (obs_event_core c (with_catchup a None) b e Hs' ltac:(destruct a; cbn; now rewrite Hb)) as (E1 & E2 & E3).
      rewrite <- Hev in E1, E2, E3.
      pose proof (obs_run_core c r _ _ E2 E3) as Ec. pose proof (obs_run_length c r (fst (obs_event c b e))) as Len.
      destruct (obs_event c a e) as [a1 fa], (obs_event c b e) as [b1 fb]. cbn [fst snd] in *. subst fa.
      destruct (obs_run c a1 r) as [a2 fsa], (obs_run c b1 r) as [b2 fsb]. cbn [snd] in *. subst fsa.
      f_equal. symmetry. apply (mask_id F r q); [lia|exact Hso|exact Len].
  - destruct (obs_event_noseq_core c a b e Eq Hs) as (E1 & E2).
    pose proof (obs_event_noseq c a e Eq) as Ka. pose proof (obs_event_keeps_none c b e Hb) as Nb.
    destruct (obs_event c a e) as [a1 fa], (obs_event c b e) as [b1 fb]. cbn [fst snd] in *. subst fb.
    specialize (IH lo a1 b1 F (eq_trans Ka Ha) Nb E2 Hso).
    destruct (obs_run c a1 r) as [a2 fsa], (obs_run c b1 r) as [b2 fsb]. cbn [snd] in *. now rewrite IH.
Qed.
