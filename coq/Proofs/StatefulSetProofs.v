From Verif Require Import Base.Prelude Base.Bytes Model.StatefulSet.
From Coq Require Import Lia.
Local Open Scope Z_scope.

Lemma sts_member_spec hostname total m t :
  sts_member hostname total = Some (m, t) ->
  exists o, pod_ordinal hostname = Some o /\ m = o + 1 /\ t = total /\ m <= total.
Proof.
  unfold sts_member. destruct (pod_ordinal hostname) as [o|]; [|discriminate].
  destruct (Z.ltb_spec total (o + 1)) as [L|L]; [discriminate|]. intros [= <- <-]. exists o. repeat split; lia.
Qed.

(* pods of one StatefulSet (distinct ordinals) under one configured group size get distinct member numbers *)
Lemma sts_member_injective h1 h2 total m1 m2 t1 t2 :
  sts_member h1 total = Some (m1, t1) -> sts_member h2 total = Some (m2, t2) ->
  pod_ordinal h1 <> pod_ordinal h2 -> m1 <> m2 /\ t1 = t2.
Proof.
  intros H1 H2 Hn. destruct (sts_member_spec _ _ _ _ H1) as (o1 & E1 & -> & -> & _).
  destruct (sts_member_spec _ _ _ _ H2) as (o2 & E2 & -> & -> & _).
  split; [|reflexivity]. intros E. apply Hn. rewrite E1, E2. f_equal. lia.
Qed.

(* a suffix the standard conversion accepts after a '-' is never negative... unless it carries its own sign: "x--1" has
   the suffix "1", but "x-+1" and a host name like "-1" are accepted too; what matters for the numbering is only this: *)
Lemma sts_member_refuses hostname total :
  sts_member hostname total = None <->
  pod_ordinal hostname = None \/ exists o, pod_ordinal hostname = Some o /\ total < o + 1.
Proof.
  unfold sts_member. destruct (pod_ordinal hostname) as [o|].
  - destruct (Z.ltb_spec total (o + 1)) as [L|L].
    + split; [intros _; right; exists o; split; [reflexivity|exact L]|reflexivity].
    + split; [discriminate|]. intros [H|[o' [[= <-] H]]]; [discriminate|lia].
  - split; [intros _; left; reflexivity|reflexivity].
Qed.
