From Verif Require Import Base.Prelude Model.AsyncOp.

(* invariant of every reachable state *)
Definition ainv (s : astate) : Prop :=
  a_blocked s = false /\
  a_signal s <= 1 /\
  (a_cb_done s = false -> a_signal s = 0 /\ a_chan s = None) /\
  (a_cb_done s = true -> a_ret s = None -> a_signal s = 1 /\ a_chan s <> None) /\
  (a_signal s = 1 -> a_cb_done s = true) /\
  (a_cancels s <= 1) /\ (a_cancels s = 1 -> a_ret s = Some RErrDeadline) /\
  (forall x, a_ret s = Some (ROk x) -> a_cb_done s = true) /\
  (a_ret s = None -> a_cancels s = 0).

Lemma ainv_init : ainv a_init.
Proof. unfold ainv, a_init; cbn. repeat split; intros; try discriminate; try lia; auto. Qed.

Lemma ainv_step s op : ainv s -> ainv (a_step s op).
Proof.
  intros I. destruct s as [sg ch cb ex cn rt bl].
  assert (Hs : sg <= 1) by (apply I). assert (Hc : cn <= 1) by (apply I).
  destruct sg as [|[|k]]; [| |cbn in Hs; lia];
  (destruct cn as [|[|j]]; [| |cbn in Hc; lia]);
  destruct op as [[x|c|]| | |], cb, ex, bl, ch as [och|], rt as [r|];
    unfold ainv in *; cbn in *; unfold run_callback; cbn;
    intuition (try discriminate; try lia; try congruence).
Qed.

Lemma ainv_run ops : ainv (a_run ops).
Proof.
  unfold a_run. assert (H : forall s, ainv s -> ainv (fold_left a_step ops s)).
  { induction ops as [|o r IH]; intros s I; [exact I|]. cbn. apply IH. now apply ainv_step. }
  apply H, ainv_init.
Qed.

(* success is reported only for an operation the server confirmed, with the server's value *)
Lemma ok_means_confirmed ops : forall s x,
  a_ret s = None ->
  a_ret (fold_left a_step ops s) = Some (ROk x) ->
  (a_chan s = Some (Success x)) \/ In (Reply (Success x)) ops.
Proof.
  induction ops as [|o r IH]; intros s x Hn H; [cbn in H; congruence|]. cbn [fold_left] in H.
  destruct (a_ret (a_step s o)) as [res|] eqn:E.
  - (* the wrapper returned at this step: later steps keep the result *)
    assert (K : forall l s', a_ret s' = Some res -> a_ret (fold_left a_step l s') = Some res).
    { induction l as [|a l IHl]; intros s' Hs; [exact Hs|]. cbn. apply IHl.
      destruct s' as [sg ch cb ex cn rt bl]; cbn in *; subst rt.
      destruct a as [oo| | |]; cbn; try reflexivity.
      - destruct oo; unfold run_callback; cbn; try reflexivity; destruct cb; reflexivity. }
    rewrite (K r _ E) in H. injection H as ->.
    destruct s as [sg ch cb ex cn rt bl]; cbn in *; subst rt.
    destruct o as [oo| | |]; cbn in E.
    + destruct oo; unfold run_callback in E; cbn in E; try discriminate; destruct cb; discriminate.
    + discriminate.
    + destruct sg as [|k]; [discriminate|]. destruct ex; [discriminate|]. destruct ch as [oc|]; [|discriminate].
      injection E as E. destruct oc; cbn in E; try discriminate. injection E as ->. now left.
    + destruct ex; [|discriminate]. discriminate.
  - destruct (IH _ x E H) as [Hc|Hin]; [|right; now right].
    destruct s as [sg ch cb ex cn rt bl]; cbn in *; subst rt.
    destruct o as [oo| | |]; cbn in *.
    + destruct oo as [y|c|]; unfold run_callback in *; cbn in *; try (now left).
      * destruct cb; cbn in *; [now left|]. injection Hc as ->. right. now left.
      * destruct cb; cbn in *; [now left|]. discriminate.
    + now left.
    + destruct sg as [|k]; [now left|]. destruct ex; cbn in *; [discriminate|]. destruct ch; cbn in *; [discriminate|now left].
    + destruct ex; cbn in *; [discriminate|now left].
Qed.

(* progress: once the server has answered or the deadline has passed, one of the two select branches is
   enabled and makes the wrapper return *)
Lemma returns_when_enabled s :
  ainv s -> a_ret s = None -> (a_cb_done s = true \/ a_expired s = true) ->
  a_ret (a_step s SelectSignal) <> None \/ a_ret (a_step s SelectDeadline) <> None.
Proof.
  intros (B & S1 & N & D & G & C1 & C2 & R & Z) Hn H.
  destruct s as [sg ch cb ex cn rt bl]; cbn in *; subst rt.
  destruct ex.
  - right. cbn. discriminate.
  - destruct H as [H|H]; [|discriminate]. subst cb. destruct (D eq_refl eq_refl) as [-> Hc].
    left. cbn. destruct ch; [discriminate|now elim Hc].
Qed.

(* a returned result never changes, whatever arrives later *)
Lemma ret_stable ops : forall s r, a_ret s = Some r -> a_ret (fold_left a_step ops s) = Some r.
Proof.
  induction ops as [|a l IH]; intros s r Hs; [exact Hs|]. cbn. apply IH.
  destruct s as [sg ch cb ex cn rt bl]; cbn in *; subst rt.
  destruct a as [oo| | |]; cbn; try reflexivity.
  destruct oo; unfold run_callback; cbn; try reflexivity; destruct cb; reflexivity.
Qed.

(* a silent server: the only way to return is the deadline branch, which cancels the operation exactly once *)
Lemma silent_server ops :
  (forall o, ~ In (Reply o) ops) ->
  a_ret (a_run ops) = None \/ (a_ret (a_run ops) = Some RErrDeadline /\ a_cancels (a_run ops) = 1).
Proof.
  intros Hno. unfold a_run.
  assert (G : forall l s, (forall o, ~ In (Reply o) l) -> ainv s ->
              (a_ret s = None /\ a_cb_done s = false) \/ (a_ret s = Some RErrDeadline /\ a_cancels s = 1) ->
              let s' := fold_left a_step l s in
              (a_ret s' = None /\ a_cb_done s' = false) \/ (a_ret s' = Some RErrDeadline /\ a_cancels s' = 1)).
  { induction l as [|a l IH]; intros s Hl I H; [exact H|]. cbn. apply IH.
    - intros o Ho. apply (Hl o). now right.
    - now apply ainv_step.
    - destruct a as [oo| | |]; [exfalso; apply (Hl oo); now left|..];
      destruct s as [sg ch cb ex cn rt bl]; destruct I as (B & S1 & N & D & Gd & C1 & C2 & R & Z); cbn in *.
      + exact H.
      + destruct H as [[-> ->]|[-> ->]]; [|right; auto]. destruct (N eq_refl) as [-> ->]. left. auto.
      + destruct H as [[-> ->]|[-> ->]]; [|right; auto]. destruct ex; [|left; auto].
        right. unfold run_callback; cbn. specialize (Z eq_refl). subst cn. auto. }
  destruct (G ops a_init Hno ainv_init (or_introl (conj eq_refl eq_refl))) as [[H _]|H]; auto.
Qed.
