(* Invariants of Model/Stream.v. *)
From Verif Require Import Base.Prelude Base.Bytes Model.Stream.
Local Open Scope N_scope.

(* ---------- small facts ---------- *)
Lemma fupd_same {A} (m : fmap A) k v : fupd m k v k = Some v.
Proof. unfold fupd. now rewrite N.eqb_refl. Qed.
Lemma fupd_other {A} (m : fmap A) k v k' : k' <> k -> fupd m k v k' = m k'.
Proof. intros H. unfold fupd. now apply N.eqb_neq in H as ->. Qed.
Lemma fupd_cases {A} (m : fmap A) k v k' x :
  fupd m k v k' = Some x -> (k' = k /\ x = v) \/ (k' <> k /\ m k' = Some x).
Proof.
  unfold fupd. destruct (N.eqb_spec k' k) as [->|Hne]; [intros [= <-]; now left|now right].
Qed.

(* ---------- setOffset ---------- *)
(* everything but offsets / dirty marks / flag is untouched *)
Definition same_rest (s s' : sstate) : Prop :=
  s_cfg s' = s_cfg s /\ s_range s' = s_range s /\ s_obs s' = s_obs s /\ s_obs_nil s' = s_obs_nil s /\
  s_open s' = s_open s /\ s_balancing s' = s_balancing s /\ s_active s' = s_active s /\
  s_fin_close s' = s_fin_close s /\ s_fin_end s' = s_fin_end s /\ s_cancel s' = s_cancel s /\
  s_stopped s' = s_stopped s /\ s_rebalances s' = s_rebalances s /\ s_ctxs s' = s_ctxs s /\
  s_inflight s' = s_inflight s /\ s_store s' = s_store s /\ s_failed s' = s_failed s.

Lemma same_rest_refl s : same_rest s s.
Proof. unfold same_rest; repeat split. Qed.

Definition accepts_open (s : sstate) (vb : N) (o : offset) : bool :=
  in_range (s_range s) vb &&
  match s_offs s vb with Some cur => negb (o_seq o <? o_seq cur) | None => true end.
Definition accepts (s : sstate) (vb : N) (o : offset) : bool := negb (s_obs_nil s) && accepts_open s vb o.

Lemma set_offset_spec s vb o d :
  let '(s', outs) := set_offset s vb o d in
  same_rest s s' /\
  if accepts s vb o then
    outs = [Track vb o] /\ s_offs s' = fupd (s_offs s) vb o /\
    s_dirty s' = (if d then fupd (s_dirty s) vb true else s_dirty s) /\
    s_any_dirty s' = (if d then true else s_any_dirty s)
  else
    outs = [] /\ s' = s.
Proof.
  unfold set_offset, accepts, accepts_open. destruct (s_obs_nil s); cbn [negb andb]; [split; [apply same_rest_refl|auto]|].
  destruct (in_range (s_range s) vb); cbn [andb].
  - destruct (s_offs s vb) as [cur|].
    + destruct (o_seq o <? o_seq cur); cbn [negb].
      * split; [apply same_rest_refl|auto].
      * destruct d; cbn; (split; [unfold same_rest; cbn; repeat split|auto]).
    + destruct d; cbn; (split; [unfold same_rest; cbn; repeat split|auto]).
  - split; [apply same_rest_refl|auto].
Qed.

Lemma accepts_true s vb o : accepts s vb o = true ->
  s_obs_nil s = false /\ in_range (s_range s) vb = true /\
  match s_offs s vb with Some cur => o_seq cur <= o_seq o | None => True end.
Proof.
  unfold accepts, accepts_open. intros H. apply andb_true_iff in H. destruct H as [H1 H]. apply andb_true_iff in H. destruct H as [H2 H3].
  apply negb_true_iff in H1. split; [exact H1|]. split; [exact H2|].
  destruct (s_offs s vb); [|exact I]. apply negb_true_iff, N.ltb_ge in H3. exact H3.
Qed.

(* ---------- C06: validity of every offset and document ---------- *)
Definition valid (o : offset) : Prop := o_start o <= o_seq o <= o_end o.
Definition valid_doc (d : doc) : Prop := d_start d <= d_seq d <= d_end d.

Lemma valid_doc_of o : valid o -> valid_doc (doc_of o).
Proof. unfold valid, valid_doc, doc_of; cbn. auto. Qed.

Lemma obs_event_offset c ob e :
  match snd (obs_event c ob e) with
  | FDoc k it o coll t =>
      e = Doc k it /\ exists s e', ob_snap ob = Some (s, e') /\ o = mk_offset ob s e' (i_seq it) /\ s <= i_seq it <= e' /\
      coll = coll_name (c_colls c) (i_cid it) /\ t = event_time_s (i_cas it) /\ ob_closed ob = false
  | FAdvance o =>
      (exists q, e = SeqAdv q /\ o = mk_offset ob q q q) \/
      (exists k q cid s e', e = Sys k q cid /\ ob_snap ob = Some (s, e') /\ o = mk_offset ob s e' q /\ s <= q <= e')
  | _ => True
  end.
Proof.
  destruct e as [s e'|k it|k q cid|q|]; cbn [obs_event].
  - exact I.
  - destruct (need_catchup (ob_catchup ob) (i_seq it)) as [cu sup]. destruct sup; [exact I|].
    destruct (before_skip c (i_cas it)); [exact I|].
    destruct (ob_snap ob) as [[s e']|] eqn:Hs; [|exact I].
    destruct (in_snap (Some (s, e')) (i_seq it)) eqn:Hin; [|exact I]. cbn [snd].
    destruct (ob_closed ob) eqn:Hc; [exact I|].
    cbn in Hin. apply andb_true_iff in Hin. destruct Hin as [H1 H2]. apply N.leb_le in H1, H2.
    split; [reflexivity|]. exists s, e'. repeat split; auto.
  - destruct (need_catchup (ob_catchup ob) q) as [cu sup]. destruct sup; [exact I|].
    destruct (ob_snap ob) as [[s e']|] eqn:Hs; [|exact I].
    destruct (in_snap (Some (s, e')) q) eqn:Hin; [|exact I]. cbn [snd].
    destruct (ob_closed ob); [exact I|].
    cbn in Hin. apply andb_true_iff in Hin. destruct Hin as [H1 H2]. apply N.leb_le in H1, H2.
    right. exists k, q, cid, s, e'. repeat split; auto.
  - cbn [snd]. destruct (ob_closed ob); [exact I|]. left. exists q. split; reflexivity.
  - exact I.
Qed.

Lemma obs_event_valid c ob e :
  match snd (obs_event c ob e) with
  | FDoc _ _ o _ _ => valid o
  | FAdvance o => valid o
  | _ => True
  end.
Proof.
  pose proof (obs_event_offset c ob e) as H. destruct (snd (obs_event c ob e)); auto.
  - destruct H as (_ & s & e' & _ & -> & Hr & _). unfold valid, mk_offset; cbn. exact Hr.
  - destruct H as [(q & _ & ->)|(k & q & cid & s & e' & _ & _ & -> & Hr)]; unfold valid, mk_offset; cbn; [lia|exact Hr].
Qed.

(* ---------- load / dump ---------- *)
Lemma load_one_valid c exist st high uuid0 vb o d :
  (forall x, st vb = Some x -> valid_doc x) ->
  load_one c exist st high uuid0 vb = Some (o, d) -> valid o.
Proof.
  intros Hst. unfold load_one. destruct (negb exist && c_latest c).
  - intros [= <- _]. unfold valid; cbn. lia.
  - destruct (get0 high vb <? d_seq (loaded_doc st vb)); [discriminate|]. intros [= <- _].
    unfold valid; cbn. unfold loaded_doc. destruct (st vb) as [x|] eqn:E.
    + exact (Hst x eq_refl).
    + cbn. lia.
Qed.

Lemma load_all_spec c exist st high uuid0 vbs offs dirty any :
  load_all c exist st high uuid0 vbs = Some (offs, dirty, any) ->
  (forall vb o, offs vb = Some o -> In vb vbs /\ exists d, load_one c exist st high uuid0 vb = Some (o, d)) /\
  (forall vb, dirty vb = Some true -> any = true) /\
  (forall vb, In vb vbs -> exists o, offs vb = Some o).
Proof.
  revert offs dirty any. induction vbs as [|v r IH]; intros offs dirty any; cbn [load_all].
  - intros [= <- <- <-]. repeat split; try discriminate. intros vb [].
  - destruct (load_one c exist st high uuid0 v) as [[o d]|] eqn:E1; [|discriminate].
    destruct (load_all c exist st high uuid0 r) as [[[offs' dirty'] any']|] eqn:E2; [|discriminate].
    intros [= <- <- <-]. destruct (IH _ _ _ eq_refl) as (A & B & C). split; [|split].
    + intros vb o' H. apply fupd_cases in H. destruct H as [[-> ->]|[Hne H]].
      * split; [now left|]. now exists d.
      * destruct (A _ _ H) as [Hin Hex]. split; [now right|exact Hex].
    + intros vb H. destruct d.
      * now rewrite orb_true_r.
      * rewrite orb_false_r. exact (B vb H).
    + intros vb [<-|Hin]; [exists o; apply fupd_same|].
      destruct (N.eq_dec vb v) as [->|Hne]; [exists o; apply fupd_same|].
      destruct (C vb Hin) as [o' Ho']. exists o'. now rewrite fupd_other.
Qed.

Lemma lookup_dump_of offs vbs vb d :
  lookup_doc (dump_of offs vbs) vb = Some d -> exists o, offs vb = Some o /\ d = doc_of o.
Proof.
  induction vbs as [|v r IH]; cbn; [discriminate|].
  destruct (offs v) as [o|] eqn:E; cbn; [|exact IH].
  destruct (N.eqb_spec v vb) as [->|Hne]; [intros [= <-]; now exists o|exact IH].
Qed.

Lemma fold_store_cases dump dl : forall st vb d,
  fold_left (fun m v => match lookup_doc dump v with Some x => fupd m v x | None => m end) dl st vb = Some d ->
  st vb = Some d \/ lookup_doc dump vb = Some d.
Proof.
  induction dl as [|v r IH]; intros st vb d; cbn; [auto|].
  intros H. apply IH in H. destruct H as [H|H]; [|auto].
  destruct (lookup_doc dump v) as [x|] eqn:E; [|auto].
  apply fupd_cases in H. destruct H as [[-> ->]|[_ H]]; auto.
Qed.

Lemma fold_dirty_cases dl : forall (m : fmap bool) vb,
  fold_left (fun m v => fupd m v true) dl m vb = Some true -> m vb = Some true \/ In vb dl.
Proof.
  induction dl as [|v r IH]; intros m vb; cbn; [auto|].
  intros H. apply IH in H. destruct H as [H|H]; [|auto].
  apply fupd_cases in H. destruct H as [[-> _]|[_ H]]; auto.
Qed.


(* ---------- the body of a save and the hand-over to a queued one ---------- *)
Lemma save_body_fields s :
  let s' := fst (save_body s) in
  s_offs s' = s_offs s /\ s_ctxs s' = s_ctxs s /\ s_store s' = s_store s /\ s_any_dirty s' = false /\
  (forall vb, s_dirty s' vb = None) /\ s_failed s' = s_failed s /\ s_range s' = s_range s /\ s_active s' = s_active s /\
  s_obs s' = s_obs s /\
  s_inflight s' = Some (dump_of (s_offs s) (range_list (s_range s)), dirty_of (s_dirty s) all_vbs) /\
  snd (save_body s) = [MetaSave (dump_of (s_offs s) (range_list (s_range s))) (dirty_of (s_dirty s) all_vbs)].
Proof. unfold save_body; cbn. repeat split; reflexivity. Qed.

(* whatever holds of a state and survives the bookkeeping of the queue and the body of a save holds after the hand-over *)
Lemma drain_preserves (P : sstate -> Prop) :
  (forall s q, P s -> P (set_queued s q)) -> (forall s, P s -> P (fst (save_body s))) ->
  forall q s, P s -> P (fst (drain q s)).
Proof.
  intros HQ HB. induction q as [|q IH]; intros s H; cbn [drain]; [exact H|].
  destruct (s_any_dirty s).
  - apply HB, HQ, H.
  - specialize (IH (set_queued s q) (HQ _ _ H)). destruct (drain q (set_queued s q)) as [s' outs]. exact IH.
Qed.

Lemma next_queued_fields s :
  let s' := fst (next_queued s) in
  s_offs s' = s_offs s /\ s_ctxs s' = s_ctxs s /\ s_store s' = s_store s /\ s_failed s' = s_failed s /\
  s_range s' = s_range s /\ s_active s' = s_active s /\ s_obs s' = s_obs s.
Proof.
  unfold next_queued.
  apply (drain_preserves (fun s' => s_offs s' = s_offs s /\ s_ctxs s' = s_ctxs s /\ s_store s' = s_store s /\ s_failed s' = s_failed s /\
                                    s_range s' = s_range s /\ s_active s' = s_active s /\ s_obs s' = s_obs s)).
  - intros x q H. exact H.
  - intros x H. unfold save_body; cbn. exact H.
  - repeat split.
Qed.

Lemma next_queued_core_nil s : s_obs_nil (fst (next_queued s)) = s_obs_nil s.
Proof.
  unfold next_queued. apply (drain_preserves (fun s' => s_obs_nil s' = s_obs_nil s)); [| |reflexivity].
  - intros x q H. exact H.
  - intros x H. unfold save_body; cbn. exact H.
Qed.

(* with nobody waiting the hand-over does nothing *)
Lemma next_queued_none s : s_queued s = 0%nat -> next_queued s = (s, []).
Proof. intros Q. unfold next_queued. now rewrite Q. Qed.

(* ---------- the state invariant: C06 validity + C05 "dirty implies flagged" ---------- *)
Record Inv (s : sstate) : Prop := {
  inv_offs : forall vb o, s_offs s vb = Some o -> valid o;
  inv_ctxs : forall vb o, In (vb, o) (s_ctxs s) -> valid o;
  inv_store : forall vb d, s_store s vb = Some d -> valid_doc d;
  inv_inflight : forall dump dl, s_inflight s = Some (dump, dl) -> forall vb d, lookup_doc dump vb = Some d -> valid_doc d;
  inv_flag : forall vb, s_dirty s vb = Some true -> s_any_dirty s = true
}.

Lemma Inv_init c st : (forall vb d, st vb = Some d -> valid_doc d) -> Inv (init_state c st).
Proof. intros H. constructor; cbn; try discriminate; try contradiction; auto. Qed.

Lemma Inv_set_offset s vb o d :
  Inv s -> valid o -> Inv (fst (set_offset s vb o d)).
Proof.
  intros I V. pose proof (set_offset_spec s vb o d) as H. destruct (set_offset s vb o d) as [s' outs].
  cbn [fst]. destruct H as [R H]. destruct (accepts s vb o).
  - destruct H as (_ & Ho & Hd & Ha). destruct R as (_ & _ & _ & _ & _ & _ & _ & _ & _ & _ & _ & _ & Rc & Ri & Rs & _).
    constructor.
    + intros v x. rewrite Ho. intros Hx. apply fupd_cases in Hx. destruct Hx as [[_ ->]|[_ Hx]]; [exact V|exact (inv_offs s I v x Hx)].
    + rewrite Rc. apply (inv_ctxs s I).
    + rewrite Rs. apply (inv_store s I).
    + rewrite Ri. apply (inv_inflight s I).
    + intros v. rewrite Hd, Ha. destruct d; [reflexivity|]. apply (inv_flag s I).
  - destruct H as [_ ->]. exact I.
Qed.

Lemma Inv_do_open s first last sv s' outs :
  Inv s -> do_open s first last sv = Some (s', outs) -> Inv s'.
Proof.
  intros I. unfold do_open.
  destruct (load_all _ _ _ _ _ _) as [[[offs dirty] any]|] eqn:E; [|discriminate].
  intros [= <- _]. destruct (load_all_spec _ _ _ _ _ _ _ _ _ E) as (A & B & _).
  constructor; cbn.
  - intros vb o Ho. destruct (A vb o Ho) as [_ [d Hd]].
    eapply load_one_valid; [|exact Hd]. intros x Hx. exact (inv_store s I vb x Hx).
  - apply (inv_ctxs s I).
  - apply (inv_store s I).
  - apply (inv_inflight s I).
  - exact B.
Qed.

Lemma Inv_do_close s cancel : Inv s -> Inv (fst (fst (do_close s cancel))).
Proof.
  intros I. unfold do_close; cbn. constructor; cbn; try discriminate.
  - apply (inv_ctxs s I).
  - apply (inv_store s I).
  - apply (inv_inflight s I).
Qed.

Lemma Inv_proj s s' :
  Inv s -> s_offs s' = s_offs s -> s_ctxs s' = s_ctxs s -> s_store s' = s_store s ->
  s_inflight s' = s_inflight s -> s_dirty s' = s_dirty s -> s_any_dirty s' = s_any_dirty s -> Inv s'.
Proof.
  intros I H1 H2 H3 H4 H5 H6. constructor; rewrite ?H1, ?H2, ?H3, ?H4, ?H5, ?H6; apply I.
Qed.

Lemma Inv_save_body s : Inv s -> Inv (fst (save_body s)).
Proof.
  intros I. unfold save_body; cbn [fst]. constructor; cbn; try apply I; try discriminate.
  intros dump dl [= <- <-] vb d Hd. apply lookup_dump_of in Hd. destruct Hd as (o & Ho & ->).
  apply valid_doc_of. exact (inv_offs s I vb o Ho).
Qed.

Lemma Inv_next_queued s : Inv s -> Inv (fst (next_queued s)).
Proof.
  intros I. unfold next_queued. apply (drain_preserves Inv); [| |exact I].
  - intros x q H. eapply Inv_proj; eauto.
  - intros x H. now apply Inv_save_body.
Qed.

Theorem Inv_step s o : Inv s -> Inv (fst (step s o)).
Proof.
  intros I. unfold step. destruct (s_failed s); [exact I|].
  destruct o as [first last sv| |first last sv|cancel|vb e|i| | |vb|ok| |high|vb c uuid roll].
  - (* Open *)
    destruct (s_open s || s_balancing s); [exact I|].
    destruct (do_open s first last sv) as [[s' outs]|] eqn:E; cbn [fst].
    + eapply Inv_do_open; eauto.
    + eapply Inv_proj; eauto.
  - (* RebClose *)
    destruct (negb (s_open s) || s_balancing s); [exact I|].
    pose proof (Inv_do_close (set_balancing s true (s_rebalances s)) false) as H.
    destruct (do_close _ false) as [[s1 outs] tok]. cbn [fst] in *. apply H.
    eapply Inv_proj; eauto.
  - (* RebOpen *)
    destruct (negb (s_balancing s) || s_open s); [exact I|].
    destruct (do_open s first last sv) as [[s' outs]|] eqn:E; cbn [fst].
    + eapply Inv_proj; [eapply Inv_do_open; eauto|..]; reflexivity.
    + eapply Inv_proj; eauto.
  - (* Close *)
    destruct (s_obs_nil s || s_balancing s); [exact I|].
    pose proof (Inv_do_close s cancel I) as H. destruct (do_close s cancel) as [[s1 outs] tok]. cbn [fst] in H.
    destruct (tok && negb (s_stopped s1)); cbn [fst]; [eapply Inv_proj; eauto|exact H].
  - (* Deliver *)
    destruct (s_obs s vb) as [ob|]; [|exact I].
    pose proof (obs_event_valid (s_cfg s) ob e) as V.
    destruct (obs_event (s_cfg s) ob e) as [ob' f]. cbn [snd] in V.
    assert (I1 : Inv (set_obs s (fupd (s_obs s) vb ob'))) by (eapply Inv_proj; eauto).
    destruct f as [|k it o coll t|o|]; cbn [fst].
    + exact I1.
    + destruct (is_meta (i_key it)); [now apply Inv_set_offset|].
      cbn [fst]. constructor; cbn; try apply I.
      intros v x Hin. apply in_app_or in Hin. destruct Hin as [Hin|[[= <- <-]|[]]]; [exact (inv_ctxs s I v x Hin)|exact V].
    + now apply Inv_set_offset.
    + eapply Inv_proj; eauto.
  - (* Ack *)
    destruct (nth_error (s_ctxs s) i) as [[vb o]|] eqn:E; [|exact I].
    assert (V : valid o) by (eapply (inv_ctxs s I); eapply nth_error_In; eauto).
    pose proof (Inv_set_offset s vb o true I V) as H. destruct (set_offset s vb o true) as [s1 outs].
    cbn [fst] in *. constructor; cbn; try apply H. reflexivity.
  - (* SaveBegin *)
    destruct (s_inflight s) eqn:Ei; [exact I|]. destruct (negb (s_any_dirty s)); [exact I|].
    now apply Inv_save_body.
  - (* SaveQueue *)
    destruct (s_inflight s); [|exact I]. eapply Inv_proj; eauto.
  - (* SaveWrite *)
    destruct (s_inflight s) as [[dump dl]|] eqn:Ei; [|exact I].
    destruct (lookup_doc dump vb) as [d|] eqn:El; [|exact I]. destruct (mem vb dl); [|exact I].
    cbn [fst]. constructor; cbn; try apply I.
    intros v x Hx. apply fupd_cases in Hx. destruct Hx as [[-> ->]|[_ Hx]]; [exact (inv_inflight s I _ _ Ei _ _ El)|exact (inv_store s I v x Hx)].
  - (* SaveEnd *)
    destruct (s_inflight s) as [[dump dl]|] eqn:Ei; [|exact I]. destruct ok; apply Inv_next_queued.
    + constructor; cbn; try apply I; try discriminate.
      intros v x Hx. apply fold_store_cases in Hx. destruct Hx as [Hx|Hx]; [exact (inv_store s I v x Hx)|exact (inv_inflight s I _ _ Ei _ _ Hx)].
    + constructor; cbn; try apply I; try discriminate. reflexivity.
  - (* Crash *)
    apply Inv_init. apply (inv_store s I).
  - (* Scrape *)
    destruct (s_obs_nil s); exact I.
  - (* End *)
    destruct (s_obs s vb) as [ob|]; [|exact I]. destruct (ob_end_closed ob); [exact I|].
    destruct c; try (eapply Inv_proj; eauto; fail).
    destruct (s_cancel s); [eapply Inv_proj; eauto|].
    destruct (s_offs s vb); cbn [fst]; eapply Inv_proj; eauto.
Qed.

Lemma Inv_run ops : forall s, Inv s -> Inv (fst (run s ops)).
Proof.
  induction ops as [|o r IH]; intros s I; [exact I|]. cbn [run].
  pose proof (Inv_step s o I) as I1. destruct (step s o) as [s1 out1]. cbn [fst] in I1.
  specialize (IH s1 I1). destruct (run s1 r) as [s2 outs]. exact IH.
Qed.

(* ---------- C06: every offset / document that leaves the library is valid ---------- *)
Definition out_valid (x : out) : Prop :=
  match x with
  | Consume _ _ _ o _ _ => valid o
  | Track _ o => valid o
  | OpenReq _ o => valid o
  | MetaSave dump _ => forall vb d, In (vb, d) dump -> valid_doc d
  | _ => True
  end.

Ltac triv_forall := repeat (apply Forall_cons; [exact I|]); apply Forall_nil.
Ltac fa := repeat first [ apply Forall_nil | apply Forall_cons; [exact I|] | apply Forall_app; split ].

Lemma in_dump_of offs vbs vb d : In (vb, d) (dump_of offs vbs) -> exists o, offs vb = Some o /\ d = doc_of o.
Proof.
  unfold dump_of. rewrite in_flat_map. intros (v & _ & H). destruct (offs v) as [o|] eqn:E; [|contradiction].
  destruct H as [[= <- <-]|[]]. now exists o.
Qed.

Lemma set_offset_outs_valid s vb o d : valid o -> Forall out_valid (snd (set_offset s vb o d)).
Proof.
  intros V. pose proof (set_offset_spec s vb o d) as H. destruct (set_offset s vb o d) as [s' outs]. cbn [snd].
  destruct H as [_ H]. destruct (accepts s vb o); [destruct H as (-> & _)|destruct H as (-> & _)]; [|constructor]. constructor; [exact V|constructor].
Qed.

Lemma open_outs_valid s first last sv s' outs :
  Inv s -> do_open s first last sv = Some (s', outs) -> Forall out_valid outs.
Proof.
  intros I E. pose proof (Inv_do_open _ _ _ _ _ _ I E) as I'. unfold do_open in E.
  destruct (load_all _ _ _ _ _ _) as [[[offs dirty] any]|] eqn:L; [|discriminate].
  injection E as <- <-. cbn in I'. fa.
  apply Forall_forall. intros x Hx. apply in_flat_map in Hx. destruct Hx as (vb & _ & Hx).
  destruct (offs vb) as [o|] eqn:Eo; [|contradiction]. destruct Hx as [<-|[]]. cbn.
  exact (inv_offs _ I' vb o Eo).
Qed.

Lemma close_outs_valid s cancel : Forall out_valid (snd (fst (do_close s cancel))).
Proof.
  unfold do_close; cbn. fa.
  apply Forall_forall. intros x Hx. apply in_flat_map in Hx. destruct Hx as (vb & _ & Hx).
  destruct (s_offs s vb); [destruct Hx as [<-|[]]; exact I|contradiction].
Qed.

Lemma save_body_outs_valid s : Inv s -> Forall out_valid (snd (save_body s)).
Proof.
  intros I. unfold save_body; cbn [snd]. apply Forall_cons; [|apply Forall_nil]. cbn. intros vb d Hd.
  apply in_dump_of in Hd. destruct Hd as (o & Ho & ->). apply valid_doc_of. exact (inv_offs s I vb o Ho).
Qed.

Lemma drain_outs_valid q : forall s, Inv s -> Forall out_valid (snd (drain q s)).
Proof.
  induction q as [|q IH]; intros s I; cbn [drain]; [apply Forall_nil|].
  destruct (s_any_dirty s).
  - apply save_body_outs_valid. eapply Inv_proj; eauto.
  - assert (I1 : Inv (set_queued s q)) by (eapply Inv_proj; eauto).
    specialize (IH _ I1). destruct (drain q (set_queued s q)) as [s' outs]. cbn [snd] in *.
    apply Forall_cons; [exact Logic.I|exact IH].
Qed.

Lemma next_queued_outs_valid s : Inv s -> Forall out_valid (snd (next_queued s)).
Proof. intros I. apply drain_outs_valid, I. Qed.

Theorem step_outputs_valid s o : Inv s -> Forall out_valid (snd (step s o)).
Proof.
  intros I. unfold step. destruct (s_failed s); [triv_forall|].
  destruct o as [first last sv| |first last sv|cancel|vb e|i| | |vb|ok| |high|vb c uuid roll].
  - destruct (s_open s || s_balancing s); [triv_forall|].
    destruct (do_open s first last sv) as [[s' outs]|] eqn:E; cbn [snd]; [eapply open_outs_valid; eauto|triv_forall].
  - destruct (negb (s_open s) || s_balancing s); [triv_forall|].
    pose proof (close_outs_valid (set_balancing s true (s_rebalances s)) false) as H.
    destruct (do_close _ false) as [[s1 outs] tok]. cbn [fst snd] in *.
    fa. exact H.
  - destruct (negb (s_balancing s) || s_open s); [triv_forall|].
    destruct (do_open s first last sv) as [[s' outs]|] eqn:E; cbn [snd]; [|triv_forall].
    fa. eapply open_outs_valid; eauto.
  - destruct (s_obs_nil s || s_balancing s); [triv_forall|].
    pose proof (close_outs_valid s cancel) as H. destruct (do_close s cancel) as [[s1 outs] tok]. cbn [fst snd] in H.
    destruct (tok && negb (s_stopped s1)); cbn [snd]; [fa; exact H|exact H].
  - destruct (s_obs s vb) as [ob|]; [|triv_forall].
    pose proof (obs_event_valid (s_cfg s) ob e) as V.
    destruct (obs_event (s_cfg s) ob e) as [ob' f]. cbn [snd] in V.
    destruct f as [|k it o coll t|o|]; cbn [snd]; try (triv_forall; fail).
    + destruct (is_meta (i_key it)); [now apply set_offset_outs_valid|apply Forall_cons; [exact V|apply Forall_nil]].
    + now apply set_offset_outs_valid.
  - destruct (nth_error (s_ctxs s) i) as [[vb o]|] eqn:E; [|triv_forall].
    assert (V : valid o) by (eapply (inv_ctxs s I); eapply nth_error_In; eauto).
    pose proof (set_offset_outs_valid s vb o true V) as H. destruct (set_offset s vb o true) as [s1 outs]. exact H.
  - destruct (s_inflight s); [triv_forall|]. destruct (negb (s_any_dirty s)); [triv_forall|].
    now apply save_body_outs_valid.
  - destruct (s_inflight s); [|triv_forall]. destruct (negb (s_any_dirty s)); triv_forall.
  - destruct (s_inflight s) as [[dump dl]|]; [|triv_forall].
    destruct (lookup_doc dump vb); [|triv_forall]. destruct (mem vb dl); triv_forall.
  - destruct (s_inflight s) as [[dump dl]|] eqn:Ei; [|triv_forall].
    destruct ok; apply next_queued_outs_valid.
    + constructor; cbn; try apply I; try discriminate.
      intros v x Hx. apply fold_store_cases in Hx. destruct Hx as [Hx|Hx]; [exact (inv_store s I v x Hx)|exact (inv_inflight s I _ _ Ei _ _ Hx)].
    + constructor; cbn; try apply I; try discriminate. reflexivity.
  - triv_forall.
  - destruct (s_obs_nil s); triv_forall.
  - destruct (s_obs s vb) as [ob|]; [|triv_forall]. destruct (ob_end_closed ob); [triv_forall|].
    assert (F : forall a fe st, Forall out_valid (snd (set_end s a fe st, if st && negb (s_stopped s) then [Stop] else @nil out))) by (intros; cbn; destruct (st && _); triv_forall).
    destruct c.
    + cbn [snd]. destruct (_ && _ && _); triv_forall.
    + destruct (s_cancel s).
      * cbn [snd]. destruct (_ && _ && _); triv_forall.
      * destruct (s_offs s vb) as [o|] eqn:Eo; cbn [snd]; [apply Forall_cons; [exact (inv_offs s I vb o Eo)|apply Forall_nil]|triv_forall].
    + cbn [snd]. destruct (_ && _ && _); triv_forall.
Qed.

(* ---------- C04: within a session the tracked position only moves forward ---------- *)
Definition session_op (o : op) : bool :=
  match o with
  | Deliver _ _ | Ack _ | SaveBegin | SaveQueue | SaveWrite _ | SaveEnd _ | Scrape _ | End _ _ _ _ => true
  | _ => false
  end.

Lemma set_offset_mono s vb o d v cur :
  s_offs s v = Some cur -> exists cur', s_offs (fst (set_offset s vb o d)) v = Some cur' /\ o_seq cur <= o_seq cur'.
Proof.
  intros Hc. pose proof (set_offset_spec s vb o d) as H. destruct (set_offset s vb o d) as [s' outs]. cbn [fst].
  destruct H as [_ H]. destruct (accepts s vb o) eqn:A.
  - destruct H as (_ & Ho & _). rewrite Ho. destruct (N.eq_dec v vb) as [->|Hne].
    + rewrite fupd_same. exists o. split; [reflexivity|]. apply accepts_true in A. destruct A as (_ & _ & A). now rewrite Hc in A.
    + rewrite fupd_other by exact Hne. exists cur. split; [exact Hc|lia].
  - destruct H as [_ ->]. exists cur. split; [exact Hc|lia].
Qed.

Theorem session_step_mono s o v cur :
  session_op o = true -> s_offs s v = Some cur ->
  exists cur', s_offs (fst (step s o)) v = Some cur' /\ o_seq cur <= o_seq cur'.
Proof.
  intros So Hc. assert (Same : exists cur', s_offs s v = Some cur' /\ o_seq cur <= o_seq cur') by (exists cur; split; [exact Hc|lia]).
  unfold step. destruct (s_failed s); [exact Same|].
  destruct o as [first last sv| |first last sv|cancel|vb e|i| | |vb|ok| |high|vb c uuid roll]; try discriminate.
  - destruct (s_obs s vb) as [ob|]; [|exact Same].
    destruct (obs_event (s_cfg s) ob e) as [ob' f].
    destruct f as [|k it o coll t|o|]; cbn [fst]; try exact Same.
    + destruct (is_meta (i_key it)); [apply set_offset_mono; exact Hc|exact Same].
    + apply set_offset_mono; exact Hc.
  - destruct (nth_error (s_ctxs s) i) as [[vb o]|]; [|exact Same].
    pose proof (set_offset_mono s vb o true v cur Hc) as H. destruct (set_offset s vb o true) as [s1 outs]. exact H.
  - destruct (s_inflight s); [exact Same|]. destruct (negb (s_any_dirty s)); exact Same.
  - destruct (s_inflight s); [|exact Same]. destruct (negb (s_any_dirty s)); exact Same.
  - destruct (s_inflight s) as [[dump dl]|]; [|exact Same].
    destruct (lookup_doc dump vb); [|exact Same]. destruct (mem vb dl); exact Same.
  - destruct (s_inflight s) as [[dump dl]|]; [|exact Same].
    destruct ok; match goal with |- context [next_queued ?x] => rewrite (proj1 (next_queued_fields x)) end; exact Same.
  - destruct (s_obs_nil s); exact Same.
  - destruct (s_obs s vb) as [ob|]; [|exact Same]. destruct (ob_end_closed ob); [exact Same|].
    destruct c; try exact Same. destruct (s_cancel s); [exact Same|]. destruct (s_offs s vb); exact Same.
Qed.

(* foreign acknowledgements: outside the assigned range nothing is created or altered *)
Lemma set_offset_foreign s vb o d : in_range (s_range s) vb = false -> set_offset s vb o d = (s, []).
Proof. intros H. unfold set_offset. rewrite H. now destruct (s_obs_nil s). Qed.

Lemma set_offset_closed s vb o d : s_obs_nil s = true -> set_offset s vb o d = (s, []).
Proof. intros H. unfold set_offset. now rewrite H. Qed.

(* the accepted position is the maximum: after set_offset the tracked seq is max(old, new) *)
Lemma set_offset_max s vb o d :
  s_obs_nil s = false -> in_range (s_range s) vb = true ->
  match s_offs (fst (set_offset s vb o d)) vb with
  | Some x => o_seq x = match s_offs s vb with Some cur => N.max (o_seq cur) (o_seq o) | None => o_seq o end
  | None => False
  end.
Proof.
  intros Nl R. pose proof (set_offset_spec s vb o d) as H. destruct (set_offset s vb o d) as [s' outs]. cbn [fst].
  destruct H as [_ H]. unfold accepts, accepts_open in H. rewrite Nl, R in H. cbn [negb andb] in H.
  destruct (s_offs s vb) as [cur|] eqn:E.
  - destruct (N.ltb_spec (o_seq o) (o_seq cur)); cbn [negb] in H.
    + destruct H as [_ ->]. rewrite E. lia.
    + destruct H as (_ & -> & _). rewrite fupd_same. lia.
  - destruct H as (_ & -> & _). rewrite fupd_same. reflexivity.
Qed.

(* ---------- the settled log (ghost): every position the consumer settled or the session resumed from ---------- *)
(* what an op settles: acknowledged contexts, absorbed events (system, seqno-advanced, reserved keys),
   and - for an open - the positions the session resumes from *)
Definition log_add (s : sstate) (o : op) : list (N * offset) :=
  if s_failed s then [] else
  match o with
  | Open f l sv =>
      if s_open s || s_balancing s then [] else
      match do_open s f l sv with
      | Some (s', _) => flat_map (fun vb => match s_offs s' vb with Some x => [(vb, x)] | None => [] end) (vb_list f l)
      | None => []
      end
  | RebOpen f l sv =>
      if negb (s_balancing s) || s_open s then [] else
      match do_open s f l sv with
      | Some (s', _) => flat_map (fun vb => match s_offs s' vb with Some x => [(vb, x)] | None => [] end) (vb_list f l)
      | None => []
      end
  | Deliver vb e =>
      match s_obs s vb with
      | Some ob =>
          match snd (obs_event (s_cfg s) ob e) with
          | FAdvance x => [(vb, x)]
          | FDoc _ it x _ _ => if is_meta (i_key it) then [(vb, x)] else []
          | _ => []
          end
      | None => []
      end
  | Ack i => match nth_error (s_ctxs s) i with Some p => [p] | None => [] end
  | _ => []
  end.

Fixpoint log_run (s : sstate) (ops : list op) : list (N * offset) :=
  match ops with
  | [] => []
  | o :: r => log_add s o ++ log_run (fst (step s o)) r
  end.

Section Log.
  Variable st0 : fmap doc.   (* the store the history starts from *)

  Record LogInv (s : sstate) (L : list (N * offset)) : Prop := {
    li_offs : forall vb o, s_offs s vb = Some o -> In (vb, o) L;
    li_inflight : forall dump dl, s_inflight s = Some (dump, dl) ->
                  forall vb d, lookup_doc dump vb = Some d -> exists o, In (vb, o) L /\ d = doc_of o;
    li_store : forall vb d, s_store s vb = Some d -> st0 vb = Some d \/ exists o, In (vb, o) L /\ d = doc_of o
  }.

  Lemma LogInv_mono s L L' : LogInv s L -> (forall x, In x L -> In x L') -> LogInv s L'.
  Proof.
    intros [A B C] M. constructor.
    - intros vb o H. apply M. eauto.
    - intros dump dl E vb d H. destruct (B _ _ E _ _ H) as (o & Ho & ->). exists o. auto.
    - intros vb d H. destruct (C _ _ H) as [|(o & Ho & ->)]; [now left|right; exists o; auto].
  Qed.

  Lemma LogInv_proj s s' L :
    LogInv s L -> s_offs s' = s_offs s -> s_inflight s' = s_inflight s -> s_store s' = s_store s -> LogInv s' L.
  Proof. intros [A B C] H1 H2 H3. constructor; rewrite ?H1, ?H2, ?H3; assumption. Qed.

  Lemma LogInv_set_offset s L vb o d :
    LogInv s L -> LogInv (fst (set_offset s vb o d)) (L ++ [(vb, o)]).
  Proof.
    intros LI. pose proof (set_offset_spec s vb o d) as H. destruct (set_offset s vb o d) as [s' outs]. cbn [fst].
    destruct H as [R H]. assert (M : forall x, In x L -> In x (L ++ [(vb, o)])) by (intros; apply in_or_app; now left).
    destruct (accepts s vb o).
    - destruct H as (_ & Ho & _). destruct R as (_ & _ & _ & _ & _ & _ & _ & _ & _ & _ & _ & _ & _ & Ri & Rs & _).
      destruct LI as [A B C]. constructor.
      + intros v x. rewrite Ho. intros Hx. apply fupd_cases in Hx. destruct Hx as [[-> ->]|[_ Hx]].
        * apply in_or_app. right. now left.
        * apply M. eauto.
      + rewrite Ri. intros dump dl E v x Hx. destruct (B _ _ E _ _ Hx) as (y & Hy & ->). exists y. auto.
      + rewrite Rs. intros v x Hx. destruct (C _ _ Hx) as [|(y & Hy & ->)]; [now left|right; exists y; auto].
    - destruct H as [_ ->]. eapply LogInv_mono; eauto.
  Qed.

  Lemma LogInv_save_body s L : LogInv s L -> LogInv (fst (save_body s)) L.
  Proof.
    intros [LA LB LC]. unfold save_body; cbn [fst]. constructor; cbn; [exact LA| |exact LC].
    intros dump dl [= <- <-] vb d Hd. apply lookup_dump_of in Hd. destruct Hd as (o & Ho & ->). exists o. split; [eauto|reflexivity].
  Qed.

  Lemma LogInv_next_queued s L : LogInv s L -> LogInv (fst (next_queued s)) L.
  Proof.
    intros LI. unfold next_queued. apply (drain_preserves (fun x => LogInv x L)); [| |exact LI].
    - intros x q H. eapply LogInv_proj; eauto.
    - intros x H. now apply LogInv_save_body.
  Qed.

  Theorem LogInv_step s L o : LogInv s L -> LogInv (fst (step s o)) (L ++ log_add s o).
  Proof.
    intros LI. assert (M : forall x, In x L -> In x (L ++ log_add s o)) by (intros; apply in_or_app; now left).
    assert (Same : LogInv s (L ++ log_add s o)) by (eapply LogInv_mono; eauto).
    unfold step, log_add in *. destruct (s_failed s); [exact Same|].
    destruct o as [first last sv| |first last sv|cancel|vb e|i| | |vb|ok| |high|vb c uuid roll].
    - (* Open *)
      destruct (s_open s || s_balancing s); [exact Same|].
      destruct (do_open s first last sv) as [[s' outs]|] eqn:E; cbn [fst]; [|eapply LogInv_proj; eauto].
      unfold do_open in E. destruct (load_all _ _ _ _ _ _) as [[[offs dirty] any]|] eqn:Ld; [|discriminate].
      injection E as <- <-. cbn [s_offs]. destruct (load_all_spec _ _ _ _ _ _ _ _ _ Ld) as (A & _ & _).
      destruct LI as [LA LB LC]. constructor; cbn.
      + intros vb o Ho. apply in_or_app. right. apply in_flat_map. exists vb. split; [exact (proj1 (A vb o Ho))|].
        rewrite Ho. now left.
      + intros dump dl E vb d H. destruct (LB _ _ E _ _ H) as (o & Ho & ->). exists o. split; [apply in_or_app; now left|reflexivity].
      + intros vb d H. destruct (LC _ _ H) as [|(o & Ho & ->)]; [now left|right; exists o; split; [apply in_or_app; now left|reflexivity]].
    - (* RebClose *)
      destruct (negb (s_open s) || s_balancing s); [exact Same|].
      unfold do_close; cbn. rewrite app_nil_r. destruct LI as [LA LB LC]. constructor; cbn; [discriminate|exact LB|exact LC].
    - (* RebOpen *)
      destruct (negb (s_balancing s) || s_open s); [exact Same|].
      destruct (do_open s first last sv) as [[s' outs]|] eqn:E; cbn [fst]; [|eapply LogInv_proj; eauto].
      unfold do_open in E. destruct (load_all _ _ _ _ _ _) as [[[offs dirty] any]|] eqn:Ld; [|discriminate].
      injection E as <- <-. cbn [s_offs]. destruct (load_all_spec _ _ _ _ _ _ _ _ _ Ld) as (A & _ & _).
      destruct LI as [LA LB LC]. constructor; cbn.
      + intros vb o Ho. apply in_or_app. right. apply in_flat_map. exists vb. split; [exact (proj1 (A vb o Ho))|].
        rewrite Ho. now left.
      + intros dump dl E vb d H. destruct (LB _ _ E _ _ H) as (o & Ho & ->). exists o. split; [apply in_or_app; now left|reflexivity].
      + intros vb d H. destruct (LC _ _ H) as [|(o & Ho & ->)]; [now left|right; exists o; split; [apply in_or_app; now left|reflexivity]].
    - (* Close *)
      destruct (s_obs_nil s || s_balancing s); [exact Same|].
      unfold do_close; cbn. destruct (negb (s_fin_end s) && negb (s_stopped s)); cbn; rewrite app_nil_r;
        destruct LI as [LA LB LC]; (constructor; cbn; [discriminate|exact LB|exact LC]).
    - (* Deliver *)
      destruct (s_obs s vb) as [ob|]; [|exact Same].
      destruct (obs_event (s_cfg s) ob e) as [ob' f]. cbn [snd] in *.
      assert (L1 : LogInv (set_obs s (fupd (s_obs s) vb ob')) L) by (eapply LogInv_proj; eauto).
      destruct f as [|k it o coll t|o|]; cbn [fst].
      + eapply LogInv_mono; eauto.
      + destruct (is_meta (i_key it)); [now apply LogInv_set_offset|].
        cbn [fst]. rewrite app_nil_r. eapply LogInv_proj; eauto.
      + now apply LogInv_set_offset.
      + rewrite app_nil_r. eapply LogInv_proj; eauto.
    - (* Ack *)
      destruct (nth_error (s_ctxs s) i) as [[vb o]|]; [|exact Same].
      pose proof (LogInv_set_offset s L vb o true LI) as H. destruct (set_offset s vb o true) as [s1 outs].
      cbn [fst] in *. eapply LogInv_proj; eauto.
    - (* SaveBegin *)
      rewrite app_nil_r in *. destruct (s_inflight s) eqn:Ei; [exact LI|]. destruct (negb (s_any_dirty s)); [exact LI|].
      now apply LogInv_save_body.
    - (* SaveQueue *)
      rewrite app_nil_r in *. destruct (s_inflight s); [|exact LI]. eapply LogInv_proj; eauto.
    - (* SaveWrite *)
      rewrite app_nil_r in *. destruct (s_inflight s) as [[dump dl]|] eqn:Ei; [|exact LI].
      destruct (lookup_doc dump vb) as [d|] eqn:El; [|exact LI]. destruct (mem vb dl); [|exact LI].
      cbn [fst]. destruct LI as [LA LB LC]. constructor; cbn; [exact LA|intros dump0 dl0 E0; try rewrite Ei in E0; injection E0 as <- <-; exact (LB _ _ Ei)|].
      intros v x Hx. apply fupd_cases in Hx. destruct Hx as [[-> ->]|[_ Hx]]; [right; exact (LB _ _ Ei _ _ El)|exact (LC _ _ Hx)].
    - (* SaveEnd *)
      rewrite app_nil_r in *. destruct (s_inflight s) as [[dump dl]|] eqn:Ei; [|exact LI]. destruct ok; apply LogInv_next_queued.
      + destruct LI as [LA LB LC]. constructor; cbn; [exact LA|discriminate|].
        intros v x Hx. apply fold_store_cases in Hx. destruct Hx as [Hx|Hx]; [exact (LC _ _ Hx)|right; exact (LB _ _ Ei _ _ Hx)].
      + destruct LI as [LA LB LC]. constructor; cbn; [exact LA|discriminate|exact LC].
    - (* Crash *)
      rewrite app_nil_r. destruct LI as [LA LB LC]. constructor; cbn; [discriminate|discriminate|exact LC].
    - (* Scrape *)
      rewrite app_nil_r in *. destruct (s_obs_nil s); exact LI.
    - (* End *)
      rewrite app_nil_r in *. destruct (s_obs s vb) as [ob|]; [|exact LI]. destruct (ob_end_closed ob); [exact LI|].
      destruct c; try (eapply LogInv_proj; eauto; fail).
      destruct (s_cancel s); [eapply LogInv_proj; eauto|]. destruct (s_offs s vb); cbn [fst]; eapply LogInv_proj; eauto.
  Qed.

  Lemma LogInv_run ops : forall s L, LogInv s L -> LogInv (fst (run s ops)) (L ++ log_run s ops).
  Proof.
    induction ops as [|o r IH]; intros s L LI; cbn [run log_run]; [now rewrite app_nil_r|].
    pose proof (LogInv_step s L o LI) as L1. destruct (step s o) as [s1 out1] eqn:E. cbn [fst] in *.
    specialize (IH s1 _ L1). destruct (run s1 r) as [s2 outs]. cbn [fst] in *. now rewrite app_assoc.
  Qed.

  Lemma LogInv_init c : LogInv (init_state c st0) [].
  Proof. constructor; cbn; try discriminate. intros vb d H. now left. Qed.
End Log.

(* ---------- C05: the save protocol ---------- *)
Lemma save_skips_when_clean s :
  s_failed s = false -> s_inflight s = None -> s_any_dirty s = false -> step s SaveBegin = (s, [NoSave]).
Proof. intros F I A. unfold step. now rewrite F, I, A. Qed.

Lemma save_begin_spec s :
  s_failed s = false -> s_inflight s = None -> s_any_dirty s = true ->
  let dump := dump_of (s_offs s) (range_list (s_range s)) in
  let dl := dirty_of (s_dirty s) all_vbs in
  snd (step s SaveBegin) = [MetaSave dump dl] /\
  s_inflight (fst (step s SaveBegin)) = Some (dump, dl) /\
  s_offs (fst (step s SaveBegin)) = s_offs s /\ s_store (fst (step s SaveBegin)) = s_store s /\
  s_any_dirty (fst (step s SaveBegin)) = false /\ (forall vb, s_dirty (fst (step s SaveBegin)) vb = None) /\
  s_failed (fst (step s SaveBegin)) = false.
Proof. intros F I A. unfold step. rewrite F, I, A. cbn. repeat split; auto. Qed.

Lemma in_vb_list first last vb : first <= vb <= last -> In vb (vb_list first last).
Proof.
  intros H. unfold vb_list. apply in_map_iff. exists (N.to_nat (vb - first)). split; [lia|].
  apply in_seq. lia.
Qed.

Lemma in_dirty_of (m : fmap bool) vbs vb : In vb vbs -> m vb = Some true -> In vb (dirty_of m vbs).
Proof. intros Hin Hm. unfold dirty_of. apply in_flat_map. exists vb. split; [exact Hin|]. rewrite Hm. now left. Qed.

Lemma dirty_of_sound (m : fmap bool) vbs vb : In vb (dirty_of m vbs) -> m vb = Some true.
Proof.
  unfold dirty_of. rewrite in_flat_map. intros (v & _ & H). destruct (m v) as [[|]|] eqn:E; try contradiction.
  destruct H as [<-|[]]. exact E.
Qed.

Lemma lookup_dump_of_complete offs vbs vb o :
  In vb vbs -> offs vb = Some o -> lookup_doc (dump_of offs vbs) vb = Some (doc_of o).
Proof.
  induction vbs as [|v r IH]; [contradiction|]. intros Hin Ho. cbn.
  destruct (N.eq_dec v vb) as [->|Hne].
  - rewrite Ho. cbn. now rewrite N.eqb_refl.
  - destruct Hin as [->|Hin]; [contradiction|]. destruct (offs v); cbn; [|now apply IH].
    apply N.eqb_neq in Hne. rewrite Hne. now apply IH.
Qed.

Lemma fold_store_hit dump dl vb d :
  In vb dl -> lookup_doc dump vb = Some d ->
  forall st, fold_left (fun m v => match lookup_doc dump v with Some x => fupd m v x | None => m end) dl st vb = Some d.
Proof.
  intros Hin Hl. induction dl as [|v r IH]; [contradiction|]. intros st. cbn.
  destruct (in_dec N.eq_dec vb r) as [Hr|Hr]; [now apply IH|].
  destruct Hin as [->|Hin]; [|contradiction]. rewrite Hl.
  assert (G : forall l m, ~ In vb l ->
            fold_left (fun m v => match lookup_doc dump v with Some x => fupd m v x | None => m end) l m vb = m vb).
  { clear. induction l as [|a l IHl]; intros m Hn; [reflexivity|]. cbn. rewrite IHl by (intros H; apply Hn; now right).
    destruct (lookup_doc dump a); [|reflexivity]. apply fupd_other. intros ->. apply Hn. now left. }
  rewrite G by exact Hr. apply fupd_same.
Qed.

Lemma save_end_ok_spec s dump dl :
  s_failed s = false -> s_inflight s = Some (dump, dl) ->
  let s' := fst (step s (SaveEnd true)) in
  s_offs s' = s_offs s /\
  (forall vb d, In vb dl -> lookup_doc dump vb = Some d -> s_store s' vb = Some d) /\
  (s_queued s = 0%nat -> s_inflight s' = None /\ s_dirty s' = s_dirty s /\ s_any_dirty s' = s_any_dirty s).
Proof.
  intros F I. unfold step. rewrite F, I.
  match goal with |- context [next_queued ?x] => pose proof (next_queued_fields x) as (Ho & _ & Hs & _) end.
  cbn zeta. rewrite Ho, Hs. cbn [s_offs s_store set_inflight set_store]. split; [reflexivity|]. split.
  - intros vb d Hin Hl. now apply fold_store_hit.
  - intros Q. unfold next_queued. cbn [s_queued set_inflight set_store]. rewrite Q. cbn. auto.
Qed.

Lemma fold_dirty_hit dl vb : In vb dl -> forall m : fmap bool, fold_left (fun m v => fupd m v true) dl m vb = Some true.
Proof.
  induction dl as [|v r IH]; [contradiction|]. intros Hin m. cbn.
  destruct (in_dec N.eq_dec vb r) as [Hr|Hr]; [now apply IH|].
  destruct Hin as [->|Hin]; [|contradiction].
  assert (G : forall l (m : fmap bool), ~ In vb l -> fold_left (fun m v => fupd m v true) l m vb = m vb).
  { clear. induction l as [|a l IHl]; intros m Hn; [reflexivity|]. cbn. rewrite IHl by (intros H; apply Hn; now right).
    apply fupd_other. intros ->. apply Hn. now left. }
  rewrite G by exact Hr. apply fupd_same.
Qed.

Lemma fold_dirty_keeps dl : forall (m : fmap bool) vb, m vb = Some true -> fold_left (fun m v => fupd m v true) dl m vb = Some true.
Proof.
  induction dl as [|v r IH]; intros m vb H; [exact H|]. cbn. apply IH.
  unfold fupd. destruct (vb =? v); [reflexivity|exact H].
Qed.

Lemma save_end_fail_spec s dump dl :
  s_failed s = false -> s_inflight s = Some (dump, dl) ->
  let s' := fst (step s (SaveEnd false)) in
  s_offs s' = s_offs s /\ s_store s' = s_store s /\
  (* nothing is forgotten: every mark is back in the dirty set, or already in the hands of the next queued save *)
  (forall vb, vb <= 1023 -> In vb dl \/ s_dirty s vb = Some true ->
     s_dirty s' vb = Some true \/ exists dump' dl', s_inflight s' = Some (dump', dl') /\ In vb dl') /\
  (s_queued s = 0%nat -> s_inflight s' = None /\ s_any_dirty s' = true).
Proof.
  intros F I. unfold step. rewrite F, I.
  match goal with |- context [next_queued ?x] => pose proof (next_queued_fields x) as (Ho & _ & Hs & _) end.
  cbn zeta. rewrite Ho, Hs. cbn [s_offs s_store set_inflight set_dirty]. split; [reflexivity|]. split; [reflexivity|]. split.
  - intros vb Hb Hm.
    assert (M : fold_left (fun m v => fupd m v true) dl (s_dirty s) vb = Some true).
    { destruct Hm as [Hin|Hd]; [now apply fold_dirty_hit|now apply fold_dirty_keeps]. }
    unfold next_queued. cbn [s_queued set_inflight set_dirty]. destruct (s_queued s) as [|q]; [left; exact M|].
    cbn [drain s_any_dirty set_inflight set_dirty]. right. pose proof (save_body_fields (set_queued (set_inflight (set_dirty s (fold_left (fun m v => fupd m v true) dl (s_dirty s)) true) None) q)) as SB.
    cbn zeta in SB. destruct SB as (_ & _ & _ & _ & _ & _ & _ & _ & _ & SI & _). rewrite SI. eexists _, _. split; [reflexivity|].
    apply in_dirty_of; [apply (in_vb_list 0 1023); lia|exact M].
  - intros Q. unfold next_queued. cbn [s_queued set_inflight set_dirty]. rewrite Q. cbn. auto.
Qed.

Definition keeps_inflight (o : op) : bool :=
  match o with SaveBegin | SaveEnd _ | Crash => false | _ => true end.

Lemma set_offset_inflight s vb o d : s_inflight (fst (set_offset s vb o d)) = s_inflight s.
Proof.
  pose proof (set_offset_spec s vb o d) as H. destruct (set_offset s vb o d) as [s' outs]. cbn [fst].
  destruct H as [R _]. apply R.
Qed.

Lemma step_keeps_inflight s o : keeps_inflight o = true -> s_inflight (fst (step s o)) = s_inflight s.
Proof.
  intros K. unfold step. destruct (s_failed s); [reflexivity|].
  destruct o as [first last sv| |first last sv|cancel|vb e|i| | |vb|ok| |high|vb c uuid roll]; try discriminate.
  - destruct (s_open s || s_balancing s); [reflexivity|]. unfold do_open.
    destruct (load_all _ _ _ _ _ _) as [[[? ?] ?]|]; reflexivity.
  - destruct (negb (s_open s) || s_balancing s); reflexivity.
  - destruct (negb (s_balancing s) || s_open s); [reflexivity|]. unfold do_open.
    destruct (load_all _ _ _ _ _ _) as [[[? ?] ?]|]; reflexivity.
  - destruct (s_obs_nil s || s_balancing s); [reflexivity|]. unfold do_close; cbn.
    destruct (negb (s_fin_end s) && negb (s_stopped s)); reflexivity.
  - destruct (s_obs s vb) as [ob|]; [|reflexivity]. destruct (obs_event (s_cfg s) ob e) as [ob' f].
    destruct f as [|k it o coll t|o|]; cbn [fst]; try reflexivity.
    + destruct (is_meta (i_key it)); [now rewrite set_offset_inflight|reflexivity].
    + now rewrite set_offset_inflight.
  - destruct (nth_error (s_ctxs s) i) as [[vb o]|]; [|reflexivity].
    pose proof (set_offset_inflight s vb o true) as H. destruct (set_offset s vb o true) as [s1 outs]. exact H.
  - destruct (s_inflight s) eqn:Ei; [|cbn; congruence]. destruct (negb (s_any_dirty s)); cbn; congruence.
  - destruct (s_inflight s) as [[dump dl]|] eqn:Ei; [|cbn; congruence].
    destruct (lookup_doc dump vb); [|cbn; congruence]. destruct (mem vb dl); cbn; congruence.
  - destruct (s_obs_nil s); reflexivity.
  - destruct (s_obs s vb) as [ob|]; [|reflexivity]. destruct (ob_end_closed ob); [reflexivity|].
    destruct c; try reflexivity. destruct (s_cancel s); [reflexivity|]. destruct (s_offs s vb); reflexivity.
Qed.

Lemma run_keeps_inflight ops : forall s, forallb keeps_inflight ops = true -> s_inflight (fst (run s ops)) = s_inflight s.
Proof.
  induction ops as [|o r IH]; intros s H; [reflexivity|]. cbn in H. apply andb_true_iff in H. destruct H as [Ho Hr].
  cbn [run]. pose proof (step_keeps_inflight s o Ho) as E. destruct (step s o) as [s1 out1]. cbn [fst] in E.
  specialize (IH s1 Hr). destruct (run s1 r) as [s2 outs]. cbn [fst] in *. congruence.
Qed.

(* the durability theorem: whatever happens while the save is in flight (deliveries, acknowledgements,
   rebalances, partial writes ...), if the store call succeeds then every vBucket that was dirty when the
   save began holds exactly the position tracked at that moment *)
Theorem save_makes_durable s mid :
  s_failed s = false -> s_inflight s = None -> s_any_dirty s = true ->
  forallb keeps_inflight mid = true ->
  let s1 := fst (step s SaveBegin) in
  let s2 := fst (run s1 mid) in
  s_failed s2 = false ->
  let s3 := fst (step s2 (SaveEnd true)) in
  forall vb o, vb <= 1023 -> in_range (s_range s) vb = true -> s_dirty s vb = Some true -> s_offs s vb = Some o ->
  s_store s3 vb = Some (doc_of o).
Proof.
  intros F I A Hm s1 s2 F2 s3 vb o Hb Hr Hd Ho.
  destruct (save_begin_spec s F I A) as (_ & I1 & _).
  assert (I2 : s_inflight s2 = Some (dump_of (s_offs s) (range_list (s_range s)), dirty_of (s_dirty s) all_vbs)).
  { unfold s2. rewrite run_keeps_inflight by exact Hm. exact I1. }
  destruct (save_end_ok_spec s2 _ _ F2 I2) as (_ & W & _). apply W.
  - apply in_dirty_of; [apply in_vb_list; lia|exact Hd].
  - apply lookup_dump_of_complete; [|exact Ho].
    unfold in_range in Hr. destruct (s_range s) as [[a b]|]; [|discriminate].
    apply andb_true_iff in Hr. destruct Hr as [H1 H2]. apply N.leb_le in H1, H2. cbn. apply in_vb_list. lia.
Qed.

(* ---------- C14: reserved keys are absorbed without flagging ---------- *)
Lemma meta_absorbed s vb k it :
  s_failed s = false -> is_meta (i_key it) = true ->
  let s' := fst (step s (Deliver vb (Doc k it))) in
  (forall x, In x (snd (step s (Deliver vb (Doc k it)))) -> match x with Consume _ _ _ _ _ _ => False | _ => True end) /\
  s_dirty s' = s_dirty s /\ s_any_dirty s' = s_any_dirty s /\ s_ctxs s' = s_ctxs s /\ s_store s' = s_store s.
Proof.
  intros F M. unfold step. rewrite F. destruct (s_obs s vb) as [ob|]; [|cbn; repeat split; auto; intros x [<-|[]]; exact I].
  pose proof (obs_event_offset (s_cfg s) ob (Doc k it)) as H.
  destruct (obs_event (s_cfg s) ob (Doc k it)) as [ob' f]. cbn [snd] in H.
  destruct f as [|k' it' o coll t|o|].
  - cbn. repeat split; auto. contradiction.
  - destruct H as ([= <- <-] & _). rewrite M.
    pose proof (set_offset_spec (set_obs s (fupd (s_obs s) vb ob')) vb o false) as S.
    destruct (set_offset _ vb o false) as [s1 outs]. cbn [fst snd]. destruct S as [R S].
    destruct (accepts _ vb o).
    + destruct S as (-> & _ & Hd & Ha). destruct R as (_ & _ & _ & _ & _ & _ & _ & _ & _ & _ & _ & _ & Rc & _ & Rs & _).
      repeat split; auto. intros x [<-|[]]. exact I.
    + destruct S as (-> & ->). cbn. repeat split; auto. contradiction.
  - destruct H as [(q & [=] & _)|(k' & q & cid & s0 & e' & [=] & _)].
  - cbn. repeat split; auto. intros x [<-|[]]. exact I.
Qed.

(* ---------- C12: the active-stream count ---------- *)
(* an End op that counts: the observer exists, is not end-closed, and the end is final for the library *)
Definition is_final_end (s : sstate) (o : op) : bool :=
  match o with
  | End vb c _ _ =>
      negb (s_failed s) &&
      match s_obs s vb with
      | Some ob => negb (ob_end_closed ob) && match c with ETransient => s_cancel s | _ => true end
      | None => false
      end
  | _ => false
  end.

Lemma step_active s o :
  session_op o = true ->
  s_active (fst (step s o)) = (if is_final_end s o then s_active s - 1 else s_active s)%Z.
Proof.
  intros So. unfold step, is_final_end. destruct (s_failed s); [destruct o; reflexivity|]. cbn [negb andb].
  destruct o as [first last sv| |first last sv|cancel|vb e|i| | |vb|ok| |high|vb c uuid roll]; try discriminate.
  - destruct (s_obs s vb) as [ob|]; [|reflexivity]. destruct (obs_event (s_cfg s) ob e) as [ob' f].
    destruct f as [|k it o coll t|o|]; cbn [fst]; try reflexivity.
    + destruct (is_meta (i_key it)); [|reflexivity].
      pose proof (set_offset_spec (set_obs s (fupd (s_obs s) vb ob')) vb o false) as S.
      destruct (set_offset _ vb o false) as [s1 outs]. destruct S as [R _]. apply R.
    + pose proof (set_offset_spec (set_obs s (fupd (s_obs s) vb ob')) vb o true) as S.
      destruct (set_offset _ vb o true) as [s1 outs]. destruct S as [R _]. apply R.
  - destruct (nth_error (s_ctxs s) i) as [[vb o]|]; [|reflexivity].
    pose proof (set_offset_spec s vb o true) as S. destruct (set_offset s vb o true) as [s1 outs]. destruct S as [R _]. apply R.
  - destruct (s_inflight s); [reflexivity|]. destruct (negb (s_any_dirty s)); reflexivity.
  - destruct (s_inflight s); [|reflexivity]. destruct (negb (s_any_dirty s)); reflexivity.
  - destruct (s_inflight s) as [[dump dl]|]; [|reflexivity].
    destruct (lookup_doc dump vb); [|reflexivity]. destruct (mem vb dl); reflexivity.
  - destruct (s_inflight s) as [[dump dl]|]; [|reflexivity].
    destruct ok; match goal with |- context [next_queued ?x] => pose proof (next_queued_fields x) as (_ & _ & _ & _ & _ & Ha & _) end; rewrite Ha; reflexivity.
  - destruct (s_obs_nil s); reflexivity.
  - destruct (s_obs s vb) as [ob|]; [|reflexivity]. destruct (ob_end_closed ob); [reflexivity|]. cbn [negb andb].
    destruct c; try reflexivity. destruct (s_cancel s); [reflexivity|]. destruct (s_offs s vb); reflexivity.
Qed.

Fixpoint final_ends (s : sstate) (ops : list op) : nat :=
  match ops with
  | [] => 0
  | o :: r => (if is_final_end s o then 1 else 0) + final_ends (fst (step s o)) r
  end.

Lemma run_active ops : forall s, forallb session_op ops = true ->
  s_active (fst (run s ops)) = (s_active s - Z.of_nat (final_ends s ops))%Z.
Proof.
  induction ops as [|o r IH]; intros s H; [cbn; lia|]. cbn in H. apply andb_true_iff in H. destruct H as [Ho Hr].
  cbn [run final_ends]. pose proof (step_active s o Ho) as E. destruct (step s o) as [s1 out1]. cbn [fst] in *.
  specialize (IH s1 Hr). destruct (run s1 r) as [s2 outs]. cbn [fst] in *. rewrite IH, E.
  destruct (is_final_end s o); lia.
Qed.

(* a transient end while running reopens the vBucket from its tracked position and leaves the count alone *)
Lemma transient_end_reopens s vb uuid roll ob o :
  s_failed s = false -> s_obs s vb = Some ob -> ob_end_closed ob = false -> s_cancel s = false -> s_offs s vb = Some o ->
  snd (step s (End vb ETransient uuid roll)) = [OpenReq vb o] /\
  s_active (fst (step s (End vb ETransient uuid roll))) = s_active s /\
  s_offs (fst (step s (End vb ETransient uuid roll))) = s_offs s.
Proof. intros F Ho Hc Hca Hof. unfold step. rewrite F, Ho, Hc, Hca, Hof. cbn. auto. Qed.

(* the client stops on its own exactly when the last assigned stream ends for good *)
Lemma end_stops_iff s vb c uuid roll :
  In Stop (snd (step s (End vb c uuid roll))) <->
  is_final_end s (End vb c uuid roll) = true /\ (s_active s - 1 = 0)%Z /\ s_fin_close s = false /\
  s_balancing s = false /\ s_stopped s = false.
Proof.
  unfold step, is_final_end. destruct (s_failed s); [cbn; split; [intros [H|[]]; discriminate|intros [H _]; discriminate]|].
  cbn [negb andb]. destruct (s_obs s vb) as [ob|]; [|cbn; split; [intros [H|[]]; discriminate|intros [H _]; discriminate]].
  destruct (ob_end_closed ob); [cbn; split; [tauto|intros [H _]; discriminate]|]. cbn [negb andb].
  assert (G : forall b : bool, In Stop (if b then [Stop] else @nil out) <-> b = true) by (intros [|]; cbn; intuition discriminate).
  destruct c.
  - cbn [snd]. rewrite G. rewrite !andb_true_iff, !negb_true_iff, Z.eqb_eq. tauto.
  - destruct (s_cancel s).
    + cbn [snd]. rewrite G. rewrite !andb_true_iff, !negb_true_iff, Z.eqb_eq. tauto.
    + destruct (s_offs s vb); cbn; split; try tauto; try (intros [H|[]]; discriminate); intros [H _]; discriminate.
  - cbn [snd]. rewrite G. rewrite !andb_true_iff, !negb_true_iff, Z.eqb_eq. tauto.
Qed.

(* ---------- C04: the tracked position is the maximum settled in the session ---------- *)
Fixpoint max_seq (vb : N) (l : list (N * offset)) : N :=
  match l with
  | [] => 0
  | (v, o) :: r => if v =? vb then N.max (o_seq o) (max_seq vb r) else max_seq vb r
  end.

Lemma max_seq_app vb l1 l2 : max_seq vb (l1 ++ l2) = N.max (max_seq vb l1) (max_seq vb l2).
Proof.
  induction l1 as [|[v o] r IH]; cbn; [lia|]. destruct (v =? vb); rewrite IH; lia.
Qed.

Lemma set_offset_vb s1 vb' o' d vb cur :
  s_obs_nil s1 = false -> in_range (s_range s1) vb = true -> s_offs s1 vb = Some cur ->
  exists x, s_offs (fst (set_offset s1 vb' o' d)) vb = Some x /\ o_seq x = N.max (o_seq cur) (max_seq vb [(vb', o')]).
Proof.
  intros Nl R Hc. cbn [max_seq]. destruct (N.eqb_spec vb' vb) as [->|Hne].
  - pose proof (set_offset_max s1 vb o' d Nl R) as H. rewrite Hc in H.
    destruct (s_offs (fst (set_offset s1 vb o' d)) vb) as [x|]; [|contradiction]. exists x. split; [reflexivity|lia].
  - pose proof (set_offset_spec s1 vb' o' d) as H. destruct (set_offset s1 vb' o' d) as [s' outs]. cbn [fst].
    destruct H as [_ H]. destruct (accepts s1 vb' o').
    + destruct H as (_ & -> & _). rewrite fupd_other by congruence. exists cur. split; [exact Hc|lia].
    + destruct H as [_ ->]. exists cur. split; [exact Hc|lia].
Qed.

Lemma set_offset_range s vb o d : s_range (fst (set_offset s vb o d)) = s_range s.
Proof.
  pose proof (set_offset_spec s vb o d) as H. destruct (set_offset s vb o d) as [s' outs]. cbn [fst].
  destruct H as [R _]. apply R.
Qed.

Lemma set_offset_nil s vb o d : s_obs_nil (fst (set_offset s vb o d)) = s_obs_nil s.
Proof.
  pose proof (set_offset_spec s vb o d) as H. destruct (set_offset s vb o d) as [s' outs]. cbn [fst].
  destruct H as [R _]. apply R.
Qed.

Lemma session_step_max s o vb cur :
  session_op o = true -> s_obs_nil s = false -> in_range (s_range s) vb = true -> s_offs s vb = Some cur ->
  s_obs_nil (fst (step s o)) = false /\ s_range (fst (step s o)) = s_range s /\
  exists x, s_offs (fst (step s o)) vb = Some x /\ o_seq x = N.max (o_seq cur) (max_seq vb (log_add s o)).
Proof.
  intros So Nl R Hc.
  assert (Same : s_obs_nil s = false /\ s_range s = s_range s /\ exists x, s_offs s vb = Some x /\ o_seq x = N.max (o_seq cur) (max_seq vb [])).
  { split; [exact Nl|]. split; [reflexivity|]. exists cur. split; [exact Hc|cbn; lia]. }
  unfold step, log_add. destruct (s_failed s); [exact Same|].
  destruct o as [first last sv| |first last sv|cancel|v e|i| | |v|ok| |high|v c uuid roll]; try discriminate.
  - destruct (s_obs s v) as [ob|]; [|exact Same].
    destruct (obs_event (s_cfg s) ob e) as [ob' f]. cbn [snd].
    destruct f as [|k it o coll t|o|]; cbn [fst]; try exact Same.
    + destruct (is_meta (i_key it)); [|exact Same].
      split; [now rewrite set_offset_nil|]. split; [now rewrite set_offset_range|]. apply set_offset_vb; assumption.
    + split; [now rewrite set_offset_nil|]. split; [now rewrite set_offset_range|]. apply set_offset_vb; assumption.
  - destruct (nth_error (s_ctxs s) i) as [[v o]|]; [|exact Same].
    pose proof (set_offset_nil s v o true) as Rn. pose proof (set_offset_range s v o true) as Rr.
    pose proof (set_offset_vb s v o true vb cur Nl R Hc) as H.
    destruct (set_offset s v o true) as [s1 outs]. cbn [fst] in *. split; [cbn; congruence|]. split; [exact Rr|exact H].
  - destruct (s_inflight s); [exact Same|]. destruct (negb (s_any_dirty s)); exact Same.
  - destruct (s_inflight s); [|exact Same]. destruct (negb (s_any_dirty s)); exact Same.
  - destruct (s_inflight s) as [[dump dl]|]; [|exact Same].
    destruct (lookup_doc dump v); [|exact Same]. destruct (mem v dl); exact Same.
  - destruct (s_inflight s) as [[dump dl]|]; [|exact Same].
    destruct ok; match goal with |- context [next_queued ?x] => pose proof (next_queued_core_nil x) as Hn; pose proof (next_queued_fields x) as (Ho & _ & _ & _ & Hr & _) end; rewrite Hn, Ho, Hr; exact Same.
  - rewrite Nl. exact Same.
  - destruct (s_obs s v) as [ob|]; [|exact Same]. destruct (ob_end_closed ob); [exact Same|].
    destruct c; try exact Same. destruct (s_cancel s); [exact Same|]. destruct (s_offs s v); exact Same.
Qed.

Theorem session_max ops : forall s vb cur,
  forallb session_op ops = true -> s_obs_nil s = false -> in_range (s_range s) vb = true -> s_offs s vb = Some cur ->
  exists x, s_offs (fst (run s ops)) vb = Some x /\ o_seq x = N.max (o_seq cur) (max_seq vb (log_run s ops)).
Proof.
  induction ops as [|o r IH]; intros s vb cur H Nl R Hc.
  - exists cur. split; [exact Hc|cbn; lia].
  - cbn in H. apply andb_true_iff in H. destruct H as [Ho Hr]. cbn [run log_run].
    destruct (session_step_max s o vb cur Ho Nl R Hc) as (Nl1 & Rr & x & Hx & Ex).
    destruct (step s o) as [s1 out1] eqn:E. cbn [fst] in *. rewrite <- Rr in R.
    destruct (IH s1 vb x Hr Nl1 R Hx) as (y & Hy & Ey). destruct (run s1 r) as [s2 outs]. cbn [fst] in *.
    exists y. split; [exact Hy|]. rewrite max_seq_app. lia.
Qed.
