(* Proofs about Model/Lifecycle.v (C13). *)
From Verif Require Import Base.Prelude Base.Bytes Model.Stream Proofs.StreamProofs Model.Lifecycle.
Local Open Scope N_scope.

(* ---------- the save ops touch nothing but the dirty set, the in-flight call, the queue and the store ---------- *)
Definition core_same (s s' : sstate) : Prop :=
  s_cfg s' = s_cfg s /\ s_range s' = s_range s /\ s_offs s' = s_offs s /\ s_obs s' = s_obs s /\ s_obs_nil s' = s_obs_nil s /\
  s_open s' = s_open s /\ s_balancing s' = s_balancing s /\ s_active s' = s_active s /\
  s_fin_close s' = s_fin_close s /\ s_fin_end s' = s_fin_end s /\ s_cancel s' = s_cancel s /\
  s_stopped s' = s_stopped s /\ s_rebalances s' = s_rebalances s /\ s_ctxs s' = s_ctxs s /\ s_failed s' = s_failed s.

Lemma core_same_refl s : core_same s s.
Proof. unfold core_same; repeat split. Qed.

Lemma core_same_trans a b c : core_same a b -> core_same b c -> core_same a c.
Proof.
  unfold core_same. intros H1 H2.
  destruct H1 as (A1 & A2 & A3 & A4 & A5 & A6 & A7 & A8 & A9 & A10 & A11 & A12 & A13 & A14 & A15).
  destruct H2 as (B1 & B2 & B3 & B4 & B5 & B6 & B7 & B8 & B9 & B10 & B11 & B12 & B13 & B14 & B15).
  repeat split; congruence.
Qed.

Definition is_save_op (o : op) : bool :=
  match o with SaveBegin | SaveQueue | SaveWrite _ | SaveEnd _ => true | _ => false end.

Lemma next_queued_core s : core_same s (fst (next_queued s)).
Proof.
  unfold next_queued. apply (drain_preserves (core_same s)); [| |apply core_same_refl].
  - intros x q H. eapply core_same_trans; [exact H|]. unfold core_same; cbn. repeat split.
  - intros x H. eapply core_same_trans; [exact H|]. unfold save_body, core_same; cbn. repeat split.
Qed.

Lemma save_step_core s o : is_save_op o = true -> core_same s (fst (step s o)).
Proof.
  intros H. unfold step. destruct (s_failed s) eqn:F; [apply core_same_refl|].
  destruct o; try discriminate.
  - destruct (s_inflight s); [apply core_same_refl|]. destruct (s_any_dirty s); cbn [negb fst]; [|apply core_same_refl].
    unfold save_body, core_same; cbn. repeat split.
  - destruct (s_inflight s); [|apply core_same_refl]. unfold core_same; cbn. repeat split.
  - destruct (s_inflight s) as [[dump dl]|]; [|apply core_same_refl].
    destruct (lookup_doc dump vb); [|apply core_same_refl]. destruct (mem vb dl); [|apply core_same_refl].
    unfold core_same; cbn. repeat split.
  - destruct (s_inflight s) as [[dump dl]|]; [|apply core_same_refl]. destruct ok.
    + eapply core_same_trans; [|apply next_queued_core]. unfold core_same; cbn. repeat split.
    + eapply core_same_trans; [|apply next_queued_core]. unfold core_same; cbn. repeat split.
Qed.

Lemma final_save_core s r1 r2 : core_same s (fst (final_save s r1 r2)).
Proof.
  unfold final_save. destruct (s_inflight s).
  - destruct (step s SaveQueue) as [s1 o1] eqn:E1. destruct (step s1 (SaveEnd r1)) as [s2 o2] eqn:E2.
    pose proof (save_step_core s SaveQueue eq_refl) as H1. rewrite E1 in H1.
    pose proof (save_step_core s1 (SaveEnd r1) eq_refl) as H2. rewrite E2 in H2.
    destruct (s_inflight s2).
    + destruct (step s2 (SaveEnd r2)) as [s3 o3] eqn:E3. cbn [fst].
      pose proof (save_step_core s2 (SaveEnd r2) eq_refl) as H3. rewrite E3 in H3.
      eapply core_same_trans; [exact H1|]. eapply core_same_trans; [exact H2|exact H3].
    + cbn [fst]. eapply core_same_trans; eauto.
  - destruct (step s SaveBegin) as [s1 o1] eqn:E1.
    pose proof (save_step_core s SaveBegin eq_refl) as H1. rewrite E1 in H1.
    destruct (s_inflight s1).
    + destruct (step s1 (SaveEnd r2)) as [s2 o2] eqn:E2. cbn [fst].
      pose proof (save_step_core s1 (SaveEnd r2) eq_refl) as H2. rewrite E2 in H2.
      eapply core_same_trans; eauto.
    + exact H1.
Qed.

(* the save ops never hand anything to the consumer and never open a stream *)
Definition quiet_out (x : out) : bool :=
  match x with Consume _ _ _ _ _ _ | OpenReq _ _ | Fail => false | _ => true end.

Lemma drain_quiet q : forall s, forallb quiet_out (snd (drain q s)) = true.
Proof.
  induction q as [|q IH]; intros s; cbn [drain]; [reflexivity|]. destruct (s_any_dirty s); [reflexivity|].
  specialize (IH (set_queued s q)). destruct (drain q (set_queued s q)) as [s' outs]. exact IH.
Qed.
Lemma next_queued_quiet s : forallb quiet_out (snd (next_queued s)) = true.
Proof. apply drain_quiet. Qed.

Lemma save_step_quiet s o : is_save_op o = true -> forallb quiet_out (snd (step s o)) = true.
Proof.
  intros H. unfold step. destruct (s_failed s); [reflexivity|].
  destruct o; try discriminate.
  - destruct (s_inflight s); [reflexivity|]. destruct (s_any_dirty s); reflexivity.
  - destruct (s_inflight s); reflexivity.
  - destruct (s_inflight s) as [[dump dl]|]; [|reflexivity].
    destruct (lookup_doc dump vb); [|reflexivity]. destruct (mem vb dl); reflexivity.
  - destruct (s_inflight s) as [[dump dl]|]; [|reflexivity]. destruct ok; apply next_queued_quiet.
Qed.

Lemma final_save_quiet s r1 r2 : forallb quiet_out (snd (final_save s r1 r2)) = true.
Proof.
  unfold final_save. destruct (s_inflight s).
  - destruct (step s SaveQueue) as [s1 o1] eqn:E1. destruct (step s1 (SaveEnd r1)) as [s2 o2] eqn:E2.
    pose proof (save_step_quiet s SaveQueue eq_refl) as H1. rewrite E1 in H1.
    pose proof (save_step_quiet s1 (SaveEnd r1) eq_refl) as H2. rewrite E2 in H2.
    destruct (s_inflight s2).
    + destruct (step s2 (SaveEnd r2)) as [s3 o3] eqn:E3. cbn [snd]. rewrite !forallb_app.
      pose proof (save_step_quiet s2 (SaveEnd r2) eq_refl) as H3. rewrite E3 in H3.
      cbn [snd] in *. now rewrite H1, H2, H3.
    + cbn [snd] in *. rewrite forallb_app. now rewrite H1, H2.
  - destruct (step s SaveBegin) as [s1 o1] eqn:E1.
    pose proof (save_step_quiet s SaveBegin eq_refl) as H1. rewrite E1 in H1.
    destruct (s_inflight s1).
    + destruct (step s1 (SaveEnd r2)) as [s2 o2] eqn:E2. cbn [snd]. rewrite forallb_app.
      pose proof (save_step_quiet s1 (SaveEnd r2) eq_refl) as H2. rewrite E2 in H2.
      cbn [snd] in *. now rewrite H1, H2.
    + exact H1.
Qed.

(* ---------- a closed stream ---------- *)
(* what stream.Close leaves behind: nothing open, the observer map cleared, every observer object that the
   network layer may still hold switched off for deliveries and for stream ends *)
Record Quiet (s : sstate) : Prop := {
  q_open : s_open s = false;
  q_nil : s_obs_nil s = true;
  q_obs : forall vb ob, s_obs s vb = Some ob -> ob_closed ob = true /\ ob_end_closed ob = true
}.

Lemma in_range_list r vb : in_range r vb = true -> In vb (range_list r).
Proof.
  unfold in_range, range_list. destruct r as [[a b]|]; [|discriminate]. intros H.
  apply andb_true_iff in H. destruct H as [H1 H2]. apply N.leb_le in H1, H2. apply in_vb_list. lia.
Qed.

Lemma close_step_spec s c :
  s_failed s = false -> s_obs_nil s = false -> s_balancing s = false ->
  let s' := fst (step s (Close c)) in
  let outs := snd (step s (Close c)) in
  Quiet s' /\ s_failed s' = false /\ s_any_dirty s' = s_any_dirty s /\ s_inflight s' = s_inflight s /\
  s_store s' = s_store s /\ s_queued s' = s_queued s /\
  (forall vb o, in_range (s_range s) vb = true -> s_offs s vb = Some o -> In (CloseReq vb) outs) /\
  forallb quiet_out outs = true.
Proof.
  intros F N B. unfold step. rewrite F, N, B. cbn [orb].
  unfold do_close.
  set (closes := flat_map (fun vb => match s_offs s vb with Some _ => [CloseReq vb] | None => [] end) (range_list (s_range s))).
  assert (HC : forall vb o, in_range (s_range s) vb = true -> s_offs s vb = Some o -> In (CloseReq vb) closes).
  { intros vb o Hr Ho. unfold closes. apply in_flat_map. exists vb. split; [now apply in_range_list|]. rewrite Ho. now left. }
  assert (HQ : forallb quiet_out closes = true).
  { unfold closes. apply forallb_forall. intros x Hx. apply in_flat_map in Hx. destruct Hx as (v & _ & Hx).
    destruct (s_offs s v); [destruct Hx as [<-|[]]; reflexivity|contradiction]. }
  match goal with |- context [if ?b then _ else _] => destruct b end; cbn [fst snd].
  - split; [constructor; cbn; auto|].
    { intros vb ob. destruct (s_obs s vb); [|discriminate]. intros [= <-]. cbn. auto. }
    cbn. repeat split; auto.
    + intros vb o Hr Ho. right. apply in_or_app. left. apply in_or_app. left. eapply HC; eauto.
    + rewrite !forallb_app, HQ. reflexivity.
  - split; [constructor; cbn; auto|].
    { intros vb ob. destruct (s_obs s vb); [|discriminate]. intros [= <-]. cbn. auto. }
    cbn. repeat split; auto.
    + intros vb o Hr Ho. right. apply in_or_app. left. eapply HC; eauto.
    + rewrite forallb_app, HQ. reflexivity.
Qed.

(* an observer that has been switched off forwards nothing, whatever arrives, and stays switched off *)
Lemma obs_event_closed c ob e :
  ob_closed ob = true ->
  ob_closed (fst (obs_event c ob e)) = true /\ ob_end_closed (fst (obs_event c ob e)) = ob_end_closed ob /\
  (snd (obs_event c ob e) = FNone \/ snd (obs_event c ob e) = FFail).
Proof.
  intros H. unfold obs_event.
  destruct e as [s0 e0|k it|sk seq cid|seq|]; rewrite ?H;
  repeat match goal with
  | |- context [let '(_, _) := ?x in _] => destruct x
  | |- context [if ?x then _ else _] => destruct x
  | |- context [match ?x with Some _ => _ | None => _ end] => destruct x
  end; cbn; auto.
  destruct k; cbn; auto.
Qed.

Lemma quiet_same_rest s s' : same_rest s s' -> Quiet s -> Quiet s'.
Proof.
  intros (_ & _ & Ho & Hn & Hop & Hb & _) Q. destruct Q as [q1 q3 q4]. constructor; try congruence.
  rewrite Ho. exact q4.
Qed.

Lemma quiet_core s s' : core_same s s' -> Quiet s -> Quiet s'.
Proof.
  intros (_ & _ & _ & Ho & Hn & Hop & Hb & _) Q. destruct Q as [q1 q3 q4]. constructor; try congruence.
  rewrite Ho. exact q4.
Qed.

Lemma set_offset_quiet_out s vb o d : forallb quiet_out (snd (set_offset s vb o d)) = true.
Proof.
  pose proof (set_offset_spec s vb o d) as H. destruct (set_offset s vb o d) as [s' outs]. cbn [snd].
  destruct H as [_ H]. destruct (accepts s vb o); destruct H as [-> _]; reflexivity.
Qed.

(* once the stream is closed, nothing that can still arrive reaches the consumer or opens a stream *)
Theorem quiet_step s o :
  Quiet s -> late_op o = true ->
  Quiet (fst (step s o)) /\
  forall x, In x (snd (step s o)) -> match x with Consume _ _ _ _ _ _ | OpenReq _ _ => False | _ => True end.
Proof.
  intros Q L. destruct Q as [q1 q3 q4]. assert (Q : Quiet s) by (constructor; auto).
  unfold step. destruct (s_failed s) eqn:F; [split; [exact Q|intros x [<-|[]]; exact I]|].
  destruct o as [first last sv| |first last sv|cancel|vb e|i| | |vb|ok| |high|vb c uuid roll]; try discriminate.
  - (* RebClose *) rewrite q1. cbn. split; [exact Q|intros x [<-|[]]; exact I].
  - (* Close *) rewrite q3. cbn. split; [exact Q|intros x [<-|[]]; exact I].
  - (* Deliver *)
    destruct (s_obs s vb) as [ob|] eqn:E; [|split; [exact Q|intros x [<-|[]]; exact I]].
    destruct (q4 vb ob E) as [Hc He].
    destruct (obs_event_closed (s_cfg s) ob e Hc) as (Hc' & He' & Hf).
    destruct (obs_event (s_cfg s) ob e) as [ob' f]. cbn [fst snd] in *.
    assert (Q1 : Quiet (set_obs s (fupd (s_obs s) vb ob'))).
    { constructor; cbn; auto. intros v x Hx. apply fupd_cases in Hx. destruct Hx as [[_ ->]|[_ Hx]]; [split; congruence|eauto]. }
    destruct Hf as [->| ->].
    + split; [exact Q1|intros x []].
    + split; [|intros x [<-|[]]; exact I]. cbn. destruct Q1 as [a c0 d]. constructor; auto.
  - (* Ack *)
    destruct (nth_error (s_ctxs s) i) as [[vb o]|]; [|split; [exact Q|intros x [<-|[]]; exact I]].
    pose proof (set_offset_spec s vb o true) as H. pose proof (set_offset_quiet_out s vb o true) as HO.
    destruct (set_offset s vb o true) as [s1 outs]. cbn [fst snd] in *. destruct H as [R _]. split.
    + apply (quiet_same_rest s1); [|now apply (quiet_same_rest s)].
      unfold same_rest; cbn. repeat split.
    + intros x Hx. rewrite forallb_forall in HO. specialize (HO x Hx). destruct x; try exact I; discriminate.
  - (* SaveBegin *)
    pose proof (save_step_core s SaveBegin eq_refl) as C. pose proof (save_step_quiet s SaveBegin eq_refl) as O.
    unfold step in C, O. rewrite F in C, O. split; [eapply quiet_core; eauto|].
    intros x Hx. rewrite forallb_forall in O. specialize (O x Hx). destruct x; try exact I; discriminate.
  - (* SaveQueue *)
    pose proof (save_step_core s SaveQueue eq_refl) as C. pose proof (save_step_quiet s SaveQueue eq_refl) as O.
    unfold step in C, O. rewrite F in C, O. split; [eapply quiet_core; eauto|].
    intros x Hx. rewrite forallb_forall in O. specialize (O x Hx). destruct x; try exact I; discriminate.
  - (* SaveWrite *)
    pose proof (save_step_core s (SaveWrite vb) eq_refl) as C. pose proof (save_step_quiet s (SaveWrite vb) eq_refl) as O.
    unfold step in C, O. rewrite F in C, O. split; [eapply quiet_core; eauto|].
    intros x Hx. rewrite forallb_forall in O. specialize (O x Hx). destruct x; try exact I; discriminate.
  - (* SaveEnd *)
    pose proof (save_step_core s (SaveEnd ok) eq_refl) as C. pose proof (save_step_quiet s (SaveEnd ok) eq_refl) as O.
    unfold step in C, O. rewrite F in C, O. split; [eapply quiet_core; eauto|].
    intros x Hx. rewrite forallb_forall in O. specialize (O x Hx). destruct x; try exact I; discriminate.
  - (* Scrape *) rewrite q3. split; [exact Q|intros x [<-|[]]; exact I].
  - (* End *)
    destruct (s_obs s vb) as [ob|] eqn:E; [|split; [exact Q|intros x [<-|[]]; exact I]].
    destruct (q4 vb ob E) as [_ ->]. split; [exact Q|intros x []].
Qed.

(* ---------- the teardown ---------- *)
Definition late_lop (o : lop) : bool := match o with SOp Crash => false | _ => true end.

Definition no_delivery (x : lout) : Prop :=
  match x with SOut (Consume _ _ _ _ _ _) | SOut (OpenReq _ _) => False | _ => True end.

Lemma in_souts x l : In x (souts l) -> exists y, x = SOut y /\ In y l.
Proof. unfold souts. rewrite in_map_iff. intros (y & <- & H). eauto. Qed.

(* Close() on a streaming client: the teardown runs to its end *)
Theorem shutdown_streaming l r1 r2 :
  s_failed (l_s l) = false -> l_down l = false -> s_obs_nil (l_s l) = false -> s_balancing (l_s l) = false ->
  let l' := fst (shutdown l r1 r2) in
  let outs := snd (shutdown l r1 r2) in
  Quiet (l_s l') /\ s_failed (l_s l') = false /\ l_down l' = true /\ l_dcp l' = false /\ l_cli l' = false /\
  (forall vb o, in_range (s_range (l_s l)) vb = true -> s_offs (l_s l) vb = Some o -> In (SOut (CloseReq vb)) outs) /\
  (exists pre, outs = pre ++ [DcpClose; CliClose; Returned] /\ ~ In Died pre /\ ~ In DcpClose pre /\ ~ In CliClose pre /\
               forall x, In x pre -> no_delivery x) /\
  ~ In Died outs.
Proof.
  intros F D N B. unfold shutdown. rewrite D, F. cbn [orb].
  set (fs := if l_auto l then final_save (l_s l) r1 r2 else (l_s l, [])).
  assert (C : core_same (l_s l) (fst fs)).
  { unfold fs. destruct (l_auto l); [apply final_save_core|apply core_same_refl]. }
  assert (O : forallb quiet_out (snd fs) = true).
  { unfold fs. destruct (l_auto l); [apply final_save_quiet|reflexivity]. }
  destruct fs as [s1 o1]. cbn [fst snd] in *.
  destruct C as (_ & Cr & Co & _ & Cn & _ & Cb & _ & _ & _ & _ & _ & _ & _ & Cf).
  rewrite Cn, N.
  assert (F1 : s_failed s1 = false) by congruence.
  assert (N1 : s_obs_nil s1 = false) by congruence.
  assert (B1 : s_balancing s1 = false) by congruence.
  destruct (close_step_spec s1 true F1 N1 B1) as (Q & F2 & _ & _ & _ & _ & HC & HO).
  destruct (step s1 (Close true)) as [s2 o2]. cbn [fst snd] in *.
  assert (NP : forall x, In x (souts (o1 ++ o2)) -> x <> Died /\ x <> DcpClose /\ x <> CliClose /\ no_delivery x).
  { intros x Hx. apply in_souts in Hx. destruct Hx as (y & -> & Hy). repeat split; try discriminate.
    assert (G : quiet_out y = true).
    { apply in_app_or in Hy. destruct Hy as [Hy|Hy]; [rewrite forallb_forall in O; now apply O|rewrite forallb_forall in HO; now apply HO]. }
    destruct y; try exact I; discriminate. }
  split; [exact Q|]. split; [exact F2|]. split; [reflexivity|]. split; [reflexivity|]. split; [reflexivity|].
  split; [|split].
  - intros vb o Hr Ho. apply in_or_app. left. unfold souts. apply in_map. apply in_or_app. right.
    eapply HC; [rewrite Cr; exact Hr|rewrite Co; exact Ho].
  - exists (souts (o1 ++ o2)). split; [reflexivity|].
    split; [intros H; now destruct (NP _ H) as (G & _)|].
    split; [intros H; now destruct (NP _ H) as (_ & G & _)|].
    split; [intros H; now destruct (NP _ H) as (_ & _ & G & _)|].
    intros x H. now destruct (NP _ H) as (_ & _ & _ & G).
  - intros H. apply in_app_or in H. destruct H as [H|H].
    + now destruct (NP _ H) as (G & _).
    + cbn in H. intuition discriminate.
Qed.

(* ... and afterwards nothing reaches the consumer and no stream is opened, whatever still arrives *)
Lemma inert_or_late o : inert_when_down o = false -> o <> Crash -> late_op o = true.
Proof. destruct o; cbn; try discriminate; try reflexivity. intros _ H. now elim H. Qed.

Lemma quiet_lrun late : forall l,
  Quiet (l_s l) -> l_down l = true -> forallb late_lop late = true ->
  forall outs x, In outs (snd (lrun l late)) -> In x outs -> no_delivery x.
Proof.
  induction late as [|o r IH]; intros l Q D HL outs x Ho Hx; [contradiction|].
  cbn [forallb] in HL. apply andb_true_iff in HL. destruct HL as [H1 H2].
  cbn [lrun] in Ho. destruct (lstep l o) as [l1 out1] eqn:E1. destruct (lrun l1 r) as [l2 outs2] eqn:E2.
  cbn [snd] in Ho.
  assert (G : Quiet (l_s l1) /\ l_down l1 = true /\ forall y, In y out1 -> no_delivery y).
  { destruct o as [o'|a b]; cbn [lstep] in *.
    - rewrite D in E1. cbn [andb] in E1. destruct (inert_when_down o') eqn:In.
      + injection E1 as <- <-. split; [exact Q|]. split; [exact D|]. intros y [<-|[]]. exact I.
      + assert (L : late_op o' = true) by (apply inert_or_late; [exact In|intros ->; discriminate]).
        destruct (quiet_step (l_s l) o' Q L) as [Q1 O1]. destruct (step (l_s l) o') as [s' os]. cbn [fst snd] in *.
        injection E1 as <- <-. cbn [l_s with_s l_down]. split; [exact Q1|]. split; [exact D|].
        intros y Hy. apply in_souts in Hy. destruct Hy as (z & -> & Hz). specialize (O1 z Hz). destruct z; try exact I; contradiction.
    - unfold shutdown in E1. rewrite D in E1. cbn in E1. injection E1 as <- <-. split; [exact Q|]. split; [exact D|].
      intros y [<-|[]]. exact I. }
  destruct G as (Q1 & D1 & O1). destruct Ho as [<-|Ho]; [now apply O1|].
  apply (IH l1 Q1 D1 H2 outs x); [rewrite E2; exact Ho|exact Hx].
Qed.

Theorem silent_after_shutdown l r1 r2 late :
  s_failed (l_s l) = false -> l_down l = false -> s_obs_nil (l_s l) = false -> s_balancing (l_s l) = false ->
  forallb late_lop late = true ->
  forall outs x, In outs (snd (lrun (fst (shutdown l r1 r2)) late)) -> In x outs -> no_delivery x.
Proof.
  intros F D N B HL. destruct (shutdown_streaming l r1 r2 F D N B) as (Q & _ & D' & _).
  apply quiet_lrun; assumption.
Qed.

(* ---------- durability of the final save ---------- *)
Definition store_fold (dump : list (N * doc)) (dl : list N) (st : fmap doc) : fmap doc :=
  fold_left (fun m v => match lookup_doc dump v with Some x => fupd m v x | None => m end) dl st.
Definition mark_fold (dl : list N) (m : fmap bool) : fmap bool := fold_left (fun m v => fupd m v true) dl m.

Lemma store_fold_miss dump dl vb : ~ In vb dl -> forall st, store_fold dump dl st vb = st vb.
Proof.
  unfold store_fold. induction dl as [|a l IH]; intros Hn st; [reflexivity|]. cbn.
  rewrite IH by (intros H; apply Hn; now right).
  destruct (lookup_doc dump a); [|reflexivity]. apply fupd_other. intros ->. apply Hn. now left.
Qed.

(* a store call returns while exactly one Save() waits for the lock *)
Lemma save_end_one_waiting s dump dl ok :
  s_failed s = false -> s_inflight s = Some (dump, dl) -> s_queued s = 1%nat ->
  let s' := fst (step s (SaveEnd ok)) in
  let st1 := if ok then store_fold dump dl (s_store s) else s_store s in
  let dm := if ok then s_dirty s else mark_fold dl (s_dirty s) in
  let any := if ok then s_any_dirty s else true in
  s_failed s' = false /\ s_queued s' = 0%nat /\ s_store s' = st1 /\ s_any_dirty s' = false /\
  if any then s_inflight s' = Some (dump_of (s_offs s) (range_list (s_range s)), dirty_of dm all_vbs)
  else s_inflight s' = None /\ s_dirty s' = dm.
Proof.
  intros F I Q. unfold step. rewrite F, I. unfold next_queued, store_fold, mark_fold.
  destruct ok; cbn [s_queued set_inflight set_store set_dirty]; rewrite Q; cbn [drain s_any_dirty set_inflight set_store set_dirty].
  - destruct (s_any_dirty s) eqn:A; unfold save_body;
      cbn [fst snd set_queued s_failed s_queued s_store s_any_dirty s_inflight s_dirty s_offs s_range set_inflight set_dirty set_store];
      repeat split; auto.
  - unfold save_body;
      cbn [fst snd set_queued s_failed s_queued s_store s_any_dirty s_inflight s_dirty s_offs s_range set_inflight set_dirty set_store];
      repeat split; auto.
Qed.

(* Automatic checkpointing and a final save that succeeds (r2 = true), from a state with no store call in flight or
   with one that then succeeds or fails (r1): when Start() returns
   (A) every position marked at the time of the call is in the store;
   (B) what the call in flight had taken over is there too: as dumped if that call succeeded, and -- its marks having
       been given back -- as tracked at the time of the call if it failed;
   (C) the flag is down and no call is in flight, so a stale schedule tick does not call the store. *)
Theorem shutdown_durable l r1 :
  s_failed (l_s l) = false -> l_down l = false -> s_obs_nil (l_s l) = false -> s_balancing (l_s l) = false ->
  l_auto l = true -> s_queued (l_s l) = 0%nat -> Inv (l_s l) ->
  let s := l_s l in
  let l' := fst (shutdown l r1 true) in
  (forall vb o, vb <= 1023 -> in_range (s_range s) vb = true -> s_dirty s vb = Some true ->
     s_offs s vb = Some o -> s_store (l_s l') vb = Some (doc_of o)) /\
  (forall dump dl vb, s_inflight s = Some (dump, dl) -> In vb dl ->
     (r1 = true -> s_dirty s vb <> Some true -> forall d, lookup_doc dump vb = Some d -> s_store (l_s l') vb = Some d) /\
     (r1 = false -> vb <= 1023 -> in_range (s_range s) vb = true -> forall o, s_offs s vb = Some o ->
        s_store (l_s l') vb = Some (doc_of o))) /\
  s_any_dirty (l_s l') = false /\ s_inflight (l_s l') = None /\
  snd (step (l_s l') SaveBegin) = [NoSave].
Proof.
  intros F D N B A Qz IV s l'. subst l'. unfold shutdown. fold s. fold s in F, N, B, Qz, IV. rewrite D, F, A. cbn [orb].
  (* what the final save leaves *)
  assert (FS : let s1 := fst (final_save s r1 true) in
     s_failed s1 = false /\ s_any_dirty s1 = false /\ s_inflight s1 = None /\
     (forall vb o, vb <= 1023 -> in_range (s_range s) vb = true -> s_dirty s vb = Some true ->
        s_offs s vb = Some o -> s_store s1 vb = Some (doc_of o)) /\
     (forall dump dl vb, s_inflight s = Some (dump, dl) -> In vb dl ->
        (r1 = true -> s_dirty s vb <> Some true -> forall d, lookup_doc dump vb = Some d -> s_store s1 vb = Some d) /\
        (r1 = false -> vb <= 1023 -> in_range (s_range s) vb = true -> forall o, s_offs s vb = Some o ->
           s_store s1 vb = Some (doc_of o)))).
  { unfold final_save. destruct (s_inflight s) as [[dump dl]|] eqn:I.
    - (* a store call is in flight: the final save waits for it *)
      assert (E1 : step s SaveQueue = (set_queued s 1, [])).
      { unfold step. rewrite F, I, Qz. reflexivity. }
      rewrite E1. set (s1 := set_queued s 1).
      assert (F1 : s_failed s1 = false) by exact F.
      assert (I1 : s_inflight s1 = Some (dump, dl)) by exact I.
      pose proof (save_end_one_waiting s1 dump dl r1 F1 I1 eq_refl) as H. cbn zeta in H.
      destruct (step s1 (SaveEnd r1)) as [s2 o2] eqn:E2. cbn [fst] in H.
      destruct H as (F2 & Q2 & S2 & A2 & H).
      cbn [s_store s_dirty s_any_dirty s_offs s_range s1 set_queued] in *.
      set (dm := if r1 then s_dirty s else mark_fold dl (s_dirty s)) in *.
      set (any := if r1 then s_any_dirty s else true) in *.
      assert (DM : forall vb, s_dirty s vb = Some true -> dm vb = Some true).
      { intros vb Hd. unfold dm. destruct r1; [exact Hd|]. now apply fold_dirty_keeps. }
      destruct any eqn:EA.
      + (* something is marked: the final save runs its body *)
        rewrite H.
        pose proof (save_end_ok_spec s2 _ _ F2 H) as (_ & W & HQ). destruct (HQ Q2) as (I3 & D3 & A3).
        pose proof (save_step_core s2 (SaveEnd true) eq_refl) as C3.
        destruct (step s2 (SaveEnd true)) as [s3 o3] eqn:E3. cbn [fst] in *.
        destruct C3 as (_ & _ & _ & _ & _ & _ & _ & _ & _ & _ & _ & _ & _ & _ & F3).
        split; [congruence|]. split; [congruence|]. split; [exact I3|]. split.
        * intros vb o Hb Hr Hd Ho. apply W.
          -- apply in_dirty_of; [apply (in_vb_list 0 1023); lia|now apply DM].
          -- apply lookup_dump_of_complete; [now apply in_range_list|exact Ho].
        * intros dump' dl' vb [= <- <-] Hin. split.
          -- intros -> Hnd d Hl.
             assert (NI : ~ In vb (dirty_of dm all_vbs)) by (intros Hx; apply dirty_of_sound in Hx; exact (Hnd Hx)).
             unfold step in E3. rewrite F2, H in E3. rewrite next_queued_none in E3 by exact Q2. injection E3 as <- _.
             cbn [s_store set_store set_inflight].
             change (store_fold (dump_of (s_offs s) (range_list (s_range s))) (dirty_of dm all_vbs) (s_store s2) vb = Some d).
             rewrite store_fold_miss by exact NI. rewrite S2. unfold store_fold. now apply fold_store_hit.
          -- intros -> Hb Hr o Ho. apply W.
             ++ apply in_dirty_of; [apply (in_vb_list 0 1023); lia|]. unfold dm, mark_fold. now apply fold_dirty_hit.
             ++ apply lookup_dump_of_complete; [now apply in_range_list|exact Ho].
      + (* nothing is marked: r1 = true and the flag was down *)
        destruct H as [I2 D2]. rewrite I2. cbn [fst].
        destruct r1; [|discriminate EA]. unfold any in EA.
        split; [exact F2|]. split; [exact A2|]. split; [exact I2|]. split.
        * intros vb o _ _ Hd _. pose proof (inv_flag _ IV vb Hd). congruence.
        * intros dump' dl' vb [= <- <-] Hin. split; [|discriminate].
          intros _ _ d Hl. rewrite S2. unfold store_fold. now apply fold_store_hit.
    - (* no store call in flight *)
      destruct (s_any_dirty s) eqn:AD.
      + destruct (save_begin_spec s F I AD) as (_ & I1 & _ & _ & A1 & _ & F1).
        pose proof (save_makes_durable s [] F I AD eq_refl) as Dur. cbn [run fst] in Dur.
        destruct (step s SaveBegin) as [s1 o1] eqn:E1. cbn [fst snd] in *. rewrite I1.
        assert (Q1 : s_queued s1 = 0%nat).
        { unfold step in E1. rewrite F, I, AD in E1. cbn in E1. injection E1 as <- _. cbn. exact Qz. }
        destruct (save_end_ok_spec s1 _ _ F1 I1) as (_ & _ & HQ). destruct (HQ Q1) as (I2 & D2 & A2).
        pose proof (save_step_core s1 (SaveEnd true) eq_refl) as C2. specialize (Dur F1).
        destruct (step s1 (SaveEnd true)) as [s2 o2] eqn:E2. cbn [fst snd] in *.
        destruct C2 as (_ & _ & _ & _ & _ & _ & _ & _ & _ & _ & _ & _ & _ & _ & F2).
        split; [congruence|]. split; [congruence|]. split; [exact I2|]. split; [exact Dur|]. intros; discriminate.
      + rewrite (save_skips_when_clean s F I AD). cbn [fst s_inflight]. rewrite I.
        split; [exact F|]. split; [exact AD|]. split; [exact I|]. split; [|intros; discriminate].
        intros vb o _ _ Hd _. pose proof (inv_flag _ IV vb Hd). congruence. }
  pose proof (final_save_core s r1 true) as C. destruct (final_save s r1 true) as [s1 o1]. cbn [fst] in *.
  destruct FS as (F1 & A1 & I1 & HA & HB).
  destruct C as (_ & _ & _ & _ & Cn & _ & Cb & _).
  assert (N1 : s_obs_nil s1 = false) by congruence.
  assert (B1 : s_balancing s1 = false) by congruence.
  rewrite N1.
  destruct (close_step_spec s1 true F1 N1 B1) as (_ & F3 & A3 & I3 & S3 & _).
  destruct (step s1 (Close true)) as [s3 o3]. cbn [fst snd l_s] in *.
  split; [intros vb o Hb Hr Hd Ho; rewrite S3; now apply HA|].
  split.
  { intros dump dl vb Hi Hin. destruct (HB dump dl vb Hi Hin) as [H1 H2]. split.
    - intros R Hn d Hl. rewrite S3. now apply H1.
    - intros R Hb Hr o Ho. rewrite S3. now apply H2. }
  split; [congruence|]. split; [congruence|].
  rewrite save_skips_when_clean; [reflexivity|exact F3|congruence|congruence].
Qed.

(* ---------- Close() inside a rebalance window ---------- *)
(* whenever the observer map is cleared the stream is closed and every observer object is switched off: it is
   cleared by Close only (and before the first open, when there are no observers) *)
Definition NilClosed (s : sstate) : Prop :=
  s_obs_nil s = true ->
  s_open s = false /\ forall vb ob, s_obs s vb = Some ob -> ob_closed ob = true /\ ob_end_closed ob = true.

Lemma NilClosed_same_rest s s' : same_rest s s' -> NilClosed s -> NilClosed s'.
Proof.
  intros (_ & _ & Ho & Hn & Hop & _) H N. rewrite Hn in N. destruct (H N) as [A B]. split; [congruence|]. rewrite Ho. exact B.
Qed.

Lemma NilClosed_core s s' : core_same s s' -> NilClosed s -> NilClosed s'.
Proof.
  intros (_ & _ & _ & Ho & Hn & Hop & _) H N. rewrite Hn in N. destruct (H N) as [A B]. split; [congruence|]. rewrite Ho. exact B.
Qed.

Lemma NilClosed_do_close s c : NilClosed (fst (fst (do_close s c))).
Proof.
  unfold do_close, NilClosed; cbn. intros _. split; [reflexivity|].
  intros vb ob. destruct (s_obs s vb); [|discriminate]. intros [= <-]. cbn. auto.
Qed.

Theorem NilClosed_step s o : NilClosed s -> NilClosed (fst (step s o)).
Proof.
  intros H. unfold step. destruct (s_failed s) eqn:F; [exact H|].
  destruct o as [first last sv| |first last sv|cancel|vb e|i| | |vb|ok| |high|vb c uuid roll].
  - destruct (s_open s || s_balancing s); [exact H|].
    destruct (do_open s first last sv) as [[s' outs]|] eqn:EO; cbn [fst].
    + unfold do_open in EO. destruct (load_all _ _ _ _ _ _) as [[[a b] c0]|]; [|discriminate].
      injection EO as <- _. unfold NilClosed; cbn. discriminate.
    + exact H.
  - destruct (negb (s_open s) || s_balancing s); [exact H|].
    pose proof (NilClosed_do_close (set_balancing s true (s_rebalances s)) false) as G.
    destruct (do_close (set_balancing s true (s_rebalances s)) false) as [[s1 outs] tok]. exact G.
  - destruct (negb (s_balancing s) || s_open s); [exact H|].
    destruct (do_open s first last sv) as [[s' outs]|] eqn:EO; cbn [fst].
    + unfold do_open in EO. destruct (load_all _ _ _ _ _ _) as [[[a b] c0]|]; [|discriminate].
      injection EO as <- _. unfold NilClosed; cbn. discriminate.
    + exact H.
  - destruct (s_obs_nil s || s_balancing s); [exact H|].
    pose proof (NilClosed_do_close s cancel) as G. destruct (do_close s cancel) as [[s1 outs] tok]. cbn [fst] in G.
    destruct (tok && negb (s_stopped s1)); exact G.
  - destruct (s_obs s vb) as [ob|] eqn:E; [|exact H].
    pose proof (fun Hc => obs_event_closed (s_cfg s) ob e Hc) as OC.
    destruct (obs_event (s_cfg s) ob e) as [ob' f]. cbn [fst snd] in OC.
    assert (H1 : NilClosed (set_obs s (fupd (s_obs s) vb ob'))).
    { intros N. cbn in N. destruct (H N) as [A B]. split; [exact A|]. cbn. intros v x Hx.
      apply fupd_cases in Hx. destruct Hx as [[-> ->]|[_ Hx]]; [|now apply (B v x)].
      destruct (B vb ob E) as [Hc He]. destruct (OC Hc) as (C1 & C2 & _). split; congruence. }
    destruct f as [|k it o coll t|o|]; cbn [fst].
    + exact H1.
    + destruct (is_meta (i_key it)); [|exact H1].
      pose proof (set_offset_spec (set_obs s (fupd (s_obs s) vb ob')) vb o false) as R.
      destruct (set_offset _ vb o false) as [s' outs]. cbn [fst]. destruct R as [R _]. eapply NilClosed_same_rest; eauto.
    + pose proof (set_offset_spec (set_obs s (fupd (s_obs s) vb ob')) vb o true) as R.
      destruct (set_offset _ vb o true) as [s' outs]. cbn [fst]. destruct R as [R _]. eapply NilClosed_same_rest; eauto.
    + exact H1.
  - destruct (nth_error (s_ctxs s) i) as [[vb o]|]; [|exact H].
    pose proof (set_offset_spec s vb o true) as R. destruct (set_offset s vb o true) as [s' outs]. cbn [fst]. destruct R as [R _].
    eapply (NilClosed_same_rest s'); [unfold same_rest; cbn; repeat split|]. eapply NilClosed_same_rest; eauto.
  - pose proof (save_step_core s SaveBegin eq_refl) as C. unfold step in C. rewrite F in C. eapply NilClosed_core; eauto.
  - pose proof (save_step_core s SaveQueue eq_refl) as C. unfold step in C. rewrite F in C. eapply NilClosed_core; eauto.
  - pose proof (save_step_core s (SaveWrite vb) eq_refl) as C. unfold step in C. rewrite F in C. eapply NilClosed_core; eauto.
  - pose proof (save_step_core s (SaveEnd ok) eq_refl) as C. unfold step in C. rewrite F in C. eapply NilClosed_core; eauto.
  - unfold NilClosed; cbn. intros _. split; [reflexivity|discriminate].
  - destruct (s_obs_nil s); exact H.
  - destruct (s_obs s vb) as [ob|] eqn:E; [|exact H]. destruct (ob_end_closed ob) eqn:EC; [exact H|].
    assert (NN : s_obs_nil s = false).
    { destruct (s_obs_nil s) eqn:N; [|reflexivity]. destruct (H N) as [_ B]. destruct (B vb ob E) as [_ X]. congruence. }
    assert (G : forall s', s_obs_nil s' = s_obs_nil s -> NilClosed s') by (intros s' Hs N; congruence).
    destruct c; cbn [fst]; try (apply G; reflexivity).
    destruct (s_cancel s); [apply G; reflexivity|]. destruct (s_offs s vb); apply G; reflexivity.
Qed.

Lemma NilClosed_run ops : forall s, NilClosed s -> NilClosed (fst (run s ops)).
Proof.
  induction ops as [|o r IH]; intros s H; [exact H|]. cbn [run].
  pose proof (NilClosed_step s o H) as H1. destruct (step s o) as [s1 o1]. cbn [fst] in H1.
  specialize (IH s1 H1). destruct (run s1 r) as [s2 o2]. exact IH.
Qed.

(* Close() after a rebalance has closed the stream and before it has reopened it: the reopen is cancelled, there is nothing
   left to close, the agents are closed and Start() returns (repaired defect K4) *)
Theorem shutdown_window l r1 r2 :
  s_failed (l_s l) = false -> l_down l = false -> s_obs_nil (l_s l) = true -> NilClosed (l_s l) ->
  let l' := fst (shutdown l r1 r2) in
  let outs := snd (shutdown l r1 r2) in
  Quiet (l_s l') /\ s_failed (l_s l') = false /\ l_down l' = true /\ l_dcp l' = false /\ l_cli l' = false /\
  (exists pre, outs = pre ++ [DcpClose; CliClose; Returned] /\ forall x, In x pre -> no_delivery x /\ x <> Died) /\
  ~ In Died outs.
Proof.
  intros F D N NC. unfold shutdown. rewrite D, F. cbn [orb].
  set (fs := if l_auto l then final_save (l_s l) r1 r2 else (l_s l, [])).
  assert (C : core_same (l_s l) (fst fs)).
  { unfold fs. destruct (l_auto l); [apply final_save_core|apply core_same_refl]. }
  assert (O : forallb quiet_out (snd fs) = true).
  { unfold fs. destruct (l_auto l); [apply final_save_quiet|reflexivity]. }
  destruct fs as [s1 o1]. cbn [fst snd] in *.
  pose proof (NilClosed_core _ _ C NC) as NC1.
  destruct C as (_ & _ & _ & _ & Cn & _ & _ & _ & _ & _ & _ & _ & _ & _ & Cf).
  assert (N1 : s_obs_nil s1 = true) by congruence. rewrite N1. cbn [fst snd l_s l_down l_dcp l_cli].
  destruct (NC1 N1) as [Op Ob].
  assert (NP : forall x, In x (souts o1) -> no_delivery x /\ x <> Died).
  { intros x Hx. apply in_souts in Hx. destruct Hx as (y & -> & Hy). split; [|discriminate].
    rewrite forallb_forall in O. specialize (O y Hy). destruct y; try exact I; discriminate. }
  split; [constructor; assumption|]. split; [congruence|]. repeat (split; [reflexivity|]).
  split; [exists (souts o1); split; [reflexivity|exact NP]|].
  intros H. apply in_app_or in H. destruct H as [H|H]; [now destruct (NP _ H)|cbn in H; intuition discriminate].
Qed.

(* every reachable state of the stream core is of one of the two kinds: while a rebalance is under way the
   observer map is cleared *)
Lemma set_end_fields s a fe st :
  s_balancing (set_end s a fe st) = s_balancing s /\ s_obs_nil (set_end s a fe st) = s_obs_nil s.
Proof. split; reflexivity. Qed.

Theorem bal_nil_step s o :
  (s_balancing s = true -> s_obs_nil s = true) ->
  s_balancing (fst (step s o)) = true -> s_obs_nil (fst (step s o)) = true.
Proof.
  intros H. unfold step. destruct (s_failed s) eqn:F; [exact H|].
  destruct o as [first last sv| |first last sv|cancel|vb e|i| | |vb|ok| |high|vb c uuid roll].
  - destruct (s_open s || s_balancing s) eqn:E; [exact H|].
    apply orb_false_iff in E. destruct E as [_ E].
    destruct (do_open s first last sv) as [[s' outs]|] eqn:EO; cbn [fst].
    + unfold do_open in EO. destruct (load_all _ _ _ _ _ _) as [[[a b] c0]|]; [|discriminate].
      injection EO as <- _. cbn. congruence.
    + cbn. congruence.
  - destruct (negb (s_open s) || s_balancing s); [exact H|]. cbn. reflexivity.
  - destruct (negb (s_balancing s) || s_open s); [exact H|].
    destruct (do_open s first last sv) as [[s' outs]|] eqn:EO; cbn [fst].
    + cbn. discriminate.
    + cbn. exact H.
  - destruct (s_obs_nil s || s_balancing s); [exact H|]. cbn.
    match goal with |- context [if ?b then _ else _] => destruct b end; cbn; reflexivity.
  - destruct (s_obs s vb) as [ob|]; [|exact H]. destruct (obs_event (s_cfg s) ob e) as [ob' f].
    destruct f as [|k it o coll t|o|]; cbn [fst]; try exact H.
    + destruct (is_meta (i_key it)); [|exact H].
      pose proof (set_offset_spec (set_obs s (fupd (s_obs s) vb ob')) vb o false) as R.
      destruct (set_offset _ vb o false) as [s' outs]. cbn [fst]. destruct R as [(_ & _ & _ & Rn & _ & Rb & _) _].
      cbn in Rn, Rb. rewrite Rn, Rb. exact H.
    + pose proof (set_offset_spec (set_obs s (fupd (s_obs s) vb ob')) vb o true) as R.
      destruct (set_offset _ vb o true) as [s' outs]. cbn [fst]. destruct R as [(_ & _ & _ & Rn & _ & Rb & _) _].
      cbn in Rn, Rb. rewrite Rn, Rb. exact H.
  - destruct (nth_error (s_ctxs s) i) as [[vb o]|]; [|exact H].
    pose proof (set_offset_spec s vb o true) as R.
    destruct (set_offset s vb o true) as [s' outs]. cbn [fst]. destruct R as [(_ & _ & _ & Rn & _ & Rb & _) _].
    cbn. rewrite Rn, Rb. exact H.
  - pose proof (save_step_core s SaveBegin eq_refl) as C. unfold step in C. rewrite F in C.
    destruct C as (_ & _ & _ & _ & Cn & _ & Cb & _). rewrite Cn, Cb. exact H.
  - pose proof (save_step_core s SaveQueue eq_refl) as C. unfold step in C. rewrite F in C.
    destruct C as (_ & _ & _ & _ & Cn & _ & Cb & _). rewrite Cn, Cb. exact H.
  - pose proof (save_step_core s (SaveWrite vb) eq_refl) as C. unfold step in C. rewrite F in C.
    destruct C as (_ & _ & _ & _ & Cn & _ & Cb & _). rewrite Cn, Cb. exact H.
  - pose proof (save_step_core s (SaveEnd ok) eq_refl) as C. unfold step in C. rewrite F in C.
    destruct C as (_ & _ & _ & _ & Cn & _ & Cb & _). rewrite Cn, Cb. exact H.
  - cbn. discriminate.
  - destruct (s_obs_nil s) eqn:E; cbn [fst]; [intros _; exact E|rewrite E; exact H].
  - destruct (s_obs s vb) as [ob|]; [|exact H]. destruct (ob_end_closed ob); [exact H|].
    destruct c; cbn [fst]; try exact H.
    destruct (s_cancel s); [exact H|]. destruct (s_offs s vb); cbn; exact H.
Qed.

Theorem bal_nil_run ops : forall s,
  (s_balancing s = true -> s_obs_nil s = true) ->
  s_balancing (fst (run s ops)) = true -> s_obs_nil (fst (run s ops)) = true.
Proof.
  induction ops as [|o r IH]; intros s H; [exact H|]. cbn [run].
  pose proof (bal_nil_step s o H) as H1. destruct (step s o) as [s1 o1]. cbn [fst] in H1.
  specialize (IH s1 H1). destruct (run s1 r) as [s2 o2]. exact IH.
Qed.

(* ---------- over histories ---------- *)
(* the lifecycle state reached by Start() followed by a history of stream-core ops *)
Definition reached (c : cfg) (auto : bool) (st0 : fmap doc) (h : list op) : lstate :=
  L (fst (run (init_state c st0) h)) auto true true false.

Lemma reached_balancing c auto st0 h :
  s_obs_nil (l_s (reached c auto st0 h)) = false -> s_balancing (l_s (reached c auto st0 h)) = false.
Proof.
  cbn [reached l_s]. intros N. destruct (s_balancing (fst (run (init_state c st0) h))) eqn:B; [|reflexivity].
  rewrite (bal_nil_run h (init_state c st0)) in N; [discriminate|cbn; discriminate|exact B].
Qed.

Theorem clean_from_every_streaming_state c auto st0 h r1 r2 :
  let l := reached c auto st0 h in
  s_failed (l_s l) = false -> s_obs_nil (l_s l) = false ->
  let l' := fst (shutdown l r1 r2) in
  let outs := snd (shutdown l r1 r2) in
  Quiet (l_s l') /\ s_failed (l_s l') = false /\ l_down l' = true /\ l_dcp l' = false /\ l_cli l' = false /\
  (forall vb o, in_range (s_range (l_s l)) vb = true -> s_offs (l_s l) vb = Some o -> In (SOut (CloseReq vb)) outs) /\
  (exists pre, outs = pre ++ [DcpClose; CliClose; Returned] /\ ~ In Died pre /\ ~ In DcpClose pre /\ ~ In CliClose pre /\
               forall x, In x pre -> no_delivery x) /\
  ~ In Died outs.
Proof.
  intros l F N. apply shutdown_streaming; auto. now apply reached_balancing.
Qed.

Theorem silent_from_every_streaming_state c auto st0 h r1 r2 late :
  let l := reached c auto st0 h in
  s_failed (l_s l) = false -> s_obs_nil (l_s l) = false -> forallb late_lop late = true ->
  forall outs x, In outs (snd (lrun (fst (shutdown l r1 r2)) late)) -> In x outs -> no_delivery x.
Proof.
  intros l F N HL. apply silent_after_shutdown; auto. now apply reached_balancing.
Qed.

Theorem durable_from_every_streaming_state c st0 h r1 :
  (forall v d, st0 v = Some d -> valid_doc d) ->
  let l := reached c true st0 h in
  let s := l_s l in
  s_failed s = false -> s_obs_nil s = false -> s_queued s = 0%nat ->
  let l' := fst (shutdown l r1 true) in
  (forall vb o, vb <= 1023 -> in_range (s_range s) vb = true -> s_dirty s vb = Some true ->
     s_offs s vb = Some o -> s_store (l_s l') vb = Some (doc_of o)) /\
  (forall dump dl vb, s_inflight s = Some (dump, dl) -> In vb dl ->
     (r1 = true -> s_dirty s vb <> Some true -> forall d, lookup_doc dump vb = Some d -> s_store (l_s l') vb = Some d) /\
     (r1 = false -> vb <= 1023 -> in_range (s_range s) vb = true -> forall o, s_offs s vb = Some o ->
        s_store (l_s l') vb = Some (doc_of o))) /\
  s_any_dirty (l_s l') = false /\ s_inflight (l_s l') = None /\
  snd (step (l_s l') SaveBegin) = [NoSave].
Proof.
  intros V l s F N Q. apply shutdown_durable; auto; [now apply reached_balancing|].
  cbn [reached l_s l]. apply Inv_run. now apply Inv_init.
Qed.

Lemma NilClosed_init c st : NilClosed (init_state c st).
Proof. unfold NilClosed; cbn. intros _. split; [reflexivity|discriminate]. Qed.

Theorem clean_from_every_window_state c auto st0 h r1 r2 :
  let l := reached c auto st0 h in
  s_failed (l_s l) = false -> s_obs_nil (l_s l) = true ->
  let l' := fst (shutdown l r1 r2) in
  let outs := snd (shutdown l r1 r2) in
  Quiet (l_s l') /\ s_failed (l_s l') = false /\ l_down l' = true /\ l_dcp l' = false /\ l_cli l' = false /\
  (exists pre, outs = pre ++ [DcpClose; CliClose; Returned] /\ forall x, In x pre -> no_delivery x /\ x <> Died) /\
  ~ In Died outs.
Proof.
  intros l F N. apply shutdown_window; auto. cbn [reached l_s l]. apply NilClosed_run, NilClosed_init.
Qed.

(* from every reachable state that has not failed, whatever still arrives after the teardown reaches nobody *)
Theorem silent_from_every_state c auto st0 h r1 r2 late :
  let l := reached c auto st0 h in
  s_failed (l_s l) = false -> forallb late_lop late = true ->
  forall outs x, In outs (snd (lrun (fst (shutdown l r1 r2)) late)) -> In x outs -> no_delivery x.
Proof.
  intros l F HL. destruct (s_obs_nil (l_s l)) eqn:N.
  - destruct (clean_from_every_window_state c auto st0 h r1 r2 F N) as (Q & _ & D & _). apply quiet_lrun; assumption.
  - apply silent_from_every_streaming_state; assumption.
Qed.
