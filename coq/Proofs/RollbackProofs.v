From Verif Require Import Base.Prelude Model.Rollback.
Local Open Scope N_scope.

(* what a non-zero minimum means: every present copy is on one vbUUID and has persisted at least that much *)
Definition covered (rows : list row) (u m : N) : Prop :=
  Forall (fun r => r_absent r = true \/ (r_uuid r = u /\ m <= r_seq r)) rows.

Lemma min_rest_spec u rows : forall m, min_rest u m rows <> 0 ->
  min_rest u m rows <= m /\ covered rows u (min_rest u m rows).
Proof.
  induction rows as [|r l IH]; intros m H; cbn in *; [split; [lia|constructor]|].
  destruct (r_absent r) eqn:Ea.
  - destruct (IH m H) as [Hle Hc]. split; [exact Hle|]. constructor; [now left|exact Hc].
  - destruct (N.eqb_spec u (r_uuid r)) as [Eu|Nu]; cbn [negb] in *; [|now elim H].
    destruct (IH _ H) as [Hle Hc]. split.
    + destruct (N.ltb_spec (r_seq r) m); lia.
    + constructor; [|exact Hc]. right. split; [congruence|]. destruct (N.ltb_spec (r_seq r) m); lia.
Qed.

Lemma min_seq_spec rows : min_seq rows <> 0 ->
  exists u, covered rows u (min_seq rows) /\ exists r, In r rows /\ r_absent r = false /\ r_uuid r = u.
Proof.
  induction rows as [|r l IH]; cbn; [intros H; now elim H|].
  destruct (r_absent r) eqn:Ea.
  - intros H. destruct (IH H) as (u & Hc & r' & Hin & Ha & Hu). exists u. split; [constructor; [now left|exact Hc]|].
    exists r'. auto.
  - intros H. destruct (min_rest_spec (r_uuid r) l (r_seq r) H) as [Hle Hc]. exists (r_uuid r). split.
    + constructor; [right; split; [reflexivity|exact Hle]|exact Hc].
    + exists r. auto.
Qed.

(* disagreement on the vbUUID among present copies gives 0 *)
Lemma min_seq_mismatch rows r1 r2 :
  In r1 rows -> In r2 rows -> r_absent r1 = false -> r_absent r2 = false -> r_uuid r1 <> r_uuid r2 -> min_seq rows = 0.
Proof.
  intros H1 H2 A1 A2 Hne. destruct (N.eq_dec (min_seq rows) 0) as [E|E]; [exact E|].
  destruct (min_seq_spec rows E) as (u & Hc & _). unfold covered in Hc. rewrite Forall_forall in Hc.
  destruct (Hc r1 H1) as [X|[X _]]; [congruence|]. destruct (Hc r2 H2) as [Y|[Y _]]; [congruence|]. congruence.
Qed.

(* ---- the threshold ---- *)
Lemma set_persist_mono t m : t <= set_persist t m.
Proof. unfold set_persist. destruct (m =? 0); [lia|]. destruct (N.ltb_spec t m); lia. Qed.

Lemma set_persist_cases t m : set_persist t m = t \/ (set_persist t m = m /\ m <> 0).
Proof. unfold set_persist. destruct (N.eqb_spec m 0); [now left|]. destruct (N.ltb_spec t m); auto. Qed.

Lemma g_step_thr_mono g o : g_thr g <= g_thr (fst (g_step g o)).
Proof.
  destruct o as [q|idx u s| |]; cbn.
  - destruct (g_waiting g); cbn; [lia|]. destruct ((q <=? g_thr g) || g_closed g); cbn; lia.
  - destruct (report (g_rows g) idx u s) as [rows' [m|]]; cbn; [apply set_persist_mono|lia].
  - destruct (g_waiting g) as [q|]; cbn; [|lia]. destruct ((q <=? g_thr g) || g_closed g); cbn; lia.
  - lia.
Qed.

(* the threshold is 0 or was, at some earlier moment, the minimum over the copies listed then *)
Definition justified (g : gate) (hist : list (list row)) : Prop :=
  g_thr g = 0 \/ exists rows, In rows hist /\ min_seq rows = g_thr g.

Lemma g_step_justified g o hist :
  justified g hist -> justified (fst (g_step g o)) (g_rows (fst (g_step g o)) :: hist).
Proof.
  intros J. assert (Keep : justified g (g_rows (fst (g_step g o)) :: hist)).
  { destruct J as [Z|(rows & Hin & E)]; [now left|right; exists rows; split; [now right|exact E]]. }
  destruct o as [q|idx u s| |]; cbn in *.
  - destruct (g_waiting g); [exact Keep|]. destruct ((q <=? g_thr g) || g_closed g); exact Keep.
  - unfold report in *. destruct (nth_error (g_rows g) idx) as [r|]; [|exact Keep].
    destruct (negb (r_absent r) && (negb (r_uuid r =? u) || negb (r_seq r =? s))); [|exact Keep].
    cbn in *. destruct (set_persist_cases (g_thr g) (min_seq (set_row (g_rows g) idx u s))) as [E|[E _]]; unfold justified; cbn; rewrite E.
    + destruct J as [Z|(rows & Hin & E')]; [now left|right; exists rows; split; [now right|exact E']].
    + right. eexists. split; [now left|reflexivity].
  - destruct (g_waiting g) as [q|]; [|exact Keep]. destruct ((q <=? g_thr g) || g_closed g); exact Keep.
  - exact Keep.
Qed.

(* an event is delivered only under the threshold *)
Lemma g_step_delivered g o q : In (GDelivered q) (snd (g_step g o)) -> q <= g_thr g /\ g_closed g = false.
Proof.
  destruct g as [rows t cl w]. destruct o as [q'|idx u s| |]; cbn.
  - destruct w; cbn; [intros [H|[]]; discriminate|].
    destruct (N.leb_spec q' t) as [Hle|Hgt], cl; cbn; try contradiction; intros [E|[]]; try discriminate; injection E as ->; auto.
  - destruct (report rows idx u s) as [rows' d]. cbn. contradiction.
  - destruct w as [q'|]; cbn; [|contradiction].
    destruct (N.leb_spec q' t) as [Hle|Hgt], cl; cbn; try contradiction; intros [E|[]]; try discriminate; injection E as ->; auto.
  - contradiction.
Qed.

(* no lost wake-up: once the threshold covers the waiting event, the next poll delivers it *)
Lemma poll_delivers g q : g_waiting g = Some q -> q <= g_thr g -> g_closed g = false ->
  snd (g_step g GPoll) = [GDelivered q] /\ g_waiting (fst (g_step g GPoll)) = None.
Proof. intros W H C. cbn. rewrite W, C. apply N.leb_le in H. rewrite H. cbn. auto. Qed.

(* while not covered and not closed, it stays held: nothing is delivered *)
Lemma poll_waits g q : g_waiting g = Some q -> g_thr g < q -> g_closed g = false -> g_step g GPoll = (g, []).
Proof. intros W H C. cbn. rewrite W, C. apply N.leb_gt in H. rewrite H. reflexivity. Qed.

(* closing releases a waiting event without delivering it *)
Lemma close_releases g q : g_waiting g = Some q ->
  let g1 := fst (g_step g GClose) in
  snd (g_step g1 GPoll) = [GDropped q] /\ g_waiting (fst (g_step g1 GPoll)) = None.
Proof. intros W. cbn. rewrite W. rewrite orb_true_r. cbn. auto. Qed.

(* --- the order on cluster-map revisions --- *)
Local Open Scope Z_scope.

Definition lex_lt (a b : Z * Z) : Prop := fst a < fst b \/ (fst a = fst b /\ snd a < snd b).

Lemma config_newer_lex : forall old new, config_newer old new = true <-> lex_lt old new.
Proof.
  intros [oe orv] [ne nr]. unfold config_newer, lex_lt. cbn [fst snd].
  destruct (Z.ltb_spec ne oe) as [L1|L1].
  - split; [discriminate|]. intros [H|[H _]]; lia.
  - destruct (Z.eqb_spec ne oe) as [E|E].
    + destruct (Z.eqb_spec nr orv) as [E2|E2].
      * split; [discriminate|]. intros [H|[_ H]]; lia.
      * destruct (Z.ltb_spec nr orv) as [L2|L2].
        -- split; [discriminate|]. intros [H|[_ H]]; lia.
        -- split; [intros _; right; lia|reflexivity].
    + split; [intros _; left; lia|reflexivity].
Qed.

Lemma config_newer_irrefl : forall a, config_newer a a = false.
Proof.
  intros a. destruct (config_newer a a) eqn:E; [|reflexivity].
  apply config_newer_lex in E. destruct E as [H|[_ H]]; lia.
Qed.

Lemma config_newer_trans : forall a b c, config_newer a b = true -> config_newer b c = true -> config_newer a c = true.
Proof.
  intros a b c H1 H2. apply config_newer_lex in H1. apply config_newer_lex in H2. apply config_newer_lex.
  unfold lex_lt in *. lia.
Qed.

Lemma config_newer_total : forall a b, a <> b -> config_newer a b = true \/ config_newer b a = true.
Proof.
  intros [a1 a2] [b1 b2] N. rewrite !config_newer_lex. unfold lex_lt. cbn [fst snd].
  destruct (Z.lt_trichotomy a1 b1) as [L|[E|L]]; [left; left; exact L| |right; left; exact L].
  destruct (Z.lt_trichotomy a2 b2) as [L|[E2|L]]; [left; right; split; assumption| |right; right; split; [symmetry|]; assumption].
  exfalso. apply N. subst. reflexivity.
Qed.
