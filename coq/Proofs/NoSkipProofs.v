(* C01 clause (b), the part that holds: within a session, under the delivery discipline that excludes the
   finding K1 (nothing is absorbed for a vBucket while one of its deliveries waits for its acknowledgement) and
   with acknowledgements in delivery order per vBucket, the tracked position -- and with it everything a save
   dumps and everything in the store -- stays strictly below every delivered-but-unacknowledged event. *)
From Verif Require Import Base.Prelude Base.Bytes Model.Stream Proofs.StreamProofs.
Local Open Scope N_scope.

(* ghost: per vBucket the deliveries that wait for their acknowledgement, oldest first: (context index, seqno) *)
Definition ghost := N -> list (nat * N).
Definition gempty : ghost := fun _ => [].
Definition gupd (g : ghost) (vb : N) (l : list (nat * N)) : ghost := fun v => if v =? vb then l else g v.

Definition queued (i : nat) (l : list (nat * N)) : bool := existsb (fun p => Nat.eqb (fst p) i) l.
Definition below (l : list (nat * N)) (x : N) : bool := forallb (fun p => snd p <? x) l.

(* the discipline, checked along the run: None = the history leaves it *)
Definition gstep (s : sstate) (g : ghost) (o : op) : option ghost :=
  if s_failed s then Some g else
  match o with
  | Deliver vb e =>
      match s_obs s vb with
      | None => Some g
      | Some ob =>
          match snd (obs_event (s_cfg s) ob e) with
          | FNone | FFail => Some g
          | FAdvance _ => match g vb with [] => Some g | _ => None end       (* absorbed while a delivery is outstanding *)
          | FDoc _ it x _ _ =>
              if is_meta (i_key it) then match g vb with [] => Some g | _ => None end
              else
                (* the server sends increasing sequence numbers *)
                if below (g vb) (o_seq x) && match s_offs s vb with Some cur => o_seq cur <? o_seq x | None => true end
                then Some (gupd g vb (g vb ++ [(length (s_ctxs s), o_seq x)]))
                else None
          end
      end
  | Ack i =>
      match nth_error (s_ctxs s) i with
      | None => Some g
      | Some (vb, _) =>
          match g vb with
          | (j, _) :: rest => if Nat.eqb i j then Some (gupd g vb rest) else if queued i rest then None else Some g
          | [] => Some g
          end
      end
  | SaveBegin | SaveQueue | SaveWrite _ | SaveEnd _ | Scrape _ => Some g
  | _ => None
  end.

Fixpoint grun (s : sstate) (g : ghost) (ops : list op) : option ghost :=
  match ops with
  | [] => Some g
  | o :: r => match gstep s g o with Some g1 => grun (fst (step s o)) g1 r | None => None end
  end.

Fixpoint incr (l : list N) : Prop :=
  match l with a :: ((b :: _) as r) => a < b /\ incr r | _ => True end.

Lemma incr_all a r : incr (a :: r) -> forall x, In x r -> a < x.
Proof.
  revert a. induction r as [|b r IH]; intros a H x Hx; [contradiction|].
  cbn in H. destruct H as [Hab Hr]. destruct Hx as [<-|Hx]; [exact Hab|].
  specialize (IH b Hr x Hx). lia.
Qed.

Lemma incr_tail a r : incr (a :: r) -> incr r.
Proof. destruct r; cbn; tauto. Qed.

Lemma incr_snoc l x : incr l -> (forall y, In y l -> y < x) -> incr (l ++ [x]).
Proof.
  induction l as [|a r IH]; intros H Hx; [exact I|].
  destruct r as [|b r']; cbn.
  - split; [apply Hx; now left|exact I].
  - cbn in H. destruct H as [Hab Hr]. split; [exact Hab|]. apply IH; [exact Hr|]. intros y Hy. apply Hx. now right.
Qed.

Record GI (s : sstate) (g : ghost) : Prop := {
  gi_ctx : forall vb i q, In (i, q) (g vb) -> exists o, nth_error (s_ctxs s) i = Some (vb, o) /\ o_seq o = q;
  gi_sorted : forall vb, incr (map snd (g vb));
  (* the tracked position is strictly below every outstanding delivery *)
  gi_front : forall vb cur i q, s_offs s vb = Some cur -> In (i, q) (g vb) -> o_seq cur < q;
  (* a context that is not waiting has been acknowledged: the position has passed it (or it is foreign) *)
  gi_done : forall i vb o, nth_error (s_ctxs s) i = Some (vb, o) ->
            queued i (g vb) = true \/ in_range (s_range s) vb = false \/ exists cur, s_offs s vb = Some cur /\ o_seq o <= o_seq cur;
  gi_assigned : forall vb, in_range (s_range s) vb = true -> exists cur, s_offs s vb = Some cur;
  (* nothing stored or being stored is ahead of the tracked position *)
  gi_store : forall vb d cur, s_store s vb = Some d -> s_offs s vb = Some cur -> d_seq d <= o_seq cur;
  gi_infl : forall dump dl vb d cur, s_inflight s = Some (dump, dl) -> lookup_doc dump vb = Some d ->
            s_offs s vb = Some cur -> d_seq d <= o_seq cur;
  gi_open : s_obs_nil s = false    (* the session is running *)
}.

(* GI looks at six fields only *)
Lemma GI_proj s s' g :
  GI s g -> s_ctxs s' = s_ctxs s -> s_offs s' = s_offs s -> s_range s' = s_range s -> s_store s' = s_store s ->
  s_inflight s' = s_inflight s -> s_obs_nil s' = s_obs_nil s -> GI s' g.
Proof.
  intros [A B C D E F G Op] H1 H2 H3 H4 H5 H6. constructor; rewrite ?H1, ?H2, ?H3, ?H4, ?H5, ?H6; auto.
Qed.

Lemma queued_in i l : queued i l = true <-> exists q, In (i, q) l.
Proof.
  unfold queued. rewrite existsb_exists. split.
  - intros ((j, q) & Hin & E). cbn in E. apply Nat.eqb_eq in E. subst. eauto.
  - intros (q & Hin). exists (i, q). split; [exact Hin|cbn; apply Nat.eqb_refl].
Qed.

Lemma gupd_same g vb l : gupd g vb l vb = l.
Proof. unfold gupd. now rewrite N.eqb_refl. Qed.
Lemma gupd_other g vb l v : v <> vb -> gupd g vb l v = g v.
Proof. intros H. unfold gupd. now apply N.eqb_neq in H as ->. Qed.

(* moving the position of vb to x, where x is at or above the old position and strictly below everything in l *)
Lemma GI_set_offset s g vb x d l :
  GI s g -> (forall i q, In (i, q) l -> In (i, q) (g vb)) -> incr (map snd l) ->
  (forall i q, In (i, q) l -> o_seq x < q) ->
  (* whatever leaves the queue is covered by the new position *)
  (forall i q, In (i, q) (g vb) -> In (i, q) l \/ q <= o_seq x) ->
  GI (fst (set_offset s vb x d)) (gupd g vb l).
Proof.
  intros [A B C D E F G Op] Hsub Hinc Hlow Hcov.
  pose proof (set_offset_spec s vb x d) as H. destruct (set_offset s vb x d) as [s' outs]. cbn [fst].
  destruct H as [R H].
  destruct R as (_ & Rr & _ & Rn & _ & _ & _ & _ & _ & _ & _ & _ & Rc & Ri & Rs & _).
  assert (Offs : forall v, s_offs s' v = if accepts s vb x then fupd (s_offs s) vb x v else s_offs s v).
  { intros v. destruct (accepts s vb x); [destruct H as (_ & -> & _); reflexivity|destruct H as [_ ->]; reflexivity]. }
  assert (Mono : forall v cur', s_offs s' v = Some cur' -> exists cur, s_offs s v = Some cur /\ o_seq cur <= o_seq cur' \/ (v = vb /\ cur' = x)).
  { intros v cur' Hc. rewrite Offs in Hc. destruct (accepts s vb x) eqn:Acc; [|exists cur'; left; split; [exact Hc|lia]].
    apply fupd_cases in Hc. destruct Hc as [[-> ->]|[Hne Hc]]; [exists x; right; auto|exists cur'; left; split; [exact Hc|lia]]. }
  constructor.
  - intros v i q Hin. rewrite Rc. destruct (N.eq_dec v vb) as [->|Hne].
    + rewrite gupd_same in Hin. apply A. now apply Hsub.
    + rewrite gupd_other in Hin by exact Hne. now apply A.
  - intros v. destruct (N.eq_dec v vb) as [->|Hne]; [now rewrite gupd_same|rewrite gupd_other by exact Hne; apply B].
  - intros v cur i q Hc Hin. rewrite Offs in Hc. destruct (N.eq_dec v vb) as [->|Hne].
    + rewrite gupd_same in Hin. destruct (accepts s vb x).
      * rewrite fupd_same in Hc. injection Hc as <-. eapply Hlow; eauto.
      * eapply C; eauto.
    + rewrite gupd_other in Hin by exact Hne. destruct (accepts s vb x); [rewrite fupd_other in Hc by exact Hne|]; eapply C; eauto.
  - intros i v o Hn. rewrite Rc in Hn. rewrite Rr. destruct (D i v o Hn) as [Q|[Q|(cur & Hc & Hle)]].
    + destruct (N.eq_dec v vb) as [->|Hne]; [|left; now rewrite gupd_other by exact Hne].
      rewrite gupd_same. apply queued_in in Q. destruct Q as [q Q].
      destruct (A vb i q Q) as (o' & Hn' & Hq). rewrite Hn in Hn'. injection Hn' as <-.
      destruct (Hcov i q Q) as [Hl|Hl]; [left; apply queued_in; eauto|].
      destruct (in_range (s_range s) vb) eqn:Rg; [|right; left; reflexivity].
      right. right. rewrite Offs. unfold accepts, accepts_open. rewrite Op, Rg. cbn [negb andb].
      destruct (E vb Rg) as [cur Hc]. rewrite Hc.
      destruct (o_seq x <? o_seq cur) eqn:Lt; cbn [negb].
      * apply N.ltb_lt in Lt. exists cur. split; [reflexivity|]. specialize (C vb cur i q Hc Q). lia.
      * rewrite fupd_same. exists x. split; [reflexivity|lia].
    + right. left. exact Q.
    + right. right. rewrite Offs. destruct (accepts s vb x) eqn:Acc; [|eauto].
      destruct (N.eq_dec v vb) as [->|Hne]; [|rewrite fupd_other by exact Hne; eauto].
      rewrite fupd_same. exists x. split; [reflexivity|]. apply accepts_true in Acc. destruct Acc as (_ & _ & Acc).
      rewrite Hc in Acc. lia.
  - intros v Rg. rewrite Rr in Rg. destruct (E v Rg) as [cur Hc]. rewrite Offs.
    destruct (accepts s vb x); [|eauto]. destruct (N.eq_dec v vb) as [->|Hne]; [rewrite fupd_same; eauto|rewrite fupd_other by exact Hne; eauto].
  - intros v dd cur' Hs Hc. rewrite Rs in Hs. destruct (Mono v cur' Hc) as (cur & [[Hc0 Hle]|[-> ->]]).
    + specialize (F v dd cur Hs Hc0). lia.
    + (* the position was moved to x: accepted, so x is at or above the old one *)
      rewrite Offs in Hc. destruct (accepts s vb x) eqn:Acc.
      * apply accepts_true in Acc. destruct Acc as (_ & Rg & Acc).
        destruct (E vb Rg) as [c0 Hc0]. rewrite Hc0 in Acc.
        specialize (F vb dd c0 Hs Hc0). lia.
      * eapply F; eauto.
  - intros dump dl v dd cur' Hi Hl Hc. rewrite Ri in Hi. destruct (Mono v cur' Hc) as (cur & [[Hc0 Hle]|[-> ->]]).
    + specialize (G dump dl v dd cur Hi Hl Hc0). lia.
    + rewrite Offs in Hc. destruct (accepts s vb x) eqn:Acc.
      * apply accepts_true in Acc. destruct Acc as (_ & Rg & Acc).
        destruct (E vb Rg) as [c0 Hc0]. rewrite Hc0 in Acc.
        specialize (G dump dl vb dd c0 Hi Hl Hc0). lia.
      * eapply G; eauto.
  - congruence.
Qed.

Lemma GI_ext s g g' : (forall v, g v = g' v) -> GI s g -> GI s g'.
Proof.
  intros E [A B C D F G H Op]. constructor; intros; rewrite <- ?E in *; eauto.
Qed.

Lemma gupd_id g vb : forall v, gupd g vb (g vb) v = g v.
Proof. intros v. unfold gupd. destruct (N.eqb_spec v vb) as [->|]; reflexivity. Qed.

Lemma GI_save_body s g : GI s g -> GI (fst (save_body s)) g.
Proof.
  intros [A B C D E F G Op]. unfold save_body; cbn [fst]. constructor; cbn; auto.
  intros dump dl vb d cur [= <- <-] Hl Hc. apply lookup_dump_of in Hl. destruct Hl as (o & Ho & ->).
  rewrite Hc in Ho. injection Ho as <-. cbn. lia.
Qed.

Lemma GI_drain q : forall s g, GI s g -> GI (fst (drain q s)) g.
Proof.
  intros s g H. apply (drain_preserves (fun x => GI x g)); [| |exact H].
  - intros x n Hx. eapply GI_proj; eauto.
  - intros x Hx. now apply GI_save_body.
Qed.

(* a document is handed to the consumer: it joins the queue of its vBucket *)
Lemma GI_consume s g vb x :
  GI s g -> below (g vb) (o_seq x) = true ->
  (forall cur, s_offs s vb = Some cur -> o_seq cur < o_seq x) ->
  GI (set_ctxs s (s_ctxs s ++ [(vb, x)])) (gupd g vb (g vb ++ [(length (s_ctxs s), o_seq x)])).
Proof.
  intros [A B C D E F G Op] Hb Hc.
  assert (Hb' : forall i q, In (i, q) (g vb) -> q < o_seq x).
  { intros i q Hin. unfold below in Hb. rewrite forallb_forall in Hb. specialize (Hb _ Hin). cbn in Hb. now apply N.ltb_lt in Hb. }
  constructor; cbn [s_ctxs s_offs s_range s_store s_inflight set_ctxs].
  - intros v i q Hin. destruct (N.eq_dec v vb) as [->|Hne].
    + rewrite gupd_same in Hin. apply in_app_or in Hin. destruct Hin as [Hin|[[= <- <-]|[]]].
      * destruct (A vb i q Hin) as (o & Hn & Hq). exists o. split; [|exact Hq].
        rewrite nth_error_app1; [exact Hn|]. apply nth_error_Some. congruence.
      * exists x. split; [|reflexivity]. rewrite nth_error_app2 by lia. now rewrite Nat.sub_diag.
    + rewrite gupd_other in Hin by exact Hne. destruct (A v i q Hin) as (o & Hn & Hq). exists o. split; [|exact Hq].
      rewrite nth_error_app1; [exact Hn|]. apply nth_error_Some. congruence.
  - intros v. destruct (N.eq_dec v vb) as [->|Hne]; [|rewrite gupd_other by exact Hne; apply B].
    rewrite gupd_same, map_app. cbn [map]. apply incr_snoc; [apply B|].
    intros y Hy. apply in_map_iff in Hy. destruct Hy as ((i, q) & <- & Hin). cbn. eapply Hb'; eauto.
  - intros v cur i q Hcur Hin. destruct (N.eq_dec v vb) as [->|Hne].
    + rewrite gupd_same in Hin. apply in_app_or in Hin. destruct Hin as [Hin|[[= <- <-]|[]]]; [eapply C; eauto|now apply Hc].
    + rewrite gupd_other in Hin by exact Hne. eapply C; eauto.
  - intros i v o Hn. destruct (Nat.lt_ge_cases i (length (s_ctxs s))) as [Hlt|Hge].
    + rewrite nth_error_app1 in Hn by exact Hlt. destruct (D i v o Hn) as [Q|Q]; [|right; exact Q].
      left. destruct (N.eq_dec v vb) as [->|Hne]; [|now rewrite gupd_other by exact Hne].
      rewrite gupd_same. apply queued_in in Q. destruct Q as [q Q]. apply queued_in. exists q. apply in_or_app. now left.
    + rewrite nth_error_app2 in Hn by exact Hge. destruct (i - length (s_ctxs s))%nat as [|k] eqn:Ek; [|destruct k; discriminate].
      injection Hn as <- <-. left. rewrite gupd_same. apply queued_in. exists (o_seq x). apply in_or_app. right. left.
      f_equal. lia.
  - exact E.
  - exact F.
  - exact G.
  - exact Op.
Qed.

Lemma store_fold_le dump dl (st : fmap doc) vb d :
  fold_left (fun m v => match lookup_doc dump v with Some x => fupd m v x | None => m end) dl st vb = Some d ->
  st vb = Some d \/ lookup_doc dump vb = Some d.
Proof. apply fold_store_cases. Qed.

Theorem GI_step s g o g' : GI s g -> gstep s g o = Some g' -> GI (fst (step s o)) g'.
Proof.
  intros I H. unfold gstep in H. unfold step. destruct (s_failed s) eqn:Fl; [injection H as <-; exact I|].
  destruct o as [first last sv| |first last sv|cancel|vb e|i| | |vb|ok| |high|vb c uuid roll]; try discriminate.
  - (* Deliver *)
    destruct (s_obs s vb) as [ob|] eqn:Eo; [|injection H as <-; exact I].
    destruct (obs_event (s_cfg s) ob e) as [ob' f] eqn:Ee. cbn [snd] in H.
    set (s1 := set_obs s (fupd (s_obs s) vb ob')).
    assert (I1 : GI s1 g) by (eapply GI_proj; eauto).
    destruct f as [|k it x coll t|x|].
    + injection H as <-. exact I1.
    + destruct (is_meta (i_key it)) eqn:Em.
      * destruct (g vb) eqn:Eg; [|discriminate]. injection H as <-.
        eapply GI_ext; [|apply (GI_set_offset s1 g vb x false [] I1)]; cbn; try tauto.
        -- intros v. rewrite <- Eg. apply gupd_id.
        -- intros i q Hin. rewrite Eg in Hin. contradiction.
      * destruct (below (g vb) (o_seq x) && match s_offs s vb with Some cur => o_seq cur <? o_seq x | None => true end) eqn:Ec; [|discriminate].
        injection H as <-. apply andb_true_iff in Ec. destruct Ec as [Hb Hc]. cbn [fst].
        apply (GI_consume s1 g vb x I1 Hb). intros cur Hcur. change (s_offs s1 vb) with (s_offs s vb) in Hcur.
        rewrite Hcur in Hc. now apply N.ltb_lt in Hc.
    + destruct (g vb) eqn:Eg; [|discriminate]. injection H as <-.
      eapply GI_ext; [|apply (GI_set_offset s1 g vb x true [] I1)]; cbn; try tauto.
      * intros v. rewrite <- Eg. apply gupd_id.
      * intros i q Hin. rewrite Eg in Hin. contradiction.
    + injection H as <-. cbn [fst]. eapply GI_proj; eauto.
  - (* Ack *)
    destruct (nth_error (s_ctxs s) i) as [[vb o]|] eqn:En; [|injection H as <-; exact I].
    assert (Fin : forall s1 outs g1, GI s1 g1 -> GI (fst (set_dirty s1 (s_dirty s1) true, outs : list out)) g1)
      by (intros s1 outs g1 X; cbn [fst]; eapply GI_proj; eauto).
    (* an acknowledgement of a context that is not waiting changes nothing that matters *)
    assert (Old : queued i (g vb) = false -> GI (fst (set_offset s vb o true)) g).
    { intros Q. destruct (gi_done s g I i vb o En) as [Q'|[Rg|(cur & Hc & Hle)]]; [congruence| |].
      - rewrite set_offset_foreign by exact Rg. exact I.
      - eapply GI_ext; [apply gupd_id|]. apply (GI_set_offset s g vb o true (g vb) I); auto.
        + apply (gi_sorted s g I).
        + intros j q Hin. pose proof (gi_front s g I vb cur j q Hc Hin). lia. }
    destruct (g vb) as [|[j q] rest] eqn:Eg.
    + injection H as <-. specialize (Old eq_refl). destruct (set_offset s vb o true) as [s1 outs]. now apply Fin.
    + destruct (Nat.eqb_spec i j) as [->|Hne].
      * injection H as <-.
        assert (Hq : o_seq o = q).
        { destruct (gi_ctx s g I vb j q) as (o' & Hn' & Hq'); [rewrite Eg; now left|]. congruence. }
        pose proof (gi_sorted s g I vb) as Hs. rewrite Eg in Hs. cbn [map snd] in Hs.
        assert (G1 : GI (fst (set_offset s vb o true)) (gupd g vb rest)).
        { apply (GI_set_offset s g vb o true rest I).
          - intros i' q' Hin. rewrite Eg. now right.
          - eapply incr_tail; eauto.
          - intros i' q' Hin. rewrite Hq. apply (incr_all q (map snd rest) Hs). apply in_map_iff. now exists (i', q').
          - intros i' q' Hin. rewrite Eg in Hin. destruct Hin as [[= <- <-]|Hin]; [right; lia|now left]. }
        destruct (set_offset s vb o true) as [s1 outs]. now apply Fin.
      * destruct (queued i rest) eqn:Qr; [discriminate|]. injection H as <-.
        assert (Q : queued i ((j, q) :: rest) = false).
        { unfold queued in *. cbn. apply Nat.eqb_neq in Hne. rewrite Nat.eqb_sym in Hne. now rewrite Hne. }
        specialize (Old Q). destruct (set_offset s vb o true) as [s1 outs]. now apply Fin.
  - (* SaveBegin *)
    injection H as <-. destruct (s_inflight s); [exact I|]. destruct (negb (s_any_dirty s)); [exact I|now apply GI_save_body].
  - (* SaveQueue *)
    injection H as <-. destruct (s_inflight s); [|exact I]. cbn [fst]. eapply GI_proj; eauto.
  - (* SaveWrite *)
    injection H as <-. destruct (s_inflight s) as [[dump dl]|] eqn:Ei; [|exact I].
    destruct (lookup_doc dump vb) as [d|] eqn:El; [|exact I]. destruct (mem vb dl); [|exact I]. cbn [fst].
    destruct I as [A B C D E F G Op]. constructor; cbn; auto.
    intros v dd cur Hs Hc. apply fupd_cases in Hs. destruct Hs as [[-> ->]|[_ Hs]]; [eapply G; eauto|eapply F; eauto].
  - (* SaveEnd *)
    injection H as <-. destruct (s_inflight s) as [[dump dl]|] eqn:Ei; [|exact I]. destruct ok.
    + apply GI_drain. destruct I as [A B C D E F G Op]. constructor; cbn; auto; try discriminate.
      intros v dd cur Hs Hc. apply store_fold_le in Hs. destruct Hs as [Hs|Hs]; [eapply F; eauto|eapply G; eauto].
    + apply GI_drain. destruct I as [A B C D E F G Op]. constructor; cbn; auto; discriminate.
  - (* Scrape *)
    injection H as <-. destruct (s_obs_nil s); exact I.
Qed.

Theorem GI_run ops : forall s g g', GI s g -> grun s g ops = Some g' -> GI (fst (run s ops)) g'.
Proof.
  induction ops as [|o r IH]; intros s g g' I H; cbn [grun run] in *; [injection H as <-; exact I|].
  destruct (gstep s g o) as [g1|] eqn:E; [|discriminate].
  pose proof (GI_step s g o g1 I E) as I1. destruct (step s o) as [s1 o1]. cbn [fst] in *.
  specialize (IH s1 g1 g' I1 H). destruct (run s1 r) as [s2 os]. exact IH.
Qed.

(* the start of a session of a fresh process: nothing is waiting, nothing stored is ahead of the resume positions *)
Lemma store_exists_false st vbs vb : store_exists st vbs = false -> In vb vbs -> st vb = None.
Proof.
  unfold store_exists. intros H Hin. destruct (st vb) eqn:E; [|reflexivity].
  assert (X : existsb (fun v => match st v with Some _ => true | None => false end) vbs = true).
  { apply existsb_exists. exists vb. split; [exact Hin|now rewrite E]. }
  congruence.
Qed.

Lemma GI_start c st first last sv s1 outs :
  do_open (init_state c st) first last sv = Some (s1, outs) -> GI s1 gempty.
Proof.
  unfold do_open. cbn [s_store init_state s_cfg].
  destruct (load_all c (store_exists st (vb_list first last)) st (assoc (sv_high sv)) (assoc (sv_uuid sv)) (vb_list first last))
    as [[[offs dirty] any]|] eqn:E; [|discriminate].
  intros [= <- _]. destruct (load_all_spec _ _ _ _ _ _ _ _ _ E) as (A & _ & C).
  constructor; cbn.
  - intros vb i q [].
  - intros vb. exact I.
  - intros vb cur i q _ [].
  - intros i vb o Hn. destruct i; discriminate.
  - intros vb Rg. apply C. apply andb_true_iff in Rg. destruct Rg as [H1 H2]. apply N.leb_le in H1, H2. apply in_vb_list. lia.
  - intros vb d cur Hs Hc. destruct (A vb cur Hc) as [Hin [dd Hl]]. unfold load_one in Hl.
    destruct (negb (store_exists st (vb_list first last)) && c_latest c) eqn:El.
    + apply andb_true_iff in El. destruct El as [El _]. apply negb_true_iff in El.
      rewrite (store_exists_false _ _ _ El Hin) in Hs. discriminate.
    + unfold loaded_doc in Hl. rewrite Hs in Hl. destruct (get0 (assoc (sv_high sv)) vb <? d_seq d); [discriminate|].
      injection Hl as <- _. cbn. lia.
  - intros dump dl vb d cur H. discriminate.
  - reflexivity.
Qed.
