From Verif Require Import Base.Prelude Base.Bytes Model.Stream Model.Backends Proofs.StreamProofs.
Local Open Scope N_scope.

(* saving and re-loading through the file backend returns exactly what was saved, whatever the values *)
Lemma file_roundtrip f dump dirty vbs : file_load (file_save f dump dirty) vbs = (dump, true).
Proof. reflexivity. Qed.

(* through the Couchbase backend: every dirty document is read back exactly; the others are untouched *)
Lemma cb_roundtrip st dump dirty vb d :
  In vb dirty -> lookup_doc dump vb = Some d -> cb_save st dump dirty vb = Some d.
Proof. intros. unfold cb_save. now apply fold_store_hit. Qed.

Lemma cb_untouched st dump dirty vb : ~ In vb dirty -> cb_save st dump dirty vb = st vb.
Proof.
  unfold cb_save. revert st. induction dirty as [|a l IH]; intros st Hn; [reflexivity|]. cbn.
  rewrite IH by (intros H; apply Hn; now right). destruct (lookup_doc dump a); [|reflexivity].
  apply fupd_other. intros ->. apply Hn. now left.
Qed.

Lemma ro_identical {S} (load : S -> list N -> list (N * doc) * bool) s dump dirty vbs :
  load (ro_save s dump dirty) vbs = load s vbs.
Proof. reflexivity. Qed.

(* ---- what is requested at open ---- *)
Lemma load_one_stored c st high uuid0 vb d o m :
  st vb = Some d -> load_one c true st high uuid0 vb = Some (o, m) ->
  o = MkO (d_uuid d) (d_seq d) (d_start d) (d_end d) (latest_of c (get0 high vb)) /\ m = false.
Proof.
  intros Hs. unfold load_one. cbn [negb andb]. unfold loaded_doc. rewrite Hs.
  destruct (get0 high vb <? d_seq d); [discriminate|]. intros [= <- <-]. auto.
Qed.

Lemma load_one_none_earliest c exist st high uuid0 vb o m :
  st vb = None -> (exist = true \/ c_latest c = false) -> load_one c exist st high uuid0 vb = Some (o, m) ->
  o = MkO 0 0 0 0 (latest_of c (get0 high vb)) /\ m = false.
Proof.
  intros Hs Hb. unfold load_one. replace (negb exist && c_latest c) with false by (destruct Hb as [-> | ->]; [reflexivity|now rewrite andb_false_r]).
  unfold loaded_doc. rewrite Hs. cbn. destruct (get0 high vb <? 0) eqn:E; [apply N.ltb_lt in E; lia|]. intros [= <- <-]. auto.
Qed.

Lemma load_one_latest c st high uuid0 vb o m :
  c_latest c = true -> load_one c false st high uuid0 vb = Some (o, m) ->
  o = MkO (get0 uuid0 vb) (get0 high vb) (get0 high vb) (get0 high vb) (latest_of c (get0 high vb)) /\ m = negb (get0 high vb =? 0).
Proof. intros Hl. unfold load_one. rewrite Hl. cbn. intros [= <- <-]. auto. Qed.

Lemma load_one_le_high c exist st high uuid0 vb o m :
  load_one c exist st high uuid0 vb = Some (o, m) -> o_seq o <= get0 high vb.
Proof.
  unfold load_one. destruct (negb exist && c_latest c); [intros [= <- _]; cbn; lia|].
  destruct (N.ltb_spec (get0 high vb) (d_seq (loaded_doc st vb))); [discriminate|]. intros [= <- _]. cbn. lia.
Qed.

(* the requests of an open are exactly the loaded offsets, one per assigned vBucket, ascending *)
Lemma do_open_requests s first last sv s' outs :
  do_open s first last sv = Some (s', outs) ->
  outs = [Callback BeforeStreamStart]
         ++ flat_map (fun vb => match s_offs s' vb with Some o => [OpenReq vb o] | None => [] end) (vb_list first last)
         ++ [Callback AfterStreamStart] /\
  forall vb, In vb (vb_list first last) ->
    exists o m, s_offs s' vb = Some o /\
      load_one (s_cfg s) (store_exists (s_store s) (vb_list first last)) (s_store s) (assoc (sv_high sv)) (assoc (sv_uuid sv)) vb = Some (o, m).
Proof.
  unfold do_open. destruct (load_all _ _ _ _ _ _) as [[[offs dirty] any]|] eqn:L; [|discriminate].
  intros [= <- <-]. cbn [s_offs]. split; [reflexivity|]. intros vb Hin.
  destruct (load_all_spec _ _ _ _ _ _ _ _ _ L) as (A & _ & C). destruct (C vb Hin) as [o Ho].
  destruct (A vb o Ho) as [_ [m Hm]]. now exists o, m.
Qed.

(* ---- start-up ---- *)
Lemma load_all_none_iff c exist st high uuid0 vbs vb :
  In vb vbs -> load_one c exist st high uuid0 vb = None -> load_all c exist st high uuid0 vbs = None.
Proof.
  induction vbs as [|v r IH]; [contradiction|]. intros [->|Hin] Hn; cbn [load_all].
  - now rewrite Hn.
  - destruct (load_one c exist st high uuid0 v) as [[o d]|]; [|reflexivity]. now rewrite (IH Hin Hn).
Qed.

Lemma startup_started c st first last sv f reqs :
  startup c st first last sv f = Started reqs ->
  f_load f = false /\ f_seqno f = false /\ (forall vb, In vb (vb_list first last) -> mem vb (f_open f) = false) /\
  (forall vb, In vb (vb_list first last) -> exists o, In (vb, o) reqs /\ o_seq o <= get0 (assoc (sv_high sv)) vb).
Proof.
  unfold startup. destruct (f_load f || f_seqno f) eqn:E1; [discriminate|]. apply orb_false_iff in E1. destruct E1 as [-> ->].
  destruct (negb (f_partial f) && _ && c_latest c && f_faillog f && _); [discriminate|].
  destruct (load_all _ _ _ _ _ _) as [[[offs dirty] any]|] eqn:L; [|discriminate].
  destruct (existsb _ _) eqn:E2; [discriminate|]. intros [= <-].
  assert (G : forall vb, In vb (vb_list first last) -> mem vb (f_open f) = false /\ exists o, offs vb = Some o).
  { intros vb Hin. destruct (mem vb (f_open f)) eqn:Em.
    - exfalso. assert (X : existsb (fun vb => mem vb (f_open f) || match offs vb with None => true | Some _ => false end) (vb_list first last) = true)
        by (apply existsb_exists; exists vb; split; [exact Hin|now rewrite Em]). congruence.
    - split; [reflexivity|]. destruct (offs vb) as [o|] eqn:Eo; [now exists o|]. exfalso.
      assert (X : existsb (fun vb => mem vb (f_open f) || match offs vb with None => true | Some _ => false end) (vb_list first last) = true)
        by (apply existsb_exists; exists vb; split; [exact Hin|now rewrite Em, Eo]). congruence. }
  repeat split; try reflexivity.
  - intros vb Hin. exact (proj1 (G vb Hin)).
  - intros vb Hin. destruct (G vb Hin) as [_ [o Ho]]. destruct (load_all_spec _ _ _ _ _ _ _ _ _ L) as (A & _ & _).
    destruct (A vb o Ho) as [_ [m Hm]]. exists o. split.
    + apply in_flat_map. exists vb. split; [exact Hin|]. rewrite Ho. now left.
    + eapply load_one_le_high; eauto.
Qed.

Lemma startup_ahead c st first last sv f vb d :
  In vb (vb_list first last) -> st vb = Some d -> get0 (assoc (sv_high sv)) vb < d_seq d ->
  startup c st first last sv f = Refused.
Proof.
  intros Hin Hs Hlt. unfold startup. destruct (f_load f || f_seqno f); [reflexivity|].
  assert (Ex : store_exists st (vb_list first last) = true).
  { unfold store_exists. apply existsb_exists. exists vb. split; [exact Hin|now rewrite Hs]. }
  rewrite Ex. replace (negb (f_partial f) && negb true) with false by (now rewrite andb_false_r). cbn [andb].
  replace (if f_partial f then true else true) with true by (now destruct (f_partial f)).
  assert (Hl : load_one c true st (assoc (sv_high sv)) (assoc (sv_uuid sv)) vb = None).
  { unfold load_one. cbn [negb andb]. unfold loaded_doc. rewrite Hs. apply N.ltb_lt in Hlt. now rewrite Hlt. }
  rewrite (load_all_none_iff c true st _ _ _ vb); [reflexivity| |exact Hl].
  destruct (f_partial f); [|exact Hin]. apply filter_In. split; [exact Hin|now rewrite Hs].
Qed.

(* for every history of a read-only wrapper: the wrapped backend and every load through the wrapper are what they would
   be had the saves through the wrapper never been attempted -- in particular a load sees what reached the backend
   since the previous load *)
Lemma ro_run_ignores_wrapper_saves l : forall f,
  ro_run f l = ro_run f (List.filter (fun s => negb (through_wrapper s)) l).
Proof.
  induction l as [|s r IH]; intros f; [reflexivity|].
  destruct s as [d di| |d di|vbs]; cbn [ro_run List.filter through_wrapper negb].
  - apply IH.
  - apply IH.
  - unfold ro_save. apply IH.
  - rewrite IH. reflexivity.
Qed.

Lemma ro_run_load_current l1 vbs l2 f :
  nth_error (snd (ro_run f (l1 ++ RoLoad vbs :: l2))) (length (snd (ro_run f l1))) = Some (file_load (fst (ro_run f l1)) vbs).
Proof.
  revert f. induction l1 as [|s r IH]; intros f.
  - cbn [app ro_run snd length fst]. destruct (ro_run f l2) as [f' outs]. reflexivity.
  - destruct s as [d di| |d di|vbs0]; cbn [app ro_run]; try apply IH.
    specialize (IH f). destruct (ro_run f r) as [f1 o1] eqn:E1.
    destruct (ro_run f (r ++ RoLoad vbs :: l2)) as [f2 o2] eqn:E2. cbn [snd fst length nth_error] in *. exact IH.
Qed.
