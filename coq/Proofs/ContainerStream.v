(* stream.setOffset (stream/stream.go) written over the containers it really uses -- Load / Store on stream.offsets,
   StoreIf with the condition function of the dirty mark on stream.dirtyOffsets -- and the proof that, through the
   abstraction of Model/SwissMap.v, it is the set_offset of Model/Stream.v. *)
From Verif Require Import Base.Prelude Base.Bytes Model.Stream Model.SwissMap Proofs.SwissMapProofs.
Local Open Scope N_scope.

(* the condition function of the dirty mark: `if !f || (f && !p) { return true, true }; return p, false` *)
Definition mark_cond (p : option bool) : option bool :=
  match p with
  | None | Some false => Some true
  | Some true => None
  end.

(* the body of setOffset once `observers != nil` and `vbIDRange.In(vbID)` hold; the boolean: was TrackOffset called? *)
Definition c_set_offset (offs : smap_of offset) (dirty : smap_of bool) (vb : N) (o : offset) (d : bool)
  : smap_of offset * smap_of bool * bool :=
  let accept :=
    (sm_store offs vb o,
     (if d then match mark_cond (sm_load dirty vb) with Some b => sm_store dirty vb b | None => dirty end else dirty),
     true) in
  match sm_load offs vb with
  | Some cur => if o_seq o <? o_seq cur then (offs, dirty, false) else accept
  | None => accept
  end.

Lemma c_set_offset_abs s offs dirty vb o d :
  s_obs_nil s = false -> in_range (s_range s) vb = true ->
  (forall k, sm_load offs k = s_offs s k) -> (forall k, sm_load dirty k = s_dirty s k) ->
  (forall k, sm_load (fst (fst (c_set_offset offs dirty vb o d))) k = s_offs (fst (set_offset s vb o d)) k) /\
  (forall k, sm_load (snd (fst (c_set_offset offs dirty vb o d))) k = s_dirty (fst (set_offset s vb o d)) k) /\
  snd (set_offset s vb o d) = (if snd (c_set_offset offs dirty vb o d) then [Track vb o] else []).
Proof.
  intros Hn Hr Ho Hd. unfold set_offset, c_set_offset. rewrite Hn, Hr, (Ho vb).
  assert (Hacc :
    (forall k, sm_load (sm_store offs vb o) k = s_offs (if d then set_dirty (set_offs s (fupd (s_offs s) vb o)) (fupd (s_dirty (set_offs s (fupd (s_offs s) vb o))) vb true) true else set_offs s (fupd (s_offs s) vb o)) k) /\
    (forall k, sm_load (if d then match mark_cond (sm_load dirty vb) with Some b => sm_store dirty vb b | None => dirty end else dirty) k =
               s_dirty (if d then set_dirty (set_offs s (fupd (s_offs s) vb o)) (fupd (s_dirty (set_offs s (fupd (s_offs s) vb o))) vb true) true else set_offs s (fupd (s_offs s) vb o)) k)).
  { split; intros k.
    - rewrite load_store. destruct d; cbn [set_dirty set_offs s_offs]; unfold fupd; rewrite Ho; reflexivity.
    - destruct d; cbn [set_dirty set_offs s_dirty]; [|apply Hd].
      unfold fupd. rewrite (Hd vb).
      destruct (s_dirty s vb) as [[|]|] eqn:E; cbn [mark_cond].
      + rewrite Hd. destruct (N.eqb_spec k vb) as [->|]; [exact E|reflexivity].
      + rewrite load_store, Hd. reflexivity.
      + rewrite load_store, Hd. reflexivity. }
  destruct Hacc as [Ha Hb].
  destruct (s_offs s vb) as [cur|].
  - destruct (o_seq o <? o_seq cur); cbn [fst snd].
    + split; [exact Ho|]. split; [exact Hd|reflexivity].
    + split; [exact Ha|]. split; [exact Hb|reflexivity].
  - cbn [fst snd]. split; [exact Ha|]. split; [exact Hb|reflexivity].
Qed.

(* the containers stay well-formed *)
Lemma c_set_offset_inv offs dirty vb o d : sm_inv offs -> sm_inv dirty ->
  sm_inv (fst (fst (c_set_offset offs dirty vb o d))) /\ sm_inv (snd (fst (c_set_offset offs dirty vb o d))).
Proof.
  intros H1 H2. unfold c_set_offset.
  assert (Hd : sm_inv (if d then match mark_cond (sm_load dirty vb) with Some b => sm_store dirty vb b | None => dirty end else dirty)).
  { destruct d; [|exact H2]. destruct (mark_cond (sm_load dirty vb)); [apply inv_store|]; exact H2. }
  destruct (sm_load offs vb) as [cur|]; [destruct (o_seq o <? o_seq cur)|]; cbn [fst snd];
    (split; [try exact H1; apply inv_store; exact H1 | try exact H2; exact Hd]).
Qed.
