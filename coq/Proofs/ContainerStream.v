(* stream.setOffset (stream/stream.go) written over the containers it really uses -- Load / Store on stream.offsets,
   StoreIf with the condition function of the dirty mark on stream.dirtyOffsets -- and the proof that, through the
   abstraction of Model/SwissMap.v, it is the set_offset of Model/Stream.v. *)
From Verif Require Import Base.Prelude Base.Bytes Model.Stream Model.SwissMap Proofs.SwissMapProofs.
Local Open Scope N_scope.

(* the condition function of the dirty mark: `if !f || (f && !p) { return true, true }; return p, false` *)
Definition mark_cond (p : option bool) : option bool :=
  match p with
  | None | Some false => Some true
  | Some true => None
  end.

(* the body of setOffset once `observers != nil` and `vbIDRange.In(vbID)` hold; the boolean: was TrackOffset called? *)
Definition c_set_offset (offs : smap_of offset) (dirty : smap_of bool) (vb : N) (o : offset) (d : bool)
  : smap_of offset * smap_of bool * bool :=
  let accept :=
    (sm_store offs vb o,
     (if d then match mark_cond (sm_load dirty vb) with Some b => sm_store dirty vb b | None => dirty end else dirty),
     true) in
  match sm_load offs vb with
  | Some cur => if o_seq o <? o_seq cur then (offs, dirty, false) else accept
  | None => accept
  end.

Lemma c_set_offset_abs s offs dirty vb o d :
  s_obs_nil s = false -> in_range (s_range s) vb = true ->
  (forall k, sm_load offs k = s_offs s k) -> (forall k, sm_load dirty k = s_dirty s k) ->
  (forall k, sm_load (fst (fst (c_set_offset offs dirty vb o d))) k = s_offs (fst (set_offset s vb o d)) k) /\
  (forall k, sm_load (snd (fst (c_set_offset offs dirty vb o d))) k = s_dirty (fst (set_offset s vb o d)) k) /\
  snd (set_offset s vb o d) = (if snd (c_set_offset offs dirty vb o d) then [Track vb o] else []).
Proof.
  intros Hn Hr Ho Hd. unfold set_offset, c_set_offset. rewrite Hn, Hr, (Ho vb).
  assert (Hacc :
    (forall k, sm_load (sm_store offs vb o) k = s_offs (if d then set_dirty (set_offs s (fupd (s_offs s) vb o)) (fupd (s_dirty (set_offs s (fupd (s_offs s) vb o))) vb true) true else set_offs s (fupd (s_offs s) vb o)) k) /\
    (forall k, sm_load (if d then match mark_cond (sm_load dirty vb) with Some b => sm_store dirty vb b | None => dirty end else dirty) k =
               s_dirty (if d then set_dirty (set_offs s (fupd (s_offs s) vb o)) (fupd (s_dirty (set_offs s (fupd (s_offs s) vb o))) vb true) true else set_offs s (fupd (s_offs s) vb o)) k)).
  { split; intros k.
    - rewrite load_store. destruct d; cbn [set_dirty set_offs s_offs]; unfold fupd; rewrite Ho; reflexivity.
    - destruct d; cbn [set_dirty set_offs s_dirty]; [|apply Hd].
      unfold fupd. rewrite (Hd vb).
      destruct (s_dirty s vb) as [[|]|] eqn:E; cbn [mark_cond].
      + rewrite Hd. destruct (N.eqb_spec k vb) as [->|]; [exact E|reflexivity].
      + rewrite load_store, Hd. reflexivity.
      + rewrite load_store, Hd. reflexivity. }
  destruct Hacc as [Ha Hb].
  destruct (s_offs s vb) as [cur|].
  - destruct (o_seq o <? o_seq cur); cbn [fst snd].
    + split; [exact Ho|]. split; [exact Hd|reflexivity].
    + split; [exact Ha|]. split; [exact Hb|reflexivity].
  - cbn [fst snd]. split; [exact Ha|]. split; [exact Hb|reflexivity].
Qed.

(* the containers stay well-formed *)
Lemma c_set_offset_inv offs dirty vb o d : sm_inv offs -> sm_inv dirty ->
  sm_inv (fst (fst (c_set_offset offs dirty vb o d))) /\ sm_inv (snd (fst (c_set_offset offs dirty vb o d))).
Proof.
  intros H1 H2. unfold c_set_offset.
  assert (Hd : sm_inv (if d then match mark_cond (sm_load dirty vb) with Some b => sm_store dirty vb b | None => dirty end else dirty)).
  { destruct d; [|exact H2]. destruct (mark_cond (sm_load dirty vb)); [apply inv_store|]; exact H2. }
  destruct (sm_load offs vb) as [cur|]; [destruct (o_seq o <? o_seq cur)|]; cbn [fst snd];
    (split; [try exact H1; apply inv_store; exact H1 | try exact H2; exact Hd]).
Qed.

(* ---- checkpoint.Save's two walks (stream/checkpoint.go): offsets.Range builds the dump, dirtyOffsets.Range the set of
   vBuckets to write; the model walks the ascending list of vBucket ids instead ---- *)
Definition c_dump (offs : smap_of offset) : list (N * doc) := map (fun kv => (fst kv, doc_of (snd kv))) offs.
Definition c_dirty (dirty : smap_of bool) : list N := map fst (filter (fun kv => snd kv) dirty).

Lemma lookup_c_dump offs vb : lookup_doc (c_dump offs) vb = option_map doc_of (sm_load offs vb).
Proof.
  induction offs as [|[a o] r IH]; cbn [c_dump map lookup_doc sm_load fst snd]; [reflexivity|].
  destruct (a =? vb); [reflexivity|exact IH].
Qed.

Lemma lookup_app l1 l2 vb : lookup_doc (l1 ++ l2) vb = match lookup_doc l1 vb with Some d => Some d | None => lookup_doc l2 vb end.
Proof.
  induction l1 as [|[k d] r IH]; cbn [app lookup_doc]; [reflexivity|].
  destruct (k =? vb); [reflexivity|exact IH].
Qed.

Lemma lookup_dump_of f vbs vb :
  lookup_doc (dump_of f vbs) vb = if mem vb vbs then option_map doc_of (f vb) else None.
Proof.
  unfold dump_of, mem. induction vbs as [|a r IH]; cbn [flat_map existsb]; [reflexivity|].
  rewrite lookup_app, IH. destruct (N.eqb_spec vb a) as [->|Hne]; cbn [orb].
  - destruct (f a) as [o|]; cbn [lookup_doc option_map].
    + rewrite N.eqb_refl. reflexivity.
    + destruct (existsb (N.eqb a) r); reflexivity.
  - destruct (f a) as [o|]; cbn [lookup_doc]; [|reflexivity].
    destruct (N.eqb_spec a vb) as [E|E]; [congruence|reflexivity].
Qed.

Lemma c_dump_is_dump offs f vbs :
  (forall k, sm_load offs k = f k) -> (forall k, f k <> None -> mem k vbs = true) ->
  forall vb, lookup_doc (c_dump offs) vb = lookup_doc (dump_of f vbs) vb.
Proof.
  intros Hr Hk vb. rewrite lookup_c_dump, lookup_dump_of, Hr.
  destruct (mem vb vbs) eqn:E; [reflexivity|].
  destruct (f vb) as [o|] eqn:F; [|reflexivity].
  assert (H : mem vb vbs = true) by (apply Hk; congruence). congruence.
Qed.

Lemma in_dirty_of g vbs vb : In vb (dirty_of g vbs) <-> In vb vbs /\ g vb = Some true.
Proof.
  unfold dirty_of. rewrite in_flat_map. split.
  - intros [x [Hx Hin]]. destruct (g x) as [[|]|] eqn:E; cbn [In] in Hin; try tauto.
    destruct Hin as [->|[]]. tauto.
  - intros [Hin Hg]. exists vb. split; [exact Hin|]. rewrite Hg. left; reflexivity.
Qed.

Lemma c_dirty_is_dirty dirty g vbs : sm_inv dirty ->
  (forall k, sm_load dirty k = g k) -> (forall k, g k <> None -> In k vbs) ->
  forall vb, In vb (c_dirty dirty) <-> In vb (dirty_of g vbs).
Proof.
  intros Hi Hr Hk vb. rewrite in_dirty_of. unfold c_dirty. rewrite in_map_iff. split.
  - intros [[k b] [Hk1 Hin]]. cbn [fst] in Hk1; subst k. apply filter_In in Hin. destruct Hin as [Hin Hb].
    cbn [snd] in Hb; subst b. apply (in_load dirty vb true Hi) in Hin. rewrite Hr in Hin.
    split; [apply Hk; congruence|exact Hin].
  - intros [_ Hg]. exists (vb, true). split; [reflexivity|]. apply filter_In. split; [|reflexivity].
    apply (in_load dirty vb true Hi). rewrite Hr. exact Hg.
Qed.
