From Verif Require Import Base.Prelude Model.Rebalance.

(* phase, flag, timer and lock always fit together *)
Definition rinv (s : rstate) : Prop :=
  match r_phase s with
  | POpen => r_balancing s = false /\ r_timer s = TNil
  | PClosing => r_balancing s = true /\ r_timer s = TNil
  | PDelay => r_balancing s = true /\ r_timer s = TArmed
  | PReopening => r_balancing s = true /\ r_timer s = TFired
  end /\ r_blocked s = 0%nat /\ r_stopped s = false.

Lemma rinv_init i : rinv (r_init i).
Proof. unfold rinv, r_init; cbn. repeat split. Qed.

Ltac crush_rinv :=
  unfold rinv, r_step, enter in *; cbn in *;
  intuition (subst; try discriminate; try congruence).

Lemma rinv_enter s : rinv s -> rinv (fst (enter s)).
Proof.
  intros I. destruct s as [ph ba ti bl de inf ra nx cy st]. destruct ph, ba, ti; crush_rinv.
Qed.

Lemma rinv_step s o : rinv s -> rinv (fst (r_step s o)).
Proof.
  intros I. destruct s as [ph ba ti bl de inf ra nx cy st]. destruct o as [i| | | |].
  - destruct ph, ba, ti; crush_rinv.
  - destruct ph; crush_rinv.
  - destruct ph, ti; crush_rinv.
  - destruct ph, bl as [|b]; crush_rinv.
  - destruct de as [|d]; [exact I|]. destruct ph, ba, ti; crush_rinv.
Qed.

Lemma rinv_run ops : forall s, rinv s -> rinv (fst (r_run s ops)).
Proof.
  induction ops as [|o r IH]; intros s I; [exact I|]. cbn [r_run].
  pose proof (rinv_step s o I) as I1. destruct (r_step s o) as [s1 out1]. cbn [fst] in I1.
  specialize (IH s1 I1). destruct (r_run s1 r) as [s2 outs]. exact IH.
Qed.

(* a rebalance never stops the client *)
Lemma step_no_stop s o : ~ In RStop (snd (r_step s o)).
Proof.
  destruct s as [ph ba ti bl de inf ra nx cy st]. destruct o as [i| | | |]; unfold r_step, enter; cbn;
    destruct ph, ba, ti, bl as [|b], de as [|d]; cbn; intuition discriminate.
Qed.

Lemma never_stops ops : forall s, ~ In RStop (snd (r_run s ops)).
Proof.
  induction ops as [|o r IH]; intros s; [cbn; tauto|]. cbn [r_run].
  pose proof (step_no_stop s o) as H. destruct (r_step s o) as [s1 out1]. specialize (IH s1).
  destruct (r_run s1 r) as [s2 outs]. cbn [snd] in *. intros Hin. apply in_app_or in Hin. tauto.
Qed.

(* ---- bracketing: the callback trace follows the cycle BRS BSStop ASStop ARS BRE BSStart ASStart ARE ---- *)
Definition pos_of (p : rphase) : nat := match p with POpen => 0 | PClosing => 2 | PDelay => 4 | PReopening => 6 end.
Definition expected (pos : nat) : nat :=
  match pos with 0 => 1 | 1 => 7 | 2 => 8 | 3 => 2 | 4 => 3 | 5 => 5 | 6 => 6 | _ => 4 end.
Fixpoint accept (pos : nat) (l : list rout) : option nat :=
  match l with
  | [] => Some pos
  | CB n :: r => if Nat.eqb n (expected pos) then accept (Nat.modulo (S pos) 8) r else None
  | RStop :: _ => None
  end.

Lemma accept_app l1 : forall pos l2 p1, accept pos l1 = Some p1 -> accept pos (l1 ++ l2) = accept p1 l2.
Proof.
  induction l1 as [|x l IH]; intros pos l2 p1 H; cbn in *; [now injection H as ->|].
  destruct x as [n|]; [|discriminate]. destruct (Nat.eqb n (expected pos)); [|discriminate]. now apply IH.
Qed.

Lemma step_accept s o : rinv s -> accept (pos_of (r_phase s)) (snd (r_step s o)) = Some (pos_of (r_phase (fst (r_step s o)))).
Proof.
  intros I. destruct s as [ph ba ti bl de inf ra nx cy st]. destruct o as [i| | | |]; unfold rinv, r_step, enter in *; cbn in *;
    destruct ph, ba, ti, bl as [|b], de as [|d]; cbn in *; try reflexivity; intuition (try discriminate; try congruence).
Qed.

Lemma run_accept ops : forall s, rinv s ->
  accept (pos_of (r_phase s)) (snd (r_run s ops)) = Some (pos_of (r_phase (fst (r_run s ops)))).
Proof.
  induction ops as [|o r IH]; intros s I; [reflexivity|]. cbn [r_run].
  pose proof (step_accept s o I) as A. pose proof (rinv_step s o I) as I1.
  destruct (r_step s o) as [s1 out1]. cbn [fst snd] in *. specialize (IH s1 I1).
  destruct (r_run s1 r) as [s2 outs]. cbn [fst snd] in *. rewrite (accept_app _ _ _ _ A). exact IH.
Qed.

(* ---- when the system is quiet it sits on the latest membership information ---- *)
Definition settled (s : rstate) : Prop :=
  (* the information of every notification that arrived after the running reopen read the membership is
     covered by a pending deferred / blocked Rebalance() *)
  match r_phase s with
  | POpen => (r_range s = r_info s) \/ (0 < r_deferred s)%nat
  | PReopening => (r_next s = r_info s) \/ (0 < r_deferred s)%nat
  | _ => True
  end.

Lemma settled_step s o : rinv s -> settled s -> settled (fst (r_step s o)).
Proof.
  intros I S. destruct s as [ph ba ti bl de inf ra nx cy st]. destruct o as [i| | | |]; unfold rinv, r_step, enter, settled in *; cbn in *;
    destruct ph, ba, ti, bl as [|b], de as [|d]; cbn in *; intuition (try discriminate; try congruence; try lia).
Qed.

Lemma settled_run ops : forall s, rinv s -> settled s -> settled (fst (r_run s ops)).
Proof.
  induction ops as [|o r IH]; intros s I S; [exact S|]. cbn [r_run].
  pose proof (rinv_step s o I) as I1. pose proof (settled_step s o I S) as S1.
  destruct (r_step s o) as [s1 out1]. cbn [fst] in *. specialize (IH s1 I1 S1). destruct (r_run s1 r) as [s2 outs]. exact IH.
Qed.

(* hence: quiet (open, nobody blocked, nothing deferred) implies opened on the latest information *)
Lemma quiet_on_latest ops i : let s := fst (r_run (r_init i) ops) in quiet s = true -> r_range s = r_info s.
Proof.
  intros s Q. pose proof (settled_run ops (r_init i) (rinv_init i) (or_introl eq_refl)) as S. fold s in S.
  unfold quiet in Q. unfold settled in S. destruct (r_phase s); try discriminate.
  apply andb_true_iff in Q. destruct Q as [_ Q]. apply Nat.eqb_eq in Q. destruct S as [S|S]; [exact S|lia].
Qed.

(* no deadlock: in every reachable state that is not quiet, some internal event changes the state *)
Lemma progress s : rinv s -> quiet s = false ->
  exists o, (o = CloseDone \/ o = TimerFire \/ o = ReopenDone \/ o = DeferredFire) /\ fst (r_step s o) <> s.
Proof.
  intros I Q. destruct s as [ph ba ti bl de inf ra nx cy st]. unfold quiet, rinv in *; cbn in *.
  destruct ph.
  - destruct I as ((-> & ->) & -> & _). cbn in Q. destruct de as [|d]; [discriminate|].
    exists DeferredFire. split; [auto|]. unfold r_step, enter; cbn. discriminate.
  - exists CloseDone. split; [auto|]. cbn. discriminate.
  - destruct I as ((-> & ->) & _). exists TimerFire. split; [auto|]. cbn. discriminate.
  - destruct I as ((-> & ->) & -> & _). exists ReopenDone. split; [auto|]. cbn. discriminate.
Qed.

(* ---- one burst, one cycle: the first notification arrives while streaming, the others at any point before the
   reopen starts -- while the close step is running (they find nothing to do) or while the stream is closed and the timer
   armed (each one pushes the timer back); then the timer fires and the reopen completes ---- *)
Definition burst_ops (first : N) (during_close during_delay : list N) : list rop :=
  Notify first :: map Notify during_close ++ CloseDone :: map Notify during_delay ++ [TimerFire; ReopenDone].

Lemma last_cons_default {A} (l : list A) : forall x d, last (x :: l) d = last l x.
Proof. induction l as [|y l IH]; intros x d; [reflexivity|]. cbn [last] in *. destruct l; [reflexivity|]. rewrite (IH y d), (IH y x). reflexivity. Qed.

Lemma debounce_absorbs rest : forall bl de inf ra nx cy st,
  r_run (R PDelay true TArmed bl de inf ra nx cy st) (map Notify rest) =
  (R PDelay true TArmed bl de (last rest inf) ra nx cy st, []).
Proof.
  induction rest as [|i r IH]; intros bl de inf ra nx cy st; [reflexivity|].
  cbn [map r_run]. unfold r_step, enter. cbn [r_balancing r_timer r_phase r_blocked r_deferred r_info r_range r_next r_cycles r_stopped].
  rewrite IH. rewrite last_cons_default. reflexivity.
Qed.

Lemma closing_absorbs rest : forall bl de inf ra nx cy st,
  r_run (R PClosing true TNil bl de inf ra nx cy st) (map Notify rest) =
  (R PClosing true TNil bl de (last rest inf) ra nx cy st, []).
Proof.
  induction rest as [|i r IH]; intros bl de inf ra nx cy st; [reflexivity|].
  cbn [map r_run]. unfold r_step, enter. cbn [r_balancing r_timer r_phase r_blocked r_deferred r_info r_range r_next r_cycles r_stopped].
  rewrite IH. rewrite last_cons_default. reflexivity.
Qed.

Lemma r_run_app l1 : forall s l2,
  r_run s (l1 ++ l2) = let '(s1, o1) := r_run s l1 in let '(s2, o2) := r_run s1 l2 in (s2, o1 ++ o2).
Proof.
  induction l1 as [|o r IH]; intros s l2; cbn [app r_run]; [destruct (r_run s l2); reflexivity|].
  destruct (r_step s o) as [s1 o1]. rewrite IH. destruct (r_run s1 r) as [s2 o2]. destruct (r_run s2 l2) as [s3 o3].
  now rewrite app_assoc.
Qed.

Lemma r_run_cons s o r : r_run s (o :: r) = let '(s1, o1) := r_step s o in let '(s2, o2) := r_run s1 r in (s2, o1 ++ o2).
Proof. reflexivity. Qed.

Lemma last_app_default {A} (l1 l2 : list A) d : last (l1 ++ l2) d = last l2 (last l1 d).
Proof.
  revert d. induction l1 as [|x l IH]; intros d; [reflexivity|].
  change ((x :: l) ++ l2) with (x :: (l ++ l2)). rewrite !last_cons_default. apply IH.
Qed.

Lemma burst_one_cycle first r1 r2 s :
  rinv s -> r_phase s = POpen ->
  let '(s', outs) := r_run s (burst_ops first r1 r2) in
  outs = [BRS; BSStop; ASStop; ARS; BRE; BSStart; ASStart; ARE] /\
  r_phase s' = POpen /\ r_cycles s' = S (r_cycles s) /\ r_range s' = last (r1 ++ r2) first /\ r_info s' = last (r1 ++ r2) first /\
  r_blocked s' = 0%nat /\ r_deferred s' = r_deferred s.
Proof.
  intros I P. destruct s as [ph ba ti bl de inf ra nx cy st]; cbn in P; subst.
  unfold rinv in I; cbn in I. destruct I as ((-> & ->) & -> & ->).
  unfold burst_ops.
  rewrite r_run_cons. unfold r_step at 1, enter.
  cbn [r_balancing r_timer r_phase r_blocked r_deferred r_info r_range r_next r_cycles r_stopped].
  rewrite r_run_app, closing_absorbs.
  rewrite r_run_cons. cbn [r_step r_phase r_balancing r_timer r_blocked r_deferred r_info r_range r_next r_cycles r_stopped].
  rewrite r_run_app, debounce_absorbs. cbn. rewrite last_app_default. repeat split; reflexivity.
Qed.
