(* Proofs about Model/Chunk.v: the partition computed by ChunkSlice is exact for every n and t. *)
From Verif Require Import Base.Prelude Model.Chunk.

Definition len_at (m f i : nat) : nat := if f <=? i then m - 1 else m.

Lemma chunk_loop_unfold k i s m f :
  1 <= m ->
  chunk_loop (S k) i s m f = (s, len_at m f i) :: chunk_loop k (S i) (s + len_at m f i) m f.
Proof.
  intros Hm. cbn [chunk_loop]. unfold len_at.
  destruct (f <=? i); f_equal; try (f_equal; lia); f_equal; lia.
Qed.

Lemma chunk_loop_length k : forall i s m f, length (chunk_loop k i s m f) = k.
Proof. induction k as [|k IH]; intros; cbn [chunk_loop length]; [reflexivity | now rewrite IH]. Qed.

Fixpoint total (k i m f : nat) : nat :=
  match k with O => 0 | S k' => len_at m f i + total k' (S i) m f end.

Lemma chunk_loop_concat k : forall i s m f, 1 <= m ->
  concat (map ids (chunk_loop k i s m f)) = seq s (total k i m f).
Proof.
  induction k as [|k IH]; intros i s m f Hm; [reflexivity|].
  rewrite chunk_loop_unfold by exact Hm. cbn [map concat total].
  rewrite IH by exact Hm. unfold ids; cbn [fst snd]. now rewrite <- seq_app.
Qed.

Lemma total_closed k : forall i m f, 1 <= m ->
  total k i m f + ((i + k) - Nat.max i f) = k * m.
Proof.
  induction k as [|k IH]; intros i m f Hm; cbn [total]; [lia|].
  specialize (IH (S i) m f Hm). unfold len_at.
  destruct (Nat.leb_spec f i) as [Hle|Hgt]; nia.
Qed.

Lemma chunk_loop_lens k : forall i s m f c, 1 <= m ->
  In c (chunk_loop k i s m f) -> exists j, i <= j < i + k /\ snd c = len_at m f j.
Proof.
  induction k as [|k IH]; intros i s m f c Hm Hin; [contradiction|].
  rewrite chunk_loop_unfold in Hin by exact Hm. destruct Hin as [<-|Hin].
  - exists i; cbn; split; [lia|reflexivity].
  - destruct (IH _ _ _ _ _ Hm Hin) as (j & Hj & E). exists j; split; [lia|exact E].
Qed.

(* arithmetic of the two constants *)
Lemma max_chunk_bounds n t : 1 <= t -> 1 <= n ->
  n <= max_chunk n t * t /\ max_chunk n t * t - n < t /\ 1 <= max_chunk n t.
Proof.
  intros Ht Hn. unfold max_chunk.
  pose proof (Nat.div_mod_eq (n - 1) t) as E.
  pose proof (Nat.mod_upper_bound (n - 1) t ltac:(lia)) as U.
  set (q := (n - 1) / t) in *. set (r := (n - 1) mod t) in *. nia.
Qed.

Lemma num_full_bounds n t : 1 <= t -> 1 <= n ->
  1 <= num_full n t <= t /\ (t - num_full n t) = max_chunk n t * t - n.
Proof.
  intros Ht Hn. destruct (max_chunk_bounds n t Ht Hn) as (A & B & C). unfold num_full. lia.
Qed.

Lemma total_chunks n t : 1 <= t -> 1 <= n ->
  total t 0 (max_chunk n t) (num_full n t) = n.
Proof.
  intros Ht Hn. destruct (max_chunk_bounds n t Ht Hn) as (A & B & C).
  destruct (num_full_bounds n t Ht Hn) as (D & E).
  pose proof (total_closed t 0 (max_chunk n t) (num_full n t) C) as T.
  cbn [Nat.add] in T. rewrite Nat.max_r in T by lia. nia.
Qed.

Lemma chunks_length n t : length (chunks n t) = t.
Proof. apply chunk_loop_length. Qed.

Lemma chunks_cover n t : 1 <= t -> 1 <= n -> concat (map ids (chunks n t)) = seq 0 n.
Proof.
  intros Ht Hn. unfold chunks. destruct (max_chunk_bounds n t Ht Hn) as (_ & _ & C).
  rewrite chunk_loop_concat by exact C. now rewrite total_chunks.
Qed.

Lemma chunks_len_cases n t c : 1 <= t <= n -> In c (chunks n t) ->
  (snd c = max_chunk n t \/ snd c = max_chunk n t - 1) /\ 1 <= snd c.
Proof.
  intros [Ht Htn] Hin. assert (Hn : 1 <= n) by lia.
  destruct (max_chunk_bounds n t Ht Hn) as (A & B & C).
  destruct (num_full_bounds n t Ht Hn) as (D & E).
  destruct (chunk_loop_lens _ _ _ _ _ _ C Hin) as (j & Hj & ->). unfold len_at.
  destruct (Nat.leb_spec (num_full n t) j) as [Hle|Hgt]; [|lia].
  split; [right; reflexivity|].
  (* a short chunk exists, so num_full < t, so max_chunk*t > n >= t, so max_chunk >= 2 *)
  assert (num_full n t < t) by lia.
  assert (n < max_chunk n t * t) by lia. nia.
Qed.

Lemma chunks_nonempty n t : 1 <= t <= n -> Forall (fun c => 1 <= snd c) (chunks n t).
Proof. intros H. apply Forall_forall. intros c Hc. exact (proj2 (chunks_len_cases n t c H Hc)). Qed.

Lemma chunks_balanced n t c d : 1 <= t <= n ->
  In c (chunks n t) -> In d (chunks n t) -> snd c <= snd d + 1.
Proof.
  intros H Hc Hd. destruct (chunks_len_cases _ _ _ H Hc) as ([->| ->] & _);
  destruct (chunks_len_cases _ _ _ H Hd) as ([->| ->] & _); lia.
Qed.

(* ---- consequences of [concat (map ids cs) = seq 0 n]: exactly one owner per vBucket ---- *)

Lemma in_concat_nth {A} (ls : list (list A)) x :
  In x (concat ls) <-> exists i l, nth_error ls i = Some l /\ In x l.
Proof.
  split.
  - intros H. apply in_concat in H. destruct H as (l & Hl & Hx).
    apply In_nth_error in Hl. destruct Hl as (i & Hi). now exists i, l.
  - intros (i & l & Hi & Hx). apply in_concat. exists l. split; [eapply nth_error_In; eauto|exact Hx].
Qed.

Lemma NoDup_concat_unique {A} (ls : list (list A)) :
  NoDup (concat ls) ->
  forall i j li lj x, nth_error ls i = Some li -> nth_error ls j = Some lj ->
                      In x li -> In x lj -> i = j.
Proof.
  induction ls as [|l ls IH]; intros ND i j li lj x Hi Hj Xi Xj.
  - destruct i; discriminate.
  - cbn [concat] in ND.
    assert (NDr : NoDup (concat ls)).
    { clear -ND. induction l as [|a l IHl]; [exact ND|]. cbn in ND. inversion ND; subst. now apply IHl. }
    assert (Hdis : forall y, In y l -> ~ In y (concat ls)).
    { clear -ND. induction l as [|a l IHl]; intros y Hy; [contradiction|].
      cbn in ND. inversion ND as [|? ? Hnin ND']; subst. destruct Hy as [->|Hy].
      - intros Hc. apply Hnin. apply in_or_app. now right.
      - now apply IHl. }
    destruct i as [|i], j as [|j]; cbn [nth_error] in *.
    + reflexivity.
    + injection Hi as <-. exfalso. apply (Hdis x Xi). apply in_concat_nth. now exists j, lj.
    + injection Hj as <-. exfalso. apply (Hdis x Xj). apply in_concat_nth. now exists i, li.
    + f_equal. eapply IH; eauto.
Qed.

Lemma ids_range c v : 1 <= snd c -> (In v (ids c) <-> fst c <= v <= fst c + snd c - 1).
Proof. intros H. unfold ids. rewrite in_seq. lia. Qed.

Lemma member_range_spec n t k s e :
  member_range n t k = Some (s, e) <-> exists l, nth_error (chunks n t) (k - 1) = Some (s, l) /\ e = s + l - 1.
Proof.
  unfold member_range, member_chunk. destruct (nth_error (chunks n t) (k - 1)) as [[s' l']|].
  - split; [intros [= <- <-]; now exists l' | intros (l & [= -> ->] & ->); reflexivity].
  - split; [discriminate | intros (l & H & _); discriminate].
Qed.

Lemma owner_exists n t v : 1 <= t <= n -> v < n ->
  exists k s e, 1 <= k <= t /\ member_range n t k = Some (s, e) /\ s <= v <= e.
Proof.
  intros H Hv. assert (Hin : In v (concat (map ids (chunks n t)))).
  { rewrite chunks_cover by lia. apply in_seq. lia. }
  apply in_concat_nth in Hin. destruct Hin as (i & l & Hi & Hx).
  rewrite nth_error_map in Hi. destruct (nth_error (chunks n t) i) as [[s len]|] eqn:Ei; [|discriminate].
  injection Hi as <-.
  assert (Hlt : i < t). { rewrite <- (chunks_length n t). apply nth_error_Some. congruence. }
  assert (Hne : 1 <= len).
  { pose proof (chunks_nonempty n t H) as F. rewrite Forall_forall in F.
    apply (F (s, len)). eapply nth_error_In; eauto. }
  exists (S i), s, (s + len - 1). split; [lia|]. split.
  - apply member_range_spec. exists len. replace (S i - 1) with i by lia. now split.
  - apply (ids_range (s, len) v Hne) in Hx. exact Hx.
Qed.

Lemma owner_unique n t v k1 k2 s1 e1 s2 e2 : 1 <= t <= n ->
  1 <= k1 -> 1 <= k2 ->
  member_range n t k1 = Some (s1, e1) -> s1 <= v <= e1 ->
  member_range n t k2 = Some (s2, e2) -> s2 <= v <= e2 -> k1 = k2.
Proof.
  intros H K1 K2 M1 V1 M2 V2.
  apply member_range_spec in M1, M2. destruct M1 as (l1 & N1 & ->), M2 as (l2 & N2 & ->).
  pose proof (chunks_nonempty n t H) as F. rewrite Forall_forall in F.
  assert (L1 : 1 <= l1) by (apply (F (s1, l1)); eapply nth_error_In; eauto).
  assert (L2 : 1 <= l2) by (apply (F (s2, l2)); eapply nth_error_In; eauto).
  assert (ND : NoDup (concat (map ids (chunks n t)))).
  { rewrite chunks_cover by lia. apply seq_NoDup. }
  assert (k1 - 1 = k2 - 1); [|lia].
  eapply (NoDup_concat_unique _ ND (k1 - 1) (k2 - 1) (ids (s1, l1)) (ids (s2, l2)) v).
  - rewrite nth_error_map, N1. reflexivity.
  - rewrite nth_error_map, N2. reflexivity.
  - apply ids_range; cbn; lia.
  - apply ids_range; cbn; lia.
Qed.

(* ---- the binary twin computes the same thing ---- *)
Definition toN2 (p : nat * nat) : N * N := (N.of_nat (fst p), N.of_nat (snd p)).

Lemma chunk_loopN_correct k : forall i s m f,
  chunk_loopN k (N.of_nat i) (N.of_nat s) (N.of_nat m) (N.of_nat f) = map toN2 (chunk_loop k i s m f).
Proof.
  induction k as [|k IH]; intros i s m f; [reflexivity|].
  cbn [chunk_loopN chunk_loop map]. unfold toN2 at 1; cbn [fst snd].
  assert (E : (N.of_nat f <=? N.of_nat i)%N = (f <=? i)).
  { destruct (Nat.leb_spec f i); [apply N.leb_le|apply N.leb_gt]; lia. }
  rewrite E. rewrite <- Nat2N.inj_succ.
  destruct (f <=? i).
  - replace (N.of_nat s + N.of_nat m - 1)%N with (N.of_nat (s + m - 1)) by lia.
    rewrite IH. f_equal. f_equal. lia.
  - replace (N.of_nat s + N.of_nat m)%N with (N.of_nat (s + m)) by lia.
    rewrite IH. f_equal. f_equal. lia.
Qed.

Lemma max_chunkN_correct n t : max_chunkN (N.of_nat n) (N.of_nat t) = N.of_nat (max_chunk n t).
Proof.
  unfold max_chunkN, max_chunk. rewrite Nat2N.inj_add, Nat2N.inj_div, Nat2N.inj_sub. reflexivity.
Qed.

Lemma num_fullN_correct n t : num_fullN (N.of_nat n) (N.of_nat t) = N.of_nat (num_full n t).
Proof.
  unfold num_fullN, num_full. rewrite max_chunkN_correct.
  rewrite !Nat2N.inj_sub, Nat2N.inj_mul. reflexivity.
Qed.

Lemma chunksN_correct n t : chunksN (N.of_nat n) (N.of_nat t) = map toN2 (chunks n t).
Proof.
  unfold chunksN, chunks. rewrite Nat2N.id, max_chunkN_correct, num_fullN_correct.
  exact (chunk_loopN_correct t 0 0 _ _).
Qed.

Lemma member_rangeN_correct n t k :
  member_rangeN (N.of_nat n) (N.of_nat t) (N.of_nat k) = option_map toN2 (member_range n t k).
Proof.
  unfold member_rangeN, member_range, member_chunk. rewrite chunksN_correct, nth_error_map.
  replace (N.to_nat (N.of_nat k - 1)) with (k - 1) by lia.
  destruct (nth_error (chunks n t) (k - 1)) as [[s l]|]; cbn; [|reflexivity].
  unfold toN2; cbn. f_equal. f_equal. lia.
Qed.
