From Verif Require Import Base.Prelude Model.SwissMap.
Local Open Scope N_scope.

Definition sm_inv {A} (m : smap_of A) : Prop := NoDup (map fst m).

Lemma load_remove {A} (m : smap_of A) k k' : sm_load (sm_remove m k) k' = if k' =? k then None else sm_load m k'.
Proof.
  induction m as [|[a b] r IH]; cbn [sm_remove sm_load].
  - destruct (k' =? k); reflexivity.
  - destruct (N.eqb_spec a k) as [Hak|Hak].
    + rewrite IH. destruct (N.eqb_spec k' k) as [H|H]; [reflexivity|].
      destruct (N.eqb_spec a k') as [H2|H2]; [congruence|reflexivity].
    + cbn [sm_load]. rewrite IH. destruct (N.eqb_spec a k') as [H2|H2].
      * destruct (N.eqb_spec k' k) as [H|H]; [congruence|reflexivity].
      * reflexivity.
Qed.

Lemma load_store {A} (m : smap_of A) k v k' : sm_load (sm_store m k v) k' = if k' =? k then Some v else sm_load m k'.
Proof.
  unfold sm_store; cbn [sm_load]. rewrite load_remove.
  destruct (N.eqb_spec k k') as [H|H]; destruct (N.eqb_spec k' k) as [H2|H2]; congruence.
Qed.

Lemma keys_remove {A} (m : smap_of A) k a : In a (map fst (sm_remove m k)) <-> a <> k /\ In a (map fst m).
Proof.
  induction m as [|[x y] r IH]; cbn [sm_remove map fst In].
  - tauto.
  - destruct (N.eqb_spec x k) as [H|H].
    + rewrite IH. split; [tauto|]. intros [Ha [Hx|Hr]]; [congruence|tauto].
    + cbn [map fst In]. rewrite IH. split.
      * intros [Hx|[Ha Hr]]; [subst; tauto|tauto].
      * tauto.
Qed.

Lemma inv_remove {A} (m : smap_of A) k : sm_inv m -> sm_inv (sm_remove m k).
Proof.
  unfold sm_inv. induction m as [|[x y] r IH]; cbn [sm_remove map fst]; intros H.
  - constructor.
  - inversion H as [|? ? Hn Hr]; subst. destruct (x =? k).
    + apply IH; assumption.
    + cbn [map fst]. constructor; [|apply IH; assumption].
      intros Hin. apply keys_remove in Hin. tauto.
Qed.

Lemma inv_store {A} (m : smap_of A) k v : sm_inv m -> sm_inv (sm_store m k v).
Proof.
  intros H. unfold sm_inv, sm_store. cbn [map fst]. constructor; [|apply inv_remove; assumption].
  intros Hin. apply keys_remove in Hin. tauto.
Qed.

Lemma step_inv m o : sm_inv m -> sm_inv (fst (sm_step m o)).
Proof.
  intros H. destruct o as [k v|k|k|k mode v| |stop| |]; cbn [sm_step fst]; try assumption.
  - apply inv_store; assumption.
  - apply inv_remove; assumption.
  - destruct (sif_decide mode v (sm_load m k)); [apply inv_store|]; assumption.
Qed.

Lemma run_fst m ops : fst (sm_run m ops) = fold_left (fun s o => fst (sm_step s o)) ops m.
Proof.
  revert m; induction ops as [|o r IH]; intros m; cbn [sm_run fold_left]; [reflexivity|].
  destruct (sm_step m o) as [m' out] eqn:E. specialize (IH m'). destruct (sm_run m' r) as [m'' outs].
  cbn [fst] in *. exact IH.
Qed.

Lemma run_inv ops : forall m, sm_inv m -> sm_inv (fst (sm_run m ops)).
Proof.
  intros m H. rewrite run_fst. revert m H.
  induction ops as [|o r IH]; intros m H; cbn [fold_left]; [exact H|].
  apply IH, step_inv, H.
Qed.

Lemma keys_load {A} (m : smap_of A) k : In k (map fst m) <-> sm_load m k <> None.
Proof.
  induction m as [|[x y] r IH]; cbn [map fst In sm_load].
  - split; [tauto|congruence].
  - destruct (N.eqb_spec x k) as [H|H].
    + split; [congruence|tauto].
    + rewrite <- IH. tauto.
Qed.

Lemma in_load {A} (m : smap_of A) k v : sm_inv m -> (In (k, v) m <-> sm_load m k = Some v).
Proof.
  unfold sm_inv. induction m as [|[x y] r IH]; cbn [map fst In sm_load]; intros H.
  - split; [tauto|congruence].
  - inversion H as [|? ? Hn Hr]; subst. destruct (N.eqb_spec x k) as [E|E].
    + subst. split.
      * intros [Hx|Hx]; [congruence|]. exfalso. apply Hn. apply (in_map fst) in Hx. exact Hx.
      * intros Hx. left. congruence.
    + rewrite <- (IH Hr). split; [intros [Hx|Hx]; [congruence|exact Hx]|tauto].
Qed.

(* one step commutes with the abstraction to a total function *)
Lemma step_refines m f o : (forall k, sm_load m k = f k) -> forall k, sm_load (fst (sm_step m o)) k = spec_step f o k.
Proof.
  intros H k'. destruct o as [k v|k|k|k mode v| |stop| |]; cbn [sm_step fst spec_step]; try apply H.
  - rewrite load_store. unfold fm_upd. rewrite H. reflexivity.
  - rewrite load_remove. unfold fm_upd. rewrite H. reflexivity.
  - rewrite (H k). destruct (sif_decide mode v (f k)); [|apply H].
    rewrite load_store. unfold fm_upd. rewrite H. reflexivity.
Qed.

Lemma run_refines ops : forall m f, (forall k, sm_load m k = f k) ->
  forall k, sm_load (fst (sm_run m ops)) k = fold_left spec_step ops f k.
Proof.
  intros m f H k. rewrite run_fst. revert m f H.
  induction ops as [|o r IH]; intros m f H; cbn [fold_left]; [apply H|].
  apply IH. intros k0. apply step_refines, H.
Qed.

(* the outputs, in terms of the state before the step *)
Lemma step_out m o :
  snd (sm_step m o) =
  match o with
  | SStore _ _ | SDelete _ => OUnit
  | SLoad k | SStoreIf k _ _ => OLoad (sm_load m k)
  | SCount => OCount (length m)
  | SRange None => ORange (length m)
  | SRange (Some n) => ORange (Nat.min n (length m))
  | SToMap | SJson => OMap m
  end.
Proof. destruct o as [k v|k|k|k mode v| |[n|]| |]; reflexivity. Qed.

(* StoreIf with the monotone condition never lowers a value *)
Lemma storeif_monotone m k v p : sm_load m k = Some p ->
  exists q, sm_load (fst (sm_step m (SStoreIf k 3 v))) k = Some q /\ p <= q /\ v <= q.
Proof.
  intros H. cbn [sm_step fst]. rewrite H. cbn [sif_decide]. destruct (N.ltb_spec p v) as [L|L].
  - exists v. rewrite load_store, N.eqb_refl. split; [reflexivity|lia].
  - exists p. split; [exact H|lia].
Qed.

(* ---- stores of distinct keys issued concurrently (one goroutine per vBucket): whatever order they take effect in,
   the container represents the same function ---- *)
From Coq Require Import Permutation.

Definition sm_stores {A} (kvs : smap_of A) (m : smap_of A) : smap_of A :=
  fold_left (fun m kv => sm_store m (fst kv) (snd kv)) kvs m.

Lemma load_stores {A} (kvs : smap_of A) : forall m k, sm_inv kvs ->
  sm_load (sm_stores kvs m) k = match sm_load kvs k with Some v => Some v | None => sm_load m k end.
Proof.
  unfold sm_stores, sm_inv. induction kvs as [|[a b] r IH]; intros m k H; cbn [fold_left map fst snd sm_load]; [reflexivity|].
  inversion H as [|? ? Hn Hr]; subst. rewrite (IH _ k Hr). rewrite load_store.
  destruct (N.eqb_spec a k) as [E|E].
  - subst. rewrite N.eqb_refl. destruct (sm_load r k) eqn:L; [|reflexivity].
    exfalso. apply Hn. apply keys_load. congruence.
  - destruct (N.eqb_spec k a) as [E2|E2]; [congruence|reflexivity].
Qed.

Lemma load_perm {A} (kvs kvs' : smap_of A) k : sm_inv kvs -> Permutation kvs kvs' -> sm_load kvs k = sm_load kvs' k.
Proof.
  intros Hi Hp.
  assert (Hi' : sm_inv kvs') by (unfold sm_inv in *; eapply Permutation_NoDup; [apply Permutation_map; exact Hp|exact Hi]).
  destruct (sm_load kvs k) as [v|] eqn:L.
  - apply (in_load kvs k v Hi) in L. symmetry. apply (in_load kvs' k v Hi'). eapply Permutation_in; eassumption.
  - destruct (sm_load kvs' k) as [v'|] eqn:L'; [|reflexivity].
    apply (in_load kvs' k v' Hi') in L'. apply Permutation_sym in Hp.
    apply (Permutation_in _ Hp) in L'. apply (in_load kvs k v' Hi) in L'. congruence.
Qed.

Lemma stores_commute {A} (kvs kvs' m : smap_of A) k : sm_inv kvs -> Permutation kvs kvs' ->
  sm_load (sm_stores kvs m) k = sm_load (sm_stores kvs' m) k.
Proof.
  intros Hi Hp.
  assert (Hi' : sm_inv kvs') by (unfold sm_inv in *; eapply Permutation_NoDup; [apply Permutation_map; exact Hp|exact Hi]).
  rewrite (load_stores kvs m k Hi), (load_stores kvs' m k Hi'), (load_perm kvs kvs' k Hi Hp). reflexivity.
Qed.
