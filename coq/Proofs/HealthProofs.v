From Verif Require Import Base.Prelude Model.Health.

Definition outs_of (s : hstate) (ops : list hop) : list hout := concat (snd (h_run s ops)).

Lemma h_run_cons s o ops :
  outs_of s (o :: ops) = snd (h_step s o) ++ outs_of (fst (h_step s o)) ops.
Proof.
  unfold outs_of. cbn [h_run]. destruct (h_step s o) as [s1 out]. cbn [fst snd].
  destruct (h_run s1 ops) as [s2 outs]. reflexivity.
Qed.

(* ---- once the goroutine is gone (and Start is used up) nothing pings any more ---- *)
Definition dead (s : hstate) : Prop := running s = false /\ start_once s = true.

Lemma in_stop_returns k : ~ In OPing (stop_returns k).
Proof. unfold stop_returns. intros H. apply repeat_spec in H. discriminate. Qed.

Lemma dead_step s o : dead s -> dead (fst (h_step s o)) /\ ~ In OPing (snd (h_step s o)).
Proof.
  intros [R S]. destruct s as [so st ru ca sw p cr]; cbn in R, S; subst.
  unfold h_step, dead.
  destruct cr, o as [| |[|]|[|]], st, ca, p as [|n|n]; cbn -[Nat.ltb max_retries stop_returns];
    try (destruct (n <? max_retries)); try (destruct (0 <? sw)); cbn -[stop_returns];
    intuition (try discriminate; try congruence; try (eapply in_stop_returns; eassumption)).
Qed.

Lemma dead_no_ping ops : forall s, dead s -> ~ In OPing (outs_of s ops).
Proof.
  induction ops as [|o ops IH]; intros s D; [cbn; tauto|].
  rewrite h_run_cons. intros Hin. apply in_app_or in Hin.
  destruct (dead_step s o D) as [D' NP]. destruct Hin; [tauto|]. exact (IH _ D' H).
Qed.

(* invariant of the states reachable after Start *)
Definition hinv (s : hstate) : Prop :=
  start_once s = true /\
  (stop_once s = true -> cancelled s = true \/ crashed s = true) /\
  (cancelled s = true -> running s = true -> 0 < stop_waiting s) /\
  (0 < stop_waiting s -> running s = true \/ crashed s = true).

Lemma hinv_ready : hinv h_ready.
Proof. unfold hinv, h_ready; cbn. intuition (try discriminate; try lia). Qed.

Lemma hinv_step s o : hinv s -> hinv (fst (h_step s o)).
Proof.
  intros (I1 & I2 & I3 & I4).
  destruct s as [so st ru ca sw p cr]; cbn in *; subst.
  unfold h_step, hinv.
  destruct cr, o as [| |[|]|[|]], st, ca, ru, p as [|n|n]; cbn -[Nat.ltb max_retries stop_returns] in *;
    try (destruct (n <? max_retries)); try (destruct (Nat.ltb_spec 0 sw)); cbn -[stop_returns];
    intuition (try discriminate; try congruence; try lia).
Qed.

(* a Stop() that returns leaves no checker behind *)
Lemma stop_returned_dead s o :
  hinv s -> In OStopReturned (snd (h_step s o)) -> dead (fst (h_step s o)).
Proof.
  intros (I1 & I2 & I3 & I4).
  destruct s as [so st ru ca sw p cr]; cbn in *; subst.
  unfold h_step, dead.
  destruct cr, o as [| |[|]|[|]], st, ca, ru, p as [|n|n]; cbn -[Nat.ltb max_retries stop_returns] in *;
    try (destruct (n <? max_retries)); try (destruct (Nat.ltb_spec 0 sw)); cbn -[stop_returns];
    intuition (try discriminate; try congruence; try lia).
Qed.

Lemma hinv_run pre : forall s, hinv s -> hinv (fst (h_run s pre)).
Proof.
  induction pre as [|o pre IH]; intros s I; [exact I|].
  cbn [h_run]. pose proof (hinv_step s o I) as I1. destruct (h_step s o) as [s1 out]. cbn [fst] in I1.
  specialize (IH s1 I1). destruct (h_run s1 pre) as [s2 outs]. exact IH.
Qed.

Lemma outs_app s pre post :
  outs_of s (pre ++ post) = outs_of s pre ++ outs_of (fst (h_run s pre)) post.
Proof.
  revert s. induction pre as [|o pre IH]; intros s; [reflexivity|].
  cbn [app]. rewrite !h_run_cons, IH, app_assoc. f_equal. f_equal.
  cbn [h_run]. destruct (h_step s o) as [s1 out]. cbn [fst]. destruct (h_run s1 pre) as [s2 outs]. reflexivity.
Qed.

(* the property: in any history after Start, once a Stop() call has returned (the step emitted
   OStopReturned), no ping is issued any more, whatever happens next *)
Lemma no_ping_after_stop pre o post :
  let s1 := fst (h_run h_ready pre) in
  In OStopReturned (snd (h_step s1 o)) -> ~ In OPing (outs_of (fst (h_step s1 o)) post).
Proof.
  intros s1 Hin. apply dead_no_ping. apply stop_returned_dead; [|exact Hin].
  apply hinv_run, hinv_ready.
Qed.

(* a Stop() always returns: at once when no ping is in flight, otherwise with that ping's result
   (unless that was the fifth failure, which ends the process) *)
Lemma stop_returns_promptly s :
  hinv s -> crashed s = false -> stop_once s = false ->
  (forall n, ph s <> Pinging n) -> snd (h_step s Stop) = [OStopReturned].
Proof.
  intros (I1 & I2 & I3 & I4) C S P. destruct s as [so st ru ca sw p cr]; cbn in *; subst.
  unfold h_step; cbn. destruct ru; cbn; [|reflexivity]. destruct p; try reflexivity. now elim (P n).
Qed.

Lemma stop_returns_with_ping s n ok :
  hinv s -> crashed s = false -> stop_once s = false -> running s = true -> ph s = Pinging n ->
  (ok = true \/ n < max_retries) ->
  snd (h_step (fst (h_step s Stop)) (PingRes ok)) = [OStopReturned].
Proof.
  intros (I1 & I2 & I3 & I4) C S R P Hok. destruct s as [so st ru ca sw p cr]; cbn in *; subst.
  unfold h_step; cbn -[Nat.ltb max_retries]. destruct ok; [reflexivity|].
  destruct Hok as [?|Hlt]; [discriminate|]. apply Nat.ltb_lt in Hlt. rewrite Hlt. reflexivity.
Qed.

(* ---- one round ---- *)
Definition in_round (n : nat) : hstate := H true false true false 0 (Pinging n) false.

Lemma crashed_no_out ops : forall s, crashed s = true -> outs_of s ops = [].
Proof.
  induction ops as [|o ops IH]; intros s K; [reflexivity|].
  rewrite h_run_cons. unfold h_step. rewrite K. cbn. now apply IH.
Qed.

Lemma round_panic rs : forall n, 1 <= n <= max_retries ->
  (In OPanic (outs_of (in_round n) (round_ops rs)) <-> max_retries - n < leading_failures rs).
Proof.
  unfold max_retries.
  induction rs as [|r rs IH]; intros n Hn; [cbn [round_ops leading_failures]; unfold outs_of; cbn [h_run snd concat In]; split; [tauto|lia]|].
  destruct r; cbn [round_ops leading_failures].
  - rewrite h_run_cons. unfold in_round, h_step; cbn -[Nat.sub Nat.min]. split; [tauto|lia].
  - rewrite h_run_cons. unfold in_round at 1 2, h_step at 1 2; cbn [crashed ph].
    unfold max_retries. destruct (Nat.ltb_spec n 5) as [Hlt|Hge]; cbn [cancelled fst snd app].
    + rewrite h_run_cons. unfold h_step at 1 2; cbn -[Nat.sub Nat.min].
      specialize (IH (S n) ltac:(lia)). unfold in_round in IH.
      split.
      * intros [H|H]; [discriminate|]. apply IH in H. lia.
      * intros H. right. apply IH. lia.
    + rewrite crashed_no_out by reflexivity. cbn -[Nat.sub Nat.min]. split; [lia|auto].
Qed.

Lemma round_pings rs : forall n, 1 <= n <= max_retries ->
  count_pings (outs_of (in_round n) (round_ops rs)) = Nat.min (max_retries - n) (leading_failures rs).
Proof.
  unfold max_retries.
  induction rs as [|r rs IH]; intros n Hn; [cbn [round_ops leading_failures]; unfold outs_of, count_pings; cbn [h_run snd concat filter length]; lia|].
  destruct r; cbn [round_ops leading_failures].
  - rewrite h_run_cons. unfold in_round, h_step; cbn -[Nat.sub Nat.min]. lia.
  - rewrite h_run_cons. unfold in_round at 1 2, h_step at 1 2; cbn [crashed ph].
    unfold max_retries. destruct (Nat.ltb_spec n 5) as [Hlt|Hge]; cbn [cancelled fst snd app].
    + rewrite h_run_cons. unfold h_step at 1 2; cbn [crashed running cancelled negb orb ph fst snd start_once stop_once].
      specialize (IH (S n) ltac:(lia)). unfold in_round in IH.
      unfold count_pings in *. cbn [app filter is_ping length]. rewrite IH. lia.
    + rewrite crashed_no_out by reflexivity. cbn -[Nat.sub Nat.min]. lia.
Qed.

(* a success among the first five results ends the round without consequence: back to idle *)
Lemma round_success rs : forall n, 1 <= n <= max_retries ->
  leading_failures rs <= max_retries - n -> leading_failures rs < length rs ->
  fst (h_run (in_round n) (round_ops rs)) = h_ready.
Proof.
  unfold max_retries.
  induction rs as [|r rs IH]; intros n Hn Hlf Hlen; [cbn in Hlen; lia|].
  destruct r; cbn [round_ops leading_failures length] in *.
  - cbn -[Nat.sub Nat.min]. reflexivity.
  - cbn [h_run]. unfold in_round at 1, h_step at 1; cbn [crashed ph].
    unfold max_retries. destruct (Nat.ltb_spec n 5) as [Hlt|Hge]; [|lia]. cbn [cancelled].
    unfold h_step at 1; cbn [crashed running cancelled negb orb ph start_once stop_once].
    specialize (IH (S n) ltac:(lia) ltac:(lia) ltac:(lia)). unfold in_round in IH.
    destruct (h_run _ (round_ops rs)) as [s2 outs] eqn:E. cbn in IH |- *. exact IH.
Qed.

(* the whole round, from the tick *)
Lemma tick_round rs :
  outs_of h_ready (Await false :: round_ops rs) = OPing :: outs_of (in_round 1) (round_ops rs).
Proof. rewrite h_run_cons. reflexivity. Qed.

(* ---- once-guards ---- *)
Lemma start_idempotent s : start_once s = true -> h_step s Start = (s, []).
Proof. intros H. unfold h_step. destruct (crashed s); [reflexivity|]. now rewrite H. Qed.

Lemma stop_idempotent s : stop_once s = true -> stop_waiting s = 0 -> crashed s = false ->
  h_step s Stop = (s, [OStopReturned]).
Proof. intros H W C. unfold h_step. rewrite C, H, W. reflexivity. Qed.
