From Verif Require Import Base.Prelude Base.Bytes Model.Version Proofs.BytesProofs.
Local Open Scope Z_scope.

(* the lexicographic order the code is meant to implement *)
Definition lex_gt (v o : version) : Prop :=
  major v > major o \/ (major v = major o /\
  (minor v > minor o \/ (minor v = minor o /\
  (patch v > patch o \/ (patch v = patch o /\ build v > build o))))).

Definition veq (v o : version) : Prop :=
  major v = major o /\ minor v = minor o /\ patch v = patch o /\ build v = build o.

Ltac cmp :=
  repeat match goal with
  | |- context [?a >? ?b] => destruct (Z.gtb_spec a b)
  | |- context [?a <? ?b] => destruct (Z.ltb_spec a b)
  | |- context [?a =? ?b] => destruct (Z.eqb_spec a b)
  | H : context [?a >? ?b] |- _ => destruct (Z.gtb_spec a b)
  | H : context [?a <? ?b] |- _ => destruct (Z.ltb_spec a b)
  | H : context [?a =? ?b] |- _ => destruct (Z.eqb_spec a b)
  end.

Lemma higher_spec v o : higher v o = true <-> lex_gt v o.
Proof. unfold higher, lex_gt. cmp; split; intros; try discriminate; try reflexivity; lia. Qed.

Lemma equal_spec v o : equal v o = true <-> veq v o.
Proof. unfold equal, veq. cmp; cbn; split; intros; try discriminate; try reflexivity; lia. Qed.

Lemma veq_eq v o : veq v o <-> v = o.
Proof.
  destruct v, o; unfold veq; cbn. split; [intros (-> & -> & -> & ->); reflexivity | intros [= -> -> -> ->]; auto].
Qed.

Lemma lower_spec v o : lower v o = true <-> lex_gt o v.
Proof.
  unfold lower. rewrite andb_true_iff, !negb_true_iff.
  destruct (higher v o) eqn:H; destruct (equal v o) eqn:E.
  - apply higher_spec in H. apply equal_spec in E. unfold lex_gt, veq in *. split; [intros [? ?]; discriminate|lia].
  - apply higher_spec in H. unfold lex_gt in *. split; [intros [? ?]; discriminate|lia].
  - apply equal_spec in E. unfold lex_gt, veq in *. split; [intros [? ?]; discriminate|lia].
  - assert (~ lex_gt v o) by (rewrite <- higher_spec; congruence).
    assert (~ veq v o) by (rewrite <- equal_spec; congruence).
    unfold lex_gt, veq in *. split; [intros _; lia|auto].
Qed.

(* exactly one of lower / equal / higher *)
Lemma trichotomy v o :
  (lower v o = true /\ equal v o = false /\ higher v o = false) \/
  (lower v o = false /\ equal v o = true /\ higher v o = false) \/
  (lower v o = false /\ equal v o = false /\ higher v o = true).
Proof.
  destruct (higher v o) eqn:H; destruct (equal v o) eqn:E; unfold lower; rewrite H, E; cbn; auto.
  apply higher_spec in H. apply equal_spec in E. unfold lex_gt, veq in *. lia.
Qed.

Lemma higher_antisym v o : higher v o = true -> higher o v = false.
Proof.
  intros H. apply higher_spec in H. destruct (higher o v) eqn:E; [|reflexivity].
  apply higher_spec in E. unfold lex_gt in *. lia.
Qed.

Lemma higher_trans a b c : higher a b = true -> higher b c = true -> higher a c = true.
Proof. rewrite !higher_spec. unfold lex_gt. lia. Qed.

Lemma higher_lower v o : higher v o = lower o v.
Proof.
  destruct (higher v o) eqn:H; symmetry.
  - apply lower_spec. now apply higher_spec.
  - destruct (lower o v) eqn:L; [|reflexivity]. apply lower_spec in L. apply higher_spec in L. congruence.
Qed.

Lemma equal_eq v o : equal v o = true <-> v = o.
Proof. rewrite equal_spec. apply veq_eq. Qed.

(* "at least" as used by the gates *)
Definition geq (v o : version) : bool := higher v o || equal v o.

Lemma geq_spec v o : geq v o = true <-> (lex_gt v o \/ veq v o).
Proof. unfold geq. rewrite orb_true_iff, higher_spec, equal_spec. reflexivity. Qed.

Lemma geq_trans a b c : geq a b = true -> geq b c = true -> geq a c = true.
Proof. rewrite !geq_spec. unfold lex_gt, veq. lia. Qed.

Lemma geq_total a b : geq a b = true \/ geq b a = true.
Proof. rewrite !geq_spec. unfold lex_gt, veq. lia. Qed.

Lemma lower_not_geq v o : lower v o = negb (geq v o).
Proof. unfold lower, geq. now rewrite negb_orb. Qed.

(* ---- parser ---- *)
Lemma parse_render ma mi pa bu ed :
  (ma < two63)%N -> (mi < two63)%N -> (pa < two63)%N -> (bu < two63)%N ->
  parse (render ma mi pa bu ed) = Some (V (Z.of_N ma) (Z.of_N mi) (Z.of_N pa) (Z.of_N bu)).
Proof.
  intros H1 H2 H3 H4. unfold parse, render.
  assert (ND : forall n, contains dot (dec n) = false) by (intros n; apply digits_no; [apply dec_digits|unfold dot; lia]).
  assert (NS : forall n, contains dash (dec n) = false) by (intros n; apply digits_no; [apply dec_digits|unfold dash; lia]).
  cbn [app]. rewrite split_app by apply ND. rewrite split_app by apply ND.
  rewrite (atoi_dec ma H1), (atoi_dec mi H2). cbn [negb].
  match goal with |- context [split dot ?s] => destruct (split_hd dot s) as [t Ht]; rewrite Ht end.
  rewrite before_app by apply ND. cbn [before]. replace (dash =? dot)%N with false by reflexivity.
  rewrite before_app by apply ND. cbn [before]. replace (dash =? dot)%N with false by reflexivity.
  rewrite split_app by apply NS. rewrite split_app by apply NS.
  rewrite (atoi_dec pa H3), (atoi_dec bu H4). reflexivity.
Qed.
