(* Metadata backends (metadata/file_metadata.go, metadata/read_metadata.go, couchbase/metadata.go) as
   abstract stores, and the start-up decision (stream/checkpoint.go Load, stream/stream.go openAllStreams)
   with injected faults. *)
From Verif Require Import Base.Prelude Base.Bytes Model.Stream.
Local Open Scope N_scope.

(* ---- file backend: one JSON object holding every document of the last save ---- *)
Definition file := option (list (N * doc)).          (* None = the file does not exist *)
Definition file_save (f : file) (dump : list (N * doc)) (dirty : list N) : file := Some dump.
(* Load: (documents, exist); a missing file gives the empty document for every requested vBucket *)
Definition file_load (f : file) (vbs : list N) : list (N * doc) * bool :=
  match f with
  | None => (map (fun vb => (vb, empty_doc)) vbs, false)
  | Some l => (l, true)
  end.

(* ---- Couchbase backend: one document per vBucket, only dirty ones written ---- *)
Definition cb_save (st : fmap doc) (dump : list (N * doc)) (dirty : list N) : fmap doc :=
  fold_left (fun m vb => match lookup_doc dump vb with Some d => fupd m vb d | None => m end) dirty st.
Definition cb_load (st : fmap doc) (vbs : list N) : list (N * doc) * bool :=
  (map (fun vb => (vb, loaded_doc st vb)) vbs, store_exists st vbs).

(* ---- read-only wrapper around any backend with store type S ---- *)
Definition ro_save {S} (s : S) (dump : list (N * doc)) (dirty : list N) : S := s.

(* ---- start-up with injected faults ---- *)
Record faults := Faults {
  f_load : bool;            (* metadata load fails *)
  f_seqno : bool;           (* the high-seqno query fails *)
  f_faillog : bool;         (* the failover-log query fails (only asked for auto-reset latest without checkpoints) *)
  f_open : list N;          (* vBuckets whose stream cannot be opened *)
  f_partial : bool          (* the backend returns only the documents it holds (file backend with an existing file) *)
}.

Inductive startup_result :=
  | Started (reqs : list (N * offset))
  | Refused                  (* terminated before any stream request *)
  | OpenFailed.              (* terminated because a stream could not be opened *)

Definition startup (c : cfg) (st : fmap doc) (first last : N) (sv : server) (f : faults) : startup_result :=
  if f_load f || f_seqno f then Refused else
  let vbs := vb_list first last in
  let exist := store_exists st vbs in
  if negb (f_partial f) && negb exist && c_latest c && f_faillog f && negb (match vbs with [] => true | _ => false end) then Refused else
  let vbs_loaded := if f_partial f then List.filter (fun vb => match st vb with Some _ => true | None => false end) vbs else vbs in
  let exist := if f_partial f then true else exist in
  match load_all c exist st (assoc (sv_high sv)) (assoc (sv_uuid sv)) vbs_loaded with
  | None => Refused
  | Some (offs, _, _) =>
      (* a vBucket without an offset cannot be opened ("not found on offset map") *)
      if existsb (fun vb => mem vb (f_open f) || match offs vb with None => true | Some _ => false end) vbs then OpenFailed
      else Started (flat_map (fun vb => match offs vb with Some o => [(vb, o)] | None => [] end) vbs)
  end.

(* ---- a history of one read-only wrapper object around the file backend: saves that reach the wrapped backend directly
   (another consumer of the group, or the same application through the backend it handed in), saves and clears attempted
   through the wrapper, loads through the wrapper ---- *)
Inductive ro_step :=
  | RoBackendSave (dump : list (N * doc)) (dirty : list N)
  | RoBackendClear
  | RoSave (dump : list (N * doc)) (dirty : list N)
  | RoLoad (vbs : list N).

(* state of the wrapped backend; what every load through the wrapper returned *)
Fixpoint ro_run (f : file) (l : list ro_step) : file * list (list (N * doc) * bool) :=
  match l with
  | [] => (f, [])
  | RoBackendSave d di :: r => ro_run (file_save f d di) r
  | RoBackendClear :: r => ro_run None r
  | RoSave d di :: r => ro_run (ro_save f d di) r
  | RoLoad vbs :: r => let '(f', outs) := ro_run f r in (f', file_load f vbs :: outs)
  end.

Definition through_wrapper (s : ro_step) : bool := match s with RoSave _ _ => true | _ => false end.
