(* Keys of the documents the library itself writes (couchbase/metadata.go getCheckpointID l.152-160,
   couchbase/membership.go NewCBMembership l.348-349) and the reserved-prefix test (helpers/utils.go). *)
From Verif Require Import Base.Prelude Base.Bytes Model.Stream.
Local Open Scope N_scope.

Definition colon : N := 58.
Definition dotc : N := 46.
Definition s_checkpoint : bytes := (* ":checkpoint:" *) [58;99;104;101;99;107;112;111;105;110;116;58].
Definition s_instance : bytes := (* ":instance:" *) [58;105;110;115;116;97;110;99;101;58].
Definition s_all : bytes := (* "all" *) [97;108;108].

(* None = panic "unsupported group name includes dot" *)
Definition checkpoint_id (group : bytes) (vb : N) : option bytes :=
  if contains dotc group then None else Some (prefix_connector ++ group ++ s_checkpoint ++ dec vb).
Definition instance_id (group uuid : bytes) : bytes := prefix_connector ++ group ++ s_instance ++ uuid.
Definition index_id (group : bytes) : bytes := prefix_connector ++ group ++ s_instance ++ s_all.
