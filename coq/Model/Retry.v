(* Model of stream.reopenStream (stream/stream.go): the bounded retry loop that re-opens the stream of one vBucket
   after a transient end.  `for { lock; if observers == nil { unlock; return }; err := openStream(vb); unlock;
   if err == nil { break }; retry--; if retry == 0 { panic(err) }; sleep 1 s }` with retry = 5.

   Inputs of a run of the loop (everything the loop does not decide itself):
     answers i  : does the i-th stream request (0-based) succeed?
     closed i   : has the stream been closed (by the close half of a rebalance or by Close(): observers == nil)
                  by the time the i-th attempt takes the lifecycle lock?  Closing is not undone for this loop: whoever
                  re-opens the stream creates new observers and requests every vBucket itself, but the flag the loop
                  reads can then be false again, so `closed` is an arbitrary function, not a monotone one.
   Outputs: the number of stream requests issued and how the loop ended. *)
From Coq Require Import List Arith Bool Lia.
Import ListNotations.

Inductive routcome :=
  | Reopened     (* a request succeeded: the vBucket is streamed again *)
  | Abandoned    (* the stream had been closed: nothing to re-open, the goroutine ends quietly *)
  | GaveUp.      (* the last permitted request failed: panic, the client terminates *)

Definition retry_budget : nat := 5.

(* `reopen_loop retry i`: the loop with `retry` attempts left, about to make attempt number i *)
Fixpoint reopen_loop (closed : nat -> bool) (answers : nat -> bool) (retry i : nat) : nat * routcome :=
  match retry with
  | 0 => (0, GaveUp)                       (* not reached from retry_budget: the loop panics when retry hits 0 *)
  | S r =>
      if closed i then (0, Abandoned) else
      if answers i then (1, Reopened) else
      match r with
      | 0 => (1, GaveUp)
      | S _ => let '(n, o) := reopen_loop closed answers r (S i) in (S n, o)
      end
  end.

Definition reopen (closed : nat -> bool) (answers : nat -> bool) : nat * routcome :=
  reopen_loop closed answers retry_budget 0.

(* the attempt numbers at which a request was issued, for "no request once the stream is closed" *)
Fixpoint reopen_requests (closed : nat -> bool) (answers : nat -> bool) (retry i : nat) : list nat :=
  match retry with
  | 0 => []
  | S r =>
      if closed i then [] else
      if answers i then [i] else
      i :: reopen_requests closed answers r (S i)
  end.

(* helpers for the correspondence: finite descriptions of the inputs *)
Definition answers_of (fails : nat) : nat -> bool := fun i => fails <=? i.           (* the first `fails` requests fail *)
Definition closed_of (k : option nat) : nat -> bool :=
  fun i => match k with Some k => k <=? i | None => false end.                        (* closed from attempt k on *)

(* helpers.Retry(f, attempts, sleep) (helpers/utils.go), the retry helper of the RPC client between leader and followers:
   f is called until it succeeds, at most `attempts` times; the result is nil on a success and the last error otherwise
   (and nil when attempts = 0: nothing was tried).  answers i: does the i-th call succeed?  Result: calls made, err == nil *)
Fixpoint helper_retry (answers : nat -> bool) (attempts i : nat) : nat * bool :=
  match attempts with
  | 0 => (0, true)
  | S r =>
      if answers i then (1, true) else
      match r with
      | 0 => (1, false)
      | S _ => let '(n, ok) := helper_retry answers r (S i) in (S n, ok)
      end
  end.
