(* Model of config/dcp.go ApplyDefaults (l.411-592) with the two environment overrides, the derived
   settings GetCouchbaseMetadata / GetCouchbaseMembership / GetKubernetesLeaderElector, and of
   helpers/data_units.go (ResolveUnionIntOrStringValue / convertSizeUnitToByte).
   Durations are nanoseconds in Z, integers Z, strings byte lists; zero / "" / None = unset. *)
From Verif Require Import Base.Prelude Base.Bytes.
Local Open Scope Z_scope.

Definition sec : Z := 1000000000.
Definition minute : Z := 60 * sec.

Record conf := Conf {
  rm_interval : Z; rm_config_watch : Z;
  cp_interval : Z; cp_timeout : Z; cp_type : bytes; cp_autoreset : bytes;
  hc_interval : Z; hc_timeout : Z;
  rebalance_delay : Z; total_members : Z; member_number : Z; membership_type : bytes;
  dcp_conn_timeout : Z; conn_timeout : Z;
  collection_names : option (list bytes);
  scope_name : bytes;
  conn_buffer : option Z;
  max_queue : Z;
  metric_path : bytes;
  api_port : Z;
  le_type : bytes; rpc_port : Z;
  dcp_buffer : option Z; dcp_conn_buffer : option Z; dcp_max_queue : Z;
  metadata_type : bytes
}.

Definition dz (d x : Z) : Z := if x =? 0 then d else x.
Definition ds (d x : bytes) : bytes := match x with [] => d | _ => x end.
Definition dopt {A} (d : A) (x : option A) : option A := match x with None => Some d | _ => x end.

Definition b_auto : bytes := [97;117;116;111]%N.
Definition b_earliest : bytes := [101;97;114;108;105;101;115;116]%N.
Definition b_couchbase : bytes := [99;111;117;99;104;98;97;115;101]%N.
Definition b_default : bytes := [95;100;101;102;97;117;108;116]%N.
Definition b_metrics : bytes := [47;109;101;116;114;105;99;115]%N.
Definition b_kubernetes : bytes := [107;117;98;101;114;110;101;116;101;115]%N.

(* the two environment variables: None = unset or empty; Some s = set to s.  Atoi failure = panic *)
Record envv := Env { e_total : option bytes; e_member : option bytes }.

Definition env_int (e : option bytes) (cur : Z) : option Z :=
  match e with
  | None => Some cur
  | Some s => let '(v, ok) := atoi s in if ok then Some v else None
  end.

(* None = panic (non-integer environment variable) *)
Definition apply_defaults (e : envv) (c : conf) : option conf :=
  match env_int (e_total e) (dz 1 (total_members c)), env_int (e_member e) (dz 1 (member_number c)) with
  | Some t, Some m =>
      Some (Conf (dz sec (rm_interval c)) (dz (10 * sec) (rm_config_watch c))
                 (dz minute (cp_interval c)) (dz minute (cp_timeout c)) (ds b_auto (cp_type c)) (ds b_earliest (cp_autoreset c))
                 (dz minute (hc_interval c)) (dz minute (hc_timeout c))
                 (dz (30 * sec) (rebalance_delay c)) t m (ds b_couchbase (membership_type c))
                 (dz minute (dcp_conn_timeout c)) (dz minute (conn_timeout c))
                 (dopt [b_default] (collection_names c))
                 (ds b_default (scope_name c))
                 (dopt 20971520 (conn_buffer c))
                 (dz 2048 (max_queue c))
                 (ds b_metrics (metric_path c))
                 (dz 8080 (api_port c))
                 (ds b_kubernetes (le_type c)) (dz 8081 (rpc_port c))
                 (dopt 16777216 (dcp_buffer c)) (dopt 20971520 (dcp_conn_buffer c)) (dz 2048 (dcp_max_queue c))
                 (ds b_couchbase (metadata_type c)))
  | _, _ => None
  end.

(* ---------- derived settings: defaults overridden key by key ---------- *)
Definition ov {A} (o : option A) (d : A) : A := match o with Some x => x | None => d end.

Record main_conn := Main { m_hosts : list bytes; m_user : bytes; m_pass : bytes; m_bucket : bytes; m_secure : bool; m_rootca : bytes }.
Record cbmeta := CbMeta { md_hosts : list bytes; md_user : bytes; md_pass : bytes; md_bucket : bytes; md_scope : bytes; md_coll : bytes;
                          md_max_queue : Z; md_conn_buffer : Z; md_conn_timeout : Z; md_secure : bool; md_rootca : bytes }.
Record cbmeta_ov := CbMetaOv { o_hosts : option (list bytes); o_user : option bytes; o_pass : option bytes; o_bucket : option bytes;
                               o_scope : option bytes; o_coll : option bytes; o_max_queue : option Z; o_conn_buffer : option Z;
                               o_conn_timeout : option Z; o_secure : option bool; o_rootca : option bytes }.
Definition cb_metadata (m : main_conn) (o : cbmeta_ov) : cbmeta :=
  CbMeta (ov (o_hosts o) (m_hosts m)) (ov (o_user o) (m_user m)) (ov (o_pass o) (m_pass m)) (ov (o_bucket o) (m_bucket m))
         (ov (o_scope o) b_default) (ov (o_coll o) b_default) (ov (o_max_queue o) 2048) (ov (o_conn_buffer o) 5242880)
         (ov (o_conn_timeout o) minute) (ov (o_secure o) (m_secure m)) (ov (o_rootca o) (m_rootca m)).

Record cbmember := CbMember { mb_expiry : Z; mb_heartbeat : Z; mb_tolerance : Z; mb_monitor : Z; mb_timeout : Z }.
Definition cb_membership (o : option Z * option Z * option Z * option Z * option Z) : cbmember :=
  let '(a, b, c, d, e) := o in
  CbMember (ov a 120) (ov b (10 * sec)) (ov c minute) (ov d (30 * sec)) (ov e (30 * sec)).

Record k8s := K8s { k_lease : Z; k_renew : Z; k_retry : Z }.
Definition k8s_elector (o : option Z * option Z * option Z) : k8s :=
  let '(a, b, c) := o in K8s (ov a (8 * sec)) (ov b (5 * sec)) (ov c sec).

(* ---------- size units ---------- *)
(* strings.TrimSpace on the blank subset the harness uses (space, tab) *)
Definition is_blank (b : N) : bool := (b =? 32)%N || (b =? 9)%N.
Fixpoint ltrim (s : bytes) : bytes := match s with b :: r => if is_blank b then ltrim r else s | [] => [] end.
Definition trim (s : bytes) : bytes := rev (ltrim (rev (ltrim s))).

Definition upper (b : N) : N := if ((97 <=? b) && (b <=? 122))%N then (b - 32)%N else b.

(* decimal number "[-+]digits[.|,digits]": (negative?, mantissa, number of fractional digits) *)
Fixpoint split_sep (s : bytes) : bytes * option bytes :=
  match s with
  | [] => ([], None)
  | b :: r => if ((b =? 46) || (b =? 44))%N then ([], Some r)
              else let '(i, f) := split_sep r in (b :: i, f)
  end.
Definition all_digits (s : bytes) : option N := match s with [] => Some 0%N | _ => digits_val_acc 0 s end.

Definition parse_decimal (s : bytes) : option (bool * N * nat) :=
  let '(neg, r) := match s with 45%N :: r => (true, r) | 43%N :: r => (false, r) | _ => (false, s) end in
  let '(ip, fp) := split_sep r in
  match fp with
  | None => match ip with [] => None | _ => match all_digits ip with Some v => Some (neg, v, 0%nat) | None => None end end
  | Some f =>
      match ip, f with
      | [], [] => None
      | _, _ =>
          match all_digits ip, all_digits f with
          | Some a, Some b => Some (neg, (a * 10 ^ N.of_nat (length f) + b)%N, length f)
          | _, _ => None
          end
      end
  end.

Fixpoint last2 (s : bytes) : option (bytes * N * N) :=
  match s with
  | [] | [_] => None
  | [a; b] => Some ([], a, b)
  | x :: r => match last2 r with Some (p, a, b) => Some (x :: p, a, b) | None => None end
  end.

(* convertSizeUnitToByte; None = error (the caller panics) *)
Definition unit_to_bytes (s : bytes) : option Z :=
  match last2 s with
  | None => None
  | Some (num, u1, u2) =>
      let k := if (upper u2 =? 66)%N then
                 (if (upper u1 =? 75)%N then Some 1 else if (upper u1 =? 77)%N then Some 2 else if (upper u1 =? 71)%N then Some 3 else None)
               else None in
      match k, parse_decimal (trim num) with
      | Some k, Some (neg, m, f) =>
          let q := Z.of_N m * 1024 ^ k / 10 ^ Z.of_nat f in   (* truncation towards zero of a non-negative quotient *)
          Some (if neg then - q else q)
      | _, _ => None
      end
  end.

Inductive uinput := UInt (v : Z) | UUint (v : Z) | UStr (s : bytes).

(* ResolveUnionIntOrStringValue; None = panic *)
Definition resolve (i : uinput) : option Z :=
  match i with
  | UInt v | UUint v => Some v
  | UStr s => let '(v, ok) := atoi s in if ok then Some v else unit_to_bytes s
  end.

(* ---------- ${VAR} substitution (dcp.go newDcpConfig l.364-391) ---------- *)
Fixpoint starts_with (p s : bytes) : option bytes :=   (* the rest after the prefix *)
  match p, s with
  | [], _ => Some s
  | a :: p', b :: s' => if (a =? b)%N then starts_with p' s' else None
  | _ :: _, [] => None
  end.

(* strings.ReplaceAll for a non-empty pattern, on fuel = length of the text *)
Fixpoint replace_all_fuel (fuel : nat) (pat rep s : bytes) : bytes :=
  match fuel with
  | O => s
  | S n =>
      match s with
      | [] => []
      | b :: r =>
          match starts_with pat s with
          | Some rest => rep ++ replace_all_fuel (n - (length pat - 1)) pat rep rest
          | None => b :: replace_all_fuel n pat rep r
          end
      end
  end.
Definition replace_all (pat rep s : bytes) : bytes :=
  match pat with [] => s | _ => replace_all_fuel (length s) pat rep s end.

(* the placeholder names in order of appearance: regexp \$\{([^}]+)\} , leftmost, non-overlapping *)
Fixpoint until_brace (s : bytes) : option (bytes * bytes) :=
  match s with
  | [] => None
  | b :: r => if (b =? 125)%N then Some ([], r)
              else match until_brace r with Some (n, rest) => Some (b :: n, rest) | None => None end
  end.
Fixpoint placeholders_fuel (fuel : nat) (s : bytes) : list bytes :=
  match fuel with
  | O => []
  | S n =>
      match s with
      | 36%N :: 123%N :: r =>
          match until_brace r with
          | Some (name, rest) =>
              match name with
              | [] => placeholders_fuel n (tl s)     (* "${}" is no match: the scan resumes one byte further *)
              | _ => name :: placeholders_fuel (n - (length name + 2)) rest
              end
          | None => []
          end
      | _ :: r => placeholders_fuel n r
      | [] => []
      end
  end.
Definition placeholders (s : bytes) : list bytes := placeholders_fuel (length s) s.

Fixpoint lookup_env (env : list (bytes * bytes)) (k : bytes) : option bytes :=
  match env with [] => None | (n, v) :: r => if bytes_eqb n k then Some v else lookup_env r k end.

Definition placeholder (name : bytes) : bytes := [36; 123]%N ++ name ++ [125]%N.

(* the loop of newDcpConfig: for every match of the ORIGINAL text, if the variable is set, replace all its
   occurrences in the current text *)
Definition subst_env (env : list (bytes * bytes)) (file : bytes) : bytes :=
  fold_left (fun cur name => match lookup_env env name with
                             | Some v => replace_all (placeholder name) v cur
                             | None => cur end)
            (placeholders file) file.
