(* Model of wrapper.ConcurrentSwissMap (wrapper/concurrent_swiss_map.go), the container that holds the tracked
   positions (stream.offsets), the dirty set (stream.dirtyOffsets), the observers and the documents a metadata load
   returns.  Model/Stream.v treats these as total functions `N -> option A`; this file models the container itself
   (entries, Store / Delete / Load / StoreIf / Count / Range with early stop / ToMap / the JSON round trip) and
   Proofs/SwissMapProofs.v proves that it refines the total function, so the abstraction used by Stream.v is
   justified for every operation sequence.  Keys are uint16 / values uint64 in the correspondence; the model is
   over N.  The iteration order of the Go map is unspecified: the model keeps the latest write first, the harness
   sorts what it observed, and the comparison is order-free (Corr/CorrSwissMap.v). *)
From Verif Require Import Base.Prelude.
Local Open Scope N_scope.

Definition smap_of (A : Type) := list (N * A).
Definition smap := smap_of N.      (* the instance the correspondence runs: uint16 keys, uint64 values *)

Fixpoint sm_load {A} (m : smap_of A) (k : N) : option A :=
  match m with
  | [] => None
  | (a, b) :: r => if a =? k then Some b else sm_load r k
  end.

Fixpoint sm_remove {A} (m : smap_of A) (k : N) : smap_of A :=
  match m with
  | [] => []
  | (a, b) :: r => if a =? k then sm_remove r k else (a, b) :: sm_remove r k
  end.

Definition sm_store {A} (m : smap_of A) (k : N) (v : A) : smap_of A := (k, v) :: sm_remove m k.

(* the condition functions the harness passes to StoreIf, described finitely:
   0 always set, 1 set if absent, 2 set if present, 3 set if absent or previous < v (the monotone update), else never *)
Definition sif_decide (mode v : N) (prev : option N) : option N :=
  match mode with
  | 0 => Some v
  | 1 => match prev with None => Some v | Some _ => None end
  | 2 => match prev with Some _ => Some v | None => None end
  | 3 => match prev with Some p => if p <? v then Some v else None | None => Some v end
  | _ => None
  end.

Inductive sop :=
  | SStore (k v : N)
  | SDelete (k : N)
  | SLoad (k : N)
  | SStoreIf (k mode v : N)
  | SCount
  | SRange (stop : option nat)   (* the callback answers "stop" at its n-th call (n >= 1); None: never *)
  | SToMap
  | SJson.                       (* MarshalJSON, then UnmarshalJSON into a new container, then its ToMap *)

Inductive sout :=
  | OUnit
  | OLoad (r : option N)         (* Load: the value; StoreIf: what the condition function was shown *)
  | OCount (n : nat)
  | ORange (calls : nat)         (* how often the callback ran *)
  | OMap (l : smap).

Definition sm_step (m : smap) (o : sop) : smap * sout :=
  match o with
  | SStore k v => (sm_store m k v, OUnit)
  | SDelete k => (sm_remove m k, OUnit)
  | SLoad k => (m, OLoad (sm_load m k))
  | SStoreIf k mode v =>
      let prev := sm_load m k in
      (match sif_decide mode v prev with Some x => sm_store m k x | None => m end, OLoad prev)
  | SCount => (m, OCount (length m))
  | SRange stop => (m, ORange (match stop with None => length m | Some n => Nat.min n (length m) end))
  | SToMap => (m, OMap m)
  | SJson => (m, OMap m)
  end.

Fixpoint sm_run (m : smap) (ops : list sop) : smap * list sout :=
  match ops with
  | [] => (m, [])
  | o :: r =>
      let '(m', out) := sm_step m o in
      let '(m'', outs) := sm_run m' r in
      (m'', out :: outs)
  end.

(* ---- the specification: a total function, as in Model/Stream.v ---- *)
Definition fm := N -> option N.
Definition fm_upd (f : fm) (k : N) (x : option N) : fm := fun k' => if k' =? k then x else f k'.
Definition spec_step (f : fm) (o : sop) : fm :=
  match o with
  | SStore k v => fm_upd f k (Some v)
  | SDelete k => fm_upd f k None
  | SStoreIf k mode v => match sif_decide mode v (f k) with Some x => fm_upd f k (Some x) | None => f end
  | _ => f
  end.
