(* The stream core: couchbase/observer.go (one observer per vBucket), stream/stream.go (setOffset,
   waitAndForward, listen, listenEnd, Open, Close, openStream, reopenStream) and stream/checkpoint.go
   (Save, Load), with the metadata store as environment.

   One [op] is one atomic step of the implementation at the granularity the harness forces:
   a server event entering an observer, one acknowledgement, the two halves of a save (the dump up
   to the entry of Metadata.Save, and its return) with the per-vBucket writes landing in between,
   a crash, Open, Close, a stream end.  Rollback mitigation is disabled here (its gate is modelled in
   Model/Rollback.v); the rebalance / shutdown orchestration is in Model/Rebalance.v.

   Maps are total functions N -> option A (vBucket id -> value); what is enumerated (dumps, requests)
   walks the assigned range in ascending order, as the harness sorts the Go side. *)
From Verif Require Import Base.Prelude Base.Bytes.
Local Open Scope N_scope.

(* ---------- data ---------- *)
Record offset := MkO { o_uuid : N; o_seq : N; o_start : N; o_end : N; o_latest : N }.
Record doc := MkD { d_uuid : N; d_seq : N; d_start : N; d_end : N }.

Definition fmap (A : Type) := N -> option A.
Definition fempty {A} : fmap A := fun _ => None.
Definition fupd {A} (m : fmap A) (k : N) (v : A) : fmap A := fun k' => if k' =? k then Some v else m k'.

Definition doc_of (o : offset) : doc := MkD (o_uuid o) (o_seq o) (o_start o) (o_end o).
Definition empty_doc : doc := MkD 0 0 0 0.

Inductive dkind := KMut | KDel | KExp.
Inductive syskind := SCreateColl | SDeleteColl | SFlushColl | SCreateScope | SDeleteScope | SModifyColl.

(* a document event as the server sent it; [i_rest] stands for value, revNo, flags, expiry, datatype,
   lock time ... (the harness checks them field by field on the Go side and numbers them here) *)
Record item := MkI { i_seq : N; i_cas : N; i_cid : N; i_key : bytes; i_rest : N }.

Inductive ev :=
  | Marker (s e : N)
  | Doc (k : dkind) (it : item)
  | Sys (k : syskind) (seq : N) (cid : N)
  | SeqAdv (seq : N)
  | Oso.

Record cfg := Cfg {
  c_finite : bool;                 (* dcp mode finite *)
  c_latest : bool;                 (* checkpoint.autoReset = latest *)
  c_skip_until : option N;         (* listener.skipUntil, nanoseconds since the epoch *)
  c_colls : list (N * bytes)       (* configured collection id -> name *)
}.

(* ---------- reserved keys (helpers/constants.go, helpers/utils.go IsMetadata) ---------- *)
Definition prefix_connector : bytes := (* "_connector:cbgo:" *)
  [95;99;111;110;110;101;99;116;111;114;58;99;98;103;111;58].
Definition prefix_txn : bytes := (* "_txn:" *) [95;116;120;110;58].
Definition is_meta (key : bytes) : bool := has_prefix prefix_connector key || has_prefix prefix_txn key.

(* ---------- observer ---------- *)
Record obs := Obs {
  ob_snap : option (N * N);   (* currentSnapshot *)
  ob_uuid : N;                (* vbUUID of the branch the stream was opened on *)
  ob_catchup : option N;      (* isCatchupNeed / catchupSeqNo *)
  ob_closed : bool;
  ob_end_closed : bool;
  ob_latest : N;              (* end seqno of the request *)
  ob_mut : N; ob_del : N; ob_exp : N   (* ObserverMetric *)
}.
Definition new_obs (latest : N) : obs := Obs None 0 None false false latest 0 0 0.

Definition default_collection : bytes := (* "_default" *) [95;100;101;102;97;117;108;116].
Fixpoint coll_name (cs : list (N * bytes)) (cid : N) : bytes :=
  match cs with
  | [] => default_collection
  | (i, n) :: r => if i =? cid then n else coll_name r cid
  end.

Definition giga : N := 1000000000.
(* time.Unix(int64(cas/1e9), 0) *)
Definition event_time_s (cas : N) : N := cas / giga.
(* SkipUntil.After(eventTime) *)
Definition before_skip (c : cfg) (cas : N) : bool :=
  match c_skip_until c with
  | None => false
  | Some t => event_time_s cas * giga <? t
  end.

(* needCatchup: (new catch-up state, suppress?) *)
Definition need_catchup (cu : option N) (seq : N) : option N * bool :=
  match cu with
  | None => (None, false)
  | Some c => if c <=? seq then (None, seq =? c) else (Some c, true)
  end.

Definition in_snap (sn : option (N * N)) (seq : N) : bool :=
  match sn with Some (s, e) => (s <=? seq) && (seq <=? e) | None => false end.

Definition mk_offset (o : obs) (s e seq : N) : offset := MkO (ob_uuid o) seq s e (ob_latest o).

(* what an observer hands to the stream's listener *)
Inductive fwd :=
  | FNone                                                 (* dropped, or a control event *)
  | FDoc (k : dkind) (it : item) (o : offset) (coll : bytes) (time_s : N)
  | FAdvance (o : offset)                                 (* system event / seqno advanced *)
  | FFail.                                                (* panic: seqNo not in snapshot *)

Definition with_snap (o : obs) sn := Obs sn (ob_uuid o) (ob_catchup o) (ob_closed o) (ob_end_closed o) (ob_latest o) (ob_mut o) (ob_del o) (ob_exp o).
Definition with_catchup (o : obs) cu := Obs (ob_snap o) (ob_uuid o) cu (ob_closed o) (ob_end_closed o) (ob_latest o) (ob_mut o) (ob_del o) (ob_exp o).
Definition with_uuid (o : obs) u := Obs (ob_snap o) u (ob_catchup o) (ob_closed o) (ob_end_closed o) (ob_latest o) (ob_mut o) (ob_del o) (ob_exp o).
Definition with_closed (o : obs) b := Obs (ob_snap o) (ob_uuid o) (ob_catchup o) b (ob_end_closed o) (ob_latest o) (ob_mut o) (ob_del o) (ob_exp o).
Definition with_end_closed (o : obs) b := Obs (ob_snap o) (ob_uuid o) (ob_catchup o) (ob_closed o) b (ob_latest o) (ob_mut o) (ob_del o) (ob_exp o).
Definition count_kind (o : obs) (k : dkind) : obs :=
  match k with
  | KMut => Obs (ob_snap o) (ob_uuid o) (ob_catchup o) (ob_closed o) (ob_end_closed o) (ob_latest o) (ob_mut o + 1) (ob_del o) (ob_exp o)
  | KDel => Obs (ob_snap o) (ob_uuid o) (ob_catchup o) (ob_closed o) (ob_end_closed o) (ob_latest o) (ob_mut o) (ob_del o + 1) (ob_exp o)
  | KExp => Obs (ob_snap o) (ob_uuid o) (ob_catchup o) (ob_closed o) (ob_end_closed o) (ob_latest o) (ob_mut o) (ob_del o) (ob_exp o + 1)
  end.

Definition obs_event (c : cfg) (o : obs) (e : ev) : obs * fwd :=
  match e with
  | Marker s e' => (with_snap o (Some (s, e')), FNone)
  | Oso => (o, FNone)
  | SeqAdv seq =>
      let o' := with_snap o (Some (seq, seq)) in
      (o', if ob_closed o then FNone else FAdvance (mk_offset o seq seq seq))
  | Sys _ seq _ =>
      let '(cu, sup) := need_catchup (ob_catchup o) seq in
      let o1 := with_catchup o cu in
      if sup then (o1, FNone) else
      match ob_snap o with
      | Some (s, e') =>
          if in_snap (ob_snap o) seq
          then (o1, if ob_closed o then FNone else FAdvance (mk_offset o s e' seq))
          else (o1, FFail)
      | None => (o1, FFail)
      end
  | Doc k it =>
      let seq := i_seq it in
      let '(cu, sup) := need_catchup (ob_catchup o) seq in
      let o1 := with_catchup o cu in
      if sup then (o1, FNone) else
      if before_skip c (i_cas it) then (o1, FNone) else
      match ob_snap o with
      | Some (s, e') =>
          if in_snap (ob_snap o) seq
          then (count_kind o1 k,
                if ob_closed o then FNone
                else FDoc k it (mk_offset o s e' seq) (coll_name (c_colls c) (i_cid it)) (event_time_s (i_cas it)))
          else (o1, FFail)
      | None => (o1, FFail)
      end
  end.

(* ---------- stream ---------- *)
Inductive cbname :=
  | BeforeRebalanceStart | AfterRebalanceStart | BeforeRebalanceEnd | AfterRebalanceEnd
  | BeforeStreamStart | AfterStreamStart | BeforeStreamStop | AfterStreamStop.

(* why a vBucket stream ended: the five recoverable gocbcore errors, a clean end, any other error *)
Inductive endcause := EClean | ETransient | EFinal.

Inductive out :=
  | Consume (vb : N) (k : dkind) (it : item) (o : offset) (coll : bytes) (time_s : N)
  | Track (vb : N) (o : offset)
  | MetaSave (dump : list (N * doc)) (dirty : list N)   (* arguments of Metadata.Save, ascending vb *)
  | NoSave                                               (* Save returned without calling the store *)
  | OpenReq (vb : N) (o : offset)                        (* Client.OpenStream(vb, offset) *)
  | CloseReq (vb : N)
  | Callback (c : cbname)
  | Stop                                                  (* stopCh closed *)
  | Metrics (obsrows : list (N * (N * N * N * N)))        (* per vBucket: persist seqno, mutations, deletions, expirations *)
            (offrows : list (N * (N * N * N * N)))        (* per vBucket: seqno, snapshot start, end, lag *)
            (total_lag : N) (active : Z) (rebalances : N)
  | NoMetrics                                             (* Collect returned at once: the stream is closed *)
  | Fail                                                  (* the process panicked *)
  | Ignored.                                              (* op not enabled in this state *)

Record sstate := St {
  s_cfg : cfg;
  s_range : option (N * N);           (* vbIDRange of the last Open *)
  s_offs : fmap offset;
  s_dirty : fmap bool;
  s_any_dirty : bool;
  s_obs : fmap obs;                   (* the observer objects of the last Open (they outlive Close) *)
  s_obs_nil : bool;                   (* stream.observers == nil *)
  s_open : bool;
  s_balancing : bool;
  s_active : Z;                       (* activeStreams *)
  s_fin_close : bool;                 (* streamFinishedWithCloseCh *)
  s_fin_end : bool;                   (* streamFinishedWithEndEventCh *)
  s_cancel : bool;                    (* closeWithCancel *)
  s_stopped : bool;                   (* stopCh closed *)
  s_rebalances : N;                   (* metric.Rebalance *)
  s_ctxs : list (N * offset);         (* ListenerContexts handed out so far: Ack i uses the i-th *)
  s_inflight : option (list (N * doc) * list N);  (* a Save is inside Metadata.Save *)
  s_queued : nat;                     (* Save() calls waiting for the save lock behind it *)
  s_store : fmap doc;                 (* the durable metadata store (environment) *)
  s_failed : bool                     (* the process panicked *)
}.

Definition init_state (c : cfg) (store : fmap doc) : sstate :=
  St c None fempty fempty false fempty true false false 0%Z false false false false 0 [] None 0%nat store false.

Definition in_range (r : option (N * N)) (vb : N) : bool :=
  match r with Some (a, b) => (a <=? vb) && (vb <=? b) | None => false end.

(* ascending list of the vBucket ids first..last *)
Definition vb_list (first last : N) : list N :=
  map (fun i => first + N.of_nat i) (seq 0 (N.to_nat (last + 1 - first))).
Definition all_vbs : list N := vb_list 0 1023.
Definition range_list (r : option (N * N)) : list N :=
  match r with Some (a, b) => vb_list a b | None => [] end.

Definition set_offs s m := St (s_cfg s) (s_range s) m (s_dirty s) (s_any_dirty s) (s_obs s) (s_obs_nil s) (s_open s) (s_balancing s) (s_active s) (s_fin_close s) (s_fin_end s) (s_cancel s) (s_stopped s) (s_rebalances s) (s_ctxs s) (s_inflight s) (s_queued s) (s_store s) (s_failed s).
Definition set_dirty s m a := St (s_cfg s) (s_range s) (s_offs s) m a (s_obs s) (s_obs_nil s) (s_open s) (s_balancing s) (s_active s) (s_fin_close s) (s_fin_end s) (s_cancel s) (s_stopped s) (s_rebalances s) (s_ctxs s) (s_inflight s) (s_queued s) (s_store s) (s_failed s).
Definition set_obs s m := St (s_cfg s) (s_range s) (s_offs s) (s_dirty s) (s_any_dirty s) m (s_obs_nil s) (s_open s) (s_balancing s) (s_active s) (s_fin_close s) (s_fin_end s) (s_cancel s) (s_stopped s) (s_rebalances s) (s_ctxs s) (s_inflight s) (s_queued s) (s_store s) (s_failed s).
Definition set_ctxs s l := St (s_cfg s) (s_range s) (s_offs s) (s_dirty s) (s_any_dirty s) (s_obs s) (s_obs_nil s) (s_open s) (s_balancing s) (s_active s) (s_fin_close s) (s_fin_end s) (s_cancel s) (s_stopped s) (s_rebalances s) l (s_inflight s) (s_queued s) (s_store s) (s_failed s).
Definition set_inflight s i := St (s_cfg s) (s_range s) (s_offs s) (s_dirty s) (s_any_dirty s) (s_obs s) (s_obs_nil s) (s_open s) (s_balancing s) (s_active s) (s_fin_close s) (s_fin_end s) (s_cancel s) (s_stopped s) (s_rebalances s) (s_ctxs s) i (s_queued s) (s_store s) (s_failed s).
Definition set_queued s q := St (s_cfg s) (s_range s) (s_offs s) (s_dirty s) (s_any_dirty s) (s_obs s) (s_obs_nil s) (s_open s) (s_balancing s) (s_active s) (s_fin_close s) (s_fin_end s) (s_cancel s) (s_stopped s) (s_rebalances s) (s_ctxs s) (s_inflight s) q (s_store s) (s_failed s).
Definition set_store s m := St (s_cfg s) (s_range s) (s_offs s) (s_dirty s) (s_any_dirty s) (s_obs s) (s_obs_nil s) (s_open s) (s_balancing s) (s_active s) (s_fin_close s) (s_fin_end s) (s_cancel s) (s_stopped s) (s_rebalances s) (s_ctxs s) (s_inflight s) (s_queued s) m (s_failed s).
Definition set_failed s := St (s_cfg s) (s_range s) (s_offs s) (s_dirty s) (s_any_dirty s) (s_obs s) (s_obs_nil s) (s_open s) (s_balancing s) (s_active s) (s_fin_close s) (s_fin_end s) (s_cancel s) (s_stopped s) (s_rebalances s) (s_ctxs s) (s_inflight s) (s_queued s) (s_store s) true.
(* the end-of-stream bookkeeping: active count, end-finish flag, stopped *)
Definition set_end s ac fe st := St (s_cfg s) (s_range s) (s_offs s) (s_dirty s) (s_any_dirty s) (s_obs s) (s_obs_nil s) (s_open s) (s_balancing s) ac (s_fin_close s) fe (s_cancel s) st (s_rebalances s) (s_ctxs s) (s_inflight s) (s_queued s) (s_store s) (s_failed s).

(* setOffset (stream.go l.88-109): range guard, regression guard, TrackOffset, dirty mark.
   The dirty mark also raises the "any dirty" flag (repaired defect K2, see known_findings.json). *)
Definition set_offset (s : sstate) (vb : N) (o : offset) (dirty : bool) : sstate * list out :=
  (* while the stream is closed (observers == nil: between the close and the reopen of a rebalance, after the
     shutdown) there is no session the position belongs to: nothing is tracked (repaired defect K8) *)
  if s_obs_nil s then (s, []) else
  if in_range (s_range s) vb then
    let accept :=
      let s1 := set_offs s (fupd (s_offs s) vb o) in
      (if dirty then set_dirty s1 (fupd (s_dirty s1) vb true) true else s1, [Track vb o]) in
    match s_offs s vb with
    | Some cur => if o_seq o <? o_seq cur then (s, []) else accept
    | None => accept
    end
  else (s, []).

(* checkpoint.Load (l.116-200): None = panic *)
Definition max_u64 : N := 18446744073709551615.
Definition latest_of (c : cfg) (high : N) : N := if c_finite c then high else max_u64.

Definition store_exists (st : fmap doc) (vbs : list N) : bool :=
  existsb (fun vb => match st vb with Some _ => true | None => false end) vbs.

Definition loaded_doc (st : fmap doc) (vb : N) : doc :=
  match st vb with Some d => d | None => empty_doc end.

Definition get0 (m : fmap N) (vb : N) : N := match m vb with Some x => x | None => 0 end.

(* per vBucket: the offset to resume from and whether Load marks it dirty *)
Definition load_one (c : cfg) (exist : bool) (st : fmap doc) (high uuid0 : fmap N) (vb : N) : option (offset * bool) :=
  let h := get0 high vb in
  if negb exist && c_latest c then
    Some (MkO (get0 uuid0 vb) h h h (latest_of c h), negb (h =? 0))
  else
    let d := loaded_doc st vb in
    if h <? d_seq d then None
    else Some (MkO (d_uuid d) (d_seq d) (d_start d) (d_end d) (latest_of c h), false).

Fixpoint load_all (c : cfg) (exist : bool) (st : fmap doc) (high uuid0 : fmap N) (vbs : list N)
  : option (fmap offset * fmap bool * bool) :=
  match vbs with
  | [] => Some (fempty, fempty, false)
  | vb :: r =>
      match load_one c exist st high uuid0 vb, load_all c exist st high uuid0 r with
      | Some (o, d), Some (offs, dirty, any) =>
          Some (fupd offs vb o, if d then fupd dirty vb true else dirty, any || d)
      | _, _ => None
      end
  end.

Definition dump_of (offs : fmap offset) (vbs : list N) : list (N * doc) :=
  flat_map (fun vb => match offs vb with Some o => [(vb, doc_of o)] | None => [] end) vbs.
Definition dirty_of (dirty : fmap bool) (vbs : list N) : list N :=
  flat_map (fun vb => match dirty vb with Some true => [vb] | _ => [] end) vbs.

Fixpoint lookup_doc (l : list (N * doc)) (vb : N) : option doc :=
  match l with [] => None | (k, d) :: r => if k =? vb then Some d else lookup_doc r vb end.
Definition mem (vb : N) (l : list N) : bool := existsb (N.eqb vb) l.

Fixpoint assoc (l : list (N * N)) : fmap N :=
  match l with [] => fempty | (k, v) :: r => fupd (assoc r) k v end.

(* what the (scripted) server says when streams are opened *)
Record server := Srv {
  sv_high : list (N * N);      (* GetVBucketSeqNos *)
  sv_uuid : list (N * N);      (* head of the failover log of each vBucket = branch of the open response *)
  sv_roll : list N             (* vBuckets whose stream request is first answered with "rollback" *)
}.

Inductive op :=
  | Open (first last : N) (sv : server)      (* stream.Open() on the member's range *)
  | RebClose                                 (* Rebalance(): close half, until the reopen timer is armed *)
  | RebOpen (first last : N) (sv : server)   (* the timer fires: rebalance() reopens on the new range *)
  | Close (cancel : bool)                    (* stream.Close(cancel) as dcp.close does *)
  | Deliver (vb : N) (e : ev)
  | Ack (i : nat)                  (* the consumer calls Ack of the i-th context it received *)
  | SaveBegin                      (* Save() up to the entry of Metadata.Save *)
  | SaveQueue                      (* a second Save() while one is in flight: it waits for the save lock *)
  | SaveWrite (vb : N)             (* the write of one dirty vBucket's document lands in the store *)
  | SaveEnd (ok : bool)            (* Metadata.Save returns nil (all remaining dirty documents written) or an error *)
  | Crash                          (* process dies; only the store survives *)
  | Scrape (high : list (N * N))   (* a prometheus scrape; the server's current high seqnos *)
  | End (vb : N) (c : endcause) (uuid : N) (roll : bool).
      (* the stream of vb ends; a transient end is reopened, the server answering with branch uuid, possibly after a rollback *)

(* Open(): load, create observers, open every stream. None = panic. *)
Definition do_open (s : sstate) (first last : N) (sv : server) : option (sstate * list out) :=
  let vbs := vb_list first last in
  let st := s_store s in
  let exist := store_exists st vbs in
  match load_all (s_cfg s) exist st (assoc (sv_high sv)) (assoc (sv_uuid sv)) vbs with
  | None => None
  | Some (offs, dirty, any) =>
      let obsm : fmap obs := fun vb =>
        match offs vb with
        | Some o =>
            let ob := with_uuid (new_obs (o_latest o)) (get0 (assoc (sv_uuid sv)) vb) in
            Some (if mem vb (sv_roll sv) then with_catchup ob (Some (o_seq o)) else ob)
        | None => None
        end in
      let s1 := St (s_cfg s) (Some (first, last)) offs dirty any obsm false true (s_balancing s)
                  (Z.of_nat (length vbs)) false false (s_cancel s) (s_stopped s) (s_rebalances s)
                  (s_ctxs s) (s_inflight s) (s_queued s) st false in
      Some (s1, [Callback BeforeStreamStart]
                 ++ flat_map (fun vb => match offs vb with Some o => [OpenReq vb o] | None => [] end) vbs
                 ++ [Callback AfterStreamStart])
  end.

(* Close(): observers closed, streams closed, maps cleared, finish token unless the end path already finished *)
Definition do_close (s : sstate) (cancel : bool) : sstate * list out * bool :=
  let vbs := range_list (s_range s) in
  let closes := flat_map (fun vb => match s_offs s vb with Some _ => [CloseReq vb] | None => [] end) vbs in
  let tok := negb (s_fin_end s) in
  let obsm : fmap obs := fun vb => match s_obs s vb with
                                   | Some ob => Some (with_end_closed (with_closed ob true) true)
                                   | None => None end in
  let s1 := St (s_cfg s) (s_range s) fempty fempty (s_any_dirty s) obsm true false (s_balancing s) (s_active s)
              (s_fin_close s || tok) (s_fin_end s) cancel (s_stopped s) (s_rebalances s)
              (s_ctxs s) (s_inflight s) (s_queued s) (s_store s) false in
  (s1, [Callback BeforeStreamStop] ++ closes ++ [Callback AfterStreamStop], tok).

Definition mark_stopped s := St (s_cfg s) (s_range s) (s_offs s) (s_dirty s) (s_any_dirty s) (s_obs s) (s_obs_nil s) (s_open s) (s_balancing s) (s_active s) (s_fin_close s) (s_fin_end s) (s_cancel s) true (s_rebalances s) (s_ctxs s) (s_inflight s) (s_queued s) (s_store s) (s_failed s).
Definition set_balancing s b r := St (s_cfg s) (s_range s) (s_offs s) (s_dirty s) (s_any_dirty s) (s_obs s) (s_obs_nil s) (s_open s) b (s_active s) (s_fin_close s) (s_fin_end s) (s_cancel s) (s_stopped s) r (s_ctxs s) (s_inflight s) (s_queued s) (s_store s) (s_failed s).

(* the body of Save() under the save lock: dump, hand the dirty set over, call the store *)
Definition save_body (s : sstate) : sstate * list out :=
  let vbs := range_list (s_range s) in
  let dump := dump_of (s_offs s) vbs in
  (* the dirty map is walked as it is: it may hold marks of vBuckets outside the range (given
     back by a failed save that straddled a rebalance); they have no document in the dump *)
  let dl := dirty_of (s_dirty s) all_vbs in
  (* the dirty set is handed over to this save: marks made from now on belong to the next one
     (repaired defect K3) *)
  (set_inflight (set_dirty s fempty false) (Some (dump, dl)), [MetaSave dump dl]).

(* when a save returns, the waiting Save() calls take the lock one after the other: one that finds the flag
   down returns at once (NoSave); the first that finds it up runs its body, the others keep waiting *)
Fixpoint drain (q : nat) (s : sstate) : sstate * list out :=
  match q with
  | O => (s, [])
  | S q' =>
      if s_any_dirty s then save_body (set_queued s q')
      else let '(s', outs) := drain q' (set_queued s q') in (s', NoSave :: outs)
  end.
Definition next_queued (s : sstate) : sstate * list out := drain (s_queued s) s.

Definition step (s : sstate) (o : op) : sstate * list out :=
  if s_failed s then (s, [Ignored]) else
  match o with
  | Open first last sv =>
      if s_open s || s_balancing s then (s, [Ignored]) else
      match do_open s first last sv with
      | None => (set_failed s, [Callback BeforeStreamStart; Fail])
      | Some r => r
      end
  | RebClose =>
      if negb (s_open s) || s_balancing s then (s, [Ignored]) else
      let '(s1, outs, _) := do_close (set_balancing s true (s_rebalances s)) false in
      (* wait() takes the token while balancing: no stop *)
      (s1, [Callback BeforeRebalanceStart] ++ outs ++ [Callback AfterRebalanceStart])
  | RebOpen first last sv =>
      if negb (s_balancing s) || s_open s then (s, [Ignored]) else
      match do_open s first last sv with
      | None => (set_failed s, [Callback BeforeRebalanceEnd; Callback BeforeStreamStart; Fail])
      | Some (s1, outs) =>
          (set_balancing s1 false (s_rebalances s1 + 1),
           [Callback BeforeRebalanceEnd] ++ outs ++ [Callback AfterRebalanceEnd])
      end
  | Close cancel =>
      if s_obs_nil s || s_balancing s then (s, [Ignored]) else
      let '(s1, outs, tok) := do_close s cancel in
      if tok && negb (s_stopped s1) then (mark_stopped s1, outs ++ [Stop]) else (s1, outs)
  | Deliver vb e =>
      match s_obs s vb with
      | None => (s, [Ignored])
      | Some ob =>
          let '(ob', f) := obs_event (s_cfg s) ob e in
          let s1 := set_obs s (fupd (s_obs s) vb ob') in
          match f with
          | FNone => (s1, [])
          | FFail => (set_failed s1, [Fail])
          | FAdvance o => set_offset s1 vb o true
          | FDoc k it o coll t =>
              if is_meta (i_key it) then set_offset s1 vb o false
              else (set_ctxs s1 (s_ctxs s1 ++ [(vb, o)]), [Consume vb k it o coll t])
          end
      end
  | Ack i =>
      match nth_error (s_ctxs s) i with
      | None => (s, [Ignored])
      | Some (vb, o) =>
          let '(s1, outs) := set_offset s vb o true in
          (set_dirty s1 (s_dirty s1) true, outs)
      end
  | SaveBegin =>
      match s_inflight s with
      | Some _ => (s, [Ignored])
      | None => if negb (s_any_dirty s) then (s, [NoSave]) else save_body s
      end
  | SaveQueue =>
      match s_inflight s with
      | None => (s, [Ignored])
      | Some _ =>
          (* the save lock is taken before the flag is read: it waits (repaired defect K9) *)
          (set_queued s (S (s_queued s)), [])
      end
  | SaveWrite vb =>
      match s_inflight s with
      | Some (dump, dl) =>
          match lookup_doc dump vb with
          | Some d => if mem vb dl then (set_store s (fupd (s_store s) vb d), []) else (s, [Ignored])
          | None => (s, [Ignored])
          end
      | None => (s, [Ignored])
      end
  | SaveEnd ok =>
      match s_inflight s with
      | Some (dump, dl) =>
          if ok then
            let st := fold_left (fun m vb => match lookup_doc dump vb with Some d => fupd m vb d | None => m end) dl (s_store s) in
            next_queued (set_inflight (set_store s st) None)
          else
            (* nothing is forgotten: the handed-over marks go back *)
            let dm := fold_left (fun m vb => fupd m vb true) dl (s_dirty s) in
            next_queued (set_inflight (set_dirty s dm true) None)
      | None => (s, [Ignored])
      end
  | Crash =>
      (init_state (s_cfg s) (s_store s), [])
  | Scrape high =>
      if s_obs_nil s then (s, [NoMetrics]) else
      let vbs := range_list (s_range s) in
      let orows := flat_map (fun vb => match s_obs s vb with
                                       | Some ob => [(vb, (0, ob_mut ob, ob_del ob, ob_exp ob))]
                                       | None => [] end) vbs in
      let lag_of (vb : N) (o : offset) := let h := get0 (assoc high) vb in if o_seq o <? h then h - o_seq o else 0 in
      let frows := flat_map (fun vb => match s_offs s vb with
                                       | Some o => [(vb, (o_seq o, o_start o, o_end o, lag_of vb o))]
                                       | None => [] end) vbs in
      let total := fold_left (fun a r => a + snd (snd r)) frows 0 in
      (s, [Metrics orows frows total (s_active s) (s_rebalances s)])
  | End vb c uuid roll =>
      match s_obs s vb with
      | None => (s, [Ignored])
      | Some ob =>
          if ob_end_closed ob then (s, []) else
          let final_end :=
            let a := (s_active s - 1)%Z in
            let fin := (a =? 0)%Z && negb (s_fin_close s) in
            let stop := fin && negb (s_balancing s) && negb (s_stopped s) in
            (set_end s a (s_fin_end s || fin) (s_stopped s || stop), if stop then [Stop] else []) in
          match c with
          | ETransient =>
              if s_cancel s then final_end else
              match s_offs s vb with
              | Some o =>
                  let ob1 := with_uuid ob uuid in
                  let ob2 := if roll then with_catchup ob1 (Some (o_seq o)) else ob1 in
                  (set_obs s (fupd (s_obs s) vb ob2), [OpenReq vb o])
              | None => (set_failed s, [Fail])
              end
          | _ => final_end
          end
      end
  end.

Fixpoint run (s : sstate) (ops : list op) : sstate * list (list out) :=
  match ops with
  | [] => (s, [])
  | o :: r => let '(s1, out1) := step s o in let '(s2, outs) := run s1 r in (s2, out1 :: outs)
  end.

Definition final (s : sstate) (ops : list op) : sstate := fst (run s ops).
