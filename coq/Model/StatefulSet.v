(* Model of kubernetes/stateful_set_membership.go: the member number of a StatefulSet pod is the ordinal at the end of its
   host name plus one, out of the configured group size; anything else terminates the start-up. *)
From Verif Require Import Base.Prelude Base.Bytes.
Local Open Scope Z_scope.

(* the bytes after the last '-' of the host name (strings.LastIndex); None when there is no '-' *)
Fixpoint after_last_dash (h : bytes) : option bytes :=
  match h with
  | [] => None
  | c :: r =>
      match after_last_dash r with
      | Some suf => Some suf
      | None => if N.eqb c 45%N then Some r else None
      end
  end.

(* getPodOrdinalFromHostname: strconv.Atoi of that suffix *)
Definition pod_ordinal (hostname : bytes) : option Z :=
  match after_last_dash hostname with
  | None => None
  | Some suf => let '(v, ok) := atoi suf in if ok then Some v else None
  end.

(* NewStatefulSetMembership: None = panic *)
Definition sts_member (hostname : bytes) (total : Z) : option (Z * Z) :=
  match pod_ordinal hostname with
  | None => None
  | Some o => let m := o + 1 in if total <? m then None else Some (m, total)
  end.
