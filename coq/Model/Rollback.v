(* Model of couchbase/rollback_mitigation.go (replica table, getMinSeqNo l.133-169, the observe callback
   l.304-353) and of the delivery gate in couchbase/observer.go (SetPersistSeqNo l.447-455, canForward /
   waitRollbackMitigation / checkPersistSeqNo l.86-120, Close). *)
From Verif Require Import Base.Prelude.
Local Open Scope N_scope.

Record row := Row { r_uuid : N; r_seq : N; r_absent : bool }.

(* getMinSeqNo: the first present copy gives the vbUUID; 0 on disagreement or when every copy is absent *)
Fixpoint min_rest (u m : N) (rows : list row) : N :=
  match rows with
  | [] => m
  | r :: l => if r_absent r then min_rest u m l
              else if negb (u =? r_uuid r) then 0
              else min_rest u (if r_seq r <? m then r_seq r else m) l
  end.
Fixpoint min_seq (rows : list row) : N :=
  match rows with
  | [] => 0
  | r :: l => if r_absent r then min_seq l else min_rest (r_uuid r) (r_seq r) l
  end.

Fixpoint set_row (rows : list row) (idx : nat) (u s : N) : list row :=
  match rows, idx with
  | [], _ => []
  | r :: l, O => Row u s (r_absent r) :: l
  | r :: l, S k => r :: set_row l k u s
  end.

(* the observe callback for copy idx answering (uuid, persistSeqNo): the table is updated and the minimum is
   dispatched only if the stored state is outdated (never for an absent copy) *)
Definition report (rows : list row) (idx : nat) (u s : N) : list row * option N :=
  match nth_error rows idx with
  | None => (rows, None)
  | Some r =>
      if negb (r_absent r) && (negb (r_uuid r =? u) || negb (r_seq r =? s))
      then let rows' := set_row rows idx u s in (rows', Some (min_seq rows'))
      else (rows, None)
  end.

(* ---- the gate of one vBucket stream ---- *)
Record gate := Gate {
  g_rows : list row;
  g_thr : N;                  (* observer.persistSeqNo *)
  g_closed : bool;
  g_waiting : option N        (* the event (its seqNo) held in waitRollbackMitigation *)
}.

Inductive gop :=
  | GArrive (seq : N)                 (* the next server event reaches the observer *)
  | GReport (idx : nat) (u s : N)     (* copy idx reports (vbUUID, persisted seqNo) *)
  | GPoll                             (* the waiting goroutine re-checks (every interval/5) *)
  | GClose.                           (* observer.Close() *)

Inductive gout := GDelivered (seq : N) | GDropped (seq : N) | GIgnored.

(* SetPersistSeqNo: zero ignored, never lowered *)
Definition set_persist (t : N) (m : N) : N := if m =? 0 then t else if t <? m then m else t.

Definition g_step (g : gate) (o : gop) : gate * list gout :=
  match o with
  | GArrive q =>
      match g_waiting g with
      | Some _ => (g, [GIgnored])          (* the connection's reader is blocked: nothing else arrives *)
      | None =>
          if (q <=? g_thr g) || g_closed g
          then (g, [if g_closed g then GDropped q else GDelivered q])
          else (Gate (g_rows g) (g_thr g) (g_closed g) (Some q), [])
      end
  | GReport idx u s =>
      let '(rows', d) := report (g_rows g) idx u s in
      (Gate rows' (match d with Some m => set_persist (g_thr g) m | None => g_thr g end) (g_closed g) (g_waiting g), [])
  | GPoll =>
      match g_waiting g with
      | Some q =>
          if (q <=? g_thr g) || g_closed g
          then (Gate (g_rows g) (g_thr g) (g_closed g) None, [if g_closed g then GDropped q else GDelivered q])
          else (g, [])
      | None => (g, [])
      end
  | GClose => (Gate (g_rows g) (g_thr g) true (g_waiting g), [])
  end.

Fixpoint g_run (g : gate) (ops : list gop) : gate * list (list gout) :=
  match ops with
  | [] => (g, [])
  | o :: r => let '(g1, out1) := g_step g o in let '(g2, outs) := g_run g1 r in (g2, out1 :: outs)
  end.

Definition g_init (rows : list row) : gate := Gate rows 0 false None.

(* configWatch / isConfigSnapshotNewerThan (rollback_mitigation.go l.88-112): the replica table is rebuilt from a
   cluster map exactly when its (revEpoch, revID) is later than the one in use; a pair is (epoch, revision) *)
Definition config_newer (old new : Z * Z) : bool :=
  let '(oe, orv) := old in
  let '(ne, nr) := new in
  if (ne <? oe)%Z then false
  else if (ne =? oe)%Z then (if (nr =? orv)%Z then false else if (nr <? orv)%Z then false else true)
  else true.
