(* Group membership (C10).
   Part A: couchbase/membership.go -- an index document id -> join time, one heart-beat document per instance,
           monitor rounds (l.160-243) and the numbering they derive (rebalance l.261-289).
   Part B: servicediscovery/service_discovery.go -- the leader numbers itself 1 and its followers 2.. in join
           order (StartMonitor l.157-185, GetAll, SetInfo).
   Instances are numbered by the harness in creation order; their ids are these numbers. Whether a heart-beat is
   recent enough (isAlive: a comparison with the local clock) is an input of the monitor round: the list [fresh]. *)
From Verif Require Import Base.Prelude.
Local Open Scope N_scope.

Definition mem (x : N) (l : list N) : bool := existsb (N.eqb x) l.

(* sort.SliceStable by join time *)
Fixpoint insert_by (e : N * N) (l : list (N * N)) : list (N * N) :=
  match l with
  | [] => [e]
  | h :: r => if snd e <=? snd h then e :: l else h :: insert_by e r
  end.
Definition sort_by_join (l : list (N * N)) : list (N * N) := fold_right insert_by [] l.

Fixpoint pos (x : N) (l : list N) : option nat :=
  match l with
  | [] => None
  | h :: r => if x =? h then Some 0%nat else option_map S (pos x r)
  end.

Definition info := (nat * nat)%type.   (* member number, total members *)
Definition info_eqb (a b : option info) : bool :=
  match a, b with
  | Some (k, t), Some (k', t') => Nat.eqb k k' && Nat.eqb t t'
  | None, None => true
  | _, _ => false
  end.

Definition upd {A} (f : N -> A) (k : N) (v : A) : N -> A := fun x => if x =? k then v else f x.

(* ---------- Part A ---------- *)
Record cbst := CB {
  cb_index : list (N * N);           (* the index document: id -> clusterJoinTime *)
  cb_docs : list N;                  (* ids whose instance document exists (not expired) *)
  cb_last : N -> list N;             (* per member: lastActiveInstances *)
  cb_info : N -> option info         (* per member: the numbering in effect (h.info) *)
}.

Definition cb_init : cbst := CB [] [] (fun _ => []) (fun _ => None).

Inductive cbop :=
  | Register (id join : N)           (* createIndex + the instance document *)
  | Expire (id : N)                  (* the instance document is gone (TTL) *)
  | Monitor (id : N) (fresh : list N).  (* one monitor round of member id; fresh = ids whose heart-beat its clock accepts *)

Inductive cbout :=
  | Publish (id : N) (k t : nat)     (* membershipChanged on the bus of member id *)
  | PanicNoSelf (id : N)             (* "cant find self in cluster" *)
  | Quiet.

Fixpoint upsert (l : list (N * N)) (id join : N) : list (N * N) :=
  match l with
  | [] => [(id, join)]
  | h :: r => if fst h =? id then (id, join) :: r else h :: upsert r id join
  end.

(* what a monitor round sees: the registered instances in join order that have a document with a fresh heart-beat *)
Definition live (s : cbst) (fresh : list N) (e : N * N) : bool := mem (fst e) (cb_docs s) && mem (fst e) fresh.
Definition view_entries (s : cbst) (fresh : list N) : list (N * N) := filter (live s fresh) (sort_by_join (cb_index s)).
Definition view (s : cbst) (fresh : list N) : list N := map fst (view_entries s fresh).

Definition monitor (s : cbst) (id : N) (fresh : list N) : cbst * cbout :=
  let alive := view s fresh in
  if list_eqb N.eqb alive (cb_last s id) then (s, Quiet)   (* isClusterChanged = false *)
  else
    let idx := view_entries s fresh in                        (* updateIndex: the index is rewritten (CAS) *)
    match pos id alive with
    | None => (CB idx (cb_docs s) (cb_last s) (cb_info s), PanicNoSelf id)
    | Some p =>
        let inf := (S p, length alive) in
        (CB idx (cb_docs s) (upd (cb_last s) id alive) (upd (cb_info s) id (Some inf)),
         if info_eqb (cb_info s id) (Some inf) then Quiet else Publish id (S p) (length alive))
    end.

Definition cb_step (s : cbst) (o : cbop) : cbst * cbout :=
  match o with
  | Register id join =>
      (CB (upsert (cb_index s) id join) (if mem id (cb_docs s) then cb_docs s else cb_docs s ++ [id]) (cb_last s) (cb_info s), Quiet)
  | Expire id => (CB (cb_index s) (filter (fun x => negb (x =? id)) (cb_docs s)) (cb_last s) (cb_info s), Quiet)
  | Monitor id fresh => monitor s id fresh
  end.

Fixpoint cb_run (s : cbst) (ops : list cbop) : cbst * list cbout :=
  match ops with
  | [] => (s, [])
  | o :: r => let '(s1, x) := cb_step s o in let '(s2, xs) := cb_run s1 r in (s2, x :: xs)
  end.

(* ---------- Part B ---------- *)
Record sdst := SD {
  sd_services : list (N * N);        (* followers known to the leader: name -> join time *)
  sd_leader : option info;           (* the leader's own numbering *)
  sd_follower : N -> option info     (* the numbering each follower has been told *)
}.
Definition sd_init : sdst := SD [] None (fun _ => None).

Inductive sdop :=
  | SAdd (name join : N)             (* a follower registered with the leader *)
  | SRemove (name : N)               (* its ping failed in a heartbeat round *)
  | SRound (fail : list N).          (* one monitor round of the leader; fail = followers whose Rebalance RPC fails *)

Inductive sdout :=
  | LPublish (k t : nat)                        (* membershipChanged on the leader's bus *)
  | RCall (name : N) (k t : nat)                (* Client.Rebalance(k, t) towards a follower *)
  | FPublish (name : N) (k t : nat).            (* membershipChanged on that follower's bus *)

Fixpoint tell (names : list N) (i : nat) (total : nat) (fail : list N) (f : N -> option info) : (N -> option info) * list sdout :=
  match names with
  | [] => (f, [])
  | n :: r =>
      let inf := (i, total) in
      let '(f1, o1) :=
        if mem n fail then (f, [RCall n i total])
        else (upd f n (Some inf), RCall n i total :: (if info_eqb (f n) (Some inf) then [] else [FPublish n i total])) in
      let '(f2, o2) := tell r (S i) total fail f1 in (f2, o1 ++ o2)
  end.

Definition sd_step (s : sdst) (o : sdop) : sdst * list sdout :=
  match o with
  | SAdd name join => (SD (upsert (sd_services s) name join) (sd_leader s) (sd_follower s), [])
  | SRemove name => (SD (filter (fun e => negb (fst e =? name)) (sd_services s)) (sd_leader s) (sd_follower s), [])
  | SRound fail =>
      let names := map fst (sort_by_join (sd_services s)) in
      let total := S (length names) in
      let lo := if info_eqb (sd_leader s) (Some (1%nat, total)) then [] else [LPublish 1 total] in
      let '(f, fo) := tell names 2 total fail (sd_follower s) in
      (SD (sd_services s) (Some (1%nat, total)) f, lo ++ fo)
  end.

Fixpoint sd_run (s : sdst) (ops : list sdop) : sdst * list (list sdout) :=
  match ops with
  | [] => (s, [])
  | o :: r => let '(s1, x) := sd_step s o in let '(s2, xs) := sd_run s1 r in (s2, x :: xs)
  end.

(* ---------- Part C: the follower side of the leader-assigned variant (serviceDiscovery.StartHeartbeat / ReassignLeader) ----------
   One heart-beat round of a follower: ping the leader; on failure reconnect and, if that works, register again (the leader
   drops a follower whose ping failed, and a restarted leader knows nobody); if either fails the leader is let go. *)
Inductive fhout := FReconnect | FRegister | FDropLeader.

Definition fh_round (has_leader ping_ok reconnect_ok register_ok : bool) : list fhout * bool (* a leader is still assigned *) :=
  if negb has_leader then ([], false)
  else if ping_ok then ([], true)
  else if negb reconnect_ok then ([FReconnect; FDropLeader], false)
  else if register_ok then ([FReconnect; FRegister], true)
  else ([FReconnect; FRegister; FDropLeader], false).
