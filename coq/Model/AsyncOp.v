(* Model of couchbase/async_op.go (Resolve / Wait) and of the wrapper pattern used by every Couchbase
   call of the library (couchbase/doc_op.go, client.go Ping / GetFailOverLogs / OpenStream / CloseStream /
   GetVBucketSeqNos): a completion callback that does Resolve() and then sends the outcome on a result
   channel of capacity 1, and a caller that waits in  select { ctx.Done -> Cancel | signal }  and returns
   ctx.Err() or the outcome.
   The schedule is explicit: the server's reply (the callback running), the deadline passing, and the two
   ways the select can go. gocbcore's contract, assumed: the callback runs exactly once -- by the reply
   or, if none has arrived, synchronously inside Cancel(). *)
From Verif Require Import Base.Prelude.

Inductive outcome := Success (x : N) | ServerError (code : N) | Cancelled.

Inductive result := ROk (x : N) | RErrServer (code : N) | RErrDeadline | RErrCancelled.

Record astate := A {
  a_signal : nat;              (* tokens in the signal channel (capacity 1) *)
  a_chan : option outcome;     (* the result channel (capacity 1) *)
  a_cb_done : bool;            (* the callback has run *)
  a_expired : bool;            (* ctx.Done() is closed *)
  a_cancels : nat;             (* calls of PendingOp.Cancel *)
  a_ret : option result;       (* what the wrapper returned *)
  a_blocked : bool             (* some goroutine is stuck on a full channel *)
}.
Definition a_init : astate := A 0 None false false 0 None false.

Inductive aop :=
  | Reply (o : outcome)        (* the server's answer arrives: the callback runs *)
  | Deadline                   (* the context's deadline passes *)
  | SelectSignal               (* Wait's select takes the signal branch *)
  | SelectDeadline.            (* Wait's select takes the ctx.Done branch *)

(* the callback: opm.Resolve(); ch <- outcome *)
Definition run_callback (s : astate) (o : outcome) : astate :=
  if a_cb_done s then s   (* gocbcore never calls it twice *)
  else
    let blocked := (1 <=? a_signal s) || match a_chan s with Some _ => true | None => false end in
    A (S (a_signal s)) (Some o) true (a_expired s) (a_cancels s) (a_ret s) (a_blocked s || blocked).

Definition ret_of (o : outcome) : result :=
  match o with Success x => ROk x | ServerError c => RErrServer c | Cancelled => RErrCancelled end.

Definition a_step (s : astate) (op : aop) : astate :=
  match op with
  | Reply o => match o with Cancelled => s | _ => run_callback s o end   (* a server reply is never "cancelled" *)
  | Deadline => A (a_signal s) (a_chan s) (a_cb_done s) true (a_cancels s) (a_ret s) (a_blocked s)
  | SelectSignal =>
      match a_ret s, a_signal s with
      | None, S k =>
          (* return m.ctx.Err(): the deadline may have passed meanwhile; otherwise read the result channel *)
          if a_expired s then A k (a_chan s) (a_cb_done s) true (a_cancels s) (Some RErrDeadline) (a_blocked s)
          else match a_chan s with
               | Some o => A k None (a_cb_done s) false (a_cancels s) (Some (ret_of o)) (a_blocked s)
               | None => s
               end
      | _, _ => s
      end
  | SelectDeadline =>
      match a_ret s with
      | None =>
          if a_expired s then
            let s1 := run_callback s Cancelled in   (* op.Cancel(): completes the op with a cancel error unless it already completed *)
            A (a_signal s1) (a_chan s1) (a_cb_done s1) true (S (a_cancels s)) (Some RErrDeadline) (a_blocked s1)
          else s
      | Some _ => s
      end
  end.

Definition a_run (ops : list aop) : astate := fold_left a_step ops a_init.
