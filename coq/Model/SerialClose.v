(* Model of the end-of-session signalling of stream/stream.go around a rebalance against a server older than 5.5.0
   (serial stream closing): closeAllStreams (the close sweep, paced by the end notification of each closed stream),
   listenEnd, the tail of close(), wait(), Open() and the end of rebalance().

   One step = one thing the Go scheduler can order against the others:
     SweepVb    the close of the next stream of the sweep and the end notification that answers it (listenEnd)
     CloseTail  the end of close(): "finished by close" is posted unless the flag says the session was finished by end events
     WaitTake b a wait() goroutine takes a posted signal (b: which one, when both are posted) and stops the client
                unless a rebalance is under way
     Reopen     Open(): flags reset, active count := n, a new wait() goroutine
     BalOff     rebalance() clears `balancing`
   `fixed` says which listenEnd is modelled: false = before commit 5d885dd (finding K15), true = after it. *)
From Coq Require Import List Bool Arith Lia.
Import ListNotations.

Record sc := SC {
  sc_active : nat;        (* activeStreams *)
  sc_ending : bool;       (* streamEndNotSupportedData.ending *)
  sc_fin_end : bool;      (* streamFinishedWithEndEventCh *)
  sc_fin_close : bool;    (* streamFinishedWithCloseCh *)
  sc_sig_end : nat;       (* tokens in finishStreamWithEndEventCh *)
  sc_sig_close : nat;     (* tokens in finishStreamWithCloseCh *)
  sc_waiters : nat;       (* wait() goroutines still waiting *)
  sc_balancing : bool;
  sc_stopped : bool       (* stopCh closed: the client stops *)
}.

Inductive scop := SweepStart | SweepVb | SweepEnd | CloseTail | WaitTake (pick_end : bool) | Reopen (n : nat) | BalOff.

Definition sc_step (fixed : bool) (s : sc) (o : scop) : sc :=
  match o with
  | SweepStart => SC (sc_active s) true (sc_fin_end s) (sc_fin_close s) (sc_sig_end s) (sc_sig_close s) (sc_waiters s) (sc_balancing s) (sc_stopped s)
  | SweepVb =>
      (* listenEnd for the end (status "closed") that answers the close of one stream *)
      let closing := sc_ending s in
      let a := sc_active s - 1 in
      let post := (a =? 0) && negb (sc_fin_close s) && negb (fixed && closing) in
      SC a (sc_ending s) (sc_fin_end s) (sc_fin_close s) (if post then S (sc_sig_end s) else sc_sig_end s) (sc_sig_close s)
         (sc_waiters s) (sc_balancing s) (sc_stopped s)
  | SweepEnd => SC (sc_active s) false (sc_fin_end s) (sc_fin_close s) (sc_sig_end s) (sc_sig_close s) (sc_waiters s) (sc_balancing s) (sc_stopped s)
  | CloseTail =>
      SC (sc_active s) (sc_ending s) (sc_fin_end s) (sc_fin_close s) (sc_sig_end s)
         (if sc_fin_end s then sc_sig_close s else S (sc_sig_close s)) (sc_waiters s) (sc_balancing s) (sc_stopped s)
  | WaitTake pick_end =>
      match sc_waiters s with
      | 0 => s
      | S w =>
          let take_end := (0 <? sc_sig_end s) && (pick_end || (sc_sig_close s =? 0)) in
          let take_close := negb take_end && (0 <? sc_sig_close s) in
          if take_end then
            SC (sc_active s) (sc_ending s) true (sc_fin_close s) (sc_sig_end s - 1) (sc_sig_close s) w (sc_balancing s)
               (sc_stopped s || negb (sc_balancing s))
          else if take_close then
            SC (sc_active s) (sc_ending s) (sc_fin_end s) true (sc_sig_end s) (sc_sig_close s - 1) w (sc_balancing s)
               (sc_stopped s || negb (sc_balancing s))
          else s
      end
  | Reopen n => SC n (sc_ending s) false false (sc_sig_end s) (sc_sig_close s) (S (sc_waiters s)) (sc_balancing s) (sc_stopped s)
  | BalOff => SC (sc_active s) (sc_ending s) (sc_fin_end s) (sc_fin_close s) (sc_sig_end s) (sc_sig_close s) (sc_waiters s) false (sc_stopped s)
  end.

Definition sc_run (fixed : bool) (s : sc) (ops : list scop) : sc := fold_left (sc_step fixed) ops s.

(* a streaming session on n vBuckets, inside Rebalance() just before the close sweep *)
Definition sc_streaming (n : nat) : sc := SC n false false false 0 0 1 true false.

(* the steps of one rebalance cycle other than those of the wait() goroutines, in program order *)
Definition cycle_core (n : nat) : list scop := [SweepStart] ++ repeat SweepVb n ++ [SweepEnd; CloseTail; Reopen n; BalOff].

(* a schedule of one cycle: the core in order, WaitTake steps anywhere *)
Fixpoint strip (ops : list scop) : list scop :=
  match ops with
  | [] => []
  | WaitTake _ :: r => strip r
  | o :: r => o :: strip r
  end.
