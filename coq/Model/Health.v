(* Model of couchbase/healthcheck.go: Start/Stop with their once-guards, the ticker loop (run) and
   the bounded retry loop performHealthCheck (l.68-94).
   Granularity: the harness holds the checker inside client.Ping() (a scripted fake) and decides each
   ping's result; the ticker and the one-second retry wait are real time, observed as "the next ping
   arrives within a window". *)
From Verif Require Import Base.Prelude.

Inductive phase :=
  | Wait                (* between rounds: select on ctx.Done / ticker *)
  | Pinging (n : nat)   (* attempt n (1..5) is inside client.Ping() *)
  | Retrying (n : nat). (* attempt n failed, select on ctx.Done / time.After(1s) *)

Record hstate := H {
  start_once : bool;    (* startOnce consumed *)
  stop_once : bool;     (* stopOnce consumed *)
  running : bool;       (* the run goroutine is alive *)
  cancelled : bool;     (* ctx cancelled *)
  stop_waiting : nat;   (* Stop() calls blocked in wg.Wait() / behind stopOnce *)
  ph : phase;
  crashed : bool        (* the process panicked *)
}.

Definition h_init : hstate := H false false false false 0 Wait false.

Inductive hop :=
  | Start
  | Stop
  | Await (long : bool)  (* let real time pass: a tick interval (short) or the retry second (long) *)
  | PingRes (ok : bool). (* the ping in flight returns *)

Inductive hout := OPing | OPanic | OStopReturned.

Definition max_retries : nat := 5.

Definition stop_returns (k : nat) : list hout := repeat OStopReturned k.

Definition h_step (s : hstate) (o : hop) : hstate * list hout :=
  if crashed s then (s, []) else
  match o with
  | Start =>
      if start_once s then (s, [])
      else (H true (stop_once s) true false 0 Wait false, [])
  | Stop =>
      if stop_once s then
        (* sync.Once: a call made while the first one is still inside Do blocks with it *)
        if 0 <? stop_waiting s
        then (H (start_once s) true (running s) (cancelled s) (S (stop_waiting s)) (ph s) false, [])
        else (s, [OStopReturned])
      else if negb (start_once s) then
        (* cancelFunc is nil, wg.Wait returns at once; the once-guard is consumed *)
        (H (start_once s) true (running s) (cancelled s) 0 (ph s) false, [OStopReturned])
      else if negb (running s) then
        (H true true false true 0 (ph s) false, [OStopReturned])
      else
        match ph s with
        | Pinging n =>   (* blocked in wg.Wait until the ping returns *)
            (H true true (running s) true 1 (ph s) false, [])
        | _ =>           (* the select sees ctx.Done: the goroutine returns *)
            (H true true false true 0 Wait false, [OStopReturned])
        end
  | Await long =>
      if negb (running s) || cancelled s then (s, []) else
      match ph s with
      | Wait => (H (start_once s) (stop_once s) true false 0 (Pinging 1) false, [OPing])
      | Retrying n =>
          if long then (H (start_once s) (stop_once s) true false 0 (Pinging (S n)) false, [OPing])
          else (s, [])
      | Pinging _ => (s, [])
      end
  | PingRes ok =>
      match ph s with
      | Pinging n =>
          if negb (running s) then (s, []) else
          if ok then
            if cancelled s then (H true true false true 0 Wait false, stop_returns (stop_waiting s))
            else (H (start_once s) (stop_once s) true false 0 Wait false, [])
          else if n <? max_retries then
            if cancelled s then (H true true false true 0 Wait false, stop_returns (stop_waiting s))
            else (H (start_once s) (stop_once s) true false 0 (Retrying n) false, [])
          else (H (start_once s) (stop_once s) false (cancelled s) (stop_waiting s) (ph s) true, [OPanic])
      | _ => (s, [])
      end
  end.

Fixpoint h_run (s : hstate) (ops : list hop) : hstate * list (list hout) :=
  match ops with
  | [] => (s, [])
  | o :: ops' =>
      let '(s1, out) := h_step s o in
      let '(s2, outs) := h_run s1 ops' in (s2, out :: outs)
  end.

Definition h_outputs (ops : list hop) : list hout := concat (snd (h_run h_init ops)).

(* one check round in which every retry wait elapses: the results rs are consumed one per ping, the
   round is over at the first success *)
Fixpoint round_ops (rs : list bool) : list hop :=
  match rs with
  | [] => []
  | true :: _ => [PingRes true]
  | false :: rs' => PingRes false :: Await true :: round_ops rs'
  end.

(* a started, idle checker *)
Definition h_ready : hstate := H true false true false 0 Wait false.

Fixpoint leading_failures (rs : list bool) : nat :=
  match rs with false :: rs' => S (leading_failures rs') | _ => 0 end.

Definition is_ping (o : hout) : bool := match o with OPing => true | _ => false end.
Definition count_pings (l : list hout) : nat := length (filter is_ping l).
