(* Model of couchbase/client.go OpenStream (l.664-730) and openStreamWithRollback (l.600-662): the
   arguments of the DCP stream request, the rollback re-request and the choice of the history branch. *)
From Verif Require Import Base.Prelude Base.Bytes Model.Stream.
Local Open Scope N_scope.

Record sreq := SReq { rq_flags : N; rq_uuid : N; rq_start : N; rq_end : N; rq_snap_start : N; rq_snap_end : N }.

(* dcpAgent.OpenStream(vbID, 0x80, offset.VbUUID, offset.SeqNo, offset.LatestSeqNo, offset.StartSeqNo, offset.EndSeqNo, ...) *)
Definition first_req (o : offset) : sreq := SReq 128 (o_uuid o) (o_seq o) (o_latest o) (o_start o) (o_end o).

(* failover log as the server returns it: newest entry first, (vbUUID, first seqNo of the branch).
   for i := len-1 .. 0 { if rollbackSeqNo >= log[i].SeqNo { target = log[i].VbUUID } } *)
Definition branch_for (log : list (N * N)) (r : N) : N :=
  fold_left (fun acc e => if snd e <=? r then fst e else acc) (rev log) 0.

Definition rollback_req (o : offset) (log : list (N * N)) (r : N) : sreq :=
  SReq 0 (branch_for log r) r (o_latest o) r r.

(* server answers to a stream request *)
Inductive sanswer := AOk (log : list (N * N)) | ARollback (r : N) | AErr.

(* OpenStream: the requests sent, and on success (vbUUID set on the observer, catch-up position) *)
Definition open_stream (o : offset) (a1 : sanswer) (log : list (N * N)) (a2 : sanswer)
  : list sreq * option (N * option N) :=
  match a1 with
  | AOk l => ([first_req o], match l with (u, _) :: _ => Some (u, None) | [] => None end)
  | AErr => ([first_req o], None)
  | ARollback r =>
      let reqs := [first_req o; rollback_req o log r] in
      match a2 with
      | AOk l => (reqs, match l with (u, _) :: _ => Some (u, Some (o_seq o)) | [] => None end)
      | _ => (reqs, None)
      end
  end.
