(* Model of helpers.ChunkSlice (helpers/utils.go l.18-39) and of the member's choice of chunk
   (stream/vbucket_discovery.go Get l.40-66).  A chunk is (start index, length): the Go code
   returns slice[start:end] of the identity slice 0..n-1, so start and length describe it fully. *)
From Verif Require Import Base.Prelude.

(* maxChunkSize := ((len(slice) - 1) / chunks) + 1 ; numFullChunks := chunks - (maxChunkSize*chunks - len(slice)) *)
Definition max_chunk (n t : nat) : nat := (n - 1) / t + 1.
Definition num_full (n t : nat) : nat := t - (max_chunk n t * t - n).

(* the for loop: k iterations left, i the loop index, start the running startIndex *)
Fixpoint chunk_loop (k i start m f : nat) : list (nat * nat) :=
  match k with
  | O => []
  | S k' =>
      let e := start + m in
      let e' := if f <=? i then e - 1 else e in
      (start, e' - start) :: chunk_loop k' (S i) e' m f
  end.

Definition chunks (n t : nat) : list (nat * nat) :=
  chunk_loop t 0 0 (max_chunk n t) (num_full n t).

(* vBucketDiscovery.Get: chunk number (member - 1); reported as (first, last) vBucket id *)
Definition member_chunk (n t k : nat) : option (nat * nat) := nth_error (chunks n t) (k - 1).
Definition member_range (n t k : nat) : option (nat * nat) :=
  match member_chunk n t k with
  | Some (s, l) => Some (s, s + l - 1)
  | None => None
  end.

Definition ids (c : nat * nat) : list nat := seq (fst c) (snd c).

(* run-length form used by the exhaustive correspondence: (len of first chunk, how many chunks
   have it, len of the remaining chunks, how many) -- None if more than two runs *)
Fixpoint rle (l : list nat) : list (nat * nat) :=
  match l with
  | [] => []
  | x :: l' =>
      match rle l' with
      | (y, c) :: r => if x =? y then (y, S c) :: r else (x, 1) :: (y, c) :: r
      | [] => [(x, 1)]
      end
  end.
Definition lens_rle (n t : nat) : list (nat * nat) := rle (map snd (chunks n t)).

(* ---- the same computation on binary numbers, used to evaluate large cases quickly; it is proved
   equal to the definitions above in Proofs/ChunkProofs.v (chunksN_correct), so the theorems about
   [chunks] apply to what the correspondence evaluates ---- *)
Definition max_chunkN (n t : N) : N := ((n - 1) / t + 1)%N.
Definition num_fullN (n t : N) : N := (t - (max_chunkN n t * t - n))%N.
Fixpoint chunk_loopN (k : nat) (i start m f : N) : list (N * N) :=
  match k with
  | O => []
  | S k' =>
      let e := (start + m)%N in
      let e' := if (f <=? i)%N then (e - 1)%N else e in
      (start, (e' - start)%N) :: chunk_loopN k' (N.succ i) e' m f
  end.
Definition chunksN (n t : N) : list (N * N) :=
  chunk_loopN (N.to_nat t) 0 0 (max_chunkN n t) (num_fullN n t).
Definition member_rangeN (n t k : N) : option (N * N) :=
  match nth_error (chunksN n t) (N.to_nat (k - 1)) with
  | Some (s, l) => Some (s, (s + l - 1)%N)
  | None => None
  end.
Fixpoint rleN (l : list N) : list (N * N) :=
  match l with
  | [] => []
  | x :: l' =>
      match rleN l' with
      | (y, c) :: r => if (x =? y)%N then (y, N.succ c) :: r else (x, 1%N) :: (y, c) :: r
      | [] => [(x, 1%N)]
      end
  end.
Definition lens_rleN (n t : N) : list (N * N) := rleN (map snd (chunksN n t)).
