(* Model of couchbase/version.go: the comparison methods (l.25-68), the parser nodeVersionFromString
   (l.70-108) and the three feature gates (dcp.go newDcp l.276-285, stream/stream.go NewStream l.501-506). *)
From Verif Require Import Base.Prelude Base.Bytes.
Local Open Scope Z_scope.

Record version := V { major : Z; minor : Z; patch : Z; build : Z }.

Definition equal (v o : version) : bool :=
  (major v =? major o) && (minor v =? minor o) && (patch v =? patch o) && (build v =? build o).

Definition higher (v o : version) : bool :=
  if major v >? major o then true else if major v <? major o then false else
  if minor v >? minor o then true else if minor v <? minor o then false else
  if patch v >? patch o then true else if patch v <? patch o then false else
  if build v >? build o then true else if build v <? build o then false else
  false.

Definition lower (v o : version) : bool := negb (higher v o) && negb (equal v o).

Definition srv550 := V 5 5 0 0.
Definition srv650 := V 6 5 0 0.
Definition srv720 := V 7 2 0 0.

(* gates *)
Definition use_expiry_opcode (v : version) : bool := higher v srv650 || equal v srv650.
Definition use_change_streams (magma : bool) (v : version) : bool := magma && (higher v srv720 || equal v srv720).
Definition serial_close (v : version) : bool := lower v srv550.

(* nodeVersionFromString; None = error returned *)
Definition dot : N := 46%N.
Definition dash : N := 45%N.

Definition parse (s : bytes) : option version :=
  match split dot s with
  | [] => None
  | s0 :: rest =>
      let '(ma, ok0) := atoi s0 in
      if negb ok0 then None else
      match rest with
      | [] => Some (V ma 0 0 0)
      | s1 :: rest1 =>
          let '(mi, ok1) := atoi s1 in
          if negb ok1 then None else
          match rest1 with
          | [] => Some (V ma mi 0 0)
          | s2 :: _ =>
              match split dash s2 with
              | [] => None
              | p0 :: prest =>
                  let '(pa, ok2) := atoi p0 in
                  if negb ok2 then None else
                  match prest with
                  | [] => Some (V ma mi pa 0)
                  | b0 :: _ =>
                      (* strings.Split(nodeBuild[1], "-") is [nodeBuild[1]]; on error the value Atoi
                         returned is kept and no error is reported *)
                      let '(bu, _) := atoi b0 in Some (V ma mi pa bu)
                  end
              end
          end
      end
  end.

(* "M.m.p-build-edition" *)
Definition render (ma mi pa bu : N) (edition : bytes) : bytes :=
  dec ma ++ [dot] ++ dec mi ++ [dot] ++ dec pa ++ [dash] ++ dec bu ++ [dash] ++ edition.
