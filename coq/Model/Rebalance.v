(* Model of the rebalance orchestration of stream/stream.go: Rebalance() l.278-309 (debounce branch /
   lock branch), rebalance() l.311-323 (the reopen half run by the timer), and the parts of Close / Open /
   wait() that matter to it.  One [rop] is one scheduling step at the granularity of the lifecycle callbacks,
   which is where the harness can hold the real goroutines.

   Threads: notifiers calling Rebalance() (bus subscriber, API handler, deferred timers), the timer goroutine
   running rebalance(). Shared: balancing, the timer (nil / armed for reopen / fired), the rebalance lock
   (taken in Rebalance(), released at the end of rebalance()), the membership information. *)
From Verif Require Import Base.Prelude.

Inductive tstate := TNil | TArmed | TFired.   (* s.rebalanceTimer: nil / armed for the reopen half / its callback is running *)

Inductive rphase :=
  | POpen          (* streaming; the lock is free *)
  | PClosing       (* a notifier holds the lock and is inside Close(false) *)
  | PDelay         (* closed; the reopen timer is armed *)
  | PReopening.    (* the timer goroutine is inside rebalance(): Open() on the latest membership *)

Record rstate := R {
  r_phase : rphase;
  r_balancing : bool;
  r_timer : tstate;
  r_blocked : nat;        (* notifiers waiting for the rebalance lock *)
  r_deferred : nat;       (* armed timers that will call Rebalance() again *)
  r_info : N;             (* latest membership information published *)
  r_range : N;            (* the membership information the stream is currently opened on *)
  r_next : N;             (* the membership information the reopen in progress has read *)
  r_cycles : nat;         (* completed close + reopen cycles *)
  r_stopped : bool        (* stopCh closed *)
}.

Definition r_init (info : N) : rstate := R POpen false TNil 0 0 info info info 0 false.

Inductive rop :=
  | Notify (info : N)     (* a membership notification: the information changes and some notifier calls Rebalance() *)
  | CloseDone             (* the notifier inside Close(false) finishes it and arms the reopen timer *)
  | TimerFire             (* the reopen timer fires: rebalance() starts (BeforeRebalanceEnd, Open ...) *)
  | ReopenDone            (* Open() is done: balancing := false, AfterRebalanceEnd, unlock *)
  | DeferredFire.         (* a deferred timer fires: Rebalance() is entered again *)

Inductive rout :=
  | CB (name : nat)       (* lifecycle callback, numbered as below *)
  | RStop.
Definition BRS := CB 1. Definition ARS := CB 2. Definition BRE := CB 3. Definition ARE := CB 4.
Definition BSStart := CB 5. Definition ASStart := CB 6. Definition BSStop := CB 7. Definition ASStop := CB 8.

(* entering Rebalance() *)
Definition enter (s : rstate) : rstate * list rout :=
  match r_balancing s, r_timer s with
  | true, TArmed => (s, [])                                               (* timer.Stop() succeeded: Reset(delay) *)
  | true, TFired => (R (r_phase s) true TFired (r_blocked s) (S (r_deferred s)) (r_info s) (r_range s) (r_next s) (r_cycles s) (r_stopped s), [])
                                                                          (* the reopen is running: re-armed as a deferred Rebalance() *)
  | true, TNil => (s, [])                                                 (* the close step is running: nothing to do, the reopen that
                                                                             follows reads the latest membership (repaired defect K6) *)
  | false, _ =>
      match r_phase s with
      | POpen => (* lock free: BeforeRebalanceStart; balancing := true; Close(false) begins *)
          (R PClosing true (r_timer s) (r_blocked s) (r_deferred s) (r_info s) (r_range s) (r_next s) (r_cycles s) (r_stopped s), [BRS; BSStop])
      | _ => (* not reachable: outside POpen a cycle is in progress and balancing is set *)
          (R (r_phase s) (r_balancing s) (r_timer s) (S (r_blocked s)) (r_deferred s) (r_info s) (r_range s) (r_next s) (r_cycles s) (r_stopped s), [])
      end
  end.

Definition r_step (s : rstate) (o : rop) : rstate * list rout :=
  match o with
  | Notify i => enter (R (r_phase s) (r_balancing s) (r_timer s) (r_blocked s) (r_deferred s) i (r_range s) (r_next s) (r_cycles s) (r_stopped s))
  | DeferredFire =>
      match r_deferred s with
      | O => (s, [])
      | S d => enter (R (r_phase s) (r_balancing s) (r_timer s) (r_blocked s) d (r_info s) (r_range s) (r_next s) (r_cycles s) (r_stopped s))
      end
  | CloseDone =>
      match r_phase s with
      | PClosing => (R PDelay true TArmed (r_blocked s) (r_deferred s) (r_info s) (r_range s) (r_next s) (r_cycles s) (r_stopped s), [ASStop; ARS])
      | _ => (s, [])
      end
  | TimerFire =>
      match r_phase s, r_timer s with
      | PDelay, TArmed => (R PReopening true TFired (r_blocked s) (r_deferred s) (r_info s) (r_range s) (r_info s) (r_cycles s) (r_stopped s), [BRE; BSStart])
      | _, _ => (s, [])
      end
  | ReopenDone =>
      match r_phase s with
      | PReopening =>
          (* Open() read the membership when it ran; the timer is forgotten, balancing := false; unlock *)
          let s1 := R POpen false TNil (r_blocked s) (r_deferred s) (r_info s) (r_next s) (r_next s) (S (r_cycles s)) (r_stopped s) in
          match r_blocked s with
          | O => (s1, [ASStart; ARE])
          | S b =>
              let '(s2, outs) := enter (R POpen false TNil b (r_deferred s) (r_info s) (r_next s) (r_next s) (S (r_cycles s)) (r_stopped s)) in
              (s2, [ASStart; ARE] ++ outs)
          end
      | _ => (s, [])
      end
  end.

Fixpoint r_run (s : rstate) (ops : list rop) : rstate * list rout :=
  match ops with
  | [] => (s, [])
  | o :: r => let '(s1, out1) := r_step s o in let '(s2, outs) := r_run s1 r in (s2, out1 ++ outs)
  end.

(* the internal events still owed in a state: what has to happen before the system is quiet *)
Definition quiet (s : rstate) : bool :=
  match r_phase s with POpen => (r_blocked s =? 0)%nat && (r_deferred s =? 0)%nat | _ => false end.
