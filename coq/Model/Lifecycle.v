(* Lifecycle: Dcp.Start() ... Dcp.Close() around the stream core of Model/Stream.v.
   dcp.go close() l.195-233: health check stop, discovery close, final Save() in auto mode, unsubscribe,
   stream.Close(closeWithCancel), leader election / api stop, client.DcpClose(), client.Close().
   Close() only posts the signal; the teardown runs on the goroutine of Start(), which then returns: "Close has
   returned" is the return of Start() (output Returned).
   The health check, the discovery, the bus subscription and the api have no call a fake could see; their being
   stopped is observed by the harness (no Ping, no notification after the return), not compared step by step. *)
From Verif Require Import Base.Prelude Base.Bytes Model.Stream.
Local Open Scope N_scope.

Record lstate := L {
  l_s : sstate;
  l_auto : bool;     (* checkpoint.type = auto: close() saves before it closes the stream *)
  l_dcp : bool;      (* the DCP agent is open *)
  l_cli : bool;      (* the client is open *)
  l_down : bool      (* the teardown has run (Start() returned or died in it) *)
}.

Inductive lop :=
  | SOp (o : op)                 (* an op of the stream core *)
  | Shutdown (r1 r2 : bool).     (* Close(): r1 = how a Metadata.Save that is in flight ends, r2 = how the final save ends *)

Inductive lout :=
  | SOut (o : out)
  | DcpClose | CliClose
  | Returned                     (* Start() returned *)
  | Died.                        (* the goroutine of Start() panicked inside close() (no longer produced: K4 is repaired) *)

Definition souts (l : list out) : list lout := map SOut l.

(* checkpoint.Save() as close() calls it: it takes the save lock first, so with a store call in flight it
   waits until that call has returned (r1), and then, like any Save(), runs its body if anything is marked *)
Definition final_save (s : sstate) (r1 r2 : bool) : sstate * list out :=
  match s_inflight s with
  | None =>
      let '(s1, o1) := step s SaveBegin in
      match s_inflight s1 with
      | Some _ => let '(s2, o2) := step s1 (SaveEnd r2) in (s2, o1 ++ o2)
      | None => (s1, o1)
      end
  | Some _ =>
      let '(s1, o1) := step s SaveQueue in
      let '(s2, o2) := step s1 (SaveEnd r1) in
      match s_inflight s2 with
      | Some _ => let '(s3, o3) := step s2 (SaveEnd r2) in (s3, o1 ++ o2 ++ o3)
      | None => (s2, o1 ++ o2)
      end
  end.

Definition with_s (l : lstate) (s : sstate) : lstate := L s (l_auto l) (l_dcp l) (l_cli l) (l_down l).

Definition shutdown (l : lstate) (r1 r2 : bool) : lstate * list lout :=
  let s := l_s l in
  if l_down l || s_failed s then (l, [SOut Ignored]) else
  let '(s1, o1) := if l_auto l then final_save s r1 r2 else (s, []) in
  if s_obs_nil s1 then
    (* a rebalance has closed the stream already: stream.Close stops the reopen timer, raises the shutdown flag (the
       reopen half, should it be running or start later, does nothing) and has nothing left to close (repaired defect K4) *)
    (L s1 (l_auto l) false false true, souts o1 ++ [DcpClose; CliClose; Returned])
  else
    let '(s2, o2) := step s1 (Close true) in
    (L s2 (l_auto l) false false true, souts (o1 ++ o2) ++ [DcpClose; CliClose; Returned]).

(* once the teardown has run nothing is opened or closed any more: Rebalance() returns at once, the reopen half of a
   rebalance finds the shutdown flag *)
Definition inert_when_down (o : op) : bool :=
  match o with Open _ _ _ | RebOpen _ _ _ | RebClose => true | _ => false end.

Definition lstep (l : lstate) (o : lop) : lstate * list lout :=
  match o with
  | SOp o' =>
      if l_down l && inert_when_down o' then (l, [SOut Ignored]) else
      let '(s', outs) := step (l_s l) o' in (with_s l s', souts outs)
  | Shutdown r1 r2 => shutdown l r1 r2
  end.

Fixpoint lrun (l : lstate) (ops : list lop) : lstate * list (list lout) :=
  match ops with
  | [] => (l, [])
  | o :: r => let '(l1, out1) := lstep l o in let '(l2, outs) := lrun l1 r in (l2, out1 :: outs)
  end.

Definition linit (c : cfg) (auto : bool) (store : fmap doc) : lstate := L (init_state c store) auto true true false.

(* ops that can still arrive once the teardown has run: late deliveries and stream ends from the network,
   acknowledgements of contexts handed out earlier, Commit() calls, stale schedule ticks, scrapes, timers.
   Not: Open (only Start and the rebalance call it) and Crash. *)
Definition late_op (o : op) : bool :=
  match o with Open _ _ _ | RebOpen _ _ _ | Crash => false | _ => true end.

Definition is_consume (x : lout) : bool := match x with SOut (Consume _ _ _ _ _ _) => true | _ => false end.
Definition is_openreq (x : lout) : bool := match x with SOut (OpenReq _ _) => true | _ => false end.
Definition is_metasave (x : lout) : bool := match x with SOut (MetaSave _ _) => true | _ => false end.
