(* Evaluator of the cases files that compare the real wrapper.ConcurrentSwissMap with Model/SwissMap.v.  The Go map
   iterates in an unspecified order: the harness sorts the pairs it saw by key, and a listing is compared as a set
   (same length, strictly ascending keys, every pair found in the model). *)
From Verif Require Import Base.Prelude Model.SwissMap.
Local Open Scope N_scope.

Fixpoint ascending (l : smap) : bool :=
  match l with
  | (a, _) :: (((b, _) :: _) as r) => (a <? b) && ascending r
  | _ => true
  end.

Definition sout_eqb (model obs : sout) : bool :=
  match model, obs with
  | OUnit, OUnit => true
  | OLoad a, OLoad b => option_eqb N.eqb a b
  | OCount a, OCount b => Nat.eqb a b
  | ORange a, ORange b => Nat.eqb a b
  | OMap m, OMap l =>
      Nat.eqb (length m) (length l) && ascending l &&
      forallb (fun kv => option_eqb N.eqb (sm_load m (fst kv)) (Some (snd kv))) l
  | _, _ => false
  end.

Definition chk_swiss (c : list sop * list sout) : bool :=
  let '(ops, obs) := c in list_eqb sout_eqb (snd (sm_run [] ops)) obs.
