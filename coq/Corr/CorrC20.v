From Verif Require Import Base.Prelude Model.AsyncOp.
(* observed class of a wrapper call: 0 = success, 1 = an error (which error a wrapper reports for a deadline
   differs between wrappers -- Ping folds it into "some services are not healthy" -- so only success vs
   error is compared; the return time is checked by the harness) *)
Definition class_of (r : option result) : N :=
  match r with Some (ROk _) => 0 | _ => 1 end%N.
Definition chk_wrapper (c : list aop * N) : bool := let '(ops, cls) := c in N.eqb (class_of (a_ret (a_run ops))) cls.
