From Verif Require Import Base.Prelude Base.Bytes Model.Version.
Local Open Scope Z_scope.

Definition mkv (t : Z * Z * Z * Z) : version := let '(a, b, c, d) := t in V a b c d.

(* observed (Higher, Lower, Equal) of the real methods on a pair *)
Definition chk_cmp (c : (Z * Z * Z * Z) * (Z * Z * Z * Z) * (bool * bool * bool)) : bool :=
  let '(a, b, (h, l, e)) := c in
  Bool.eqb (higher (mkv a) (mkv b)) h && Bool.eqb (lower (mkv a) (mkv b)) l && Bool.eqb (equal (mkv a) (mkv b)) e.

Definition v_eqb (a b : version) : bool :=
  (major a =? major b) && (minor a =? minor b) && (patch a =? patch b) && (build a =? build b).

(* observed result of nodeVersionFromString: None on error *)
Definition chk_parse (c : bytes * option (Z * Z * Z * Z)) : bool :=
  let '(s, r) := c in option_eqb v_eqb (parse s) (option_map mkv r).

(* observed gate: NewStream closes streams serially iff version < 5.5.0 *)
Definition chk_serial (c : (Z * Z * Z * Z) * bool) : bool :=
  let '(a, b) := c in Bool.eqb (serial_close (mkv a)) b.
