(* Evaluators for the stream-core histories: per-op outputs and the final state projection. *)
From Verif Require Import Base.Prelude Base.Bytes Model.Stream.
Local Open Scope N_scope.

Definition offset_eqb (a b : offset) : bool :=
  (o_uuid a =? o_uuid b) && (o_seq a =? o_seq b) && (o_start a =? o_start b) && (o_end a =? o_end b) && (o_latest a =? o_latest b).
Definition doc_eqb (a b : doc) : bool :=
  (d_uuid a =? d_uuid b) && (d_seq a =? d_seq b) && (d_start a =? d_start b) && (d_end a =? d_end b).
Definition item_eqb (a b : item) : bool :=
  (i_seq a =? i_seq b) && (i_cas a =? i_cas b) && (i_cid a =? i_cid b) && bytes_eqb (i_key a) (i_key b) && (i_rest a =? i_rest b).
Definition dkind_eqb (a b : dkind) : bool :=
  match a, b with KMut, KMut | KDel, KDel | KExp, KExp => true | _, _ => false end.
Definition cb_eqb (a b : cbname) : bool :=
  match a, b with
  | BeforeRebalanceStart, BeforeRebalanceStart | AfterRebalanceStart, AfterRebalanceStart
  | BeforeRebalanceEnd, BeforeRebalanceEnd | AfterRebalanceEnd, AfterRebalanceEnd
  | BeforeStreamStart, BeforeStreamStart | AfterStreamStart, AfterStreamStart
  | BeforeStreamStop, BeforeStreamStop | AfterStreamStop, AfterStreamStop => true
  | _, _ => false
  end.
(* metric values are float64 on the Go side: compared exactly below 2^53, as "at least 2^53" above *)
Definition c53 (x : N) : N := N.min x 9007199254740992.
Definition m_eqb (a b : N) : bool := c53 a =? c53 b.
Definition n4_eqb (a b : N * N * N * N) : bool :=
  let '(a1, a2, a3, a4) := a in let '(b1, b2, b3, b4) := b in m_eqb a1 b1 && m_eqb a2 b2 && m_eqb a3 b3 && m_eqb a4 b4.

Definition out_eqb (a b : out) : bool :=
  match a, b with
  | Consume v k i o c t, Consume v' k' i' o' c' t' =>
      (v =? v') && dkind_eqb k k' && item_eqb i i' && offset_eqb o o' && bytes_eqb c c' && (t =? t')
  | Track v o, Track v' o' => (v =? v') && offset_eqb o o'
  | MetaSave d l, MetaSave d' l' => list_eqb (pair_eqb N.eqb doc_eqb) d d' && list_eqb N.eqb l l'
  | NoSave, NoSave => true
  | OpenReq v o, OpenReq v' o' => (v =? v') && offset_eqb o o'
  | CloseReq v, CloseReq v' => v =? v'
  | Callback c, Callback c' => cb_eqb c c'
  | Stop, Stop => true
  | Metrics a1 a2 a3 a4 a5, Metrics b1 b2 b3 b4 b5 =>
      list_eqb (pair_eqb N.eqb n4_eqb) a1 b1 && list_eqb (pair_eqb N.eqb n4_eqb) a2 b2 && m_eqb a3 b3 && (a4 =? b4)%Z && m_eqb a5 b5
  | NoMetrics, NoMetrics => true
  | Fail, Fail => true
  | Ignored, Ignored => true
  | _, _ => false
  end.

Inductive digest := Dg (offs : list (N * offset)) (dirty : list N) (any : bool) (opn : bool) (active : Z) (stopped : bool) (store : list (N * doc)).

Definition universe : list N := map N.of_nat (seq 0 16).

Definition digest_of (s : sstate) : digest :=
  Dg (flat_map (fun vb => match s_offs s vb with Some o => [(vb, o)] | None => [] end) universe)
     (flat_map (fun vb => match s_dirty s vb with Some true => [vb] | _ => [] end) universe)
     (s_any_dirty s) (s_open s) (s_active s) (s_stopped s)
     (flat_map (fun vb => match s_store s vb with Some d => [(vb, d)] | None => [] end) universe).

Definition digest_eqb (a b : digest) : bool :=
  match a, b with
  | Dg o1 d1 a1 p1 c1 s1 t1, Dg o2 d2 a2 p2 c2 s2 t2 =>
      list_eqb (pair_eqb N.eqb offset_eqb) o1 o2 && list_eqb N.eqb d1 d2 && Bool.eqb a1 a2 && Bool.eqb p1 p2 &&
      (c1 =? c2)%Z && Bool.eqb s1 s2 && list_eqb (pair_eqb N.eqb doc_eqb) t1 t2
  end.

Fixpoint assoc_doc (l : list (N * doc)) : fmap doc :=
  match l with [] => fempty | (k, v) :: r => fupd (assoc_doc r) k v end.

Definition hist := (cfg * list (N * doc) * list op * list (list out) * digest)%type.

Definition chk_hist (h : hist) : bool :=
  let '(c, st0, ops, outs, dg) := h in
  let '(s, mouts) := run (init_state c (assoc_doc st0)) ops in
  list_eqb (list_eqb out_eqb) mouts outs && digest_eqb (digest_of s) dg.

(* diagnostic: index of the first op whose outputs differ (length ops = all agree, digest differs) *)
Local Close Scope N_scope.
Fixpoint first_diff (n : nat) (a b : list (list out)) : nat :=
  match a, b with
  | x :: a', y :: b' => if list_eqb out_eqb x y then first_diff (S n) a' b' else n%nat
  | _, _ => n
  end.
Definition where_diff (h : hist) : nat :=
  let '(c, st0, ops, outs, dg) := h in
  first_diff 0 (snd (run (init_state c (assoc_doc st0)) ops)) outs.
