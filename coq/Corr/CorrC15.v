From Verif Require Import Base.Prelude Base.Bytes Model.Stream Model.Backends Corr.CorrStream.
Local Open Scope N_scope.
(* the harness cannot always tell a refusal from an open failure by looking at the dying process (the
   panic races with the other open calls); 'refused before any request' is checked by its monitor *)
Inductive observed := OStarted (reqs : list (N * offset)) | ONotStarted.
Definition chk_startup (c : cfg * list (N * doc) * N * N * server * faults * observed) : bool :=
  let '(cf, st0, first, last, sv, f, obs) := c in
  match startup cf (assoc_doc st0) first last sv f, obs with
  | Started r, OStarted r' => list_eqb (pair_eqb N.eqb offset_eqb) r r'
  | Refused, ONotStarted => true
  | OpenFailed, ONotStarted => true
  | _, _ => false
  end.
