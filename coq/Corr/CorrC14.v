From Verif Require Import Base.Prelude Base.Bytes Model.Stream Model.Keys.
(* observed getCheckpointID (hook): None = it panicked; observed helpers.IsMetadata on the key *)
Definition chk_key (c : bytes * N * option bytes * bool) : bool :=
  let '(g, vb, obs, meta) := c in
  option_eqb bytes_eqb (checkpoint_id g vb) obs &&
  match obs with Some k => Bool.eqb (is_meta k) meta | None => true end.
(* observed helpers.IsMetadata on an arbitrary key *)
Definition chk_meta (c : bytes * bool) : bool := let '(k, m) := c in Bool.eqb (is_meta k) m.
