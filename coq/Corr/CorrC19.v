From Verif Require Import Base.Prelude Model.Health.

Definition hout_eqb (a b : hout) : bool :=
  match a, b with OPing, OPing | OPanic, OPanic | OStopReturned, OStopReturned => true | _, _ => false end.

(* ops of one history of the real health check and the outputs observed per op *)
Definition chk_trace (c : list hop * list (list hout)) : bool :=
  let '(ops, obs) := c in list_eqb (list_eqb hout_eqb) (snd (h_run h_init ops)) obs.
