From Verif Require Import Base.Prelude Model.Rebalance.
Definition rout_eqb (a b : rout) : bool :=
  match a, b with CB x, CB y => Nat.eqb x y | RStop, RStop => true | _, _ => false end.
(* schedule of the real stream.Rebalance under held callbacks: initial membership, ops, callbacks observed per op,
   final (completed cycles, membership the stream is opened on, open?) *)
Fixpoint r_run_steps (s : rstate) (ops : list rop) : rstate * list (list rout) :=
  match ops with
  | [] => (s, [])
  | o :: r => let '(s1, out1) := r_step s o in let '(s2, outs) := r_run_steps s1 r in (s2, out1 :: outs)
  end.
Definition chk_reb (c : N * list rop * list (list rout) * (nat * N * bool)) : bool :=
  let '(i, ops, outs, (cyc, rng, opn)) := c in
  let '(s, mo) := r_run_steps (r_init i) ops in
  list_eqb (list_eqb rout_eqb) mo outs && Nat.eqb (r_cycles s) cyc && N.eqb (r_range s) rng &&
  Bool.eqb (match r_phase s with POpen => true | _ => false end) opn.
