From Verif Require Import Base.Prelude Model.Rebalance.
Definition rout_eqb (a b : rout) : bool :=
  match a, b with CB x, CB y => Nat.eqb x y | RStop, RStop => true | _, _ => false end.
(* schedule of the real stream.Rebalance under held callbacks: initial membership, ops, callbacks observed per op,
   final (completed cycles, membership the stream is opened on, open?) *)
Fixpoint r_run_steps (s : rstate) (ops : list rop) : rstate * list (list rout) :=
  match ops with
  | [] => (s, [])
  | o :: r => let '(s1, out1) := r_step s o in let '(s2, outs) := r_run_steps s1 r in (s2, out1 :: outs)
  end.
Definition chk_reb (c : N * list rop * list (list rout) * (nat * N * bool)) : bool :=
  let '(i, ops, outs, (cyc, rng, opn)) := c in
  let '(s, mo) := r_run_steps (r_init i) ops in
  list_eqb (list_eqb rout_eqb) mo outs && Nat.eqb (r_cycles s) cyc && N.eqb (r_range s) rng &&
  Bool.eqb (match r_phase s with POpen => true | _ => false end) opn.

(* --- the signalling state of the real stream (server older than 5.5.0) at three points of a rebalance cycle --- *)
From Verif Require Import Model.SerialClose.

Definition b2n (b : bool) : nat := if b then 1%nat else 0%nat.
(* what the wait() goroutines cannot change: signals posted (waiting or taken), the sweep's flag, the active count, stopped *)
Definition sc_proj (s : sc) : nat * bool * nat * nat * bool :=
  (sc_active s, sc_ending s, (sc_sig_end s + b2n (sc_fin_end s))%nat, (sc_sig_close s + b2n (sc_fin_close s))%nat, sc_stopped s).

Definition proj_eqb (a b : nat * bool * nat * nat * bool) : bool :=
  let '(a1, a2, a3, a4, a5) := a in let '(b1, b2, b3, b4, b5) := b in
  Nat.eqb a1 b1 && Bool.eqb a2 b2 && Nat.eqb a3 b3 && Nat.eqb a4 b4 && Bool.eqb a5 b5.

(* observed after the close sweep, after Rebalance() returned, after the reopen; the model runs the repaired code with a
   wait() step after every other step *)
Definition chk_signals (c : nat * list (nat * bool * nat * nat * bool)) : bool :=
  let '(n, pts) := c in
  let w := WaitTake false in
  let s1 := sc_run true (sc_streaming n) ([SweepStart] ++ flat_map (fun o => [o; w]) (repeat SweepVb n) ++ [SweepEnd; w]) in
  let s2 := sc_run true s1 [CloseTail; w] in
  let s3 := sc_run true s2 [Reopen n; w; BalOff; w] in
  match pts with
  | [p1; p2; p3] => proj_eqb (sc_proj s1) p1 && proj_eqb (sc_proj s2) p2 && proj_eqb (sc_proj s3) p3
  | _ => false
  end.
