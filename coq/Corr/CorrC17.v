From Verif Require Import Base.Prelude Base.Bytes Model.Config.
Local Open Scope Z_scope.

Definition obytes_eqb := option_eqb bytes_eqb.
Definition oz_eqb := option_eqb Z.eqb.
Definition conf_eqb (a b : conf) : bool :=
  (rm_interval a =? rm_interval b) && (rm_config_watch a =? rm_config_watch b) && (cp_interval a =? cp_interval b) &&
  (cp_timeout a =? cp_timeout b) && bytes_eqb (cp_type a) (cp_type b) && bytes_eqb (cp_autoreset a) (cp_autoreset b) &&
  (hc_interval a =? hc_interval b) && (hc_timeout a =? hc_timeout b) && (rebalance_delay a =? rebalance_delay b) &&
  (total_members a =? total_members b) && (member_number a =? member_number b) && bytes_eqb (membership_type a) (membership_type b) &&
  (dcp_conn_timeout a =? dcp_conn_timeout b) && (conn_timeout a =? conn_timeout b) &&
  option_eqb (list_eqb bytes_eqb) (collection_names a) (collection_names b) && bytes_eqb (scope_name a) (scope_name b) &&
  oz_eqb (conn_buffer a) (conn_buffer b) && (max_queue a =? max_queue b) && bytes_eqb (metric_path a) (metric_path b) &&
  (api_port a =? api_port b) && bytes_eqb (le_type a) (le_type b) && (rpc_port a =? rpc_port b) &&
  oz_eqb (dcp_buffer a) (dcp_buffer b) && oz_eqb (dcp_conn_buffer a) (dcp_conn_buffer b) && (dcp_max_queue a =? dcp_max_queue b) &&
  bytes_eqb (metadata_type a) (metadata_type b).

(* input config, environment, observed result of ApplyDefaults (None = panic), observed result of applying it again *)
Definition chk_defaults (c : envv * conf * option conf * option conf) : bool :=
  let '(e, cin, o1, o2) := c in
  option_eqb conf_eqb (apply_defaults e cin) o1 &&
  match o1 with Some c1 => option_eqb conf_eqb (apply_defaults e c1) o2 | None => true end.

Definition cbmeta_eqb (a b : cbmeta) : bool :=
  list_eqb bytes_eqb (md_hosts a) (md_hosts b) && bytes_eqb (md_user a) (md_user b) && bytes_eqb (md_pass a) (md_pass b) &&
  bytes_eqb (md_bucket a) (md_bucket b) && bytes_eqb (md_scope a) (md_scope b) && bytes_eqb (md_coll a) (md_coll b) &&
  (md_max_queue a =? md_max_queue b) && (md_conn_buffer a =? md_conn_buffer b) && (md_conn_timeout a =? md_conn_timeout b) &&
  Bool.eqb (md_secure a) (md_secure b) && bytes_eqb (md_rootca a) (md_rootca b).
Definition chk_cbmeta (c : main_conn * cbmeta_ov * cbmeta) : bool := let '(m, o, r) := c in cbmeta_eqb (cb_metadata m o) r.
Definition chk_member (c : (option Z * option Z * option Z * option Z * option Z) * cbmember) : bool :=
  let '(o, r) := c in let x := cb_membership o in
  (mb_expiry x =? mb_expiry r) && (mb_heartbeat x =? mb_heartbeat r) && (mb_tolerance x =? mb_tolerance r) &&
  (mb_monitor x =? mb_monitor r) && (mb_timeout x =? mb_timeout r).
Definition chk_k8s (c : (option Z * option Z * option Z) * k8s) : bool :=
  let '(o, r) := c in let x := k8s_elector o in (k_lease x =? k_lease r) && (k_renew x =? k_renew r) && (k_retry x =? k_retry r).

Definition chk_units (c : uinput * option Z) : bool := let '(i, r) := c in oz_eqb (resolve i) r.
Definition chk_subst (c : list (bytes * bytes) * bytes * bytes) : bool := let '(env, f, r) := c in bytes_eqb (subst_env env f) r.
