(* Evaluator for the lifecycle histories (C13): per-op outputs of the real Dcp.Start() ... Close() and the store
   at the end vs Model/Lifecycle.v. Not visible from outside a Dcp, hence projected away on the model's side:
   the closing of the stop channel (Stop), and, inside the teardown, a final Save() that returns without calling
   the store (NoSave). *)
From Verif Require Import Base.Prelude Base.Bytes Model.Stream Model.Lifecycle Corr.CorrStream.
Local Open Scope N_scope.

Definition lout_eqb (a b : lout) : bool :=
  match a, b with
  | SOut x, SOut y => out_eqb x y
  | DcpClose, DcpClose | CliClose, CliClose | Returned, Returned | Died, Died => true
  | _, _ => false
  end.

Definition vis_stop (x : lout) : bool := match x with SOut Stop => false | _ => true end.
Definition vis_down (x : lout) : bool := match x with SOut Stop | SOut NoSave => false | _ => true end.

Fixpoint project (ops : list lop) (outs : list (list lout)) : list (list lout) :=
  match ops, outs with
  | Shutdown _ _ :: r, o :: ro => filter vis_down o :: project r ro
  | _ :: r, o :: ro => filter vis_stop o :: project r ro
  | _, _ => []
  end.

Definition store_of (s : sstate) : list (N * doc) :=
  flat_map (fun vb => match s_store s vb with Some d => [(vb, d)] | None => [] end) universe.

Definition lhist := (cfg * bool * list (N * doc) * list lop * list (list lout) * list (N * doc))%type.

Definition chk_lhist (h : lhist) : bool :=
  let '(c, auto, st0, ops, outs, store) := h in
  let '(l, mouts) := lrun (linit c auto (assoc_doc st0)) ops in
  list_eqb (list_eqb lout_eqb) (project ops mouts) outs &&
  list_eqb (pair_eqb N.eqb doc_eqb) (store_of (l_s l)) store.

Local Close Scope N_scope.
Fixpoint lfirst_diff (n : nat) (a b : list (list lout)) : nat :=
  match a, b with
  | x :: a', y :: b' => if list_eqb lout_eqb x y then lfirst_diff (S n) a' b' else n%nat
  | _, _ => n
  end.
Definition lwhere_diff (h : lhist) : nat :=
  let '(c, auto, st0, ops, outs, store) := h in
  lfirst_diff 0 (project ops (snd (lrun (linit c auto (assoc_doc st0)) ops))) outs.
Definition lmodel_outs (h : lhist) : list (list lout) :=
  let '(c, auto, st0, ops, outs, store) := h in project ops (snd (lrun (linit c auto (assoc_doc st0)) ops)).
