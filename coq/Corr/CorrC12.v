From Coq Require Import List Arith Bool.
Import ListNotations.
From Verif Require Import Model.Retry.

Definition routcome_eqb (a b : routcome) : bool :=
  match a, b with Reopened, Reopened | Abandoned, Abandoned | GaveUp, GaveUp => true | _, _ => false end.

(* one run of the real reopenStream loop: the first `fails` requests fail, the stream is closed from attempt k on
   (None: never); observed: the requests issued and how the loop ended *)
Definition chk_retry (c : nat * option nat * (nat * routcome)) : bool :=
  let '(fails, k, (n, o)) := c in
  let '(n', o') := reopen (closed_of k) (answers_of fails) in
  Nat.eqb n n' && routcome_eqb o o'.
