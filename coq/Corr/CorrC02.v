From Verif Require Import Base.Prelude Base.Bytes Model.Stream Model.Backends Corr.CorrStream.
Local Open Scope N_scope.
Definition docs_eqb := list_eqb (pair_eqb N.eqb doc_eqb).
(* real file backend: previous content (None = no file), dump saved (dirty flags irrelevant), vbs asked, (documents, exist) loaded *)
Definition chk_file (c : option (list (N * doc)) * option (list (N * doc) * list N) * list N * (list (N * doc) * bool)) : bool :=
  let '(f0, sv, vbs, (ld, ex)) := c in
  let f1 := match sv with Some (dump, dirty) => file_save f0 dump dirty | None => f0 end in
  let '(ml, mex) := file_load f1 vbs in docs_eqb ml ld && Bool.eqb mex ex.
(* read-only wrapper around the file backend: a save through the wrapper, then a load through it *)
Definition chk_ro (c : option (list (N * doc)) * (list (N * doc) * list N) * list N * (list (N * doc) * bool)) : bool :=
  let '(f0, (dump, dirty), vbs, (ld, ex)) := c in
  let '(ml, mex) := file_load (ro_save f0 dump dirty) vbs in docs_eqb ml ld && Bool.eqb mex ex.
