From Verif Require Import Base.Prelude Base.Bytes Model.Stream Model.Backends Corr.CorrStream.
Local Open Scope N_scope.
Definition docs_eqb := list_eqb (pair_eqb N.eqb doc_eqb).
(* real file backend: previous content (None = no file), dump saved (dirty flags irrelevant), vbs asked, (documents, exist) loaded *)
Definition chk_file (c : option (list (N * doc)) * option (list (N * doc) * list N) * list N * (list (N * doc) * bool)) : bool :=
  let '(f0, sv, vbs, (ld, ex)) := c in
  let f1 := match sv with Some (dump, dirty) => file_save f0 dump dirty | None => f0 end in
  let '(ml, mex) := file_load f1 vbs in docs_eqb ml ld && Bool.eqb mex ex.
(* read-only wrapper around the file backend: a save through the wrapper, then a load through it *)
Definition chk_ro (c : option (list (N * doc)) * (list (N * doc) * list N) * list N * (list (N * doc) * bool)) : bool :=
  let '(f0, (dump, dirty), vbs, (ld, ex)) := c in
  let '(ml, mex) := file_load (ro_save f0 dump dirty) vbs in docs_eqb ml ld && Bool.eqb mex ex.

(* real cbMetadata against the simulated node: documents already stored, save (dump, dirty), load of vbs:
   (documents, exist) and the keys that were written, for group g *)
From Verif Require Import Model.Keys.
Definition chk_cb (c : bytes * list (N * doc) * (list (N * doc) * list N) * list N * (list (N * doc) * bool) * list bytes) : bool :=
  let '(g, st0, (dump, dirty), vbs, (ld, ex), keys) := c in
  let st1 := cb_save (assoc_doc st0) dump dirty in
  let '(ml, mex) := cb_load st1 vbs in
  docs_eqb ml ld && Bool.eqb mex ex &&
  list_eqb bytes_eqb
    (flat_map (fun vb => match lookup_doc dump vb, checkpoint_id g vb with Some _, Some k => [k] | _, _ => [] end) dirty) keys &&
  forallb is_meta keys.

(* one read-only wrapper object over a history: what each load through it returned *)
Definition chk_ro_seq (c : option (list (N * doc)) * list ro_step * list (list (N * doc) * bool)) : bool :=
  let '(f0, steps, obs) := c in
  list_eqb (fun m o => docs_eqb (fst m) (fst o) && Bool.eqb (snd m) (snd o)) (snd (ro_run f0 steps)) obs.
