(* Evaluators for the membership histories (C10). *)
From Verif Require Import Base.Prelude Model.Membership.
Local Open Scope N_scope.

Definition cbout_eqb (a b : cbout) : bool :=
  match a, b with
  | Publish i k t, Publish i' k' t' => (i =? i') && Nat.eqb k k' && Nat.eqb t t'
  | PanicNoSelf i, PanicNoSelf i' => i =? i'
  | Quiet, Quiet => true
  | _, _ => false
  end.

Definition chk_cb (h : list cbop * list cbout * list (N * option (nat * nat)) * list N) : bool :=
  let '(ops, outs, infos, index) := h in
  let '(s, mouts) := cb_run cb_init ops in
  list_eqb cbout_eqb mouts outs &&
  forallb (fun p => info_eqb (cb_info s (fst p)) (snd p)) infos &&
  list_eqb N.eqb (map fst (sort_by_join (cb_index s))) index.

Definition sdout_eqb (a b : sdout) : bool :=
  match a, b with
  | LPublish k t, LPublish k' t' => Nat.eqb k k' && Nat.eqb t t'
  | RCall n k t, RCall n' k' t' => (n =? n') && Nat.eqb k k' && Nat.eqb t t'
  | FPublish n k t, FPublish n' k' t' => (n =? n') && Nat.eqb k k' && Nat.eqb t t'
  | _, _ => false
  end.
(* the followers of the scenario are scripted clients: what they publish is not observed *)
Definition not_fpublish (x : sdout) : bool := match x with FPublish _ _ _ => false | _ => true end.

Definition chk_sd (h : list sdop * list (list sdout)) : bool :=
  let '(ops, outs) := h in
  list_eqb (list_eqb sdout_eqb) (map (filter not_fpublish) (snd (sd_run sd_init ops))) outs.

Definition cb_diag (h : list cbop * list cbout * list (N * option (nat * nat)) * list N) :=
  let '(ops, outs, infos, index) := h in
  let '(s, mouts) := cb_run cb_init ops in
  (mouts, map (fun p => cb_info s (fst p)) infos, map fst (sort_by_join (cb_index s))).

Definition fhout_eqb (a b : fhout) : bool :=
  match a, b with FReconnect, FReconnect | FRegister, FRegister | FDropLeader, FDropLeader => true | _, _ => false end.

(* one heart-beat round of the real serviceDiscovery as a follower: (ping ok, reconnect ok, register ok), the calls
   observed on the leader's client in order, and whether a leader is still assigned afterwards *)
Definition chk_follower (c : (bool * bool * bool) * list fhout * bool) : bool :=
  let '((p, r, g), outs, still) := c in
  let '(mo, ms) := fh_round true p r g in
  list_eqb fhout_eqb mo outs && Bool.eqb ms still.

(* --- kubernetesStatefulSet membership: (host name, configured group size) and what the real NewVBucketDiscovery made of
   it: Some (member number, group size), None = the start-up terminated --- *)
From Verif Require Import Base.Bytes Model.StatefulSet.

Definition chk_sts (c : bytes * Z * option (Z * Z)) : bool :=
  let '(h, total, obs) := c in
  match sts_member h total, obs with
  | Some (m, t), Some (m', t') => Z.eqb m m' && Z.eqb t t'
  | None, None => true
  | _, _ => false
  end.

(* --- helpers.Retry: (attempts, number of leading failures), observed calls and err == nil --- *)
From Verif Require Import Model.Retry.
Definition chk_helper_retry (c : nat * nat * (nat * bool)) : bool :=
  let '(attempts, fails, (n, ok)) := c in
  let '(n', ok') := helper_retry (answers_of fails) attempts 0 in
  Nat.eqb n n' && Bool.eqb ok ok'.
