From Verif Require Import Base.Prelude Model.Rollback.
Local Open Scope N_scope.
Definition chk_min (c : list row * N) : bool := let '(rows, m) := c in min_seq rows =? m.
Definition gout_eqb (a b : gout) : bool :=
  match a, b with GDelivered x, GDelivered y | GDropped x, GDropped y => x =? y | GIgnored, GIgnored => true | _, _ => false end.
(* gate of a real observer: initial table, ops, observed outputs per op, final threshold *)
Definition chk_gate (c : list row * list gop * list (list gout) * N) : bool :=
  let '(rows, ops, outs, thr) := c in
  let '(g, mo) := g_run (g_init rows) ops in
  list_eqb (list_eqb gout_eqb) mo outs && (g_thr g =? thr).
(* the real rollbackMitigation against the simulated node: table shape (absent flags), per tick the answers of
   the copies in index order; observed dispatches (the minima handed to the stream) *)
Fixpoint run_ticks (rows : list row) (ticks : list (list (N * N))) : list N :=
  match ticks with
  | [] => []
  | t :: r =>
      let step := fix go (rows : list row) (idx : nat) (answers : list (N * N)) : list row * list N :=
        match answers with
        | [] => (rows, [])
        | (u, s) :: l =>
            let '(rows1, d) := report rows idx u s in
            let '(rows2, ds) := go rows1 (S idx) l in
            (rows2, match d with Some m => m :: ds | None => ds end)
        end in
      let '(rows', ds) := step rows O t in ds ++ run_ticks rows' r
  end.
Definition chk_ticks (c : list row * list (list (N * N)) * list N) : bool :=
  let '(rows, ticks, obs) := c in list_eqb N.eqb (run_ticks rows ticks) obs.

(* observed: was the replica table rebuilt (the newly listed copy observed) after the node installed a cluster map with
   revision `new` while the mitigation was using `old`? *)
Definition chk_cfgwatch (c : (Z * Z) * (Z * Z) * bool) : bool :=
  let '(old, new, adopted) := c in Bool.eqb (config_newer old new) adopted.
