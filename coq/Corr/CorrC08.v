From Verif Require Import Base.Prelude Base.Bytes Model.Stream Model.Client Proofs.ObserverProofs Corr.CorrStream.
Local Open Scope N_scope.
Definition sreq_eqb (a b : sreq) : bool :=
  (rq_flags a =? rq_flags b) && (rq_uuid a =? rq_uuid b) && (rq_start a =? rq_start b) && (rq_end a =? rq_end b) &&
  (rq_snap_start a =? rq_snap_start b) && (rq_snap_end a =? rq_snap_end b).
Definition oz (x : option N) := option_eqb N.eqb x.
(* offset given to client.OpenStream, first answer, failover log served, second answer;
   observed: decoded stream requests, whether OpenStream returned nil *)
Definition chk_open (c : offset * sanswer * list (N * N) * sanswer * (list sreq * bool)) : bool :=
  let '(o, a1, log, a2, (reqs, ok)) := c in
  let '(mr, ms) := open_stream o a1 log a2 in
  list_eqb sreq_eqb mr reqs && Bool.eqb (match ms with Some _ => true | None => false end) ok.
(* a real observer set up by the real client after a rollback: (branch, catch-up F), events pushed through the
   wire, (seq, offset) of every document event that reached the listener *)
Definition delivered (fs : list fwd) : list (N * offset) :=
  flat_map (fun f => match f with FDoc _ it o _ _ => [(i_seq it, o)] | _ => [] end) fs.
Definition chk_catchup (c : N * N * option N * list ev * list (N * offset)) : bool :=
  let '(uuid, latest, cu, evs, obs) := c in
  let ob := with_catchup (with_uuid (new_obs latest) uuid) cu in
  list_eqb (pair_eqb N.eqb offset_eqb) (delivered (snd (obs_run (Cfg false false None []) ob evs))) obs.
