(* Evaluators used by the generated cases files of C09. They evaluate the binary twin of the model
   (Chunk.chunksN), which Properties/C09.v proves equal to Chunk.chunks. *)
From Verif Require Import Base.Prelude Model.Chunk.

Definition nn_eqb := pair_eqb N.eqb N.eqb.

(* full comparison: every chunk as (first id, length) *)
Definition chk_full (c : N * N * list (N * N)) : bool :=
  let '(n, t, obs) := c in list_eqb nn_eqb (chunksN n t) obs.

(* run-length comparison of the chunk lengths (the harness checked contiguity from 0 itself) *)
Definition chk_rle (c : N * N * list (N * N)) : bool :=
  let '(n, t, obs) := c in list_eqb nn_eqb (lens_rleN n t) obs.

(* range announced by the real VBucketDiscovery.Get() for member k *)
Definition chk_member (c : N * N * N * (N * N)) : bool :=
  let '(n, t, k, obs) := c in option_eqb nn_eqb (member_rangeN n t k) (Some obs).
