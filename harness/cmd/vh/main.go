package main

import (
	"flag"
	"fmt"
	"io"
	"os"

	"verifharness/scen"
)

func main() {
	if name := os.Getenv("VH_CHILD"); name != "" {
		f, ok := scen.Children[name]
		if !ok {
			fmt.Fprintln(os.Stderr, "unknown child", name)
			os.Exit(64)
		}
		arg, _ := io.ReadAll(os.Stdin)
		f(arg)
		os.Exit(0)
	}
	tier := flag.String("tier", "quick", "quick|thorough")
	seed := flag.Int64("seed", 1, "PRNG seed")
	out := flag.String("out", "", "output directory")
	replay := flag.String("replay", "", "replay file")
	flag.Parse()
	if flag.NArg() != 1 || *out == "" {
		fmt.Fprintln(os.Stderr, "usage: vh [flags] <property>")
		os.Exit(64)
	}
	id := flag.Arg(0)
	f, ok := scen.Registry[id]
	if !ok {
		fmt.Fprintln(os.Stderr, "unknown property", id)
		os.Exit(64)
	}
	if err := os.MkdirAll(*out, 0o755); err != nil {
		panic(err)
	}
	ctx := scen.NewCtx(id, *tier, *seed, *out)
	ctx.Replay = *replay
	f(ctx)
	ctx.Finish()
}
