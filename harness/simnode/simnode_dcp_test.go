//go:build verif

package simnode_test

import (
	"encoding/binary"
	"encoding/json"
	"errors"
	"sync"
	"testing"
	"time"

	"github.com/Trendyol/go-dcp/config"
	"github.com/Trendyol/go-dcp/couchbase"
	"github.com/Trendyol/go-dcp/logger"
	"github.com/Trendyol/go-dcp/models"
	"github.com/couchbase/gocbcore/v10"
	"github.com/couchbase/gocbcore/v10/memd"

	"verifharness/simnode"
)

// fakeObserver records what the library's client delivers to a couchbase.Observer.
type fakeObserver struct {
	mu      sync.Mutex
	events  []interface{}
	endErrs []error
	vbUUID  gocbcore.VbUUID
	catchup gocbcore.SeqNo
	notify  chan struct{}
}

func newFakeObserver() *fakeObserver { return &fakeObserver{notify: make(chan struct{}, 1024)} }

func (o *fakeObserver) add(ev interface{}) {
	o.mu.Lock()
	o.events = append(o.events, ev)
	o.mu.Unlock()
	o.notify <- struct{}{}
}

// next waits for the i-th event (0 based).
func (o *fakeObserver) next(t *testing.T, i int) interface{} {
	t.Helper()
	deadline := time.After(3 * time.Second)
	for {
		o.mu.Lock()
		if len(o.events) > i {
			ev := o.events[i]
			o.mu.Unlock()
			return ev
		}
		o.mu.Unlock()
		select {
		case <-o.notify:
		case <-deadline:
			t.Fatalf("observer event %d did not arrive", i)
		}
	}
}

func (o *fakeObserver) SnapshotMarker(m models.DcpSnapshotMarker)         { o.add(m) }
func (o *fakeObserver) Mutation(m gocbcore.DcpMutation)                   { o.add(m) }
func (o *fakeObserver) Deletion(d gocbcore.DcpDeletion)                   { o.add(d) }
func (o *fakeObserver) Expiration(e gocbcore.DcpExpiration)               { o.add(e) }
func (o *fakeObserver) CreateCollection(c gocbcore.DcpCollectionCreation) { o.add(c) }
func (o *fakeObserver) DeleteCollection(d gocbcore.DcpCollectionDeletion) { o.add(d) }
func (o *fakeObserver) FlushCollection(f gocbcore.DcpCollectionFlush)     { o.add(f) }
func (o *fakeObserver) CreateScope(c gocbcore.DcpScopeCreation)           { o.add(c) }
func (o *fakeObserver) DeleteScope(d gocbcore.DcpScopeDeletion)           { o.add(d) }
func (o *fakeObserver) ModifyCollection(m gocbcore.DcpCollectionModification) {
	o.add(m)
}
func (o *fakeObserver) OSOSnapshot(s models.DcpOSOSnapshot)       { o.add(s) }
func (o *fakeObserver) SeqNoAdvanced(a gocbcore.DcpSeqNoAdvanced) { o.add(a) }
func (o *fakeObserver) End(e models.DcpStreamEnd, err error) {
	o.mu.Lock()
	o.endErrs = append(o.endErrs, err)
	o.mu.Unlock()
	o.add(e)
}
func (o *fakeObserver) GetMetrics() *couchbase.ObserverMetric { return &couchbase.ObserverMetric{} }
func (o *fakeObserver) GetPersistSeqNo() gocbcore.SeqNo       { return 0 }
func (o *fakeObserver) SetPersistSeqNo(gocbcore.SeqNo)        {}
func (o *fakeObserver) Close()                                {}
func (o *fakeObserver) CloseEnd()                             {}
func (o *fakeObserver) SetCatchup(s gocbcore.SeqNo) {
	o.mu.Lock()
	o.catchup = s
	o.mu.Unlock()
}
func (o *fakeObserver) SetVbUUID(u gocbcore.VbUUID) {
	o.mu.Lock()
	o.vbUUID = u
	o.mu.Unlock()
}

var _ couchbase.Observer = (*fakeObserver)(nil)

// c. DCP through the library's real client.
func TestDCPThroughLibraryClient(t *testing.T) {
	logger.InitDefaultLogger("error")

	node := newNode(t, simnode.Config{NumVBuckets: 4, Collections: map[string]uint32{"_default.c1": 8, "_default.c2": 9}})
	agent := newAgent(t, node)
	dcpAgent, err := node.NewDCPAgent("lib-stream", false, false)
	if err != nil {
		t.Fatalf("NewDCPAgent: %v", err)
	}
	defer dcpAgent.Close()

	cfg := &config.Dcp{BucketName: node.BucketName(), ScopeName: "_default", CollectionNames: []string{"c1", "c2"}}
	client := couchbase.VerifNewClient(cfg, agent, agent, dcpAgent)

	// Collection ids come from the node's manifest.
	cids, err := client.GetCollectionIDs("_default", []string{"c1", "c2"})
	if err != nil || len(cids) != 2 || cids[8] != "c1" || cids[9] != "c2" {
		t.Fatalf("GetCollectionIDs = %v, %v", cids, err)
	}

	// Failover logs.
	node.SetFailoverLog(1, gocbcore.FailoverEntry{VbUUID: 777, SeqNo: 30}, gocbcore.FailoverEntry{VbUUID: 555, SeqNo: 0})
	logs, err := client.GetFailOverLogs(1)
	if err != nil || len(logs) != 2 || logs[0].VbUUID != 777 || logs[0].SeqNo != 30 || logs[1].VbUUID != 555 {
		t.Fatalf("GetFailOverLogs = %+v, %v", logs, err)
	}
	if logs, err = client.GetFailOverLogs(2); err != nil || len(logs) != 1 || logs[0].SeqNo != 0 {
		t.Fatalf("default GetFailOverLogs = %+v, %v", logs, err)
	}

	// Stream request: ROLLBACK(40) first, success second.
	node.ScriptStream(1, simnode.StreamRollbackTo(40))
	obs := newFakeObserver()
	offset := &models.Offset{
		SnapshotMarker: &models.SnapshotMarker{StartSeqNo: 90, EndSeqNo: 110},
		VbUUID:         555, SeqNo: 100, LatestSeqNo: 200,
	}
	if err = client.OpenStream(1, cids, offset, obs); err != nil {
		t.Fatalf("OpenStream: %v", err)
	}
	reqs := node.StreamRequests()
	if len(reqs) != 2 {
		t.Fatalf("stream requests: %+v", reqs)
	}
	first, second := reqs[0], reqs[1]
	if first.VbID != 1 || first.Flags != 0x80 || first.StartSeqNo != 100 || first.EndSeqNo != 200 || first.VbUUID != 555 ||
		first.SnapStartSeqNo != 90 || first.SnapEndSeqNo != 110 || first.Reply.Kind != simnode.StreamRollback || first.Stream != nil {
		t.Fatalf("first stream request: %+v", first)
	}
	if second.VbID != 1 || second.Flags != 0 || second.StartSeqNo != 40 || second.EndSeqNo != 200 || second.VbUUID != 777 ||
		second.SnapStartSeqNo != 40 || second.SnapEndSeqNo != 40 || second.Reply.Kind != simnode.StreamOK || second.Stream == nil {
		t.Fatalf("second stream request: %+v", second)
	}
	var filter struct {
		UID         string   `json:"uid"`
		Collections []string `json:"collections"`
	}
	if err = json.Unmarshal(second.Value, &filter); err != nil || filter.UID != "0" || len(filter.Collections) != 2 {
		t.Fatalf("stream filter %s: %v", second.Value, err)
	}
	obs.mu.Lock()
	if obs.vbUUID != 777 || obs.catchup != 100 {
		t.Fatalf("observer vbUUID=%d catchup=%d", obs.vbUUID, obs.catchup)
	}
	obs.mu.Unlock()

	// Push events and see them at the observer.
	stream, err := node.WaitStream(1, time.Second)
	if err != nil {
		t.Fatal(err)
	}
	if stream != second.Stream || stream.Request().StartSeqNo != 40 {
		t.Fatalf("stream handle mismatch")
	}
	must := func(err error) {
		t.Helper()
		if err != nil {
			t.Fatalf("push: %v", err)
		}
	}
	must(stream.SnapshotMarker(41, 50, 0x01))
	must(stream.Mutation(simnode.Mutation{
		SeqNo: 41, RevNo: 3, Cas: 0xCAFE, Flags: 7, Expiry: 1234, Datatype: 1, CollectionID: 8,
		Key: []byte("doc-1"), Value: []byte(`{"x":1}`),
	}))
	must(stream.Deletion(simnode.Deletion{SeqNo: 42, RevNo: 4, Cas: 0xD, DeleteTime: 99, CollectionID: 9, Key: []byte("doc-2")}))
	must(stream.Expiration(simnode.Expiration{SeqNo: 43, RevNo: 5, Cas: 0xE, DeleteTime: 98, CollectionID: 8, Key: []byte("doc-3")}))
	must(stream.SeqNoAdvanced(44))
	must(stream.CollectionCreated(45, 6, 0, 10, "c3", 0))

	if m, ok := obs.next(t, 0).(models.DcpSnapshotMarker); !ok || m.VbID != 1 || m.StartSeqNo != 41 || m.EndSeqNo != 50 || m.SnapshotType != 1 {
		t.Fatalf("snapshot marker: %+v", obs.next(t, 0))
	}
	if m, ok := obs.next(t, 1).(gocbcore.DcpMutation); !ok || m.VbID != 1 || m.SeqNo != 41 || m.RevNo != 3 || m.Cas != 0xCAFE ||
		m.Flags != 7 || m.Expiry != 1234 || m.Datatype != 1 || m.CollectionID != 8 || string(m.Key) != "doc-1" || string(m.Value) != `{"x":1}` {
		t.Fatalf("mutation: %+v", obs.next(t, 1))
	}
	if d, ok := obs.next(t, 2).(gocbcore.DcpDeletion); !ok || d.SeqNo != 42 || d.RevNo != 4 || d.Cas != 0xD || d.DeleteTime != 99 ||
		d.CollectionID != 9 || string(d.Key) != "doc-2" {
		t.Fatalf("deletion: %+v", obs.next(t, 2))
	}
	if e, ok := obs.next(t, 3).(gocbcore.DcpExpiration); !ok || e.SeqNo != 43 || e.DeleteTime != 98 || e.CollectionID != 8 || string(e.Key) != "doc-3" {
		t.Fatalf("expiration: %+v", obs.next(t, 3))
	}
	if a, ok := obs.next(t, 4).(gocbcore.DcpSeqNoAdvanced); !ok || a.SeqNo != 44 || a.VbID != 1 {
		t.Fatalf("seqno advanced: %+v", obs.next(t, 4))
	}
	if c, ok := obs.next(t, 5).(gocbcore.DcpCollectionCreation); !ok || c.SeqNo != 45 || c.ManifestUID != 6 || c.CollectionID != 10 || string(c.Key) != "c3" {
		t.Fatalf("collection creation: %+v", obs.next(t, 5))
	}

	// StreamEnd arrives with an error.
	must(stream.End(memd.StreamEndStateChanged))
	if e, ok := obs.next(t, 6).(models.DcpStreamEnd); !ok || e.VbID != 1 {
		t.Fatalf("stream end: %+v", obs.next(t, 6))
	}
	obs.mu.Lock()
	endErr := obs.endErrs[0]
	obs.mu.Unlock()
	if !errors.Is(endErr, gocbcore.ErrDCPStreamStateChanged) {
		t.Fatalf("stream end error: %v", endErr)
	}
	if err = stream.Mutation(simnode.Mutation{SeqNo: 46}); !errors.Is(err, simnode.ErrClosed) {
		t.Fatalf("push after End: %v", err)
	}
	if node.Stream(1) != nil {
		t.Fatalf("ended stream still open")
	}

	// A stream refused with an error status.
	node.ScriptStream(2, simnode.StreamFail(memd.StatusRangeError))
	obs2 := newFakeObserver()
	zero := &models.Offset{SnapshotMarker: &models.SnapshotMarker{}, LatestSeqNo: 0xffffffffffffffff}
	err = client.OpenStream(2, nil, zero, obs2)
	if st, ok := kvStatus(err); !ok || st != memd.StatusRangeError {
		t.Fatalf("OpenStream on a refused stream: %v", err)
	}

	// CloseStream: success, stream-end(closed) at the observer, no more events for that vb.
	obs3 := newFakeObserver()
	if err = client.OpenStream(3, nil, zero, obs3); err != nil {
		t.Fatalf("OpenStream vb 3: %v", err)
	}
	stream3 := node.Stream(3)
	if stream3 == nil {
		t.Fatalf("no stream for vb 3")
	}
	must(stream3.SnapshotMarker(0, 1, 0x02))
	obs3.next(t, 0)
	if err = client.CloseStream(3); err != nil {
		t.Fatalf("CloseStream: %v", err)
	}
	obs3.next(t, 1)
	obs3.mu.Lock()
	endErr = obs3.endErrs[0]
	obs3.mu.Unlock()
	if !errors.Is(endErr, gocbcore.ErrDCPStreamClosed) {
		t.Fatalf("end after CloseStream: %v", endErr)
	}
	if !stream3.Closed() || !errors.Is(stream3.SnapshotMarker(2, 3, 0), simnode.ErrClosed) || len(node.OpenStreams()) != 0 {
		t.Fatalf("stream 3 should be closed; open: %v", node.OpenStreams())
	}
	if err = client.CloseStream(3); err == nil {
		t.Fatalf("closing a stream that is not open should fail")
	}

	// GetVBucketSeqNos, plain and collection aware.
	node.SetVbSeqNo(0, 10)
	node.SetVbSeqNo(3, 33)
	node.ResetLog()
	seqNos, err := client.GetVBucketSeqNos(false)
	if err != nil || seqNos.Count() != 4 {
		t.Fatalf("GetVBucketSeqNos: %v, %v", seqNos, err)
	}
	if v, _ := seqNos.Load(3); v != 33 {
		t.Fatalf("seqno of vb 3 = %d", v)
	}
	if v, _ := seqNos.Load(1); v != 0 {
		t.Fatalf("seqno of vb 1 = %d", v)
	}
	if got := node.RequestsOf(memd.CmdGetAllVBSeqnos); len(got) != 1 || len(got[0].Extras) != 4 || !got[0].IsDCP || got[0].ConnName != "lib-stream" {
		t.Fatalf("plain seqno requests: %+v", got)
	}
	node.ResetLog()
	node.SetVbSeqNosFunc(func(req *simnode.Request) map[uint16]uint64 {
		cid := binary.BigEndian.Uint32(req.Extras[4:])
		return map[uint16]uint64{0: uint64(cid), 1: 5}
	})
	seqNos, err = client.GetVBucketSeqNos(true)
	if err != nil || seqNos.Count() != 2 {
		t.Fatalf("collection aware GetVBucketSeqNos: %v, %v", seqNos, err)
	}
	if v, _ := seqNos.Load(0); v != 9 { // the maximum over collections 8 and 9
		t.Fatalf("collection aware seqno of vb 0 = %d", v)
	}
	if got := node.RequestsOf(memd.CmdGetAllVBSeqnos); len(got) != 2 || len(got[0].Extras) != 8 {
		t.Fatalf("collection aware seqno requests: %+v", got)
	}
	node.SetVbSeqNosFunc(nil)

	// A scripted error status reaches gocbcore as a KeyValueError ...
	node.SetBehaviour(memd.CmdGetAllVBSeqnos, simnode.ErrorStatus(memd.StatusTmpFail))
	errCh := make(chan error, 1)
	_, err = dcpAgent.GetVbucketSeqnos(1, memd.VbucketStateActive, gocbcore.GetVbucketSeqnoOptions{},
		func(_ []gocbcore.VbSeqNoEntry, err error) { errCh <- err })
	if err != nil {
		t.Fatalf("GetVbucketSeqnos dispatch: %v", err)
	}
	err = <-errCh
	if st, ok := kvStatus(err); !ok || st != memd.StatusTmpFail {
		t.Fatalf("scripted seqno error: %v", err)
	}
	// ... and through the library no sequence number materialises.
	seqNos, err = client.GetVBucketSeqNos(false)
	if err == nil && seqNos.Count() != 0 {
		t.Fatalf("GetVBucketSeqNos with failing server returned %d entries", seqNos.Count())
	}
	t.Logf("library GetVBucketSeqNos with failing server: err=%v", err)
	node.SetBehaviour(memd.CmdGetAllVBSeqnos, nil)

	// A silent stream request can be answered later.
	node.ScriptStream(0, simnode.StreamNoAnswer())
	done := make(chan error, 1)
	obs4 := newFakeObserver()
	go func() { done <- client.OpenStream(0, nil, zero, obs4) }()
	var pending simnode.StreamRequest
	deadline := time.Now().Add(2 * time.Second)
	for pending.Seq == 0 {
		for _, r := range node.StreamRequests() {
			if r.VbID == 0 {
				pending = r
			}
		}
		if time.Now().After(deadline) {
			t.Fatalf("silent stream request not seen")
		}
		time.Sleep(2 * time.Millisecond)
	}
	select {
	case err = <-done:
		t.Fatalf("OpenStream returned although the node stayed silent: %v", err)
	case <-time.After(50 * time.Millisecond):
	}
	if _, err = node.AnswerStreamRequest(pending.Seq, simnode.StreamSuccess(gocbcore.FailoverEntry{VbUUID: 31337, SeqNo: 2})); err != nil {
		t.Fatal(err)
	}
	if err = <-done; err != nil {
		t.Fatalf("OpenStream after late answer: %v", err)
	}
	obs4.mu.Lock()
	if obs4.vbUUID != 31337 {
		t.Fatalf("vbuuid from scripted failover log: %d", obs4.vbUUID)
	}
	obs4.mu.Unlock()

	// A generic Behaviour on STREAM_REQ is logged as a stream request too.
	node.SetBehaviour(memd.CmdDcpStreamReq, simnode.ErrorStatus(memd.StatusTmpFail).Times(1))
	err = client.OpenStream(2, nil, zero, newFakeObserver())
	if st, ok := kvStatus(err); !ok || st != memd.StatusTmpFail {
		t.Fatalf("OpenStream with ErrorStatus behaviour: %v", err)
	}
	all := node.StreamRequests()
	if last := all[len(all)-1]; last.VbID != 2 || last.Reply.Kind != simnode.StreamError || last.Reply.Status != memd.StatusTmpFail {
		t.Fatalf("stream request under ErrorStatus behaviour: %+v", last)
	}
}
