package simnode

import (
	"encoding/binary"
	"net"
	"sync"
	"sync/atomic"
	"time"

	"github.com/couchbase/gocbcore/v10/memd"
)

// SubdocOp is one decoded operation of a MULTI_LOOKUP / MULTI_MUTATION request, in wire order
// (gocbcore moves XATTR operations to the front).
type SubdocOp struct {
	Op    memd.SubDocOpType
	Flags memd.SubdocFlag
	Path  string
	Value []byte
}

// Request is one decoded memcached request as it arrived at the node.
type Request struct {
	// Seq numbers requests in arrival order over all connections (starting at 1).
	Seq int
	// Time is the arrival time.
	Time time.Time
	// ConnID identifies the connection; IsDCP is true once DCP_OPEN was seen on it; ConnName is
	// the DCP connection name then.
	ConnID   int
	IsDCP    bool
	ConnName string

	Opcode   memd.CmdCode
	VbID     uint16
	Opaque   uint32
	Cas      uint64
	Datatype uint8
	// CollectionID and Key are decoded from the leb128 prefixed key when collections were
	// negotiated on the connection (CollectionID is 0 otherwise).
	CollectionID uint32
	Key          []byte
	Extras       []byte
	Value        []byte

	// Flags and Expiry are decoded from the extras of SET/ADD/REPLACE; Expiry and DocFlags from
	// the extras of MULTI_MUTATION (HasExpiry tells whether an expiry was on the wire at all).
	Flags     uint32
	Expiry    uint32
	HasExpiry bool
	DocFlags  memd.SubdocDocFlag
	// SubdocOps is set for MULTI_LOOKUP and MULTI_MUTATION.
	SubdocOps []SubdocOp
	// PreserveExpiry reports the preserve-expiry frame; DurabilityLevel the sync-durability frame.
	PreserveExpiry  bool
	DurabilityLevel memd.DurabilityLevel

	stream *StreamRequest // the stream log record of a STREAM_REQ
}

// DcpControl is one DCP_CONTROL key/value pair received on a DCP connection.
type DcpControl struct {
	ConnID   int
	ConnName string
	Key      string
	Value    string
}

// BehaviourKind selects what the node does with a request.
type BehaviourKind int

const (
	// KindPrompt answers at once with the built-in handler (the default).
	KindPrompt BehaviourKind = iota
	// KindErrorStatus answers at once with Behaviour.Status and does nothing else.
	KindErrorStatus
	// KindDelay waits Behaviour.Delay and then runs the built-in handler (the side effect and the
	// reply both happen after the delay; other requests of the connection are not held back).
	KindDelay
	// KindNever swallows the request: no side effect, no answer, connection stays open.
	KindNever
	// KindDropConnection closes the connection the request arrived on without answering.
	KindDropConnection
)

// Behaviour tells the node how to treat a request. Build one with Prompt, ErrorStatus, Delay, Never
// or DropConnection; optionally limit it with Times.
type Behaviour struct {
	Kind   BehaviourKind
	Status memd.StatusCode
	Delay  time.Duration
	// Body is the value of the error response of KindErrorStatus (usually empty).
	Body []byte

	limited bool
	left    int32
}

// Prompt is the default behaviour: answer immediately with the built-in handler.
func Prompt() *Behaviour { return &Behaviour{Kind: KindPrompt} }

// ErrorStatus answers immediately with the given status and no side effect. gocbcore turns it into
// a *gocbcore.KeyValueError with that StatusCode (possibly retried first, depending on the status
// and the retry strategy of the operation, e.g. StatusTmpFail is retried by best-effort).
func ErrorStatus(status memd.StatusCode) *Behaviour {
	return &Behaviour{Kind: KindErrorStatus, Status: status}
}

// Delay runs the built-in handler after d.
func Delay(d time.Duration) *Behaviour { return &Behaviour{Kind: KindDelay, Delay: d} }

// Never swallows the request without answering.
func Never() *Behaviour { return &Behaviour{Kind: KindNever} }

// DropConnection closes the connection instead of answering.
func DropConnection() *Behaviour { return &Behaviour{Kind: KindDropConnection} }

// Times limits the behaviour to the next k matching requests; afterwards matching requests are
// treated as Prompt. It returns the receiver.
func (b *Behaviour) Times(k int) *Behaviour {
	b.limited = true
	atomic.StoreInt32(&b.left, int32(k))
	return b
}

// take consumes one application of the behaviour; false means it is used up.
func (b *Behaviour) take() bool {
	if b == nil {
		return false
	}
	if !b.limited {
		return true
	}
	return atomic.AddInt32(&b.left, -1) >= 0
}

// SetBehaviour sets the behaviour for every request with the given opcode, bootstrap opcodes
// (HELLO, SASL_AUTH, SELECT_BUCKET, DCP_OPEN, DCP_CONTROL ...) included. nil (or Prompt()) restores
// the default. It takes effect for requests arriving after the call.
func (n *Node) SetBehaviour(opcode memd.CmdCode, b *Behaviour) {
	n.mu.Lock()
	defer n.mu.Unlock()
	if b == nil {
		delete(n.behaviours, opcode)
		return
	}
	n.behaviours[opcode] = b
}

// SetBehaviourFunc installs a function consulted for every request before the per-opcode table;
// it can key on anything in the decoded request (vbucket, key, collection, connection, DCP control
// key ...). Returning nil falls through to the SetBehaviour table. f runs on the connection's
// reader goroutine, so it should be quick; it may call any Node method. To use Times with a
// behaviour handed out by f, return the same *Behaviour value every time (the countdown lives in
// it). nil removes the function.
func (n *Node) SetBehaviourFunc(f func(req *Request) *Behaviour) {
	n.mu.Lock()
	defer n.mu.Unlock()
	n.behaviourF = f
}

// ClearBehaviours removes the behaviour function and the whole per-opcode table.
func (n *Node) ClearBehaviours() {
	n.mu.Lock()
	defer n.mu.Unlock()
	n.behaviourF = nil
	n.behaviours = map[memd.CmdCode]*Behaviour{}
}

// Requests returns a copy of the request log in arrival order. GET_CLUSTER_CONFIG polls are left
// out unless Config.LogConfigPolls is set.
func (n *Node) Requests() []Request {
	n.mu.Lock()
	defer n.mu.Unlock()
	return append([]Request(nil), n.reqLog...)
}

// RequestsOf returns the logged requests having one of the given opcodes.
func (n *Node) RequestsOf(opcodes ...memd.CmdCode) []Request {
	var out []Request
	for _, r := range n.Requests() {
		for _, op := range opcodes {
			if r.Opcode == op {
				out = append(out, r)
				break
			}
		}
	}
	return out
}

// ResetLog empties the request log, the stream request log, the DCP control log and the HTTP log.
// Open streams and all scripted state stay as they are.
func (n *Node) ResetLog() {
	n.mu.Lock()
	defer n.mu.Unlock()
	n.reqLog = nil
	n.streamLog = nil
	n.controls = nil
	n.httpLog = nil
}

// DcpControls returns the DCP_CONTROL key/value pairs received so far, in arrival order, e.g.
// enable_noop=true, set_noop_interval, set_priority, change_streams, enable_expiry_opcode,
// connection_buffer_size, send_stream_end_on_client_close_stream.
func (n *Node) DcpControls() []DcpControl {
	n.mu.Lock()
	defer n.mu.Unlock()
	return append([]DcpControl(nil), n.controls...)
}

// DcpControl returns the most recent value received for a DCP control key.
func (n *Node) DcpControl(key string) (string, bool) {
	n.mu.Lock()
	defer n.mu.Unlock()
	for i := len(n.controls) - 1; i >= 0; i-- {
		if n.controls[i].Key == key {
			return n.controls[i].Value, true
		}
	}
	return "", false
}

// conn is one accepted KV connection.
type conn struct {
	node *Node
	id   int
	nc   net.Conn
	rd   *memd.Conn // reader; HELLO features are enabled on it so keys get collection-decoded

	wmu sync.Mutex
	wr  *memd.Conn // writer; featureless: responses carry no key and DCP events are prefixed by hand

	closeOnce sync.Once

	// guarded by node.mu
	collections bool
	isDCP       bool
	name        string
	controls    map[string]string
	streams     map[uint16]*Stream
}

func newConn(n *Node, id int, nc net.Conn) *conn {
	return &conn{
		node: n, id: id, nc: nc, rd: memd.NewConn(nc), wr: memd.NewConn(nc),
		controls: map[string]string{}, streams: map[uint16]*Stream{},
	}
}

func (c *conn) close() {
	c.closeOnce.Do(func() {
		_ = c.nc.Close()
		n := c.node
		n.mu.Lock()
		delete(n.conns, c.id)
		for vb, s := range c.streams {
			s.closed = true
			if n.streams[vb] == s {
				delete(n.streams, vb)
			}
		}
		n.mu.Unlock()
	})
}

// write sends one packet. A failed or timed out write leaves the byte stream undefined, so the
// connection is dropped then.
func (c *conn) write(pkt *memd.Packet) error {
	c.wmu.Lock()
	_ = c.nc.SetWriteDeadline(time.Now().Add(writeTimeout))
	err := c.wr.WritePacket(pkt)
	c.wmu.Unlock()
	if err != nil {
		c.close()
	}
	return err
}

// writeTimeout bounds one packet write; it only matters when a client stops reading its socket.
const writeTimeout = 10 * time.Second

// reply sends a response for pkt.
func (c *conn) reply(pkt *memd.Packet, status memd.StatusCode, cas uint64, extras, value []byte) {
	_ = c.write(&memd.Packet{
		Magic: memd.CmdMagicRes, Command: pkt.Command, Opaque: pkt.Opaque,
		Status: status, Cas: cas, Extras: extras, Value: value,
	})
}

func (c *conn) replyDT(pkt *memd.Packet, status memd.StatusCode, cas uint64, datatype uint8, extras, value []byte) {
	_ = c.write(&memd.Packet{
		Magic: memd.CmdMagicRes, Command: pkt.Command, Opaque: pkt.Opaque, Datatype: datatype,
		Status: status, Cas: cas, Extras: extras, Value: value,
	})
}

func (c *conn) readLoop() {
	defer c.close()
	for {
		pkt, _, err := c.rd.ReadPacket()
		if err != nil {
			return
		}
		if pkt.Magic != memd.CmdMagicReq {
			// A response to something we pushed (DCP noop ...): nothing to do.
			continue
		}
		c.dispatch(pkt)
	}
}

// decode builds the log record of a packet.
func (c *conn) decode(pkt *memd.Packet) *Request {
	req := &Request{
		Time: time.Now(), ConnID: c.id,
		Opcode: pkt.Command, VbID: pkt.Vbucket, Opaque: pkt.Opaque, Cas: pkt.Cas, Datatype: pkt.Datatype,
		CollectionID: pkt.CollectionID,
		Key:          append([]byte(nil), pkt.Key...),
		Extras:       append([]byte(nil), pkt.Extras...),
		Value:        append([]byte(nil), pkt.Value...),
	}
	req.PreserveExpiry = pkt.PreserveExpiryFrame != nil
	if pkt.DurabilityLevelFrame != nil {
		req.DurabilityLevel = pkt.DurabilityLevelFrame.DurabilityLevel
	}
	switch pkt.Command {
	case memd.CmdSet, memd.CmdAdd, memd.CmdReplace:
		if len(pkt.Extras) >= 8 {
			req.Flags = binary.BigEndian.Uint32(pkt.Extras[0:])
			req.Expiry = binary.BigEndian.Uint32(pkt.Extras[4:])
			req.HasExpiry = true
		}
	case memd.CmdTouch, memd.CmdGAT:
		if len(pkt.Extras) >= 4 {
			req.Expiry = binary.BigEndian.Uint32(pkt.Extras[0:])
			req.HasExpiry = true
		}
	case memd.CmdSubDocMultiMutation:
		ex := pkt.Extras
		if len(ex) >= 4 {
			req.Expiry = binary.BigEndian.Uint32(ex)
			req.HasExpiry = true
			ex = ex[4:]
		}
		if len(ex) >= 1 {
			req.DocFlags = memd.SubdocDocFlag(ex[0])
		}
		req.SubdocOps = decodeMutationOps(pkt.Value)
	case memd.CmdSubDocMultiLookup:
		if len(pkt.Extras) >= 1 {
			req.DocFlags = memd.SubdocDocFlag(pkt.Extras[0])
		}
		req.SubdocOps = decodeLookupOps(pkt.Value)
	}
	return req
}

func decodeLookupOps(v []byte) []SubdocOp {
	var ops []SubdocOp
	for len(v) >= 4 {
		plen := int(binary.BigEndian.Uint16(v[2:]))
		if 4+plen > len(v) {
			break
		}
		ops = append(ops, SubdocOp{Op: memd.SubDocOpType(v[0]), Flags: memd.SubdocFlag(v[1]), Path: string(v[4 : 4+plen])})
		v = v[4+plen:]
	}
	return ops
}

func decodeMutationOps(v []byte) []SubdocOp {
	var ops []SubdocOp
	for len(v) >= 8 {
		plen := int(binary.BigEndian.Uint16(v[2:]))
		vlen := int(binary.BigEndian.Uint32(v[4:]))
		if 8+plen+vlen > len(v) {
			break
		}
		ops = append(ops, SubdocOp{
			Op: memd.SubDocOpType(v[0]), Flags: memd.SubdocFlag(v[1]),
			Path:  string(v[8 : 8+plen]),
			Value: append([]byte(nil), v[8+plen:8+plen+vlen]...),
		})
		v = v[8+plen+vlen:]
	}
	return ops
}

// dispatch logs the request, picks its behaviour and acts on it.
func (c *conn) dispatch(pkt *memd.Packet) {
	n := c.node
	req := c.decode(pkt)

	n.mu.Lock()
	n.reqSeq++
	req.Seq = n.reqSeq
	req.IsDCP, req.ConnName = c.isDCP, c.name
	if pkt.Command == memd.CmdGetClusterConfig {
		n.configPolls++
	}
	if pkt.Command != memd.CmdGetClusterConfig || n.cfg.LogConfigPolls {
		n.reqLog = append(n.reqLog, *req)
	}
	if pkt.Command == memd.CmdDcpStreamReq {
		req.stream = c.recordStreamReq(pkt, req)
	}
	if pkt.Command == memd.CmdDcpControl {
		n.controls = append(n.controls, DcpControl{ConnID: c.id, ConnName: c.name, Key: string(pkt.Key), Value: string(pkt.Value)})
	}
	bf := n.behaviourF
	tbl := n.behaviours[pkt.Command]
	n.mu.Unlock()

	var b *Behaviour
	if bf != nil {
		if cand := bf(req); cand.take() {
			b = cand
		}
	}
	if b == nil && tbl.take() {
		b = tbl
	}
	if b == nil {
		b = &Behaviour{Kind: KindPrompt}
	}

	switch b.Kind {
	case KindErrorStatus:
		if req.stream != nil {
			n.mu.Lock()
			req.stream.Reply = StreamReply{Kind: StreamError, Status: b.Status}
			n.mu.Unlock()
		}
		c.reply(pkt, b.Status, 0, nil, b.Body)
	case KindNever:
	case KindDropConnection:
		c.close()
	case KindDelay:
		n.wg.Add(1)
		go func() {
			defer n.wg.Done()
			t := time.NewTimer(b.Delay)
			defer t.Stop()
			select {
			case <-t.C:
				c.handle(pkt, req)
			case <-n.done:
			}
		}()
	default:
		c.handle(pkt, req)
	}
}

// helloFeatures is what the node agrees to when the client asks for it.
var helloFeatures = map[memd.HelloFeature]bool{
	memd.FeatureDatatype:               true,
	memd.FeatureTCPNoDelay:             true,
	memd.FeatureXattr:                  true,
	memd.FeatureXerror:                 true,
	memd.FeatureSelectBucket:           true,
	memd.FeatureJSON:                   true,
	memd.FeatureUnorderedExec:          true,
	memd.FeatureAltRequests:            true,
	memd.FeatureSyncReplication:        true,
	memd.FeatureCollections:            true,
	memd.FeaturePreserveExpiry:         true,
	memd.FeatureClusterMapKnownVersion: true,
}

const errorMapJSON = `{"version":1,"revision":1,"errors":{}}`

// handle is the built-in (Prompt) handler.
func (c *conn) handle(pkt *memd.Packet, req *Request) {
	n := c.node
	switch pkt.Command {
	case memd.CmdHello:
		var out []byte
		for i := 0; i+1 < len(pkt.Value); i += 2 {
			f := memd.HelloFeature(binary.BigEndian.Uint16(pkt.Value[i:]))
			if helloFeatures[f] {
				out = append(out, pkt.Value[i], pkt.Value[i+1])
				if f == memd.FeatureCollections {
					c.rd.EnableFeature(memd.FeatureCollections)
					n.mu.Lock()
					c.collections = true
					n.mu.Unlock()
				}
			}
		}
		c.reply(pkt, memd.StatusSuccess, 0, nil, out)
	case memd.CmdGetErrorMap:
		c.reply(pkt, memd.StatusSuccess, 0, nil, []byte(errorMapJSON))
	case memd.CmdSASLListMechs:
		c.reply(pkt, memd.StatusSuccess, 0, nil, []byte("PLAIN"))
	case memd.CmdSASLAuth, memd.CmdSASLStep:
		c.reply(pkt, memd.StatusSuccess, 0, nil, []byte("Authenticated"))
	case memd.CmdSelectBucket:
		if string(pkt.Key) != n.cfg.BucketName {
			c.reply(pkt, memd.StatusKeyNotFound, 0, nil, nil)
			return
		}
		c.reply(pkt, memd.StatusSuccess, 0, nil, nil)
	case memd.CmdGetClusterConfig:
		if len(pkt.Extras) >= 16 {
			epoch := int64(binary.BigEndian.Uint64(pkt.Extras[0:]))
			rev := int64(binary.BigEndian.Uint64(pkt.Extras[8:]))
			n.mu.Lock()
			known := epoch > n.cluster.RevEpoch || (epoch == n.cluster.RevEpoch && rev >= n.cluster.Rev)
			n.mu.Unlock()
			if known {
				c.reply(pkt, memd.StatusSuccess, 0, nil, nil)
				return
			}
		}
		c.replyDT(pkt, memd.StatusSuccess, 0, uint8(memd.DatatypeFlagJSON), nil, n.configJSON())
	case memd.CmdNoop:
		c.reply(pkt, memd.StatusSuccess, 0, nil, nil)
	case memd.CmdCollectionsGetID:
		path := string(pkt.Value)
		if path == "" {
			path = string(pkt.Key)
		}
		n.mu.Lock()
		id, ok := n.collections[path]
		uid := n.cfg.ManifestUID
		n.mu.Unlock()
		if !ok {
			c.reply(pkt, memd.StatusCollectionUnknown, 0, nil, nil)
			return
		}
		ex := make([]byte, 12)
		binary.BigEndian.PutUint64(ex[0:], uid)
		binary.BigEndian.PutUint32(ex[8:], id)
		c.reply(pkt, memd.StatusSuccess, 0, ex, nil)

	case memd.CmdGet, memd.CmdSet, memd.CmdAdd, memd.CmdReplace, memd.CmdDelete, memd.CmdTouch, memd.CmdGAT,
		memd.CmdSubDocMultiLookup, memd.CmdSubDocMultiMutation:
		c.handleKV(pkt, req)

	case memd.CmdDcpOpenConnection:
		n.mu.Lock()
		c.isDCP, c.name = true, string(pkt.Key)
		n.mu.Unlock()
		c.reply(pkt, memd.StatusSuccess, 0, nil, nil)
	case memd.CmdDcpControl:
		n.mu.Lock()
		c.controls[string(pkt.Key)] = string(pkt.Value)
		n.mu.Unlock()
		c.reply(pkt, memd.StatusSuccess, 0, nil, nil)
	case memd.CmdDcpNoop:
		c.reply(pkt, memd.StatusSuccess, 0, nil, nil)
	case memd.CmdDcpBufferAck:
		c.reply(pkt, memd.StatusSuccess, 0, nil, nil)
	case memd.CmdDcpStreamReq:
		c.handleStreamReq(pkt, req)
	case memd.CmdDcpCloseStream:
		c.handleCloseStream(pkt)
	case memd.CmdDcpGetFailoverLog:
		c.reply(pkt, memd.StatusSuccess, 0, nil, encodeFailoverLog(n.FailoverLog(pkt.Vbucket)))
	case memd.CmdGetAllVBSeqnos:
		c.handleAllVbSeqnos(pkt, req)
	case memd.CmdObserveSeqNo:
		c.handleObserveSeqNo(pkt)
	default:
		c.reply(pkt, memd.StatusUnknownCommand, 0, nil, nil)
	}
}
