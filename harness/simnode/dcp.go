package simnode

import (
	"encoding/binary"
	"fmt"
	"sort"
	"time"

	"github.com/couchbase/gocbcore/v10"
	"github.com/couchbase/gocbcore/v10/memd"
)

// StreamRequest is one decoded DCP STREAM_REQ.
type StreamRequest struct {
	// Seq numbers stream requests in arrival order (starting at 1; ResetLog does not restart it).
	Seq      int
	Time     time.Time
	ConnID   int
	ConnName string
	Opaque   uint32

	VbID           uint16
	Flags          uint32
	StartSeqNo     uint64
	EndSeqNo       uint64
	VbUUID         uint64
	SnapStartSeqNo uint64
	SnapEndSeqNo   uint64
	// Value is the raw request body: the JSON stream filter, e.g.
	// {"uid":"0","collections":["8","9"]}; empty when the client sent none.
	Value []byte

	// Reply is what the node answered (Kind StreamSilent when it did not answer).
	Reply StreamReply
	// Stream is the stream handle when the request was accepted, nil otherwise.
	Stream *Stream

	conn *conn
}

// StreamReplyKind selects the answer to a STREAM_REQ.
type StreamReplyKind int

const (
	// StreamOK accepts the stream and returns a failover log.
	StreamOK StreamReplyKind = iota
	// StreamRollback answers StatusRollback with an 8 byte rollback seqno.
	StreamRollback
	// StreamError answers with StreamReply.Status.
	StreamError
	// StreamSilent does not answer at all (see AnswerStreamRequest for answering later).
	StreamSilent
)

// StreamReply is a scripted answer to a STREAM_REQ. Build it with StreamSuccess, StreamRollbackTo,
// StreamFail or StreamNoAnswer.
type StreamReply struct {
	Kind StreamReplyKind
	// FailoverLog is returned with StreamOK, newest entry first; when empty the vbucket's
	// configured failover log (SetFailoverLog) is used.
	FailoverLog   []gocbcore.FailoverEntry
	RollbackSeqNo uint64
	Status        memd.StatusCode
}

// StreamSuccess accepts the stream with the given failover log (newest entry first; none = the
// vbucket's configured log).
func StreamSuccess(log ...gocbcore.FailoverEntry) StreamReply {
	return StreamReply{Kind: StreamOK, FailoverLog: log}
}

// StreamRollbackTo refuses the stream with ROLLBACK to seqNo (gocbcore: DCPRollbackError{SeqNo}).
func StreamRollbackTo(seqNo uint64) StreamReply {
	return StreamReply{Kind: StreamRollback, RollbackSeqNo: seqNo}
}

// StreamFail refuses the stream with an error status (e.g. memd.StatusKeyExists "stream already
// exists", memd.StatusRangeError, memd.StatusTmpFail). Note that gocbcore itself re-sends a request
// answered with memd.StatusNotMyVBucket, so script that status as often as it should be seen.
func StreamFail(status memd.StatusCode) StreamReply {
	return StreamReply{Kind: StreamError, Status: status}
}

// StreamNoAnswer leaves the request unanswered.
func StreamNoAnswer() StreamReply { return StreamReply{Kind: StreamSilent} }

// ScriptStream queues replies for the next STREAM_REQs of a vbucket; each request that reaches the
// built-in handler consumes one (a request caught by an ErrorStatus/Never/DropConnection Behaviour
// on memd.CmdDcpStreamReq does not; it is still logged in StreamRequests, with Reply.Kind
// StreamError or StreamSilent, and a swallowed one can be answered later with AnswerStreamRequest).
// When the queue is empty the stream handler (SetStreamHandler) is asked, and without one the
// request is accepted with the vbucket's failover log (or refused with KEY_EEXISTS when the
// connection already has an open stream for that vbucket, as a real producer does).
func (n *Node) ScriptStream(vb uint16, replies ...StreamReply) {
	n.mu.Lock()
	defer n.mu.Unlock()
	n.streamScript[vb] = append(n.streamScript[vb], replies...)
}

// SetStreamHandler installs a function deciding the reply of STREAM_REQs that have no queued
// ScriptStream reply. Returning nil means "default" (accept). nil removes it.
func (n *Node) SetStreamHandler(f func(req *StreamRequest) *StreamReply) {
	n.mu.Lock()
	defer n.mu.Unlock()
	n.streamFn = f
}

// StreamRequests returns copies of the stream requests received so far, in arrival order.
func (n *Node) StreamRequests() []StreamRequest {
	n.mu.Lock()
	defer n.mu.Unlock()
	out := make([]StreamRequest, len(n.streamLog))
	for i, r := range n.streamLog {
		out[i] = *r
	}
	return out
}

// AnswerStreamRequest answers a stream request that was left unanswered (StreamSilent), identified
// by its Seq. It returns the stream handle when the reply accepts the stream.
func (n *Node) AnswerStreamRequest(seq int, reply StreamReply) (*Stream, error) {
	n.mu.Lock()
	var rec *StreamRequest
	for _, r := range n.streamLog {
		if r.Seq == seq {
			rec = r
		}
	}
	n.mu.Unlock()
	if rec == nil {
		return nil, fmt.Errorf("simnode: no stream request with seq %d", seq)
	}
	if rec.Reply.Kind != StreamSilent {
		return nil, fmt.Errorf("simnode: stream request %d was already answered", seq)
	}
	return rec.conn.answerStream(rec, reply), nil
}

// SetFailoverLog sets the failover log of a vbucket (newest entry first). It is returned by
// GET_FAILOVER_LOG and by accepted stream requests that do not script their own log. The default
// is a single entry {VbUUID: 0xA000 + vb, SeqNo: 0}.
func (n *Node) SetFailoverLog(vb uint16, log ...gocbcore.FailoverEntry) {
	n.mu.Lock()
	defer n.mu.Unlock()
	n.failover[vb] = append([]gocbcore.FailoverEntry(nil), log...)
}

// FailoverLog returns the failover log of a vbucket.
func (n *Node) FailoverLog(vb uint16) []gocbcore.FailoverEntry {
	n.mu.Lock()
	defer n.mu.Unlock()
	return n.failoverLocked(vb)
}

func (n *Node) failoverLocked(vb uint16) []gocbcore.FailoverEntry {
	if log, ok := n.failover[vb]; ok {
		return append([]gocbcore.FailoverEntry(nil), log...)
	}
	return []gocbcore.FailoverEntry{{VbUUID: gocbcore.VbUUID(0xA000 + uint64(vb)), SeqNo: 0}}
}

func encodeFailoverLog(log []gocbcore.FailoverEntry) []byte {
	out := make([]byte, 16*len(log))
	for i, e := range log {
		binary.BigEndian.PutUint64(out[i*16:], uint64(e.VbUUID))
		binary.BigEndian.PutUint64(out[i*16+8:], uint64(e.SeqNo))
	}
	return out
}

// SetVbSeqNo sets the high seqno GET_ALL_VB_SEQNOS reports for a vbucket (default 0). It is also
// the default persisted/current seqno of OBSERVE_SEQNO.
func (n *Node) SetVbSeqNo(vb uint16, seqNo uint64) {
	n.mu.Lock()
	defer n.mu.Unlock()
	n.seqnos[vb] = seqNo
}

// SetVbSeqNosFunc installs a function producing the complete GET_ALL_VB_SEQNOS answer for a
// request (vbucket => seqno; vbuckets left out are not listed in the response). The request's
// Extras hold the vbucket state filter (4 bytes) and, for collection-aware requests, the
// collection id (4 more bytes). nil restores the SetVbSeqNo table. To make the command fail use
// SetBehaviour(memd.CmdGetAllVBSeqnos, ErrorStatus(status)).
func (n *Node) SetVbSeqNosFunc(f func(req *Request) map[uint16]uint64) {
	n.mu.Lock()
	defer n.mu.Unlock()
	n.seqnosFn = f
}

func (c *conn) handleAllVbSeqnos(pkt *memd.Packet, req *Request) {
	n := c.node
	n.mu.Lock()
	fn := n.seqnosFn
	var m map[uint16]uint64
	if fn == nil {
		m = make(map[uint16]uint64, n.cfg.NumVBuckets)
		for vb := 0; vb < n.cfg.NumVBuckets; vb++ {
			m[uint16(vb)] = n.seqnos[uint16(vb)]
		}
	}
	n.mu.Unlock()
	if fn != nil {
		m = fn(req)
	}
	vbs := make([]int, 0, len(m))
	for vb := range m {
		vbs = append(vbs, int(vb))
	}
	sort.Ints(vbs)
	out := make([]byte, 10*len(vbs))
	for i, vb := range vbs {
		binary.BigEndian.PutUint16(out[i*10:], uint16(vb))
		binary.BigEndian.PutUint64(out[i*10+2:], m[uint16(vb)])
	}
	c.reply(pkt, memd.StatusSuccess, 0, nil, out)
}

// SetObserve fixes the OBSERVE_SEQNO answer of a vbucket until the next call. The node cannot tell
// which replica index a request was meant for (with replicas mapped onto this node every request of
// a vbucket arrives here), so there is one answer per vbucket; use SetObserveFunc to vary it by
// arrival order. Default: {VbUUID: newest failover entry, PersistSeqNo = CurrentSeqNo = SetVbSeqNo}.
func (n *Node) SetObserve(vb uint16, st ObserveState) {
	n.mu.Lock()
	defer n.mu.Unlock()
	n.observe[vb] = st
}

// SetObserveFunc installs a function answering every OBSERVE_SEQNO: reqVbUUID is the vbuuid the
// client sent, nth counts the OBSERVE_SEQNO requests of that vbucket so far (0 for the first).
// It takes precedence over SetObserve. nil removes it.
func (n *Node) SetObserveFunc(f func(vb uint16, reqVbUUID uint64, nth int) ObserveState) {
	n.mu.Lock()
	defer n.mu.Unlock()
	n.observeFn = f
}

func (c *conn) handleObserveSeqNo(pkt *memd.Packet) {
	n := c.node
	vb := pkt.Vbucket
	var reqUUID uint64
	if len(pkt.Value) >= 8 {
		reqUUID = binary.BigEndian.Uint64(pkt.Value)
	}
	n.mu.Lock()
	nth := n.observeCount[vb]
	n.observeCount[vb] = nth + 1
	fn := n.observeFn
	st, ok := n.observe[vb]
	if !ok {
		st = ObserveState{
			VbUUID:       uint64(n.failoverLocked(vb)[0].VbUUID),
			PersistSeqNo: n.seqnos[vb], CurrentSeqNo: n.seqnos[vb],
		}
	}
	n.mu.Unlock()
	if fn != nil {
		st = fn(vb, reqUUID, nth)
	}
	size := 27
	if st.DidFailover {
		size = 43
	}
	out := make([]byte, size)
	binary.BigEndian.PutUint16(out[1:], vb)
	binary.BigEndian.PutUint64(out[3:], st.VbUUID)
	binary.BigEndian.PutUint64(out[11:], st.PersistSeqNo)
	binary.BigEndian.PutUint64(out[19:], st.CurrentSeqNo)
	if st.DidFailover {
		out[0] = 1
		binary.BigEndian.PutUint64(out[27:], st.OldVbUUID)
		binary.BigEndian.PutUint64(out[35:], st.LastSeqNo)
	}
	c.reply(pkt, memd.StatusSuccess, 0, nil, out)
}

// recordStreamReq decodes and logs a STREAM_REQ. It runs for every stream request, whatever
// behaviour is applied to it afterwards. n.mu must be held.
func (c *conn) recordStreamReq(pkt *memd.Packet, req *Request) *StreamRequest {
	n := c.node
	rec := &StreamRequest{
		Time: req.Time, ConnID: c.id, ConnName: c.name, Opaque: pkt.Opaque, VbID: pkt.Vbucket,
		Value: append([]byte(nil), pkt.Value...), conn: c,
		Reply: StreamReply{Kind: StreamSilent},
	}
	if len(pkt.Extras) >= 48 {
		ex := pkt.Extras
		rec.Flags = binary.BigEndian.Uint32(ex[0:])
		rec.StartSeqNo = binary.BigEndian.Uint64(ex[8:])
		rec.EndSeqNo = binary.BigEndian.Uint64(ex[16:])
		rec.VbUUID = binary.BigEndian.Uint64(ex[24:])
		rec.SnapStartSeqNo = binary.BigEndian.Uint64(ex[32:])
		rec.SnapEndSeqNo = binary.BigEndian.Uint64(ex[40:])
	}
	n.streamSeq++
	rec.Seq = n.streamSeq
	n.streamLog = append(n.streamLog, rec)
	return rec
}

func (c *conn) handleStreamReq(pkt *memd.Packet, req *Request) {
	n := c.node
	rec := req.stream
	if len(pkt.Extras) < 48 {
		c.answerStream(rec, StreamReply{Kind: StreamError, Status: memd.StatusInvalidArgs})
		return
	}

	n.mu.Lock()
	var reply *StreamReply
	if q := n.streamScript[rec.VbID]; len(q) > 0 {
		r := q[0]
		n.streamScript[rec.VbID] = q[1:]
		reply = &r
	}
	fn := n.streamFn
	snapshot := *rec
	duplicate := c.streams[rec.VbID] != nil
	n.mu.Unlock()

	if reply == nil && fn != nil {
		reply = fn(&snapshot)
	}
	if reply == nil && duplicate {
		// Like the real producer: one stream per vbucket and connection.
		reply = &StreamReply{Kind: StreamError, Status: memd.StatusKeyExists}
	}
	if reply == nil {
		reply = &StreamReply{Kind: StreamOK}
	}
	c.answerStream(rec, *reply)
}

// answerStream sends the reply of a stream request and registers the stream when accepted.
func (c *conn) answerStream(rec *StreamRequest, reply StreamReply) *Stream {
	n := c.node
	hdr := &memd.Packet{Command: memd.CmdDcpStreamReq, Opaque: rec.Opaque}
	switch reply.Kind {
	case StreamSilent:
		return nil
	case StreamRollback:
		n.mu.Lock()
		rec.Reply = reply
		n.mu.Unlock()
		body := make([]byte, 8)
		binary.BigEndian.PutUint64(body, reply.RollbackSeqNo)
		c.reply(hdr, memd.StatusRollback, 0, nil, body)
		return nil
	case StreamError:
		n.mu.Lock()
		rec.Reply = reply
		n.mu.Unlock()
		c.reply(hdr, reply.Status, 0, nil, nil)
		return nil
	}

	n.mu.Lock()
	if len(reply.FailoverLog) == 0 {
		reply.FailoverLog = n.failoverLocked(rec.VbID)
	}
	s := &Stream{conn: c, vb: rec.VbID, opaque: rec.Opaque, request: *rec, ready: make(chan struct{})}
	s.request.Stream, s.request.conn = nil, nil
	rec.Reply, rec.Stream = reply, s
	s.request.Reply = reply
	c.streams[rec.VbID] = s
	n.streams[rec.VbID] = s
	n.streamCond.Broadcast()
	n.mu.Unlock()
	// Pushes wait for ready, so no event can overtake the response.
	c.reply(hdr, memd.StatusSuccess, 0, nil, encodeFailoverLog(reply.FailoverLog))
	close(s.ready)
	return s
}

func (c *conn) handleCloseStream(pkt *memd.Packet) {
	n := c.node
	n.mu.Lock()
	s := c.streams[pkt.Vbucket]
	if s == nil {
		n.mu.Unlock()
		c.reply(pkt, memd.StatusKeyNotFound, 0, nil, nil)
		return
	}
	s.closed = true
	delete(c.streams, pkt.Vbucket)
	if n.streams[pkt.Vbucket] == s {
		delete(n.streams, pkt.Vbucket)
	}
	sendEnd := c.controls["send_stream_end_on_client_close_stream"] == "true" && !n.cfg.NoStreamEndOnClose
	n.mu.Unlock()

	c.reply(pkt, memd.StatusSuccess, 0, nil, nil)
	if sendEnd {
		ex := make([]byte, 4)
		binary.BigEndian.PutUint32(ex, uint32(memd.StreamEndClosed))
		_ = c.write(&memd.Packet{
			Magic: memd.CmdMagicReq, Command: memd.CmdDcpStreamEnd, Vbucket: s.vb, Opaque: s.opaque, Extras: ex,
		})
	}
}

// Stream returns the open stream of a vbucket, or nil when there is none (never requested,
// refused, closed by the client, ended by the test or its connection gone).
func (n *Node) Stream(vb uint16) *Stream {
	n.mu.Lock()
	defer n.mu.Unlock()
	return n.streams[vb]
}

// WaitStream waits until a stream is open for the vbucket and returns it.
func (n *Node) WaitStream(vb uint16, timeout time.Duration) (*Stream, error) {
	timer := time.AfterFunc(timeout, func() {
		n.mu.Lock()
		n.streamCond.Broadcast()
		n.mu.Unlock()
	})
	defer timer.Stop()
	deadline := time.Now().Add(timeout)
	n.mu.Lock()
	defer n.mu.Unlock()
	for {
		if s := n.streams[vb]; s != nil {
			return s, nil
		}
		if n.closed {
			return nil, ErrClosed
		}
		if !time.Now().Before(deadline) {
			return nil, fmt.Errorf("simnode: no open stream for vb %d after %v", vb, timeout)
		}
		n.streamCond.Wait()
	}
}

// OpenStreams lists the vbuckets that currently have an open stream, sorted.
func (n *Node) OpenStreams() []uint16 {
	n.mu.Lock()
	defer n.mu.Unlock()
	out := make([]uint16, 0, len(n.streams))
	for vb := range n.streams {
		out = append(out, vb)
	}
	sort.Slice(out, func(i, j int) bool { return out[i] < out[j] })
	return out
}

// Stream is an accepted DCP stream. Its methods push events to the client on the connection and
// with the opaque of the stream request. Events of one stream are delivered in call order. After
// the client closed the stream, End was called or the connection died every push returns ErrClosed.
type Stream struct {
	conn    *conn
	vb      uint16
	opaque  uint32
	request StreamRequest
	ready   chan struct{} // closed once the stream response is on the wire
	closed  bool          // guarded by conn.node.mu
}

// VbID is the vbucket of the stream.
func (s *Stream) VbID() uint16 { return s.vb }

// Request is the stream request that opened the stream.
func (s *Stream) Request() StreamRequest { return s.request }

// Closed reports whether the stream is over.
func (s *Stream) Closed() bool {
	s.conn.node.mu.Lock()
	defer s.conn.node.mu.Unlock()
	return s.closed
}

// Mutation is a DCP mutation event. Only fields that are set go on the wire; everything else is 0.
type Mutation struct {
	SeqNo, RevNo  uint64
	Cas           uint64
	Flags, Expiry uint32
	LockTime      uint32
	Datatype      uint8
	CollectionID  uint32
	Key, Value    []byte
}

// Deletion is a DCP deletion event (v2 layout with DeleteTime, as sent on collection-aware
// connections). Value may carry xattrs of the tombstone (Datatype then has the xattr bit).
type Deletion struct {
	SeqNo, RevNo uint64
	Cas          uint64
	DeleteTime   uint32
	Datatype     uint8
	CollectionID uint32
	Key, Value   []byte
}

// Expiration is a DCP expiration event (only sent by a real server when enable_expiry_opcode was
// negotiated; the node does not enforce that).
type Expiration struct {
	SeqNo, RevNo uint64
	Cas          uint64
	DeleteTime   uint32
	CollectionID uint32
	Key          []byte
}

// SystemEvent is a DCP system event. The helper constructors cover the usual cases.
type SystemEvent struct {
	SeqNo   uint64
	Event   memd.StreamEventCode
	Version uint8
	// Key is the collection or scope name for create events.
	Key []byte
	// Value is the raw event body; the helpers fill it.
	Value []byte
}

func (s *Stream) send(pkt *memd.Packet) error {
	n := s.conn.node
	select {
	case <-s.ready:
	case <-n.done:
		return ErrClosed
	}
	n.mu.Lock()
	closed := s.closed
	collections := s.conn.collections
	n.mu.Unlock()
	if closed {
		return ErrClosed
	}
	pkt.Magic = memd.CmdMagicReq
	pkt.Vbucket = s.vb
	pkt.Opaque = s.opaque
	if collections && memd.IsCommandCollectionEncoded(pkt.Command) {
		key := memd.AppendULEB128_32(make([]byte, 0, len(pkt.Key)+5), pkt.CollectionID)
		pkt.Key = append(key, pkt.Key...)
	}
	pkt.CollectionID = 0
	return s.conn.write(pkt)
}

// Send pushes an arbitrary packet on the stream: Magic, Vbucket and Opaque are filled in and, for
// mutation/deletion/expiration, Key is prefixed with the leb128 CollectionID when the connection
// negotiated collections. Use it for malformed or exotic events.
func (s *Stream) Send(pkt *memd.Packet) error { return s.send(pkt) }

// SnapshotMarker pushes a (v1) snapshot marker. flags is the snapshot type bit set: 0x01 memory,
// 0x02 disk, 0x04 checkpoint, 0x08 ack.
func (s *Stream) SnapshotMarker(startSeqNo, endSeqNo uint64, flags uint32) error {
	ex := make([]byte, 20)
	binary.BigEndian.PutUint64(ex[0:], startSeqNo)
	binary.BigEndian.PutUint64(ex[8:], endSeqNo)
	binary.BigEndian.PutUint32(ex[16:], flags)
	return s.send(&memd.Packet{Command: memd.CmdDcpSnapshotMarker, Extras: ex})
}

// Mutation pushes a mutation.
func (s *Stream) Mutation(m Mutation) error {
	ex := make([]byte, 31)
	binary.BigEndian.PutUint64(ex[0:], m.SeqNo)
	binary.BigEndian.PutUint64(ex[8:], m.RevNo)
	binary.BigEndian.PutUint32(ex[16:], m.Flags)
	binary.BigEndian.PutUint32(ex[20:], m.Expiry)
	binary.BigEndian.PutUint32(ex[24:], m.LockTime)
	return s.send(&memd.Packet{
		Command: memd.CmdDcpMutation, Extras: ex, Cas: m.Cas, Datatype: m.Datatype,
		CollectionID: m.CollectionID, Key: m.Key, Value: m.Value,
	})
}

// Deletion pushes a deletion.
func (s *Stream) Deletion(d Deletion) error {
	ex := make([]byte, 21)
	binary.BigEndian.PutUint64(ex[0:], d.SeqNo)
	binary.BigEndian.PutUint64(ex[8:], d.RevNo)
	binary.BigEndian.PutUint32(ex[16:], d.DeleteTime)
	return s.send(&memd.Packet{
		Command: memd.CmdDcpDeletion, Extras: ex, Cas: d.Cas, Datatype: d.Datatype,
		CollectionID: d.CollectionID, Key: d.Key, Value: d.Value,
	})
}

// Expiration pushes an expiration.
func (s *Stream) Expiration(e Expiration) error {
	ex := make([]byte, 20)
	binary.BigEndian.PutUint64(ex[0:], e.SeqNo)
	binary.BigEndian.PutUint64(ex[8:], e.RevNo)
	binary.BigEndian.PutUint32(ex[16:], e.DeleteTime)
	return s.send(&memd.Packet{
		Command: memd.CmdDcpExpiration, Extras: ex, Cas: e.Cas, CollectionID: e.CollectionID, Key: e.Key,
	})
}

// SeqNoAdvanced pushes a seqno-advanced event.
func (s *Stream) SeqNoAdvanced(seqNo uint64) error {
	ex := make([]byte, 8)
	binary.BigEndian.PutUint64(ex, seqNo)
	return s.send(&memd.Packet{Command: memd.CmdDcpSeqNoAdvanced, Extras: ex})
}

// OSOSnapshot pushes an out-of-order snapshot marker (flags 0x01 begin, 0x02 end).
func (s *Stream) OSOSnapshot(flags uint32) error {
	ex := make([]byte, 4)
	binary.BigEndian.PutUint32(ex, flags)
	return s.send(&memd.Packet{Command: memd.CmdDcpOsoSnapshot, Extras: ex})
}

// SystemEvent pushes a system event.
func (s *Stream) SystemEvent(ev SystemEvent) error {
	ex := make([]byte, 13)
	binary.BigEndian.PutUint64(ex[0:], ev.SeqNo)
	binary.BigEndian.PutUint32(ex[8:], uint32(ev.Event))
	ex[12] = ev.Version
	return s.send(&memd.Packet{Command: memd.CmdDcpEvent, Extras: ex, Key: ev.Key, Value: ev.Value})
}

// CollectionCreated pushes a collection-creation system event (version 0; with ttl != 0 the
// version 1 layout carrying the collection max TTL is used).
func (s *Stream) CollectionCreated(seqNo, manifestUID uint64, scopeID, collectionID uint32, name string, ttl uint32) error {
	val := make([]byte, 16, 20)
	binary.BigEndian.PutUint64(val[0:], manifestUID)
	binary.BigEndian.PutUint32(val[8:], scopeID)
	binary.BigEndian.PutUint32(val[12:], collectionID)
	var version uint8
	if ttl != 0 {
		version = 1
		val = val[:20]
		binary.BigEndian.PutUint32(val[16:], ttl)
	}
	return s.SystemEvent(SystemEvent{
		SeqNo: seqNo, Event: memd.StreamEventCollectionCreate, Version: version, Key: []byte(name), Value: val,
	})
}

// CollectionDropped pushes a collection-deletion system event.
func (s *Stream) CollectionDropped(seqNo, manifestUID uint64, scopeID, collectionID uint32) error {
	val := make([]byte, 16)
	binary.BigEndian.PutUint64(val[0:], manifestUID)
	binary.BigEndian.PutUint32(val[8:], scopeID)
	binary.BigEndian.PutUint32(val[12:], collectionID)
	return s.SystemEvent(SystemEvent{SeqNo: seqNo, Event: memd.StreamEventCollectionDelete, Value: val})
}

// ScopeCreated pushes a scope-creation system event.
func (s *Stream) ScopeCreated(seqNo, manifestUID uint64, scopeID uint32, name string) error {
	val := make([]byte, 12)
	binary.BigEndian.PutUint64(val[0:], manifestUID)
	binary.BigEndian.PutUint32(val[8:], scopeID)
	return s.SystemEvent(SystemEvent{SeqNo: seqNo, Event: memd.StreamEventScopeCreate, Key: []byte(name), Value: val})
}

// ScopeDropped pushes a scope-deletion system event.
func (s *Stream) ScopeDropped(seqNo, manifestUID uint64, scopeID uint32) error {
	val := make([]byte, 12)
	binary.BigEndian.PutUint64(val[0:], manifestUID)
	binary.BigEndian.PutUint32(val[8:], scopeID)
	return s.SystemEvent(SystemEvent{SeqNo: seqNo, Event: memd.StreamEventScopeDelete, Value: val})
}

// End pushes STREAM_END with the given code and closes the stream on the node's side. gocbcore
// reports it to the observer as End(vb, err) where err is nil for StreamEndOK,
// ErrDCPStreamClosed, ErrDCPStreamStateChanged, ErrDCPStreamDisconnected, ErrDCPStreamTooSlow,
// ErrDCPBackfillFailed or ErrDCPStreamFilterEmpty otherwise.
func (s *Stream) End(code memd.StreamEndStatus) error {
	ex := make([]byte, 4)
	binary.BigEndian.PutUint32(ex, uint32(code))
	err := s.send(&memd.Packet{Command: memd.CmdDcpStreamEnd, Extras: ex})
	n := s.conn.node
	n.mu.Lock()
	s.closed = true
	if s.conn.streams[s.vb] == s {
		delete(s.conn.streams, s.vb)
	}
	if n.streams[s.vb] == s {
		delete(n.streams, s.vb)
	}
	n.mu.Unlock()
	return err
}

// Noop pushes a server-side DCP NOOP on the stream's connection (gocbcore answers it by itself).
func (s *Stream) Noop() error {
	return s.conn.write(&memd.Packet{Magic: memd.CmdMagicReq, Command: memd.CmdDcpNoop, Opaque: 0xfffffff0})
}
