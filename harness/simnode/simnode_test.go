package simnode_test

import (
	"context"
	"encoding/binary"
	"encoding/json"
	"errors"
	"io"
	"net"
	"net/http"
	"runtime"
	"testing"
	"time"

	"github.com/Trendyol/go-dcp/couchbase"
	"github.com/Trendyol/go-dcp/helpers"
	"github.com/couchbase/gocbcore/v10"
	"github.com/couchbase/gocbcore/v10/memd"

	"verifharness/simnode"
)

func newNode(t *testing.T, cfg simnode.Config) *simnode.Node {
	t.Helper()
	node, err := simnode.New(cfg)
	if err != nil {
		t.Fatalf("New: %v", err)
	}
	t.Cleanup(node.Close)
	return node
}

func newAgent(t *testing.T, node *simnode.Node) *gocbcore.Agent {
	t.Helper()
	agent, err := node.NewAgent()
	if err != nil {
		t.Fatalf("NewAgent: %v", err)
	}
	t.Cleanup(func() { _ = agent.Close() })
	return agent
}

func ctxFor(d time.Duration) (context.Context, context.CancelFunc) {
	return context.WithTimeout(context.Background(), d)
}

func kvStatus(err error) (memd.StatusCode, bool) {
	var kvErr *gocbcore.KeyValueError
	if errors.As(err, &kvErr) {
		return kvErr.StatusCode, true
	}
	return 0, false
}

// a. bootstrap and ping.
func TestBootstrapAndPing(t *testing.T) {
	node := newNode(t, simnode.Config{NumVBuckets: 4})
	agent := newAgent(t, node)
	dcpAgent, err := node.NewDCPAgent("boot-stream", true, true)
	if err != nil {
		t.Fatalf("NewDCPAgent: %v", err)
	}
	defer dcpAgent.Close()

	if !dcpAgent.HasCollectionsSupport() {
		t.Fatalf("dcp agent should have negotiated collections")
	}
	snap, err := dcpAgent.ConfigSnapshot()
	if err != nil {
		t.Fatalf("ConfigSnapshot: %v", err)
	}
	if nvb, _ := snap.NumVbuckets(); nvb != 4 {
		t.Fatalf("NumVbuckets = %d", nvb)
	}
	if ns, _ := snap.NumServers(); ns != 1 {
		t.Fatalf("NumServers = %d", ns)
	}

	type pingOut struct {
		res *gocbcore.PingResult
		err error
	}
	ch := make(chan pingOut, 1)
	deadline := time.Now().Add(2 * time.Second)
	_, err = agent.Ping(gocbcore.PingOptions{
		KVDeadline: deadline, MgmtDeadline: deadline,
		ServiceTypes: []gocbcore.ServiceType{gocbcore.MemdService, gocbcore.MgmtService},
	}, func(res *gocbcore.PingResult, err error) { ch <- pingOut{res, err} })
	if err != nil {
		t.Fatalf("Ping dispatch: %v", err)
	}
	out := <-ch
	if out.err != nil {
		t.Fatalf("Ping: %v", out.err)
	}
	for _, svc := range []gocbcore.ServiceType{gocbcore.MemdService, gocbcore.MgmtService} {
		results := out.res.Services[svc]
		if len(results) != 1 || results[0].Error != nil || results[0].State != gocbcore.PingStateOK {
			t.Fatalf("ping of service %v: %+v", svc, results)
		}
	}
	if ep := out.res.Services[gocbcore.MgmtService][0].Endpoint; ep != node.MgmtURL() {
		t.Fatalf("mgmt endpoint %q, want %q", ep, node.MgmtURL())
	}

	// The DCP bootstrap controls are logged.
	want := map[string]string{
		"enable_noop": "true", "set_noop_interval": "180", "set_priority": "low", "change_streams": "true",
		"enable_expiry_opcode": "true", "send_stream_end_on_client_close_stream": "true",
	}
	for k, v := range want {
		if got, ok := node.DcpControl(k); !ok || got != v {
			t.Fatalf("dcp control %s = %q (present %v), want %q", k, got, ok, v)
		}
	}
	if _, ok := node.DcpControl("connection_buffer_size"); !ok {
		t.Fatalf("connection_buffer_size control missing: %+v", node.DcpControls())
	}
	opens := node.RequestsOf(memd.CmdDcpOpenConnection)
	if len(opens) != 1 || string(opens[0].Key) != "boot-stream" {
		t.Fatalf("dcp open requests: %+v", opens)
	}

	// REST side.
	var pools struct {
		ImplementationVersion string `json:"implementationVersion"`
	}
	getJSON(t, node.MgmtURL()+"/pools", &pools)
	if pools.ImplementationVersion != "7.6.3-4200-enterprise" {
		t.Fatalf("version %q", pools.ImplementationVersion)
	}
	node.SetBucketInfo("membase", "magma")
	var bucket struct {
		Name, UUID, BucketType, StorageBackend string
	}
	getJSON(t, node.MgmtURL()+"/pools/default/buckets/"+node.BucketName(), &bucket)
	if bucket.Name != node.BucketName() || bucket.BucketType != "membase" || bucket.StorageBackend != "magma" {
		t.Fatalf("bucket info %+v", bucket)
	}
}

func getJSON(t *testing.T, url string, v interface{}) {
	t.Helper()
	resp, err := http.Get(url) //nolint:gosec
	if err != nil {
		t.Fatalf("GET %s: %v", url, err)
	}
	defer resp.Body.Close()
	body, _ := io.ReadAll(resp.Body)
	if resp.StatusCode != 200 {
		t.Fatalf("GET %s: status %d", url, resp.StatusCode)
	}
	if err := json.Unmarshal(body, v); err != nil {
		t.Fatalf("GET %s: %v in %s", url, err, body)
	}
}

// b. KV through the library's real document helpers.
func TestKVThroughLibraryHelpers(t *testing.T) {
	node := newNode(t, simnode.Config{NumVBuckets: 4, Collections: map[string]uint32{"s1.c1": 9}})
	agent := newAgent(t, node)

	for _, coll := range [][2]string{{"_default", "_default"}, {"s1", "c1"}} {
		scope, collection := coll[0], coll[1]
		var wantCid uint32
		if scope == "s1" {
			wantCid = 9
		}
		id := []byte("checkpoint:1")
		payload := []byte(`{"checkpoint":{"seqNo":12,"vbUuid":"<77>"},"bucketUuid":"u"}`)

		ctx, cancel := ctxFor(2 * time.Second)
		err := couchbase.UpsertXattrs(ctx, agent, scope, collection, id, helpers.Name, payload, 0)
		cancel()
		if st, ok := kvStatus(err); !ok || st != memd.StatusKeyNotFound {
			t.Fatalf("UpsertXattrs on missing doc: %v", err)
		}
		if !errors.Is(err, gocbcore.ErrDocumentNotFound) {
			t.Fatalf("UpsertXattrs on missing doc should be ErrDocumentNotFound: %v", err)
		}

		ctx, cancel = ctxFor(2 * time.Second)
		defer cancel()
		if err = couchbase.CreateDocument(ctx, agent, scope, collection, id, []byte{}, helpers.JSONFlags, 0); err != nil {
			t.Fatalf("CreateDocument: %v", err)
		}
		if err = couchbase.UpsertXattrs(ctx, agent, scope, collection, id, helpers.Name, payload, 0); err != nil {
			t.Fatalf("UpsertXattrs: %v", err)
		}
		got, err := couchbase.GetXattrs(ctx, agent, scope, collection, id, helpers.Name)
		if err != nil || string(got) != string(payload) {
			t.Fatalf("GetXattrs = %q, %v", got, err)
		}
		stored, ok := node.GetDoc(wantCid, string(id))
		if !ok || string(stored.Xattrs[helpers.Name]) != string(payload) || stored.Flags != helpers.JSONFlags {
			t.Fatalf("stored doc %+v (found %v)", stored, ok)
		}

		// The decoded request log shows what went over the wire.
		muts := node.RequestsOf(memd.CmdSubDocMultiMutation)
		last := muts[len(muts)-1]
		if last.CollectionID != wantCid || string(last.Key) != string(id) || len(last.SubdocOps) != 1 ||
			last.SubdocOps[0].Op != memd.SubDocOpDictSet || last.SubdocOps[0].Flags != memd.SubdocFlagXattrPath ||
			last.SubdocOps[0].Path != helpers.Name || string(last.SubdocOps[0].Value) != string(payload) || last.HasExpiry {
			t.Fatalf("decoded mutate-in: %+v", last)
		}

		// Full documents: Get, UpdateDocument with and without CAS.
		docID := []byte("instance-1")
		if err = couchbase.CreateDocument(ctx, agent, scope, collection, docID, []byte(`{"v":1}`), helpers.JSONFlags, 0); err != nil {
			t.Fatalf("CreateDocument: %v", err)
		}
		res, err := couchbase.Get(ctx, agent, scope, collection, docID)
		if err != nil || string(res.Value) != `{"v":1}` || res.Flags != helpers.JSONFlags || res.Cas == 0 {
			t.Fatalf("Get = %+v, %v", res, err)
		}
		if err = couchbase.UpdateDocument(ctx, agent, scope, collection, docID, []byte(`{"v":2}`), 0, nil); err != nil {
			t.Fatalf("UpdateDocument without cas: %v", err)
		}
		stale := res.Cas
		err = couchbase.UpdateDocument(ctx, agent, scope, collection, docID, []byte(`{"v":3}`), 0, &stale)
		if st, ok := kvStatus(err); !ok || st != memd.StatusKeyExists || !errors.Is(err, gocbcore.ErrCasMismatch) {
			t.Fatalf("UpdateDocument with stale cas: %v", err)
		}
		res, err = couchbase.Get(ctx, agent, scope, collection, docID)
		if err != nil || string(res.Value) != `{"v":2}` || res.Cas == stale {
			t.Fatalf("Get after updates = %+v, %v", res, err)
		}
		fresh := res.Cas
		if err = couchbase.UpdateDocument(ctx, agent, scope, collection, docID, []byte(`{"v":4}`), 0, &fresh); err != nil {
			t.Fatalf("UpdateDocument with fresh cas: %v", err)
		}
		err = couchbase.UpdateDocument(ctx, agent, scope, collection, []byte("nobody"), []byte(`{}`), 0, nil)
		if st, ok := kvStatus(err); !ok || st != memd.StatusKeyNotFound {
			t.Fatalf("UpdateDocument on missing doc: %v", err)
		}

		// CreatePath with MkDoc creates the index document, a second path is merged in.
		index := []byte("instance-all")
		if err = couchbase.CreatePath(ctx, agent, scope, collection, index, []byte("id-a"), []byte(`17`), memd.SubdocDocFlagMkDoc); err != nil {
			t.Fatalf("CreatePath: %v", err)
		}
		if err = couchbase.CreatePath(ctx, agent, scope, collection, index, []byte("id-b"), []byte(`18`), memd.SubdocDocFlagMkDoc); err != nil {
			t.Fatalf("CreatePath 2: %v", err)
		}
		res, err = couchbase.Get(ctx, agent, scope, collection, index)
		if err != nil {
			t.Fatalf("Get index: %v", err)
		}
		all := map[string]int64{}
		if err = json.Unmarshal(res.Value, &all); err != nil || all["id-a"] != 17 || all["id-b"] != 18 || len(all) != 2 {
			t.Fatalf("index doc %s: %v", res.Value, err)
		}
		err = couchbase.CreatePath(ctx, agent, scope, collection, []byte("no-mkdoc"), []byte("p"), []byte(`1`), memd.SubdocDocFlagNone)
		if st, ok := kvStatus(err); !ok || st != memd.StatusKeyNotFound {
			t.Fatalf("CreatePath without MkDoc on missing doc: %v", err)
		}

		// Delete.
		if err = couchbase.DeleteDocument(ctx, agent, scope, collection, docID); err != nil {
			t.Fatalf("DeleteDocument: %v", err)
		}
		_, err = couchbase.Get(ctx, agent, scope, collection, docID)
		if st, ok := kvStatus(err); !ok || st != memd.StatusKeyNotFound {
			t.Fatalf("Get after delete: %v", err)
		}
		err = couchbase.DeleteDocument(ctx, agent, scope, collection, docID)
		if st, ok := kvStatus(err); !ok || st != memd.StatusKeyNotFound {
			t.Fatalf("second DeleteDocument: %v", err)
		}
	}

	// Unknown collection.
	ctx, cancel := ctxFor(500 * time.Millisecond)
	defer cancel()
	err := couchbase.CreateDocument(ctx, agent, "s1", "nope", []byte("k"), []byte(`1`), 0, 0)
	if err == nil {
		t.Fatalf("CreateDocument in unknown collection should fail")
	}
}

// Expiry is kept and enforced by the logical clock.
func TestExpiryAndClock(t *testing.T) {
	node := newNode(t, simnode.Config{})
	agent := newAgent(t, node)
	ctx, cancel := ctxFor(2 * time.Second)
	defer cancel()

	if err := couchbase.CreateDocument(ctx, agent, "", "", []byte("ttl"), []byte(`{"a":1}`), 0, 10); err != nil {
		t.Fatalf("CreateDocument: %v", err)
	}
	if err := couchbase.CreateDocument(ctx, agent, "", "", []byte("forever"), []byte(`{"a":1}`), 0, 0); err != nil {
		t.Fatalf("CreateDocument: %v", err)
	}
	d, ok := node.GetDoc(0, "ttl")
	if !ok || int64(d.Expiry) != node.Now()+10 {
		t.Fatalf("doc expiry %d, now %d", d.Expiry, node.Now())
	}
	// A sub-document full-doc write with an expiry moves it, one without keeps it.
	if err := couchbase.UpdateDocument(ctx, agent, "", "", []byte("ttl"), []byte(`{"a":2}`), 20, nil); err != nil {
		t.Fatalf("UpdateDocument: %v", err)
	}
	if err := couchbase.UpsertXattrs(ctx, agent, "", "", []byte("ttl"), "x", []byte(`1`), 0); err != nil {
		t.Fatalf("UpsertXattrs: %v", err)
	}
	if d, _ = node.GetDoc(0, "ttl"); int64(d.Expiry) != node.Now()+20 {
		t.Fatalf("doc expiry after update %d, now %d", d.Expiry, node.Now())
	}
	if gone := node.AdvanceClock(19); len(gone) != 0 {
		t.Fatalf("expired too early: %v", gone)
	}
	if _, err := couchbase.Get(ctx, agent, "", "", []byte("ttl")); err != nil {
		t.Fatalf("Get before expiry: %v", err)
	}
	gone := node.AdvanceClock(1)
	if len(gone) != 1 || gone[0].Key != "ttl" {
		t.Fatalf("AdvanceClock removed %v", gone)
	}
	_, err := couchbase.Get(ctx, agent, "", "", []byte("ttl"))
	if st, ok := kvStatus(err); !ok || st != memd.StatusKeyNotFound {
		t.Fatalf("Get after expiry: %v", err)
	}
	if _, err = couchbase.Get(ctx, agent, "", "", []byte("forever")); err != nil {
		t.Fatalf("Get of non-expiring doc: %v", err)
	}
}

// d. behaviours.
func TestBehaviours(t *testing.T) {
	node := newNode(t, simnode.Config{NumVBuckets: 4})
	agent := newAgent(t, node)

	create := func(key string, timeout time.Duration) (error, time.Duration) {
		ctx, cancel := ctxFor(timeout)
		defer cancel()
		start := time.Now()
		err := couchbase.CreateDocument(ctx, agent, "", "", []byte(key), []byte(`{"k":1}`), 0, 0)
		return err, time.Since(start)
	}

	// Never: the request is swallowed, the caller's context ends the wait.
	node.SetBehaviour(memd.CmdSet, simnode.Never())
	err, took := create("never", 200*time.Millisecond)
	if err == nil || took < 180*time.Millisecond || took > 1500*time.Millisecond {
		t.Fatalf("Never: err=%v after %v", err, took)
	}
	if _, ok := node.GetDoc(0, "never"); ok {
		t.Fatalf("Never must not store the document")
	}
	if n := len(node.RequestsOf(memd.CmdSet)); n < 1 {
		t.Fatalf("swallowed request not logged")
	}

	// Delay beyond the deadline: error first, the late reply is ignored by the client.
	node.SetBehaviour(memd.CmdSet, simnode.Delay(300*time.Millisecond))
	err, took = create("late", 200*time.Millisecond)
	if err == nil || took < 180*time.Millisecond || took > time.Second {
		t.Fatalf("Delay: err=%v after %v", err, took)
	}
	deadline := time.Now().Add(2 * time.Second)
	for {
		if _, ok := node.GetDoc(0, "late"); ok {
			break
		}
		if time.Now().After(deadline) {
			t.Fatalf("delayed SET never executed")
		}
		time.Sleep(5 * time.Millisecond)
	}
	// Delay within the deadline succeeds.
	node.SetBehaviour(memd.CmdSet, simnode.Delay(50*time.Millisecond))
	err, took = create("slow", time.Second)
	if err != nil || took < 45*time.Millisecond {
		t.Fatalf("short Delay: err=%v after %v", err, took)
	}

	// ErrorStatus, limited to one request and to one key by a behaviour function.
	busy := simnode.ErrorStatus(memd.StatusAccessError).Times(1)
	node.SetBehaviour(memd.CmdSet, nil)
	node.SetBehaviourFunc(func(req *simnode.Request) *simnode.Behaviour {
		if req.Opcode == memd.CmdSet && string(req.Key) == "denied" {
			return busy
		}
		return nil
	})
	err, _ = create("denied", time.Second)
	if st, ok := kvStatus(err); !ok || st != memd.StatusAccessError {
		t.Fatalf("ErrorStatus: %v", err)
	}
	if err, _ = create("allowed", time.Second); err != nil {
		t.Fatalf("other key: %v", err)
	}
	if err, _ = create("denied", time.Second); err != nil {
		t.Fatalf("Times(1) should be used up: %v", err)
	}
	node.SetBehaviourFunc(nil)

	// DropConnection: the in-flight request fails, the agent reconnects afterwards.
	node.SetBehaviour(memd.CmdSet, simnode.DropConnection().Times(1))
	err, took = create("dropped", time.Second)
	if err == nil {
		t.Fatalf("DropConnection: expected an error (after %v)", took)
	}
	deadline = time.Now().Add(5 * time.Second)
	for {
		if err, _ = create("after-drop", 300*time.Millisecond); err == nil {
			break
		}
		if time.Now().After(deadline) {
			t.Fatalf("agent did not recover after DropConnection: %v", err)
		}
	}
	node.ClearBehaviours()
	if err, _ = create("final", time.Second); err != nil {
		t.Fatalf("after ClearBehaviours: %v", err)
	}
}

// e. ObserveVb, active and replica, and config bumps.
func TestObserveVbAndConfig(t *testing.T) {
	node := newNode(t, simnode.Config{NumVBuckets: 4, NumReplicas: 2, ReplicasOnNode: 1})
	agent := newAgent(t, node)

	snap, err := agent.ConfigSnapshot()
	if err != nil {
		t.Fatalf("ConfigSnapshot: %v", err)
	}
	if idx, err := snap.VbucketToServer(3, 1); err != nil || idx != 0 {
		t.Fatalf("replica 1 => %d, %v", idx, err)
	}
	if idx, err := snap.VbucketToServer(3, 2); err != nil || idx != -1 {
		t.Fatalf("replica 2 => %d, %v", idx, err)
	}
	if _, err := snap.VbucketToServer(3, 3); !errors.Is(err, gocbcore.ErrInvalidReplica) {
		t.Fatalf("replica 3 => %v", err)
	}

	observeTimeout := time.Second
	observe := func(vb uint16, replica int, vbUUID gocbcore.VbUUID) (*gocbcore.ObserveVbResult, error) {
		type out struct {
			res *gocbcore.ObserveVbResult
			err error
		}
		ch := make(chan out, 1)
		_, err := agent.ObserveVb(gocbcore.ObserveVbOptions{
			VbID: vb, ReplicaIdx: replica, VbUUID: vbUUID, Deadline: time.Now().Add(observeTimeout),
		}, func(res *gocbcore.ObserveVbResult, err error) { ch <- out{res, err} })
		if err != nil {
			return nil, err
		}
		o := <-ch
		return o.res, o.err
	}

	node.SetFailoverLog(3, gocbcore.FailoverEntry{VbUUID: 4242, SeqNo: 0})
	node.SetVbSeqNo(3, 17)
	res, err := observe(3, 0, 4242)
	if err != nil || res.VbID != 3 || res.VbUUID != 4242 || res.PersistSeqNo != 17 || res.CurrentSeqNo != 17 || res.DidFailover {
		t.Fatalf("default observe = %+v, %v", res, err)
	}

	node.SetObserve(3, simnode.ObserveState{VbUUID: 99, PersistSeqNo: 5, CurrentSeqNo: 7})
	for replica := 0; replica <= 1; replica++ {
		res, err = observe(3, replica, 4242)
		if err != nil || res.VbUUID != 99 || res.PersistSeqNo != 5 || res.CurrentSeqNo != 7 {
			t.Fatalf("scripted observe replica %d = %+v, %v", replica, res, err)
		}
	}
	observeTimeout = 100 * time.Millisecond
	if _, err = observe(3, 2, 4242); err == nil {
		t.Fatalf("observe on an absent replica should fail")
	}
	observeTimeout = time.Second
	reqs := node.RequestsOf(memd.CmdObserveSeqNo)
	if len(reqs) != 3 || reqs[2].VbID != 3 || len(reqs[2].Value) != 8 {
		t.Fatalf("observe requests %+v", reqs)
	}

	// The answer may depend on arrival order.
	node.SetObserveFunc(func(vb uint16, reqVbUUID uint64, nth int) simnode.ObserveState {
		return simnode.ObserveState{VbUUID: reqVbUUID, PersistSeqNo: uint64(100 + nth), CurrentSeqNo: 200}
	})
	first, _ := observe(2, 0, 31)
	second, _ := observe(2, 1, 31)
	if first == nil || second == nil || first.PersistSeqNo != 100 || second.PersistSeqNo != 101 || first.VbUUID != 31 {
		t.Fatalf("observe func: %+v %+v", first, second)
	}
	node.SetObserveFunc(nil)
	node.SetObserve(1, simnode.ObserveState{VbUUID: 8, PersistSeqNo: 1, CurrentSeqNo: 2, DidFailover: true, OldVbUUID: 7, LastSeqNo: 3})
	res, err = observe(1, 0, 7)
	if err != nil || !res.DidFailover || res.OldVbUUID != 7 || res.LastSeqNo != 3 || res.VbUUID != 8 {
		t.Fatalf("failover observe = %+v, %v", res, err)
	}

	// Config bump: replica 1 of vb 3 leaves, rev moves, the agent sees it with its next poll.
	before := node.ClusterConfig()
	after := node.BumpConfig(func(c *simnode.ClusterConfig) { c.VBucketMap[3][1] = -1 })
	if after.Rev != before.Rev+1 {
		t.Fatalf("rev %d -> %d", before.Rev, after.Rev)
	}
	if err = node.WaitAgentRev(agent, after.Rev, 2*time.Second); err != nil {
		t.Fatal(err)
	}
	snap, _ = agent.ConfigSnapshot()
	if idx, err := snap.VbucketToServer(3, 1); err != nil || idx != -1 {
		t.Fatalf("after bump replica 1 => %d, %v", idx, err)
	}
	if idx, err := snap.VbucketToServer(2, 1); err != nil || idx != 0 {
		t.Fatalf("after bump vb 2 replica 1 => %d, %v", idx, err)
	}
	if node.ConfigPolls() == 0 {
		t.Fatalf("no config polls counted")
	}
}

// Raw protocol: a client that never says HELLO gets plain keys, one that negotiates collections
// gets leb128 decoded keys; Close ends every goroutine of the node, pending delays included.
func TestRawProtocolAndClose(t *testing.T) {
	before := runtime.NumGoroutine()
	node, err := simnode.New(simnode.Config{Collections: map[string]uint32{"s.c": 300}})
	if err != nil {
		t.Fatal(err)
	}
	nc, err := net.Dial("tcp", node.KVAddr())
	if err != nil {
		t.Fatal(err)
	}
	defer nc.Close()
	mc := memd.NewConn(nc)
	roundTrip := func(pkt *memd.Packet) *memd.Packet {
		t.Helper()
		pkt.Magic = memd.CmdMagicReq
		if err := mc.WritePacket(pkt); err != nil {
			t.Fatalf("write: %v", err)
		}
		_ = nc.SetReadDeadline(time.Now().Add(2 * time.Second))
		resp, _, err := mc.ReadPacket()
		if err != nil {
			t.Fatalf("read: %v", err)
		}
		if resp.Opaque != pkt.Opaque || resp.Command != pkt.Command || resp.Magic != memd.CmdMagicRes {
			t.Fatalf("response does not match request: %v", resp)
		}
		return resp
	}
	setExtras := make([]byte, 8)

	resp := roundTrip(&memd.Packet{Command: memd.CmdSet, Opaque: 1, Key: []byte("plain"), Value: []byte("v"), Extras: setExtras, Vbucket: 2})
	if resp.Status != memd.StatusSuccess || resp.Cas == 0 {
		t.Fatalf("SET without HELLO: %v", resp)
	}
	if _, ok := node.GetDoc(0, "plain"); !ok {
		t.Fatalf("doc not stored under the plain key: %v", node.DocIDs())
	}

	hello := make([]byte, 4)
	binary.BigEndian.PutUint16(hello[0:], uint16(memd.FeatureCollections))
	binary.BigEndian.PutUint16(hello[2:], uint16(memd.FeatureSnappy))
	resp = roundTrip(&memd.Packet{Command: memd.CmdHello, Opaque: 2, Key: []byte("raw-client"), Value: hello})
	if resp.Status != memd.StatusSuccess || len(resp.Value) != 2 || binary.BigEndian.Uint16(resp.Value) != uint16(memd.FeatureCollections) {
		t.Fatalf("HELLO: %v", resp)
	}
	mc.EnableFeature(memd.FeatureCollections)
	resp = roundTrip(&memd.Packet{Command: memd.CmdSet, Opaque: 3, CollectionID: 300, Key: []byte("scoped"), Value: []byte("v"), Extras: setExtras})
	if resp.Status != memd.StatusSuccess {
		t.Fatalf("SET with collection: %v", resp)
	}
	if _, ok := node.GetDoc(300, "scoped"); !ok {
		t.Fatalf("doc not stored under collection 300: %v", node.DocIDs())
	}
	resp = roundTrip(&memd.Packet{Command: memd.CmdGet, Opaque: 4, CollectionID: 301, Key: []byte("scoped")})
	if resp.Status != memd.StatusCollectionUnknown {
		t.Fatalf("GET in unknown collection: %v", resp)
	}
	resp = roundTrip(&memd.Packet{Command: memd.CmdCollectionsGetID, Opaque: 5, Value: []byte("s.c")})
	if resp.Status != memd.StatusSuccess || len(resp.Extras) != 12 || binary.BigEndian.Uint32(resp.Extras[8:]) != 300 {
		t.Fatalf("GET_COLLECTION_ID: %v", resp)
	}
	resp = roundTrip(&memd.Packet{Command: memd.CmdSelectBucket, Opaque: 6, Key: []byte("other-bucket")})
	if resp.Status != memd.StatusKeyNotFound {
		t.Fatalf("SELECT_BUCKET of an unknown bucket: %v", resp)
	}
	last := node.Requests()[len(node.Requests())-2]
	if last.Opcode != memd.CmdCollectionsGetID || string(last.Value) != "s.c" || last.ConnID == 0 || last.Seq == 0 {
		t.Fatalf("logged request: %+v", last)
	}

	// A long Delay is pending when the node closes.
	node.SetBehaviour(memd.CmdNoop, simnode.Delay(time.Hour))
	if err = mc.WritePacket(&memd.Packet{Magic: memd.CmdMagicReq, Command: memd.CmdNoop, Opaque: 7}); err != nil {
		t.Fatal(err)
	}
	for len(node.RequestsOf(memd.CmdNoop)) == 0 {
		time.Sleep(time.Millisecond)
	}
	closed := make(chan struct{})
	go func() { node.Close(); node.Close(); close(closed) }()
	select {
	case <-closed:
	case <-time.After(2 * time.Second):
		t.Fatalf("Close hangs")
	}
	_ = nc.SetReadDeadline(time.Now().Add(time.Second))
	if _, _, err = mc.ReadPacket(); err == nil {
		t.Fatalf("connection should be closed by the node")
	}
	deadline := time.Now().Add(2 * time.Second)
	for runtime.NumGoroutine() > before && time.Now().Before(deadline) {
		time.Sleep(10 * time.Millisecond)
	}
	if now := runtime.NumGoroutine(); now > before {
		buf := make([]byte, 1<<16)
		t.Fatalf("goroutines leaked: %d -> %d\n%s", before, now, buf[:runtime.Stack(buf, true)])
	}
}

// A DCP agent seeded the way the library's DcpConnect does it (HTTP address, no CCCP poller) gets
// its config from the streaming REST endpoint, config bumps included.
func TestHTTPSeededDCPAgent(t *testing.T) {
	node := newNode(t, simnode.Config{NumVBuckets: 4})
	dcpAgent, err := node.NewDCPAgentWith("http-seeded", false, false, func(cfg *gocbcore.DCPAgentConfig) {
		cfg.SeedConfig = gocbcore.SeedConfig{HTTPAddrs: []string{node.HTTPAddr()}}
		cfg.EnableCCCPPoller = false
	})
	if err != nil {
		t.Fatalf("NewDCPAgentWith: %v", err)
	}
	defer dcpAgent.Close()
	after := node.BumpConfig(func(c *simnode.ClusterConfig) {
		c.NumReplicas = 1
		for vb := range c.VBucketMap {
			c.VBucketMap[vb] = []int{0, 0}
		}
	})
	if err = node.WaitDCPAgentRev(dcpAgent, after.Rev, 2*time.Second); err != nil {
		t.Fatal(err)
	}
	snap, _ := dcpAgent.ConfigSnapshot()
	if r, err := snap.NumReplicas(); err != nil || r != 1 {
		t.Fatalf("NumReplicas after bump = %d, %v", r, err)
	}
	seen := false
	for _, r := range node.HTTPRequests() {
		if r.Path == "/pools/default/bs/"+node.BucketName() && r.Authorization != "" {
			seen = true
		}
	}
	if !seen {
		t.Fatalf("streaming config request not seen: %+v", node.HTTPRequests())
	}
}
