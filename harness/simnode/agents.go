package simnode

import (
	"fmt"
	"time"

	"github.com/couchbase/gocbcore/v10"
	"github.com/couchbase/gocbcore/v10/memd"
)

// Username and Password are the credentials the helper-made agents present. The node accepts any.
const (
	Username = "simuser"
	Password = "simpass"
)

func (n *Node) security() gocbcore.SecurityConfig {
	return gocbcore.SecurityConfig{
		Auth:           gocbcore.PasswordAuthProvider{Username: Username, Password: Password},
		AuthMechanisms: []gocbcore.AuthMechanism{gocbcore.PlainAuthMechanism},
	}
}

// AgentConfig returns the gocbcore configuration NewAgent uses: memd seed = KVAddr, PLAIN auth, no
// TLS, no compression, collections on, CCCP poll period = Config.CccpPollPeriod and the best-effort
// default retry strategy the library uses.
func (n *Node) AgentConfig() *gocbcore.AgentConfig {
	return &gocbcore.AgentConfig{
		BucketName:     n.cfg.BucketName,
		SeedConfig:     gocbcore.SeedConfig{MemdAddrs: []string{n.KVAddr()}},
		SecurityConfig: n.security(),
		IoConfig:       gocbcore.IoConfig{UseCollections: true},
		KVConfig:       gocbcore.KVConfig{ConnectTimeout: n.cfg.ConnectTimeout},
		ConfigPollerConfig: gocbcore.ConfigPollerConfig{
			CccpPollPeriod: n.cfg.CccpPollPeriod,
			CccpMaxWait:    time.Second,
		},
		DefaultRetryStrategy: gocbcore.NewBestEffortRetryStrategy(nil),
	}
}

// DCPAgentConfig returns the gocbcore configuration NewDCPAgent uses. It mirrors the library's
// DcpConnect (collections on, default priority and buffer size, producer open flag) except that it
// seeds with the memd address and enables the CCCP poller so that BumpConfig is noticed.
func (n *Node) DCPAgentConfig(useExpiryOpcode, useChangeStreams bool) *gocbcore.DCPAgentConfig {
	return &gocbcore.DCPAgentConfig{
		BucketName:     n.cfg.BucketName,
		SeedConfig:     gocbcore.SeedConfig{MemdAddrs: []string{n.KVAddr()}},
		SecurityConfig: n.security(),
		DCPConfig: gocbcore.DCPConfig{
			UseExpiryOpcode:  useExpiryOpcode,
			UseChangeStreams: useChangeStreams,
		},
		IoConfig:         gocbcore.IoConfig{UseCollections: true},
		KVConfig:         gocbcore.KVConfig{ConnectTimeout: n.cfg.ConnectTimeout},
		EnableCCCPPoller: true,
		ConfigPollerConfig: gocbcore.ConfigPollerConfig{
			CccpPollPeriod: n.cfg.CccpPollPeriod,
			CccpMaxWait:    time.Second,
		},
	}
}

// NewAgent creates a real gocbcore Agent connected to this node and waits until it is ready. The
// caller owns it (Close it). See AgentConfig for the options used.
func (n *Node) NewAgent() (*gocbcore.Agent, error) { return n.NewAgentWith(nil) }

// NewAgentWith is NewAgent with a chance to adjust the configuration first.
func (n *Node) NewAgentWith(adjust func(cfg *gocbcore.AgentConfig)) (*gocbcore.Agent, error) {
	cfg := n.AgentConfig()
	if adjust != nil {
		adjust(cfg)
	}
	agent, err := gocbcore.CreateAgent(cfg)
	if err != nil {
		return nil, err
	}
	ch := make(chan error, 1)
	_, err = agent.WaitUntilReady(
		time.Now().Add(n.cfg.ConnectTimeout),
		gocbcore.WaitUntilReadyOptions{RetryStrategy: gocbcore.NewBestEffortRetryStrategy(nil)},
		func(_ *gocbcore.WaitUntilReadyResult, err error) { ch <- err },
	)
	if err == nil {
		err = <-ch
	}
	if err != nil {
		_ = agent.Close()
		return nil, fmt.Errorf("simnode: agent not ready: %w", err)
	}
	return agent, nil
}

// NewDCPAgent creates a real gocbcore DCPAgent (a DCP producer connection named streamName) and
// waits until it is ready. useExpiry / useChangeStreams make gocbcore send the
// enable_expiry_opcode / change_streams controls (visible in DcpControls). The caller owns it.
func (n *Node) NewDCPAgent(streamName string, useExpiry, useChangeStreams bool) (*gocbcore.DCPAgent, error) {
	return n.NewDCPAgentWith(streamName, useExpiry, useChangeStreams, nil)
}

// NewDCPAgentWith is NewDCPAgent with a chance to adjust the configuration first.
func (n *Node) NewDCPAgentWith(streamName string, useExpiry, useChangeStreams bool,
	adjust func(cfg *gocbcore.DCPAgentConfig),
) (*gocbcore.DCPAgent, error) {
	cfg := n.DCPAgentConfig(useExpiry, useChangeStreams)
	if adjust != nil {
		adjust(cfg)
	}
	agent, err := gocbcore.CreateDcpAgent(cfg, streamName, memd.DcpOpenFlagProducer)
	if err != nil {
		return nil, err
	}
	ch := make(chan error, 1)
	_, err = agent.WaitUntilReady(
		time.Now().Add(n.cfg.ConnectTimeout),
		gocbcore.WaitUntilReadyOptions{RetryStrategy: gocbcore.NewBestEffortRetryStrategy(nil)},
		func(_ *gocbcore.WaitUntilReadyResult, err error) { ch <- err },
	)
	if err == nil {
		err = <-ch
	}
	if err != nil {
		_ = agent.Close()
		return nil, fmt.Errorf("simnode: dcp agent not ready: %w", err)
	}
	return agent, nil
}

// WaitAgentRev waits until the agent's config snapshot has at least the given revision (use it
// after BumpConfig).
func (n *Node) WaitAgentRev(agent *gocbcore.Agent, rev int64, timeout time.Duration) error {
	return waitRev(func() (*gocbcore.ConfigSnapshot, error) { return agent.ConfigSnapshot() }, rev, timeout)
}

// WaitDCPAgentRev is WaitAgentRev for a DCP agent.
func (n *Node) WaitDCPAgentRev(agent *gocbcore.DCPAgent, rev int64, timeout time.Duration) error {
	return waitRev(func() (*gocbcore.ConfigSnapshot, error) { return agent.ConfigSnapshot() }, rev, timeout)
}

func waitRev(snap func() (*gocbcore.ConfigSnapshot, error), rev int64, timeout time.Duration) error {
	deadline := time.Now().Add(timeout)
	for {
		s, err := snap()
		if err == nil && s.RevID() >= rev {
			return nil
		}
		if time.Now().After(deadline) {
			return fmt.Errorf("simnode: config rev %d not seen after %v (last error: %v)", rev, timeout, err)
		}
		time.Sleep(5 * time.Millisecond)
	}
}
