package simnode

import (
	"bytes"
	"encoding/binary"
	"encoding/json"
	"fmt"
	"sort"
	"strings"

	"github.com/couchbase/gocbcore/v10/memd"
)

type docKey struct {
	cid uint32
	key string
}

// Doc is one stored document.
type Doc struct {
	// Value is the document body.
	Value []byte
	// Xattrs holds the extended attributes: top-level xattr key => raw JSON value.
	Xattrs map[string]json.RawMessage
	// Flags and Datatype are what the client sent with the last full-document write.
	Flags    uint32
	Datatype uint8
	// Cas changes on every mutation.
	Cas uint64
	// Expiry is the absolute expiry time in seconds of the node's logical clock (see Now and
	// AdvanceClock); 0 means the document never expires.
	Expiry uint32
}

func (d *Doc) clone() *Doc {
	out := *d
	out.Value = append([]byte(nil), d.Value...)
	out.Xattrs = make(map[string]json.RawMessage, len(d.Xattrs))
	for k, v := range d.Xattrs {
		out.Xattrs[k] = append(json.RawMessage(nil), v...)
	}
	return &out
}

const thirtyDays = 30 * 24 * 3600

// Now returns the node's logical clock in unix seconds. It starts at the wall clock time of New and
// only moves through AdvanceClock, so document expiry is fully under test control.
func (n *Node) Now() int64 {
	n.mu.Lock()
	defer n.mu.Unlock()
	return n.clock
}

// AdvanceClock moves the logical clock forward by the given number of seconds and removes every
// document whose expiry time has been reached. It returns the (collection id, key) pairs removed.
// No DCP event is generated; push an Expiration on a Stream if the scenario needs one.
func (n *Node) AdvanceClock(seconds int64) []DocID {
	n.mu.Lock()
	defer n.mu.Unlock()
	n.clock += seconds
	var gone []DocID
	for k, d := range n.docs {
		if d.Expiry != 0 && int64(d.Expiry) <= n.clock {
			gone = append(gone, DocID{CollectionID: k.cid, Key: k.key})
			delete(n.docs, k)
		}
	}
	sort.Slice(gone, func(i, j int) bool {
		if gone[i].CollectionID != gone[j].CollectionID {
			return gone[i].CollectionID < gone[j].CollectionID
		}
		return gone[i].Key < gone[j].Key
	})
	return gone
}

// DocID names a document.
type DocID struct {
	CollectionID uint32
	Key          string
}

// GetDoc returns a copy of a stored document.
func (n *Node) GetDoc(collectionID uint32, key string) (Doc, bool) {
	n.mu.Lock()
	defer n.mu.Unlock()
	d := n.liveDoc(docKey{collectionID, key})
	if d == nil {
		return Doc{}, false
	}
	return *d.clone(), true
}

// PutDoc stores a document directly (no request is logged). A zero Cas is replaced by a fresh one.
// Expiry is taken as is (absolute logical-clock seconds, 0 = never).
func (n *Node) PutDoc(collectionID uint32, key string, d Doc) uint64 {
	n.mu.Lock()
	defer n.mu.Unlock()
	nd := d.clone()
	if nd.Cas == 0 {
		nd.Cas = n.nextCas()
	}
	n.docs[docKey{collectionID, key}] = nd
	return nd.Cas
}

// DeleteDoc removes a document directly; it reports whether it existed.
func (n *Node) DeleteDoc(collectionID uint32, key string) bool {
	n.mu.Lock()
	defer n.mu.Unlock()
	k := docKey{collectionID, key}
	ok := n.liveDoc(k) != nil
	delete(n.docs, k)
	return ok
}

// DocIDs lists the stored documents, sorted.
func (n *Node) DocIDs() []DocID {
	n.mu.Lock()
	defer n.mu.Unlock()
	out := make([]DocID, 0, len(n.docs))
	for k := range n.docs {
		if n.liveDoc(k) != nil {
			out = append(out, DocID{CollectionID: k.cid, Key: k.key})
		}
	}
	sort.Slice(out, func(i, j int) bool {
		if out[i].CollectionID != out[j].CollectionID {
			return out[i].CollectionID < out[j].CollectionID
		}
		return out[i].Key < out[j].Key
	})
	return out
}

// liveDoc returns the stored doc unless it has expired. n.mu must be held.
func (n *Node) liveDoc(k docKey) *Doc {
	d := n.docs[k]
	if d == nil {
		return nil
	}
	if d.Expiry != 0 && int64(d.Expiry) <= n.clock {
		delete(n.docs, k)
		return nil
	}
	return d
}

func (n *Node) nextCas() uint64 {
	n.casBase += 0x10000
	return n.casBase
}

// absExpiry converts a wire expiry (relative seconds up to 30 days, absolute unix time above) to
// absolute logical-clock seconds. n.mu must be held.
func (n *Node) absExpiry(wire uint32) uint32 {
	if wire == 0 {
		return 0
	}
	if wire <= thirtyDays {
		return uint32(n.clock + int64(wire))
	}
	return wire
}

// kvResp is the outcome of a KV command, computed under n.mu and written after releasing it.
type kvResp struct {
	status   memd.StatusCode
	cas      uint64
	datatype uint8
	extras   []byte
	value    []byte
}

func kvStatus(status memd.StatusCode) kvResp { return kvResp{status: status} }

// handleKV serves GET/SET/ADD/REPLACE/DELETE/TOUCH/GAT and the two sub-document multi commands.
func (c *conn) handleKV(pkt *memd.Packet, req *Request) {
	n := c.node
	n.mu.Lock()
	r := n.kvLocked(pkt, req)
	n.mu.Unlock()
	c.replyDT(pkt, r.status, r.cas, r.datatype, r.extras, r.value)
}

// kvLocked applies a KV command to the store. n.mu must be held.
func (n *Node) kvLocked(pkt *memd.Packet, req *Request) kvResp {
	k := docKey{pkt.CollectionID, string(pkt.Key)}
	if !n.knownCollection(pkt.CollectionID) {
		return kvStatus(memd.StatusCollectionUnknown)
	}
	d := n.liveDoc(k)

	switch pkt.Command {
	case memd.CmdGet, memd.CmdGAT, memd.CmdTouch:
		if d == nil {
			return kvStatus(memd.StatusKeyNotFound)
		}
		if pkt.Command != memd.CmdGet && len(pkt.Extras) >= 4 {
			d.Expiry = n.absExpiry(binary.BigEndian.Uint32(pkt.Extras))
			d.Cas = n.nextCas()
		}
		if pkt.Command == memd.CmdTouch {
			return kvResp{cas: d.Cas}
		}
		ex := make([]byte, 4)
		binary.BigEndian.PutUint32(ex, d.Flags)
		return kvResp{
			cas: d.Cas, datatype: d.Datatype & uint8(memd.DatatypeFlagJSON), extras: ex,
			value: append([]byte(nil), d.Value...),
		}

	case memd.CmdSet, memd.CmdAdd, memd.CmdReplace:
		if len(pkt.Extras) < 8 {
			return kvStatus(memd.StatusInvalidArgs)
		}
		switch {
		case pkt.Command == memd.CmdAdd && d != nil:
			return kvStatus(memd.StatusKeyExists)
		case pkt.Command == memd.CmdReplace && d == nil,
			pkt.Command == memd.CmdSet && d == nil && pkt.Cas != 0:
			return kvStatus(memd.StatusKeyNotFound)
		case d != nil && pkt.Cas != 0 && pkt.Cas != d.Cas:
			return kvStatus(memd.StatusKeyExists)
		}
		nd := &Doc{Xattrs: map[string]json.RawMessage{}}
		if d != nil {
			// A full-document write drops user xattrs and keeps system ("_" prefixed) ones.
			for name, v := range d.Xattrs {
				if strings.HasPrefix(name, "_") {
					nd.Xattrs[name] = v
				}
			}
		}
		nd.Value = append([]byte(nil), pkt.Value...)
		nd.Flags = binary.BigEndian.Uint32(pkt.Extras[0:])
		nd.Datatype = pkt.Datatype
		nd.Expiry = n.absExpiry(binary.BigEndian.Uint32(pkt.Extras[4:]))
		if req.PreserveExpiry && d != nil {
			nd.Expiry = d.Expiry
		}
		nd.Cas = n.nextCas()
		n.docs[k] = nd
		return kvResp{cas: nd.Cas}

	case memd.CmdDelete:
		if d == nil {
			return kvStatus(memd.StatusKeyNotFound)
		}
		if pkt.Cas != 0 && pkt.Cas != d.Cas {
			return kvStatus(memd.StatusKeyExists)
		}
		delete(n.docs, k)
		return kvResp{cas: n.nextCas()}

	case memd.CmdSubDocMultiLookup:
		return n.multiLookup(req, d)
	case memd.CmdSubDocMultiMutation:
		return n.multiMutation(pkt, req, k, d)
	}
	return kvStatus(memd.StatusUnknownCommand)
}

// knownCollection reports whether a collection id is in the manifest. n.mu must be held.
func (n *Node) knownCollection(id uint32) bool {
	if id == 0 {
		return true
	}
	for _, v := range n.collections {
		if v == id {
			return true
		}
	}
	return false
}

// multiLookup serves MULTI_LOOKUP. n.mu must be held.
func (n *Node) multiLookup(req *Request, d *Doc) kvResp {
	if d == nil {
		return kvStatus(memd.StatusKeyNotFound)
	}
	var body bytes.Buffer
	overall := memd.StatusSuccess
	for _, op := range req.SubdocOps {
		status, val := n.lookupOne(d, op)
		if status != memd.StatusSuccess {
			overall = memd.StatusSubDocBadMulti
			val = nil
		}
		var hdr [6]byte
		binary.BigEndian.PutUint16(hdr[0:], uint16(status))
		binary.BigEndian.PutUint32(hdr[2:], uint32(len(val)))
		body.Write(hdr[:])
		body.Write(val)
	}
	return kvResp{status: overall, cas: d.Cas, value: body.Bytes()}
}

func (n *Node) lookupOne(d *Doc, op SubdocOp) (memd.StatusCode, []byte) {
	var root []byte
	if op.Flags&memd.SubdocFlagXattrPath != 0 {
		if op.Path == "" {
			return memd.StatusSubDocPathInvalid, nil
		}
		root = marshalObj(d.Xattrs)
		if strings.HasPrefix(op.Path, "$document") {
			root = []byte(fmt.Sprintf(`{"$document":{"CAS":"0x%016x","exptime":%d,"flags":%d,"datatype":[],"value_bytes":%d,"deleted":false}}`,
				d.Cas, d.Expiry, d.Flags, len(d.Value)))
		} else if strings.HasPrefix(op.Path, "$") {
			return memd.StatusSubDocXattrUnknownVAttr, nil
		}
	} else {
		if op.Op == memd.SubDocOpGetDoc {
			return memd.StatusSuccess, d.Value
		}
		root = d.Value
	}
	switch op.Op {
	case memd.SubDocOpGet, memd.SubDocOpExists, memd.SubDocOpGetCount:
	default:
		return memd.StatusSubDocBadCombo, nil
	}
	val, status := jsonGet(root, op.Path)
	if status != memd.StatusSuccess {
		return status, nil
	}
	switch op.Op {
	case memd.SubDocOpExists:
		return memd.StatusSuccess, nil
	case memd.SubDocOpGetCount:
		var arr []json.RawMessage
		var obj map[string]json.RawMessage
		if json.Unmarshal(val, &arr) == nil {
			return memd.StatusSuccess, []byte(fmt.Sprint(len(arr)))
		}
		if json.Unmarshal(val, &obj) == nil {
			return memd.StatusSuccess, []byte(fmt.Sprint(len(obj)))
		}
		return memd.StatusSubDocPathMismatch, nil
	}
	return memd.StatusSuccess, val
}

// marshalObj renders a JSON object with sorted keys, keeping every raw value byte for byte.
func marshalObj(obj map[string]json.RawMessage) []byte {
	names := make([]string, 0, len(obj))
	for name := range obj {
		names = append(names, name)
	}
	sort.Strings(names)
	var b bytes.Buffer
	b.WriteByte('{')
	for i, name := range names {
		if i > 0 {
			b.WriteByte(',')
		}
		enc, _ := json.Marshal(name)
		b.Write(enc)
		b.WriteByte(':')
		b.Write(obj[name])
	}
	b.WriteByte('}')
	return b.Bytes()
}

// multiMutation serves MULTI_MUTATION. n.mu must be held.
//
// Semantics kept from the real server: without MkDoc/AddDoc a missing document is KEY_ENOENT; a
// non-zero CAS must match (KEY_EEXISTS otherwise); the operations are applied atomically, the first
// failing one yields SUBDOC_MULTI_PATH_FAILURE with (index, status); the expiry is only changed
// when the request carries one; every success generates a fresh CAS.
func (n *Node) multiMutation(pkt *memd.Packet, req *Request, k docKey, d *Doc) kvResp {
	create := req.DocFlags&(memd.SubdocDocFlagMkDoc|memd.SubdocDocFlagAddDoc) != 0
	switch {
	case d == nil && !create:
		return kvStatus(memd.StatusKeyNotFound)
	case d != nil && req.DocFlags&memd.SubdocDocFlagAddDoc != 0:
		return kvStatus(memd.StatusKeyExists)
	case d != nil && pkt.Cas != 0 && pkt.Cas != d.Cas:
		return kvStatus(memd.StatusKeyExists)
	case d == nil && pkt.Cas != 0:
		return kvStatus(memd.StatusKeyNotFound)
	}
	if len(req.SubdocOps) == 0 {
		return kvStatus(memd.StatusInvalidArgs)
	}

	var nd *Doc
	if d != nil {
		nd = d.clone()
	} else {
		nd = &Doc{Value: []byte("{}"), Xattrs: map[string]json.RawMessage{}, Datatype: uint8(memd.DatatypeFlagJSON)}
	}
	deleted := false
	for i, op := range req.SubdocOps {
		status := mutateOne(nd, op, &deleted)
		if status != memd.StatusSuccess {
			body := []byte{byte(i), 0, 0}
			binary.BigEndian.PutUint16(body[1:], uint16(status))
			return kvResp{status: memd.StatusSubDocBadMulti, value: body}
		}
	}
	if deleted {
		delete(n.docs, k)
		return kvResp{cas: n.nextCas()}
	}
	if req.HasExpiry && !req.PreserveExpiry {
		nd.Expiry = n.absExpiry(req.Expiry)
	}
	nd.Cas = n.nextCas()
	n.docs[k] = nd
	return kvResp{cas: nd.Cas}
}

func mutateOne(d *Doc, op SubdocOp, deleted *bool) memd.StatusCode {
	xattr := op.Flags&memd.SubdocFlagXattrPath != 0
	mkdirp := op.Flags&memd.SubdocFlagMkDirP != 0
	switch op.Op {
	case memd.SubDocOpSetDoc, memd.SubDocOpAddDoc:
		d.Value = append([]byte(nil), op.Value...)
		d.Datatype = 0
		if json.Valid(op.Value) {
			d.Datatype = uint8(memd.DatatypeFlagJSON)
		}
		return memd.StatusSuccess
	case memd.SubDocOpDeleteDoc:
		*deleted = true
		return memd.StatusSuccess
	case memd.SubDocOpDictSet, memd.SubDocOpDictAdd, memd.SubDocOpReplace, memd.SubDocOpDelete:
	default:
		return memd.StatusNotSupported
	}
	if op.Path == "" {
		return memd.StatusSubDocPathInvalid
	}
	if op.Op != memd.SubDocOpDelete && !json.Valid(op.Value) {
		return memd.StatusSubDocCantInsert
	}
	root := d.Value
	if xattr {
		if strings.HasPrefix(op.Path, "$") {
			return memd.StatusSubDocXattrCannotModifyVAttr
		}
		root = marshalObj(d.Xattrs)
	}
	mode := map[memd.SubDocOpType]setMode{
		memd.SubDocOpDictSet: modeUpsert, memd.SubDocOpDictAdd: modeAdd,
		memd.SubDocOpReplace: modeReplace, memd.SubDocOpDelete: modeDelete,
	}[op.Op]
	out, status := jsonSet(root, splitPath(op.Path), op.Value, mode, mkdirp)
	if status != memd.StatusSuccess {
		return status
	}
	if xattr {
		m := map[string]json.RawMessage{}
		if err := json.Unmarshal(out, &m); err != nil {
			return memd.StatusInternalError
		}
		d.Xattrs = m
	} else {
		d.Value = out
	}
	return memd.StatusSuccess
}

// splitPath splits a sub-document path at dots; a component may be quoted with backticks to
// contain dots. Array indexes are not supported (they are treated as part of the name).
func splitPath(p string) []string {
	var parts []string
	var cur strings.Builder
	quoted := false
	for i := 0; i < len(p); i++ {
		switch ch := p[i]; {
		case ch == '`':
			quoted = !quoted
		case ch == '.' && !quoted:
			parts = append(parts, cur.String())
			cur.Reset()
		default:
			cur.WriteByte(ch)
		}
	}
	return append(parts, cur.String())
}

func jsonGet(root []byte, path string) ([]byte, memd.StatusCode) {
	if path == "" {
		return root, memd.StatusSuccess
	}
	cur := root
	for _, part := range splitPath(path) {
		var obj map[string]json.RawMessage
		if err := json.Unmarshal(cur, &obj); err != nil {
			if json.Valid(cur) && len(cur) > 0 {
				return nil, memd.StatusSubDocPathMismatch
			}
			return nil, memd.StatusSubDocNotJSON
		}
		next, ok := obj[part]
		if !ok {
			return nil, memd.StatusSubDocPathNotFound
		}
		cur = next
	}
	return cur, memd.StatusSuccess
}

type setMode int

const (
	modeUpsert setMode = iota
	modeAdd
	modeReplace
	modeDelete
)

// jsonSet applies one dictionary operation at parts below root and returns the new root.
func jsonSet(root []byte, parts []string, value []byte, mode setMode, mkParents bool) ([]byte, memd.StatusCode) {
	var obj map[string]json.RawMessage
	if err := json.Unmarshal(root, &obj); err != nil || obj == nil {
		if len(root) > 0 && json.Valid(root) {
			return nil, memd.StatusSubDocPathMismatch
		}
		return nil, memd.StatusSubDocNotJSON
	}
	name := parts[0]
	cur, exists := obj[name]
	if len(parts) == 1 {
		switch mode {
		case modeAdd:
			if exists {
				return nil, memd.StatusSubDocPathExists
			}
		case modeReplace, modeDelete:
			if !exists {
				return nil, memd.StatusSubDocPathNotFound
			}
		}
		if mode == modeDelete {
			delete(obj, name)
		} else {
			obj[name] = append(json.RawMessage(nil), value...)
		}
	} else {
		if !exists {
			if !mkParents || mode == modeReplace || mode == modeDelete {
				return nil, memd.StatusSubDocPathNotFound
			}
			cur = json.RawMessage("{}")
		}
		sub, status := jsonSet(cur, parts[1:], value, mode, mkParents)
		if status != memd.StatusSuccess {
			return nil, status
		}
		obj[name] = sub
	}
	return marshalObj(obj), memd.StatusSuccess
}
