// Package simnode is an in-process simulated Couchbase cluster node.
//
// A Node listens on two loopback TCP ports chosen by the OS: a KV port that speaks enough of the
// memcached binary protocol (through gocbcore's own memd codec) for a real *gocbcore.Agent and a
// real *gocbcore.DCPAgent to bootstrap and work against it, and an HTTP port that plays the
// management REST side (/pools, /pools/default/buckets/<bucket>, ping).
//
// Everything the node answers is scriptable at run time:
//
//   - per request Behaviours (Prompt, ErrorStatus, Delay, Never, DropConnection), see SetBehaviour
//     and SetBehaviourFunc;
//   - DCP stream request replies (success + failover log, rollback, error, silence), see
//     ScriptStream and SetStreamHandler; accepted streams are driven through *Stream (SnapshotMarker,
//     Mutation, Deletion, Expiration, SeqNoAdvanced, system events, End);
//   - failover logs, high seqnos and OBSERVE_SEQNO answers per vbucket;
//   - the cluster config (rev, replicas, vbucket map) through BumpConfig.
//
// Every request that arrives is decoded and logged (Requests, StreamRequests, DcpControls,
// HTTPRequests). Nothing is global: several Nodes may live in one process. All methods of Node and
// Stream are safe for concurrent use.
//
// Quick start:
//
//	node, _ := simnode.New(simnode.Config{NumVBuckets: 4})
//	defer node.Close()
//	agent, _ := node.NewAgent()
//	dcpAgent, _ := node.NewDCPAgent("my-stream", true, false)
//	client := couchbase.VerifNewClient(cfg, agent, agent, dcpAgent) // build tag "verif"
package simnode

import (
	"encoding/json"
	"errors"
	"fmt"
	"net"
	"net/http"
	"strings"
	"sync"
	"time"

	"github.com/couchbase/gocbcore/v10"
	"github.com/couchbase/gocbcore/v10/memd"
)

// Config configures a Node. The zero value is usable; see the field comments for the defaults.
type Config struct {
	// BucketName is the only bucket of the node (default "simbucket"). SELECT_BUCKET of another
	// name answers KEY_ENOENT, like a real server does for a bucket that does not exist.
	BucketName string
	// BucketUUID is reported in the cluster config and the REST bucket document.
	BucketUUID string
	// NumVBuckets is the number of vbuckets (default 8). gocbcore hashes keys with CRC32 modulo
	// this number, so any positive value works.
	NumVBuckets int
	// NumReplicas (0..3) is vBucketServerMap.numReplicas and the number of replica columns in the
	// vBucketMap. Replica column r (1-based) of every vbucket is 0 (this node) when
	// r <= ReplicasOnNode and -1 (absent) otherwise. Use BumpConfig for per vbucket control.
	NumReplicas int
	// ReplicasOnNode is how many of the replica columns point at this node, see NumReplicas.
	ReplicasOnNode int
	// Version is implementationVersion of GET /pools (default "7.6.3-4200-enterprise").
	Version string
	// BucketType is bucketType of the REST bucket document (default "membase"; "ephemeral").
	BucketType string
	// StorageBackend is storageBackend of the REST bucket document (default "couchstore"; "magma").
	StorageBackend string
	// Collections maps "scope.collection" to a collection id for GET_COLLECTION_ID.
	// "_default._default" => 0 is always present. Unknown paths answer StatusCollectionUnknown.
	Collections map[string]uint32
	// ManifestUID is the manifest id returned by GET_COLLECTION_ID.
	ManifestUID uint64
	// CccpPollPeriod is the config poll period the NewAgent/NewDCPAgent helpers give to gocbcore
	// (default 50ms). A config changed with BumpConfig is seen by agents within about one period.
	CccpPollPeriod time.Duration
	// ConnectTimeout bounds NewAgent/NewDCPAgent (default 5s).
	ConnectTimeout time.Duration
	// LogConfigPolls makes GET_CLUSTER_CONFIG requests appear in Requests(). They are left out by
	// default because agents poll every CccpPollPeriod; ConfigPolls() always counts them.
	LogConfigPolls bool
	// NoStreamEndOnClose suppresses the STREAM_END(closed) event a real server pushes after a
	// successful CLOSE_STREAM when the client enabled send_stream_end_on_client_close_stream
	// (gocbcore always asks for it and only forgets the stream when that event arrives).
	NoStreamEndOnClose bool
}

// ClusterConfig is the mutable part of the terse bucket config served over CCCP
// (GET_CLUSTER_CONFIG). It is handed to the BumpConfig mutator.
type ClusterConfig struct {
	// Rev and RevEpoch are the config revision. BumpConfig increments Rev after the mutator ran.
	Rev, RevEpoch int64
	// NumReplicas is vBucketServerMap.numReplicas.
	NumReplicas int
	// VBucketMap has one row per vbucket: [active, replica1, replica2, ...]. Entries are server
	// indexes: 0 is this node, -1 means "no node". gocbcore's ConfigSnapshot.VbucketToServer
	// (vb, replicaIdx) returns row[replicaIdx], and ErrInvalidReplica when the row is too short.
	VBucketMap [][]int
	// BucketCapabilities is the bucketCapabilities list.
	BucketCapabilities []string
}

func (c *ClusterConfig) clone() *ClusterConfig {
	out := *c
	out.VBucketMap = make([][]int, len(c.VBucketMap))
	for i, row := range c.VBucketMap {
		out.VBucketMap[i] = append([]int(nil), row...)
	}
	out.BucketCapabilities = append([]string(nil), c.BucketCapabilities...)
	return &out
}

// HTTPRequest is one request seen by the management (REST) side.
type HTTPRequest struct {
	Method, Path  string
	Authorization string
	Time          time.Time
}

// ObserveState is the answer to OBSERVE_SEQNO for one vbucket. With DidFailover set the "hard
// failover" response format is used and OldVbUUID/LastSeqNo are included.
type ObserveState struct {
	VbUUID       uint64
	PersistSeqNo uint64
	CurrentSeqNo uint64
	DidFailover  bool
	OldVbUUID    uint64
	LastSeqNo    uint64
}

// Node is one simulated cluster node. Create it with New and release it with Close.
type Node struct {
	cfg Config

	kvLn   net.Listener
	httpLn net.Listener
	httpSv *http.Server
	kvPort int
	htPort int

	done chan struct{}
	wg   sync.WaitGroup

	mu          sync.Mutex
	closed      bool
	conns       map[int]*conn
	nextConn    int
	cluster     *ClusterConfig
	collections map[string]uint32
	version     string
	bucketType  string
	storage     string
	httpHook    func(w http.ResponseWriter, r *http.Request) bool
	httpLog     []HTTPRequest
	configPolls int
	cfgChanged  chan struct{}

	// request log and behaviours (conn.go)
	reqSeq     int
	reqLog     []Request
	controls   []DcpControl
	behaviours map[memd.CmdCode]*Behaviour
	behaviourF func(req *Request) *Behaviour

	// document store (kv.go)
	docs    map[docKey]*Doc
	clock   int64
	casBase uint64

	// dcp state (dcp.go)
	streamLog    []*StreamRequest
	streamSeq    int
	streamScript map[uint16][]StreamReply
	streamFn     func(req *StreamRequest) *StreamReply
	streams      map[uint16]*Stream
	failover     map[uint16][]gocbcore.FailoverEntry
	seqnos       map[uint16]uint64
	seqnosFn     func(req *Request) map[uint16]uint64
	observe      map[uint16]ObserveState
	observeFn    func(vb uint16, reqVbUUID uint64, nth int) ObserveState
	observeCount map[uint16]int
	streamCond   *sync.Cond
}

// New starts a node: both listeners are bound to 127.0.0.1 on OS chosen ports and serving when New
// returns.
func New(cfg Config) (*Node, error) {
	if cfg.BucketName == "" {
		cfg.BucketName = "simbucket"
	}
	if cfg.BucketUUID == "" {
		cfg.BucketUUID = "5f1e0d7c2b3a49586776859403121a0b"
	}
	if cfg.NumVBuckets <= 0 {
		cfg.NumVBuckets = 8
	}
	if cfg.NumReplicas < 0 || cfg.NumReplicas > 3 {
		return nil, fmt.Errorf("simnode: NumReplicas %d out of range 0..3", cfg.NumReplicas)
	}
	if cfg.ReplicasOnNode < 0 || cfg.ReplicasOnNode > cfg.NumReplicas {
		return nil, fmt.Errorf("simnode: ReplicasOnNode %d out of range 0..NumReplicas", cfg.ReplicasOnNode)
	}
	if cfg.Version == "" {
		cfg.Version = "7.6.3-4200-enterprise"
	}
	if cfg.BucketType == "" {
		cfg.BucketType = "membase"
	}
	if cfg.StorageBackend == "" {
		cfg.StorageBackend = "couchstore"
	}
	if cfg.CccpPollPeriod <= 0 {
		cfg.CccpPollPeriod = 50 * time.Millisecond
	}
	if cfg.ConnectTimeout <= 0 {
		cfg.ConnectTimeout = 5 * time.Second
	}

	n := &Node{
		cfg:          cfg,
		done:         make(chan struct{}),
		cfgChanged:   make(chan struct{}),
		conns:        map[int]*conn{},
		collections:  map[string]uint32{"_default._default": 0},
		version:      cfg.Version,
		bucketType:   cfg.BucketType,
		storage:      cfg.StorageBackend,
		behaviours:   map[memd.CmdCode]*Behaviour{},
		docs:         map[docKey]*Doc{},
		clock:        time.Now().Unix(),
		casBase:      uint64(time.Now().UnixNano()),
		streamScript: map[uint16][]StreamReply{},
		streams:      map[uint16]*Stream{},
		failover:     map[uint16][]gocbcore.FailoverEntry{},
		seqnos:       map[uint16]uint64{},
		observe:      map[uint16]ObserveState{},
		observeCount: map[uint16]int{},
	}
	n.streamCond = sync.NewCond(&n.mu)
	for path, id := range cfg.Collections {
		n.collections[path] = id
	}

	cc := &ClusterConfig{
		Rev: 1, RevEpoch: 1, NumReplicas: cfg.NumReplicas,
		BucketCapabilities: []string{
			"collections", "durableWrite", "tombstonedUserXAttrs", "couchapi", "subdoc.ReplaceBodyWithXattr",
			"subdoc.DocumentMacroSupport", "dcp", "cbhello", "touch", "cccp", "xdcrCheckpointing", "nodesExt", "xattr",
		},
	}
	for vb := 0; vb < cfg.NumVBuckets; vb++ {
		row := []int{0}
		for r := 1; r <= cfg.NumReplicas; r++ {
			if r <= cfg.ReplicasOnNode {
				row = append(row, 0)
			} else {
				row = append(row, -1)
			}
		}
		cc.VBucketMap = append(cc.VBucketMap, row)
	}
	n.cluster = cc

	var err error
	if n.kvLn, err = net.Listen("tcp", "127.0.0.1:0"); err != nil {
		return nil, err
	}
	if n.httpLn, err = net.Listen("tcp", "127.0.0.1:0"); err != nil {
		_ = n.kvLn.Close()
		return nil, err
	}
	n.kvPort = n.kvLn.Addr().(*net.TCPAddr).Port
	n.htPort = n.httpLn.Addr().(*net.TCPAddr).Port

	n.httpSv = &http.Server{Handler: http.HandlerFunc(n.serveHTTP), ReadHeaderTimeout: 5 * time.Second}
	n.wg.Add(2)
	go func() {
		defer n.wg.Done()
		_ = n.httpSv.Serve(n.httpLn)
	}()
	go func() {
		defer n.wg.Done()
		n.acceptLoop()
	}()
	return n, nil
}

// Close stops both listeners, drops every connection and waits for the node's goroutines
// (including pending Delay behaviours) to end. It is idempotent. Close agents created through the
// helpers before or after it; they just see a dead server.
func (n *Node) Close() {
	n.mu.Lock()
	if n.closed {
		n.mu.Unlock()
		return
	}
	n.closed = true
	close(n.done)
	conns := make([]*conn, 0, len(n.conns))
	for _, c := range n.conns {
		conns = append(conns, c)
	}
	n.streamCond.Broadcast()
	n.mu.Unlock()

	_ = n.kvLn.Close()
	_ = n.httpSv.Close()
	for _, c := range conns {
		c.close()
	}
	n.wg.Wait()
}

// KVAddr is the "127.0.0.1:port" address of the memcached side (use it as a gocbcore MemdAddrs seed).
func (n *Node) KVAddr() string { return fmt.Sprintf("127.0.0.1:%d", n.kvPort) }

// HTTPAddr is the "127.0.0.1:port" address of the management side.
func (n *Node) HTTPAddr() string { return fmt.Sprintf("127.0.0.1:%d", n.htPort) }

// MgmtURL is "http://" + HTTPAddr(), the endpoint gocbcore's Ping reports for MgmtService.
func (n *Node) MgmtURL() string { return "http://" + n.HTTPAddr() }

// BucketName returns the configured bucket name.
func (n *Node) BucketName() string { return n.cfg.BucketName }

// NumVBuckets returns the configured number of vbuckets.
func (n *Node) NumVBuckets() int { return n.cfg.NumVBuckets }

// BumpConfig applies mutator (may be nil) to a copy of the current cluster config, increments Rev
// and installs the result. Nothing is pushed on KV connections: agents pick the new config up with
// their next GET_CLUSTER_CONFIG poll (every Config.CccpPollPeriod for helper-made agents). Only
// agents seeded with HTTP addresses, which hold a streaming GET /pools/default/bs/<bucket> open,
// get the new block at once, as with a real server. It returns the
// installed config. WaitAgentRev / WaitDCPAgentRev tell when an agent has applied it.
func (n *Node) BumpConfig(mutator func(c *ClusterConfig)) ClusterConfig {
	n.mu.Lock()
	defer n.mu.Unlock()
	cc := n.cluster.clone()
	if mutator != nil {
		mutator(cc)
	}
	cc.Rev++
	n.cluster = cc
	close(n.cfgChanged)
	n.cfgChanged = make(chan struct{})
	return *cc.clone()
}

// ClusterConfig returns a copy of the cluster config currently served.
func (n *Node) ClusterConfig() ClusterConfig {
	n.mu.Lock()
	defer n.mu.Unlock()
	return *n.cluster.clone()
}

// ConfigPolls is the number of GET_CLUSTER_CONFIG requests answered so far.
func (n *Node) ConfigPolls() int {
	n.mu.Lock()
	defer n.mu.Unlock()
	return n.configPolls
}

// SetCollection adds or replaces a "scope.collection" => id entry of the manifest used by
// GET_COLLECTION_ID.
func (n *Node) SetCollection(scope, collection string, id uint32) {
	n.mu.Lock()
	defer n.mu.Unlock()
	n.collections[scope+"."+collection] = id
}

// SetVersion changes implementationVersion of GET /pools.
func (n *Node) SetVersion(v string) {
	n.mu.Lock()
	defer n.mu.Unlock()
	n.version = v
}

// SetBucketInfo changes bucketType ("membase", "ephemeral") and storageBackend ("couchstore",
// "magma") of GET /pools/default/buckets/<bucket>.
func (n *Node) SetBucketInfo(bucketType, storageBackend string) {
	n.mu.Lock()
	defer n.mu.Unlock()
	n.bucketType, n.storage = bucketType, storageBackend
}

// SetHTTPHook installs a function consulted first for every HTTP request; when it returns true it
// has written the response itself. nil removes it.
func (n *Node) SetHTTPHook(h func(w http.ResponseWriter, r *http.Request) bool) {
	n.mu.Lock()
	defer n.mu.Unlock()
	n.httpHook = h
}

// HTTPRequests returns the requests seen so far by the management side.
func (n *Node) HTTPRequests() []HTTPRequest {
	n.mu.Lock()
	defer n.mu.Unlock()
	return append([]HTTPRequest(nil), n.httpLog...)
}

func (n *Node) serveHTTP(w http.ResponseWriter, r *http.Request) {
	n.mu.Lock()
	n.httpLog = append(n.httpLog, HTTPRequest{
		Method: r.Method, Path: r.URL.Path, Authorization: r.Header.Get("Authorization"), Time: time.Now(),
	})
	hook := n.httpHook
	version, bucketType, storage := n.version, n.bucketType, n.storage
	n.mu.Unlock()

	if hook != nil && hook(w, r) {
		return
	}

	w.Header().Set("Content-Type", "application/json")
	path := strings.TrimSuffix(r.URL.Path, "/")
	switch {
	case path == "/pools":
		_ = json.NewEncoder(w).Encode(map[string]interface{}{
			"implementationVersion": version,
			"isEnterprise":          true,
			"pools":                 []map[string]string{{"name": "default", "uri": "/pools/default"}},
		})
	case strings.HasPrefix(path, "/pools/default/buckets/"):
		name := strings.TrimPrefix(path, "/pools/default/buckets/")
		if name != n.cfg.BucketName {
			w.WriteHeader(http.StatusNotFound)
			_, _ = w.Write([]byte(`"Requested resource not found."`))
			return
		}
		_ = json.NewEncoder(w).Encode(map[string]interface{}{
			"name": n.cfg.BucketName, "uuid": n.cfg.BucketUUID, "bucketType": bucketType,
			"storageBackend": storage, "nodeLocator": "vbucket",
		})
	case path == "/pools/default/b/"+n.cfg.BucketName:
		_, _ = w.Write(n.configJSON())
	case path == "/pools/default/bs/"+n.cfg.BucketName:
		// Streaming terse config, for agents seeded with HTTP addresses: one block now and one
		// after every BumpConfig, until the client or the node goes away.
		fl, _ := w.(http.Flusher)
		for {
			n.mu.Lock()
			changed := n.cfgChanged
			n.mu.Unlock()
			if _, err := w.Write(append(n.configJSON(), "\n\n\n\n"...)); err != nil {
				return
			}
			if fl != nil {
				fl.Flush()
			}
			select {
			case <-changed:
			case <-n.done:
				return
			case <-r.Context().Done():
				return
			}
		}
	default:
		_, _ = w.Write([]byte("{}"))
	}
}

// configJSON renders the terse bucket config.
func (n *Node) configJSON() []byte {
	n.mu.Lock()
	cc := n.cluster.clone()
	n.mu.Unlock()

	type nodeExt struct {
		Services map[string]int `json:"services"`
		Hostname string         `json:"hostname"`
		ThisNode bool           `json:"thisNode"`
	}
	type node struct {
		CouchAPIBase string         `json:"couchApiBase"`
		Hostname     string         `json:"hostname"`
		Ports        map[string]int `json:"ports"`
		Status       string         `json:"status"`
		Version      string         `json:"version"`
	}
	type vbMap struct {
		HashAlgorithm string   `json:"hashAlgorithm"`
		NumReplicas   int      `json:"numReplicas"`
		ServerList    []string `json:"serverList"`
		VBucketMap    [][]int  `json:"vBucketMap"`
	}
	out := struct {
		Rev                    int64               `json:"rev"`
		RevEpoch               int64               `json:"revEpoch"`
		Name                   string              `json:"name"`
		UUID                   string              `json:"uuid"`
		NodeLocator            string              `json:"nodeLocator"`
		BucketCapabilitiesVer  string              `json:"bucketCapabilitiesVer"`
		BucketCapabilities     []string            `json:"bucketCapabilities"`
		Nodes                  []node              `json:"nodes"`
		NodesExt               []nodeExt           `json:"nodesExt"`
		VBucketServerMap       vbMap               `json:"vBucketServerMap"`
		ClusterCapabilitiesVer []int               `json:"clusterCapabilitiesVer"`
		ClusterCapabilities    map[string][]string `json:"clusterCapabilities"`
	}{
		Rev: cc.Rev, RevEpoch: cc.RevEpoch, Name: n.cfg.BucketName, UUID: n.cfg.BucketUUID,
		NodeLocator: "vbucket", BucketCapabilities: cc.BucketCapabilities,
		Nodes: []node{{
			Hostname: n.HTTPAddr(), Ports: map[string]int{"direct": n.kvPort}, Status: "healthy", Version: n.cfg.Version,
		}},
		NodesExt: []nodeExt{{
			Services: map[string]int{"kv": n.kvPort, "mgmt": n.htPort}, Hostname: "127.0.0.1", ThisNode: true,
		}},
		VBucketServerMap: vbMap{
			HashAlgorithm: "CRC", NumReplicas: cc.NumReplicas,
			ServerList: []string{n.KVAddr()}, VBucketMap: cc.VBucketMap,
		},
		ClusterCapabilitiesVer: []int{1, 0},
		ClusterCapabilities:    map[string][]string{},
	}
	b, err := json.Marshal(out)
	if err != nil {
		panic(err) // cannot happen: plain data
	}
	return b
}

func (n *Node) acceptLoop() {
	for {
		nc, err := n.kvLn.Accept()
		if err != nil {
			return
		}
		n.mu.Lock()
		if n.closed {
			n.mu.Unlock()
			_ = nc.Close()
			return
		}
		n.nextConn++
		c := newConn(n, n.nextConn, nc)
		n.conns[c.id] = c
		n.wg.Add(1)
		n.mu.Unlock()
		go func() {
			defer n.wg.Done()
			c.readLoop()
		}()
	}
}

// Connections returns the ids of the KV connections currently open (DCP connections included).
func (n *Node) Connections() []int {
	n.mu.Lock()
	defer n.mu.Unlock()
	ids := make([]int, 0, len(n.conns))
	for id := range n.conns {
		ids = append(ids, id)
	}
	return ids
}

// DropConnections closes every open KV connection (agents reconnect on their own).
func (n *Node) DropConnections() {
	n.mu.Lock()
	conns := make([]*conn, 0, len(n.conns))
	for _, c := range n.conns {
		conns = append(conns, c)
	}
	n.mu.Unlock()
	for _, c := range conns {
		c.close()
	}
}

// ErrClosed is returned by operations attempted on a closed node, connection or stream.
var ErrClosed = errors.New("simnode: closed")
