// Package gal prints Gallina terms: numerals, lists, tuples, constructor applications.
// It is the only place where the harness produces Coq syntax.
package gal

import (
	"fmt"
	"strconv"
	"strings"
)

// Term is an already-rendered Gallina term.
type Term string

func N(v uint64) Term { return Term(strconv.FormatUint(v, 10) + "%N") }
func Nat(v int) Term  { return Term(strconv.Itoa(v) + "%nat") }
func Z(v int64) Term  { return Term("(" + strconv.FormatInt(v, 10) + ")%Z") }
func Bool(b bool) Term {
	if b {
		return "true"
	}
	return "false"
}
func Raw(s string) Term { return Term(s) }

func List(ts []Term) Term {
	ss := make([]string, len(ts))
	for i, t := range ts {
		ss[i] = string(t)
	}
	return Term("[" + strings.Join(ss, "; ") + "]")
}

func Tuple(ts ...Term) Term {
	ss := make([]string, len(ts))
	for i, t := range ts {
		ss[i] = string(t)
	}
	return Term("(" + strings.Join(ss, ", ") + ")")
}

// App renders (C a b c); with no arguments just C.
func App(c string, ts ...Term) Term {
	if len(ts) == 0 {
		return Term(c)
	}
	ss := make([]string, len(ts))
	for i, t := range ts {
		ss[i] = string(t)
	}
	return Term("(" + c + " " + strings.Join(ss, " ") + ")")
}

func Some(t Term) Term { return App("Some", t) }
func None() Term       { return "None" }

// Bytes renders a byte string as a list of N.
func Bytes(b []byte) Term {
	ts := make([]Term, len(b))
	for i, c := range b {
		ts[i] = Term(strconv.Itoa(int(c)) + "%N")
	}
	return List(ts)
}

func NList(vs []uint64) Term {
	ts := make([]Term, len(vs))
	for i, v := range vs {
		ts[i] = N(v)
	}
	return List(ts)
}

// CasesFile renders a complete cases file: imports, the case list with ids, and the evaluation.
// checker is a Gallina function of type (caseType -> bool).
func CasesFile(imports []string, caseType string, checker string, cases []Term) string {
	var sb strings.Builder
	sb.WriteString("From Verif Require Import Base.Prelude.\n")
	for _, im := range imports {
		sb.WriteString("From Verif Require Import " + im + ".\n")
	}
	sb.WriteString("Definition cases : list (nat * (" + caseType + ")) := [\n")
	for i, c := range cases {
		sep := ";"
		if i == len(cases)-1 {
			sep = ""
		}
		fmt.Fprintf(&sb, " (%d%%nat, %s)%s\n", i, c, sep)
	}
	sb.WriteString("].\n")
	sb.WriteString("Definition M := Eval vm_compute in bad_ids " + checker + " cases.\nPrint M.\n")
	return sb.String()
}
