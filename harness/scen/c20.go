package scen

import (
	"context"
	"encoding/json"
	"errors"
	"fmt"
	"runtime"
	"sync"
	"time"

	"github.com/couchbase/gocbcore/v10"
	"github.com/couchbase/gocbcore/v10/memd"

	"github.com/Trendyol/go-dcp/config"
	"github.com/Trendyol/go-dcp/couchbase"
	"github.com/Trendyol/go-dcp/models"

	"verifharness/gal"
	"verifharness/simnode"
)

func init() { Registry["C20"] = runC20 }

// wire holds a simulated node with real agents and the library's real client around them.
type wire struct {
	Node   *simnode.Node
	Agent  *gocbcore.Agent
	Dcp    *gocbcore.DCPAgent
	Client couchbase.Client
	Cfg    *config.Dcp
}

// newWire starts a simulated node and connects real agents to it. On a machine that gives the process little time the
// bootstrap of an agent can exceed its deadline: that is not a finding about the library, the set-up is tried three times.
func newWire(cfg *config.Dcp, nc simnode.Config) (w *wire, err error) {
	for attempt := 0; attempt < 3; attempt++ {
		if w, err = newWireOnce(cfg, nc); err == nil {
			return w, nil
		}
		time.Sleep(200 * time.Millisecond)
	}
	return nil, err
}

func newWireOnce(cfg *config.Dcp, nc simnode.Config) (*wire, error) {
	if nc.BucketName == "" {
		nc.BucketName = "b"
	}
	n, err := simnode.New(nc)
	if err != nil {
		return nil, err
	}
	a, err := n.NewAgent()
	if err != nil {
		n.Close()
		return nil, err
	}
	d, err := n.NewDCPAgent("verif", true, false)
	if err != nil {
		_ = a.Close()
		n.Close()
		return nil, err
	}
	return &wire{Node: n, Agent: a, Dcp: d, Cfg: cfg, Client: couchbase.VerifNewClient(cfg, a, a, d)}, nil
}
func (w *wire) Close() {
	_ = w.Dcp.Close()
	_ = w.Agent.Close()
	w.Node.Close()
}

type nopObserver struct{ couchbase.Observer }

type c20Call struct {
	name     string
	opcode   memd.CmdCode
	deadline time.Duration // the wrapper's own deadline under test
	run      func(w *wire, ctx context.Context) error
	prepare  func(w *wire)
	okIsErr  bool // the prompt default answer is itself an error status (e.g. key not found)
	bg       bool // called with context.Background(), as the library itself calls it: only the wrapper's own deadline ends the call
}

func runC20(c *Ctx) {
	c.Res.Rule = "every Couchbase call wrapper of the library, through real gocbcore agents, against the simulated node with the server " +
		"behaviour scripted per request: prompt success, error status, reply delayed to before / after the deadline, no reply, connection drop; " +
		"plus the AsyncOp contract alone under both arrival orders. Observed: success / server error / deadline error, time of return against the " +
		"deadline, goroutines left behind. Distinct = (wrapper, behaviour); non-trivial = a behaviour other than the prompt success"
	const dl = 250 * time.Millisecond
	cfg := &config.Dcp{}
	cfg.HealthCheck.Timeout = dl
	cfg.Checkpoint.Timeout = dl
	cfg.Dcp.Group.Name = "g"
	cfg.ScopeName, cfg.CollectionNames = "_default", []string{"_default"}
	key := []byte("doc1")
	calls := []c20Call{
		{name: "CreateDocument", opcode: memd.CmdSet, deadline: dl, run: func(w *wire, ctx context.Context) error {
			return couchbase.CreateDocument(ctx, w.Agent, "_default", "_default", key, []byte(`{"a":1}`), 0, 0)
		}},
		{name: "UpdateDocument", opcode: memd.CmdSubDocMultiMutation, deadline: dl, run: func(w *wire, ctx context.Context) error {
			return couchbase.UpdateDocument(ctx, w.Agent, "_default", "_default", key, []byte(`{"a":2}`), 0, nil)
		}},
		{name: "UpsertXattrs", opcode: memd.CmdSubDocMultiMutation, deadline: dl, run: func(w *wire, ctx context.Context) error {
			return couchbase.UpsertXattrs(ctx, w.Agent, "_default", "_default", key, "cbgo", []byte(`{"x":1}`), 0)
		}},
		{name: "CreatePath", opcode: memd.CmdSubDocMultiMutation, deadline: dl, run: func(w *wire, ctx context.Context) error {
			return couchbase.CreatePath(ctx, w.Agent, "_default", "_default", []byte("idx"), []byte("p"), []byte(`1`), memd.SubdocDocFlagMkDoc)
		}},
		{name: "GetXattrs", opcode: memd.CmdSubDocMultiLookup, deadline: dl, run: func(w *wire, ctx context.Context) error {
			_, err := couchbase.GetXattrs(ctx, w.Agent, "_default", "_default", key, "cbgo")
			return err
		}, prepare: func(w *wire) {
			w.Node.PutDoc(0, string(key), simnode.Doc{Value: []byte(`{}`), Xattrs: map[string]json_raw{"cbgo": json_raw(`{"x":1}`)}})
		}},
		{name: "Get", opcode: memd.CmdGet, deadline: dl, run: func(w *wire, ctx context.Context) error {
			_, err := couchbase.Get(ctx, w.Agent, "_default", "_default", key)
			return err
		}},
		{name: "DeleteDocument", opcode: memd.CmdDelete, deadline: dl, run: func(w *wire, ctx context.Context) error {
			return couchbase.DeleteDocument(ctx, w.Agent, "_default", "_default", key)
		}},
		{name: "Ping", opcode: memd.CmdNoop, deadline: dl, run: func(w *wire, _ context.Context) error {
			_, err := w.Client.Ping()
			return err
		}},
	}
	long := []c20Call{ // hard-coded 60 s deadlines: prompt / error behaviours always, silence only in the thorough tier
		{name: "GetFailOverLogs", opcode: memd.CmdDcpGetFailoverLog, deadline: 60 * time.Second, run: func(w *wire, _ context.Context) error {
			_, err := w.Client.GetFailOverLogs(1)
			return err
		}},
		{name: "GetVBucketSeqNos", opcode: memd.CmdGetAllVBSeqnos, deadline: 60 * time.Second, run: func(w *wire, _ context.Context) error {
			m, err := w.Client.GetVBucketSeqNos(false)
			if err == nil && m.Count() == 0 {
				return errInvented
			}
			return err
		}, prepare: func(w *wire) { w.Node.SetVbSeqNo(1, 42) }},
		{name: "OpenStream", opcode: memd.CmdDcpStreamReq, deadline: 60 * time.Second, run: func(w *wire, _ context.Context) error {
			return w.Client.OpenStream(2, nil, &models.Offset{SnapshotMarker: &models.SnapshotMarker{}, LatestSeqNo: ^uint64(0)}, obsNop{})
		}},
		{name: "CloseStream", opcode: memd.CmdDcpCloseStream, deadline: 60 * time.Second, run: func(w *wire, _ context.Context) error {
			return w.Client.CloseStream(3)
		}, prepare: func(w *wire) {
			_ = w.Client.OpenStream(3, nil, &models.Offset{SnapshotMarker: &models.SnapshotMarker{}, LatestSeqNo: ^uint64(0)}, obsNop{})
		}},
	}
	type beh struct {
		name  string
		mk    func() *simnode.Behaviour
		ops   []string // schedule for the model
		class uint64   // 0 ok, 1 server error, 2 deadline error
	}
	behs := []beh{
		{"prompt", func() *simnode.Behaviour { return simnode.Prompt() }, []string{"Reply (Success 1)", "SelectSignal"}, 0},
		{"error-status", func() *simnode.Behaviour { return simnode.ErrorStatus(memd.StatusInternalError) }, []string{"Reply (ServerError 1)", "SelectSignal"}, 1},
		{"delay-before-deadline", func() *simnode.Behaviour { return simnode.Delay(80 * time.Millisecond) }, []string{"Reply (Success 1)", "SelectSignal"}, 0},
		{"delay-after-deadline", func() *simnode.Behaviour { return simnode.Delay(450 * time.Millisecond) }, []string{"Deadline", "SelectDeadline", "Reply (Success 1)"}, 2},
		{"never", func() *simnode.Behaviour { return simnode.Never() }, []string{"Deadline", "SelectDeadline"}, 2},
		{"drop-connection", func() *simnode.Behaviour { return simnode.DropConnection().Times(1) }, nil, 99},
		// the context ends (cancelled by the caller, no deadline for gocbcore's own timer): only Wait's ctx branch can end the call
		{"never-then-cancel", func() *simnode.Behaviour { return simnode.Never() }, []string{"Deadline", "SelectDeadline"}, 2},
	}

	var cases []gal.Term
	var reps []string
	var mu sync.Mutex
	type job struct {
		call c20Call
		b    beh
	}
	var jobs []job
	for _, cl := range calls {
		for _, b := range behs {
			if b.name == "never-then-cancel" && cl.name == "Ping" {
				continue // Ping builds its own context
			}
			jobs = append(jobs, job{cl, b})
		}
	}
	// the checkpoint load of the Couchbase backend reads the xattrs with context.Background(): the wrapper's own 5 s
	// deadline is all that ends the call when the server stays silent
	bgCall := c20Call{name: "GetXattrs(context.Background) as cbMetadata.Load calls it", opcode: memd.CmdSubDocMultiLookup, deadline: 5 * time.Second, bg: true,
		run: calls[4].run, prepare: calls[4].prepare}
	for _, b := range []beh{behs[0], behs[1], behs[4]} {
		jobs = append(jobs, job{bgCall, b})
	}
	// a composite of the wrappers: the first write of a checkpoint document (xattr upsert -> "key not found" -> create the
	// document -> xattr upsert again), all under the one deadline of cbMetadata.Save; the server goes silent on the create
	mdCfg := *cfg
	mdCfg.Metadata.Type = "couchbase"
	saveCall := c20Call{name: "cbMetadata.Save, first write of a checkpoint document", opcode: memd.CmdSet, deadline: dl,
		run: func(w *wire, _ context.Context) error {
			md := couchbase.NewCBMetadata(w.Client, &mdCfg)
			doc := models.NewEmptyCheckpointDocument("b")
			return md.Save(map[uint16]*models.CheckpointDocument{5: doc}, map[uint16]bool{5: true}, "b")
		}}
	for _, b := range []beh{behs[0], behs[1], behs[3], behs[4]} {
		jobs = append(jobs, job{saveCall, b})
	}
	for _, cl := range long {
		for _, b := range behs[:2] {
			jobs = append(jobs, job{cl, b})
		}
		if c.Thorough() {
			jobs = append(jobs, job{cl, behs[4]})
		}
	}
	// the AsyncOp contract alone, both arrival orders (exported API, fake PendingOp)
	for _, order := range []string{"resolve-first", "deadline-first", "resolve-late", "resolve-while-cancelling"} {
		ctx, cancel := context.WithTimeout(context.Background(), 60*time.Millisecond)
		op := couchbase.NewAsyncOp(ctx)
		p := &fakePending{}
		switch order {
		case "resolve-first":
			op.Resolve()
		case "resolve-while-cancelling":
			p.onCancel = func() { op.Resolve() } // gocbcore completes the op inside Cancel
		}
		errc := make(chan error, 1)
		go func() { errc <- op.Wait(p, nil) }()
		var werr error
		select {
		case werr = <-errc:
		case <-time.After(2 * time.Second):
			c.Violate("hang", "AsyncOp.Wait did not return ("+order+")", nil)
		}
		if order == "resolve-late" || order == "deadline-first" {
			lateDone := make(chan struct{})
			go func() {
				defer func() {
					if r := recover(); r != nil {
						c.Violate("late-completion-panics", fmt.Sprintf("a completion arriving after Wait returned panicked: %v (%s)", r, order), map[string]string{"order": order})
					}
					close(lateDone)
				}()
				op.Resolve()
			}()
			select {
			case <-lateDone:
			case <-time.After(time.Second):
				c.Violate("late-completion-blocks", "a completion arriving after Wait returned blocked in Resolve ("+order+")", nil)
			}
		}
		cancel()
		wantErr := order != "resolve-first"
		if (werr != nil) != wantErr {
			c.Violate("asyncop-result", fmt.Sprintf("AsyncOp.Wait returned %v in order %s", werr, order), nil)
		}
		if order != "resolve-first" && p.cancels != 1 {
			c.Violate("asyncop-cancel", fmt.Sprintf("the pending operation was cancelled %d times in order %s", p.cancels, order), nil)
		}
		c.Eval("asyncop/"+order, true)
		c.Count("asyncop")
	}
	runtime.GC()
	baseline := runtime.NumGoroutine()
	Parallel(len(jobs), 12, func(i int) {
		j := jobs[i]
		w, err := newWire(cfg, simnode.Config{NumVBuckets: 8})
		if err != nil {
			mu.Lock()
			c.Violate("harness", "could not start the simulated node: "+err.Error(), nil)
			mu.Unlock()
			return
		}
		defer w.Close()
		w.Node.PutDoc(0, string(key), simnode.Doc{Value: []byte(`{"a":0}`)})
		if j.call.prepare != nil {
			j.call.prepare(w)
		}
		before := runtime.NumGoroutine()
		w.Node.SetBehaviour(j.call.opcode, j.b.mk())
		ctx, cancel := context.WithTimeout(context.Background(), j.call.deadline)
		if j.call.bg {
			ctx, cancel = context.WithCancel(context.Background())
		}
		if j.b.name == "never-then-cancel" {
			ctx, cancel = context.WithCancel(context.Background())
			go func() { time.Sleep(j.call.deadline); cancel() }()
		}
		t0 := time.Now()
		done := make(chan error, 1)
		go func() { done <- j.call.run(w, ctx) }()
		var rerr error
		hung := false
		select {
		case rerr = <-done:
		case <-time.After(j.call.deadline + 3*time.Second):
			hung = true
		}
		el := time.Since(t0)
		cancel()
		w.Node.ClearBehaviours()
		time.Sleep(500 * time.Millisecond) // let a late reply arrive: it must neither block nor panic
		after := runtime.NumGoroutine()
		cls := uint64(0)
		var kv *gocbcore.KeyValueError
		switch {
		case rerr == nil:
			cls = 0
		case errors.Is(rerr, errInvented):
			cls = 0
		case errors.Is(rerr, context.DeadlineExceeded) || errors.Is(rerr, context.Canceled) || errors.Is(rerr, gocbcore.ErrTimeout) || errors.Is(rerr, gocbcore.ErrRequestCanceled):
			cls = 2
		case errors.As(rerr, &kv):
			cls = 1
		default:
			cls = 1
		}
		rep := map[string]interface{}{"wrapper": j.call.name, "behaviour": j.b.name, "error": fmt.Sprint(rerr), "elapsed_ms": el.Milliseconds(), "deadline_ms": j.call.deadline.Milliseconds(),
			"goroutines_before": before, "goroutines_after": after, "class": cls}
		mu.Lock()
		defer mu.Unlock()
		c.Eval(j.call.name+"/"+j.b.name, j.b.name != "prompt")
		c.Count("behaviour:" + j.b.name)
		if hung {
			c.Violate("hang", fmt.Sprintf("%s did not return within its deadline (%v) + 3s under server behaviour %q", j.call.name, j.call.deadline, j.b.name), rep)
			return
		}
		if el > j.call.deadline+1500*time.Millisecond {
			c.Violate("late-return", fmt.Sprintf("%s returned after %v, deadline %v, under %q", j.call.name, el, j.call.deadline, j.b.name), rep)
		}
		if errors.Is(rerr, errInvented) {
			c.Violate("invented-outcome", fmt.Sprintf("%s reported success with an empty result although the server answered with an error status", j.call.name), rep)
		}
		if (j.b.class == 1 || j.b.class == 2) && rerr == nil {
			c.Violate("invented-outcome", fmt.Sprintf("%s reported success although the server did not confirm the operation (%s)", j.call.name, j.b.name), rep)
		}
		if j.b.class == 0 && rerr != nil {
			c.Violate("spurious-error", fmt.Sprintf("%s returned %v although the server confirmed in time (%s)", j.call.name, rerr, j.b.name), rep)
		}
		if j.b.ops != nil {
			ts := make([]gal.Term, len(j.b.ops))
			for k, o := range j.b.ops {
				ts[k] = gal.Term("(" + o + ")")
				if o == "Deadline" || o == "SelectSignal" || o == "SelectDeadline" {
					ts[k] = gal.Term(o)
				}
			}
			bin := uint64(0)
			if cls != 0 {
				bin = 1
			}
			cases = append(cases, gal.Tuple(gal.List(ts), gal.N(bin)))
			reps = append(reps, J(rep))
		}
		if len(c.Res.Samples) < 4 {
			c.Sample(rep)
		}
	})

	// the stream request that follows a rollback is refused by the server: OpenStream must say so
	func() {
		w, err := newWire(cfg, simnode.Config{NumVBuckets: 8})
		if err != nil {
			return
		}
		defer w.Close()
		for _, second := range []string{"refused", "accepted"} {
			vb := uint16(4)
			if second == "accepted" {
				vb = 5
			}
			w.Node.SetFailoverLog(vb, gocbcore.FailoverEntry{VbUUID: 77, SeqNo: 0})
			if second == "refused" {
				w.Node.ScriptStream(vb, simnode.StreamRollbackTo(3), simnode.StreamFail(memd.StatusInternalError))
			} else {
				w.Node.ScriptStream(vb, simnode.StreamRollbackTo(3), simnode.StreamSuccess())
			}
			off := &models.Offset{SnapshotMarker: &models.SnapshotMarker{StartSeqNo: 9, EndSeqNo: 9}, VbUUID: 55, SeqNo: 9, LatestSeqNo: ^uint64(0)}
			done := make(chan error, 1)
			go func() { done <- w.Client.OpenStream(vb, nil, off, obsNop{}) }()
			var oerr error
			hung := false
			select {
			case oerr = <-done:
			case <-time.After(5 * time.Second):
				hung = true
			}
			rep := map[string]interface{}{"wrapper": "OpenStream", "behaviour": "rollback to 3, then the second request " + second, "error": fmt.Sprint(oerr)}
			c.Eval("OpenStream/rollback-then-"+second, true)
			c.Count("behaviour:rollback-then-" + second)
			switch {
			case hung:
				c.Violate("hang", "OpenStream did not return within 5 s (rollback, then the second request "+second+")", rep)
			case second == "refused" && oerr == nil:
				c.Violate("invented-outcome", "OpenStream reported success although the server refused the stream request that followed the rollback", rep)
			case second == "accepted" && oerr != nil:
				c.Violate("spurious-error", fmt.Sprintf("OpenStream returned %v although the server accepted the stream request that followed the rollback", oerr), rep)
			}
		}
	}()
	time.Sleep(1200 * time.Millisecond)
	if left := runtime.NumGoroutine() - baseline; left > 8 {
		c.Violate("goroutine-leak", fmt.Sprintf("%d goroutines were left behind after all calls had returned and all connections were closed (a completion callback stuck on a channel)", left), map[string]int{"left": left})
	}
	c.Res.Exhaustive = true
	c.Emit("wrappers", "observed outcome class of each wrapper under each server behaviour vs AsyncOp.a_run of the corresponding schedule",
		[]string{"Model.AsyncOp", "Corr.CorrC20"}, "list aop * N", "chk_wrapper", cases, reps, 200)
}

var errInvented = errors.New("success with an empty result")

type json_raw = json.RawMessage

type fakePending struct {
	cancels  int
	onCancel func()
}

func (f *fakePending) Cancel() {
	f.cancels++
	if f.onCancel != nil {
		f.onCancel()
	}
}

// obsNop is an Observer that ignores everything (the stream itself is not under test here).
type obsNop struct{}

func (obsNop) SnapshotMarker(models.DcpSnapshotMarker)             {}
func (obsNop) Mutation(gocbcore.DcpMutation)                       {}
func (obsNop) Deletion(gocbcore.DcpDeletion)                       {}
func (obsNop) Expiration(gocbcore.DcpExpiration)                   {}
func (obsNop) End(models.DcpStreamEnd, error)                      {}
func (obsNop) CreateCollection(gocbcore.DcpCollectionCreation)     {}
func (obsNop) DeleteCollection(gocbcore.DcpCollectionDeletion)     {}
func (obsNop) FlushCollection(gocbcore.DcpCollectionFlush)         {}
func (obsNop) CreateScope(gocbcore.DcpScopeCreation)               {}
func (obsNop) DeleteScope(gocbcore.DcpScopeDeletion)               {}
func (obsNop) ModifyCollection(gocbcore.DcpCollectionModification) {}
func (obsNop) OSOSnapshot(models.DcpOSOSnapshot)                   {}
func (obsNop) SeqNoAdvanced(gocbcore.DcpSeqNoAdvanced)             {}
func (obsNop) GetMetrics() *couchbase.ObserverMetric               { return &couchbase.ObserverMetric{} }
func (obsNop) GetPersistSeqNo() gocbcore.SeqNo                     { return 0 }
func (obsNop) SetPersistSeqNo(gocbcore.SeqNo)                      {}
func (obsNop) Close()                                              {}
func (obsNop) CloseEnd()                                           {}
func (obsNop) SetCatchup(gocbcore.SeqNo)                           {}
func (obsNop) SetVbUUID(gocbcore.VbUUID)                           {}
