package scen

import (
	"encoding/json"
	"fmt"
	"strings"
	"sync"
	"time"

	"github.com/couchbase/gocbcore/v10"

	"github.com/Trendyol/go-dcp/config"
	"github.com/Trendyol/go-dcp/couchbase"
	"github.com/Trendyol/go-dcp/models"
	"github.com/Trendyol/go-dcp/tracing"

	"verifharness/gal"
	"verifharness/simnode"
)

func init() { Registry["C07"] = runC07 }

type c07Row struct {
	UUID, Seq uint64
	Absent    bool
}

func rowsTerm(rs []c07Row) gal.Term {
	ts := make([]gal.Term, len(rs))
	for i, r := range rs {
		ts[i] = gal.App("Row", gal.N(r.UUID), gal.N(r.Seq), gal.Bool(r.Absent))
	}
	return gal.List(ts)
}

func realMin(rs []c07Row) uint64 {
	in := make([]couchbase.VerifReplica, len(rs))
	for i, r := range rs {
		in[i] = couchbase.VerifReplica{VbUUID: gocbcore.VbUUID(r.UUID), SeqNo: gocbcore.SeqNo(r.Seq), Absent: r.Absent}
	}
	return uint64(couchbase.VerifMinSeqNo(in))
}

func runC07(c *Ctx) {
	c.Res.Rule = "(1) the real getMinSeqNo (hook) on random replica tables (0..3 replicas, absent rows, equal / different vbUUIDs, zeros); " +
		"(2) the gate of a real observer with mitigation enabled: events arrive from a connection goroutine, reports are turned into the threshold by the " +
		"real getMinSeqNo + SetPersistSeqNo, Close() at random points; (3) the real rollbackMitigation (Start / observe loop / dispatch) with real agents " +
		"against the simulated node whose OBSERVE_SEQNO answers are scripted tick by tick. Distinct = distinct table / history; non-trivial = at least two present copies"
	rng := c.Rng
	// ---- (1) minimum
	var mc []gal.Term
	var mr []string
	randRow := func() c07Row {
		r := c07Row{UUID: []uint64{7, 7, 7, 8, 0}[rng.Intn(5)], Seq: uint64(rng.Intn(60))}
		if rng.Intn(6) == 0 {
			r.Seq = 0
		}
		if rng.Intn(5) == 0 {
			r.Absent = true
		}
		return r
	}
	for i := 0; i < c.Pick(3000, 50000); i++ {
		n := 1 + rng.Intn(4)
		rs := make([]c07Row, n)
		for k := range rs {
			rs[k] = randRow()
		}
		m := realMin(rs)
		// monitor
		present, uu, mn, mismatch := 0, uint64(0), uint64(0), false
		for _, r := range rs {
			if r.Absent {
				continue
			}
			if present == 0 {
				uu, mn = r.UUID, r.Seq
			} else {
				if r.UUID != uu {
					mismatch = true
				}
				if r.Seq < mn {
					mn = r.Seq
				}
			}
			present++
		}
		want := mn
		if present == 0 || mismatch {
			want = 0
		}
		if m != want {
			c.Violate("min-wrong", fmt.Sprintf("getMinSeqNo(%v) = %d, the minimum over present copies under one vbUUID is %d", rs, m, want), rs)
		}
		c.Eval(fmt.Sprint(rs), present >= 2)
		c.Count("min")
		mc = append(mc, gal.Tuple(rowsTerm(rs), gal.N(m)))
		mr = append(mr, J(map[string]interface{}{"kind": "min", "rows": rs, "result": m}))
	}
	im := []string{"Model.Rollback", "Corr.CorrC07"}
	c.Emit("min", "getMinSeqNo (hook VerifMinSeqNo) vs Rollback.min_seq", im, "list row * N", "chk_min", mc, mr, 600)

	// ---- (2) gate of a real observer
	var gc []gal.Term
	var gr []string
	nh := c.Pick(60, 600)
	type ghist struct {
		term gal.Term
		rep  string
	}
	res := make([]*ghist, nh)
	seeds := make([]int64, nh)
	for i := range seeds {
		seeds[i] = rng.Int63()
	}
	var vmu sync.Mutex
	Parallel(nh, 8, func(i int) {
		r := newRng(seeds[i])
		cfg := &config.Dcp{}
		cfg.RollbackMitigation.Disabled = false
		cfg.RollbackMitigation.Interval = 10 * time.Millisecond // poll every 2 ms
		var mu sync.Mutex
		var delivered []uint64
		ob := couchbase.NewObserver(cfg, 3, ^uint64(0), func(a models.ListenerArgs) {
			// every kind of event waits at the gate: documents and the events the stream absorbs itself (which move the
			// checkpoint just the same)
			var sq uint64
			switch m := a.Event.(type) {
			case models.DcpMutation:
				sq = m.SeqNo
			case models.DcpDeletion:
				sq = m.SeqNo
			case models.DcpExpiration:
				sq = m.SeqNo
			case models.DcpSeqNoAdvanced:
				sq = m.SeqNo
			case models.DcpCollectionCreation:
				sq = m.SeqNo
			default:
				return
			}
			mu.Lock()
			delivered = append(delivered, sq)
			mu.Unlock()
		}, func(models.DcpStreamEndContext) {}, map[uint32]string{}, tracing.NewTracerComponent())
		ob.SnapshotMarker(models.DcpSnapshotMarker{StartSeqNo: 0, EndSeqNo: 1 << 40, VbID: 3}) // control events pass seq 0 <= threshold 0
		n := 1 + r.Intn(4)
		rows := make([]c07Row, n)
		for k := range rows {
			rows[k] = c07Row{Absent: r.Intn(6) == 0}
		}
		init := append([]c07Row{}, rows...)
		var ops []gal.Term
		var outs []gal.Term
		var opsJ []string
		seq := uint64(0)
		waiting := false
		var waitSeq uint64
		done := make(chan struct{}, 1)
		closed := false
		takeNew := func(before int) []uint64 {
			mu.Lock()
			defer mu.Unlock()
			return append([]uint64{}, delivered[before:]...)
		}
		count := func() int { mu.Lock(); defer mu.Unlock(); return len(delivered) }
		forcePoll := false
		for step := 0; step < 6+r.Intn(14); step++ {
			before := count()
			k := r.Intn(10)
			if forcePoll {
				k, forcePoll = 9, false
			}
			switch {
			case k < 3 && !waiting: // arrive
				seq += uint64(1 + r.Intn(5))
				q := seq
				kind := r.Intn(6)
				go func() {
					switch kind {
					case 0:
						ob.Deletion(gocbcore.DcpDeletion{SeqNo: q, VbID: 3, Key: []byte("k"), Cas: 1})
					case 1:
						ob.Expiration(gocbcore.DcpExpiration{SeqNo: q, VbID: 3, Key: []byte("k"), Cas: 1})
					case 2:
						ob.SeqNoAdvanced(gocbcore.DcpSeqNoAdvanced{SeqNo: q, VbID: 3})
						// it narrows the observer's snapshot to [q, q]: the server opens the next snapshot before it goes on
						ob.SnapshotMarker(models.DcpSnapshotMarker{StartSeqNo: 0, EndSeqNo: 1 << 40, VbID: 3})
					case 3:
						ob.CreateCollection(gocbcore.DcpCollectionCreation{SeqNo: q, VbID: 3, CollectionID: 9, Key: []byte("c")})
					default:
						ob.Mutation(gocbcore.DcpMutation{SeqNo: q, VbID: 3, Key: []byte("k"), Cas: 1})
					}
					done <- struct{}{}
				}()
				var o gal.Term
				arriveWait := 80 * time.Millisecond
				if closed || uint64(ob.GetPersistSeqNo()) >= q {
					arriveWait = 2 * time.Second // it passes the gate at once: a loaded machine must not make it look as if it waited
				}
				select {
				case <-done:
					nw := takeNew(before)
					if len(nw) == 1 {
						o = gal.List([]gal.Term{gal.App("GDelivered", gal.N(q))})
					} else {
						o = gal.List([]gal.Term{gal.App("GDropped", gal.N(q))})
					}
				case <-time.After(arriveWait):
					waiting, waitSeq = true, q
					o = gal.List(nil)
				}
				ops, outs = append(ops, gal.App("GArrive", gal.N(q))), append(outs, o)
				opsJ = append(opsJ, fmt.Sprintf("arrive %d (%s)", q, []string{"deletion", "expiration", "seqno-advanced", "collection creation", "mutation", "mutation"}[kind]))
			case k < 8: // report
				idx := r.Intn(n)
				u := []uint64{7, 7, 7, 8}[r.Intn(4)]
				s := seq + uint64(r.Intn(8)) - uint64(r.Intn(int(minU(seq, 4))+1))
				// the observe callback of the library: update if outdated, dispatch the minimum (modelled by Rollback.report);
				// here the real getMinSeqNo and the real SetPersistSeqNo are glued by the harness
				if !rows[idx].Absent && (rows[idx].UUID != u || rows[idx].Seq != s) {
					rows[idx].UUID, rows[idx].Seq = u, s
					ob.SetPersistSeqNo(gocbcore.SeqNo(realMin(rows)))
				}
				ops, outs = append(ops, gal.App("GReport", gal.Nat(idx), gal.N(u), gal.N(s))), append(outs, gal.List(nil))
				opsJ = append(opsJ, fmt.Sprintf("report copy %d uuid %d seq %d", idx, u, s))
				forcePoll = waiting // let the waiting goroutine settle before anything else happens
			case k == 8 && !closed:
				ob.Close()
				closed = true
				ops, outs = append(ops, "GClose"), append(outs, gal.List(nil))
				opsJ = append(opsJ, "close")
			default: // poll: give the waiting goroutine time to re-check
				var o gal.Term = gal.List(nil)
				if waiting {
					// long where the effect is due (the threshold covers the waiting event, or the observer is closed): it ends
					// the wait when it comes; short where nothing is due
					pollWait := 80 * time.Millisecond
					if closed || uint64(ob.GetPersistSeqNo()) >= waitSeq {
						pollWait = 2 * time.Second
					}
					select {
					case <-done:
						waiting = false
						nw := takeNew(before)
						if len(nw) == 1 {
							o = gal.List([]gal.Term{gal.App("GDelivered", gal.N(waitSeq))})
						} else {
							o = gal.List([]gal.Term{gal.App("GDropped", gal.N(waitSeq))})
						}
					case <-time.After(pollWait):
					}
				}
				ops, outs = append(ops, "GPoll"), append(outs, o)
				opsJ = append(opsJ, "poll")
			}
			// monitor: whatever was delivered is covered by the table as it is now (the threshold only grows)
			if k >= 3 && k < 9 {
				continue // reports and close: the effect on a waiting event is observed by the poll that follows
			}
			for _, q := range takeNew(before) {
				thr := uint64(ob.GetPersistSeqNo())
				if q > thr {
					vmu.Lock()
					c.Violate("delivered-above-threshold", fmt.Sprintf("event seq %d reached the consumer while the stream's threshold was %d (history: %v)", q, thr, opsJ), opsJ)
					vmu.Unlock()
				}
				if closed {
					vmu.Lock()
					c.Violate("delivered-after-close", fmt.Sprintf("event seq %d was delivered by a closed observer (history: %v)", q, opsJ), opsJ)
					vmu.Unlock()
				}
			}
		}
		if waiting { // settle: a report may have covered the waiting event already
			before := count()
			select {
			case <-done:
				waiting = false
				o := gal.List([]gal.Term{gal.App("GDropped", gal.N(waitSeq))})
				if len(takeNew(before)) == 1 {
					o = gal.List([]gal.Term{gal.App("GDelivered", gal.N(waitSeq))})
				}
				ops, outs = append(ops, "GPoll"), append(outs, o)
				opsJ = append(opsJ, "poll")
			case <-time.After(80 * time.Millisecond):
				ops, outs = append(ops, "GPoll"), append(outs, gal.List(nil))
				opsJ = append(opsJ, "poll")
			}
		}
		if waiting { // release the goroutine
			ob.Close()
			select {
			case <-done:
			case <-time.After(500 * time.Millisecond):
				vmu.Lock()
				c.Violate("close-does-not-release", fmt.Sprintf("a waiting event was not released by Close() (history: %v)", opsJ), opsJ)
				vmu.Unlock()
			}
			if !closed {
				ops, outs = append(ops, "GClose", "GPoll"), append(outs, gal.List(nil), gal.List([]gal.Term{gal.App("GDropped", gal.N(waitSeq))}))
			} else {
				ops, outs = append(ops, "GPoll"), append(outs, gal.List([]gal.Term{gal.App("GDropped", gal.N(waitSeq))}))
			}
		}
		res[i] = &ghist{gal.Tuple(rowsTerm(init), gal.List(ops), gal.List(outs), gal.N(uint64(ob.GetPersistSeqNo()))),
			J(map[string]interface{}{"kind": "gate", "initial_rows": init, "ops": opsJ})}
	})
	for i, h := range res {
		gc = append(gc, h.term)
		gr = append(gr, h.rep)
		c.Eval("gate"+h.rep, true)
		c.Count("gate-history")
		if i == 0 {
			c.Sample(h.rep)
		}
	}
	c.Emit("gate", "delivery gate of a real observer vs Rollback.g_run", im, "list row * list gop * list (list gout) * N", "chk_gate", gc, gr, 100)

	// ---- (3) the real rollback mitigation against the simulated node
	var tc []gal.Term
	var tr []string
	for i := 0; i < c.Pick(4, 40); i++ {
		t, rep, err := runMitigationScript(newRng(rng.Int63()), c)
		if err != nil {
			c.Violate("harness", "rollback-mitigation script could not run: "+err.Error(), nil)
			continue
		}
		tc = append(tc, t)
		tr = append(tr, rep)
		c.Eval("ticks"+rep, true)
		c.Count("mitigation-script")
	}
	c.Emit("ticks", "dispatches of the real rollbackMitigation vs Rollback.report over the same answers", im, "list row * list (list (N * N)) * list N", "chk_ticks", tc, tr, 20)
	wc, wr := runConfigWatch(c)
	c.Emit("cfgwatch", "adoption of a changed cluster map by the real config watch vs Rollback.config_newer", im, "(Z * Z) * (Z * Z) * bool", "chk_cfgwatch", wc, wr, 50)
	// ---- (4) the whole client against the simulated node, persisted-seqno reports arriving while Open() is still loading
	// the checkpoints (the node answers those reads late) and never changing afterwards (an idle bucket): every copy has
	// reported, so every document must come through
	nw := c.Pick(4, 12)
	wres := make([]*c13WireRes, nw)
	wseed := make([]int64, nw)
	for i := range wseed {
		wseed[i] = rng.Int63()
	}
	Parallel(nw, 4, func(i int) {
		cr := RunChild("c13wire", c13WireArg{Seed: wseed[i], Mitigation: true, SlowLoad: i%2 == 0, SlowOpen: i%2 == 1}, 90*time.Second)
		for _, l := range cr.Lines {
			if strings.HasPrefix(l, "RESULT ") {
				r := &c13WireRes{}
				if json.Unmarshal([]byte(l[7:]), r) == nil {
					wres[i] = r
				}
			}
		}
	})
	for i, r := range wres {
		rep := map[string]interface{}{"how": "vh child c13wire", "arg": c13WireArg{Seed: wseed[i], Mitigation: true, SlowLoad: i%2 == 0, SlowOpen: i%2 == 1}}
		c.Eval(fmt.Sprint("whole-client", wseed[i]), true)
		c.Count("whole-client-slow-load")
		if r == nil || !r.Ready {
			c.Violate("harness", "the whole client against the simulated node did not start", rep)
			continue
		}
		rep["observed"] = r
		if r.Consumed < r.Sent {
			c.Violate("first-report-lost", fmt.Sprintf("every copy of every vBucket reported everything persisted while Open() was still loading the checkpoints / opening the streams; %d documents were sent afterwards, %d reached the consumer within 3 s: the others wait at the gate although the reported minimum covers them",
				r.Sent, r.Consumed), rep)
		}
	}

}

// runMitigationScript starts the real rollback mitigation for one vBucket with R replicas (some unassigned) and
// scripts the OBSERVE_SEQNO answers per tick; the dispatched minima are compared with the model.
func runMitigationScript(r *rngT, c *Ctx) (gal.Term, string, error) {
	replicas := r.Intn(4)
	nc := simnode.Config{NumVBuckets: 4, NumReplicas: replicas, ReplicasOnNode: replicas}
	cfg := &config.Dcp{}
	cfg.RollbackMitigation.Interval = 15 * time.Millisecond
	cfg.RollbackMitigation.ConfigWatchInterval = time.Hour
	cfg.ConnectionTimeout = 2 * time.Second
	w, err := newWire(cfg, nc)
	if err != nil {
		return "", "", err
	}
	defer w.Close()
	const vb = 1
	// unassign some replicas of the vBucket in the cluster map
	absent := make([]bool, replicas+1)
	if replicas > 0 && r.Intn(2) == 0 {
		cc := w.Node.BumpConfig(func(cl *simnode.ClusterConfig) {
			for k := 1; k <= replicas; k++ {
				if r.Intn(3) == 0 {
					cl.VBucketMap[vb][k] = -1
					absent[k] = true
				}
			}
		})
		_ = w.Node.WaitAgentRev(w.Agent, cc.Rev, 2*time.Second)
		_ = w.Node.WaitDCPAgentRev(w.Dcp, cc.Rev, 2*time.Second)
	}
	present := 0
	for _, a := range absent {
		if !a {
			present++
		}
	}
	nTicks := 4 + r.Intn(6)
	// answers[tick][k] for the k-th present copy
	answers := make([][][2]uint64, nTicks)
	cur := make([][2]uint64, present)
	for k := range cur {
		cur[k] = [2]uint64{7, uint64(r.Intn(5))}
	}
	for t := 0; t < nTicks; t++ {
		if t > 0 {
			for ch := 0; ch < 1+r.Intn(2); ch++ {
				k := r.Intn(present)
				cur[k][1] += uint64(r.Intn(6))
				if r.Intn(8) == 0 {
					cur[k][0] = 8
				}
			}
		}
		answers[t] = append([][2]uint64{}, cur...)
	}
	w.Node.SetFailoverLog(vb, gocbcore.FailoverEntry{VbUUID: 7, SeqNo: 0})
	var mu sync.Mutex
	arrivals := 0
	w.Node.SetObserveFunc(func(v uint16, reqUUID uint64, nth int) simnode.ObserveState {
		mu.Lock()
		defer mu.Unlock()
		if v != vb {
			return simnode.ObserveState{VbUUID: 7}
		}
		n := arrivals
		arrivals++
		t, k := n/present, n%present
		if t >= nTicks {
			t = nTicks - 1
		}
		a := answers[t][k]
		return simnode.ObserveState{VbUUID: a[0], PersistSeqNo: a[1], CurrentSeqNo: a[1]}
	})
	var dmu sync.Mutex
	var dispatched []uint64
	rm := couchbase.NewRollbackMitigation(w.Client, cfg, []uint16{vb}, func(p *models.PersistSeqNo) {
		dmu.Lock()
		dispatched = append(dispatched, uint64(p.SeqNo))
		dmu.Unlock()
	})
	rm.Start()
	deadline := time.Now().Add(5 * time.Second)
	for time.Now().Before(deadline) {
		mu.Lock()
		a := arrivals
		mu.Unlock()
		if a >= (nTicks+1)*present {
			break
		}
		time.Sleep(5 * time.Millisecond)
	}
	rm.Stop()
	dmu.Lock()
	obs := append([]uint64{}, dispatched...)
	dmu.Unlock()
	rows := make([]c07Row, replicas+1)
	for k := range rows {
		rows[k].Absent = absent[k]
	}
	var ticks []gal.Term
	for t := 0; t < nTicks; t++ {
		// the model walks the rows in index order; absent rows are skipped by the library: give them a dummy answer the model ignores
		var row []gal.Term
		pi := 0
		for k := 0; k <= replicas; k++ {
			if absent[k] {
				row = append(row, gal.Tuple(gal.N(0), gal.N(0)))
			} else {
				row = append(row, gal.Tuple(gal.N(answers[t][pi][0]), gal.N(answers[t][pi][1])))
				pi++
			}
		}
		ticks = append(ticks, gal.List(row))
	}
	rep := J(map[string]interface{}{"kind": "mitigation", "replicas": replicas, "absent": absent, "answers_per_tick": answers, "dispatched": obs})
	return gal.Tuple(rowsTerm(rows), gal.List(ticks), gal.NList(obs)), rep, nil
}

// runConfigWatch: the real rollback mitigation with its config watch running (20 ms) against the simulated node. The
// cluster map first lists only the active copy of vBucket 1 (both copies of vBucket 2, the reference); then the node
// installs a map that lists the replica too, under a revision (epoch', rev') that relates to the old one in every way.
// Adopted = the replica of vBucket 1 is observed afterwards (as many OBSERVE_SEQNO requests for vBucket 1 as for 2).
func runConfigWatch(c *Ctx) ([]gal.Term, []string) {
	type shape struct {
		name   string
		de, dr int64 // epoch' = epoch + de; rev' = rev + dr
	}
	shapes := []shape{{"same epoch, next revision", 0, 1}, {"same epoch, much later revision", 0, 40}, {"next epoch, revision restarted", 1, -2},
		{"next epoch, same revision", 1, 0}, {"next epoch, later revision", 1, 3}}
	var cs []gal.Term
	var rs []string
	type res struct {
		old, nw [2]int64
		adopted bool
		r1, r2  int
		err     string
	}
	out := make([]res, len(shapes))
	Parallel(len(shapes), 5, func(i int) {
		sh := shapes[i]
		nc := simnode.Config{NumVBuckets: 4, NumReplicas: 1, ReplicasOnNode: 1}
		cfg := &config.Dcp{}
		cfg.RollbackMitigation.Interval = 15 * time.Millisecond
		cfg.RollbackMitigation.ConfigWatchInterval = 20 * time.Millisecond
		cfg.ConnectionTimeout = 2 * time.Second
		w, err := newWire(cfg, nc)
		if err != nil {
			out[i].err = err.Error()
			return
		}
		defer w.Close()
		cc := w.Node.BumpConfig(func(cl *simnode.ClusterConfig) {
			cl.Rev += 5 // room for a lower revision under a later epoch
			cl.VBucketMap[1][1] = -1
		})
		_ = w.Node.WaitAgentRev(w.Agent, cc.Rev, 2*time.Second)
		_ = w.Node.WaitDCPAgentRev(w.Dcp, cc.Rev, 2*time.Second)
		out[i].old = [2]int64{cc.RevEpoch, cc.Rev}
		for _, vb := range []uint16{1, 2} {
			w.Node.SetFailoverLog(vb, gocbcore.FailoverEntry{VbUUID: 7, SeqNo: 0})
		}
		var mu sync.Mutex
		counts := map[uint16]int{}
		w.Node.SetObserveFunc(func(v uint16, _ uint64, _ int) simnode.ObserveState {
			mu.Lock()
			counts[v]++
			mu.Unlock()
			return simnode.ObserveState{VbUUID: 7, PersistSeqNo: 10, CurrentSeqNo: 10}
		})
		rm := couchbase.NewRollbackMitigation(w.Client, cfg, []uint16{1, 2}, func(*models.PersistSeqNo) {})
		rm.Start()
		defer rm.Stop()
		time.Sleep(150 * time.Millisecond)
		mu.Lock()
		b1, b2 := counts[1], counts[2]
		mu.Unlock()
		if b2 == 0 || b1*10 > b2*7 { // before the change vBucket 1 has one listed copy, vBucket 2 two
			out[i].err = fmt.Sprintf("before the new map: %d requests for vBucket 1, %d for vBucket 2", b1, b2)
			return
		}
		n2 := w.Node.BumpConfig(func(cl *simnode.ClusterConfig) {
			cl.RevEpoch += sh.de
			cl.Rev += sh.dr - 1 // BumpConfig adds one
			cl.VBucketMap[1][1] = 0
		})
		out[i].nw = [2]int64{n2.RevEpoch, n2.Rev}
		// the agents take the new map with their next poll (50 ms), the watch looks every 20 ms
		deadline := time.Now().Add(3 * time.Second)
		for time.Now().Before(deadline) {
			if s, err := w.Dcp.ConfigSnapshot(); err == nil && s.RevID() == n2.Rev {
				break
			}
			time.Sleep(10 * time.Millisecond)
		}
		// measured over windows of 200 ms until the replica is seen observed, for at most 3 s (long where the effect is due)
		for t0 := time.Now(); time.Since(t0) < 3*time.Second && !out[i].adopted; {
			mu.Lock()
			counts = map[uint16]int{}
			mu.Unlock()
			time.Sleep(200 * time.Millisecond)
			mu.Lock()
			out[i].r1, out[i].r2 = counts[1], counts[2]
			mu.Unlock()
			out[i].adopted = out[i].r2 >= 4 && out[i].r1*10 >= out[i].r2*8
		}
	})
	for i, sh := range shapes {
		o := out[i]
		rep := map[string]interface{}{"kind": "config-watch", "shape": sh.name, "old_epoch_rev": o.old, "new_epoch_rev": o.nw,
			"observe_requests_after": map[string]int{"vb1": o.r1, "vb2 (reference, two copies)": o.r2}, "adopted": o.adopted}
		c.Count("config-watch")
		if o.err != "" {
			c.Note("config watch (%s) not driven: %s", sh.name, o.err)
			continue
		}
		c.Eval("config-watch "+sh.name, true)
		if !o.adopted {
			c.Violate("newer-map-ignored", fmt.Sprintf("the cluster map changed from (epoch %d, rev %d) to (epoch %d, rev %d) and now lists the replica of vBucket 1; "+
				"3 s later that copy is still not observed (%d requests for vBucket 1, %d for vBucket 2): its persisted seqno no longer holds events back",
				o.old[0], o.old[1], o.nw[0], o.nw[1], o.r1, o.r2), rep)
		}
		cs = append(cs, gal.Tuple(gal.Tuple(gal.Z(o.old[0]), gal.Z(o.old[1])), gal.Tuple(gal.Z(o.nw[0]), gal.Z(o.nw[1])), gal.Bool(o.adopted)))
		rs = append(rs, J(rep))
	}
	return cs, rs
}
