package scen

import (
	"encoding/json"
	"errors"
	"fmt"
	"os"
	"strings"
	"time"

	"github.com/Trendyol/go-dcp/config"
	"github.com/Trendyol/go-dcp/couchbase"
	"github.com/Trendyol/go-dcp/models"

	"verifharness/fakes"
	"verifharness/gal"
)

func init() {
	Registry["C19"] = runC19
	Children["c19"] = childC19
}

type c19Arg struct {
	Ops        []string `json:"ops"` // start stop await awaitlong ok fail
	IntervalMs int      `json:"interval_ms"`
}

type c19Client struct {
	fakes.BaseClient
	arrived chan struct{}
	release chan bool
	fails   int
}

func (c *c19Client) Ping() (*models.PingResult, error) {
	c.arrived <- struct{}{}
	if <-c.release {
		return &models.PingResult{MemdEndpoint: "m", MgmtEndpoint: "g"}, nil
	}
	// the real client reports most failures together with a (partial) result: both shapes alternate
	c.fails++
	if c.fails%2 == 1 {
		return &models.PingResult{MemdEndpoint: "m"}, errors.New("scripted ping failure: some services are not healthy")
	}
	return nil, errors.New("scripted ping failure")
}

// childC19 drives the real health check through one history, one output line per op.
func childC19(raw json.RawMessage) {
	var a c19Arg
	must(json.Unmarshal(raw, &a))
	T := time.Duration(a.IntervalMs) * time.Millisecond
	cl := &c19Client{arrived: make(chan struct{}, 64), release: make(chan bool)}
	hc := couchbase.NewHealthCheck(&config.HealthCheck{Interval: T, Timeout: time.Second}, cl)
	stopRet := make(chan struct{}, 64)
	for i, op := range a.Ops {
		var outs []string
		switch op {
		case "start":
			hc.Start()
		case "stop":
			go func() { hc.Stop(); stopRet <- struct{}{} }()
			select {
			case <-stopRet:
				outs = append(outs, "StopReturned")
			case <-time.After(300 * time.Millisecond):
			}
		case "await", "awaitlong":
			w := T + 400*time.Millisecond
			if op == "awaitlong" {
				w = 1500 * time.Millisecond
			}
			select {
			case <-cl.arrived:
				outs = append(outs, "Ping")
			case <-time.After(w):
			}
		case "ok", "fail":
			select {
			case cl.release <- op == "ok":
			case <-time.After(300 * time.Millisecond): // no ping in flight: the op is not enabled
			}
			t := time.After(300 * time.Millisecond)
		loop:
			for {
				select {
				case <-stopRet:
					outs = append(outs, "StopReturned")
				case <-t:
					break loop
				}
			}
		}
		fmt.Printf("%d %s\n", i, strings.Join(outs, " "))
		os.Stdout.Sync()
	}
}

func c19OpTerm(op string) gal.Term {
	switch op {
	case "start":
		return "Start"
	case "stop":
		return "Stop"
	case "await":
		return "(Await false)"
	case "awaitlong":
		return "(Await true)"
	case "ok":
		return "(PingRes true)"
	}
	return "(PingRes false)"
}

func runC19(c *Ctx) {
	c.Res.Rule = "histories of the real health checker in child processes (one per history, a panic ends the child): all 32 " +
		"result patterns of a round; Stop() at every point of a round (during ping k, during the retry wait after failure k), with the " +
		"ping in flight then succeeding or failing; repeated Start / repeated Stop; Stop before Start; sequences of two and three rounds. " +
		"Distinct = distinct op list; non-trivial = contains at least one failed ping or a Stop"
	type hist struct {
		ops  []string
		kind string
	}
	var hs []hist
	add := func(kind string, ops ...string) { hs = append(hs, hist{ops, kind}) }
	round := func(fails int, success bool) []string {
		var r []string
		for i := 0; i < fails; i++ {
			r = append(r, "fail")
			if i < 4 {
				r = append(r, "awaitlong")
			}
		}
		if success {
			r = append(r, "ok")
		}
		return r
	}
	cat := func(parts ...[]string) []string {
		var r []string
		for _, p := range parts {
			r = append(r, p...)
		}
		return r
	}
	// all 32 patterns: a pattern is decided by its number of leading failures (0..5); every pattern is run
	for p := 0; p < 32; p++ {
		bits := make([]bool, 5)
		lf := 5
		for i := 0; i < 5; i++ {
			bits[i] = p&(1<<uint(i)) != 0 // true = failure
		}
		for i := 0; i < 5; i++ {
			if !bits[i] {
				lf = i
				break
			}
		}
		ops := cat([]string{"start", "await"}, round(lf, lf < 5))
		if lf < 5 {
			ops = append(ops, "await", "ok", "stop", "await")
		} else {
			ops = append(ops, "awaitlong")
		}
		add(fmt.Sprintf("pattern-%05b", p), ops...)
	}
	// Stop at every point of a round
	for f := 0; f <= 4; f++ {
		pre := cat([]string{"start", "await"}, round(f, false))
		add("stop-during-ping-ok", cat(pre, []string{"stop", "ok", "await", "start", "await"})...)
		add("stop-during-ping-fail", cat(pre, []string{"stop", "fail", "awaitlong", "stop"})...)
		if f >= 1 {
			// in the retry wait after failure f: drop the trailing awaitlong
			pre2 := pre[:len(pre)-1]
			add("stop-during-retry-wait", cat(pre2, []string{"stop", "awaitlong", "stop", "await"})...)
		}
	}
	add("stop-idle", "start", "stop", "await", "stop", "start", "await")
	add("start-twice", "start", "start", "await", "ok", "await", "ok", "stop", "stop", "await")
	add("two-stops-during-ping", "start", "await", "stop", "stop", "ok", "await")
	add("stop-before-start", "stop", "start", "await", "ok", "stop", "await", "ok")
	add("never-started", "await", "stop", "await")
	// sequences of rounds
	add("rounds-2", cat([]string{"start", "await"}, round(2, true), []string{"await"}, round(3, true), []string{"await", "ok", "stop", "await"})...)
	add("rounds-3", cat([]string{"start", "await"}, round(1, true), []string{"await"}, round(4, true), []string{"await"}, round(0, true), []string{"stop", "await"})...)
	add("rounds-4+5", cat([]string{"start", "await"}, round(4, true), []string{"await"}, round(5, false), []string{"awaitlong"})...)
	if c.Thorough() {
		for i := 0; i < 40; i++ {
			ops := []string{"start", "await"}
			nr := 2 + c.Rng.Intn(3)
			for r := 0; r < nr; r++ {
				f := c.Rng.Intn(5)
				ops = cat(ops, round(f, true))
				if r < nr-1 {
					ops = append(ops, "await")
				}
			}
			if c.Rng.Intn(2) == 0 {
				ops = append(ops, "stop", "await")
			} else {
				ops = cat(ops, []string{"await"}, round(5, false), []string{"awaitlong"})
			}
			add("random-rounds", ops...)
		}
	}

	type obs struct {
		outs   [][]string
		exit   int
		stderr string
		timed  bool
	}
	results := make([]obs, len(hs))
	Parallel(len(hs), 48, func(i int) {
		// interval: longer than the longest round of the history, so that no tick is pending at a round's end
		maxF, cur := 0, 0
		for _, op := range hs[i].ops {
			if op == "fail" {
				cur++
				if cur > maxF {
					maxF = cur
				}
			} else if op == "ok" || op == "await" {
				cur = 0
			}
		}
		if maxF > 4 {
			maxF = 4
		}
		nStops := 0
		for _, op := range hs[i].ops {
			if op == "stop" {
				nStops++
			}
		}
		// also longer than the harness's own observation windows inside a round (300ms per blocked Stop / result)
		T := 1200 + 1000*maxF + 700*nStops
		r := RunChild("c19", c19Arg{Ops: hs[i].ops, IntervalMs: T}, 120*time.Second)
		o := obs{exit: r.ExitCode, stderr: r.Stderr, timed: r.TimedOut, outs: make([][]string, len(hs[i].ops))}
		for _, l := range r.Lines {
			var idx int
			var rest string
			if n, _ := fmt.Sscanf(l, "%d", &idx); n == 1 && idx < len(o.outs) {
				if sp := strings.IndexByte(l, ' '); sp >= 0 {
					rest = strings.TrimSpace(l[sp+1:])
				}
				if rest != "" {
					o.outs[idx] = strings.Fields(rest)
				}
				if idx+1 > len(r.Lines) {
				}
			}
		}
		if r.ExitCode == 2 && strings.Contains(r.Stderr, "panic:") {
			// the op after the last printed line killed the process
			o.outs[len(r.Lines)] = append(o.outs[len(r.Lines)], "Panic")
		}
		results[i] = o
	})

	var cases []gal.Term
	var reps []string
	for i, h := range hs {
		o := results[i]
		rep := map[string]interface{}{"kind": h.kind, "ops": h.ops, "observed": o.outs, "exit": o.exit}
		nontriv := false
		for _, op := range h.ops {
			if op == "fail" || op == "stop" {
				nontriv = true
			}
		}
		c.Eval(strings.Join(h.ops, ","), nontriv)
		c.Count(strings.SplitN(h.kind, "-0", 2)[0])
		if o.timed || (o.exit != 0 && o.exit != 2) {
			c.Violate("hang", fmt.Sprintf("history %s: child did not finish normally (exit %d, timed out %v): %s", h.kind, o.exit, o.timed, tail(o.stderr, 300)), rep)
		}
		// monitors, straight on the observations
		fails, started, stopReturned, panicked := 0, false, false, false
		// the property speaks about Stop() calls made after Start(); a Stop() before the first Start() consumes
		// the once-guard (then no later Stop() can stop the checker): outside the quantifier, compared with the model only
		stopFirst := false
		for _, op := range h.ops {
			if op == "start" {
				break
			}
			if op == "stop" {
				stopFirst = true
			}
		}
		maxRun := 0
		for j, op := range h.ops {
			outs := o.outs[j]
			has := func(x string) bool {
				for _, y := range outs {
					if y == x {
						return true
					}
				}
				return false
			}
			switch op {
			case "start":
				started = true
			case "fail":
				fails++
				if fails > maxRun {
					maxRun = fails
				}
			case "ok":
				fails = 0
			}
			if has("Panic") {
				panicked = true
				if fails < 5 {
					c.Violate("panic", fmt.Sprintf("history %s: the process was terminated after %d consecutive failed pings in the round (op %d)", h.kind, fails, j), rep)
				}
			}
			if has("Ping") && stopReturned && !stopFirst {
				c.Violate("ping-after-stop", fmt.Sprintf("history %s: a ping was issued at op %d after Stop() had returned", h.kind, j), rep)
			}
			if has("StopReturned") && started {
				stopReturned = true
			}
			if op == "stop" && started && !stopReturned && j > 0 && !has("StopReturned") {
				// allowed only while a ping is in flight
				prevPing := false
				for k := j - 1; k >= 0; k-- {
					if h.ops[k] == "ok" || h.ops[k] == "fail" {
						break
					}
					if len(o.outs[k]) > 0 && o.outs[k][0] == "Ping" {
						prevPing = true
						break
					}
				}
				if !prevPing && !panicked {
					c.Violate("stop-blocked", fmt.Sprintf("history %s: Stop() at op %d did not return within 300ms although no ping was in flight", h.kind, j), rep)
				}
			}
		}
		if maxRun >= 5 && !panicked && h.kind != "never-started" {
			c.Violate("no-panic", fmt.Sprintf("history %s: five consecutive pings of one round failed but the process was not terminated", h.kind), rep)
		}
		opT := make([]gal.Term, len(h.ops))
		for j, op := range h.ops {
			opT[j] = c19OpTerm(op)
		}
		outT := make([]gal.Term, len(h.ops))
		for j := range h.ops {
			ts := []gal.Term{}
			for _, x := range o.outs[j] {
				ts = append(ts, gal.Term("O"+x))
			}
			outT[j] = gal.List(ts)
		}
		cases = append(cases, gal.Tuple(gal.List(opT), gal.List(outT)))
		reps = append(reps, J(rep))
		if i == 7 || i == 40 {
			c.Sample(rep)
		}
	}
	c.Res.Exhaustive = true
	c.Emit("trace", "per-op outputs of the real health check vs Health.h_run", []string{"Model.Health", "Corr.CorrC19"},
		"list hop * list (list hout)", "chk_trace", cases, reps, 100)
}
