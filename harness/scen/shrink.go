package scen

import (
	"encoding/json"
	"fmt"
	"strings"
	"time"
)

// Minimisation of a failing stream history: ops are removed (acknowledgement indices re-mapped) as long as the shorter
// history, re-executed on the real code in a child process, makes the same monitor report the same failure class.

type sfixedArg struct {
	Cfg     SCfg
	Initial map[uint16]SDoc
	Ops     []SOp
	Serial  bool
	IsDcp   bool
	Auto    bool
	NumVb   int
}

func init() {
	Children["sfixed"] = func(raw json.RawMessage) {
		var a sfixedArg
		must(json.Unmarshal(raw, &a))
		var h *SHistory
		if a.IsDcp {
			h = RunHistoryDcp(a.Cfg, a.Initial, a.Auto, true, a.NumVb, a.Ops)
		} else {
			h = RunHistory(a.Cfg, a.Initial, a.Ops, a.Serial)
		}
		b, _ := json.Marshal(h)
		fmt.Println("HIST " + string(b))
	}
}

func rerunFixed(h *SHistory, ops []SOp) *SHistory {
	numVb := 0
	if h.IsDcp && len(h.Ops) > 0 && h.Ops[0].Sv != nil {
		numVb = len(h.Ops[0].Sv.High)
	}
	cr := RunChild("sfixed", sfixedArg{Cfg: h.Cfg, Initial: h.Initial, Ops: ops, Serial: h.Serial, IsDcp: h.IsDcp, Auto: h.Auto, NumVb: numVb}, 60*time.Second)
	for _, l := range cr.Lines {
		if strings.HasPrefix(l, "HIST ") {
			r := &SHistory{}
			if json.Unmarshal([]byte(l[5:]), r) == nil {
				r.Serial, r.Tag = h.Serial, h.Tag
				return r
			}
		}
	}
	return nil
}

// without returns ops with op i removed; acknowledgements of contexts handed out by it are removed too and later
// context indices are shifted.
func without(ops []SOp, outs [][]SOut, i int) []SOp {
	base, made := 0, 0
	for k := 0; k < i && k < len(outs); k++ {
		for _, o := range outs[k] {
			if o.Kind == "consume" {
				base++
			}
		}
	}
	if i < len(outs) {
		for _, o := range outs[i] {
			if o.Kind == "consume" {
				made++
			}
		}
	}
	var r []SOp
	for k, op := range ops {
		if k == i {
			continue
		}
		if op.Kind == "ack" && k > i && made > 0 {
			if op.I >= base && op.I < base+made {
				continue
			}
			if op.I >= base+made {
				op.I -= made
			}
		}
		r = append(r, op)
	}
	return r
}

// fires runs the monitors on h with a scratch context and says whether class is among the reported classes.
func fires(h *SHistory, class string, mons []StreamMonitor) bool {
	sc := NewCtx("scratch", "quick", 0, "")
	sc.Scratch = true
	for _, m := range mons {
		m(sc, h)
	}
	for _, v := range sc.Res.Violations {
		if v.Class == class {
			return true
		}
	}
	return false
}

// shrinkHistory returns a shorter history on which the same class is reported (nil if none was found), and how many
// re-executions it took.
func shrinkHistory(h *SHistory, class string, mons []StreamMonitor, budget int) (*SHistory, int) {
	cur := h
	runs := 0
	usable := func(c *SHistory) bool {
		if c == nil || !fires(c, class, mons) {
			return false
		}
		for _, os := range c.Outs {
			for _, o := range os {
				if o.Kind == "ignored" && o.Note != "" {
					return false
				}
			}
		}
		return true
	}
	changed := true
	for changed && runs < budget {
		changed = false
		for i := len(cur.Ops) - 1; i >= 1 && runs < budget; i-- { // op 0 is the first open
			if i >= len(cur.Ops) {
				continue
			}
			cand := rerunFixed(cur, without(cur.Ops, cur.Outs, i))
			runs++
			if usable(cand) {
				cur, changed = cand, true
			}
		}
	}
	if len(cur.Ops) < len(h.Ops) {
		return cur, runs
	}
	return nil, runs
}
