package scen

import (
	"encoding/json"
	"fmt"
	"strings"
	"time"

	dcp "github.com/Trendyol/go-dcp"
	"github.com/Trendyol/go-dcp/helpers"
	"github.com/Trendyol/go-dcp/membership"
)

// Two more rebalance scenarios on the real code (monitors):
//   gate   a document is waiting at the rollback-mitigation gate of its observer (nothing is persisted yet) when a membership
//          change closes the stream: the close releases it and it must not reach the consumer ("no event while closed")
//   bus    the whole Dcp: two membership notifications published on its bus back to back while the event handler of the
//          application is still inside BeforeRebalanceStart for the first: one close / reopen cycle, not two
type c11xRes struct {
	Kind          string
	ConsumedAfter int // gate: documents handed to the consumer from the close on
	GateReturned  bool
	Cycles        int // bus: BeforeRebalanceEnd callbacks
	Closes        int // bus: BeforeStreamStop callbacks
	Reopened      bool
	Err           string
}

func init() {
	Children["c11x"] = func(raw json.RawMessage) {
		var a struct{ Kind string }
		must(json.Unmarshal(raw, &a))
		res := c11xRes{Kind: a.Kind}
		defer func() {
			b, _ := json.Marshal(res)
			fmt.Println("RESULT " + string(b))
		}()
		sv := &SServer{High: map[uint16]uint64{0: 9, 1: 9}, UUID: map[uint16]uint64{0: 70, 1: 71}}
		switch a.Kind {
		case "gate":
			d := NewSDriverOpt(SCfg{Colls: map[uint32]string{}}, map[uint16]SDoc{}, false)
			d.cfg.Dcp.Group.Membership.RebalanceDelay = 40 * time.Millisecond
			d.Disc.Set(0, 1)
			d.setServer(sv)
			d.Stream.Open()
			ob := d.Client.Observer(0)
			d.deliver(ob, 0, &SEv{Kind: "marker", S: 0, E: 9})
			gateDone := make(chan struct{})
			d.cfg.RollbackMitigation.Disabled = false
			go func() {
				defer close(gateDone)
				defer func() { _ = recover() }()
				d.deliver(ob, 0, &SEv{Kind: "mut", Item: &SItem{Seq: 3, Cas: 1, Key: []byte("k3"), Rest: 3}})
			}()
			time.Sleep(20 * time.Millisecond)
			d.cfg.RollbackMitigation.Disabled = true
			n0 := d.Cons.Count()
			if n0 != 0 {
				res.Err = "the document did not wait at the gate"
				return
			}
			d.Stream.Rebalance()
			select {
			case <-gateDone:
				res.GateReturned = true
			case <-time.After(3 * time.Second):
			}
			for t0 := time.Now(); time.Since(t0) < 3*time.Second && !d.Stream.IsOpen(); time.Sleep(5 * time.Millisecond) {
			}
			time.Sleep(50 * time.Millisecond)
			res.Reopened = d.Stream.IsOpen()
			res.ConsumedAfter = d.Cons.Count() - n0
		case "bus":
			d := NewSDriverDcp(SCfg{Colls: map[uint32]string{}}, map[uint16]SDoc{}, false, false, 2)
			d.cfg.Dcp.Group.Membership.RebalanceDelay = 150 * time.Millisecond
			d.execStart(SOp{Kind: "open", Sv: sv})
			d.Hand.Take()
			bus := dcp.VerifBus(d.Dcp)
			d.Hand.SetHold("BeforeRebalanceStart", true)
			bus.Publish(helpers.MembershipChangedBusEventName, &membership.Model{MemberNumber: 1, TotalMembers: 1})
			select {
			case <-d.Hand.Held:
			case <-time.After(3 * time.Second):
				res.Err = "the first notification did not reach BeforeRebalanceStart within 3 s"
				return
			}
			// the second notification of the burst, while the application's callback for the first has not returned
			// (Publish itself waits for the previous invocation of a serialised listener: from a goroutine of its own)
			go bus.Publish(helpers.MembershipChangedBusEventName, &membership.Model{MemberNumber: 1, TotalMembers: 1})
			time.Sleep(60 * time.Millisecond)
			d.Hand.SetHold("BeforeRebalanceStart", false)
			d.Hand.Resume()
			// one cycle takes the delay counted from the last notification: long where it is due (it ends the wait when it
			// comes), then the time a second one would need to show
			for t0 := time.Now(); time.Since(t0) < 5*time.Second; time.Sleep(10 * time.Millisecond) {
				n := 0
				for _, cb := range d.Hand.Peek() {
					if cb == "AfterRebalanceEnd" {
						n++
					}
				}
				if n > 0 {
					break
				}
			}
			time.Sleep(700 * time.Millisecond)
			for _, cb := range d.Hand.Take() {
				if cb == "BeforeRebalanceEnd" {
					res.Cycles++
				}
				if cb == "BeforeStreamStop" {
					res.Closes++
				}
			}
			res.Reopened = d.Stream.IsOpen()
			d.Dcp.Close()
			select {
			case <-d.startDone:
			case <-time.After(3 * time.Second):
			}
		}
	}
}

func runC11Extra(c *Ctx) {
	kinds := []string{"gate", "bus", "bus"}
	out := make([]ChildResult, len(kinds))
	Parallel(len(kinds), 3, func(i int) { out[i] = RunChild("c11x", map[string]string{"Kind": kinds[i]}, 40*time.Second) })
	for i, k := range kinds {
		rep := map[string]interface{}{"how": "vh child c11x", "kind": k}
		c.Count("rebalance-extra:" + k)
		c.Eval(fmt.Sprint("c11x ", k, i), true)
		var res *c11xRes
		for _, l := range out[i].Lines {
			if strings.HasPrefix(l, "RESULT ") {
				res = &c11xRes{}
				_ = json.Unmarshal([]byte(l[7:]), res)
			}
		}
		if res == nil {
			c.Violate("rebalance-"+k, fmt.Sprintf("rebalance scenario %q: the process died (exit %d) %s", k, out[i].ExitCode, out[i].Fatal), rep)
			continue
		}
		rep["observed"] = res
		if res.Err != "" {
			c.Note("c11x %s not driven: %s", k, res.Err)
			continue
		}
		switch k {
		case "gate":
			switch {
			case res.ConsumedAfter > 0:
				c.Violate("delivered-while-closed", fmt.Sprintf("a document was waiting at the rollback-mitigation gate when a membership change closed the stream: %d document(s) reached the consumer after the close", res.ConsumedAfter), rep)
			case !res.GateReturned:
				c.Violate("delivered-while-closed", "a document was waiting at the rollback-mitigation gate when a membership change closed the stream: its delivery was still waiting 3 s later", rep)
			case !res.Reopened:
				c.Violate("rebalance-gate", "the stream was not reopened within 3 s", rep)
			}
		case "bus":
			if res.Cycles != 1 || res.Closes != 1 || !res.Reopened {
				c.Violate("burst-two-cycles", fmt.Sprintf("two membership notifications on the client's bus, the second while the application was inside BeforeRebalanceStart for the first: %d stream closes, %d reopens (one cycle expected), stream open afterwards: %v", res.Closes, res.Cycles, res.Reopened), rep)
			}
		}
	}
}
