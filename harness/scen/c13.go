package scen

import (
	"encoding/json"
	"errors"
	"fmt"
	"github.com/Trendyol/go-dcp/models"
	"github.com/couchbase/gocbcore/v10"
	"math/rand"
	"sort"
	"strings"
	"sync"
	"time"

	"verifharness/gal"
)

func init() {
	Registry["C13"] = runC13
	HistMakers["c13"] = func(i int, rng *rand.Rand) *SHistory {
		q := DefaultSParams()
		q.Dcp = true
		q.Auto = rng.Intn(3) > 0
		q.Health = rng.Intn(2) == 0
		q.MaxVbs = 1 + rng.Intn(3)
		q.MaxOps = 3 + rng.Intn(28)
		q.WShutdown = 0.5
		q.LateOps = 2 + rng.Intn(7)
		q.PMalformed = 0
		q.WCrash, q.WClose = 0, 0
		q.WReb = 0.3
		q.WSave = 2.0
		q.PSaveFail = 0.35
		if i%4 == 0 { // many shutdowns with a store call in flight
			q.WSave = 4
		}
		if i%5 == 1 { // mostly rebalance windows
			q.WReb = 1.5
		}
		return GenRun(rng, q)
	}
}

// c13Corpus are fixed histories that run first.
func c13Corpus() []struct {
	Name string
	Ops  []SOp
} {
	sv := &SServer{High: map[uint16]uint64{0: 20}, UUID: map[uint16]uint64{0: 77}}
	mut := func(seq uint64) SOp {
		return SOp{Kind: "deliver", Vb: 0, Ev: &SEv{Kind: "mut", Item: &SItem{Seq: seq, Cas: casBase, Key: []byte("k"), Rest: seq}}}
	}
	marker := func(s, e uint64) SOp { return SOp{Kind: "deliver", Vb: 0, Ev: &SEv{Kind: "marker", S: s, E: e}} }
	return []struct {
		Name string
		Ops  []SOp
	}{
		// K9 (repaired): the store call in flight has taken the marks over; nothing else is marked; Close()
		{"K9-close-with-store-call-in-flight", []SOp{{Kind: "open", First: 0, Last: 0, Sv: sv}, marker(1, 5), mut(1), {Kind: "ack", I: 0}, {Kind: "savebegin"},
			{Kind: "shutdown", R1: true, R2: true}}},
		{"K9-close-with-failing-store-call-in-flight", []SOp{{Kind: "open", First: 0, Last: 0, Sv: sv}, marker(1, 5), mut(1), {Kind: "ack", I: 0}, {Kind: "savebegin"},
			{Kind: "shutdown", R1: false, R2: true}}},
		// K4: Close() inside the rebalance window
		{"K4-close-inside-rebalance-window", []SOp{{Kind: "open", First: 0, Last: 0, Sv: sv}, {Kind: "rebclose"}, {Kind: "shutdown", R1: true, R2: true}}},
		// K10: a Save() that has been waiting since before a rebalance takes the marks of the new session over; Close()
		{"K10-store-call-of-earlier-session", []SOp{{Kind: "open", First: 0, Last: 0, Sv: sv}, marker(1, 5), mut(1), {Kind: "ack", I: 0}, {Kind: "savebegin"}, {Kind: "savequeue"},
			{Kind: "rebclose"}, {Kind: "rebopen", First: 0, Last: 0, Sv: sv}, marker(1, 5), mut(1), mut(2), {Kind: "ack", I: 2}, {Kind: "saveend", Ok: true},
			{Kind: "shutdown", R1: true, R2: true}}},
	}
}

func init() {
	HistMakers["c13corpus"] = func(i int, rng *rand.Rand) *SHistory {
		k := c13Corpus()[i]
		h := RunHistoryDcp(SCfg{Colls: map[uint32]string{}}, map[uint16]SDoc{}, true, i%2 == 0, 1, k.Ops)
		h.Tag = k.Name
		return h
	}
}

// lcaseTerm prints a history around a whole Dcp in the vocabulary of Model/Lifecycle.v.
func (h *SHistory) lcaseTerm() gal.Term {
	ops := make([]gal.Term, len(h.Ops))
	for i, o := range h.Ops {
		if o.Kind == "shutdown" {
			ops[i] = o.term()
		} else {
			ops[i] = gal.App("SOp", o.term())
		}
	}
	outs := make([]gal.Term, len(h.Outs))
	for i, os := range h.Outs {
		ts := make([]gal.Term, len(os))
		for j, o := range os {
			switch o.Kind {
			case "dcpclose", "cliclose", "returned", "died":
				ts[j] = o.term()
			default:
				ts[j] = gal.App("SOut", o.term())
			}
		}
		outs[i] = gal.List(ts)
	}
	docs := func(m map[uint16]SDoc) gal.Term {
		ks := make([]int, 0)
		for k := range m {
			ks = append(ks, int(k))
		}
		sort.Ints(ks)
		st := make([]gal.Term, len(ks))
		for i, k := range ks {
			st[i] = gal.Tuple(gal.N(uint64(k)), m[uint16(k)].term())
		}
		return gal.List(st)
	}
	return gal.Tuple(h.Cfg.term(), gal.Bool(h.Auto), docs(h.Initial), gal.List(ops), gal.List(outs), docs(h.Digest.Store))
}

// monitorC13 checks the property on one executed history, from the calls the fakes saw (independent of the model).
func monitorC13(c *Ctx, h *SHistory) {
	lo := h.Life
	rep := map[string]interface{}{"cfg": h.Cfg, "auto_checkpoint": h.Auto, "initial_store": h.Initial, "ops": h.Ops, "observed": h.Outs, "around_close": lo}
	if lo == nil {
		c.Violate("harness", "a lifecycle history without a Close()", rep)
		return
	}
	idx := lo.ShutdownOp
	if idx >= len(h.Ops) || h.Ops[idx].Kind != "shutdown" {
		return
	}
	// the lifecycle state in which Close() arrived
	window, inflight, outstanding := false, lo.InFlightBefore, 0
	acked := map[int]bool{}
	sess, saveSess := 0, 0 // the save lock belongs to the checkpoint object of a session
	for i := 0; i < idx; i++ {
		switch h.Ops[i].Kind {
		case "open":
			sess++
		case "savebegin":
			saveSess = sess
		case "rebclose":
			window = true
		case "rebopen":
			window = false
			sess++
		case "deliver":
			for _, o := range h.Outs[i] {
				if o.Kind == "consume" {
					outstanding++
				}
			}
		case "ack":
			if !acked[h.Ops[i].I] {
				acked[h.Ops[i].I] = true
				outstanding--
			}
		}
	}
	state := "idle"
	switch {
	case window:
		state = "rebalance-window"
	case inflight:
		state = "save-in-flight"
	case outstanding > 0:
		state = "delivery-outstanding"
	}
	c.Count("close-in:" + state)
	if lo.Health {
		c.Count("health-check-on")
		if lo.PingsBefore > 0 {
			c.Count("health-check-was-polling")
		}
	}
	class := func(s string) string {
		if window {
			return "close-inside-rebalance-window"
		}
		if inflight && saveSess != sess && s == "settled-position-not-stored" {
			return "store-call-of-earlier-session-in-flight"
		}
		return s
	}
	if lo.Died != "" {
		c.Violate(class("teardown-died"), fmt.Sprintf("Close() in state %s: the goroutine of Start() panicked inside the teardown: %s", state, lo.Died), rep)
		return
	}
	if lo.Hung || !lo.Returned {
		c.Violate(class("teardown-hung"), fmt.Sprintf("Close() in state %s: Start() had not returned 5 s after Close()", state), rep)
		return
	}
	if lo.ReturnedMs > 3000 {
		c.Violate(class("teardown-slow"), fmt.Sprintf("Close() in state %s took %d ms although every store call was answered at once", state, lo.ReturnedMs), rep)
	}
	// every vBucket stream stopped, the agents closed once, after the streams
	if fmt.Sprint(lo.OpenVbs) != fmt.Sprint(lo.ClosedVbs) {
		c.Violate(class("stream-left-open"), fmt.Sprintf("Close() in state %s: streams open %v, close requests %v", state, lo.OpenVbs, lo.ClosedVbs), rep)
	}
	if lo.DcpCloses != 1 || lo.ClientCloses != 1 {
		c.Violate(class("agents-not-closed-once"), fmt.Sprintf("Close() in state %s: DcpClose called %d times, Close %d times", state, lo.DcpCloses, lo.ClientCloses), rep)
	}
	pos := map[string]int{}
	for i, o := range h.Outs[idx] {
		k := o.Kind
		if o.Kind == "callback" {
			k = o.Name
		}
		pos[k] = i + 1
	}
	before := func(a, b string) bool { return pos[a] == 0 || pos[b] == 0 || pos[a] < pos[b] } // both present: a first
	if pos["dcpclose"] > 0 && !(before("closereq", "dcpclose") && before("AfterStreamStop", "dcpclose") && pos["dcpclose"] < pos["cliclose"] &&
		before("metasave", "BeforeStreamStop") && before("metasave", "dcpclose")) {
		c.Violate(class("teardown-order"), fmt.Sprintf("Close() in state %s: order of the teardown calls: %v", state, kinds(h.Outs[idx])), rep)
	}
	// durable: automatic checkpointing and a final save that succeeds
	if lo.Auto && h.Ops[idx].R2 {
		want := map[uint16]uint64{}
		for i := 0; i < idx; i++ {
			op := h.Ops[i]
			switch op.Kind {
			case "open", "rebclose", "rebopen":
				// the close half of a rebalance forgets the positions of the session that were settled but not yet stored:
				// they are delivered again after the reopen (at-least-once), nothing tracks them any more
				want = map[uint16]uint64{}
			case "ack":
				for _, o := range h.Outs[i] {
					if o.Kind == "track" && o.Off.Seq > want[o.Vb] {
						want[o.Vb] = o.Off.Seq
					}
				}
			case "deliver":
				if op.Ev.Kind == "sys" || op.Ev.Kind == "seqadv" {
					for _, o := range h.Outs[i] {
						if o.Kind == "track" && o.Off.Seq > want[o.Vb] {
							want[o.Vb] = o.Off.Seq
						}
					}
				}
			}
		}
		for vb, seq := range want {
			if got, ok := lo.StoreAtReturn[vb]; !ok || got.Seq < seq {
				c.Violate(class("settled-position-not-stored"), fmt.Sprintf("Close() in state %s with automatic checkpointing: vBucket %d was settled up to %d before the call, the store holds %v when Start() returns",
					state, vb, seq, lo.StoreAtReturn[vb]), rep)
			}
		}
	}
	// nothing handed to the consumer, no stream opened, nothing polling afterwards
	for i := idx + 1; i < len(h.Ops); i++ {
		for _, o := range h.Outs[i] {
			if o.Kind == "consume" {
				c.Violate(class("event-after-close"), fmt.Sprintf("op %d (%s) after Start() returned handed an event to the consumer", i, h.Ops[i].Kind), rep)
			}
			if o.Kind == "openreq" {
				c.Violate(class("open-after-close"), fmt.Sprintf("op %d (%s) after Start() returned opened a stream", i, h.Ops[i].Kind), rep)
			}
		}
	}
	for _, o := range h.Outs[idx] {
		if o.Kind == "consume" || o.Kind == "openreq" {
			c.Violate(class("delivery-during-teardown"), fmt.Sprintf("the teardown itself produced %s", o.Kind), rep)
		}
	}
	if lo.GateStuck {
		c.Violate(class("gate-not-released"), "a document waiting at the rollback-mitigation gate of its observer was still waiting a second after Start() returned", rep)
	}
	if lo.Gated {
		c.Count("close-with-document-at-gate")
	}
	if lo.PingsLater != lo.PingsAtReturn {
		c.Violate(class("health-check-still-polling"), fmt.Sprintf("%d Ping calls in the 40 ms after Start() returned", lo.PingsLater-lo.PingsAtReturn), rep)
	}
	if lo.OpensLater != lo.OpensAtReturn || lo.SavesLater != lo.SavesAtReturn || lo.ConsumedLater != lo.ConsumedAtRet {
		c.Violate(class("activity-after-close"), fmt.Sprintf("in the 40 ms after Start() returned: %d stream requests, %d store calls, %d events consumed",
			lo.OpensLater-lo.OpensAtReturn, lo.SavesLater-lo.SavesAtReturn, lo.ConsumedLater-lo.ConsumedAtRet), rep)
	}
}

func kinds(os []SOut) []string {
	r := make([]string, len(os))
	for i, o := range os {
		r[i] = o.Kind
		if o.Kind == "callback" {
			r[i] = o.Name
		}
	}
	return r
}

func runC13(c *Ctx) {
	c.Res.Rule = "histories of the real Dcp (VerifNewDcp + Start() on its own goroutine, interface-level fakes, in child processes): deliveries, acknowledgements, " +
		"Commit()s with the store call held / failing, transient stream ends, rebalances, then Close() in whatever state that is, then ops that can still arrive " +
		"(late deliveries and ends on the old observers, late acknowledgements, Commit(), store calls returning, a second Close()). Automatic / manual checkpointing, " +
		"health check on (5 ms) / off. Distinct = distinct op list; non-trivial = Close() arrives with a delivery outstanding, a store call in flight or inside a rebalance window"
	// the corpus first; its last history is outside the model (one save lock): monitors only
	ch, _ := collectHistories(c, len(c13Corpus()), "c13corpus")
	n := c.Pick(160, 1600)
	hs, seeds := collectHistories(c, n, "c13")
	hs = append(ch, hs...)
	seeds = append(make([]int64, len(ch)), seeds...)
	var cases []gal.Term
	var reps []string
	got := 0
	for i, h := range hs {
		if h == nil {
			continue
		}
		got++
		if h.Tag == "K10-store-call-of-earlier-session" {
			c.Count("corpus:" + h.Tag)
			monitorC13(c, h)
			continue
		}
		if h.Tag != "" {
			c.Count("corpus:" + h.Tag)
		}
		nt := false
		if h.Life != nil && h.Life.ShutdownOp < len(h.Ops) {
			out := 0
			acked := map[int]bool{}
			for k := 0; k < h.Life.ShutdownOp; k++ {
				switch h.Ops[k].Kind {
				case "rebclose":
					nt = true
				case "rebopen":
					nt = false
				case "deliver":
					for _, o := range h.Outs[k] {
						if o.Kind == "consume" {
							out++
						}
					}
				case "ack":
					if !acked[h.Ops[k].I] {
						acked[h.Ops[k].I] = true
						out--
					}
				}
			}
			nt = nt || out > 0 || h.Life.InFlightBefore
		}
		c.Eval(J(h.Ops), nt)
		c.CountN("ops", len(h.Ops))
		for _, op := range h.Ops {
			c.Count("op:" + op.Kind)
		}
		for _, os := range h.Outs {
			for _, o := range os {
				c.Count("out:" + o.Kind)
			}
		}
		nv := len(c.Res.Violations)
		monitorC13(c, h)
		c.minimise(h, nv, []StreamMonitor{monitorC13})
		ignoredMonitor(c, h)
		cases = append(cases, h.lcaseTerm())
		reps = append(reps, J(map[string]interface{}{"maker": "c13", "seed": seeds[i], "cfg": h.Cfg, "auto_checkpoint": h.Auto, "initial_store": h.Initial, "ops": h.Ops, "observed": h.Outs, "around_close": h.Life, "final_store": h.Digest.Store}))
		if got <= 2 {
			c.Sample(map[string]interface{}{"cfg": h.Cfg, "auto_checkpoint": h.Auto, "ops": h.Ops, "observed_outputs": h.Outs, "around_close": h.Life})
		}
	}
	runC13Windows(c)
	runLegacy(c, []string{"close", "rebalance"}, 1, 3)
	runC13WireCases(c)
	c.Emit("life", "per-op outputs of the real Dcp (Start ... Close ... late ops) and the final store vs Lifecycle.lrun", []string{"Base.Bytes", "Model.Stream", "Model.Lifecycle", "Corr.CorrStream", "Corr.CorrC13"},
		"lhist", "chk_lhist", cases, reps, 40)
}

// ---- Close() while Rebalance() is inside its close step / inside the reopen (harness only: the model's RebClose and
// RebOpen are single steps) ----

type c13WinArg struct {
	Kind string // "inside-close" | "inside-reopen" | "during-delay-timer-armed"
	Auto bool
}
type c13WinRes struct {
	Kind       string
	Result     string // returned | died: ... | hung
	Ms         int64
	DcpCloses  int
	CliCloses  int
	OpensAfter int // stream requests after Start() returned (or after the deadline)
	Alive      bool
	PingsAfter   int  // health-retry-wait: pings after Close() was called
	OpenOnServer bool // inside-vbucket-reopen: the stream of vBucket 0 is open on the server after Start() returned
	Acked        bool   // inside-reopen-acked: the document of vBucket 0 was delivered and acknowledged before Close()
	StoredSeq    uint64 // ... and the checkpoint of vBucket 0 in the store after Start() returned
}

func init() {
	Children["c13win"] = func(raw json.RawMessage) {
		var a c13WinArg
		must(json.Unmarshal(raw, &a))
		sv := &SServer{High: map[uint16]uint64{0: 5, 1: 5}, UUID: map[uint16]uint64{0: 70, 1: 71}}
		d := NewSDriverDcp(SCfg{Colls: map[uint32]string{}}, map[uint16]SDoc{}, a.Auto, true, 2)
		d.cfg.Dcp.Group.Membership.RebalanceDelay = 150 * time.Millisecond
		d.execStart(SOp{Kind: "open", Sv: sv})
		release := make(chan struct{})
		if a.Kind == "rebalance-during-reopen-retries" {
			// no Close() here: a membership change closes the stream while the library is retrying the reopen of vBucket 0;
			// the window (5.5 s) outlasts the retries
			d.cfg.Dcp.Group.Membership.RebalanceDelay = 5500 * time.Millisecond
			d.Client.SetOpenErr(0, errors.New("scripted reopen failure"))
			d.Client.Observer(0).End(models.DcpStreamEnd{VbID: 0}, gocbcore.ErrSocketClosed)
			time.Sleep(150 * time.Millisecond)
			go d.Stream.Rebalance()
			time.Sleep(300 * time.Millisecond)
			d.Client.SetOpenErr(0, nil)
			d.Client.TakeOpens()
			res := c13WinRes{Kind: a.Kind, Result: "not reopened"}
			deadline := time.Now().Add(9 * time.Second)
			for time.Now().Before(deadline) {
				if d.Stream.IsOpen() {
					res.Result = "reopened"
					break
				}
				time.Sleep(20 * time.Millisecond)
			}
			for _, oc := range d.Client.TakeOpens() {
				if oc.VbID == 0 {
					res.OpensAfter++
				}
			}
			res.Alive = true
			b, _ := json.Marshal(res)
			fmt.Println("RESULT " + string(b))
			return
		}
		pingsAtClose := 0
		ackedInReopen := false
		switch a.Kind {
		case "health-retry-wait":
			// the server stops answering pings: a health-check round has failed once and sits in its one-second retry wait
			p0, _, _, _ := d.Client.Counts()
			d.Client.SetPingErr(errors.New("scripted ping failure"))
			for t0 := time.Now(); time.Since(t0) < 3*time.Second; time.Sleep(2 * time.Millisecond) {
				if p, _, _, _ := d.Client.Counts(); p > p0 {
					break
				}
			}
			time.Sleep(100 * time.Millisecond)
			pingsAtClose, _, _, _ = d.Client.Counts()
		case "inside-vbucket-reopen":
			// the stream of vBucket 0 ends with a recoverable error; the request of its reopen is still unanswered when Close() arrives
			var once sync.Once
			arrived := make(chan struct{})
			d.Client.OnOpen = func(vb uint16) {
				if vb == 0 {
					once.Do(func() { close(arrived) })
					<-release
				}
			}
			d.Client.Observer(0).End(models.DcpStreamEnd{VbID: 0}, gocbcore.ErrDCPStreamStateChanged)
			select {
			case <-arrived:
			case <-time.After(3 * time.Second):
			}
		case "inside-close":
			d.Hand.SetHold("BeforeStreamStop", true)
			go d.Stream.Rebalance()
			<-d.Hand.Held
			d.Hand.SetHold("BeforeStreamStop", false)
		case "during-delay-timer-armed":
			go d.Stream.Rebalance()
			time.Sleep(40 * time.Millisecond)
		case "during-reopen-retries":
			// the stream of vBucket 0 ends with a recoverable error while the server refuses to reopen it: the library retries
			// every second, five times
			d.Client.SetOpenErr(0, errors.New("scripted reopen failure"))
			d.Client.Observer(0).End(models.DcpStreamEnd{VbID: 0}, gocbcore.ErrSocketClosed)
			time.Sleep(150 * time.Millisecond)
		case "inside-reopen-acked":
			// the reopen half of a rebalance: vBucket 0 is streaming again and a document of it has been acknowledged, the request
			// for vBucket 1 is still unanswered
			d.Store.Gate = false // the final save goes straight through
			var once sync.Once
			arrived := make(chan struct{})
			d.Client.OnOpen = func(vb uint16) {
				if vb == 1 {
					once.Do(func() { close(arrived) })
					<-release
				}
			}
			d.Client.TakeOpens()
			go d.Stream.Rebalance()
			select {
			case <-arrived:
			case <-time.After(3 * time.Second):
			}
			for t0 := time.Now(); time.Since(t0) < 2*time.Second && len(d.Client.TakeOpens()) == 0; time.Sleep(2 * time.Millisecond) {
			}
			time.Sleep(20 * time.Millisecond)
			if ob := d.Client.Observer(0); ob != nil {
				n := d.Cons.Count()
				d.deliver(ob, 0, &SEv{Kind: "marker", S: 0, E: 5})
				d.deliver(ob, 0, &SEv{Kind: "mut", Item: &SItem{Seq: 1, Cas: 1, Key: []byte("k1"), Rest: 1}})
				if ctx := d.Cons.Ctx(n); ctx != nil {
					ctx.Ack()
					ackedInReopen = true
				}
			}
		case "inside-reopen":
			var once sync.Once
			arrived := make(chan struct{})
			d.Client.OnOpen = func(vb uint16) {
				once.Do(func() { close(arrived) })
				<-release
			}
			go d.Stream.Rebalance()
			select {
			case <-arrived:
			case <-time.After(3 * time.Second):
			}
		}
		start := time.Now()
		d.Dcp.Close()
		res := c13WinRes{Kind: a.Kind}
		// the teardown waits for the half of the rebalance that is running: it is let go 50 ms after Close()
		time.Sleep(50 * time.Millisecond)
		close(release)
		if a.Kind == "inside-close" {
			d.Hand.Resume()
		}
		select {
		case r := <-d.startDone:
			res.Result = r
		case <-time.After(3 * time.Second):
			res.Result = "hung"
		}
		res.Ms = time.Since(start).Milliseconds()
		if a.Kind == "health-retry-wait" {
			time.Sleep(1300 * time.Millisecond) // a round that went on would have pinged again by now
			p, _, _, _ := d.Client.Counts()
			res.PingsAfter = p - pingsAtClose
		}
		if a.Kind == "inside-vbucket-reopen" {
			time.Sleep(200 * time.Millisecond)
			res.OpenOnServer = d.Client.OpenOnServer(0)
		}
		if a.Kind == "inside-reopen-acked" {
			res.Acked = ackedInReopen
			if doc, ok := d.Store.Snapshot()[0]; ok && doc.Checkpoint != nil {
				res.StoredSeq = doc.Checkpoint.SeqNo
			}
		}
		_, _, _, opens0 := d.Client.Counts() // what the reopen half that was running has requested is closed again by the teardown
		if a.Kind == "during-reopen-retries" {
			time.Sleep(5500 * time.Millisecond) // the retries give up (and panic) four seconds after the first attempt
		}
		time.Sleep(400 * time.Millisecond) // longer than the rebalance delay: does the armed timer reopen streams after the shutdown?
		var opens1 int
		_, res.DcpCloses, res.CliCloses, opens1 = d.Client.Counts()
		res.OpensAfter = opens1 - opens0
		res.Alive = true
		b, _ := json.Marshal(res)
		fmt.Println("RESULT " + string(b))
	}
}

func runC13Windows(c *Ctx) {
	type job struct {
		kind string
		auto bool
	}
	var jobs []job
	for _, kind := range []string{"inside-close", "during-delay-timer-armed", "inside-reopen", "during-reopen-retries", "health-retry-wait", "inside-vbucket-reopen", "inside-reopen-acked"} {
		for _, auto := range []bool{true, false} {
			if (kind == "during-reopen-retries" || kind == "health-retry-wait" || kind == "inside-vbucket-reopen" || kind == "inside-reopen-acked") && !auto {
				continue // once each
			}
			jobs = append(jobs, job{kind, auto})
		}
	}
	out := make([]ChildResult, len(jobs))
	Parallel(len(jobs), 8, func(i int) {
		out[i] = RunChild("c13win", c13WinArg{Kind: jobs[i].kind, Auto: jobs[i].auto}, 40*time.Second)
	})
	for i, j := range jobs {
		kind, cr := j.kind, out[i]
		what := "Close() " + kind + " of a rebalance"
		class := "close-inside-rebalance-window"
		if kind == "during-reopen-retries" {
			what = "Close() while the library is retrying the reopen of a vBucket stream"
			class = "close-during-reopen-retries"
		}
		if kind == "health-retry-wait" {
			what = "Close() while a health-check round is in its retry wait after a failed ping (the server does not answer pings)"
			class = "close-during-health-retry"
		}
		if kind == "inside-vbucket-reopen" {
			what = "Close() while the stream request of the reopen of one vBucket stream is unanswered"
			class = "close-inside-vbucket-reopen"
		}
		rep := map[string]interface{}{"close_arrives": kind, "auto_checkpoint": j.auto, "how": "vh child c13win"}
		c.Count("window:" + kind)
		c.Eval(fmt.Sprint("window ", kind, j.auto), true)
		var res *c13WinRes
		for _, l := range cr.Lines {
			if strings.HasPrefix(l, "RESULT ") {
				res = &c13WinRes{}
				_ = json.Unmarshal([]byte(l[7:]), res)
			}
		}
		if res == nil {
			c.Violate(class, fmt.Sprintf("%s: the process died (exit %d) %s", what, cr.ExitCode, cr.Fatal), rep)
			continue
		}
		rep["observed"] = res
		switch {
		case strings.HasPrefix(res.Result, "died"):
			c.Violate(class, fmt.Sprintf("%s: the goroutine of Start() panicked in the teardown: %s", what, res.Result), rep)
		case res.Result == "hung":
			c.Violate(class, fmt.Sprintf("%s: Start() had not returned after 3 s", what), rep)
		case kind == "health-retry-wait" && res.PingsAfter > 1:
			c.Violate(class, fmt.Sprintf("%s: %d more pings were issued after Close() (the round was not abandoned)", what, res.PingsAfter), rep)
		case kind == "inside-vbucket-reopen" && res.OpenOnServer:
			c.Violate(class, what+": after Start() returned the stream of that vBucket is open on the server", rep)
		case kind == "inside-reopen-acked" && res.Acked && res.StoredSeq != 1:
			c.Violate(class, fmt.Sprintf("Close() inside the reopen of a rebalance, after a document of an already reopened vBucket had been acknowledged (automatic checkpointing): the stored checkpoint of that vBucket is %d, the acknowledged position 1", res.StoredSeq), rep)
		case kind == "inside-reopen-acked":
			// stream requests of the reopen that was running are the library's business
		case kind == "inside-vbucket-reopen":
			// the stream requests of that reopen are the library's business; what counts is that nothing is left open
		case res.OpensAfter > 0:
			c.Violate(class, fmt.Sprintf("%s: %d stream requests after the call", what, res.OpensAfter), rep)
		case res.DcpCloses != 1 || res.CliCloses != 1:
			c.Violate(class, fmt.Sprintf("%s: DcpClose x%d, Close x%d", what, res.DcpCloses, res.CliCloses), rep)
		}
	}
}

// runReopenRetriesUnderRebalance (C12): a membership change closes the stream while the library is retrying the reopen of a
// vBucket stream; the window outlasts the retries. The process must survive and the reopen half must request that vBucket.
func runReopenRetriesUnderRebalance(c *Ctx) {
	cr := RunChild("c13win", c13WinArg{Kind: "rebalance-during-reopen-retries", Auto: true}, 40*time.Second)
	rep := map[string]interface{}{"how": "vh child c13win", "kind": "rebalance-during-reopen-retries"}
	c.Count("rebalance-during-reopen-retries")
	c.Eval("rebalance-during-reopen-retries", true)
	var res *c13WinRes
	for _, l := range cr.Lines {
		if strings.HasPrefix(l, "RESULT ") {
			res = &c13WinRes{}
			_ = json.Unmarshal([]byte(l[7:]), res)
		}
	}
	switch {
	case res == nil:
		c.Violate("reopen-retries-under-rebalance", fmt.Sprintf("a rebalance closed the stream while the reopen of vBucket 0 was being retried: the process died (exit %d) %s", cr.ExitCode, cr.Fatal), rep)
	case res.Result != "reopened":
		c.Violate("reopen-retries-under-rebalance", "a rebalance closed the stream while the reopen of vBucket 0 was being retried: the stream was not open again 9 s later", rep)
	case res.OpensAfter != 1:
		c.Violate("reopen-retries-under-rebalance", fmt.Sprintf("a rebalance closed the stream while the reopen of vBucket 0 was being retried: vBucket 0 was requested %d times by the reopen", res.OpensAfter), rep)
	}
}
