package scen

import (
	"encoding/json"
	"fmt"
	"reflect"
	"strings"
	"time"

	dcp "github.com/Trendyol/go-dcp"
	"github.com/Trendyol/go-dcp/config"
	"github.com/Trendyol/go-dcp/models"
)

// The public constructor itself: dcp.NewDcp applies the defaults, prints the configuration (password masked in a copy) and
// connects. Nothing listens at the configured hosts, so it returns an error after the connection timeout; the configuration
// handed in must then be exactly what ApplyDefaults alone makes of it -- every explicitly set value, the ones inside the
// override maps included, untouched. One child process per configuration (a refused bootstrap may also panic).
func init() {
	Children["c17newdcp"] = func(raw json.RawMessage) {
		var a struct{ Variant int }
		must(json.Unmarshal(raw, &a))
		mk := func() *config.Dcp {
			c := &config.Dcp{Hosts: []string{"http://127.0.0.1:1"}, Username: "user", Password: "mainSecret", BucketName: "b",
				ConnectionTimeout: 300 * time.Millisecond}
			c.Dcp.Group.Name = "g"
			c.Metadata.Type = "couchbase"
			c.Metadata.Config = map[string]string{"bucket": "meta", "scope": "ms", "collection": "mc", "connectionTimeout": "300ms"}
			c.Dcp.Group.Membership.Config = map[string]string{"heartbeatInterval": "7s"}
			c.LeaderElection.Config = map[string]string{"leaseLockName": "l", "leaseLockNamespace": "n"}
			switch a.Variant {
			case 1:
				c.Metadata.Config["password"] = "metaSecret"
				c.Metadata.Config["username"] = "metaUser"
				c.Metadata.Config["hosts"] = "http://127.0.0.1:2"
			case 2:
				c.Metadata.Type = "file"
				c.Metadata.Config = map[string]string{"fileName": "/nonexistent/x.json", "password": "p"}
			}
			return c
		}
		want := mk()
		want.ApplyDefaults()
		got := mk()
		res := map[string]interface{}{"variant": a.Variant}
		func() {
			defer func() {
				if r := recover(); r != nil {
					res["panic"] = fmt.Sprint(r)
				}
			}()
			_, err := dcp.NewDcp(got, func(*models.ListenerContext) {})
			res["err"] = fmt.Sprint(err)
		}()
		res["same"] = reflect.DeepEqual(got, want)
		if !reflect.DeepEqual(got, want) {
			gb, _ := json.Marshal(got)
			wb, _ := json.Marshal(want)
			res["got"], res["want"] = string(gb), string(wb)
			res["meta_password"] = got.Metadata.Config["password"]
		}
		b, _ := json.Marshal(res)
		fmt.Println("RESULT " + string(b))
	}
}

func runC17NewDcp(c *Ctx) {
	out := make([]ChildResult, 3)
	Parallel(3, 3, func(i int) { out[i] = RunChild("c17newdcp", map[string]int{"Variant": i}, 60*time.Second) })
	for i := range out {
		rep := map[string]interface{}{"how": "vh child c17newdcp", "variant": i}
		c.Count("newdcp-keeps-config")
		c.Eval(fmt.Sprint("NewDcp config ", i), true)
		var res map[string]interface{}
		for _, l := range out[i].Lines {
			if strings.HasPrefix(l, "RESULT ") {
				_ = json.Unmarshal([]byte(l[7:]), &res)
			}
		}
		if res == nil {
			c.Note("c17newdcp %d: the child ended without a result (exit %d %s): not driven", i, out[i].ExitCode, out[i].Fatal)
			continue
		}
		rep["observed"] = res
		if same, _ := res["same"].(bool); !same {
			c.Violate("constructor-alters-config", fmt.Sprintf("dcp.NewDcp (nothing listens at the hosts: it returns an error) left the configuration it was given different from what ApplyDefaults makes of it; metadata.config[password] = %v", res["meta_password"]), rep)
		}
	}
}
