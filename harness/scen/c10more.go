package scen

import (
	"encoding/json"
	"errors"
	"fmt"
	"runtime"
	"strings"
	"time"

	"github.com/asaskevich/EventBus"

	"github.com/Trendyol/go-dcp/config"
	"github.com/Trendyol/go-dcp/helpers"
	"github.com/Trendyol/go-dcp/kubernetes"
	"github.com/Trendyol/go-dcp/membership"
	"github.com/Trendyol/go-dcp/servicediscovery"
	"github.com/Trendyol/go-dcp/stream"

	"verifharness/gal"
)

// (F) helpers.Retry, the retry helper of the RPC client between leader and followers, against Retry.helper_retry.
func runRetryHelper(c *Ctx) {
	var cs []gal.Term
	var rs []string
	for attempts := 0; attempts <= 5; attempts++ {
		for fails := 0; fails <= 6; fails++ {
			calls := 0
			err := helpers.Retry(func() error {
				calls++
				if calls <= fails {
					return errors.New("scripted failure")
				}
				return nil
			}, attempts, time.Millisecond)
			rep := map[string]interface{}{"kind": "helpers.Retry", "attempts": attempts, "leading_failures": fails, "calls": calls, "err": fmt.Sprint(err)}
			c.Count("retry-helper")
			c.Eval(fmt.Sprint("helpers.Retry ", attempts, fails), fails > 0)
			// monitor: every call failed and at least one was made => an error
			if attempts > 0 && fails >= attempts && err == nil {
				c.Violate("retry-helper-hides-failure", fmt.Sprintf("helpers.Retry with %d attempts, all failing, returned nil: a peer that does not answer is reported alive", attempts), rep)
			}
			cs = append(cs, gal.Tuple(gal.Nat(attempts), gal.Nat(fails), gal.Tuple(gal.Nat(calls), gal.Bool(err == nil))))
			rs = append(rs, J(rep))
		}
	}
	c.Emit("retryhelper", "calls and result of the real helpers.Retry vs Retry.helper_retry", []string{"Model.Retry", "Corr.CorrC10"},
		"nat * nat * (nat * bool)", "chk_helper_retry", cs, rs, 100)
}

// (G) the numbering a member holds is the last one announced: pairs of announcements published back to back on the bus of
// the real dynamic / kubernetesHa membership objects (one processor, as in a small container)
func init() {
	Children["c10order"] = func(raw json.RawMessage) {
		runtime.GOMAXPROCS(1)
		type res struct {
			Kind     string
			Pairs    int
			Reversed int
			Example  string
		}
		var out []res
		for _, kind := range []string{"dynamic", "kubernetesHa"} {
			bus := EventBus.New()
			var ms membership.Membership
			if kind == "dynamic" {
				ms = membership.NewDynamicMembership(bus)
			} else {
				ms = kubernetes.NewHaMembership(&config.Dcp{}, bus)
			}
			r := res{Kind: kind}
			for i := 0; i < 300; i++ {
				a := &membership.Model{MemberNumber: 1, TotalMembers: 2 + i%5}
				b := &membership.Model{MemberNumber: 1 + i%2, TotalMembers: 3 + i%5}
				bus.Publish(helpers.MembershipChangedBusEventName, a)
				bus.Publish(helpers.MembershipChangedBusEventName, b)
				bus.WaitAsync()
				got := ms.GetInfo()
				r.Pairs++
				if got.MemberNumber != b.MemberNumber || got.TotalMembers != b.TotalMembers {
					r.Reversed++
					if r.Example == "" {
						r.Example = fmt.Sprintf("announced %d/%d then %d/%d: in effect %d/%d", a.MemberNumber, a.TotalMembers, b.MemberNumber, b.TotalMembers, got.MemberNumber, got.TotalMembers)
					}
				}
			}
			out = append(out, r)
		}
		b, _ := json.Marshal(out)
		fmt.Println("RESULT " + string(b))
	}
}

func runAnnouncementOrder(c *Ctx) {
	cr := RunChild("c10order", map[string]int{}, 60*time.Second)
	rep := map[string]interface{}{"how": "vh child c10order (GOMAXPROCS 1)"}
	c.Count("announcement-order")
	c.Eval("announcement order", true)
	var res []struct {
		Kind     string
		Pairs    int
		Reversed int
		Example  string
	}
	for _, l := range cr.Lines {
		if strings.HasPrefix(l, "RESULT ") {
			_ = json.Unmarshal([]byte(l[7:]), &res)
		}
	}
	if res == nil {
		c.Violate("announcement-order", fmt.Sprintf("pairs of membership announcements: the process died (exit %d) %s", cr.ExitCode, cr.Fatal), rep)
		return
	}
	rep["observed"] = res
	for _, r := range res {
		if r.Reversed > 0 {
			c.Violate("announcement-order", fmt.Sprintf("%s membership: of %d pairs of announcements published back to back, %d left the older numbering in effect (%s)", r.Kind, r.Pairs, r.Reversed, r.Example), rep)
		}
	}
}

// (H) leader-assigned numbering through the real serviceDiscovery.SetInfo and the real kubernetesHa membership behind the
// real vBucketDiscovery: the group grows and shrinks, the members that stay keep their numbers; after every step the
// members' vBucket sets are an exact partition.
func runHaGroup(c *Ctx) {
	const nvb = 128
	type member struct {
		sd  servicediscovery.ServiceDiscovery
		vd  stream.VBucketDiscovery
		bus EventBus.Bus
	}
	mk := func() *member {
		cfg := &config.Dcp{}
		cfg.Dcp.Group.Membership.Type = membership.KubernetesHaMembershipType
		bus := EventBus.New()
		return &member{sd: servicediscovery.NewServiceDiscovery(cfg, bus), vd: stream.NewVBucketDiscovery(nil, cfg, nvb, bus), bus: bus}
	}
	var ms []*member
	steps := []int{2, 3, 4, 3, 5, 5, 1, 2}
	var hist []int
	for _, t := range steps {
		for len(ms) < t {
			ms = append(ms, mk())
		}
		ms = ms[:t]
		hist = append(hist, t)
		for k, m := range ms {
			m.sd.SetInfo(k+1, t)
			m.bus.WaitAsync()
		}
		owner := map[uint16]int{}
		rep := map[string]interface{}{"kind": "leader-assigned group through SetInfo", "group_sizes_so_far": hist, "vbuckets": nvb}
		c.Count("ha-group-step")
		c.Eval(fmt.Sprint("ha group ", hist), true)
		bad := ""
		for k, m := range ms {
			done := make(chan []uint16, 1)
			go func() { done <- m.vd.Get() }()
			var vbs []uint16
			select {
			case vbs = <-done:
			case <-time.After(2 * time.Second):
				bad = fmt.Sprintf("member %d never learnt its numbering", k+1)
			}
			for _, v := range vbs {
				if o, dup := owner[v]; dup && bad == "" {
					bad = fmt.Sprintf("vBucket %d is taken by member %d and by member %d (group size %d)", v, o, k+1, t)
				}
				owner[v] = k + 1
			}
		}
		if bad == "" && len(owner) != nvb {
			bad = fmt.Sprintf("%d of %d vBuckets have an owner (group size %d)", len(owner), nvb, t)
		}
		if bad != "" {
			c.Violate("ha-group-partition", "group sizes "+fmt.Sprint(hist)+" announced through serviceDiscovery.SetInfo, surviving members keeping their numbers: "+bad, rep)
			return
		}
	}
}
