package scen

import (
	"fmt"
	"os"
	"path/filepath"
	"sort"

	"github.com/Trendyol/go-dcp/config"
	"github.com/Trendyol/go-dcp/metadata"

	"verifharness/gal"
)

// One metadata.NewReadMetadata object over a history (Backends.ro_run): saves that reach the wrapped file backend directly
// (another consumer of the group), the file removed, saves attempted through the wrapper, loads through the wrapper with
// changing vBucket sets (a reopen after a rebalance). Every load must be what the wrapped backend answers at that moment.
func runC02ReadOnlyHistory(c *Ctx) {
	dir := filepath.Join(c.Out, "fsmeta-ro")
	must(os.MkdirAll(dir, 0o755))
	rng := c.Rng
	randDocs := func() map[uint16]SDoc {
		m := map[uint16]SDoc{}
		for i := 0; i < 1+rng.Intn(4); i++ {
			m[uint16(rng.Intn(8))] = SDoc{UUID: randU64(rng), Seq: randU64(rng), Start: randU64(rng), End: randU64(rng)}
		}
		return m
	}
	obsOf := func(md metadata.Metadata, vbs []uint16) (map[uint16]SDoc, bool, error) {
		st, ex, err := md.Load(vbs, "b")
		if err != nil {
			return nil, ex, err
		}
		r := map[uint16]SDoc{}
		for vb, d := range st.ToMap() {
			r[vb] = SDoc{UUID: d.Checkpoint.VbUUID, Seq: d.Checkpoint.SeqNo, Start: d.Checkpoint.Snapshot.StartSeqNo, End: d.Checkpoint.Snapshot.EndSeqNo}
		}
		return r, ex, nil
	}
	var cases []gal.Term
	var reps []string
	for i := 0; i < c.Pick(150, 2500); i++ {
		cfg := &config.Dcp{}
		cfg.Metadata.Type = "file"
		path := filepath.Join(dir, fmt.Sprintf("h%d.json", i))
		cfg.Metadata.Config = map[string]string{"fileName": path}
		fs := metadata.NewFSMetadata(cfg)
		f0 := gal.None()
		var init map[uint16]SDoc
		if rng.Intn(2) == 0 {
			init = randDocs()
			must(fs.Save(toModelsDocs(init), map[uint16]bool{}, "b"))
			f0 = gal.Some(docsTerm(init))
		}
		ro := metadata.NewReadMetadata(fs)
		var steps, obs []gal.Term
		var hist []interface{}
		loads := 0
		for j := 0; j < 3+rng.Intn(6); j++ {
			switch r := rng.Intn(8); {
			case r < 2:
				d := randDocs()
				must(fs.Save(toModelsDocs(d), map[uint16]bool{}, "b"))
				steps = append(steps, gal.App("RoBackendSave", docsTerm(d), gal.NList(nil)))
				hist = append(hist, map[string]interface{}{"backend_save": d})
			case r < 3:
				os.Remove(path)
				steps = append(steps, "RoBackendClear")
				hist = append(hist, "backend file removed")
			case r < 4:
				d := randDocs()
				before, _ := os.ReadFile(path)
				must(ro.Save(toModelsDocs(d), map[uint16]bool{}, "b"))
				after, _ := os.ReadFile(path)
				if string(before) != string(after) {
					c.Violate("readonly-wrote", "a save through the read-only metadata wrapper changed the checkpoint file", map[string]interface{}{"history": hist, "dump": d})
				}
				steps = append(steps, gal.App("RoSave", docsTerm(d), gal.NList(nil)))
				hist = append(hist, map[string]interface{}{"wrapper_save": d})
			default:
				var vbs []uint16
				seen := map[uint16]bool{}
				for k := 0; k < 1+rng.Intn(3); k++ {
					v := uint16(rng.Intn(8))
					if !seen[v] {
						seen[v] = true
						vbs = append(vbs, v)
					}
				}
				sort.Slice(vbs, func(a, b int) bool { return vbs[a] < vbs[b] })
				vt := make([]uint64, len(vbs))
				for k, v := range vbs {
					vt[k] = uint64(v)
				}
				got, ex, err := obsOf(ro, vbs)
				want, wex, _ := obsOf(fs, vbs)
				hist = append(hist, map[string]interface{}{"wrapper_load": vbs, "loaded": got, "exist": ex})
				if err != nil || ex != wex || fmt.Sprint(got) != fmt.Sprint(want) {
					c.Violate("readonly-load-differs", fmt.Sprintf("load number %d through one read-only wrapper (vBuckets %v) = %v/%v, the wrapped backend answers %v/%v",
						loads+1, vbs, got, ex, want, wex), map[string]interface{}{"how": "metadata.NewReadMetadata(metadata.NewFSMetadata(file)); steps in order", "initial_file": init, "history": hist})
				}
				loads++
				steps = append(steps, gal.App("RoLoad", gal.NList(vt)))
				obs = append(obs, gal.Tuple(docsTerm(got), gal.Bool(ex)))
			}
		}
		c.Eval(fmt.Sprint("roh", init, hist), loads >= 2)
		c.Count("read-only-history")
		cases = append(cases, gal.Tuple(f0, gal.List(steps), gal.List(obs)))
		reps = append(reps, J(map[string]interface{}{"kind": "read-only-history", "initial_file": init, "history": hist}))
		os.Remove(path)
	}
	c.Emit("rohist", "one metadata.NewReadMetadata object over a history vs Backends.ro_run",
		[]string{"Base.Bytes", "Model.Stream", "Model.Backends", "Corr.CorrStream", "Corr.CorrC02"},
		"option (list (N * doc)) * list ro_step * list (list (N * doc) * bool)", "chk_ro_seq", cases, reps, 300)
}
