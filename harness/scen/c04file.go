package scen

import (
	"encoding/json"
	"fmt"
	"os"
	"path/filepath"
	"sort"
	"strings"
	"time"

	"github.com/Trendyol/go-dcp/config"
	"github.com/Trendyol/go-dcp/metadata"
	"github.com/Trendyol/go-dcp/models"
)

// The file backend answers a load with every vBucket found in the checkpoint file, not only the ones asked for, and a save
// rewrites the whole file: after a rebalance that shrinks the range the stream holds positions of vBuckets it no longer
// owns. Monitors only (the model's store answers exactly what is asked, as the Couchbase backend does): the real stream on
// the real metadata.NewFSMetadata; acknowledgements that arrive after the rebalance for events of a vBucket that left
// the range must alter nothing -- offsets API, tracker, dirty marks, the file.
type c04FileRes struct {
	Tracked    map[uint16]uint64 // offsets API after the late acknowledgements
	TrackCalls []uint16          // TrackOffset calls caused by them
	DirtyAfter []uint16
	FileBefore map[uint16]uint64 // seqNo per vBucket in the file before / after the save that follows
	FileAfter  map[uint16]uint64
	OwnedAcked uint64   // control: a late acknowledgement for a vBucket still owned is applied
	Reopened   []uint16 // the vBuckets the reopen requested streams for
	Err        string
}

func readCheckpointFile(path string) map[uint16]uint64 {
	r := map[uint16]uint64{}
	b, err := os.ReadFile(path)
	if err != nil {
		return r
	}
	var m map[string]*models.CheckpointDocument
	if json.Unmarshal(b, &m) != nil {
		return r
	}
	for k, d := range m {
		var vb int
		fmt.Sscanf(k, "%d", &vb)
		if d != nil && d.Checkpoint != nil {
			r[uint16(vb)] = d.Checkpoint.SeqNo
		}
	}
	return r
}

func init() {
	Children["c04file"] = func(raw json.RawMessage) {
		var a struct{ Shrink [2]uint16 }
		must(json.Unmarshal(raw, &a))
		res := c04FileRes{}
		dir, err := os.MkdirTemp("", "c04file")
		must(err)
		defer os.RemoveAll(dir)
		path := filepath.Join(dir, "checkpoint.json")
		d := &SDriver{Cfg: SCfg{Colls: map[uint32]string{}}, Store: nil, sent: map[uint64]interface{}{}, MaxVb: 15}
		fcfg := &config.Dcp{}
		fcfg.Metadata.Type = "file"
		fcfg.Metadata.Config = map[string]string{"fileName": path}
		d.RealMeta = metadata.NewFSMetadata(fcfg)
		d.fresh()
		d.cfg.Dcp.Group.Membership.RebalanceDelay = 30 * time.Millisecond
		sv := &SServer{High: map[uint16]uint64{}, UUID: map[uint16]uint64{}}
		for vb := uint16(0); vb < 4; vb++ {
			sv.High[vb] = 50
			sv.UUID[vb] = 70 + uint64(vb)
		}
		d.Disc.Set(0, 3)
		d.setServer(sv)
		d.Stream.Open()
		// per vBucket: events 1..4; 1..2 acknowledged now, 3 and 4 delivered and acknowledged only after the rebalance
		late := map[uint16][]*models.ListenerContext{}
		for vb := uint16(0); vb < 4; vb++ {
			ob := d.Client.Observer(vb)
			d.deliver(ob, vb, &SEv{Kind: "marker", S: 0, E: 10})
			for seq := uint64(1); seq <= 4; seq++ {
				n := d.Cons.Count()
				d.deliver(ob, vb, &SEv{Kind: "mut", Item: &SItem{Seq: seq, Cas: 1, Key: []byte(fmt.Sprintf("k%d", seq)), Rest: uint64(vb)*100 + seq}})
				ctx := d.Cons.Ctx(n)
				if ctx == nil {
					res.Err = "an event did not reach the consumer"
					break
				}
				if seq <= 2 {
					ctx.Ack()
				} else {
					late[vb] = append(late[vb], ctx)
				}
			}
		}
		d.Stream.Save()
		res.FileBefore = readCheckpointFile(path)
		// the range shrinks; the reopen loads the whole file
		d.Disc.Set(a.Shrink[0], a.Shrink[1])
		d.Client.TakeOpens()
		d.Stream.Rebalance()
		deadline := time.Now().Add(3 * time.Second)
		for time.Now().Before(deadline) && !d.Stream.IsOpen() {
			time.Sleep(5 * time.Millisecond)
		}
		time.Sleep(50 * time.Millisecond)
		if !d.Stream.IsOpen() {
			res.Err = "the stream was not reopened within 3 s"
		}
		for _, oc := range d.Client.TakeOpens() {
			res.Reopened = append(res.Reopened, oc.VbID)
		}
		sort.Slice(res.Reopened, func(i, j int) bool { return res.Reopened[i] < res.Reopened[j] })
		d.Cons.Take()
		for vb := uint16(0); vb < 4; vb++ {
			for _, ctx := range late[vb] {
				ctx.Ack()
			}
		}
		_, tracks := d.Cons.Take()
		for _, t := range tracks {
			res.TrackCalls = append(res.TrackCalls, t.VbID)
		}
		offs, dirty, _ := d.Stream.GetOffsets()
		res.Tracked = map[uint16]uint64{}
		offs.Range(func(vb uint16, o *models.Offset) bool { res.Tracked[vb] = o.SeqNo; return true })
		dirty.Range(func(vb uint16, b bool) bool {
			if b {
				res.DirtyAfter = append(res.DirtyAfter, vb)
			}
			return true
		})
		d.Stream.Save()
		res.FileAfter = readCheckpointFile(path)
		res.OwnedAcked = res.Tracked[a.Shrink[0]]
		b, _ := json.Marshal(res)
		fmt.Println("RESULT " + string(b))
	}
}

func runC04File(c *Ctx) {
	shrinks := [][2]uint16{{0, 1}, {2, 3}, {1, 2}, {0, 0}}
	out := make([]ChildResult, len(shrinks))
	Parallel(len(shrinks), 4, func(i int) {
		out[i] = RunChild("c04file", map[string]interface{}{"Shrink": shrinks[i]}, 40*time.Second)
	})
	for i, sh := range shrinks {
		rep := map[string]interface{}{"how": "vh child c04file", "backend": "metadata.NewFSMetadata", "range_before": [2]int{0, 3}, "range_after": sh,
			"history": "per vBucket 0..3: events 1..4 delivered, 1..2 acknowledged; save; rebalance to the smaller range; events 3 and 4 of every vBucket acknowledged; save"}
		c.Count("file-backend-shrink")
		c.Eval(fmt.Sprint("file backend shrink ", sh), true)
		var res *c04FileRes
		for _, l := range out[i].Lines {
			if strings.HasPrefix(l, "RESULT ") {
				res = &c04FileRes{}
				_ = json.Unmarshal([]byte(l[7:]), res)
			}
		}
		if res == nil {
			c.Violate("file-backend-foreign-ack", fmt.Sprintf("file backend, range 0..3 -> %v: the process died (exit %d) %s", sh, out[i].ExitCode, out[i].Fatal), rep)
			continue
		}
		rep["observed"] = res
		if res.Err != "" {
			c.Note("c04file %v not driven: %s", sh, res.Err)
			continue
		}
		var wantReq []uint16
		for vb := sh[0]; vb <= sh[1]; vb++ {
			wantReq = append(wantReq, vb)
		}
		if fmt.Sprint(res.Reopened) != fmt.Sprint(wantReq) {
			c.Violate("file-backend-streams", fmt.Sprintf("file backend, range 0..3 -> %v: the reopen requested streams for %v; the member owns %v (the file also holds the checkpoints of the vBuckets that left)", sh, res.Reopened, wantReq), rep)
		}
		for vb := uint16(0); vb < 4; vb++ {
			owned := vb >= sh[0] && vb <= sh[1]
			if owned {
				// the positions acknowledged after the reopen are in the file after the save that followed
				if res.FileAfter[vb] != 4 {
					c.Violate("file-backend-save", fmt.Sprintf("file backend, range 0..3 -> %v: events up to 4 of vBucket %d were acknowledged and a save succeeded; the file has %d", sh, vb, res.FileAfter[vb]), rep)
				}
				continue
			}
			if _, ok := res.FileAfter[vb]; !ok {
				c.Violate("file-backend-save", fmt.Sprintf("file backend, range 0..3 -> %v: the checkpoint of vBucket %d (untouched by the last save) is gone from the file", sh, vb), rep)
				continue
			}
			switch {
			case res.Tracked[vb] != 2:
				c.Violate("file-backend-foreign-ack", fmt.Sprintf("file backend, range 0..3 -> %v: acknowledgements for vBucket %d, which left the range, moved its position in the offsets API from 2 to %d", sh, vb, res.Tracked[vb]), rep)
			case res.FileAfter[vb] != res.FileBefore[vb]:
				c.Violate("file-backend-foreign-ack", fmt.Sprintf("file backend, range 0..3 -> %v: the checkpoint of vBucket %d, which left the range, changed from %d to %d in the file", sh, vb, res.FileBefore[vb], res.FileAfter[vb]), rep)
			}
		}
		for _, vb := range res.TrackCalls {
			if vb < sh[0] || vb > sh[1] {
				c.Violate("file-backend-foreign-ack", fmt.Sprintf("file backend, range 0..3 -> %v: TrackOffset was called for vBucket %d, which left the range", sh, vb), rep)
			}
		}
		for _, vb := range res.DirtyAfter {
			if vb < sh[0] || vb > sh[1] {
				c.Violate("file-backend-foreign-ack", fmt.Sprintf("file backend, range 0..3 -> %v: vBucket %d, which left the range, was marked for saving", sh, vb), rep)
			}
		}
	}
}
