package scen

import (
	"fmt"
	"sort"
	"sync"

	"github.com/Trendyol/go-dcp/wrapper"

	"verifharness/gal"
)

// The container behind stream.offsets / stream.dirtyOffsets / the documents of a metadata load: operation sequences on
// the real wrapper.ConcurrentSwissMap[uint16, uint64] against Model/SwissMap.v, with a shadow Go map as the monitor.

type swOp struct {
	Kind string `json:"kind"` // store | delete | load | storeif | count | range | tomap | json
	K    uint16 `json:"k,omitempty"`
	V    uint64 `json:"v,omitempty"`
	Mode int    `json:"mode,omitempty"`
	Stop int    `json:"stop,omitempty"` // range: the callback says "stop" at this call (0: never)
	// pstore: stores of pairwise distinct keys issued by goroutines released together (one per vBucket, as
	// acknowledgements arrive); the model applies them in list order, which C05_container_stores_commute justifies
	Batch [][2]uint64 `json:"batch,omitempty"`
}

type swOut struct {
	Kind  string      `json:"kind"` // unit | load | count | range | map
	Found bool        `json:"found,omitempty"`
	V     uint64      `json:"v,omitempty"`
	N     int         `json:"n,omitempty"`
	Pairs [][2]uint64 `json:"pairs,omitempty"`
}

func swDecide(mode int, v uint64, prev uint64, found bool) (uint64, bool) {
	switch mode {
	case 0:
		return v, true
	case 1:
		return v, !found
	case 2:
		return v, found
	case 3:
		return v, !found || prev < v
	}
	return v, false
}

func swListing(m *wrapper.ConcurrentSwissMap[uint16, uint64]) [][2]uint64 {
	var ps [][2]uint64
	for k, v := range m.ToMap() {
		ps = append(ps, [2]uint64{uint64(k), v})
	}
	sort.Slice(ps, func(i, j int) bool { return ps[i][0] < ps[j][0] })
	return ps
}

// swRun executes ops on the real container; the returned string is what the shadow-map monitor objects to ("" = nothing).
func swRun(size uint64, ops []swOp) (outs []swOut, objection string, at int) {
	at = -1
	m := wrapper.CreateConcurrentSwissMap[uint16, uint64](size)
	shadow := map[uint16]uint64{}
	object := func(i int, f string, a ...interface{}) {
		if objection == "" {
			objection, at = fmt.Sprintf(f, a...), i
		}
	}
	sameAsShadow := func(i int, what string, ps [][2]uint64) {
		if len(ps) != len(shadow) {
			object(i, "%s lists %d entries, %d are held", what, len(ps), len(shadow))
			return
		}
		for _, p := range ps {
			if v, ok := shadow[uint16(p[0])]; !ok || v != p[1] {
				object(i, "%s lists %d -> %d, held: %d (present %v)", what, p[0], p[1], v, ok)
				return
			}
		}
	}
	for i, o := range ops {
		switch o.Kind {
		case "store":
			m.Store(o.K, o.V)
			shadow[o.K] = o.V
			outs = append(outs, swOut{Kind: "unit"})
		case "pstore":
			var wg sync.WaitGroup
			start := make(chan struct{})
			for _, kv := range o.Batch {
				wg.Add(1)
				go func(k uint16, v uint64) {
					defer wg.Done()
					<-start
					m.Store(k, v)
				}(uint16(kv[0]), kv[1])
			}
			close(start)
			wg.Wait()
			for _, kv := range o.Batch {
				shadow[uint16(kv[0])] = kv[1]
				outs = append(outs, swOut{Kind: "unit"})
			}
		case "delete":
			m.Delete(o.K)
			delete(shadow, o.K)
			outs = append(outs, swOut{Kind: "unit"})
		case "load":
			v, ok := m.Load(o.K)
			if sv, sok := shadow[o.K]; sok != ok || (ok && sv != v) {
				object(i, "Load(%d) = (%d, %v), held: (%d, %v)", o.K, v, ok, sv, sok)
			}
			if !ok {
				v = 0
			}
			outs = append(outs, swOut{Kind: "load", Found: ok, V: v})
		case "storeif":
			var seen uint64
			var seenFound bool
			calls := 0
			m.StoreIf(o.K, func(prev uint64, found bool) (uint64, bool) {
				calls++
				seen, seenFound = prev, found
				return swDecide(o.Mode, o.V, prev, found)
			})
			sv, sok := shadow[o.K]
			if calls != 1 || sok != seenFound || (sok && sv != seen) {
				object(i, "StoreIf(%d) showed its condition (%d, %v) in %d call(s), held: (%d, %v)", o.K, seen, seenFound, calls, sv, sok)
			}
			if nv, set := swDecide(o.Mode, o.V, sv, sok); set {
				shadow[o.K] = nv
			}
			if !seenFound {
				seen = 0
			}
			outs = append(outs, swOut{Kind: "load", Found: seenFound, V: seen})
		case "count":
			n := m.Count()
			if n != len(shadow) {
				object(i, "Count() = %d, %d entries are held", n, len(shadow))
			}
			outs = append(outs, swOut{Kind: "count", N: n})
		case "range":
			calls := 0
			visited := map[uint16]bool{}
			m.Range(func(k uint16, v uint64) bool {
				calls++
				if visited[k] {
					object(i, "Range visited key %d twice", k)
				}
				visited[k] = true
				if sv, ok := shadow[k]; !ok || sv != v {
					object(i, "Range showed %d -> %d, held: %d (present %v)", k, v, sv, ok)
				}
				return !(o.Stop > 0 && calls >= o.Stop)
			})
			want := len(shadow)
			if o.Stop > 0 && o.Stop < want {
				want = o.Stop
			}
			if calls != want {
				object(i, "Range (told to stop at call %d; 0 = never) made %d calls over %d entries", o.Stop, calls, len(shadow))
			}
			outs = append(outs, swOut{Kind: "range", N: calls})
		case "tomap":
			ps := swListing(m)
			sameAsShadow(i, "ToMap()", ps)
			outs = append(outs, swOut{Kind: "map", Pairs: ps})
		case "json":
			b, err := m.MarshalJSON()
			var ps [][2]uint64
			if err != nil {
				object(i, "MarshalJSON failed: %v", err)
			} else {
				m2 := wrapper.CreateConcurrentSwissMap[uint16, uint64](size)
				if err := m2.UnmarshalJSON(b); err != nil {
					object(i, "UnmarshalJSON of the container's own MarshalJSON failed: %v", err)
				}
				ps = swListing(m2)
				sameAsShadow(i, "the JSON round trip", ps)
			}
			outs = append(outs, swOut{Kind: "map", Pairs: ps})
		}
	}
	return
}

func swOpTerm(o swOp) gal.Term {
	switch o.Kind {
	case "store":
		return gal.App("SStore", gal.N(uint64(o.K)), gal.N(o.V))
	case "delete":
		return gal.App("SDelete", gal.N(uint64(o.K)))
	case "load":
		return gal.App("SLoad", gal.N(uint64(o.K)))
	case "storeif":
		return gal.App("SStoreIf", gal.N(uint64(o.K)), gal.N(uint64(o.Mode)), gal.N(o.V))
	case "count":
		return "SCount"
	case "range":
		if o.Stop > 0 {
			return gal.App("SRange", gal.Some(gal.Nat(o.Stop)))
		}
		return gal.App("SRange", gal.None())
	case "tomap":
		return "SToMap"
	}
	return "SJson"
}

func swOutTerm(o swOut) gal.Term {
	switch o.Kind {
	case "unit":
		return "OUnit"
	case "load":
		if o.Found {
			return gal.App("OLoad", gal.Some(gal.N(o.V)))
		}
		return gal.App("OLoad", gal.None())
	case "count":
		return gal.App("OCount", gal.Nat(o.N))
	case "range":
		return gal.App("ORange", gal.Nat(o.N))
	}
	ts := make([]gal.Term, len(o.Pairs))
	for i, p := range o.Pairs {
		ts[i] = gal.Tuple(gal.N(p[0]), gal.N(p[1]))
	}
	return gal.App("OMap", gal.List(ts))
}

func runSwissMap(c *Ctx) {
	var cases []gal.Term
	var reps []string
	n := c.Pick(300, 5000)
	for i := 0; i < n; i++ {
		// key universe: a handful (collisions, overwrites, deletes of present keys), a vBucket range, or all of uint16
		var universe int
		switch c.Rng.Intn(4) {
		case 0:
			universe = 4
		case 1:
			universe = 16
		case 2:
			universe = 1024
		default:
			universe = 65536
		}
		size := []uint64{0, 1, 8, 1024}[c.Rng.Intn(4)]
		length := 4 + c.Rng.Intn(40)
		if i%25 == 0 {
			length = 150 + c.Rng.Intn(150) // as many entries as a member holds vBuckets
		}
		var used []uint16
		key := func() uint16 {
			if len(used) > 0 && c.Rng.Intn(3) > 0 {
				return used[c.Rng.Intn(len(used))]
			}
			return uint16(c.Rng.Intn(universe))
		}
		val := func() uint64 {
			switch c.Rng.Intn(5) {
			case 0:
				return c.Rng.Uint64() // beyond 2^53: the JSON layer must not go through a float
			case 1:
				return 0
			default:
				return uint64(c.Rng.Intn(1000))
			}
		}
		ops := make([]swOp, 0, length+2)
		for j := 0; j < length; j++ {
			switch r := c.Rng.Intn(20); {
			case r < 8:
				k := key()
				used = append(used, k)
				ops = append(ops, swOp{Kind: "store", K: k, V: val()})
			case r < 10:
				ops = append(ops, swOp{Kind: "delete", K: key()})
			case r < 12:
				ops = append(ops, swOp{Kind: "load", K: key()})
			case r < 15:
				k := key()
				used = append(used, k)
				ops = append(ops, swOp{Kind: "storeif", K: k, Mode: c.Rng.Intn(5), V: val()})
			case r < 16:
				ops = append(ops, swOp{Kind: "count"})
			case r < 18:
				stop := 0
				if c.Rng.Intn(2) == 0 {
					stop = 1 + c.Rng.Intn(6)
				}
				ops = append(ops, swOp{Kind: "range", Stop: stop})
			case r < 19:
				ops = append(ops, swOp{Kind: "tomap"})
			default:
				if c.Rng.Intn(2) == 0 {
					ops = append(ops, swOp{Kind: "json"})
					break
				}
				nb := 2 + c.Rng.Intn(7)
				var batch [][2]uint64
				inBatch := map[uint16]bool{}
				for len(batch) < nb {
					k := key()
					if inBatch[k] {
						k = uint16(c.Rng.Intn(65536))
						if inBatch[k] {
							continue
						}
					}
					inBatch[k] = true
					used = append(used, k)
					batch = append(batch, [2]uint64{uint64(k), val()})
				}
				ops = append(ops, swOp{Kind: "pstore", Batch: batch})
				c.Count("container-concurrent-batch")
			}
		}
		ops = append(ops, swOp{Kind: "range"}, swOp{Kind: "tomap"})
		outs, objection, at := swRun(size, ops)
		c.Eval("swiss:"+J(ops), len(used) >= 2)
		c.Count("container-sequence")
		c.CountN("container-op", len(ops))
		if objection != "" {
			c.Violate("container", "wrapper.ConcurrentSwissMap, op "+fmt.Sprint(at)+" of the sequence: "+objection,
				map[string]interface{}{"how": "the ops on wrapper.CreateConcurrentSwissMap[uint16,uint64](size)", "size": size, "ops": ops[:at+1]})
		}
		var ot []gal.Term
		for _, o := range ops {
			if o.Kind == "pstore" {
				for _, kv := range o.Batch {
					ot = append(ot, gal.App("SStore", gal.N(kv[0]), gal.N(kv[1])))
				}
				continue
			}
			ot = append(ot, swOpTerm(o))
		}
		rt := make([]gal.Term, len(outs))
		for j, o := range outs {
			rt[j] = swOutTerm(o)
		}
		cases = append(cases, gal.Tuple(gal.List(ot), gal.List(rt)))
		reps = append(reps, J(map[string]interface{}{"kind": "container", "size": size, "ops": ops, "observed": outs}))
		if i == 0 {
			c.Sample(map[string]interface{}{"container_ops": ops[:minInt(len(ops), 8)], "observed": outs[:minInt(len(outs), 8)]})
		}
	}
	c.Emit("swiss", "wrapper.ConcurrentSwissMap against Model/SwissMap.v", []string{"Model.SwissMap", "Corr.CorrSwissMap"},
		"list sop * list sout", "chk_swiss", cases, reps, 100)
}
