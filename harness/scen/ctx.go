// Package scen holds the per-property scenario drivers.
package scen

import (
	"encoding/json"
	"fmt"
	"math/rand"
	"os"
	"path/filepath"
	"sort"

	"verifharness/gal"
)

// CaseFile is one generated Coq cases file together with a JSON rendering of each case for replays.
type CaseFile struct {
	Name    string   `json:"name"`  // file name relative to the out dir
	Kind    string   `json:"kind"`  // what the file compares
	Count   int      `json:"count"` // number of cases
	Replays []string `json:"-"`     // JSON of each case (index = case id)
}

// Violation is a property failure seen directly on the implementation by a monitor.
type Violation struct {
	Class  string      `json:"class"`  // failure class, matched against known_findings.json
	What   string      `json:"what"`   // human-readable
	Replay interface{} `json:"replay"` // concrete history / input
}

type Result struct {
	Property           string                 `json:"property"`
	Tier               string                 `json:"tier"`
	Seed               int64                  `json:"seed"`
	Evaluations        int                    `json:"evaluations"`
	DistinctNontrivial int                    `json:"distinct_nontrivial"`
	Rule               string                 `json:"rule"`
	Exhaustive         bool                   `json:"exhaustive"`
	Samples            []interface{}          `json:"samples"`
	Distribution       map[string]int         `json:"distribution"`
	Files              []*CaseFile            `json:"files"`
	Violations         []Violation            `json:"violations"`
	Notes              []string               `json:"notes"`
	Extra              map[string]interface{} `json:"extra,omitempty"`
}

type Ctx struct {
	ID       string
	Tier     string
	Seed     int64
	Out      string
	Rng      *rand.Rand
	Res      *Result
	Replay   string // path of a replay file to re-execute (optional)
	seen     map[string]bool
	Scratch  bool // a throw-away context (used while minimising): nothing is written
	shrunk   map[string]bool
	perClass map[string]int
}

func NewCtx(id, tier string, seed int64, out string) *Ctx {
	return &Ctx{
		ID: id, Tier: tier, Seed: seed, Out: out,
		Rng:  rand.New(rand.NewSource(seed)),
		Res:  &Result{Property: id, Tier: tier, Seed: seed, Distribution: map[string]int{}, Extra: map[string]interface{}{}},
		seen: map[string]bool{},
	}
}

func (c *Ctx) Thorough() bool { return c.Tier == "thorough" }

// Pick returns q for the quick tier and t for the thorough tier.
func (c *Ctx) Pick(q, t int) int {
	if c.Thorough() {
		return t
	}
	return q
}

func (c *Ctx) Count(key string)         { c.Res.Distribution[key]++ }
func (c *Ctx) CountN(key string, n int) { c.Res.Distribution[key] += n }

// Eval records one executed case; key identifies it for distinctness, nontrivial says whether it counts.
func (c *Ctx) Eval(key string, nontrivial bool) {
	c.Res.Evaluations++
	if nontrivial && !c.seen[key] {
		c.seen[key] = true
		c.Res.DistinctNontrivial++
	}
}

func (c *Ctx) Sample(v interface{}) {
	if len(c.Res.Samples) < 6 {
		c.Res.Samples = append(c.Res.Samples, v)
	}
}

func (c *Ctx) Violate(class, what string, replay interface{}) {
	// at most eight per class (a class recorded as a known finding must not crowd out a new one), 200 in all
	if c.perClass == nil {
		c.perClass = map[string]int{}
	}
	c.perClass[class]++
	if c.perClass[class] <= 8 && len(c.Res.Violations) < 200 {
		c.Res.Violations = append(c.Res.Violations, Violation{Class: class, What: what, Replay: replay})
		c.Finish() // keep what was found even if the library kills the process later
	}
}

func (c *Ctx) Note(f string, a ...interface{}) {
	c.Res.Notes = append(c.Res.Notes, fmt.Sprintf(f, a...))
}

// Emit writes a cases file (sharded to at most perFile cases each) and its replay side file.
func (c *Ctx) Emit(name, kind string, imports []string, caseType, checker string, cases []gal.Term, replays []string, perFile int) {
	if len(cases) == 0 {
		return
	}
	if perFile <= 0 {
		perFile = 400
	}
	for sh, off := 0, 0; off < len(cases); sh, off = sh+1, off+perFile {
		end := off + perFile
		if end > len(cases) {
			end = len(cases)
		}
		fn := fmt.Sprintf("cases_%s_%s_%03d.v", c.ID, name, sh)
		src := gal.CasesFile(imports, caseType, checker, cases[off:end])
		must(os.WriteFile(filepath.Join(c.Out, fn), []byte(src), 0o644))
		cf := &CaseFile{Name: fn, Kind: kind, Count: end - off}
		if replays != nil {
			rp := replays[off:end]
			b, _ := json.Marshal(rp)
			must(os.WriteFile(filepath.Join(c.Out, fn+".replays.json"), b, 0o644))
		}
		c.Res.Files = append(c.Res.Files, cf)
	}
}

func (c *Ctx) Finish() {
	if c.Scratch {
		return
	}
	keys := make([]string, 0, len(c.Res.Distribution))
	for k := range c.Res.Distribution {
		keys = append(keys, k)
	}
	sort.Strings(keys)
	b, err := json.MarshalIndent(c.Res, "", " ")
	must(err)
	must(os.WriteFile(filepath.Join(c.Out, "result.json"), b, 0o644))
}

func must(err error) {
	if err != nil {
		panic(err)
	}
}

func J(v interface{}) string {
	b, err := json.Marshal(v)
	if err != nil {
		return fmt.Sprintf("%q", fmt.Sprint(v))
	}
	return string(b)
}

// Registry of scenarios.
var Registry = map[string]func(*Ctx){}

type rngT = rand.Rand

func newRng(seed int64) *rand.Rand { return rand.New(rand.NewSource(seed)) }
