package scen

import (
	"bufio"
	"encoding/json"
	"errors"
	"fmt"
	"math/rand"
	"os"
	"path/filepath"
	"sort"
	"strings"
	"sync"
	"time"

	"github.com/couchbase/gocbcore/v10"
	"github.com/couchbase/gocbcore/v10/memd"

	dcp "github.com/Trendyol/go-dcp"
	"github.com/Trendyol/go-dcp/config"
	"github.com/Trendyol/go-dcp/couchbase"
	"github.com/Trendyol/go-dcp/membership"
	"github.com/Trendyol/go-dcp/metadata"
	"github.com/Trendyol/go-dcp/models"
	"github.com/Trendyol/go-dcp/stream"

	"verifharness/fakes"
	"verifharness/gal"
	"verifharness/simnode"
)

func init() {
	Registry["C02"] = runC02
	Registry["C15"] = runC15
	Children["c15"] = childC15
	HistMakers["c02"] = mkMaker(func(p *SParams, rng *rand.Rand) {
		p.WSave, p.WCrash, p.WReb, p.PSaveFail = 3, 1.2, 0.6, 0.15
		p.MaxVbs = 1 + rng.Intn(5)
		p.BigSeq = rng.Intn(3) == 0
		p.MaxOps = 20 + rng.Intn(40)
	})
}

var u64Extremes = []uint64{0, 1, 2, 1<<53 - 1, 1 << 53, 1<<53 + 1, 1<<63 - 1, 1 << 63, 1<<63 + 1, 1<<64 - 2, 1<<64 - 1, 4294967295, 4294967296}

func randU64(rng *rand.Rand) uint64 {
	if rng.Intn(3) == 0 {
		return u64Extremes[rng.Intn(len(u64Extremes))]
	}
	return rng.Uint64() >> uint(rng.Intn(64))
}

func docsTerm(m map[uint16]SDoc) gal.Term {
	ks := make([]int, 0, len(m))
	for k := range m {
		ks = append(ks, int(k))
	}
	sort.Ints(ks)
	ts := make([]gal.Term, len(ks))
	for i, k := range ks {
		ts[i] = gal.Tuple(gal.N(uint64(k)), m[uint16(k)].term())
	}
	return gal.List(ts)
}

func toModelsDocs(m map[uint16]SDoc) map[uint16]*models.CheckpointDocument {
	r := map[uint16]*models.CheckpointDocument{}
	for k, d := range m {
		r[k] = &models.CheckpointDocument{Checkpoint: &models.CheckpointDocumentCheckpoint{VbUUID: d.UUID, SeqNo: d.Seq,
			Snapshot: &models.CheckpointDocumentSnapshot{StartSeqNo: d.Start, EndSeqNo: d.End}}, BucketUUID: "b"}
	}
	return r
}

func runC02(c *Ctx) {
	c.Res.Rule = "(1) histories of the real stream with many save / crash / reopen / rebalance cycles, stores of every shape, 64-bit extremes, " +
		"both auto-reset settings and both modes: every stream request is compared with the model and, by the monitor, with the last persisted tuple; " +
		"(2) the real file backend and the read-only wrapper on random documents over the full uint64 range (save, then load, any subset of vBuckets). " +
		"Distinct = distinct op list / distinct (file, dump, vbs); non-trivial = at least one document with a field above 2^53 or at least two opens"
	nontriv := func(h *SHistory) bool {
		n := 0
		for _, op := range h.Ops {
			if op.Kind == "open" || op.Kind == "rebopen" {
				n++
			}
		}
		return n >= 2
	}
	mon := monitorStream("C02")
	runStreamHistories(c, "corpus", corpusSize, "corpus", nil, mon, ignoredMonitor)
	runStreamHistories(c, "c02", c.Pick(240, 4000), "c02", nontriv, mon, ignoredMonitor)

	// ---- file backend and read-only wrapper
	dir := filepath.Join(c.Out, "fsmeta")
	must(os.MkdirAll(dir, 0o755))
	rng := c.Rng
	randDocs := func() map[uint16]SDoc {
		m := map[uint16]SDoc{}
		for i := 0; i < 1+rng.Intn(5); i++ {
			m[uint16(rng.Intn(1024))] = SDoc{UUID: randU64(rng), Seq: randU64(rng), Start: randU64(rng), End: randU64(rng)}
		}
		return m
	}
	loadObs := func(md metadata.Metadata, vbs []uint16) (map[uint16]SDoc, bool, error) {
		st, ex, err := md.Load(vbs, "b")
		if err != nil {
			return nil, ex, err
		}
		r := map[uint16]SDoc{}
		for vb, d := range st.ToMap() {
			r[vb] = SDoc{UUID: d.Checkpoint.VbUUID, Seq: d.Checkpoint.SeqNo, Start: d.Checkpoint.Snapshot.StartSeqNo, End: d.Checkpoint.Snapshot.EndSeqNo}
		}
		return r, ex, nil
	}
	var fc, rc []gal.Term
	var fr, rr []string
	for i := 0; i < c.Pick(500, 6000); i++ {
		cfg := &config.Dcp{}
		cfg.Metadata.Type = "file"
		path := filepath.Join(dir, fmt.Sprintf("m%d.json", i))
		cfg.Metadata.Config = map[string]string{"fileName": path}
		fs := metadata.NewFSMetadata(cfg)
		f0 := gal.None()
		var init map[uint16]SDoc
		if rng.Intn(3) > 0 {
			init = randDocs()
			must(fs.Save(toModelsDocs(init), map[uint16]bool{}, "b"))
			f0 = gal.Some(docsTerm(init))
		}
		var vbs []uint16
		seenVb := map[uint16]bool{}
		for k := 0; k < 1+rng.Intn(4); k++ {
			v := uint16(rng.Intn(1024))
			if !seenVb[v] {
				seenVb[v] = true
				vbs = append(vbs, v)
			}
		}
		sort.Slice(vbs, func(a, b int) bool { return vbs[a] < vbs[b] })
		vbsT := make([]uint64, len(vbs))
		for k, v := range vbs {
			vbsT[k] = uint64(v)
		}
		dump := randDocs()
		var dirty []uint64
		dm := map[uint16]bool{}
		for vb := range dump {
			if rng.Intn(2) == 0 {
				dm[vb] = true
				dirty = append(dirty, uint64(vb))
			}
		}
		sort.Slice(dirty, func(a, b int) bool { return dirty[a] < dirty[b] })
		big := false
		for _, d := range dump {
			if d.Seq > 1<<53 || d.UUID > 1<<53 || d.Start > 1<<53 || d.End > 1<<53 {
				big = true
			}
		}
		if rng.Intn(2) == 0 {
			// plain file backend: optional save, then load
			sv := gal.None()
			if rng.Intn(4) > 0 {
				must(fs.Save(toModelsDocs(dump), dm, "b"))
				sv = gal.Some(gal.Tuple(docsTerm(dump), gal.NList(dirty)))
				got, ex, err := loadObs(fs, vbs)
				if err != nil || !ex || fmt.Sprint(got) != fmt.Sprint(dump) {
					c.Violate("lossy-roundtrip", fmt.Sprintf("file backend: saved %v, loaded %v (exist %v, err %v)", dump, got, ex, err), map[string]interface{}{"dump": dump})
				}
			}
			got, ex, err := loadObs(fs, vbs)
			if err != nil {
				c.Violate("load-error", err.Error(), nil)
				continue
			}
			fc = append(fc, gal.Tuple(f0, sv, gal.NList(vbsT), gal.Tuple(docsTerm(got), gal.Bool(ex))))
			fr = append(fr, J(map[string]interface{}{"kind": "file-backend", "initial": init, "saved": dump, "vbs": vbs, "loaded": got, "exist": ex}))
			c.Eval(fmt.Sprint("f", init, dump, vbs), big)
			c.Count("file-backend")
		} else {
			// read-only wrapper: nothing may be written, loads identical
			before, _ := os.ReadFile(path)
			ro := metadata.NewReadMetadata(fs)
			must(ro.Save(toModelsDocs(dump), dm, "b"))
			_ = ro.Clear(vbs)
			after, _ := os.ReadFile(path)
			if string(before) != string(after) {
				c.Violate("readonly-wrote", "the read-only metadata wrapper changed the checkpoint file", map[string]interface{}{"dump": dump})
			}
			got, ex, err := loadObs(ro, vbs)
			got2, ex2, _ := loadObs(fs, vbs)
			if err != nil || ex != ex2 || fmt.Sprint(got) != fmt.Sprint(got2) {
				c.Violate("readonly-load-differs", "load through the read-only wrapper differs from the load of the wrapped backend", nil)
			}
			rc = append(rc, gal.Tuple(f0, gal.Tuple(docsTerm(dump), gal.NList(dirty)), gal.NList(vbsT), gal.Tuple(docsTerm(got), gal.Bool(ex))))
			rr = append(rr, J(map[string]interface{}{"kind": "read-only", "initial": init, "save_attempt": dump, "vbs": vbs, "loaded": got, "exist": ex}))
			c.Eval(fmt.Sprint("r", init, dump, vbs), big)
			c.Count("read-only")
		}
		os.Remove(path)
	}
	im := []string{"Base.Bytes", "Model.Stream", "Model.Backends", "Corr.CorrStream", "Corr.CorrC02"}
	c.Emit("file", "metadata.NewFSMetadata save/load vs Backends.file_save/file_load", im,
		"option (list (N * doc)) * option (list (N * doc) * list N) * list N * (list (N * doc) * bool)", "chk_file", fc, fr, 300)
	runC02Wire(c)
	runC02ReadOnly(c)
	runC02ReadOnlyHistory(c)
	c.Emit("ro", "metadata.NewReadMetadata vs Backends.ro_save", im,
		"option (list (N * doc)) * (list (N * doc) * list N) * list N * (list (N * doc) * bool)", "chk_ro", rc, rr, 300)
}

// ---------------- C15 ----------------

type c15Case struct {
	Cfg                           SCfg
	Initial                       map[uint16]SDoc
	First                         uint16
	Last                          uint16
	Sv                            SServer
	LoadErr, SeqNoErr, FailLogErr bool
	OpenErr                       []uint16
	Partial                       bool   // the store answers like the file backend with an existing file
	Mode                          string // "open" | "reopen-fail" | "reopen-recover" | "bad-metadata-type"
}

// childC15 runs one start-up of the real stream; it dies if the library panics in one of its goroutines.
func childC15(raw json.RawMessage) {
	var k c15Case
	must(json.Unmarshal(raw, &k))
	w := bufio.NewWriter(os.Stdout)
	if k.Mode == "bad-metadata-type" {
		cfg := &config.Dcp{}
		cfg.Metadata.Type = "zzz"
		cfg.API.Disabled = true
		cfg.HealthCheck.Disabled = true
		cfg.RollbackMitigation.Disabled = true
		cfg.Dcp.Group.Membership.Type = membership.StaticMembershipType
		d := dcp.VerifNewDcp(cfg, fakes.NewStreamClient(), &fakes.Consumer{}, &couchbase.Version{Major: 7}, &couchbase.BucketInfo{})
		d.Start()
		fmt.Fprintln(w, "STARTED")
		w.Flush()
		return
	}
	d := NewSDriverOpt(k.Cfg, k.Initial, false)
	if k.LoadErr {
		d.Store.LoadErr = errors.New("scripted load failure")
	}
	if k.SeqNoErr {
		d.Client.SeqNoErr = errors.New("scripted seqno failure")
	}
	if k.FailLogErr {
		d.Client.FailLogErr = errors.New("scripted failover-log failure")
	}
	for _, vb := range k.OpenErr {
		d.Client.OpenErr[vb] = errors.New("scripted open failure")
	}
	d.Store.FileLike = k.Partial
	var omu sync.Mutex
	d.Client.OnOpen = func(vb uint16) {
		omu.Lock()
		fmt.Fprintf(w, "OPENCALL %d\n", vb)
		w.Flush()
		omu.Unlock()
	}
	if k.Mode == "end-during-open" {
		// while the stream of the last vBucket is still being requested, the stream of vBucket First (already open) ends with
		// a recoverable error: it has to be requested again although Open() has not returned yet
		var once sync.Once
		inner := d.Client.OnOpen
		d.Client.OnOpen = func(vb uint16) {
			inner(vb)
			if vb == k.Last {
				once.Do(func() {
					for t0 := time.Now(); time.Since(t0) < 2*time.Second && d.Client.Observer(k.First) == nil; time.Sleep(time.Millisecond) {
					}
					if ob := d.Client.Observer(k.First); ob != nil {
						ob.End(models.DcpStreamEnd{VbID: k.First}, gocbcore.ErrDCPStreamStateChanged)
						time.Sleep(150 * time.Millisecond) // the reopen request arrives while this one is still pending
					}
				})
			}
		}
	}
	d.Disc.Set(k.First, k.Last)
	d.setServer(&k.Sv)
	d.Stream.Open()
	time.Sleep(20 * time.Millisecond)
	outs := d.openOuts(d.Hand.Take())
	b, _ := json.Marshal(outs)
	fmt.Fprintf(w, "STARTED %s\n", b)
	w.Flush()
	if k.Mode == "end-during-open" {
		// the request of the reopen comes from a goroutine of the library: wait for it where it is due
		for t0 := time.Now(); time.Since(t0) < 3*time.Second; time.Sleep(10 * time.Millisecond) {
			n := 0
			for _, oc := range d.Client.Opens {
				if oc.VbID == k.First {
					n++
				}
			}
			if n >= 2 {
				break
			}
		}
		time.Sleep(100 * time.Millisecond)
	}
	if k.Mode == "reopen-fail" || k.Mode == "reopen-recover" {
		vb := k.First
		d.Client.OpenErr[vb] = errors.New("scripted reopen failure")
		if k.Mode == "reopen-recover" {
			go func() { time.Sleep(2500 * time.Millisecond); d.Client.SetOpenErr(vb, nil) }()
		}
		d.Client.Observer(vb).End(models.DcpStreamEnd{VbID: vb}, gocbcore.ErrSocketClosed)
		time.Sleep(6 * time.Second)
		fmt.Fprintln(w, "SURVIVED")
		w.Flush()
	}
}

func runC15(c *Ctx) {
	c.Res.Rule = "start-ups of the real stream in child processes (a panic in a library goroutine ends the child): every combination of " +
		"stored checkpoint below / equal / above the high seqno on two or three vBuckets x auto-reset x faults (load, seqno query, failover-log query, " +
		"open failure on any subset) and random ones; plus reopen retry exhaustion / recovery and the metadata / membership type switches. " +
		"Distinct = distinct case; non-trivial = a stored checkpoint exists or a fault is injected"
	rng := c.Rng
	var cases []c15Case
	rel := []int{-1, 0, 1}
	for _, latest := range []bool{false, true} {
		for _, r0 := range rel {
			for _, r1 := range rel {
				for _, has := range [][2]bool{{true, true}, {true, false}, {false, true}, {false, false}} {
					k := c15Case{Cfg: SCfg{Latest: latest, Colls: map[uint32]string{}}, Initial: map[uint16]SDoc{}, First: 0, Last: 1,
						Sv: SServer{High: map[uint16]uint64{}, UUID: map[uint16]uint64{0: 70, 1: 71}}, Mode: "open"}
					for vb, r := range []int{r0, r1} {
						hi := uint64(10 + 5*vb)
						k.Sv.High[uint16(vb)] = hi
						if has[vb] {
							s := uint64(int(hi) + r)
							st := s
							if st >= 3 {
								st = s - 3 // saved in the middle of a snapshot
							}
							k.Initial[uint16(vb)] = SDoc{UUID: 70 + uint64(vb), Seq: s, Start: st, End: s + 1}
						}
					}
					cases = append(cases, k)
				}
			}
		}
	}
	for i := 0; i < c.Pick(40, 400); i++ {
		n := 1 + rng.Intn(3)
		k := c15Case{Cfg: SCfg{Latest: rng.Intn(2) == 0, Finite: rng.Intn(3) == 0, Colls: map[uint32]string{}}, Initial: map[uint16]SDoc{}, First: uint16(rng.Intn(3)),
			Sv: SServer{High: map[uint16]uint64{}, UUID: map[uint16]uint64{}}, Mode: "open"}
		k.Last = k.First + uint16(n-1)
		for vb := k.First; vb <= k.Last; vb++ {
			hi := uint64(rng.Intn(30))
			k.Sv.High[vb] = hi
			k.Sv.UUID[vb] = uint64(100 + rng.Intn(900))
			if rng.Intn(2) == 0 {
				s := hi
				if rng.Intn(4) == 0 {
					s = hi + 1 + uint64(rng.Intn(3))
				} else if hi > 0 {
					s = uint64(rng.Intn(int(hi) + 1))
				}
				st := s - uint64(rng.Intn(int(minU(s, 3))+1))
				k.Initial[vb] = SDoc{UUID: k.Sv.UUID[vb], Seq: s, Start: st, End: s + uint64(rng.Intn(3))}
			}
		}
		switch rng.Intn(7) {
		case 6:
			k.Partial = len(k.Initial) > 0
		case 0:
			k.LoadErr = true
		case 1:
			k.SeqNoErr = true
		case 2:
			k.FailLogErr = true
		case 3, 4:
			for vb := k.First; vb <= k.Last; vb++ {
				if rng.Intn(2) == 0 {
					k.OpenErr = append(k.OpenErr, vb)
				}
			}
		}
		cases = append(cases, k)
	}
	// the failover-log query fails on a first start from `latest`: start-up must refuse whatever the vBuckets hold -- also
	// empty ones (high seqNo 0), alone or next to non-empty ones
	for n := 1; n <= 3; n++ {
		for pat := 0; pat < 1<<n; pat++ {
			for _, finite := range []bool{false, true} {
				k := c15Case{Cfg: SCfg{Latest: true, Finite: finite, Colls: map[uint32]string{}}, Initial: map[uint16]SDoc{}, First: 0, Last: uint16(n - 1),
					Sv: SServer{High: map[uint16]uint64{}, UUID: map[uint16]uint64{}}, Mode: "open", FailLogErr: true}
				for vb := 0; vb < n; vb++ {
					k.Sv.UUID[uint16(vb)] = 70 + uint64(vb)
					if pat&(1<<vb) != 0 {
						k.Sv.High[uint16(vb)] = 5
					} else {
						k.Sv.High[uint16(vb)] = 0
					}
				}
				cases = append(cases, k)
			}
		}
	}
	for _, have := range [][]uint16{{0}, {1}, {0, 1}, {0, 2}, {1, 2}, {0, 1, 2}} {
		k := c15Case{Cfg: SCfg{Colls: map[uint32]string{}}, Initial: map[uint16]SDoc{}, First: 0, Last: 2, Partial: true,
			Sv: SServer{High: map[uint16]uint64{0: 9, 1: 9, 2: 9}, UUID: map[uint16]uint64{0: 70, 1: 71, 2: 72}}, Mode: "open"}
		for _, vb := range have {
			k.Initial[vb] = SDoc{UUID: 70 + uint64(vb), Seq: 4, Start: 2, End: 6}
		}
		cases = append(cases, k)
	}
	special := []c15Case{
		{Mode: "reopen-fail", Cfg: SCfg{Colls: map[uint32]string{}}, Initial: map[uint16]SDoc{}, First: 0, Last: 0, Sv: SServer{High: map[uint16]uint64{0: 5}, UUID: map[uint16]uint64{0: 7}}},
		{Mode: "reopen-recover", Cfg: SCfg{Colls: map[uint32]string{}}, Initial: map[uint16]SDoc{}, First: 0, Last: 0, Sv: SServer{High: map[uint16]uint64{0: 5}, UUID: map[uint16]uint64{0: 7}}},
		{Mode: "bad-metadata-type"},
		{Mode: "end-during-open", Cfg: SCfg{Colls: map[uint32]string{}}, Initial: map[uint16]SDoc{}, First: 0, Last: 1, Sv: SServer{High: map[uint16]uint64{0: 5, 1: 5}, UUID: map[uint16]uint64{0: 7, 1: 8}}},
	}
	cases = append(cases, special...)

	type res struct {
		started  bool
		survived bool
		calls    int
		calls0   int
		callVbs  []uint16
		outs     []SOut
		exit     int
		stderr   string
	}
	results := make([]res, len(cases))
	Parallel(len(cases), 32, func(i int) {
		r := RunChild("c15", cases[i], 60*time.Second)
		x := res{exit: r.ExitCode, stderr: r.Stderr}
		for _, l := range r.Lines {
			switch {
			case strings.HasPrefix(l, "OPENCALL"):
				x.calls++
				if l == "OPENCALL 0" {
					x.calls0++
				}
				var v int
				if n, _ := fmt.Sscanf(l, "OPENCALL %d", &v); n == 1 {
					x.callVbs = append(x.callVbs, uint16(v))
				}
			case strings.HasPrefix(l, "STARTED"):
				x.started = true
				if len(l) > 8 {
					_ = json.Unmarshal([]byte(l[8:]), &x.outs)
				}
			case l == "SURVIVED":
				x.survived = true
			}
		}
		results[i] = x
	})

	var cs []gal.Term
	var rs []string
	for i, k := range cases {
		x := results[i]
		rep := map[string]interface{}{"case": k, "started": x.started, "open_calls": x.calls, "exit": x.exit, "stderr": tail(x.stderr, 300)}
		c.Eval(J(k), len(k.Initial) > 0 || k.LoadErr || k.SeqNoErr || k.FailLogErr || len(k.OpenErr) > 0 || k.Mode != "open")
		c.Count("mode:" + k.Mode)
		switch k.Mode {
		case "bad-metadata-type":
			if x.started || x.exit == 0 {
				c.Violate("unknown-type-accepted", "a client with an unknown metadata type started instead of terminating", rep)
			}
			continue
		case "end-during-open":
			if !x.started || x.calls0 != 2 {
				c.Violate("end-during-open-not-reopened", fmt.Sprintf("the stream of vBucket 0 ended with a recoverable error while Open() was still requesting vBucket 1: vBucket 0 was requested %d time(s), twice expected (started: %v)", x.calls0, x.started), rep)
			}
			continue
		case "reopen-fail":
			if x.survived {
				c.Violate("reopen-exhausted-but-running", "a vBucket could not be reopened in five attempts but the client kept running without it", rep)
			}
			continue
		case "reopen-recover":
			if !x.survived {
				c.Violate("reopen-recovery-died", "the reopen succeeded at the third attempt but the client terminated", rep)
			}
			continue
		}
		// monitor
		ahead, fault := false, k.LoadErr || k.SeqNoErr
		for vb, d := range k.Initial {
			if vb >= k.First && vb <= k.Last && d.Seq > k.Sv.High[vb] {
				ahead = true
			}
		}
		openFault := false
		for _, vb := range k.OpenErr {
			if vb >= k.First && vb <= k.Last {
				openFault = true
			}
		}
		anyStored := false
		for vb := range k.Initial {
			if vb >= k.First && vb <= k.Last {
				anyStored = true
			}
		}
		if k.FailLogErr && k.Cfg.Latest && !anyStored {
			fault = true
		}
		if k.Partial {
			for vb := k.First; vb <= k.Last; vb++ {
				if _, ok := k.Initial[vb]; !ok {
					openFault = true // an assigned vBucket has no offset: it cannot be opened
				}
			}
		}
		if (ahead || fault || openFault) && x.started {
			c.Violate("started-despite-fault", fmt.Sprintf("the session started although ahead=%v loadOrSeqnoFault=%v openFault=%v", ahead, fault, openFault), rep)
		}
		if !(ahead || fault || openFault) && !x.started {
			c.Violate("refused-without-cause", "the start-up terminated although nothing was wrong: "+tail(x.stderr, 200), rep)
		}
		// "never requests a stream from a position the server has not reached": the refusal is a panic in a goroutine of the
		// map library, and in the instants before the process dies the start-up may still ask for vBuckets whose checkpoints are
		// fine; what it must never ask for is a vBucket whose checkpoint lies beyond the server's high seqno
		for _, vb := range x.callVbs {
			if d, ok := k.Initial[vb]; ok && d.Seq > k.Sv.High[vb] {
				c.Violate("refusal-not-silent", fmt.Sprintf("a stream was requested for vb %d although its checkpoint (%d) lies beyond the server's high seqno (%d)", vb, d.Seq, k.Sv.High[vb]), rep)
			}
		}
		var obs gal.Term
		if x.started {
			var reqs []gal.Term
			n := 0
			for _, o := range x.outs {
				if o.Kind == "openreq" {
					n++
					reqs = append(reqs, gal.Tuple(gal.N(uint64(o.Vb)), o.Off.term()))
					if o.Off.Seq > k.Sv.High[o.Vb] {
						c.Violate("request-beyond-high", fmt.Sprintf("vb %d requested from %d, high seqno %d", o.Vb, o.Off.Seq, k.Sv.High[o.Vb]), rep)
					}
				}
			}
			if n != int(k.Last-k.First)+1 {
				c.Violate("partial-open", fmt.Sprintf("%d of %d assigned vBuckets were requested", n, int(k.Last-k.First)+1), rep)
			}
			obs = gal.App("OStarted", gal.List(reqs))
		} else {
			obs = "ONotStarted"
		}
		oe := make([]uint64, len(k.OpenErr))
		for j, v := range k.OpenErr {
			oe[j] = uint64(v)
		}
		cs = append(cs, gal.Tuple(k.Cfg.term(), docsTerm(k.Initial), gal.N(uint64(k.First)), gal.N(uint64(k.Last)), k.Sv.term(),
			gal.App("Faults", gal.Bool(k.LoadErr), gal.Bool(k.SeqNoErr), gal.Bool(k.FailLogErr), gal.NList(oe), gal.Bool(k.Partial)), obs))
		rs = append(rs, J(rep))
		if i == 5 || i == 80 {
			c.Sample(rep)
		}
	}
	// unknown membership type: panics in the caller
	func() {
		defer func() {
			if recover() == nil {
				c.Violate("unknown-type-accepted", "an unknown membership type was accepted by NewVBucketDiscovery", nil)
			}
		}()
		cfg := &config.Dcp{}
		cfg.Dcp.Group.Membership.Type = "no-such-type"
		stream.NewVBucketDiscovery(nil, cfg, 8, nil)
	}()
	c.Count("membership-type-switch")
	c.Emit("startup", "stream.Open outcome in a child process vs Backends.startup", []string{"Base.Bytes", "Model.Stream", "Model.Backends", "Corr.CorrStream", "Corr.CorrC15"},
		"cfg * list (N * doc) * N * N * server * faults * observed", "chk_startup", cs, rs, 60)
	// "after the bounded retries on re-open": the retry loop of reopenStream against Model/Retry.v
	runC12Retry(c)
	// the real file backend with files that cannot serve the assignment
	runC15File(c)
}

// runC02Wire drives the real cbMetadata (xattr checkpoint documents) against the simulated node.
func runC02Wire(c *Ctx) {
	rng := c.Rng
	var cs []gal.Term
	var rs []string
	for i := 0; i < c.Pick(40, 400); i++ {
		group := []string{"g", "grp-1", "a:b", "x_y", "Z9"}[rng.Intn(5)]
		cfg := &config.Dcp{}
		cfg.Metadata.Type = "couchbase"
		cfg.Dcp.Group.Name = group
		cfg.Checkpoint.Timeout = 2 * time.Second
		w, err := newWire(cfg, simnode.Config{NumVBuckets: 16})
		if err != nil {
			c.Violate("harness", "cannot start the simulated node: "+err.Error(), nil)
			return
		}
		md := couchbase.NewCBMetadata(w.Client, cfg)
		randDocs := func() map[uint16]SDoc {
			m := map[uint16]SDoc{}
			for k := 0; k < 1+rng.Intn(5); k++ {
				m[uint16(rng.Intn(1024))] = SDoc{UUID: randU64(rng), Seq: randU64(rng), Start: randU64(rng), End: randU64(rng)}
			}
			return m
		}
		all := func(m map[uint16]SDoc) map[uint16]bool {
			r := map[uint16]bool{}
			for k := range m {
				r[k] = true
			}
			return r
		}
		var init map[uint16]SDoc
		if rng.Intn(3) > 0 {
			init = randDocs()
			if err := md.Save(toModelsDocs(init), all(init), ""); err != nil {
				c.Violate("save-error", "cbMetadata.Save failed on the simulated node: "+err.Error(), nil)
			}
		}
		dump := randDocs()
		for vb := range init { // overlap with what is stored
			if rng.Intn(2) == 0 {
				dump[vb] = SDoc{UUID: randU64(rng), Seq: randU64(rng), Start: randU64(rng), End: randU64(rng)}
			}
		}
		dm := map[uint16]bool{}
		var dirty []uint64
		for vb := range dump {
			if rng.Intn(2) == 0 {
				dm[vb] = true
				dirty = append(dirty, uint64(vb))
			}
		}
		sort.Slice(dirty, func(a, b int) bool { return dirty[a] < dirty[b] })
		w.Node.ResetLog()
		if err := md.Save(toModelsDocs(dump), dm, ""); err != nil {
			c.Violate("save-error", "cbMetadata.Save failed on the simulated node: "+err.Error(), nil)
		}
		// keys of the documents written (mutations only), ascending by vBucket as the model lists them
		written := map[string]bool{}
		for _, r := range w.Node.Requests() {
			if r.Opcode == memd.CmdSubDocMultiMutation || r.Opcode == memd.CmdSet {
				written[string(r.Key)] = true
			}
		}
		var keys []gal.Term
		for _, vb := range dirty {
			k := "_connector:cbgo:" + group + ":checkpoint:" + fmt.Sprint(vb)
			if written[k] {
				keys = append(keys, gal.Bytes([]byte(k)))
				delete(written, k)
			}
		}
		for k := range written {
			c.Violate("unexpected-write", "cbMetadata.Save wrote a document it should not have: "+k, map[string]interface{}{"dirty": dirty, "group": group})
			keys = append(keys, gal.Bytes([]byte(k)))
		}
		var vbs []uint16
		seen := map[uint16]bool{}
		for vb := range dump {
			if rng.Intn(2) == 0 && !seen[vb] {
				seen[vb] = true
				vbs = append(vbs, vb)
			}
		}
		for vb := range init {
			if rng.Intn(2) == 0 && !seen[vb] {
				seen[vb] = true
				vbs = append(vbs, vb)
			}
		}
		if v := uint16(rng.Intn(1024)); !seen[v] {
			vbs = append(vbs, v)
		}
		sort.Slice(vbs, func(a, b int) bool { return vbs[a] < vbs[b] })
		vbsT := make([]uint64, len(vbs))
		for k, v := range vbs {
			vbsT[k] = uint64(v)
		}
		st, ex, err := md.Load(vbs, "")
		if err != nil {
			c.Violate("load-error", err.Error(), nil)
			w.Close()
			continue
		}
		got := map[uint16]SDoc{}
		for vb, d := range st.ToMap() {
			got[vb] = SDoc{UUID: d.Checkpoint.VbUUID, Seq: d.Checkpoint.SeqNo, Start: d.Checkpoint.Snapshot.StartSeqNo, End: d.Checkpoint.Snapshot.EndSeqNo}
		}
		for _, vb := range vbs { // monitor: lossless, only flagged documents change
			want, stored := init[vb]
			if d, ok := dump[vb]; ok && dm[vb] {
				want, stored = d, true
			}
			if stored && got[vb] != want {
				c.Violate("lossy-roundtrip", fmt.Sprintf("vb %d: stored %+v, loaded %+v", vb, want, got[vb]), nil)
			}
		}
		cs = append(cs, gal.Tuple(gal.Bytes([]byte(group)), docsTerm(init), gal.Tuple(docsTerm(dump), gal.NList(dirty)), gal.NList(vbsT), gal.Tuple(docsTerm(got), gal.Bool(ex)), gal.List(keys)))
		rs = append(rs, J(map[string]interface{}{"kind": "cb-metadata", "group": group, "initial": init, "dump": dump, "dirty": dirty, "vbs": vbs, "loaded": got, "exist": ex}))
		c.Eval(fmt.Sprint("cb", group, init, dump, dirty, vbs), true)
		c.Count("cb-metadata-wire")
		w.Close()
	}
	im := []string{"Base.Bytes", "Model.Stream", "Model.Backends", "Model.Keys", "Corr.CorrStream", "Corr.CorrC02"}
	c.Emit("cb", "real cbMetadata Save/Load against the simulated node vs Backends.cb_save/cb_load and Keys.checkpoint_id", im,
		"bytes * list (N * doc) * (list (N * doc) * list N) * list N * (list (N * doc) * bool) * list bytes", "chk_cb", cs, rs, 100)
}
