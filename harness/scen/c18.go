package scen

import (
	"fmt"
	"math"
	"strconv"
	"strings"

	"github.com/Trendyol/go-dcp/couchbase"

	"verifharness/gal"
)

func init() { Registry["C18"] = runC18 }

type ver [4]int

func (v ver) real() *couchbase.Version {
	return &couchbase.Version{Major: v[0], Minor: v[1], Patch: v[2], Build: v[3]}
}
func (v ver) term() gal.Term {
	return gal.Tuple(gal.Z(int64(v[0])), gal.Z(int64(v[1])), gal.Z(int64(v[2])), gal.Z(int64(v[3])))
}
func lexCmp(a, b ver) int {
	for i := 0; i < 4; i++ {
		if a[i] != b[i] {
			if a[i] > b[i] {
				return 1
			}
			return -1
		}
	}
	return 0
}

var c18Gates = []ver{{5, 5, 0, 0}, {6, 5, 0, 0}, {7, 2, 0, 0}}

func runC18(c *Ctx) {
	c.Res.Rule = "version tuples from a dense grid around the gates 5.5.0, 6.5.0, 7.2.0 (each component in gate-1, gate, gate+1, 0, -1, two- and three-digit values, large): " +
		"every grid version against every gate and against itself, random pairs and triples; version strings: rendered well-formed " +
		"(M, M.m, M.m.p, M.m.p-b, M.m.p-b-edition, editions containing '.' and '-') and a malformed stream. Distinct = distinct pair / string; " +
		"non-trivial = the two versions differ in some component but agree on the major (the comparison has to look past the first field), or the string has >= 3 fields"
	comp := [][]int{
		{-1, 0, 4, 5, 6, 7, 8, math.MaxInt32, math.MaxInt64},
		{-1, 0, 1, 2, 3, 4, 5, 6, 10, 15, math.MaxInt64},
		{-1, 0, 1, 2, 9, 10, 11, 100, math.MaxInt64},
		{-1, 0, 1, 5325, math.MaxInt64},
	}
	var grid []ver
	for _, a := range comp[0] {
		for _, b := range comp[1] {
			for _, d := range comp[2] {
				for _, e := range comp[3] {
					grid = append(grid, ver{a, b, d, e})
				}
			}
		}
	}
	var cmpCases []gal.Term
	var cmpR []string
	doPair := func(a, b ver) {
		ra, rb := a.real(), b.real()
		h, l, e := ra.Higher(rb), ra.Lower(rb), ra.Equal(rb)
		key := fmt.Sprint(a, b)
		c.Eval(key, a[0] == b[0] && a != b)
		c.Count("pair")
		// monitors: trichotomy, agreement with the lexicographic order, antisymmetry
		n := 0
		for _, x := range []bool{h, l, e} {
			if x {
				n++
			}
		}
		want := lexCmp(a, b)
		if n != 1 || (want > 0) != h || (want < 0) != l || (want == 0) != e {
			c.Violate("order", fmt.Sprintf("versions %v and %v: Higher=%v Lower=%v Equal=%v (lexicographic comparison says %d)", a, b, h, l, e, want),
				map[string]interface{}{"a": a, "b": b})
		}
		if h && rb.Higher(ra) {
			c.Violate("order", fmt.Sprintf("antisymmetry: %v and %v are each Higher than the other", a, b), map[string]interface{}{"a": a, "b": b})
		}
		cmpCases = append(cmpCases, gal.Tuple(a.term(), b.term(), gal.Tuple(gal.Bool(h), gal.Bool(l), gal.Bool(e))))
		cmpR = append(cmpR, J(map[string]interface{}{"kind": "compare", "a": a, "b": b, "higher": h, "lower": l, "equal": e}))
	}
	for _, v := range grid {
		for _, g := range c18Gates {
			doPair(v, g)
			if c.Thorough() {
				doPair(g, v)
			}
		}
	}
	nPairs := c.Pick(6000, 80000)
	for i := 0; i < nPairs; i++ {
		a := grid[c.Rng.Intn(len(grid))]
		b := a
		switch c.Rng.Intn(4) {
		case 0:
			b = grid[c.Rng.Intn(len(grid))]
		default: // perturb one or two components so that comparisons go deep
			for k := 0; k < 1+c.Rng.Intn(2); k++ {
				j := c.Rng.Intn(4)
				b[j] = comp[j][c.Rng.Intn(len(comp[j]))]
			}
		}
		doPair(a, b)
	}
	// transitivity and gate monotonicity on triples (monitor only)
	for i := 0; i < c.Pick(100000, 1000000); i++ {
		a, b, d := grid[c.Rng.Intn(len(grid))], grid[c.Rng.Intn(len(grid))], grid[c.Rng.Intn(len(grid))]
		if c.Rng.Intn(2) == 0 {
			b = a
			b[c.Rng.Intn(4)] = comp[3][c.Rng.Intn(len(comp[3]))]
			d = b
			d[c.Rng.Intn(4)] = comp[2][c.Rng.Intn(len(comp[2]))]
		}
		if a.real().Higher(b.real()) && b.real().Higher(d.real()) && !a.real().Higher(d.real()) {
			c.Violate("order", fmt.Sprintf("transitivity: %v > %v > %v but not %v > %v", a, b, d, a, d), map[string]interface{}{"a": a, "b": b, "c": d})
		}
		c.Count("triple")
	}
	c.Sample(map[string]interface{}{"a": grid[100], "b": c18Gates[2], "higher": grid[100].real().Higher(c18Gates[2].real())})

	// parser
	var pc []gal.Term
	var pR []string
	doStr := func(s string, denotes *ver) {
		v, err := couchbase.VerifParseVersion(s)
		var obs gal.Term = gal.None()
		if err == nil && v != nil {
			obs = gal.Some(ver{v.Major, v.Minor, v.Patch, v.Build}.term())
		}
		c.Eval("s:"+s, strings.Count(s, ".") >= 2)
		c.Count("string")
		if denotes != nil {
			if err != nil || v == nil || (ver{v.Major, v.Minor, v.Patch, v.Build}) != *denotes {
				c.Violate("parse", fmt.Sprintf("version string %q denotes %v but parsed to %+v (err=%v)", s, *denotes, v, err), map[string]interface{}{"string": s})
			}
		}
		// monitor for malformed strings: each of the first three dot-separated fields that is present must be an integer
		// (the third up to its first '-'); a string that breaks this denotes no version
		if err == nil && v != nil {
			fs := strings.Split(s, ".")
			for k := 0; k < len(fs) && k < 3; k++ {
				f := fs[k]
				if k == 2 {
					f = strings.Split(f, "-")[0]
				}
				if _, e := strconv.Atoi(f); e != nil {
					c.Violate("parse", fmt.Sprintf("version string %q was accepted as %+v although its field %d (%q) is not an integer", s, *v, k+1, f), map[string]interface{}{"string": s})
					break
				}
			}
		}
		pc = append(pc, gal.Tuple(gal.Bytes([]byte(s)), obs))
		pR = append(pR, J(map[string]interface{}{"kind": "parse", "string": s, "parsed": v, "err": fmt.Sprint(err)}))
	}
	nums := []int{0, 1, 2, 5, 6, 7, 10, 72, 5325, 99999, math.MaxInt32, math.MaxInt64}
	eds := []string{"enterprise", "community", "", "ee.x", "a-b", "1234", "-", "."}
	pickN := func() int { return nums[c.Rng.Intn(len(nums))] }
	for i := 0; i < c.Pick(1500, 20000); i++ {
		v := ver{pickN(), pickN(), pickN(), pickN()}
		ed := eds[c.Rng.Intn(len(eds))]
		it := strconv.Itoa
		switch c.Rng.Intn(6) {
		case 0:
			d := ver{v[0], 0, 0, 0}
			doStr(it(v[0]), &d)
		case 1:
			d := ver{v[0], v[1], 0, 0}
			doStr(it(v[0])+"."+it(v[1]), &d)
		case 2:
			d := ver{v[0], v[1], v[2], 0}
			doStr(it(v[0])+"."+it(v[1])+"."+it(v[2]), &d)
		case 3:
			doStr(it(v[0])+"."+it(v[1])+"."+it(v[2])+"-"+it(v[3]), &v)
		default:
			doStr(it(v[0])+"."+it(v[1])+"."+it(v[2])+"-"+it(v[3])+"-"+ed, &v)
		}
	}
	doStr("7.2.0-5325-enterprise", &ver{7, 2, 0, 5325})
	doStr("7.6.3-4200-enterprise", &ver{7, 6, 3, 4200})
	c.Sample(map[string]interface{}{"string": "7.2.0-5325-enterprise"})
	mal := []string{"", ".", "..", "a", "a.b", "7..0", "7.2.x", " 7.2", "7 .2", "+7.2.0", "-1.2.3", "7.-2.0", "7.2.0-abc-enterprise", "7.2.0-", "7.2.0--1",
		"7.2.0-99999999999999999999-e", "99999999999999999999", "7.99999999999999999999", "7.2.-", "7.2.0-5_3", "7.2.0-+5", "7.2.0x-5", "0x7.2", "7.2.0.1", "7.2.0.1-9-e",
		"9223372036854775807.1", "9223372036854775808.1", "-9223372036854775808", "-9223372036854775809", "7.2.0-9223372036854775808", "7.2.0--9223372036854775809-x", "٧.2"}
	for _, s := range mal {
		doStr(s, nil)
	}
	alphabet := []byte("0123456789.-+ ae")
	for i := 0; i < c.Pick(600, 8000); i++ {
		n := c.Rng.Intn(12)
		b := make([]byte, n)
		for j := range b {
			b[j] = alphabet[c.Rng.Intn(len(alphabet))]
		}
		doStr(string(b), nil)
	}

	im := []string{"Base.Bytes", "Model.Version", "Corr.CorrC18"}
	c.Emit("cmp", "Higher/Lower/Equal of the real Version vs Version.higher/lower/equal", im, "(Z * Z * Z * Z) * (Z * Z * Z * Z) * (bool * bool * bool)", "chk_cmp", cmpCases, cmpR, 800)
	c.Emit("parse", "nodeVersionFromString (hook VerifParseVersion) vs Version.parse", im, "bytes * option (Z * Z * Z * Z)", "chk_parse", pc, pR, 500)
	runSerialGate(c)
}
