package scen

import (
	"fmt"
	"math/rand"
	"os"
	"path/filepath"
	"strconv"
	"strings"
	"time"

	dcp "github.com/Trendyol/go-dcp"
	"github.com/Trendyol/go-dcp/config"
	"github.com/Trendyol/go-dcp/helpers"

	"verifharness/gal"
)

func init() { Registry["C17"] = runC17 }

func zdur(d time.Duration) gal.Term { return gal.Z(int64(d)) }
func bstr(s string) gal.Term        { return gal.Bytes([]byte(s)) }
func optZ(v *int64) gal.Term {
	if v == nil {
		return gal.None()
	}
	return gal.Some(gal.Z(*v))
}
func anyToOptZ(a any) gal.Term {
	switch v := a.(type) {
	case nil:
		return gal.None()
	case int:
		return gal.Some(gal.Z(int64(v)))
	case uint:
		return gal.Some(gal.Z(int64(v)))
	}
	return gal.Raw("(Some (-1)%Z)") // strings are resolved by the callers of the library, not by ApplyDefaults
}

func confTerm(c *config.Dcp) gal.Term {
	cn := gal.None()
	if c.CollectionNames != nil {
		ts := make([]gal.Term, len(c.CollectionNames))
		for i, n := range c.CollectionNames {
			ts[i] = bstr(n)
		}
		cn = gal.Some(gal.List(ts))
	}
	return gal.App("Conf",
		zdur(c.RollbackMitigation.Interval), zdur(c.RollbackMitigation.ConfigWatchInterval),
		zdur(c.Checkpoint.Interval), zdur(c.Checkpoint.Timeout), bstr(c.Checkpoint.Type), bstr(c.Checkpoint.AutoReset),
		zdur(c.HealthCheck.Interval), zdur(c.HealthCheck.Timeout),
		zdur(c.Dcp.Group.Membership.RebalanceDelay), gal.Z(int64(c.Dcp.Group.Membership.TotalMembers)), gal.Z(int64(c.Dcp.Group.Membership.MemberNumber)), bstr(c.Dcp.Group.Membership.Type),
		zdur(c.Dcp.ConnectionTimeout), zdur(c.ConnectionTimeout),
		cn, bstr(c.ScopeName), anyToOptZ(c.ConnectionBufferSize), gal.Z(int64(c.MaxQueueSize)), bstr(c.Metric.Path), gal.Z(int64(c.API.Port)),
		bstr(c.LeaderElection.Type), gal.Z(int64(c.LeaderElection.RPC.Port)),
		anyToOptZ(c.Dcp.BufferSize), anyToOptZ(c.Dcp.ConnectionBufferSize), gal.Z(int64(c.Dcp.MaxQueueSize)), bstr(c.Metadata.Type))
}

func applyDefaultsSafe(c *config.Dcp) (ok bool) {
	defer func() {
		if recover() != nil {
			ok = false
		}
	}()
	c.ApplyDefaults()
	return true
}

func runC17(c *Ctx) {
	c.Res.Rule = "random configurations with any subset of options explicitly set to non-zero values (and the two environment overrides " +
		"unset / valid / invalid): ApplyDefaults once and twice; random override maps for the three derived-setting getters; size-unit spellings " +
		"(integers, decimals with point or comma, blanks, any letter case, plain ints, malformed); config files with ${VAR} placeholders through the " +
		"real newDcpConfig (hook). Distinct = distinct input; non-trivial = at least one option set / one override / a unit suffix / one placeholder"
	rng := c.Rng
	pickDur := func() time.Duration {
		if rng.Intn(2) == 0 {
			return 0
		}
		return time.Duration(1+rng.Intn(100000)) * time.Millisecond
	}
	pickInt := func() int {
		if rng.Intn(2) == 0 {
			return 0
		}
		return 1 + rng.Intn(70000)
	}
	pickStr := func(vals ...string) string {
		if rng.Intn(2) == 0 {
			return ""
		}
		return vals[rng.Intn(len(vals))]
	}
	pickAny := func() any {
		switch rng.Intn(3) {
		case 0:
			return nil
		case 1:
			return 1 + rng.Intn(1<<30)
		}
		return uint(1 + rng.Intn(1<<30))
	}
	// ---- ApplyDefaults
	var dc []gal.Term
	var dr []string
	for i := 0; i < c.Pick(1500, 20000); i++ {
		cfg := &config.Dcp{}
		cfg.RollbackMitigation.Interval, cfg.RollbackMitigation.ConfigWatchInterval = pickDur(), pickDur()
		cfg.Checkpoint.Interval, cfg.Checkpoint.Timeout = pickDur(), pickDur()
		cfg.Checkpoint.Type, cfg.Checkpoint.AutoReset = pickStr("auto", "manual", "x"), pickStr("earliest", "latest")
		cfg.HealthCheck.Interval, cfg.HealthCheck.Timeout = pickDur(), pickDur()
		cfg.Dcp.Group.Membership.RebalanceDelay = pickDur()
		cfg.Dcp.Group.Membership.TotalMembers, cfg.Dcp.Group.Membership.MemberNumber = pickInt(), pickInt()
		cfg.Dcp.Group.Membership.Type = pickStr("static", "couchbase", "dynamic", "kubernetesHa")
		cfg.Dcp.ConnectionTimeout, cfg.ConnectionTimeout = pickDur(), pickDur()
		if rng.Intn(2) == 0 {
			cfg.CollectionNames = []string{"c1", "c2"}[:rng.Intn(3)]
		}
		cfg.ScopeName = pickStr("s1", "_default", "scope")
		cfg.ConnectionBufferSize = pickAny()
		cfg.MaxQueueSize = pickInt()
		cfg.Metric.Path = pickStr("/m", "/metrics", "/x/y")
		cfg.API.Port = pickInt()
		cfg.LeaderElection.Type = pickStr("kubernetes", "other")
		cfg.LeaderElection.RPC.Port = pickInt()
		cfg.Dcp.BufferSize, cfg.Dcp.ConnectionBufferSize = pickAny(), pickAny()
		cfg.Dcp.MaxQueueSize = pickInt()
		cfg.Metadata.Type = pickStr("couchbase", "file", "zzz")
		in := *cfg
		inT := confTerm(&in)
		envT := []gal.Term{gal.None(), gal.None()}
		envS := [2]string{}
		for k, name := range []string{"GO_DCP__DCP_GROUP_MEMBERSHIP_TOTALMEMBERS", "GO_DCP__DCP_GROUP_MEMBERSHIP_MEMBERNUMBER"} {
			os.Unsetenv(name)
			switch rng.Intn(6) {
			case 0:
				v := strconv.Itoa(rng.Intn(50))
				os.Setenv(name, v)
				envT[k], envS[k] = gal.Some(bstr(v)), v
			case 1:
				v := []string{"abc", "1.5", " 3", "+7", "-2", "99999999999999999999"}[rng.Intn(6)]
				os.Setenv(name, v)
				envT[k], envS[k] = gal.Some(bstr(v)), v
			}
		}
		ok1 := applyDefaultsSafe(cfg)
		o1, o2 := gal.None(), gal.None()
		var first config.Dcp
		if ok1 {
			first = *cfg
			o1 = gal.Some(confTerm(cfg))
			if applyDefaultsSafe(cfg) {
				o2 = gal.Some(confTerm(cfg))
				// monitors: idempotent, explicit values kept
				if string(confTerm(cfg)) != string(confTerm(&first)) {
					c.Violate("not-idempotent", "applying the defaults twice differs from applying them once", map[string]interface{}{"input": in, "env": envS})
				}
			}
			if in.Checkpoint.Interval != 0 && first.Checkpoint.Interval != in.Checkpoint.Interval || in.MaxQueueSize != 0 && first.MaxQueueSize != in.MaxQueueSize ||
				in.Metric.Path != "" && first.Metric.Path != in.Metric.Path || in.API.Port != 0 && first.API.Port != in.API.Port ||
				in.RollbackMitigation.Interval != 0 && first.RollbackMitigation.Interval != in.RollbackMitigation.Interval ||
				in.Dcp.Group.Membership.RebalanceDelay != 0 && first.Dcp.Group.Membership.RebalanceDelay != in.Dcp.Group.Membership.RebalanceDelay {
				c.Violate("explicit-value-altered", "an explicitly set option was changed by ApplyDefaults", map[string]interface{}{"input": in, "output": first})
			}
			if first.Checkpoint.Interval == 0 || first.Checkpoint.Type == "" || first.MaxQueueSize == 0 || first.API.Port == 0 || first.Metadata.Type == "" || first.ScopeName == "" || first.CollectionNames == nil || first.Dcp.BufferSize == nil {
				c.Violate("not-filled", "an option is still unset after ApplyDefaults", map[string]interface{}{"input": in, "output": first})
			}
			for k, get := range []func(*config.Dcp) int{func(x *config.Dcp) int { return x.Dcp.Group.Membership.TotalMembers }, func(x *config.Dcp) int { return x.Dcp.Group.Membership.MemberNumber }} {
				if v, err := strconv.Atoi(envS[k]); envS[k] != "" && err == nil && get(&first) != v {
					c.Violate("env-ignored", fmt.Sprintf("environment override %q did not take precedence: got %d", envS[k], get(&first)), map[string]interface{}{"input": in, "env": envS})
				}
			}
		}
		os.Unsetenv("GO_DCP__DCP_GROUP_MEMBERSHIP_TOTALMEMBERS")
		os.Unsetenv("GO_DCP__DCP_GROUP_MEMBERSHIP_MEMBERNUMBER")
		c.Eval(string(inT)+fmt.Sprint(envS), string(inT) != string(confTerm(&config.Dcp{})))
		c.Count("defaults")
		dc = append(dc, gal.Tuple(gal.App("Env", envT[0], envT[1]), inT, o1, o2))
		dr = append(dr, J(map[string]interface{}{"kind": "apply-defaults", "input": in, "env": envS, "output": first, "panicked": !ok1}))
		if i == 0 {
			c.Sample(map[string]interface{}{"input": in, "env": envS, "output": first})
		}
	}
	im := []string{"Base.Bytes", "Model.Config", "Corr.CorrC17"}
	c.Emit("defaults", "ApplyDefaults once and twice vs Config.apply_defaults", im, "envv * conf * option conf * option conf", "chk_defaults", dc, dr, 250)

	// ---- derived settings
	var mc, bc, kc []gal.Term
	var mr, br, kr []string
	optS := func(m map[string]string, key string, vals ...string) gal.Term {
		if rng.Intn(2) == 0 {
			return gal.None()
		}
		v := vals[rng.Intn(len(vals))]
		m[key] = v
		return gal.Some(bstr(v))
	}
	optD := func(m map[string]string, key string) gal.Term {
		if rng.Intn(2) == 0 {
			return gal.None()
		}
		d := time.Duration(1+rng.Intn(500000)) * time.Millisecond
		m[key] = d.String()
		return gal.Some(zdur(d))
	}
	for i := 0; i < c.Pick(600, 8000); i++ {
		cfg := &config.Dcp{Hosts: []string{"h1:8091", "h2"}[:1+rng.Intn(2)], Username: "u" + strconv.Itoa(rng.Intn(9)), Password: "p", BucketName: "b" + strconv.Itoa(rng.Intn(9)),
			SecureConnection: rng.Intn(2) == 0, RootCAPath: pickStr("/ca")}
		cfg.Metadata.Type = "couchbase"
		// the scope and the collections of the streamed data are none of the metadata connection's business
		cfg.ScopeName = pickStr("tenant_a", "_default", "")
		cfg.CollectionNames = []string{"c1", "c2"}[:rng.Intn(3)]
		m := map[string]string{}
		cfg.Metadata.Config = m
		hostsT := gal.None()
		if rng.Intn(2) == 0 {
			m["hosts"] = "a:1,b:2"
			hostsT = gal.Some(gal.List([]gal.Term{bstr("a:1"), bstr("b:2")}))
		}
		o := []gal.Term{hostsT, optS(m, "username", "mu"), optS(m, "password", "mp"), optS(m, "bucket", "mb"), optS(m, "scope", "ms"), optS(m, "collection", "mc")}
		mq, cb := gal.None(), gal.None()
		if rng.Intn(2) == 0 {
			v := 1 + rng.Intn(9999)
			m["maxQueueSize"] = strconv.Itoa(v)
			mq = gal.Some(gal.Z(int64(v)))
		}
		if rng.Intn(2) == 0 {
			v := 1 + rng.Intn(64)
			m["connectionBufferSize"] = strconv.Itoa(v) + "mb"
			cb = gal.Some(gal.Z(int64(v) << 20))
		}
		sec := gal.None()
		if rng.Intn(2) == 0 {
			b := rng.Intn(2) == 0
			m["secureConnection"] = strconv.FormatBool(b)
			sec = gal.Some(gal.Bool(b))
		}
		o = append(o, mq, cb, optD(m, "connectionTimeout"), sec, optS(m, "rootCAPath", "/x"))
		r := cfg.GetCouchbaseMetadata()
		// monitor: scope and collection of the metadata connection are their own keys or "_default", whatever the streamed data uses
		for _, f := range [][3]string{{"scope", r.Scope, "_default"}, {"collection", r.Collection, "_default"}} {
			want := f[2]
			if v, ok := m[f[0]]; ok {
				want = v
			}
			if f[1] != want {
				c.Violate("override-not-keywise", fmt.Sprintf("couchbase metadata, main scope %q, collections %v, overrides %v: %s is %q, expected %q", cfg.ScopeName, cfg.CollectionNames, m, f[0], f[1], want),
					map[string]interface{}{"main_scope": cfg.ScopeName, "overrides": m, "result": r})
			}
		}
		hs := make([]gal.Term, len(cfg.Hosts))
		for k, h := range cfg.Hosts {
			hs[k] = bstr(h)
		}
		rh := make([]gal.Term, len(r.Hosts))
		for k, h := range r.Hosts {
			rh[k] = bstr(h)
		}
		mainT := gal.App("Main", gal.List(hs), bstr(cfg.Username), bstr(cfg.Password), bstr(cfg.BucketName), gal.Bool(cfg.SecureConnection), bstr(cfg.RootCAPath))
		resT := gal.App("CbMeta", gal.List(rh), bstr(r.Username), bstr(r.Password), bstr(r.Bucket), bstr(r.Scope), bstr(r.Collection), gal.Z(int64(r.MaxQueueSize)),
			gal.Z(int64(r.ConnectionBufferSize)), zdur(r.ConnectionTimeout), gal.Bool(r.SecureConnection), bstr(r.RootCAPath))
		mc = append(mc, gal.Tuple(mainT, gal.App("CbMetaOv", o...), resT))
		mr = append(mr, J(map[string]interface{}{"kind": "couchbase-metadata", "main": cfg, "overrides": m, "result": r}))
		c.Eval("md"+fmt.Sprint(m, cfg.Username, cfg.BucketName), len(m) > 0)
		c.Count("cb-metadata")

		// membership
		gm := map[string]string{}
		cfg2 := &config.Dcp{}
		cfg2.Dcp.Group.Membership.Config = gm
		ex := gal.None()
		if rng.Intn(2) == 0 {
			v := rng.Intn(100000)
			gm["expirySeconds"] = strconv.Itoa(v)
			ex = gal.Some(gal.Z(int64(v)))
		}
		ot := gal.Tuple(ex, optD(gm, "heartbeatInterval"), optD(gm, "heartbeatToleranceDuration"), optD(gm, "monitorInterval"), optD(gm, "timeout"))
		rm := cfg2.GetCouchbaseMembership()
		bc = append(bc, gal.Tuple(ot, gal.App("CbMember", gal.Z(int64(rm.ExpirySeconds)), zdur(rm.HeartbeatInterval), zdur(rm.HeartbeatToleranceDuration), zdur(rm.MonitorInterval), zdur(rm.Timeout))))
		// monitor (C17 "override key-wise"): a key sets its own field, a field without a key keeps its default
		{
			def := (&config.Dcp{}).GetCouchbaseMembership()
			for _, f := range []struct {
				key      string
				got, def time.Duration
			}{{"heartbeatInterval", rm.HeartbeatInterval, def.HeartbeatInterval}, {"heartbeatToleranceDuration", rm.HeartbeatToleranceDuration, def.HeartbeatToleranceDuration},
				{"monitorInterval", rm.MonitorInterval, def.MonitorInterval}, {"timeout", rm.Timeout, def.Timeout}} {
				want := f.def
				if v, ok := gm[f.key]; ok {
					if pd, err := time.ParseDuration(v); err == nil {
						want = pd
					}
				}
				if f.got != want {
					c.Violate("override-not-keywise", fmt.Sprintf("couchbase membership, overrides %v: %s is %v, expected %v", gm, f.key, f.got, want), map[string]interface{}{"overrides": gm, "result": rm})
				}
			}
		}
		br = append(br, J(map[string]interface{}{"kind": "couchbase-membership", "overrides": gm, "result": rm}))
		c.Count("cb-membership")
		// leader elector
		lm := map[string]string{"leaseLockName": "l", "leaseLockNamespace": "n"}
		cfg3 := &config.Dcp{}
		cfg3.LeaderElection.Config = lm
		kt := gal.Tuple(optD(lm, "leaseDuration"), optD(lm, "renewDeadline"), optD(lm, "retryPeriod"))
		rk := cfg3.GetKubernetesLeaderElector()
		kc = append(kc, gal.Tuple(kt, gal.App("K8s", zdur(rk.LeaseDuration), zdur(rk.RenewDeadline), zdur(rk.RetryPeriod))))
		{
			def := (&config.Dcp{LeaderElection: config.LeaderElection{Config: map[string]string{"leaseLockName": "l", "leaseLockNamespace": "n"}}}).GetKubernetesLeaderElector()
			for _, f := range []struct {
				key      string
				got, def time.Duration
			}{{"leaseDuration", rk.LeaseDuration, def.LeaseDuration}, {"renewDeadline", rk.RenewDeadline, def.RenewDeadline}, {"retryPeriod", rk.RetryPeriod, def.RetryPeriod}} {
				want := f.def
				if v, ok := lm[f.key]; ok {
					if pd, err := time.ParseDuration(v); err == nil {
						want = pd
					}
				}
				if f.got != want {
					c.Violate("override-not-keywise", fmt.Sprintf("kubernetes leader elector, overrides %v: %s is %v, expected %v", lm, f.key, f.got, want), map[string]interface{}{"overrides": lm, "result": rk})
				}
			}
		}
		kr = append(kr, J(map[string]interface{}{"kind": "k8s-elector", "overrides": lm, "result": rk}))
		c.Count("k8s-elector")
	}
	c.Emit("cbmeta", "GetCouchbaseMetadata vs Config.cb_metadata", im, "main_conn * cbmeta_ov * cbmeta", "chk_cbmeta", mc, mr, 300)
	c.Emit("member", "GetCouchbaseMembership vs Config.cb_membership", im, "(option Z * option Z * option Z * option Z * option Z) * cbmember", "chk_member", bc, br, 400)
	c.Emit("k8s", "GetKubernetesLeaderElector vs Config.k8s_elector", im, "(option Z * option Z * option Z) * k8s", "chk_k8s", kc, kr, 400)

	// ---- units
	var uc []gal.Term
	var ur []string
	doUnit := func(in any, expect *int64) {
		var got *int64
		func() {
			defer func() { recover() }()
			v := int64(helpers.ResolveUnionIntOrStringValue(in))
			got = &v
		}()
		var it gal.Term
		switch v := in.(type) {
		case int:
			it = gal.App("UInt", gal.Z(int64(v)))
		case uint:
			it = gal.App("UUint", gal.Z(int64(v)))
		case string:
			it = gal.App("UStr", bstr(v))
		}
		if expect != nil && got != nil && (*got-*expect == 1 || *expect-*got == 1) && (*expect > 1<<43 || *expect < -(1<<43)) {
			// the conversion goes through float64: above 2^43 the truncated exact product can be missed by one (known finding)
			c.Violate("unit-float-rounding", fmt.Sprintf("size %q resolved to %d, the exact product truncated is %d", in, *got, *expect), map[string]interface{}{"input": in})
			c.Count("unit-float-rounding")
			return // not a case for the model, which computes exactly
		}
		if expect != nil && (got == nil || *got != *expect) {
			g := "a panic"
			if got != nil {
				g = fmt.Sprint(*got)
			}
			c.Violate("unit-wrong", fmt.Sprintf("size %q resolved to %s, expected %d", in, g, *expect), map[string]interface{}{"input": in})
		}
		c.Eval("u:"+fmt.Sprint(in), true)
		c.Count("unit")
		uc = append(uc, gal.Tuple(it, optZ(got)))
		ur = append(ur, J(map[string]interface{}{"kind": "unit", "input": in, "result": got}))
	}
	units := []string{"kb", "mb", "gb"}
	for i := 0; i < c.Pick(3000, 40000); i++ {
		k := rng.Intn(3)
		u := units[k]
		ub := []byte(u)
		for j := range ub {
			if rng.Intn(2) == 0 {
				ub[j] -= 32
			}
		}
		sp := strings.Repeat(" ", rng.Intn(3))
		if rng.Intn(10) == 0 {
			sp = "\t"
		}
		mult := int64(1) << (10 * uint(k+1))
		switch rng.Intn(5) {
		case 0, 1: // integer
			n := int64(rng.Intn(90000))
			if k == 0 && rng.Intn(4) == 0 {
				n = rng.Int63n(1 << 40)
			}
			e := n * mult
			doUnit(strconv.FormatInt(n, 10)+sp+string(ub), &e)
		case 2, 3: // decimal, point or comma, f <= 4 digits
			f := 1 + rng.Intn(4)
			ip := int64(rng.Intn(20000))
			fp := int64(rng.Intn(pow10(f)))
			sepc := []string{".", ","}[rng.Intn(2)]
			s := fmt.Sprintf("%d%s%0*d", ip, sepc, f, fp)
			m := ip*int64(pow10(f)) + fp
			e := m * mult / int64(pow10(f))
			if sg := rng.Intn(12); sg == 0 {
				s, e = "-"+s, -e
			}
			doUnit(s+sp+string(ub), &e)
		default: // plain ints
			n := rng.Int63n(1 << 40)
			e := n
			switch rng.Intn(3) {
			case 0:
				doUnit(int(n), &e)
			case 1:
				doUnit(uint(n), &e)
			default:
				doUnit(strconv.FormatInt(n, 10), &e)
			}
		}
	}
	{ // the witness of the known finding runs every time
		e := int64(19839242174096)
		doUnit("18476.7341 Gb", &e)
	}
	for _, s := range []string{"", "k", "kb", " kb", "12xb", "12b", "1.2.3kb", "abc", "12 k b", "1,5", "1..5mb", ".mb", "5.mb", ".5mb", "+3kb", "--3kb", "3 tb", "12KB ", " 12kb", "0kb", "007mb", "1,0gb"} {
		doUnit(s, nil)
	}
	c.Emit("units", "ResolveUnionIntOrStringValue vs Config.resolve", im, "uinput * option Z", "chk_units", uc, ur, 500)

	// ---- placeholders through the real newDcpConfig
	var sc []gal.Term
	var sr []string
	dir := filepath.Join(c.Out, "cfgfiles")
	must(os.MkdirAll(dir, 0o755))
	names := []string{"VH_A", "VH_B", "VH_LONGER_NAME", "VH_D"}
	fields := []string{"username", "password", "bucketName", "scopeName", "rootCAPath"}
	for i := 0; i < c.Pick(300, 3000); i++ {
		env := map[string]string{}
		var envT []gal.Term
		for _, n := range names {
			os.Unsetenv(n)
			if rng.Intn(3) > 0 {
				v := []string{"val", "x-y_z", "p4ss", "a b", "12", "q"}[rng.Intn(6)]
				os.Setenv(n, v)
				env[n] = v
				envT = append(envT, gal.Tuple(bstr(n), bstr(v)))
			}
		}
		vals := map[string]string{}
		var sb strings.Builder
		sb.WriteString("hosts: [\"localhost:8091\"]\n")
		for _, f := range fields {
			if rng.Intn(3) == 0 {
				continue
			}
			var v strings.Builder
			for k := 0; k < 1+rng.Intn(3); k++ {
				switch rng.Intn(3) {
				case 0:
					v.WriteString("lit" + strconv.Itoa(rng.Intn(9)))
				default:
					v.WriteString("${" + names[rng.Intn(len(names))] + "}")
				}
			}
			vals[f] = v.String()
			fmt.Fprintf(&sb, "%s: \"%s\"\n", f, v.String())
		}
		file := sb.String()
		path := filepath.Join(dir, fmt.Sprintf("c%d.yaml", i))
		must(os.WriteFile(path, []byte(file), 0o644))
		got, err := dcp.VerifLoadConfig(path)
		os.Remove(path)
		if err != nil {
			c.Violate("config-load", "newDcpConfig failed on a generated file: "+err.Error(), map[string]interface{}{"file": file, "env": env})
			continue
		}
		// compare field by field with the model's substitution of the field's own text
		gotF := map[string]string{"username": got.Username, "password": got.Password, "bucketName": got.BucketName, "scopeName": got.ScopeName, "rootCAPath": got.RootCAPath}
		for f, raw := range vals {
			want := raw
			for n, v := range env {
				want = strings.ReplaceAll(want, "${"+n+"}", v)
			}
			if gotF[f] != want {
				c.Violate("placeholder", fmt.Sprintf("option %s: %q with %v gave %q, expected %q", f, raw, env, gotF[f], want), map[string]interface{}{"file": file, "env": env})
			}
			sc = append(sc, gal.Tuple(gal.List(envT), bstr(raw), bstr(gotF[f])))
			sr = append(sr, J(map[string]interface{}{"kind": "placeholder", "field": f, "text": raw, "env": env, "result": gotF[f]}))
			c.Eval("ph:"+raw+fmt.Sprint(env), strings.Contains(raw, "${"))
			c.Count("placeholder-field")
		}
	}
	for _, n := range names {
		os.Unsetenv(n)
	}
	c.Emit("subst", "newDcpConfig placeholder substitution (per option text) vs Config.subst_env", im, "list (bytes * bytes) * bytes * bytes", "chk_subst", sc, sr, 400)
	runC17NewDcp(c)
}

func pow10(f int) int {
	r := 1
	for i := 0; i < f; i++ {
		r *= 10
	}
	return r
}

var _ = rand.Int
