package scen

import (
	"bufio"
	"encoding/json"
	"fmt"
	"math/rand"
	"os"
	"strings"
	"sync"
	"time"

	"verifharness/gal"
)

func init() { Registry["SCORE"] = runScore }

// StreamMonitor inspects one executed history and reports property failures.
type StreamMonitor func(c *Ctx, h *SHistory)

// HistMakers are the named history generators; children look them up by name.
var HistMakers = map[string]func(i int, rng *rand.Rand) *SHistory{}

type shistArg struct {
	Maker string
	Seeds []int64
	Idx   []int
}

func init() {
	Children["shist"] = func(raw json.RawMessage) {
		var a shistArg
		must(json.Unmarshal(raw, &a))
		mk := HistMakers[a.Maker]
		w := bufio.NewWriter(os.Stdout)
		for k, seed := range a.Seeds {
			fmt.Fprintf(w, "BEGIN %d\n", k)
			w.Flush()
			h := mk(a.Idx[k], rand.New(rand.NewSource(seed)))
			b, err := json.Marshal(h)
			must(err)
			fmt.Fprintf(w, "HIST %d %s\n", k, b)
			w.Flush()
		}
	}
}

// runStreamHistories generates n histories with the named maker, in child processes (a panic in a
// goroutine of the library ends only that child and is reported with the seed of the history it was
// running), runs the monitors on each and emits them as correspondence cases.
func runStreamHistories(c *Ctx, name string, n int, maker string, nontrivial func(h *SHistory) bool, mons ...StreamMonitor) []*SHistory {
	hs, seeds := collectHistories(c, n, maker)
	var cases []gal.Term
	var reps []string
	var got []*SHistory
	for i, h := range hs {
		if h == nil {
			continue
		}
		got = append(got, h)
		key := J(h.Ops)
		c.Eval(key, nontrivial == nil || nontrivial(h))
		c.CountN("ops", len(h.Ops))
		for _, op := range h.Ops {
			c.Count("op:" + op.Kind)
		}
		for _, os := range h.Outs {
			for _, o := range os {
				c.Count("out:" + o.Kind)
			}
		}
		nv := len(c.Res.Violations)
		for _, m := range mons {
			m(c, h)
		}
		c.minimise(h, nv, mons)
		cases = append(cases, h.caseTerm())
		reps = append(reps, J(map[string]interface{}{"kind": name, "maker": maker, "seed": seeds[i], "cfg": h.Cfg, "initial_store": h.Initial, "ops": h.Ops, "observed": h.Outs, "final": h.Digest}))
		if len(got) <= 2 {
			c.Sample(map[string]interface{}{"cfg": h.Cfg, "initial_store": h.Initial, "ops": h.Ops, "observed_outputs": h.Outs})
		}
	}
	c.Emit(name, "per-op outputs and final state of the real stream vs Model/Stream.v run", []string{"Base.Bytes", "Model.Stream", "Corr.CorrStream"},
		"hist", "chk_hist", cases, reps, 40)
	return got
}

// collectHistories generates n histories with the named maker in child processes; a history whose process died is nil
// (and reported).
func collectHistories(c *Ctx, n int, maker string) ([]*SHistory, []int64) {
	seeds := make([]int64, n)
	for i := range seeds {
		seeds[i] = c.Rng.Int63()
	}
	nproc := 16
	if n < nproc {
		nproc = n
	}
	hs := make([]*SHistory, n)
	var mu sync.Mutex
	Parallel(nproc, nproc, func(pi int) {
		var a shistArg
		a.Maker = maker
		for i := pi; i < n; i += nproc {
			a.Seeds = append(a.Seeds, seeds[i])
			a.Idx = append(a.Idx, i)
		}
		for len(a.Seeds) > 0 {
			r := RunChild("shist", a, 20*time.Minute)
			lastBegin, done := -1, map[int]bool{}
			for _, l := range r.Lines {
				var k int
				if n, _ := fmt.Sscanf(l, "BEGIN %d", &k); n == 1 {
					lastBegin = k
				} else if strings.HasPrefix(l, "HIST ") {
					rest := l[5:]
					sp := strings.IndexByte(rest, ' ')
					fmt.Sscanf(rest[:sp], "%d", &k)
					h := &SHistory{}
					if err := json.Unmarshal([]byte(rest[sp+1:]), h); err == nil {
						mu.Lock()
						hs[a.Idx[k]] = h
						mu.Unlock()
						done[k] = true
					}
				}
			}
			if r.ExitCode == 0 && !r.TimedOut {
				break
			}
			// the child died while running history lastBegin
			if lastBegin >= 0 && !done[lastBegin] {
				mu.Lock()
				c.Violate("process-crash", fmt.Sprintf("the process died (exit %d, timeout %v) while running the history of maker %s with seed %d: %s",
					r.ExitCode, r.TimedOut, maker, a.Seeds[lastBegin], tail(r.Stderr, 600)),
					map[string]interface{}{"maker": maker, "seed": a.Seeds[lastBegin], "index": a.Idx[lastBegin], "stderr": tail(r.Stderr, 1500)})
				mu.Unlock()
			}
			next := lastBegin + 1
			if lastBegin < 0 {
				break
			}
			a.Seeds, a.Idx = a.Seeds[next:], a.Idx[next:]
		}
	})
	return hs, seeds
}

func ignoredMonitor(c *Ctx, h *SHistory) {
	for i, os := range h.Outs {
		for _, o := range os {
			if o.Kind == "ignored" {
				c.Count("ignored-ops")
				if o.Note != "" {
					c.Violate("harness", fmt.Sprintf("op %d (%s) could not be driven: %s", i, h.Ops[i].Kind, o.Note), map[string]interface{}{"cfg": h.Cfg, "initial_store": h.Initial, "ops": h.Ops[:i+1]})
				}
			}
		}
	}
}

func init() {
	HistMakers["score"] = func(i int, rng *rand.Rand) *SHistory {
		q := DefaultSParams()
		q.MaxOps = 10 + rng.Intn(50)
		q.BigSeq = rng.Intn(6) == 0
		return GenRun(rng, q)
	}
}

func runScore(c *Ctx) {
	c.Res.Rule = "random histories of the stream core (debug scenario)"
	runStreamHistories(c, "score", c.Pick(200, 2000), "score", nil, ignoredMonitor)
}

// minimise shrinks the history of the first violation of each class reported since index from (at most two classes per
// run, 30 re-executions each): the replay gets a "minimised" entry.
func (c *Ctx) minimise(h *SHistory, from int, mons []StreamMonitor) {
	if c.shrunk == nil {
		c.shrunk = map[string]bool{}
	}
	for k := from; k < len(c.Res.Violations); k++ {
		v := &c.Res.Violations[k]
		if c.shrunk[v.Class] || len(c.shrunk) >= 2 || v.Class == "harness" || v.Class == "process-crash" ||
			strings.Contains(","+os.Getenv("VERIF_KNOWN_CLASSES")+",", ","+v.Class+",") {
			continue
		}
		c.shrunk[v.Class] = true
		m, runs := shrinkHistory(h, v.Class, mons, 30)
		if rep, ok := v.Replay.(map[string]interface{}); ok {
			if m != nil {
				rep["minimised"] = map[string]interface{}{"ops": m.Ops, "observed": m.Outs, "re_executions": runs}
			} else {
				rep["minimised"] = fmt.Sprintf("no shorter history reproduces it (%d re-executions)", runs)
			}
		}
	}
	if len(c.Res.Violations) > from {
		c.Finish()
	}
}
