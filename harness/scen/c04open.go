package scen

import (
	"encoding/json"
	"fmt"
	"strings"
	"time"
)

// Events of a vBucket whose stream is already open, settled while Open() is still waiting for the stream request of
// another vBucket (first start, or the reopen half of a rebalance with a slow node): the session exists -- observers,
// range and offsets are in place -- so the acknowledgements must be tracked like any other (C04: the tracked position
// equals the furthest settled event). Below the granularity of Model/Stream.v (Open is one op there): monitor only.
type openWinRes struct {
	Tracks       []uint64
	TrackedAfter uint64
	StoredAfter  uint64
	Err          string
}

func init() {
	Children["c04open"] = func(raw json.RawMessage) {
		res := openWinRes{}
		defer func() {
			b, _ := json.Marshal(res)
			fmt.Println("RESULT " + string(b))
		}()
		d := NewSDriverOpt(SCfg{Colls: map[uint32]string{}}, map[uint16]SDoc{}, false)
		d.Store.Gate = false
		sv := &SServer{High: map[uint16]uint64{0: 40, 1: 40}, UUID: map[uint16]uint64{0: 70, 1: 71}}
		d.Disc.Set(0, 1)
		d.setServer(sv)
		hold := make(chan struct{})
		arrived := make(chan struct{}, 4)
		d.Client.OnOpen = func(vb uint16) {
			if vb == 1 {
				arrived <- struct{}{}
				<-hold
			}
		}
		opened := make(chan struct{})
		go func() {
			d.Stream.Open()
			close(opened)
		}()
		select {
		case <-arrived:
		case <-time.After(4 * time.Second):
			res.Err = "the stream request of vb 1 was not issued within 4 s"
			close(hold)
			return
		}
		for t0 := time.Now(); d.Client.Observer(0) == nil && time.Since(t0) < 3*time.Second; time.Sleep(2 * time.Millisecond) {
		}
		ob := d.Client.Observer(0)
		if ob == nil {
			res.Err = "the stream of vb 0 was not opened while the request of vb 1 was held"
			close(hold)
			return
		}
		d.deliver(ob, 0, &SEv{Kind: "marker", S: 0, E: 40})
		for seq := uint64(1); seq <= 3; seq++ {
			n := d.Cons.Count()
			d.deliver(ob, 0, &SEv{Kind: "mut", Item: &SItem{Seq: seq, Cas: 1, Key: []byte(fmt.Sprintf("k%d", seq)), Rest: seq}})
			ctx := d.Cons.Ctx(n)
			if ctx == nil {
				res.Err = "an event did not reach the consumer"
				close(hold)
				return
			}
			ctx.Ack()
		}
		_, tracks := d.Cons.Take()
		for _, t := range tracks {
			res.Tracks = append(res.Tracks, t.Offset.SeqNo)
		}
		close(hold)
		select {
		case <-opened:
		case <-time.After(4 * time.Second):
			res.Err = "Open() did not return within 4 s of the last stream request being answered"
			return
		}
		d.Stream.Save()
		offs, _, _ := d.Stream.GetOffsets()
		if o, ok := offs.Load(0); ok {
			res.TrackedAfter = o.SeqNo
		}
		if doc, ok := d.Store.Snapshot()[0]; ok && doc.Checkpoint != nil {
			res.StoredAfter = doc.Checkpoint.SeqNo
		}
	}
}

func runC04OpenWindow(c *Ctx) {
	cr := RunChild("c04open", map[string]int{}, 40*time.Second)
	rep := map[string]interface{}{"how": "vh child c04open", "history": "Open() of vBuckets 0 and 1 with the stream request of vb 1 held; vb 0: marker 0..40, events 1, 2, 3 delivered " +
		"and acknowledged; the request of vb 1 answered; Open() returns; Save()"}
	c.Count("ack-during-open")
	c.Eval("acknowledgements while Open() waits for another vBucket", true)
	var res *openWinRes
	for _, l := range cr.Lines {
		if strings.HasPrefix(l, "RESULT ") {
			res = &openWinRes{}
			_ = json.Unmarshal([]byte(l[7:]), res)
		}
	}
	if res == nil {
		c.Violate("open-window-ack", fmt.Sprintf("acknowledgements while Open() waits for the stream request of another vBucket: the process died (exit %d) %s", cr.ExitCode, cr.Fatal), rep)
		return
	}
	rep["observed"] = res
	switch {
	case res.Err != "":
		c.Note("c04open not driven: %s", res.Err)
	case fmt.Sprint(res.Tracks) != "[1 2 3]":
		c.Violate("open-window-ack", fmt.Sprintf("events 1, 2, 3 of vb 0 were acknowledged while Open() was waiting for vb 1: TrackOffset was told %v", res.Tracks), rep)
	case res.TrackedAfter != 3 || res.StoredAfter != 3:
		c.Violate("open-window-ack", fmt.Sprintf("after Open() returned the position of vb 0 is %d and the checkpoint stored by Save() %d; 3 was settled", res.TrackedAfter, res.StoredAfter), rep)
	}
}
