package scen

import (
	"fmt"
	"math/rand"
	"sync"
	"time"

	"github.com/couchbase/gocbcore/v10"
	"github.com/couchbase/gocbcore/v10/memd"

	"github.com/Trendyol/go-dcp/config"
	"github.com/Trendyol/go-dcp/couchbase"
	"github.com/Trendyol/go-dcp/models"
	"github.com/Trendyol/go-dcp/tracing"

	"verifharness/gal"
	"verifharness/simnode"
)

func init() { Registry["C08"] = runC08 }

type deliveredEv struct {
	Seq uint64
	Off SOffset
}

// wireObserver builds a real observer whose listener records document events.
func wireObserver(vb uint16, latest uint64) (couchbase.Observer, func() []deliveredEv, func() (bool, error)) {
	var mu sync.Mutex
	var got []deliveredEv
	ended := false
	var endErr error
	cfg := &config.Dcp{}
	cfg.RollbackMitigation.Disabled = true
	ob := couchbase.NewObserver(cfg, vb, latest, func(a models.ListenerArgs) {
		mu.Lock()
		defer mu.Unlock()
		switch e := a.Event.(type) {
		case models.DcpMutation:
			got = append(got, deliveredEv{e.SeqNo, *offOf(e.Offset)})
		case models.DcpDeletion:
			got = append(got, deliveredEv{e.SeqNo, *offOf(e.Offset)})
		case models.DcpExpiration:
			got = append(got, deliveredEv{e.SeqNo, *offOf(e.Offset)})
		}
	}, func(c models.DcpStreamEndContext) {
		mu.Lock()
		ended, endErr = true, c.Err
		mu.Unlock()
	}, map[uint32]string{}, tracing.NewTracerComponent())
	return ob, func() []deliveredEv {
			mu.Lock()
			defer mu.Unlock()
			return append([]deliveredEv{}, got...)
		}, func() (bool, error) {
			mu.Lock()
			defer mu.Unlock()
			return ended, endErr
		}
}

func sreqTerm(r simnode.StreamRequest) gal.Term {
	return gal.App("SReq", gal.N(uint64(r.Flags)), gal.N(r.VbUUID), gal.N(r.StartSeqNo), gal.N(r.EndSeqNo), gal.N(r.SnapStartSeqNo), gal.N(r.SnapEndSeqNo))
}

func logTerm(l []gocbcore.FailoverEntry) gal.Term {
	ts := make([]gal.Term, len(l))
	for i, e := range l {
		ts[i] = gal.Tuple(gal.N(uint64(e.VbUUID)), gal.N(uint64(e.SeqNo)))
	}
	return gal.List(ts)
}

func init() {
	HistMakers["c08"] = mkMaker(func(p *SParams, rng *rand.Rand) {
		p.PRoll, p.PSys, p.WSave, p.WCrash, p.WEnd, p.PAckInOrd = 0.5, 0.3, 2.5, 0.8, 0.8, 0.5
		p.MaxVbs = 1 + rng.Intn(3)
		p.MaxOps = 20 + rng.Intn(40)
	})
}

func runC08(c *Ctx) {
	c.Res.Rule = "the real client.OpenStream (through a real gocbcore DCP agent) against the simulated node: random offsets over the full uint64 range, " +
		"answers success / rollback to R<=F / error, random failover logs of 1..6 entries, then a scripted second answer; after a successful rollback " +
		"a real observer receives markers and document events around F through the wire. Distinct = distinct (offset, answers, log, events); " +
		"non-trivial = the first answer is a rollback"
	rng := c.Rng
	cfg := &config.Dcp{}
	w, err := newWire(cfg, simnode.Config{NumVBuckets: 64})
	if err != nil {
		c.Violate("harness", "cannot start the simulated node: "+err.Error(), nil)
		return
	}
	defer w.Close()
	var oc, cc []gal.Term
	var or_, cr []string
	n := c.Pick(120, 1500)
	for i := 0; i < n; i++ {
		vb := uint16(i % 64)
		// a failover log: newest first, strictly decreasing first seqnos, the oldest starting at 0
		nlog := 1 + rng.Intn(6)
		starts := map[uint64]bool{0: true}
		for len(starts) < nlog {
			starts[uint64(1+rng.Intn(200))] = true
		}
		var ss []uint64
		for s := range starts {
			ss = append(ss, s)
		}
		sortU64Desc(ss)
		var log []gocbcore.FailoverEntry
		for _, s := range ss {
			log = append(log, gocbcore.FailoverEntry{VbUUID: gocbcore.VbUUID(1000 + rng.Intn(100000)), SeqNo: gocbcore.SeqNo(s)})
		}
		F := uint64(rng.Intn(220))
		if rng.Intn(12) == 0 {
			F = randU64(rng)
		}
		st := F - minU(F, uint64(rng.Intn(4)))
		off := models.Offset{SnapshotMarker: &models.SnapshotMarker{StartSeqNo: st, EndSeqNo: F + uint64(rng.Intn(4))}, VbUUID: gocbcore.VbUUID(randU64(rng)), SeqNo: F, LatestSeqNo: ^uint64(0)}
		if rng.Intn(4) == 0 {
			off.LatestSeqNo = F + uint64(rng.Intn(1000))
		}
		if off.EndSeqNo < off.SeqNo { // wrapped
			off.EndSeqNo = off.SeqNo
		}
		a1 := rng.Intn(10)
		var R uint64
		replies := []simnode.StreamReply{}
		a1T, a2T := gal.Term("AErr"), gal.Term("AErr")
		switch {
		case a1 < 3:
			replies = append(replies, simnode.StreamSuccess(log...))
			a1T = gal.App("AOk", logTerm(log))
		case a1 < 9:
			R = uint64(rng.Intn(int(minU(F, 1<<20)) + 1))
			if rng.Intn(2) == 0 { // just below the checkpointed position
				R = F - minU(F, uint64(rng.Intn(3)))
			}
			replies = append(replies, simnode.StreamRollbackTo(R))
			a1T = gal.App("ARollback", gal.N(R))
			if rng.Intn(6) == 0 {
				replies = append(replies, simnode.StreamFail(memd.StatusInternalError))
			} else {
				replies = append(replies, simnode.StreamSuccess(log...))
				a2T = gal.App("AOk", logTerm(log))
			}
		default:
			replies = append(replies, simnode.StreamFail(memd.StatusInternalError))
		}
		w.Node.SetFailoverLog(vb, log...)
		w.Node.ScriptStream(vb, replies...)
		before := len(w.Node.StreamRequests())
		ob, delivered, _ := wireObserver(vb, off.LatestSeqNo)
		oerr := w.Client.OpenStream(vb, map[uint32]string{}, &off, ob)
		reqs := w.Node.StreamRequests()[before:]
		var rts []gal.Term
		for _, r := range reqs {
			rts = append(rts, sreqTerm(r))
		}
		offS := SOffset{UUID: uint64(off.VbUUID), Seq: off.SeqNo, Start: off.StartSeqNo, End: off.EndSeqNo, Latest: off.LatestSeqNo}
		rep := map[string]interface{}{"vb": vb, "offset": offS, "log": log, "rollback_to": R, "answers": fmt.Sprint(a1T, a2T), "requests": reqs, "open_err": fmt.Sprint(oerr)}
		c.Eval(J(rep), a1 >= 3 && a1 < 9)
		c.Count("open")
		// monitors
		if len(reqs) >= 1 {
			r0 := reqs[0]
			if r0.Flags != 0x80 || r0.VbUUID != uint64(off.VbUUID) || r0.StartSeqNo != off.SeqNo || r0.EndSeqNo != off.LatestSeqNo || r0.SnapStartSeqNo != off.StartSeqNo || r0.SnapEndSeqNo != off.EndSeqNo {
				c.Violate("request-wrong", fmt.Sprintf("stream request %+v does not carry the checkpointed tuple %+v", r0, offS), rep)
			}
		}
		if a1 >= 3 && a1 < 9 {
			if len(reqs) != 2 {
				c.Violate("no-rerequest", fmt.Sprintf("rollback to %d was answered with %d requests", R, len(reqs)), rep)
			} else {
				r1 := reqs[1]
				var branch uint64
				for _, e := range log { // newest first: the first entry starting at or below R contains R
					if uint64(e.SeqNo) <= R {
						branch = uint64(e.VbUUID)
						break
					}
				}
				if r1.Flags != 0 || r1.StartSeqNo != R || r1.SnapStartSeqNo != R || r1.SnapEndSeqNo != R || r1.EndSeqNo != off.LatestSeqNo || r1.VbUUID != branch {
					c.Violate("rerequest-wrong", fmt.Sprintf("after 'roll back to %d' the re-request is %+v; expected start %d, snapshot [%d,%d], end %d, branch %d", R, r1, R, R, R, off.LatestSeqNo, branch), rep)
				}
			}
		}
		oc = append(oc, gal.Tuple(offS.term(), a1T, logTerm(log), a2T, gal.Tuple(gal.List(rts), gal.Bool(oerr == nil))))
		or_ = append(or_, J(rep))
		if i < 2 {
			c.Sample(rep)
		}
		// after a successful rollback: stream events around F and watch the catch-up
		if oerr == nil {
			st, _ := w.Node.WaitStream(vb, time.Second)
			if st != nil {
				start := R
				if a1 < 3 {
					start = F
				}
				var evs []gal.Term
				seq := start
				if seq > 1<<62 {
					_ = w.Client.CloseStream(vb)
					continue
				}
				nEv := rng.Intn(8)
				var sent []uint64
				end := seq + uint64(nEv) + 2
				ms := seq
				if rng.Intn(2) == 0 {
					ms = seq + 1 // the first snapshot may start right after the requested position
				}
				_ = st.SnapshotMarker(ms, end, 0)
				evs = append(evs, gal.App("Marker", gal.N(ms), gal.N(end)))
				for k := 0; k < nEv; k++ {
					seq++
					if rng.Intn(6) == 0 {
						seq++
					}
					if seq > end {
						break
					}
					cas := uint64(1700000000000000000)
					key := fmt.Sprintf("k%d", seq)
					switch rng.Intn(4) {
					case 0:
						_ = st.Deletion(simnode.Deletion{SeqNo: seq, Cas: cas, Key: []byte(key)})
						evs = append(evs, gal.App("Doc", "KDel", SItem{Seq: seq, Cas: cas, Key: []byte(key)}.term()))
					case 1:
						_ = st.Expiration(simnode.Expiration{SeqNo: seq, Cas: cas, Key: []byte(key)})
						evs = append(evs, gal.App("Doc", "KExp", SItem{Seq: seq, Cas: cas, Key: []byte(key)}.term()))
					default:
						_ = st.Mutation(simnode.Mutation{SeqNo: seq, Cas: cas, Key: []byte(key), Value: []byte("{}")})
						evs = append(evs, gal.App("Doc", "KMut", SItem{Seq: seq, Cas: cas, Key: []byte(key)}.term()))
					}
					sent = append(sent, seq)
				}
				// wait for the events to come through the wire: long while something that is due is missing (it ends the wait
				// when it comes), then a little longer for anything that should not come
				due := 0
				for _, s := range sent {
					if a1 < 3 || s > F {
						due++
					}
				}
				for t0 := time.Now(); len(delivered()) < due && time.Since(t0) < 3*time.Second; {
					time.Sleep(2 * time.Millisecond)
				}
				time.Sleep(30 * time.Millisecond)
				got := delivered()
				uuid0 := uint64(log[0].VbUUID)
				cu := gal.None()
				if a1 >= 3 {
					cu = gal.Some(gal.N(F))
				}
				var gts []gal.Term
				for _, g := range got {
					gts = append(gts, gal.Tuple(gal.N(g.Seq), g.Off.term()))
					if a1 >= 3 && g.Seq <= F {
						c.Violate("replayed", fmt.Sprintf("after a rollback with checkpointed position %d the consumer was shown seq %d again", F, g.Seq), rep)
					}
					if g.Off.UUID != uuid0 {
						c.Violate("wrong-branch", fmt.Sprintf("offset of seq %d carries vbUUID %d, the stream was opened on branch %d", g.Seq, g.Off.UUID, uuid0), rep)
					}
				}
				want := 0
				for _, s := range sent {
					if a1 < 3 || s > F {
						want++
					}
				}
				if len(got) != want {
					c.Violate("skipped", fmt.Sprintf("%d document events above the checkpointed position %d were sent, %d delivered (sent %v)", want, F, len(got), sent), rep)
				}
				cc = append(cc, gal.Tuple(gal.N(uuid0), gal.N(off.LatestSeqNo), cu, gal.List(evs), gal.List(gts)))
				cr = append(cr, J(map[string]interface{}{"open": rep, "sent_seqs": sent, "delivered": got}))
				c.Count("catchup-stream")
			}
			_ = w.Client.CloseStream(vb)
		}
	}
	im := []string{"Base.Bytes", "Model.Stream", "Model.Client", "Corr.CorrStream", "Corr.CorrC08"}
	c.Emit("open", "decoded DCP_STREAM_REQ of the real client.OpenStream vs Client.open_stream", im, "offset * sanswer * list (N * N) * sanswer * (list sreq * bool)", "chk_open", oc, or_, 200)
	c.Emit("catchup", "document events reaching the listener of a real observer vs obs_run", im, "N * N * option N * list ev * list (N * offset)", "chk_catchup", cc, cr, 200)
	// the whole stream around rollbacks: histories in which many stream requests are first answered with a rollback (at start-up
	// and at reopens), with seqno-advanced / system events in the replay, saves, crashes and restarts
	runStreamHistories(c, "c08", c.Pick(160, 2500), "c08", func(h *SHistory) bool {
		for _, op := range h.Ops {
			if (op.Sv != nil && len(op.Sv.Roll) > 0) || op.Roll {
				return true
			}
		}
		return false
	}, monitorStream("C08"), ignoredMonitor)
	// a reopen that is retried asks, at every attempt, for the position settled by then (so that a rollback answered to a later
	// attempt is taken relative to the right F)
	runC12Retry(c)
}

func sortU64Desc(a []uint64) {
	for i := 1; i < len(a); i++ {
		for j := i; j > 0 && a[j] > a[j-1]; j-- {
			a[j], a[j-1] = a[j-1], a[j]
		}
	}
}
