package scen

import (
	"bytes"
	"encoding/json"
	"fmt"
	"runtime/pprof"
	"strings"
	"sync"
	"time"

	"github.com/couchbase/gocbcore/v10"
	"github.com/couchbase/gocbcore/v10/memd"

	dcp "github.com/Trendyol/go-dcp"
	"github.com/Trendyol/go-dcp/config"
	"github.com/Trendyol/go-dcp/couchbase"
	"github.com/Trendyol/go-dcp/membership"
	"github.com/Trendyol/go-dcp/models"

	"verifharness/simnode"
)

// The whole client against the simulated node: real gocbcore agents, the real client, cbMetadata, cbMembership (heart-beat
// and monitor loops), rollback mitigation (config watch and observe loops), health check, checkpoint schedule. Start(),
// documents through the wire, acknowledgements, Close(): what is still running, stored and open afterwards.

type c13WireArg struct {
	Seed       int64
	Mitigation bool
	CbMembers  bool // couchbase membership (else static)
	SlowGets   bool // the node answers reads of instance documents after 150 ms: a monitor round is always in flight
	SlowLoad   bool // the node answers reads of checkpoint documents after 120 ms: the first persisted-seqno reports arrive while Open() is still loading
	Rebalances int  // close / reopen cycles of the stream (stream.Rebalance()) before Close()
	SlowOpen   bool // the node answers stream requests after 150 ms: the first persisted-seqno reports arrive while Open() is still opening streams
}

type c13WireRes struct {
	Ready          bool
	Sent           int
	Consumed       int
	RebalancesDone int
	StoppedAfter   int    // the client stopped by itself after this many rebalance cycles (0 = it did not)
	Result         string // returned | died: ... | hung
	ReturnMs       int64
	Acked          map[uint16]uint64 // highest acknowledged seqno per vBucket before Close()
	Stored         map[uint16]uint64 // seqno of the checkpoint document of each vBucket when Start() returned
	OpenAtReturn   []uint16          // streams the node still considers open
	ConsumedLater  int               // events consumed after the return
	RequestsLater  []string          // opcodes the node received after the return
	LeftGoroutines []string          // library functions still on some goroutine 400 ms after the return
	RunningBefore  []string          // ... and right before Close() (the detector sees the loops)
	Notes          []string
}

type wireConsumer struct {
	mu    sync.Mutex
	n     int
	acked map[uint16]uint64
}

func (w *wireConsumer) ConsumeEvent(ctx *models.ListenerContext) {
	var vb uint16
	var seq uint64
	switch e := ctx.Event.(type) {
	case models.DcpMutation:
		vb, seq = e.VbID, e.SeqNo
	case models.DcpDeletion:
		vb, seq = e.VbID, e.SeqNo
	case models.DcpExpiration:
		vb, seq = e.VbID, e.SeqNo
	}
	ctx.Ack()
	w.mu.Lock()
	w.n++
	if seq > w.acked[vb] {
		w.acked[vb] = seq
	}
	w.mu.Unlock()
}
func (w *wireConsumer) TrackOffset(uint16, *models.Offset) {}
func (w *wireConsumer) count() int {
	w.mu.Lock()
	defer w.mu.Unlock()
	return w.n
}

func init() {
	Children["c13wire"] = func(raw json.RawMessage) {
		var a c13WireArg
		must(json.Unmarshal(raw, &a))
		res := runC13Wire(a)
		b, _ := json.Marshal(res)
		fmt.Println("RESULT " + string(b))
	}
}

func libraryGoroutines() []string {
	var buf bytes.Buffer
	_ = pprof.Lookup("goroutine").WriteTo(&buf, 2)
	seen := map[string]bool{}
	var out []string
	for _, g := range strings.Split(buf.String(), "\n\n") {
		for _, l := range strings.Split(g, "\n") {
			if strings.HasPrefix(l, "github.com/Trendyol/go-dcp") {
				fn := l
				if i := strings.LastIndex(fn, "("); i > 0 {
					fn = fn[:i]
				}
				if !seen[fn] {
					seen[fn] = true
					out = append(out, fn)
				}
			}
		}
	}
	return out
}

func runC13Wire(a c13WireArg) *c13WireRes {
	res := &c13WireRes{Acked: map[uint16]uint64{}, Stored: map[uint16]uint64{}}
	rng := newRng(a.Seed)
	const nvb = 4
	cfg := &config.Dcp{}
	cfg.Metadata.Type = "couchbase"
	cfg.Dcp.Group.Name = "g"
	cfg.Checkpoint.Type = "auto"
	cfg.Checkpoint.Interval = 30 * time.Millisecond
	cfg.Checkpoint.Timeout = 2 * time.Second
	cfg.RollbackMitigation.Disabled = !a.Mitigation
	cfg.RollbackMitigation.Interval = 20 * time.Millisecond
	cfg.RollbackMitigation.ConfigWatchInterval = 30 * time.Millisecond
	cfg.HealthCheck.Interval = 10 * time.Millisecond
	cfg.HealthCheck.Timeout = time.Second
	cfg.API.Disabled = true
	cfg.ConnectionTimeout = 2 * time.Second
	cfg.Dcp.Group.Membership.RebalanceDelay = 30 * time.Millisecond
	if a.CbMembers {
		cfg.Dcp.Group.Membership.Type = membership.CouchbaseMembershipType
		cfg.Dcp.Group.Membership.Config = map[string]string{"heartbeatInterval": "20ms", "heartbeatToleranceDuration": "2s", "monitorInterval": "20ms", "timeout": "2s"}
	} else {
		cfg.Dcp.Group.Membership.Type = membership.StaticMembershipType
		cfg.Dcp.Group.Membership.TotalMembers = 1
		cfg.Dcp.Group.Membership.MemberNumber = 1
	}
	w, err := newWire(cfg, simnode.Config{NumVBuckets: nvb})
	if err != nil {
		res.Notes = append(res.Notes, "cannot start the simulated node: "+err.Error())
		return res
	}
	defer func() {
		defer func() { _ = recover() }()
		if res.Result == "returned" {
			w.Node.Close() // the teardown has closed the agents
		} else {
			w.Close()
		}
	}()
	for v := 0; v < nvb; v++ {
		w.Node.SetFailoverLog(uint16(v), gocbcore.FailoverEntry{VbUUID: gocbcore.VbUUID(100 + v), SeqNo: 0})
		w.Node.SetVbSeqNo(uint16(v), 20)
	}
	w.Node.SetObserveFunc(func(v uint16, reqUUID uint64, nth int) simnode.ObserveState {
		return simnode.ObserveState{VbUUID: uint64(100 + v), PersistSeqNo: 1 << 30, CurrentSeqNo: 1 << 30}
	})
	if a.SlowGets || a.SlowLoad || a.SlowOpen {
		w.Node.SetBehaviourFunc(func(req *simnode.Request) *simnode.Behaviour {
			if a.SlowOpen && req.Opcode == memd.CmdDcpStreamReq {
				return simnode.Delay(150 * time.Millisecond)
			}
			if a.SlowGets && req.Opcode == memd.CmdGet && strings.Contains(string(req.Key), ":instance:") && !strings.HasSuffix(string(req.Key), ":all") {
				return simnode.Delay(150 * time.Millisecond)
			}
			if a.SlowLoad && strings.Contains(string(req.Key), ":checkpoint:") && (req.Opcode == memd.CmdSubDocMultiLookup || req.Opcode == memd.CmdGet) {
				return simnode.Delay(120 * time.Millisecond)
			}
			return nil
		})
	}
	cons := &wireConsumer{acked: map[uint16]uint64{}}
	d := dcp.VerifNewDcp(cfg, w.Client, cons, &couchbase.Version{Major: 7, Minor: 6}, &couchbase.BucketInfo{})
	startDone := make(chan string, 1)
	go func() {
		defer func() {
			if r := recover(); r != nil {
				startDone <- fmt.Sprint("died: ", r)
			}
		}()
		d.Start()
		startDone <- "returned"
	}()
	select {
	case <-d.WaitUntilReady():
		res.Ready = true
	case r := <-startDone:
		res.Notes = append(res.Notes, "Start ended before the client was ready: "+r)
		return res
	case <-time.After(10 * time.Second):
		res.Notes = append(res.Notes, "the client never became ready")
		return res
	}
	// documents through the wire
	streams := map[uint16]*simnode.Stream{}
	sent := 0
	for v := uint16(0); v < nvb; v++ {
		st, err := w.Node.WaitStream(v, 3*time.Second)
		if err != nil {
			res.Notes = append(res.Notes, fmt.Sprintf("no stream for vBucket %d: %v", v, err))
			continue
		}
		streams[v] = st
		_ = st.SnapshotMarker(1, 9, 0)
		for s := uint64(1); s <= 3; s++ {
			_ = st.Mutation(simnode.Mutation{SeqNo: s, Cas: 1700000000000000000 + s, Key: []byte(fmt.Sprintf("k%d-%d", v, s)), Value: []byte("{}")})
			sent++
		}
	}
	waitConsumed := func(n int) {
		deadline := time.Now().Add(3 * time.Second)
		for cons.count() < n && time.Now().Before(deadline) {
			time.Sleep(5 * time.Millisecond)
		}
	}
	waitConsumed(sent)
	time.Sleep(time.Duration(20+rng.Intn(80)) * time.Millisecond) // some schedule ticks, observe rounds, heart-beats
	for v, st := range streams {
		if rng.Intn(2) == 0 {
			_ = st.Mutation(simnode.Mutation{SeqNo: 4, Cas: 1700000000000000004, Key: []byte(fmt.Sprintf("k%d-4", v)), Value: []byte("{}")})
			sent++
		}
	}
	waitConsumed(sent)
	time.Sleep(time.Duration(rng.Intn(40)) * time.Millisecond)
	res.Sent = sent
	res.Consumed = cons.count()
	cons.mu.Lock()
	for v, s := range cons.acked {
		res.Acked[v] = s
	}
	cons.mu.Unlock()
	if res.Consumed != sent {
		res.Notes = append(res.Notes, fmt.Sprintf("%d documents sent, %d consumed before Close()", sent, res.Consumed))
	}

	// rebalance cycles through the wire: the node answers every CLOSE_STREAM and then sends the end of that stream
	for k := 1; k <= a.Rebalances && res.StoppedAfter == 0; k++ {
		st := dcp.VerifStream(d)
		st.Rebalance()
		deadline := time.Now().Add(4 * time.Second)
		for time.Now().Before(deadline) && !(st.IsOpen() && len(w.Node.OpenStreams()) == nvb) {
			time.Sleep(5 * time.Millisecond)
		}
		time.Sleep(60 * time.Millisecond)
		res.RebalancesDone = k
		select {
		case r := <-startDone:
			res.StoppedAfter = k
			res.Result = r
			res.Notes = append(res.Notes, fmt.Sprintf("Start() %s after rebalance cycle %d although nobody called Close()", r, k))
			return res
		default:
		}
		if !st.IsOpen() {
			res.Notes = append(res.Notes, fmt.Sprintf("the stream was not open again 4 s after rebalance cycle %d", k))
			break
		}
	}
	if a.Rebalances > 0 {
		// the streams the node has now are those of the last reopen: one more document on each must come through
		for v := uint16(0); v < nvb; v++ {
			st, err := w.Node.WaitStream(v, 3*time.Second)
			if err != nil {
				res.Notes = append(res.Notes, fmt.Sprintf("no stream for vBucket %d after the rebalance cycles: %v", v, err))
				continue
			}
			streams[v] = st
			_ = st.SnapshotMarker(1, 9, 0)
			_ = st.Mutation(simnode.Mutation{SeqNo: 5, Cas: 1700000000000000005, Key: []byte(fmt.Sprintf("k%d-5", v)), Value: []byte("{}")})
			sent++
		}
		waitConsumed(sent)
		res.Sent = sent
		res.Consumed = cons.count()
		if res.Consumed != sent {
			res.Notes = append(res.Notes, fmt.Sprintf("after the rebalance cycles: %d documents sent, %d consumed", sent, res.Consumed))
		}
		cons.mu.Lock()
		for v, s := range cons.acked {
			res.Acked[v] = s
		}
		cons.mu.Unlock()
	}
	res.RunningBefore = libraryGoroutines()
	start := time.Now()
	d.Close()
	select {
	case r := <-startDone:
		res.Result = r
	case <-time.After(6 * time.Second):
		res.Result = "hung"
	}
	res.ReturnMs = time.Since(start).Milliseconds()
	res.OpenAtReturn = w.Node.OpenStreams()
	for v := uint16(0); v < nvb; v++ {
		if doc, ok := w.Node.GetDoc(0, fmt.Sprintf("_connector:cbgo:g:checkpoint:%d", v)); ok {
			var cp struct {
				Checkpoint struct {
					SeqNo uint64 `json:"seqNo"`
				} `json:"checkpoint"`
			}
			if x, ok := doc.Xattrs["cbgo"]; ok {
				_ = json.Unmarshal(x, &cp)
			} else {
				_ = json.Unmarshal(doc.Value, &cp)
			}
			res.Stored[v] = cp.Checkpoint.SeqNo
		}
	}
	// requests written to a socket just before the agents were closed may still be read by the node: not activity
	// after the return
	time.Sleep(30 * time.Millisecond)
	w.Node.ResetLog()
	before := cons.count()
	for v, st := range streams { // late documents on whatever the node still has
		_ = st.Mutation(simnode.Mutation{SeqNo: 7, Cas: 1700000000000000007, Key: []byte(fmt.Sprintf("late%d", v)), Value: []byte("{}")})
	}
	time.Sleep(400 * time.Millisecond)
	res.ConsumedLater = cons.count() - before
	for _, r := range w.Node.Requests() {
		res.RequestsLater = append(res.RequestsLater, r.Opcode.Name())
	}
	res.LeftGoroutines = libraryGoroutines()
	return res
}

func runC13WireCases(c *Ctx) {
	n := c.Pick(8, 48)
	args := make([]c13WireArg, n)
	for i := range args {
		args[i] = c13WireArg{Seed: c.Rng.Int63(), Mitigation: i%2 == 1, CbMembers: i%4 >= 2}
		args[i].SlowGets = args[i].CbMembers && i%8 >= 6 // Close() overtakes a membership monitor round (K11)
	}
	results := make([]*c13WireRes, n)
	died := make([]string, n)
	Parallel(n, 8, func(i int) {
		cr := RunChild("c13wire", args[i], 90*time.Second)
		for _, l := range cr.Lines {
			if strings.HasPrefix(l, "RESULT ") {
				r := &c13WireRes{}
				if json.Unmarshal([]byte(l[7:]), r) == nil {
					results[i] = r
				}
			}
		}
		if results[i] == nil {
			died[i] = fmt.Sprintf("exit %d %s ... %s", cr.ExitCode, cr.Fatal, tail(cr.Stderr, 500))
		}
	})
	for i, r := range results {
		rep := map[string]interface{}{"how": "vh child c13wire", "arg": args[i]}
		c.Eval(fmt.Sprint("wire", args[i]), true)
		c.Count(fmt.Sprintf("wire:mitigation=%v,couchbase-membership=%v,monitor-round-in-flight=%v", args[i].Mitigation, args[i].CbMembers, args[i].SlowGets))
		if r == nil {
			c.Violate("teardown-died", "the whole client against the simulated node: the process died: "+died[i], rep)
			continue
		}
		rep["observed"] = r
		for _, n := range r.Notes {
			c.Violate("harness", "wire-level lifecycle: "+n, rep)
		}
		if !r.Ready {
			continue
		}
		want := []string{"checkpoint", "healthCheck"}
		if args[i].Mitigation {
			want = append(want, "rollbackMitigation")
		}
		if args[i].CbMembers {
			want = append(want, "cbMembership")
		}
		for _, wn := range want {
			if !strings.Contains(strings.Join(r.RunningBefore, " "), wn) {
				c.Violate("harness", "wire-level lifecycle: no goroutine of "+wn+" was seen running before Close(): "+strings.Join(r.RunningBefore, " "), rep)
			}
		}
		switch {
		case strings.HasPrefix(r.Result, "died"):
			c.Violate("teardown-died", "the whole client against the simulated node: Close() made the goroutine of Start() panic: "+r.Result, rep)
			continue
		case r.Result != "returned":
			c.Violate("teardown-hung", "the whole client against the simulated node: Start() had not returned 6 s after Close()", rep)
			continue
		}
		if r.ReturnMs > 3000 {
			c.Violate("teardown-slow", fmt.Sprintf("the whole client against the simulated node: Close() took %d ms", r.ReturnMs), rep)
		}
		for vb, seq := range r.Acked {
			if r.Stored[vb] < seq {
				c.Violate("settled-position-not-stored", fmt.Sprintf("the whole client against the simulated node: vBucket %d was acknowledged up to %d before Close(), its checkpoint document holds %d when Start() returns",
					vb, seq, r.Stored[vb]), rep)
			}
		}
		if len(r.OpenAtReturn) > 0 {
			c.Violate("stream-left-open", fmt.Sprintf("the whole client against the simulated node: the node still has streams %v when Start() returns", r.OpenAtReturn), rep)
		}
		if r.ConsumedLater > 0 {
			c.Violate("event-after-close", fmt.Sprintf("the whole client against the simulated node: %d events reached the consumer after Start() returned", r.ConsumedLater), rep)
		}
		if len(r.RequestsLater) > 0 {
			c.Violate("activity-after-close", fmt.Sprintf("the whole client against the simulated node: requests after Start() returned: %v", r.RequestsLater), rep)
		}
		if len(r.LeftGoroutines) > 0 {
			c.Violate("activity-after-close", fmt.Sprintf("the whole client against the simulated node: 400 ms after Start() returned goroutines are still in %v", r.LeftGoroutines), rep)
		}
	}
}
