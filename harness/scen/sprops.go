package scen

import (
	"fmt"
	"math/rand"
	"sync"

	"github.com/Trendyol/go-dcp/couchbase"
	"github.com/Trendyol/go-dcp/helpers"

	"verifharness/gal"
)

// Scenarios of the properties decided on the stream core (Model/Stream.v). Each has its own history
// maker (weights that push the generator towards the property's quantifier), shares the generic maker,
// and runs a fixed corpus first.

func mkMaker(tune func(p *SParams, rng *rand.Rand)) func(i int, rng *rand.Rand) *SHistory {
	return func(i int, rng *rand.Rand) *SHistory {
		p := DefaultSParams()
		p.MaxOps = 12 + rng.Intn(45)
		p.BigSeq = rng.Intn(8) == 0
		tune(&p, rng)
		return GenRun(rng, p)
	}
}

func init() {
	HistMakers["c01"] = mkMaker(func(p *SParams, rng *rand.Rand) {
		p.WSave, p.WCrash, p.PSys, p.PSaveFail = 3, 0.6, 0.2, 0.35
		p.PAckInOrd = 0.95
		p.MaxVbs = 1 + rng.Intn(4)
	})
	HistMakers["c03"] = mkMaker(func(p *SParams, rng *rand.Rand) {
		p.WDeliver, p.WAck, p.WSave, p.WEnd = 9, 1, 0.3, 0.5
		p.MaxVbs = 1 + rng.Intn(8)
		p.PMetaKey = 0.2
		p.MaxOps = 30 + rng.Intn(60)
	})
	HistMakers["c04"] = mkMaker(func(p *SParams, rng *rand.Rand) {
		p.WAck, p.PAckInOrd, p.WReb, p.POutOfRangeReb = 6, 0.2, 0.5, 0.7
		p.MaxVbs = 1 + rng.Intn(5)
	})
	HistMakers["c05"] = mkMaker(func(p *SParams, rng *rand.Rand) {
		p.WSave, p.PSaveFail, p.PSys, p.WAck = 4, 0.45, 0.25, 4
	})
	HistMakers["c06"] = mkMaker(func(p *SParams, rng *rand.Rand) {
		p.PMalformed, p.PSys, p.PAckInOrd, p.WEnd = 0.03, 0.2, 0.4, 0.6
		p.BigSeq = rng.Intn(3) == 0
	})
	HistMakers["c12"] = mkMaker(func(p *SParams, rng *rand.Rand) {
		p.WEnd, p.WScrape = 2.5, 0.8
		p.MaxVbs = 1 + rng.Intn(4)
		if rng.Intn(2) == 0 {
			c := SCfg{Finite: true, Colls: map[uint32]string{}}
			p.Cfg = &c
		}
	})
	HistMakers["c14"] = mkMaker(func(p *SParams, rng *rand.Rand) {
		p.PMetaKey, p.WSave = 0.6, 3
	})
	HistMakers["c16"] = mkMaker(func(p *SParams, rng *rand.Rand) {
		p.WScrape, p.WEnd, p.WReb = 2.5, 0.5, 0.5
		p.BigSeq = rng.Intn(4) == 0
	})
	for _, id := range []string{"C01", "C03", "C04", "C05", "C06", "C12", "C14", "C16"} {
		id := id
		Registry[id] = func(c *Ctx) { runStreamProp(c, id) }
	}
}

func it(seq uint64, key string, rest uint64) *SItem {
	return &SItem{Seq: seq, Cas: 1700000000000000000, Cid: 0, Key: []byte(key), Rest: rest}
}

// corpus: witnesses of findings, regression cases of repaired defects, minimised failures of earlier runs.
func streamCorpus() []*SHistory {
	sv := &SServer{High: map[uint16]uint64{0: 20, 1: 20}, UUID: map[uint16]uint64{0: 77, 1: 78}}
	cfg := SCfg{Colls: map[uint32]string{}}
	dl := func(vb uint16, e SEv) SOp { return SOp{Kind: "deliver", Vb: vb, Ev: &e} }
	mut := func(seq uint64, key string) SEv { return SEv{Kind: "mut", Item: it(seq, key, seq)} }
	var hs []*SHistory
	add := func(tag string, ops ...SOp) {
		h := RunHistory(cfg, map[uint16]SDoc{}, ops, false)
		h.Tag = tag
		hs = append(hs, h)
	}
	open := SOp{Kind: "open", First: 0, Last: 0, Sv: sv}
	// K1: an absorbed event overtakes an outstanding delivery
	add("K1-absorbed-overtakes", open, dl(0, SEv{Kind: "marker", S: 1, E: 5}), dl(0, mut(1, "a")), SOp{Kind: "ack", I: 0}, dl(0, mut(2, "b")),
		dl(0, SEv{Kind: "sys", Sys: 0, Seq: 3, Cid: 8}), SOp{Kind: "savebegin"}, SOp{Kind: "saveend", Ok: true}, SOp{Kind: "crash"}, open)
	// K2 (repaired): only a system event advanced the vBucket
	add("K2-flag", open, dl(0, SEv{Kind: "marker", S: 1, E: 5}), dl(0, SEv{Kind: "seqadv", Seq: 5}), SOp{Kind: "savebegin"}, SOp{Kind: "saveend", Ok: true})
	// K3 (repaired): acknowledgement during the store call
	add("K3-inflight-ack", open, dl(0, SEv{Kind: "marker", S: 1, E: 5}), dl(0, mut(1, "a")), dl(0, mut(2, "b")), SOp{Kind: "ack", I: 0},
		SOp{Kind: "savebegin"}, SOp{Kind: "ack", I: 1}, SOp{Kind: "saveend", Ok: true}, SOp{Kind: "savebegin"}, SOp{Kind: "saveend", Ok: true}, SOp{Kind: "savebegin"})
	// K8: late acknowledgement in the closed window of a rebalance
	add("K8-closed-window", open, dl(0, SEv{Kind: "marker", S: 1, E: 5}), dl(0, mut(1, "a")), dl(0, mut(2, "b")), SOp{Kind: "ack", I: 1},
		SOp{Kind: "rebclose"}, SOp{Kind: "ack", I: 0}, SOp{Kind: "savebegin"}, SOp{Kind: "saveend", Ok: true}, SOp{Kind: "rebopen", First: 0, Last: 0, Sv: sv})
	// failed save, then success
	add("failed-save", open, dl(0, SEv{Kind: "marker", S: 1, E: 5}), dl(0, mut(1, "a")), SOp{Kind: "ack", I: 0}, SOp{Kind: "savebegin"},
		SOp{Kind: "saveend", Ok: false}, SOp{Kind: "savebegin"}, SOp{Kind: "saveend", Ok: true}, SOp{Kind: "savebegin"})
	// late acknowledgement across snapshots, reopen on a new branch
	add("late-ack-new-branch", open, dl(0, SEv{Kind: "marker", S: 1, E: 5}), dl(0, mut(5, "a")), dl(0, SEv{Kind: "marker", S: 11, E: 20}), dl(0, mut(12, "b")),
		SOp{Kind: "ack", I: 1}, SOp{Kind: "end", Vb: 0, Cause: "transient", UUID: 99}, dl(0, SEv{Kind: "marker", S: 13, E: 13}), dl(0, mut(13, "c")), SOp{Kind: "ack", I: 0}, SOp{Kind: "ack", I: 2}, SOp{Kind: "savebegin"}, SOp{Kind: "saveend", Ok: true})
	// reserved keys, closed loop
	add("closed-loop", open, dl(0, SEv{Kind: "marker", S: 1, E: 9}), dl(0, mut(1, "a")), SOp{Kind: "ack", I: 0}, SOp{Kind: "savebegin"}, SOp{Kind: "saveend", Ok: true},
		dl(0, mut(2, "_connector:cbgo:g:checkpoint:0")), dl(0, mut(3, "_connector:cbgo:g:checkpoint:1")), SOp{Kind: "savebegin"}, dl(0, mut(4, "_txn:x")), SOp{Kind: "savebegin"})
	// ends: transient, then all final
	open2 := SOp{Kind: "open", First: 0, Last: 1, Sv: sv}
	add("ends", open2, SOp{Kind: "end", Vb: 0, Cause: "transient", ErrIdx: 7, UUID: 77}, SOp{Kind: "scrape", High: map[uint16]uint64{0: 3}}, SOp{Kind: "end", Vb: 0, Cause: "clean"},
		SOp{Kind: "scrape", High: map[uint16]uint64{}}, SOp{Kind: "end", Vb: 1, Cause: "final", ErrIdx: 1})
	// rollback catch-up: events at or below the failed position are not shown again
	svr := &SServer{High: map[uint16]uint64{0: 20}, UUID: map[uint16]uint64{0: 77}, Roll: []uint16{0}}
	h := RunHistory(cfg, map[uint16]SDoc{0: {UUID: 77, Seq: 10, Start: 8, End: 12}}, []SOp{{Kind: "open", First: 0, Last: 0, Sv: svr},
		dl(0, SEv{Kind: "marker", S: 9, E: 12}), dl(0, mut(9, "a")), dl(0, mut(10, "b")), dl(0, mut(11, "c")), dl(0, mut(12, "d"))}, false)
	h.Tag = "rollback-catchup"
	hs = append(hs, h)
	return hs
}

const corpusSize = 9

func init() {
	HistMakers["corpus"] = func(i int, rng *rand.Rand) *SHistory { return streamCorpus()[i] }
}

func runStreamProp(c *Ctx, id string) {
	c.Res.Rule = "histories of the real stream package (fakes for client, store, consumer, discovery, event handler) generated online " +
		"from one PRNG: a property-specific maker, the generic maker and a fixed corpus of witnesses; every per-op output and the final " +
		"state are compared with Model/Stream.v inside coqc, and the property's monitor checks the observations directly. " +
		"Distinct = distinct op list; non-trivial = at least 8 ops and at least one output relevant to the property (consume/track/metasave/openreq/stop/metrics)"
	nontriv := func(h *SHistory) bool {
		if len(h.Ops) < 8 {
			return false
		}
		for _, os := range h.Outs {
			for _, o := range os {
				switch o.Kind {
				case "consume", "track", "metasave", "stop", "metrics":
					return true
				}
			}
		}
		return false
	}
	mon := monitorStream(id)
	// corpus first (in a child process like everything else)
	runStreamHistories(c, "corpus", corpusSize, "corpus", nil, mon, ignoredMonitor)
	maker := map[string]string{"C01": "c01", "C03": "c03", "C04": "c04", "C05": "c05", "C06": "c06", "C12": "c12", "C14": "c14", "C16": "c16"}[id]
	runStreamHistories(c, maker, c.Pick(240, 4000), maker, nontriv, mon, ignoredMonitor)
	runStreamHistories(c, "generic", c.Pick(80, 1500), "score", nontriv, mon, ignoredMonitor)
	if id == "C14" {
		runC14Keys(c)
	}
	if id == "C01" {
		// the Couchbase backend: every document of a save lands under the key of its own vBucket (real cbMetadata, simulated node)
		runC02Wire(c)
	}
	if id == "C04" {
		runC04File(c)
		runC04ReloadWindow(c)
		runC04OpenWindow(c)
	}
	if id == "C05" {
		runC04File(c) // the file backend rewrites the whole file: a save keeps the checkpoints it does not touch
		runSwissMap(c) // the container of the tracked positions and the dirty set is the function Model/Stream.v takes it for
	}
	if id == "C16" {
		runC16Gauges(c)
		runC16Windows(c)
		runC16API(c)
	}
	if id == "C12" {
		runReopenRetriesUnderRebalance(c)
		runC12Retry(c)
	}
}

// runC14Keys compares the real key construction and the real reserved-prefix test with Model/Keys.v.
func runC14Keys(c *Ctx) {
	var kc, mc []gal.Term
	var kr, mr []string
	groups := []string{"g", "group", "", "a:b", "a:checkpoint:1", "x.y", ".", "grp-1_2", "ü", "a\x00b", ":checkpoint:", "checkpoint", "9", "a.b.c", "group1", "my-group-7"}
	// the keys are computed first and held, as the save and the load of the Couchbase backend hold the keys of all their
	// vBuckets at once (one goroutine per vBucket); they are read only after all of them exist
	type held struct {
		g      string
		vb     uint16
		id     []byte
		ok     bool
		atCall string
	}
	n := c.Pick(300, 5000)
	hs := make([]held, n)
	for i := 0; i < n; i++ {
		g := groups[c.Rng.Intn(len(groups))]
		if c.Rng.Intn(3) == 0 {
			b := make([]byte, c.Rng.Intn(6))
			for j := range b {
				b[j] = "abc:.19-"[c.Rng.Intn(8)]
			}
			g = string(b)
		}
		vb := uint16(c.Rng.Intn(1024))
		if c.Rng.Intn(10) == 0 {
			vb = uint16(c.Rng.Intn(65536))
		}
		hs[i] = held{g: g, vb: vb}
	}
	// a third of them from concurrent goroutines released together
	var wg sync.WaitGroup
	start := make(chan struct{})
	for i := range hs {
		if i%3 == 0 {
			wg.Add(1)
			go func(i int) {
				defer wg.Done()
				<-start
				hs[i].id, hs[i].ok = couchbase.VerifCheckpointID(hs[i].vb, hs[i].g)
				hs[i].atCall = string(hs[i].id)
			}(i)
		}
	}
	close(start)
	wg.Wait()
	for i := range hs {
		if i%3 != 0 {
			hs[i].id, hs[i].ok = couchbase.VerifCheckpointID(hs[i].vb, hs[i].g)
			hs[i].atCall = string(hs[i].id)
		}
	}
	for i := range hs {
		g, vb, id, ok := hs[i].g, hs[i].vb, hs[i].id, hs[i].ok
		obs := gal.None()
		meta := false
		if ok {
			obs = gal.Some(gal.Bytes(id))
			meta = helpers.IsMetadata(struct{ Key []byte }{id})
			if !meta {
				c.Violate("key-not-reserved", "checkpoint key "+string(id)+" is not under a reserved prefix", map[string]interface{}{"group": g, "vb": vb})
			}
			if string(id) != hs[i].atCall {
				c.Violate("key-changed-after-return", fmt.Sprintf("the checkpoint key of (%q, %d) was %q when it was returned and reads %q once the keys of other vBuckets have been computed", g, vb, hs[i].atCall, string(id)), map[string]interface{}{"group": g, "vb": vb})
			}
		}
		c.Eval("key:"+g+"/"+string(rune(vb)), true)
		c.Count("checkpoint-key")
		kc = append(kc, gal.Tuple(gal.Bytes([]byte(g)), gal.N(uint64(vb)), obs, gal.Bool(meta)))
		kr = append(kr, J(map[string]interface{}{"kind": "checkpoint-key", "group": g, "vb": vb, "key": string(id), "ok": ok, "held_with": "the keys of all other cases of this run"}))
	}
	// injectivity monitor on a grid; the keys of one group are held together before they are compared
	seen := map[string][2]interface{}{}
	for _, g := range groups {
		var ids [][]byte
		for vb := 0; vb < 40; vb++ {
			id, ok := couchbase.VerifCheckpointID(uint16(vb), g)
			if !ok {
				id = nil
			}
			ids = append(ids, id)
		}
		for vb, id := range ids {
			if id == nil {
				continue
			}
			if p, dup := seen[string(id)]; dup && (p[0] != g || p[1] != vb) {
				c.Violate("key-collision", "checkpoint key "+string(id)+" is produced by two different (group, vBucket) pairs", map[string]interface{}{"a": p, "b": []interface{}{g, vb}})
			}
			seen[string(id)] = [2]interface{}{g, vb}
		}
	}
	keys := []string{"_connector:cbgo:x", "_connector:cbgo:", "_connector:cbgo", "_txn:", "_txn:1", "_txn", "", "x", "_connector:cbgx:1", "\x00", "_Connector:cbgo:a", " _txn:a"}
	for i := 0; i < c.Pick(200, 3000); i++ {
		k := keys[c.Rng.Intn(len(keys))]
		if c.Rng.Intn(2) == 0 {
			full := "_connector:cbgo:zz"
			if c.Rng.Intn(2) == 0 {
				full = "_txn:zz"
			}
			k = full[:c.Rng.Intn(len(full)+1)]
			if c.Rng.Intn(3) == 0 {
				k += "q"
			}
		}
		m := helpers.IsMetadata(struct{ Key []byte }{[]byte(k)})
		c.Count("prefix-test")
		mc = append(mc, gal.Tuple(gal.Bytes([]byte(k)), gal.Bool(m)))
		mr = append(mr, J(map[string]interface{}{"kind": "is-metadata", "key": k, "result": m}))
	}
	im := []string{"Base.Bytes", "Model.Stream", "Model.Keys", "Corr.CorrC14"}
	c.Emit("keys", "getCheckpointID (hook) and IsMetadata vs Keys.checkpoint_id / is_meta", im, "bytes * N * option bytes * bool", "chk_key", kc, kr, 400)
	c.Emit("meta", "helpers.IsMetadata vs Stream.is_meta", im, "bytes * bool", "chk_meta", mc, mr, 400)
}
