package scen

import (
	"bytes"
	"fmt"
)

// Property monitors of the stream core. They look only at what was sent to and observed from the
// real implementation (ops and per-op outputs) and keep their own bookkeeping; they do not use the
// Coq model.

func hrep(h *SHistory, upto int) map[string]interface{} {
	if upto > len(h.Ops) {
		upto = len(h.Ops)
	}
	return map[string]interface{}{"cfg": h.Cfg, "initial_store": h.Initial, "ops": h.Ops[:upto], "observed": h.Outs[:upto]}
}

type ctxInfo struct {
	vb      uint16
	off     SOffset
	session int
	acked   bool
	opIdx   int
}

type shadow struct {
	session        int
	open           bool
	closedWin      bool // between rebclose and rebopen / after close
	first, last    uint16
	tracked        map[uint16]*SOffset // last position reported (openreq resume or track)
	resume         map[uint16]SOffset
	settled        map[uint16][]SOffset // resume, acked, absorbed positions (all sessions since the last crash)
	ctxs           []*ctxInfo
	store          map[uint16]SDoc
	inDump         map[uint16]SDoc
	inDirty        []uint16
	inflight       bool
	advanced       map[uint16]SOffset // last position reached through an ack / non-document event and not yet known durable
	advAtBegin     map[uint16]SOffset
	trackedAtBegin map[uint16]SOffset
	snap           map[uint16]*[2]uint64
	uuid           map[uint16]uint64
	catchup        map[uint16]*uint64
	ended          map[uint16]bool
	counts         map[uint16]*[3]uint64
	stopped        bool
	absorbedOver   map[uint16]bool // an absorbed event overtook an outstanding delivery (K1 situation)
	oooAck         map[uint16]bool // acknowledgements of this vb were not in delivery order / stale
	rebalances     uint64
	metaOnly       map[uint16]bool
	advStamp       map[uint16]int // op index of the last advance of a vBucket
	beginIdx       int
	latest         map[uint16]uint64 // end bound every request / offset of the session must carry
}

func newShadow(h *SHistory) *shadow {
	s := &shadow{store: map[uint16]SDoc{}}
	for k, v := range h.Initial {
		s.store[k] = v
	}
	s.reset()
	return s
}
func (s *shadow) reset() {
	s.open, s.closedWin, s.inflight, s.stopped = false, false, false, false
	s.tracked, s.resume, s.settled = map[uint16]*SOffset{}, map[uint16]SOffset{}, map[uint16][]SOffset{}
	s.ctxs = nil
	s.advanced = map[uint16]SOffset{}
	s.snap, s.uuid, s.catchup = map[uint16]*[2]uint64{}, map[uint16]uint64{}, map[uint16]*uint64{}
	s.ended, s.counts = map[uint16]bool{}, map[uint16]*[3]uint64{}
	s.absorbedOver, s.oooAck = map[uint16]bool{}, map[uint16]bool{}
	s.rebalances = 0
	s.latest = map[uint16]uint64{}
	s.metaOnly = map[uint16]bool{}
	s.advStamp = map[uint16]int{}
	s.session++
}

func validOff(o SOffset) bool { return o.Start <= o.Seq && o.Seq <= o.End }

var metaPrefixes = [][]byte{[]byte("_connector:cbgo:"), []byte("_txn:")}

func isMetaKey(k []byte) bool {
	for _, p := range metaPrefixes {
		if bytes.HasPrefix(k, p) {
			return true
		}
	}
	return false
}

// monitorStream runs all stream-core monitors; which selects the property whose violations are reported.
func monitorStream(which string) StreamMonitor {
	return func(c *Ctx, h *SHistory) {
		s := newShadow(h)
		viol := func(prop, class, what string, upto int) {
			if prop == which || which == "ALL" {
				c.Violate(class, what, hrep(h, upto+1))
			}
		}
		for _, f := range h.Faith {
			viol("C03", "unfaithful", f, len(h.Ops))
		}
		onMetaSave := func(i int, o SOut) {
			s.inflight, s.inDump, s.inDirty = true, o.Dump, o.Dirty
			s.beginIdx = i
			s.advAtBegin, s.trackedAtBegin = map[uint16]SOffset{}, map[uint16]SOffset{}
			for vb, a := range s.advanced {
				s.advAtBegin[vb] = a
			}
			for vb, t := range s.tracked {
				s.trackedAtBegin[vb] = *t
			}
			dirty := map[uint16]bool{}
			for _, vb := range o.Dirty {
				dirty[vb] = true
			}
			for vb, d := range o.Dump {
				// C01 (a): the dumped position was settled before the save began
				ok := false
				for _, st := range s.settled[vb] {
					if (SDoc{st.UUID, st.Seq, st.Start, st.End}) == d {
						ok = true
					}
				}
				if !ok {
					viol("C01", "unsettled-position-saved", fmt.Sprintf("op %d: save of vb %d writes %+v, which is neither the resume position nor a settled event (settled: %v)", i, vb, d, s.settled[vb]), i)
				}
				if vb < s.first || vb > s.last {
					viol("C04", "foreign-checkpoint", fmt.Sprintf("op %d: save contains a document for vb %d outside the assigned range %d-%d", i, vb, s.first, s.last), i)
				}
				if t, ok := s.tracked[vb]; ok && !s.closedWin && (SDoc{t.UUID, t.Seq, t.Start, t.End}) != d {
					viol("C05", "dump-not-tracked", fmt.Sprintf("op %d: save of vb %d dumps %+v but the tracked position is %+v", i, vb, d, *t), i)
				}
			}
			for _, vb := range o.Dirty {
				if _, adv := s.advanced[vb]; !adv && s.metaOnly[vb] && !s.closedWin {
					viol("C14", "own-write-flagged", fmt.Sprintf("op %d: vb %d is marked for saving although only reserved-key events advanced it since the last save", i, vb), i)
				}
			}
			s.metaOnly = map[uint16]bool{}
			for vb := range s.advanced {
				if !dirty[vb] && vb >= s.first && vb <= s.last && !s.closedWin {
					viol("C05", "advanced-not-dirty", fmt.Sprintf("op %d: vb %d was advanced by an acknowledgement / non-document event since the last successful save but is not marked for writing", i, vb), i)
				}
			}
		}
		for i, op := range h.Ops {
			outs := h.Outs[i]
			failed := false
			for _, o := range outs {
				if o.Kind == "fail" {
					failed = true
				}
				// C02/C12: the end bound is unbounded in infinite mode, the high seqno sampled at open in finite mode
				staleAck := op.Kind == "ack" && op.I < len(s.ctxs) && s.ctxs[op.I].session != s.session
				if o.Off != nil && !staleAck && !s.oooAck[o.Vb] && (o.Kind == "consume" || o.Kind == "track" || (o.Kind == "openreq" && op.Kind == "end")) {
					if want, ok := s.latest[o.Vb]; ok && o.Off.Latest != want && s.open {
						viol("C12", "end-bound", fmt.Sprintf("op %d (%s): vb %d carries end seqno %d, the session's end bound is %d", i, o.Kind, o.Vb, o.Off.Latest, want), i)
					}
				}
				// C06: every offset handed out is a valid resume point
				if o.Off != nil && (o.Kind == "consume" || o.Kind == "track" || o.Kind == "openreq") && !validOff(*o.Off) {
					viol("C06", "invalid-offset", fmt.Sprintf("op %d (%s): offset %+v violates start <= seq <= end", i, o.Kind, *o.Off), i)
				}
				if o.Kind == "metasave" {
					for vb, d := range o.Dump {
						if !(d.Start <= d.Seq && d.Seq <= d.End) {
							viol("C06", "invalid-offset", fmt.Sprintf("op %d: document for vb %d passed to the store %+v violates start <= seq <= end", i, vb, d), i)
						}
					}
				}
				if o.Kind == "stop" {
					s.stopped = true
				}
			}
			switch op.Kind {
			case "open", "rebopen":
				s.open, s.closedWin = true, false
				s.first, s.last = op.First, op.Last
				s.session++
				s.tracked = map[uint16]*SOffset{}
				s.snap, s.catchup, s.ended = map[uint16]*[2]uint64{}, map[uint16]*uint64{}, map[uint16]bool{}
				s.counts = map[uint16]*[3]uint64{}
				s.absorbedOver, s.oooAck = map[uint16]bool{}, map[uint16]bool{}
				s.advanced = map[uint16]SOffset{} // Load installs a fresh dirty set
				s.metaOnly = map[uint16]bool{}
				if op.Kind == "rebopen" {
					s.rebalances++
				}
				nReq := 0
				anyStored := false
				for vb := int(op.First); vb <= int(op.Last); vb++ {
					if _, ok := s.store[uint16(vb)]; ok {
						anyStored = true
					}
				}
				for _, o := range outs {
					if o.Kind != "openreq" {
						continue
					}
					nReq++
					off := *o.Off
					// C02: the request is exactly the last persisted tuple / zeros / the current high seqno
					var wantOff SOffset
					if d, ok := s.store[o.Vb]; ok {
						wantOff = SOffset{UUID: d.UUID, Seq: d.Seq, Start: d.Start, End: d.End}
					} else if !anyStored && h.Cfg.Latest {
						hi := op.Sv.High[o.Vb]
						wantOff = SOffset{UUID: op.Sv.UUID[o.Vb], Seq: hi, Start: hi, End: hi}
					}
					wantOff.Latest = ^uint64(0)
					if h.Cfg.Finite {
						wantOff.Latest = op.Sv.High[o.Vb]
					}
					if off != wantOff {
						viol("C02", "request-not-persisted-tuple", fmt.Sprintf("op %d: vb %d requested with %+v, the persisted checkpoint / reset rule gives %+v", i, o.Vb, off, wantOff), i)
					}
					// C06: a position taken from the server (auto-reset 'latest' without checkpoints) lies on the server's current
					// branch: the newest entry of the failover log, whatever older entries the log has
					if _, stored := s.store[o.Vb]; !stored && !anyStored && h.Cfg.Latest && off.UUID != op.Sv.UUID[o.Vb] {
						viol("C06", "reset-on-wrong-branch", fmt.Sprintf("op %d: vb %d reset to the current high seqno %d with branch %d; the newest failover entry is %d", i, o.Vb, off.Seq, off.UUID, op.Sv.UUID[o.Vb]), i)
					}
					s.tracked[o.Vb] = &off
					s.resume[o.Vb] = off
					want := ^uint64(0)
					if h.Cfg.Finite {
						want = op.Sv.High[o.Vb]
					}
					s.latest[o.Vb] = want
					if off.Latest != want {
						viol("C12", "end-bound", fmt.Sprintf("op %d: vb %d requested with end seqno %d, expected %d", i, o.Vb, off.Latest, want), i)
					}
					if _, stored := s.store[o.Vb]; !stored && h.Cfg.Latest && off.Seq != 0 {
						s.advanced[o.Vb] = off // auto-reset 'latest' marks the fresh position for saving
						s.advStamp[o.Vb] = i
					}
					s.settled[o.Vb] = append(s.settled[o.Vb], off)
					s.uuid[o.Vb] = op.Sv.UUID[o.Vb]
					s.counts[o.Vb] = &[3]uint64{}
					for _, r := range op.Sv.Roll {
						if r == o.Vb {
							f := off.Seq
							s.catchup[o.Vb] = &f
						}
					}
					// C02/C15: the request is what the store says (checked in detail by C02); never beyond the server's high seqno
					if hi, ok := op.Sv.High[o.Vb]; ok && off.Seq > hi {
						viol("C15", "request-beyond-high", fmt.Sprintf("op %d: vb %d requested from seq %d but the server's high seqno is %d", i, o.Vb, off.Seq, hi), i)
					}
				}
				if !failed && nReq != int(op.Last-op.First)+1 {
					viol("C15", "partial-open", fmt.Sprintf("op %d: %d of %d assigned vBuckets were requested", i, nReq, int(op.Last-op.First)+1), i)
				}
			case "rebclose", "close":
				s.open, s.closedWin = false, true
				// closing drops the positions not yet saved: the reopen resumes from the store and the server re-sends
				s.advanced = map[uint16]SOffset{}
				for _, o := range outs {
					_ = o
				}
			case "crash":
				// C01 (b): nothing delivered and unacknowledged may lie at or below the stored position
				s.checkNoSkip(h, i, viol)
				st := s.store
				s.reset()
				s.store = st
			case "deliver":
				vb, ev := op.Vb, op.Ev
				var consumed *SOut
				var tracks []SOut
				for k := range outs {
					if outs[k].Kind == "consume" {
						consumed = &outs[k]
					}
					if outs[k].Kind == "track" {
						tracks = append(tracks, outs[k])
					}
				}
				if consumed != nil && s.closedWin {
					viol("C11", "delivered-while-closed", fmt.Sprintf("op %d: an event was handed to the consumer while the stream was closed", i), i)
				}
				switch ev.Kind {
				case "marker":
					s.snap[vb] = &[2]uint64{ev.S, ev.E}
				case "seqadv":
					s.snap[vb] = &[2]uint64{ev.Seq, ev.Seq}
				}
				// expected fate of the event according to the documented filters
				expectConsume, expectAbsorb, expectFail := false, false, false
				var seq uint64
				switch ev.Kind {
				case "mut", "del", "exp":
					seq = ev.Item.Seq
					keep := true
					if cu := s.catchup[vb]; cu != nil {
						if seq >= *cu {
							s.catchup[vb] = nil
							keep = seq != *cu
						} else {
							keep = false
						}
					}
					if keep && h.Cfg.SkipUntil != nil && (ev.Item.Cas/1000000000)*1000000000 < *h.Cfg.SkipUntil {
						keep = false
					}
					if keep {
						sn := s.snap[vb]
						if sn == nil || seq < sn[0] || seq > sn[1] {
							expectFail = true
						} else {
							if s.counts[vb] != nil {
								s.counts[vb][map[string]int{"mut": 0, "del": 1, "exp": 2}[ev.Kind]]++
							}
							if isMetaKey(ev.Item.Key) {
								expectAbsorb = !s.closedWin
							} else {
								expectConsume = !s.closedWin
							}
						}
					}
				case "sys":
					seq = ev.Seq
					keep := true
					if cu := s.catchup[vb]; cu != nil {
						if seq >= *cu {
							s.catchup[vb] = nil
							keep = seq != *cu
						} else {
							keep = false
						}
					}
					if keep {
						sn := s.snap[vb]
						if sn == nil || seq < sn[0] || seq > sn[1] {
							expectFail = true
						} else {
							expectAbsorb = !s.closedWin
						}
					}
				case "seqadv":
					seq = ev.Seq
					expectAbsorb = !s.closedWin
				}
				if expectFail != failed {
					if expectFail {
						viol("C06", "out-of-snapshot-not-stopped", fmt.Sprintf("op %d: vb %d event seq %d lies outside its announced snapshot %v but the client was not stopped", i, vb, seq, s.snap[vb]), i)
					} else {
						viol("C06", "spurious-stop", fmt.Sprintf("op %d: the client stopped on an event inside its snapshot", i), i)
					}
				}
				if failed {
					return
				}
				if expectConsume != (consumed != nil) {
					if expectConsume {
						viol("C03", "lost-event", fmt.Sprintf("op %d: vb %d %s seq %d passes every documented filter but was not delivered", i, vb, ev.Kind, seq), i)
					} else if isMetaKey(evKey(ev)) {
						viol("C14", "reserved-key-delivered", fmt.Sprintf("op %d: vb %d event with reserved key %q was shown to the consumer", i, vb, evKey(ev)), i)
						viol("C03", "filtered-event-delivered", fmt.Sprintf("op %d: vb %d %s seq %d has the reserved key %q and should have been removed by the filter but was delivered", i, vb, ev.Kind, seq, evKey(ev)), i)
					} else {
						viol("C03", "filtered-event-delivered", fmt.Sprintf("op %d: vb %d %s seq %d should have been removed by a filter (catch-up / skipUntil) but was delivered", i, vb, ev.Kind, seq), i)
					}
				}
				if consumed != nil {
					o := consumed
					// C03 faithfulness of the wrapper; C06 the offset is the event's own position
					if o.Vb != vb || o.DKind != ev.Kind || o.Item.Seq != ev.Item.Seq || o.Item.Cas != ev.Item.Cas || o.Item.Cid != ev.Item.Cid || !bytes.Equal(o.Item.Key, ev.Item.Key) || o.Item.Rest != ev.Item.Rest {
						viol("C03", "unfaithful", fmt.Sprintf("op %d: delivered event differs from the one sent: %+v vs %+v", i, *o.Item, *ev.Item), i)
					}
					wantColl := "_default"
					if n, ok := h.Cfg.Colls[ev.Item.Cid]; ok {
						wantColl = n
					}
					if o.Coll != wantColl || o.TimeS != ev.Item.Cas/1000000000 {
						viol("C03", "unfaithful", fmt.Sprintf("op %d: collection %q / event time %d, expected %q / %d", i, o.Coll, o.TimeS, wantColl, ev.Item.Cas/1000000000), i)
					}
					sn := s.snap[vb]
					if o.Off.Seq != ev.Item.Seq || sn == nil || o.Off.Start != sn[0] || o.Off.End != sn[1] || o.Off.UUID != s.uuid[vb] {
						viol("C06", "torn-offset", fmt.Sprintf("op %d: offset %+v is not (branch %d, seq %d, snapshot %v) of the delivered event", i, *o.Off, s.uuid[vb], ev.Item.Seq, sn), i)
						viol("C03", "offset-not-of-event", fmt.Sprintf("op %d: the event at seq %d of vb %d was handed to the consumer with the offset %+v (branch %d, snapshot %v in force)", i, ev.Item.Seq, vb, *o.Off, s.uuid[vb], sn), i)
					}
					s.ctxs = append(s.ctxs, &ctxInfo{vb: vb, off: *o.Off, session: s.session, opIdx: i})
				}
				if expectAbsorb {
					// the position must advance to this event (unless something newer is tracked already)
					cur := s.tracked[vb]
					should := cur == nil || cur.Seq <= seq
					if should != (len(tracks) == 1) {
						viol("C04", "absorb-not-tracked", fmt.Sprintf("op %d: vb %d absorbed event seq %d: tracked %v, %d TrackOffset calls", i, vb, seq, cur, len(tracks)), i)
					}
				} else if len(tracks) > 0 {
					viol("C04", "spurious-track", fmt.Sprintf("op %d: TrackOffset called for an event that is neither acknowledged nor absorbed", i), i)
				}
				for _, t := range tracks {
					off := *t.Off
					sn := s.snap[vb]
					if off.Seq != seq || sn == nil || off.Start != sn[0] || off.End != sn[1] || off.UUID != s.uuid[vb] {
						viol("C06", "torn-offset", fmt.Sprintf("op %d: absorbed offset %+v is not (branch %d, seq %d, snapshot %v)", i, off, s.uuid[vb], seq, sn), i)
					}
					s.noteTrack(vb, off, i, viol, false)
					s.settled[vb] = append(s.settled[vb], off)
					if ev.Kind == "sys" || ev.Kind == "seqadv" {
						s.advanced[vb] = off
						s.advStamp[vb] = i
					} else {
						s.metaOnly[vb] = true
					}
					for _, cx := range s.ctxs {
						if cx.vb == vb && !cx.acked && cx.session == s.session && cx.off.Seq < off.Seq {
							s.absorbedOver[vb] = true
						}
					}
				}
			case "ack":
				if op.I < len(s.ctxs) {
					cx := s.ctxs[op.I]
					// while the stream is closed an acknowledgement moves nothing (there is no session it belongs to)
					inRange := s.first <= cx.vb && cx.vb <= s.last && s.open
					// order discipline of this vBucket's acknowledgements
					if cx.session != s.session {
						s.oooAck[cx.vb] = true
					}
					for _, other := range s.ctxs {
						if other != cx && other.vb == cx.vb && !other.acked && other.session == cx.session && other.opIdx < cx.opIdx {
							s.oooAck[cx.vb] = true
						}
					}
					cx.acked = true
					var tracks []SOut
					for _, o := range outs {
						if o.Kind == "track" {
							tracks = append(tracks, o)
						}
					}
					cur := s.tracked[cx.vb]
					should := inRange && (cur == nil || cur.Seq <= cx.off.Seq)
					if !inRange && len(tracks) > 0 {
						viol("C04", "foreign-ack-applied", fmt.Sprintf("op %d: acknowledgement for vb %d outside the assigned range %d-%d moved a position", i, cx.vb, s.first, s.last), i)
					} else if should != (len(tracks) == 1) {
						cl := "ack-not-max"
						if s.closedWin {
							cl = "closed-window-ack"
						}
						viol("C04", cl, fmt.Sprintf("op %d: ack of vb %d seq %d with tracked %v: %d TrackOffset calls", i, cx.vb, cx.off.Seq, cur, len(tracks)), i)
					}
					for _, t := range tracks {
						if *t.Off != cx.off || t.Vb != cx.vb {
							viol("C04", "ack-wrong-offset", fmt.Sprintf("op %d: acknowledged offset %+v but TrackOffset got vb %d %+v", i, cx.off, t.Vb, *t.Off), i)
							viol("C03", "offset-changed-after-delivery", fmt.Sprintf("op %d: the event of vb %d was handed to the consumer with the offset %+v; when it was acknowledged the same context carried %+v", i, cx.vb, cx.off, *t.Off), i)
						}
						s.noteTrack(cx.vb, *t.Off, i, viol, s.closedWin)
						s.settled[cx.vb] = append(s.settled[cx.vb], *t.Off)
						s.advanced[cx.vb] = *t.Off
						s.advStamp[cx.vb] = i
					}
					if inRange {
						s.settled[cx.vb] = append(s.settled[cx.vb], cx.off)
					}
				}
			case "savebegin":
				if len(outs) == 1 && outs[0].Kind == "metasave" {
					onMetaSave(i, outs[0])
				} else if len(outs) == 1 && outs[0].Kind == "nosave" {
					for vb := range s.advanced {
						if vb >= s.first && vb <= s.last && !s.closedWin {
							viol("C05", "skipped-save", fmt.Sprintf("op %d: Save() wrote nothing although vb %d was advanced since the last successful save", i, vb), i)
							break
						}
					}
				}
			case "savequeue":
				if len(outs) == 1 && outs[0].Kind == "nosave" && s.inflight && !s.closedWin {
					for vb := range s.advanced {
						if s.advStamp[vb] > s.beginIdx && vb >= s.first && vb <= s.last {
							viol("C05", "queued-save-dropped", fmt.Sprintf("op %d: a Save() issued while another save was in flight returned without waiting although vb %d was acknowledged after that save began: its position is left unpersisted", i, vb), i)
							break
						}
					}
				}
			case "savewrite":
				if s.inflight {
					if d, ok := s.inDump[op.Vb]; ok {
						for _, v := range s.inDirty {
							if v == op.Vb {
								s.store[op.Vb] = d
							}
						}
					}
				}
			case "saveend":
				if s.inflight {
					if op.Ok {
						for _, vb := range s.inDirty {
							if d, ok := s.inDump[vb]; ok {
								s.store[vb] = d
							}
						}
						// positions advanced before the save began are now durable; later ones stay pending
						for vb, a := range s.advAtBegin {
							if _, ok := s.advanced[vb]; ok && s.advStamp[vb] < s.beginIdx {
								delete(s.advanced, vb) // nothing was acknowledged after the save began
							}
							_ = a
							if tb, ok := s.trackedAtBegin[vb]; ok && vb >= s.first && vb <= s.last {
								if d, ok2 := s.store[vb]; !ok2 || d != (SDoc{tb.UUID, tb.Seq, tb.Start, tb.End}) {
									if _, dumped := s.inDump[vb]; dumped {
										viol("C05", "not-durable", fmt.Sprintf("op %d: successful save, but the store of vb %d holds %+v instead of the position settled before the save began %+v", i, vb, s.store[vb], tb), i)
									}
								}
							}
						}
					}
					if !op.Ok {
						// a failed save gives its marks back: those vBuckets are pending again, whatever happened meanwhile
						for _, vb := range s.inDirty {
							if t, ok := s.tracked[vb]; ok {
								s.advanced[vb] = *t
							} else {
								s.advanced[vb] = SOffset{}
							}
							s.advStamp[vb] = i - 1 // before a queued save that may begin within this very op
						}
					}
					s.inflight = false
				}
				for _, o := range outs {
					if o.Kind == "metasave" { // a queued Save() took the lock
						onMetaSave(i, o)
					}
				}
			case "end":
				if op.Cause == "transient" {
					// reopened from the latest settled position, on the branch the server announces
					var req *SOut
					for k := range outs {
						if outs[k].Kind == "openreq" {
							req = &outs[k]
						}
					}
					if s.open && !s.ended[op.Vb] && op.Vb >= s.first && op.Vb <= s.last {
						if req == nil {
							viol("C12", "transient-not-reopened", fmt.Sprintf("op %d: transient end of vb %d was not followed by a reopen", i, op.Vb), i)
						} else if t := s.tracked[op.Vb]; t != nil && *req.Off != *t {
							viol("C12", "reopen-wrong-position", fmt.Sprintf("op %d: vb %d reopened from %+v but the latest settled position is %+v", i, op.Vb, *req.Off, *t), i)
						}
						s.uuid[op.Vb] = op.UUID
						if op.Roll && req != nil {
							f := req.Off.Seq
							s.catchup[op.Vb] = &f
						}
					}
				} else if s.open && op.Vb >= s.first && op.Vb <= s.last {
					s.ended[op.Vb] = true
				}
				if s.open {
					all := true
					for vb := s.first; ; vb++ {
						if !s.ended[vb] {
							all = false
						}
						if vb == s.last {
							break
						}
					}
					stopNow := false
					for _, o := range outs {
						if o.Kind == "stop" {
							stopNow = true
						}
					}
					if stopNow && !all {
						viol("C12", "early-stop", fmt.Sprintf("op %d: the client stopped although not every assigned vBucket stream has ended for good (%v)", i, s.ended), i)
					}
					if all && !s.stopped {
						viol("C12", "no-stop", fmt.Sprintf("op %d: every assigned vBucket stream has ended for good but the client did not stop", i), i)
					}
				}
			case "scrape":
				if len(outs) == 1 && outs[0].Kind == "metrics" {
					m := outs[0]
					var total uint64
					for vb, t := range s.tracked {
						r, ok := m.OffRows[vb]
						lag := uint64(0)
						if hi := op.High[vb]; hi > t.Seq {
							lag = hi - t.Seq
						}
						total += lag
						c53 := func(x uint64) uint64 {
							if x > 1<<53 {
								return 1 << 53
							}
							return x
						}
						if !ok || r[0] != c53(t.Seq) || r[1] != c53(t.Start) || r[2] != c53(t.End) || r[3] != c53(lag) {
							viol("C16", "gauge-wrong", fmt.Sprintf("op %d: vb %d gauges (seq,start,end,lag)=%v, tracked %+v, high %d, expected lag %d", i, vb, r, *t, op.High[vb], lag), i)
						}
						if cnt := s.counts[vb]; cnt != nil {
							if orow := m.ObsRows[vb]; orow[1] != cnt[0] || orow[2] != cnt[1] || orow[3] != cnt[2] {
								viol("C16", "counter-wrong", fmt.Sprintf("op %d: vb %d counters (mut,del,exp)=%v, accepted events %v", i, vb, orow[1:], *cnt), i)
							}
						}
					}
					if total < 1<<53 && m.Total != total {
						viol("C16", "total-lag-wrong", fmt.Sprintf("op %d: total lag %d, sum of the per-vBucket lags %d", i, m.Total, total), i)
					}
					na := int64(0)
					for vb := s.first; ; vb++ {
						if !s.ended[vb] {
							na++
						}
						if vb == s.last {
							break
						}
					}
					if m.Active != na {
						viol("C12", "active-count", fmt.Sprintf("op %d: active-stream count %d, assigned vBuckets not yet finally ended %d", i, m.Active, na), i)
						viol("C16", "active-gauge", fmt.Sprintf("op %d: the active-stream gauge shows %d, assigned vBuckets not yet finally ended: %d", i, m.Active, na), i)
					}
					if m.Rebal != s.rebalances {
						viol("C16", "rebalance-count", fmt.Sprintf("op %d: rebalance count %d, completed reopens %d", i, m.Rebal, s.rebalances), i)
					}
				} else if len(outs) == 1 && outs[0].Kind == "nometrics" && s.open {
					viol("C16", "no-metrics", fmt.Sprintf("op %d: scrape of an open stream returned nothing", i), i)
				} else if len(outs) == 1 && outs[0].Kind == "ignored" {
					viol("C16", "scrape-blocked", fmt.Sprintf("op %d: scrape did not return", i), i)
				}
			}
		}
		s.checkNoSkip(h, len(h.Ops)-1, viol)
	}
}

func evKey(e *SEv) []byte {
	if e.Item != nil {
		return e.Item.Key
	}
	return nil
}

func (s *shadow) noteTrack(vb uint16, off SOffset, i int, viol func(prop, class, what string, upto int), closedWin bool) {
	if cur := s.tracked[vb]; cur != nil && off.Seq < cur.Seq {
		cl := "regression"
		if closedWin {
			cl = "closed-window-ack"
		}
		viol("C04", cl, fmt.Sprintf("op %d: tracked position of vb %d moved backwards from seq %d to seq %d", i, vb, cur.Seq, off.Seq), i)
	}
	// C08: while the replay after a server-requested rollback has not passed the checkpointed position F, nothing moves the
	// position below F: a restart from there would show the consumer (position, F] a second time
	if f := s.catchup[vb]; f != nil && off.Seq < *f {
		viol("C08", "position-below-failed-seqno", fmt.Sprintf("op %d: after a rollback with checkpointed position %d the tracked position of vb %d moved to %d", i, *f, vb, off.Seq), i)
	}
	o := off
	s.tracked[vb] = &o
}

// checkNoSkip: at a crash point, no delivered-but-unacknowledged event of the running session may lie
// at or below the stored position of its vBucket (the restart would skip it).
func (s *shadow) checkNoSkip(h *SHistory, i int, viol func(prop, class, what string, upto int)) {
	for _, cx := range s.ctxs {
		if cx.acked || cx.session != s.session {
			continue
		}
		if s.oooAck[cx.vb] {
			continue // acknowledgements of this vBucket were issued out of delivery order: outside C01's quantifier
		}
		// the same event may have been delivered twice (a transient stream end re-requests from the tracked position):
		// acknowledged through its other context, it is settled
		settledTwin := false
		for _, other := range s.ctxs {
			if other != cx && other.vb == cx.vb && other.off.Seq == cx.off.Seq && other.acked {
				settledTwin = true
			}
		}
		if settledTwin {
			continue
		}
		if d, ok := s.store[cx.vb]; ok && d.Seq >= cx.off.Seq {
			cl := "skip-after-crash"
			if s.absorbedOver[cx.vb] {
				cl = "absorbed-event-overtakes-outstanding-delivery"
			}
			viol("C01", cl, fmt.Sprintf("crash after op %d: vb %d event seq %d was delivered and never acknowledged, but the stored checkpoint is already at seq %d: a restart skips it", i, cx.vb, cx.off.Seq, d.Seq), i)
		}
	}
}
