package scen

import (
	"errors"
	"fmt"
	"sort"
	"strings"
	"time"

	"github.com/couchbase/gocbcore/v10"
	"github.com/prometheus/client_golang/prometheus"
	dto "github.com/prometheus/client_model/go"

	dcp "github.com/Trendyol/go-dcp"
	"github.com/Trendyol/go-dcp/config"
	"github.com/Trendyol/go-dcp/couchbase"
	"github.com/Trendyol/go-dcp/membership"
	"github.com/Trendyol/go-dcp/metric"
	"github.com/Trendyol/go-dcp/metadata"
	"github.com/Trendyol/go-dcp/models"
	"github.com/Trendyol/go-dcp/stream"
	"github.com/Trendyol/go-dcp/tracing"

	"verifharness/fakes"
	"verifharness/gal"
)

// ---- the vocabulary of Model/Stream.v on the Go side ----

type SOffset struct{ UUID, Seq, Start, End, Latest uint64 }
type SDoc struct{ UUID, Seq, Start, End uint64 }

func (o SOffset) term() gal.Term {
	return gal.App("MkO", gal.N(o.UUID), gal.N(o.Seq), gal.N(o.Start), gal.N(o.End), gal.N(o.Latest))
}
func (d SDoc) term() gal.Term {
	return gal.App("MkD", gal.N(d.UUID), gal.N(d.Seq), gal.N(d.Start), gal.N(d.End))
}

type SItem struct {
	Seq, Cas uint64
	Cid      uint32
	Key      []byte
	Rest     uint64 // identifies value / revNo / flags / expiry / datatype / lock time
}

func (it SItem) term() gal.Term {
	return gal.App("MkI", gal.N(it.Seq), gal.N(it.Cas), gal.N(uint64(it.Cid)), gal.Bytes(it.Key), gal.N(it.Rest))
}

type SEv struct {
	Kind string // marker mut del exp sys seqadv oso
	S, E uint64
	Item *SItem
	Sys  int // 0..5
	Seq  uint64
	Cid  uint32
}

var sysNames = []string{"SCreateColl", "SDeleteColl", "SFlushColl", "SCreateScope", "SDeleteScope", "SModifyColl"}
var kindNames = map[string]string{"mut": "KMut", "del": "KDel", "exp": "KExp"}

func (e SEv) term() gal.Term {
	switch e.Kind {
	case "marker":
		return gal.App("Marker", gal.N(e.S), gal.N(e.E))
	case "mut", "del", "exp":
		return gal.App("Doc", gal.Term(kindNames[e.Kind]), e.Item.term())
	case "sys":
		return gal.App("Sys", gal.Term(sysNames[e.Sys]), gal.N(e.Seq), gal.N(uint64(e.Cid)))
	case "seqadv":
		return gal.App("SeqAdv", gal.N(e.Seq))
	}
	return "Oso"
}

type SServer struct {
	High map[uint16]uint64
	UUID map[uint16]uint64
	Roll []uint16
}

func pairsN(m map[uint16]uint64) gal.Term {
	ks := make([]int, 0, len(m))
	for k := range m {
		ks = append(ks, int(k))
	}
	sort.Ints(ks)
	ts := make([]gal.Term, len(ks))
	for i, k := range ks {
		ts[i] = gal.Tuple(gal.N(uint64(k)), gal.N(m[uint16(k)]))
	}
	return gal.List(ts)
}
func (s SServer) term() gal.Term {
	r := make([]uint64, len(s.Roll))
	for i, v := range s.Roll {
		r[i] = uint64(v)
	}
	return gal.App("Srv", pairsN(s.High), pairsN(s.UUID), gal.NList(r))
}

type SOp struct {
	Kind     string // open rebclose rebopen close deliver ack savebegin savewrite saveend crash scrape end
	First    uint16
	Last     uint16
	Sv       *SServer `json:",omitempty"`
	Cancel   bool
	Vb       uint16
	Ev       *SEv `json:",omitempty"`
	I        int
	Ok       bool
	Cause    string // clean transient final
	ErrIdx   int    // which concrete error of the class
	UUID     uint64
	Roll     bool
	High     map[uint16]uint64 `json:",omitempty"`
	R1, R2   bool              // shutdown: how a store call in flight / the final save ends
	Gate     *SEv              `json:",omitempty"` // shutdown: a document that is waiting at the rollback-mitigation gate of GateVb when Close() arrives
	GateVb   uint16            `json:",omitempty"`
	Released bool              `json:",omitempty"` // deliver: the document that was waiting at the gate (it passes the gate once the observer is closed)
}

func (o SOp) term() gal.Term {
	switch o.Kind {
	case "open":
		return gal.App("Open", gal.N(uint64(o.First)), gal.N(uint64(o.Last)), o.Sv.term())
	case "rebopen":
		return gal.App("RebOpen", gal.N(uint64(o.First)), gal.N(uint64(o.Last)), o.Sv.term())
	case "rebclose":
		return "RebClose"
	case "close":
		return gal.App("Close", gal.Bool(o.Cancel))
	case "deliver":
		return gal.App("Deliver", gal.N(uint64(o.Vb)), o.Ev.term())
	case "ack":
		return gal.App("Ack", gal.Nat(o.I))
	case "savebegin":
		return "SaveBegin"
	case "savequeue":
		return "SaveQueue"
	case "savewrite":
		return gal.App("SaveWrite", gal.N(uint64(o.Vb)))
	case "saveend":
		return gal.App("SaveEnd", gal.Bool(o.Ok))
	case "crash":
		return "Crash"
	case "scrape":
		return gal.App("Scrape", pairsN(o.High))
	case "shutdown":
		return gal.App("Shutdown", gal.Bool(o.R1), gal.Bool(o.R2))
	case "end":
		c := map[string]string{"clean": "EClean", "transient": "ETransient", "final": "EFinal"}[o.Cause]
		return gal.App("End", gal.N(uint64(o.Vb)), gal.Term(c), gal.N(o.UUID), gal.Bool(o.Roll))
	}
	panic("bad op " + o.Kind)
}

type SOut struct {
	Kind    string // consume track metasave nosave openreq closereq callback stop fail ignored metrics nometrics
	Vb      uint16
	DKind   string   `json:",omitempty"`
	Item    *SItem   `json:",omitempty"`
	Off     *SOffset `json:",omitempty"`
	Coll    string   `json:",omitempty"`
	TimeS   uint64
	Dump    map[uint16]SDoc      `json:",omitempty"`
	Dirty   []uint16             `json:",omitempty"`
	Name    string               `json:",omitempty"`
	ObsRows map[uint16][4]uint64 `json:",omitempty"`
	OffRows map[uint16][4]uint64 `json:",omitempty"`
	Total   uint64
	Active  int64
	Rebal   uint64
	Note    string `json:",omitempty"`
}

func rows4(m map[uint16][4]uint64) gal.Term {
	ks := make([]int, 0, len(m))
	for k := range m {
		ks = append(ks, int(k))
	}
	sort.Ints(ks)
	ts := make([]gal.Term, len(ks))
	for i, k := range ks {
		r := m[uint16(k)]
		ts[i] = gal.Tuple(gal.N(uint64(k)), gal.Tuple(gal.N(r[0]), gal.N(r[1]), gal.N(r[2]), gal.N(r[3])))
	}
	return gal.List(ts)
}

func (o SOut) term() gal.Term {
	switch o.Kind {
	case "consume":
		return gal.App("Consume", gal.N(uint64(o.Vb)), gal.Term(kindNames[o.DKind]), o.Item.term(), o.Off.term(), gal.Bytes([]byte(o.Coll)), gal.N(o.TimeS))
	case "track":
		return gal.App("Track", gal.N(uint64(o.Vb)), o.Off.term())
	case "metasave":
		ks := make([]int, 0, len(o.Dump))
		for k := range o.Dump {
			ks = append(ks, int(k))
		}
		sort.Ints(ks)
		ds := make([]gal.Term, len(ks))
		for i, k := range ks {
			ds[i] = gal.Tuple(gal.N(uint64(k)), o.Dump[uint16(k)].term())
		}
		dl := make([]uint64, len(o.Dirty))
		for i, v := range o.Dirty {
			dl[i] = uint64(v)
		}
		return gal.App("MetaSave", gal.List(ds), gal.NList(dl))
	case "nosave":
		return "NoSave"
	case "openreq":
		return gal.App("OpenReq", gal.N(uint64(o.Vb)), o.Off.term())
	case "closereq":
		return gal.App("CloseReq", gal.N(uint64(o.Vb)))
	case "callback":
		return gal.App("Callback", gal.Term(o.Name))
	case "stop":
		return "Stop"
	case "fail":
		return "Fail"
	case "metrics":
		return gal.App("Metrics", rows4(o.ObsRows), rows4(o.OffRows), gal.N(o.Total), gal.Z(o.Active), gal.N(o.Rebal))
	case "nometrics":
		return "NoMetrics"
	case "dcpclose":
		return "DcpClose"
	case "cliclose":
		return "CliClose"
	case "returned":
		return "Returned"
	case "died":
		return "Died"
	}
	return "Ignored"
}

// SDigest is the projection of the final state compared with the model.
type SDigest struct {
	Offs     map[uint16]SOffset
	Dirty    []uint16
	AnyDirty bool
	Open     bool
	Active   int64
	Stopped  bool
	Store    map[uint16]SDoc
}

func (d SDigest) term() gal.Term {
	ks := make([]int, 0)
	for k := range d.Offs {
		ks = append(ks, int(k))
	}
	sort.Ints(ks)
	os := make([]gal.Term, len(ks))
	for i, k := range ks {
		os[i] = gal.Tuple(gal.N(uint64(k)), d.Offs[uint16(k)].term())
	}
	dl := make([]uint64, len(d.Dirty))
	for i, v := range d.Dirty {
		dl[i] = uint64(v)
	}
	ks = ks[:0]
	for k := range d.Store {
		ks = append(ks, int(k))
	}
	sort.Ints(ks)
	st := make([]gal.Term, len(ks))
	for i, k := range ks {
		st[i] = gal.Tuple(gal.N(uint64(k)), d.Store[uint16(k)].term())
	}
	return gal.App("Dg", gal.List(os), gal.NList(dl), gal.Bool(d.AnyDirty), gal.Bool(d.Open), gal.Z(d.Active), gal.Bool(d.Stopped), gal.List(st))
}

type SCfg struct {
	Finite    bool
	Latest    bool
	SkipUntil *uint64 // ns
	Colls     map[uint32]string
}

func (c SCfg) term() gal.Term {
	sk := gal.None()
	if c.SkipUntil != nil {
		sk = gal.Some(gal.N(*c.SkipUntil))
	}
	ks := make([]int, 0)
	for k := range c.Colls {
		ks = append(ks, int(k))
	}
	sort.Ints(ks)
	cs := make([]gal.Term, len(ks))
	for i, k := range ks {
		cs[i] = gal.Tuple(gal.N(uint64(k)), gal.Bytes([]byte(c.Colls[uint32(k)])))
	}
	return gal.App("Cfg", gal.Bool(c.Finite), gal.Bool(c.Latest), sk, gal.List(cs))
}

// ---- driver ----

type SDriver struct {
	Cfg           SCfg
	cfg           *config.Dcp
	Client        *fakes.StreamClient
	Store         *fakes.Store
	Cons          *fakes.Consumer
	Disc          *fakes.Discovery
	RealDisc      stream.VBucketDiscovery // when set, the stream is built on this discovery instead of the fake
	oldObs        map[uint16]couchbase.Observer
	RealMeta      metadata.Metadata       // when set, the stream is built on this metadata backend instead of the fake store
	Hand          *fakes.Handler
	Stream        stream.Stream
	stopCh        chan struct{}
	stopSeen      bool
	saveRet       chan struct{}          // one token per Save() call of the harness that has returned
	waiting       int                    // Save() calls of the harness waiting for the save lock
	SerialVersion bool                   // server older than 5.5.0
	sent          map[uint64]interface{} // Rest id -> the gocbcore event sent
	Faith         []string               // field-faithfulness complaints (C03 monitor)
	MaxVb         uint16
	// around a whole Dcp (sdcp.go)
	IsDcp     bool
	Auto      bool
	Health    bool
	Dcp       dcp.Dcp
	startDone chan string
	Trace     *fakes.Trace
	Life      *LifeObs
	opIdx     int
	gatedOuts []SOut
}

func NewSDriver(c SCfg, initial map[uint16]SDoc) *SDriver {
	d := &SDriver{Cfg: c, Store: fakes.NewStore(), sent: map[uint64]interface{}{}, MaxVb: 15}
	for vb, doc := range initial {
		d.Store.Docs[vb] = models.CheckpointDocument{
			Checkpoint: &models.CheckpointDocumentCheckpoint{
				VbUUID: doc.UUID, SeqNo: doc.Seq,
				Snapshot: &models.CheckpointDocumentSnapshot{StartSeqNo: doc.Start, EndSeqNo: doc.End},
			},
		}
	}
	d.fresh()
	return d
}

func (d *SDriver) fresh() {
	d.saveRet, d.waiting = nil, 0
	cfg := d.buildConfig()
	d.cfg = cfg
	d.Client = fakes.NewStreamClient()
	d.Cons = &fakes.Consumer{}
	d.Disc = &fakes.Discovery{}
	d.Hand = fakes.NewHandler()
	d.stopCh = make(chan struct{}, 1)
	d.stopSeen = false
	ver := d.version()
	var disc stream.VBucketDiscovery = d.Disc
	if d.RealDisc != nil {
		disc = d.RealDisc
	}
	var meta metadata.Metadata = d.Store
	if d.RealMeta != nil {
		meta = d.RealMeta
	}
	d.Stream = stream.NewStream(d.Client, meta, cfg, ver, &couchbase.BucketInfo{}, disc, d.Cons, d.collections(),
		d.stopCh, d.Hand, tracing.NewTracerComponent())
}

func (d *SDriver) collections() map[uint32]string {
	colls := map[uint32]string{}
	for k, v := range d.Cfg.Colls {
		colls[k] = v
	}
	return colls
}

var metaTypeFlip bool

// verOverride: the server version of every driver built in this process (children of the gate scenario)
var verOverride *couchbase.Version

func (d *SDriver) version() *couchbase.Version {
	if verOverride != nil {
		return verOverride
	}
	if d.SerialVersion {
		return &couchbase.Version{Major: 5, Minor: 4, Patch: 9, Build: 9}
	}
	return &couchbase.Version{Major: 7, Minor: 6, Patch: 3}
}

func (d *SDriver) buildConfig() *config.Dcp {
	cfg := &config.Dcp{}
	cfg.RollbackMitigation.Disabled = true
	cfg.Checkpoint.Type = "manual"
	cfg.Checkpoint.AutoReset = "earliest"
	if d.Cfg.Latest {
		cfg.Checkpoint.AutoReset = "latest"
	}
	cfg.Dcp.Mode = "infinite"
	if d.Cfg.Finite {
		cfg.Dcp.Mode = "finite"
	}
	if d.Cfg.SkipUntil != nil {
		t := time.Unix(0, int64(*d.Cfg.SkipUntil))
		cfg.Dcp.Listener.SkipUntil = &t
	}
	cfg.Dcp.Group.Name = "g"
	cfg.Dcp.Group.Membership.Type = membership.StaticMembershipType
	cfg.Dcp.Group.Membership.RebalanceDelay = time.Millisecond
	// the configured metadata type has no bearing on a stream that is handed its store (as SetMetadata does): it alternates
	// between the default and another backend so that nothing of the stream depends on it unnoticed
	metaTypeFlip = !metaTypeFlip
	if metaTypeFlip {
		cfg.Metadata.Type = "file"
	} else {
		cfg.Metadata.Type = "couchbase"
	}
	return cfg
}

func offOf(o *models.Offset) *SOffset {
	r := &SOffset{UUID: uint64(o.VbUUID), Seq: o.SeqNo, Latest: o.LatestSeqNo}
	if o.SnapshotMarker != nil {
		r.Start, r.End = o.StartSeqNo, o.EndSeqNo
	}
	return r
}

func (d *SDriver) setServer(sv *SServer) {
	d.Client.High = map[uint16]uint64{}
	d.Client.UUID = map[uint16]uint64{}
	d.Client.Roll = map[uint16]bool{}
	d.Client.HighColl = map[uint16]uint64{}
	for k, v := range sv.High {
		d.Client.High[k] = v
		d.Client.HighColl[k] = v / 2 // the streamed collections lag behind the vBucket: start-up must not look at this one
	}
	for k, v := range sv.UUID {
		d.Client.UUID[k] = v
	}
	for _, v := range sv.Roll {
		d.Client.Roll[v] = true
	}
}

// collect gathers what the fakes recorded since the last call, in the canonical order of the model:
// callbacks are interleaved by the caller; here: consumes, tracks, open requests, close requests.
func (d *SDriver) collectConsumes() []SOut {
	var outs []SOut
	ctxs, tracks := d.Cons.Take()
	for _, ctx := range ctxs {
		outs = append(outs, d.consumeOut(ctx))
	}
	for _, t := range tracks {
		o := t.Offset
		o.SnapshotMarker = &t.Snap
		outs = append(outs, SOut{Kind: "track", Vb: t.VbID, Off: offOf(&o)})
	}
	return outs
}

func (d *SDriver) consumeOut(ctx *models.ListenerContext) SOut {
	switch e := ctx.Event.(type) {
	case models.DcpMutation:
		it := &SItem{Seq: e.SeqNo, Cas: e.Cas, Cid: e.CollectionID, Key: e.Key}
		d.faith(it, e.DcpMutation)
		return SOut{Kind: "consume", Vb: e.VbID, DKind: "mut", Item: it, Off: offOf(e.Offset), Coll: e.CollectionName, TimeS: uint64(e.EventTime.Unix())}
	case models.DcpDeletion:
		it := &SItem{Seq: e.SeqNo, Cas: e.Cas, Cid: e.CollectionID, Key: e.Key}
		d.faith(it, e.DcpDeletion)
		return SOut{Kind: "consume", Vb: e.VbID, DKind: "del", Item: it, Off: offOf(e.Offset), Coll: e.CollectionName, TimeS: uint64(e.EventTime.Unix())}
	case models.DcpExpiration:
		it := &SItem{Seq: e.SeqNo, Cas: e.Cas, Cid: e.CollectionID, Key: e.Key}
		d.faith(it, e.DcpExpiration)
		return SOut{Kind: "consume", Vb: e.VbID, DKind: "exp", Item: it, Off: offOf(e.Offset), Coll: e.CollectionName, TimeS: uint64(e.EventTime.Unix())}
	}
	return SOut{Kind: "consume", Note: fmt.Sprintf("unexpected event type %T", ctx.Event)}
}

// faith finds the event that was sent with the same (vb, seq, cas, key) and compares every field;
// it fills in Rest, the number under which the model knows the remaining fields.
func (d *SDriver) faith(it *SItem, got interface{}) {
	for id, s := range d.sent {
		switch g := got.(type) {
		case *gocbcore.DcpMutation:
			if w, ok := s.(gocbcore.DcpMutation); ok && w.VbID == g.VbID && w.SeqNo == g.SeqNo && w.Cas == g.Cas && string(w.Key) == string(g.Key) {
				it.Rest = id
				if w.RevNo != g.RevNo || w.Flags != g.Flags || w.Expiry != g.Expiry || w.LockTime != g.LockTime || w.Datatype != g.Datatype ||
					string(w.Value) != string(g.Value) || w.CollectionID != g.CollectionID || w.StreamID != g.StreamID {
					d.Faith = append(d.Faith, fmt.Sprintf("mutation vb %d seq %d delivered with altered fields: sent %+v got %+v", g.VbID, g.SeqNo, w, *g))
				}
				return
			}
		case *gocbcore.DcpDeletion:
			if w, ok := s.(gocbcore.DcpDeletion); ok && w.VbID == g.VbID && w.SeqNo == g.SeqNo && w.Cas == g.Cas && string(w.Key) == string(g.Key) {
				it.Rest = id
				if w.RevNo != g.RevNo || w.DeleteTime != g.DeleteTime || w.Datatype != g.Datatype || string(w.Value) != string(g.Value) || w.CollectionID != g.CollectionID {
					d.Faith = append(d.Faith, fmt.Sprintf("deletion vb %d seq %d delivered with altered fields: sent %+v got %+v", g.VbID, g.SeqNo, w, *g))
				}
				return
			}
		case *gocbcore.DcpExpiration:
			if w, ok := s.(gocbcore.DcpExpiration); ok && w.VbID == g.VbID && w.SeqNo == g.SeqNo && w.Cas == g.Cas && string(w.Key) == string(g.Key) {
				it.Rest = id
				if w.RevNo != g.RevNo || w.DeleteTime != g.DeleteTime || w.CollectionID != g.CollectionID {
					d.Faith = append(d.Faith, fmt.Sprintf("expiration vb %d seq %d delivered with altered fields: sent %+v got %+v", g.VbID, g.SeqNo, w, *g))
				}
				return
			}
		}
	}
	it.Rest = 0
	d.Faith = append(d.Faith, fmt.Sprintf("an event was delivered that was never sent in this form: %+v", got))
}

func cbOuts(names []string) []SOut {
	var r []SOut
	for _, n := range names {
		r = append(r, SOut{Kind: "callback", Name: n})
	}
	return r
}

func (d *SDriver) openOuts(cbs []string) []SOut {
	// canonical: callbacks before the first open request stay before, the rest after
	var outs []SOut
	opens := d.Client.TakeOpens()
	var pre, post []string
	seenStart := false
	for _, n := range cbs {
		if !seenStart {
			pre = append(pre, n)
			if n == "BeforeStreamStart" {
				seenStart = true
			}
		} else {
			post = append(post, n)
		}
	}
	outs = append(outs, cbOuts(pre)...)
	for _, oc := range opens {
		o := oc.Offset
		o.SnapshotMarker = &oc.Snap
		outs = append(outs, SOut{Kind: "openreq", Vb: oc.VbID, Off: offOf(&o)})
	}
	outs = append(outs, cbOuts(post)...)
	return outs
}

func (d *SDriver) closeOuts(cbs []string) []SOut {
	var outs []SOut
	closes := d.Client.TakeCloses()
	var pre, post []string
	seen := false
	for _, n := range cbs {
		if !seen {
			pre = append(pre, n)
			if n == "BeforeStreamStop" {
				seen = true
			}
		} else {
			post = append(post, n)
		}
	}
	outs = append(outs, cbOuts(pre)...)
	for _, vb := range closes {
		outs = append(outs, SOut{Kind: "closereq", Vb: vb})
	}
	outs = append(outs, cbOuts(post)...)
	return outs
}

func (d *SDriver) checkStop(wait time.Duration) []SOut {
	if d.stopSeen {
		return nil
	}
	select {
	case <-d.stopCh:
		d.stopSeen = true
		return []SOut{{Kind: "stop"}}
	case <-time.After(wait):
	}
	return nil
}

var transientErrs = []error{gocbcore.ErrSocketClosed, gocbcore.ErrDCPBackfillFailed, gocbcore.ErrDCPStreamStateChanged,
	gocbcore.ErrDCPStreamTooSlow, gocbcore.ErrDCPStreamDisconnected}
var finalErrs = []error{gocbcore.ErrDCPStreamClosed, gocbcore.ErrDCPStreamFilterEmpty, errors.New("some other error"), gocbcore.ErrTimeout}

// Exec runs one op against the real stream and returns the observed outputs. A panic raised in the
// calling goroutine is caught and reported as "fail".
func (d *SDriver) Exec(op SOp) (outs []SOut) {
	defer func() {
		if r := recover(); r != nil {
			outs = append(d.collectConsumes(), SOut{Kind: "fail", Note: fmt.Sprint(r)})
		}
	}()
	d.opIdx++
	switch op.Kind {
	case "shutdown":
		outs = d.execShutdown(op, d.opIdx-1)
	case "open":
		if d.IsDcp {
			return d.execStart(op)
		}
		d.Disc.Set(op.First, op.Last)
		d.setServer(op.Sv)
		d.Stream.Open()
		outs = d.openOuts(d.Hand.Take())
	case "rebclose":
		if d.IsDcp {
			// around a whole Dcp the reopen timer is left armed (ten minutes): Close() may arrive in this window
			d.cfg.Dcp.Group.Membership.RebalanceDelay = 10 * time.Minute
			go d.Stream.Rebalance()
			deadline := time.Now().Add(3 * time.Second)
			for {
				done := false
				for _, n := range d.Hand.Peek() {
					if n == "AfterRebalanceStart" {
						done = true
					}
				}
				if done {
					break
				}
				if time.Now().After(deadline) {
					return []SOut{{Kind: "ignored", Note: "the close half of the rebalance did not finish"}}
				}
				time.Sleep(time.Millisecond)
			}
			time.Sleep(5 * time.Millisecond) // Rebalance() arms the timer right after that callback
			return d.closeOuts(d.Hand.Take())
		}
		d.Hand.SetHold("BeforeRebalanceEnd", true)
		d.oldObs = d.Client.AllObservers() // the observers of the session that is being closed
		d.Stream.Rebalance()
		select {
		case <-d.Hand.Held:
		case <-time.After(3 * time.Second):
			return []SOut{{Kind: "ignored", Note: "rebalance timer never fired"}}
		}
		cbs := d.Hand.Take()
		// BeforeRebalanceEnd belongs to the reopen half
		if n := len(cbs); n > 0 && cbs[n-1] == "BeforeRebalanceEnd" {
			cbs = cbs[:n-1]
		}
		outs = d.closeOuts(cbs)
		outs = append(outs, d.checkStop(30*time.Millisecond)...)
	case "rebopen":
		if d.IsDcp {
			// a further notification with a short delay pushes the armed timer to "now"
			d.setServer(op.Sv)
			d.Hand.SetHold("AfterRebalanceEnd", true)
			d.cfg.Dcp.Group.Membership.RebalanceDelay = time.Millisecond
			d.Stream.Rebalance()
			select {
			case <-d.Hand.Held:
			case <-time.After(3 * time.Second):
				return []SOut{{Kind: "ignored", Note: "rebalance did not finish"}}
			}
			d.Hand.SetHold("AfterRebalanceEnd", false)
			d.Hand.Resume()
			return d.openOuts(d.Hand.Take())
		}
		d.Disc.Set(op.First, op.Last)
		d.setServer(op.Sv)
		d.Hand.SetHold("BeforeRebalanceEnd", false)
		d.Hand.SetHold("AfterRebalanceEnd", true)
		d.Hand.Resume()
		select {
		case <-d.Hand.Held:
		case <-time.After(3 * time.Second):
			return []SOut{{Kind: "ignored", Note: "rebalance did not finish"}}
		}
		d.Hand.SetHold("AfterRebalanceEnd", false)
		d.Hand.Resume()
		outs = d.openOuts(append([]string{"BeforeRebalanceEnd"}, d.Hand.Take()...))
		// the end notifications ("closed") of the streams of the previous session reach their observers only now, as they may
		// with a server that is slow to send them: those observers no longer forward anything (CloseEnd), nothing must change
		if len(d.oldObs) > 0 {
			time.Sleep(2 * time.Millisecond)
			for vb, ob := range d.oldObs {
				func() {
					defer func() { _ = recover() }()
					ob.End(models.DcpStreamEnd{VbID: vb}, gocbcore.ErrDCPStreamClosed)
				}()
			}
			d.oldObs = nil
			time.Sleep(2 * time.Millisecond)
		}
	case "close":
		d.Stream.Close(op.Cancel)
		outs = d.closeOuts(d.Hand.Take())
		outs = append(outs, d.checkStop(2*time.Second)...) // Close() makes the client stop (unless it has stopped already)
	case "deliver":
		if op.Released {
			outs, d.gatedOuts = d.gatedOuts, nil
			return outs
		}
		ob := d.Client.Observer(op.Vb)
		if ob == nil {
			return []SOut{{Kind: "ignored"}}
		}
		d.deliver(ob, op.Vb, op.Ev)
		outs = d.collectConsumes()
	case "ack":
		ctx := d.Cons.Ctx(op.I)
		if ctx == nil {
			return []SOut{{Kind: "ignored"}}
		}
		ctx.Ack()
		outs = d.collectConsumes()
	case "savebegin":
		if d.Store.InFlight() {
			return []SOut{{Kind: "ignored"}}
		}
		d.goSave()
		select {
		case call := <-d.Store.Entered:
			outs = []SOut{metaSaveOut(call)}
		case <-d.saveRet:
			outs = []SOut{{Kind: "nosave"}}
		case <-time.After(3 * time.Second):
			outs = []SOut{{Kind: "ignored", Note: "Save neither returned nor reached the store"}}
		}
	case "savequeue":
		if !d.Store.InFlight() {
			return []SOut{{Kind: "ignored"}}
		}
		d.goSave()
		select {
		case <-d.saveRet:
			outs = []SOut{{Kind: "nosave"}} // it did not wait for the save in flight
		case <-time.After(40 * time.Millisecond):
			d.waiting++ // blocked behind the save lock
		}
	case "savewrite":
		if !d.Store.Write(op.Vb) {
			return []SOut{{Kind: "ignored"}}
		}
	case "saveend":
		if !d.Store.Release(op.Ok) {
			return []SOut{{Kind: "ignored"}}
		}
		select {
		case <-d.saveRet:
		case <-time.After(3 * time.Second):
			outs = []SOut{{Kind: "ignored", Note: "Save did not return"}}
		}
		outs = append(outs, d.handOver()...)
	case "crash":
		for d.Store.InFlight() {
			d.Store.Release(false)
			<-d.saveRet
			d.handOver()
		}
		d.fresh()
	case "scrape":
		outs = []SOut{d.scrape(op.High)}
	case "end":
		ob := d.Client.Observer(op.Vb)
		if ob == nil {
			return []SOut{{Kind: "ignored"}}
		}
		d.Client.UUID[op.Vb] = op.UUID
		if op.Roll {
			d.Client.Roll[op.Vb] = true
		}
		var err error
		switch op.Cause {
		case "transient":
			err = transientErrs[op.ErrIdx%len(transientErrs)]
			if op.ErrIdx >= len(transientErrs) {
				err = fmt.Errorf("wrapped: %w", err)
			}
		case "final":
			err = finalErrs[op.ErrIdx%len(finalErrs)]
		}
		// drain stale open signals
		for len(d.Client.OpenCh) > 0 {
			<-d.Client.OpenCh
		}
		wasOpen := d.Stream.IsOpen()
		ob.End(models.DcpStreamEnd{VbID: op.Vb}, err)
		// how long to look for an effect: long where one is due (it ends the wait at once when it comes), short
		// where none is; a loaded machine must not turn a late effect into a missing one
		reopenWait := 60 * time.Millisecond
		if wasOpen && op.Cause == "transient" {
			reopenWait = 2 * time.Second
		}
		select {
		case <-d.Client.OpenCh:
			outs = d.openOuts(nil)
		case <-time.After(reopenWait):
		}
		stopWait := 30 * time.Millisecond
		if _, active := d.Stream.GetMetric(); wasOpen && op.Cause != "transient" && active == 0 {
			stopWait = 2 * time.Second // the last stream has ended for good: the client stops
		}
		outs = append(outs, d.checkStop(stopWait)...)
	}
	return outs
}

func metaSaveOut(call *fakes.SaveCall) SOut {
	o := SOut{Kind: "metasave", Dump: map[uint16]SDoc{}}
	for vb, doc := range call.Dump {
		o.Dump[vb] = SDoc{UUID: doc.Checkpoint.VbUUID, Seq: doc.Checkpoint.SeqNo, Start: doc.Checkpoint.Snapshot.StartSeqNo, End: doc.Checkpoint.Snapshot.EndSeqNo}
	}
	for vb, dirt := range call.Dirty {
		if dirt {
			o.Dirty = append(o.Dirty, vb)
		}
	}
	sort.Slice(o.Dirty, func(i, j int) bool { return o.Dirty[i] < o.Dirty[j] })
	return o
}

func (d *SDriver) deliver(ob couchbase.Observer, vb uint16, e *SEv) {
	switch e.Kind {
	case "marker":
		ob.SnapshotMarker(gocbcore.DcpSnapshotMarker{StartSeqNo: e.S, EndSeqNo: e.E, VbID: vb})
	case "mut":
		r := e.Item.Rest
		m := gocbcore.DcpMutation{SeqNo: e.Item.Seq, RevNo: r*7 + 1, Cas: e.Item.Cas, Flags: uint32(r * 31), Expiry: uint32(r % 5 * 1000), LockTime: uint32(r % 3),
			CollectionID: e.Item.Cid, VbID: vb, Datatype: uint8(r % 4), Key: append([]byte{}, e.Item.Key...), Value: []byte(fmt.Sprintf("{\"v\":%d}", r))}
		d.sent[r] = m
		ob.Mutation(m)
	case "del":
		r := e.Item.Rest
		m := gocbcore.DcpDeletion{SeqNo: e.Item.Seq, RevNo: r*7 + 2, Cas: e.Item.Cas, DeleteTime: uint32(r * 13), CollectionID: e.Item.Cid, VbID: vb,
			Datatype: uint8(r % 2), Key: append([]byte{}, e.Item.Key...), Value: []byte(fmt.Sprintf("x%d", r))}
		d.sent[r] = m
		ob.Deletion(m)
	case "exp":
		r := e.Item.Rest
		m := gocbcore.DcpExpiration{SeqNo: e.Item.Seq, RevNo: r*7 + 3, Cas: e.Item.Cas, DeleteTime: uint32(r * 17), CollectionID: e.Item.Cid, VbID: vb,
			Key: append([]byte{}, e.Item.Key...)}
		d.sent[r] = m
		ob.Expiration(m)
	case "sys":
		switch e.Sys {
		case 0:
			ob.CreateCollection(gocbcore.DcpCollectionCreation{SeqNo: e.Seq, VbID: vb, CollectionID: e.Cid, Key: []byte("c")})
		case 1:
			ob.DeleteCollection(gocbcore.DcpCollectionDeletion{SeqNo: e.Seq, VbID: vb, CollectionID: e.Cid})
		case 2:
			ob.FlushCollection(gocbcore.DcpCollectionFlush{SeqNo: e.Seq, VbID: vb, CollectionID: e.Cid})
		case 3:
			ob.CreateScope(gocbcore.DcpScopeCreation{SeqNo: e.Seq, VbID: vb, Key: []byte("s")})
		case 4:
			ob.DeleteScope(gocbcore.DcpScopeDeletion{SeqNo: e.Seq, VbID: vb})
		case 5:
			ob.ModifyCollection(gocbcore.DcpCollectionModification{SeqNo: e.Seq, VbID: vb, CollectionID: e.Cid})
		}
	case "seqadv":
		ob.SeqNoAdvanced(gocbcore.DcpSeqNoAdvanced{SeqNo: e.Seq, VbID: vb})
	case "oso":
		ob.OSOSnapshot(gocbcore.DcpOSOSnapshot{VbID: vb})
	}
}

// scrape runs the real metric collector once.
func (d *SDriver) scrape(high map[uint16]uint64) SOut {
	saved, savedColl := d.Client.High, d.Client.HighColl
	d.Client.High = map[uint16]uint64{}
	d.Client.HighColl = map[uint16]uint64{}
	for k, v := range high {
		d.Client.HighColl[k] = v // what the collector asks for (collection-aware)
		d.Client.High[k] = v + 7 // ... and what it must not look at
	}
	defer func() { d.Client.High, d.Client.HighColl = saved, savedColl }()
	col := metric.NewMetricCollector(d.Client, d.Stream, d.Disc)
	ch := make(chan prometheus.Metric, 4096)
	done := make(chan struct{})
	go func() { col.Collect(ch); close(ch); close(done) }()
	select {
	case <-done:
	case <-time.After(3 * time.Second):
		return SOut{Kind: "ignored", Note: "scrape blocked"}
	}
	o := SOut{Kind: "metrics", ObsRows: map[uint16][4]uint64{}, OffRows: map[uint16][4]uint64{}}
	n := 0
	for m := range ch {
		n++
		var pb dto.Metric
		if err := m.Write(&pb); err != nil {
			o.Note += "invalid metric: " + err.Error() + "; "
			continue
		}
		name := m.Desc().String()
		val := 0.0
		if pb.Gauge != nil {
			val = pb.Gauge.GetValue()
		} else if pb.Counter != nil {
			val = pb.Counter.GetValue()
		}
		vb := -1
		for _, l := range pb.Label {
			if l.GetName() == "vbId" {
				fmt.Sscanf(l.GetValue(), "%d", &vb)
			}
		}
		// metrics are float64: exact below 2^53 only; larger values are compared as "at least 2^53"
		uv := uint64(9007199254740992)
		if val < 9007199254740992 {
			uv = uint64(val)
		}
		if val < 0 {
			o.Note += fmt.Sprintf("negative metric %v; ", val)
			uv = ^uint64(0)
		}
		set := func(m map[uint16][4]uint64, idx int) {
			r := m[uint16(vb)]
			r[idx] = uv
			m[uint16(vb)] = r
		}
		switch {
		case strings.Contains(name, `"cbgo_persist_seq_no_current"`):
			set(o.ObsRows, 0)
		case strings.Contains(name, `"cbgo_mutation_total"`):
			set(o.ObsRows, 1)
		case strings.Contains(name, `"cbgo_deletion_total"`):
			set(o.ObsRows, 2)
		case strings.Contains(name, `"cbgo_expiration_total"`):
			set(o.ObsRows, 3)
		case strings.Contains(name, `"cbgo_seq_no_current"`):
			set(o.OffRows, 0)
		case strings.Contains(name, `"cbgo_start_seq_no_current"`):
			set(o.OffRows, 1)
		case strings.Contains(name, `"cbgo_end_seq_no_current"`):
			set(o.OffRows, 2)
		case strings.Contains(name, `"cbgo_lag_current"`):
			set(o.OffRows, 3)
		case strings.Contains(name, `"cbgo_total_lag_current"`):
			o.Total = uv
		case strings.Contains(name, `"cbgo_active_stream_current"`):
			o.Active = int64(val)
		case strings.Contains(name, `"cbgo_rebalance_current"`):
			o.Rebal = uv
		}
	}
	if n == 0 {
		return SOut{Kind: "nometrics"}
	}
	return o
}

func (d *SDriver) drainSaves() {
	for d.Store.InFlight() {
		d.Store.Release(false)
		select {
		case <-d.saveRet:
		case <-time.After(time.Second):
		}
		d.handOver()
	}
}

func (d *SDriver) goSave() {
	if d.saveRet == nil {
		d.saveRet = make(chan struct{}, 256)
	}
	st, ret := d.Stream, d.saveRet
	go func() { st.Save(); ret <- struct{}{} }()
}

// handOver follows the Save() calls that were waiting for the save lock after a store call has returned: one after
// the other they either return without calling the store or the first that finds work reaches the store.
func (d *SDriver) handOver() (outs []SOut) {
	for d.waiting > 0 {
		select {
		case call := <-d.Store.Entered:
			d.waiting--
			return append(outs, metaSaveOut(call))
		case <-d.saveRet:
			d.waiting--
			outs = append(outs, SOut{Kind: "nosave"})
		case <-time.After(2 * time.Second):
			d.waiting = 0
			return append(outs, SOut{Kind: "ignored", Note: "a waiting Save neither returned nor reached the store"})
		}
	}
	return outs
}

// Digest projects the real state.
func (d *SDriver) Digest() SDigest {
	g := SDigest{Offs: map[uint16]SOffset{}, Store: map[uint16]SDoc{}}
	offs, dirty, any := d.Stream.GetOffsets()
	if offs != nil {
		for vb, o := range offs.ToMap() {
			g.Offs[vb] = *offOf(o)
		}
	}
	if dirty != nil {
		for vb, dd := range dirty.ToMap() {
			if dd {
				g.Dirty = append(g.Dirty, vb)
			}
		}
		sort.Slice(g.Dirty, func(i, j int) bool { return g.Dirty[i] < g.Dirty[j] })
	}
	g.AnyDirty = any
	g.Open = d.Stream.IsOpen()
	_, a := d.Stream.GetMetric()
	g.Active = int64(a)
	g.Stopped = d.stopSeen
	for vb, doc := range d.Store.Snapshot() {
		g.Store[vb] = SDoc{UUID: doc.Checkpoint.VbUUID, Seq: doc.Checkpoint.SeqNo, Start: doc.Checkpoint.Snapshot.StartSeqNo, End: doc.Checkpoint.Snapshot.EndSeqNo}
	}
	return g
}

// SHistory is one executed history.
type SHistory struct {
	Cfg     SCfg
	Initial map[uint16]SDoc
	Ops     []SOp
	Outs    [][]SOut
	Digest  SDigest
	Faith   []string
	Tag     string
	IsDcp   bool     `json:",omitempty"`
	Serial  bool     `json:",omitempty"`
	Auto    bool     `json:",omitempty"`
	Life    *LifeObs `json:",omitempty"`
}

func RunHistory(cfg SCfg, initial map[uint16]SDoc, ops []SOp, serial bool) *SHistory {
	d := &SDriver{}
	*d = *NewSDriverOpt(cfg, initial, serial)
	h := &SHistory{Cfg: cfg, Initial: initial, Ops: ops}
	for _, op := range ops {
		h.Outs = append(h.Outs, d.Exec(op))
	}
	h.Digest = d.Digest()
	h.Faith = d.Faith
	// let blocked saves go so that nothing leaks
	d.drainSaves()
	return h
}

func NewSDriverOpt(cfg SCfg, initial map[uint16]SDoc, serial bool) *SDriver {
	d := &SDriver{Cfg: cfg, Store: fakes.NewStore(), sent: map[uint64]interface{}{}, MaxVb: 15, SerialVersion: serial}
	for vb, doc := range initial {
		d.Store.Docs[vb] = models.CheckpointDocument{
			Checkpoint: &models.CheckpointDocumentCheckpoint{
				VbUUID: doc.UUID, SeqNo: doc.Seq,
				Snapshot: &models.CheckpointDocumentSnapshot{StartSeqNo: doc.Start, EndSeqNo: doc.End},
			},
		}
	}
	d.fresh()
	return d
}

func (h *SHistory) caseTerm() gal.Term {
	ops := make([]gal.Term, len(h.Ops))
	for i, o := range h.Ops {
		ops[i] = o.term()
	}
	outs := make([]gal.Term, len(h.Outs))
	for i, os := range h.Outs {
		ts := make([]gal.Term, len(os))
		for j, o := range os {
			ts[j] = o.term()
		}
		outs[i] = gal.List(ts)
	}
	ks := make([]int, 0)
	for k := range h.Initial {
		ks = append(ks, int(k))
	}
	sort.Ints(ks)
	st := make([]gal.Term, len(ks))
	for i, k := range ks {
		st[i] = gal.Tuple(gal.N(uint64(k)), h.Initial[uint16(k)].term())
	}
	return gal.Tuple(h.Cfg.term(), gal.List(st), gal.List(ops), gal.List(outs), h.Digest.term())
}
