package scen

import (
	"encoding/json"
	"errors"
	"fmt"
	"strings"
	"sync"
	"time"

	"github.com/Trendyol/go-dcp/models"
	"github.com/couchbase/gocbcore/v10"

	"verifharness/gal"
)

// The bounded retry loop of stream.reopenStream against Model/Retry.v: the first Fails stream requests of the reopen of
// vBucket 0 fail; the stream is closed (by a membership change or by Close()) between attempt CloseAt-1 and attempt
// CloseAt, or never (-1). Observed: how many requests the loop issued and how it ended.
type c12RetryArg struct {
	Fails   int
	CloseAt int
	By      string // "rebalance" | "close"
}

type c12RetryRes struct {
	Requests  int
	Outcome   string // "Reopened" | "Abandoned" | "GaveUp" (the child died)
	Discard   string
	Streams   bool     // after a successful reopen: a document sent on the new stream reached the consumer
	ReqSeqs   []uint64 // the positions the attempts asked for
	LateAcked bool     // event 2 was acknowledged (and tracked) 150 ms after the first attempt
}

func init() {
	Children["c12retry"] = func(raw json.RawMessage) {
		var a c12RetryArg
		must(json.Unmarshal(raw, &a))
		sv := &SServer{High: map[uint16]uint64{0: 5, 1: 5}, UUID: map[uint16]uint64{0: 70, 1: 71}}
		d := NewSDriverDcp(SCfg{Colls: map[uint32]string{}}, map[uint16]SDoc{}, false, false, 2)
		d.cfg.Dcp.Group.Membership.RebalanceDelay = 10 * time.Minute // the window outlasts the retries
		d.execStart(SOp{Kind: "open", Sv: sv})
		d.Client.TakeOpens()
		// vBucket 0: events 1 and 2 shown, 1 acknowledged; 2 is acknowledged while the loop waits for its second attempt
		lateAcked := false
		var lateCtx *models.ListenerContext
		if ob := d.Client.Observer(0); ob != nil {
			d.deliver(ob, 0, &SEv{Kind: "marker", S: 0, E: 5})
			for seq := uint64(1); seq <= 2; seq++ {
				n := d.Cons.Count()
				d.deliver(ob, 0, &SEv{Kind: "mut", Item: &SItem{Seq: seq, Cas: 1, Key: []byte(fmt.Sprintf("k%d", seq)), Rest: seq}})
				if ctx := d.Cons.Ctx(n); ctx != nil {
					if seq == 1 {
						ctx.Ack()
					} else {
						lateCtx = ctx
					}
				}
			}
		}

		var mu sync.Mutex
		attempts := 0
		var lastAttempt, closeIssued time.Time
		okAt := -1
		closer := make(chan struct{}, 1)
		d.Client.OnOpen = func(vb uint16) {
			if vb != 0 {
				return
			}
			mu.Lock()
			i := attempts
			attempts++
			lastAttempt = time.Now()
			if i < a.Fails {
				d.Client.SetOpenErr(0, errors.New("scripted reopen failure"))
			} else {
				d.Client.SetOpenErr(0, nil)
				okAt = i
			}
			mu.Unlock()
			if i == 0 && lateCtx != nil && a.CloseAt != 1 {
				go func() {
					time.Sleep(150 * time.Millisecond)
					lateCtx.Ack()
					offs, _, _ := d.Stream.GetOffsets()
					if o, ok := offs.Load(0); ok && o.SeqNo == 2 {
						mu.Lock()
						lateAcked = true
						mu.Unlock()
					}
				}()
			}
			fmt.Printf("REQ %d\n", i)
			if a.CloseAt == i+1 {
				closer <- struct{}{}
			}
		}
		d.Client.Observer(0).End(models.DcpStreamEnd{VbID: 0}, gocbcore.ErrSocketClosed)

		res := c12RetryRes{}
		closed := false
		deadline := time.Now().Add(9 * time.Second)
	loop:
		for time.Now().Before(deadline) {
			select {
			case <-closer:
				// attempt CloseAt-1 is inside OpenStream (it holds the lifecycle lock until it returns): whoever closes the
				// stream now gets the lock before the next attempt, which is a second away
				mu.Lock()
				closeIssued = time.Now()
				late := closeIssued.Sub(lastAttempt)
				mu.Unlock()
				if late > 600*time.Millisecond {
					res.Discard = fmt.Sprintf("the harness issued the close %v after the attempt", late)
				}
				if a.By == "close" {
					d.Dcp.Close()
					select {
					case <-d.startDone:
					case <-time.After(3 * time.Second):
						res.Discard = "Start() did not return within 3 s of Close()"
					}
				} else {
					go d.Stream.Rebalance()
					t0 := time.Now()
					for d.Stream.IsOpen() && time.Since(t0) < 3*time.Second {
						time.Sleep(5 * time.Millisecond)
					}
					if d.Stream.IsOpen() {
						res.Discard = "the close half of the rebalance did not finish within 3 s"
					}
				}
				closed = true
			case <-time.After(20 * time.Millisecond):
			}
			mu.Lock()
			n, ok, last := attempts, okAt, lastAttempt
			mu.Unlock()
			switch {
			case ok >= 0 && time.Since(last) > 150*time.Millisecond:
				res.Outcome = "Reopened"
				break loop
			case closed && time.Since(closeIssued) > time.Duration(5-a.CloseAt)*time.Second+1500*time.Millisecond:
				// every retry the loop had left would have happened by now
				res.Outcome = "Abandoned"
				break loop
			case n >= 5 && ok < 0 && time.Since(last) > 2500*time.Millisecond:
				res.Outcome = "Survived" // five failures and the process is still here
				break loop
			}
		}
		mu.Lock()
		res.Requests = attempts
		res.LateAcked = lateAcked
		mu.Unlock()
		for _, oc := range d.Client.TakeOpens() {
			if oc.VbID == 0 {
				res.ReqSeqs = append(res.ReqSeqs, oc.Offset.SeqNo)
			}
		}
		if res.Outcome == "Reopened" {
			// the vBucket is streamed again: a document on the new stream reaches the consumer
			if ob := d.Client.Observer(0); ob != nil {
				before := d.Cons.Count()
				ob.SnapshotMarker(gocbcore.DcpSnapshotMarker{VbID: 0, StartSeqNo: 1, EndSeqNo: 5})
				go ob.Mutation(gocbcore.DcpMutation{VbID: 0, SeqNo: 1, Key: []byte("k1"), Value: []byte("{}")})
				t0 := time.Now()
				for time.Since(t0) < 2*time.Second {
					if d.Cons.Count() > before {
						res.Streams = true
						break
					}
					time.Sleep(5 * time.Millisecond)
				}
			}
		}
		b, _ := json.Marshal(res)
		fmt.Println("RESULT " + string(b))
	}
}

func runC12Retry(c *Ctx) {
	var args []c12RetryArg
	for f := 0; f <= 6; f++ {
		args = append(args, c12RetryArg{Fails: f, CloseAt: -1})
		for k := 1; k <= f && k <= 4; k++ {
			for _, by := range []string{"rebalance", "close"} {
				if !c.Thorough() && (f+k+len(by))%2 == 1 && f != 5 {
					continue
				}
				args = append(args, c12RetryArg{Fails: f, CloseAt: k, By: by})
			}
		}
	}
	type out struct {
		cr  ChildResult
		res *c12RetryRes
		req int
	}
	outs := make([]out, len(args))
	Parallel(len(args), 32, func(i int) {
		cr := RunChild("c12retry", args[i], 40*time.Second)
		o := out{cr: cr}
		for _, l := range cr.Lines {
			if strings.HasPrefix(l, "REQ ") {
				o.req++
			}
			if strings.HasPrefix(l, "RESULT ") {
				o.res = &c12RetryRes{}
				_ = json.Unmarshal([]byte(l[7:]), o.res)
			}
		}
		outs[i] = o
	})
	var cs []gal.Term
	var rs []string
	for i, a := range args {
		o := outs[i]
		rep := map[string]interface{}{"how": "vh child c12retry", "arg": a, "exit": o.cr.ExitCode, "fatal": o.cr.Fatal}
		c.Count(fmt.Sprintf("retry:fails=%d", a.Fails))
		if a.CloseAt >= 0 {
			c.Count("retry:closed-by-" + a.By)
		}
		var outcome string
		requests := o.req
		switch {
		case o.res != nil && o.res.Discard != "":
			c.Count("retry:discarded")
			continue
		case o.res != nil:
			outcome, requests = o.res.Outcome, o.res.Requests
			rep["result"] = o.res
		case o.cr.TimedOut:
			c.Count("retry:discarded")
			continue
		default:
			outcome = "GaveUp" // the library panicked in its own goroutine
		}
		c.Eval(J(a), true)
		// monitors (independent of the model)
		open := a.CloseAt < 0
		switch {
		case outcome == "Survived":
			c.Violate("reopen-exhausted-but-running", fmt.Sprintf("five requests for vBucket 0 failed (%d issued) and the client kept running without it", requests), rep)
			continue
		case open && a.Fails < 5 && outcome != "Reopened":
			c.Violate("reopen-recovery-died", fmt.Sprintf("request %d of the reopen succeeded but the loop ended as %s after %d requests", a.Fails+1, outcome, requests), rep)
		case open && a.Fails >= 5 && outcome != "GaveUp":
			c.Violate("reopen-exhausted-but-running", fmt.Sprintf("five requests failed and the loop ended as %s", outcome), rep)
		case !open && outcome != "Abandoned":
			c.Violate("reopen-retries-after-close", fmt.Sprintf("the stream was closed (%s) before attempt %d of the reopen of vBucket 0: the loop ended as %s after %d requests", a.By, a.CloseAt+1, outcome, requests), rep)
		case !open && requests != a.CloseAt:
			c.Violate("reopen-retries-after-close", fmt.Sprintf("the stream was closed (%s) before attempt %d of the reopen of vBucket 0 but %d requests were issued", a.By, a.CloseAt+1, requests), rep)
		case outcome == "Reopened" && requests != a.Fails+1:
			c.Violate("reopen-request-count", fmt.Sprintf("the reopen succeeded at request %d but %d requests were issued", a.Fails+1, requests), rep)
		case o.res != nil && open && o.res.LateAcked && len(o.res.ReqSeqs) >= 2 && (o.res.ReqSeqs[0] != 1 || o.res.ReqSeqs[len(o.res.ReqSeqs)-1] != 2):
			c.Violate("reopen-wrong-position", fmt.Sprintf("event 1 of the vBucket was settled when its stream ended, event 2 was acknowledged while the reopen was waiting for its second attempt: the attempts asked for %v (the latest settled position at each attempt: 1, then 2)", o.res.ReqSeqs), rep)
		case outcome == "Reopened" && !o.res.Streams:
			c.Violate("reopened-not-streaming", "the vBucket was reopened but a document sent on the new stream did not reach the consumer", rep)
		}
		closedT := gal.Term("None")
		if a.CloseAt >= 0 {
			closedT = gal.App("Some", gal.Nat(a.CloseAt))
		}
		cs = append(cs, gal.Tuple(gal.Nat(a.Fails), closedT, gal.Tuple(gal.Nat(requests), gal.Term(outcome))))
		rs = append(rs, J(rep))
		if i == 3 || i == 9 {
			c.Sample(rep)
		}
	}
	c.Emit("retry", "requests and outcome of the real reopenStream loop vs Retry.reopen", []string{"Model.Retry", "Corr.CorrC12"},
		"nat * option nat * (nat * routcome)", "chk_retry", cs, rs, 100)
}
