package scen

import (
	"fmt"
	"sort"
	"time"

	dcp "github.com/Trendyol/go-dcp"
	"github.com/Trendyol/go-dcp/couchbase"
	"github.com/Trendyol/go-dcp/membership"
	"github.com/Trendyol/go-dcp/models"

	"verifharness/fakes"
)

// The stream driver around a whole Dcp: Start() builds and opens the stream, Close() tears everything down.
// The collaborators are the same fakes; one trace shared by them gives the order of calls across them.

// LifeObs is what the driver saw around the shutdown (for the monitors; not compared with the model).
type LifeObs struct {
	Auto, Health   bool
	ShutdownOp     int // index of the shutdown op
	ReturnedMs     int64
	Returned       bool
	Died           string
	Hung           bool
	PingsBefore    int // Ping calls until Close() was called
	PingsAtReturn  int
	PingsLater     int // after the quiet period that follows the return
	OpensAtReturn  int
	OpensLater     int
	SavesAtReturn  int
	SavesLater     int
	DcpCloses      int
	ClientCloses   int
	ConsumedAtRet  int
	ConsumedLater  int
	StoreAtReturn  map[uint16]SDoc
	OpenVbs        []uint16 // vBuckets with an open stream when Close() was called
	ClosedVbs      []uint16 // CloseStream calls during the teardown
	InFlightBefore bool
	SecondClose    bool
	Gated          bool // a document was waiting at the rollback-mitigation gate when Close() arrived
	GateStuck      bool // ... and was still waiting a second after Start() returned
}

func NewSDriverDcp(cfg SCfg, initial map[uint16]SDoc, auto, health bool, numVb int) *SDriver {
	return newSDriverDcp(cfg, initial, auto, health, numVb, false)
}

// newSDriverDcp: serial = the server is older than 5.5.0 (streams are closed one by one, each close paced by the end
// notification of the previous one, which the fake client then sends like a server)
func newSDriverDcp(cfg SCfg, initial map[uint16]SDoc, auto, health bool, numVb int, serial bool) *SDriver {
	d := &SDriver{Cfg: cfg, Store: fakes.NewStore(), sent: map[uint64]interface{}{}, MaxVb: 15, IsDcp: true, Auto: auto, Health: health, SerialVersion: serial}
	for vb, doc := range initial {
		d.Store.Docs[vb] = models.CheckpointDocument{
			Checkpoint: &models.CheckpointDocumentCheckpoint{
				VbUUID: doc.UUID, SeqNo: doc.Seq,
				Snapshot: &models.CheckpointDocumentSnapshot{StartSeqNo: doc.Start, EndSeqNo: doc.End},
			},
		}
	}
	c := d.buildConfig()
	c.Checkpoint.Type = "manual"
	if auto {
		c.Checkpoint.Type = "auto"
		c.Checkpoint.Interval = time.Hour // the schedule never ticks by itself: saves are ops of the history
	}
	c.API.Disabled = true
	c.HealthCheck.Disabled = !health
	c.HealthCheck.Interval = 5 * time.Millisecond
	c.RollbackMitigation.Interval = 25 * time.Millisecond // the gate of an observer polls five times per interval
	c.Dcp.Group.Membership.Type = membership.StaticMembershipType
	c.Dcp.Group.Membership.TotalMembers = 1
	c.Dcp.Group.Membership.MemberNumber = 1
	d.cfg = c
	d.Trace = &fakes.Trace{}
	d.Client = fakes.NewStreamClient()
	d.Client.NumVb = numVb
	d.Client.Trace = d.Trace
	d.Client.Colls = d.collections()
	d.Client.EndOnClose = serial
	d.Store.Trace = d.Trace
	d.Cons = &fakes.Consumer{Trace: d.Trace}
	d.Disc = &fakes.Discovery{}
	d.Hand = fakes.NewHandler()
	d.Hand.Trace = d.Trace
	d.stopCh = make(chan struct{}, 1)
	d.Dcp = dcp.VerifNewDcp(c, d.Client, d.Cons, d.version(), &couchbase.BucketInfo{})
	d.Dcp.SetMetadata(d.Store)
	d.Dcp.SetEventHandler(d.Hand)
	return d
}

// execStart runs Dcp.Start() on a goroutine of its own and waits until the client is ready.
func (d *SDriver) execStart(op SOp) []SOut {
	d.setServer(op.Sv)
	d.startDone = make(chan string, 1)
	go func() {
		defer func() {
			if r := recover(); r != nil {
				d.startDone <- fmt.Sprint("died: ", r)
			}
		}()
		d.Dcp.Start()
		d.startDone <- "returned"
	}()
	select {
	case <-d.Dcp.WaitUntilReady():
	case r := <-d.startDone:
		return []SOut{{Kind: "fail", Note: "Start ended before the client was ready: " + r}}
	case <-time.After(5 * time.Second):
		return []SOut{{Kind: "ignored", Note: "the client never became ready"}}
	}
	d.Stream = dcp.VerifStream(d.Dcp)
	return d.openOuts(d.Hand.Take())
}

func traceOuts(evs []fakes.TraceEv) []SOut {
	var outs []SOut
	for _, e := range evs {
		switch e.Kind {
		case "cb":
			outs = append(outs, SOut{Kind: "callback", Name: e.Name})
		case "closereq":
			outs = append(outs, SOut{Kind: "closereq", Vb: e.Vb})
		case "openreq":
			outs = append(outs, SOut{Kind: "openreq", Vb: e.Vb, Off: &SOffset{}, Note: "during the teardown"})
		case "dcpclose":
			outs = append(outs, SOut{Kind: "dcpclose"})
		case "cliclose":
			outs = append(outs, SOut{Kind: "cliclose"})
		case "save":
			outs = append(outs, metaSaveOut(e.Save))
		case "consume":
			outs = append(outs, SOut{Kind: "consume", Note: "during the teardown", Item: &SItem{}, Off: &SOffset{}, DKind: "mut"})
		}
	}
	// the close requests of one stream.Close run concurrently: ascending order
	for i := 0; i < len(outs); {
		j := i
		for j < len(outs) && outs[j].Kind == "closereq" {
			j++
		}
		if j > i {
			seg := outs[i:j]
			sort.Slice(seg, func(a, b int) bool { return seg[a].Vb < seg[b].Vb })
			i = j
		} else {
			i++
		}
	}
	return outs
}

// execShutdown calls Dcp.Close() and lets the store calls it meets end as the op says.
func (d *SDriver) execShutdown(op SOp, idx int) []SOut {
	if d.Life != nil { // a second Close(): the signal stays in the channel, nobody is left to take it
		if d.Life.SecondClose {
			return []SOut{{Kind: "ignored"}}
		}
		d.Life.SecondClose = true
		t0 := d.Trace.Len()
		d.Dcp.Close()
		time.Sleep(20 * time.Millisecond)
		if outs := traceOuts(d.Trace.Since(t0)); len(outs) > 0 {
			return outs
		}
		return []SOut{{Kind: "ignored"}}
	}
	lo := &LifeObs{Auto: d.Auto, Health: d.Health, ShutdownOp: idx, InFlightBefore: d.Store.InFlight()}
	d.Life = lo
	if offs, _, _ := d.Stream.GetOffsets(); offs != nil && d.Stream.IsOpen() {
		for vb := range offs.ToMap() {
			lo.OpenVbs = append(lo.OpenVbs, vb)
		}
		sort.Slice(lo.OpenVbs, func(a, b int) bool { return lo.OpenVbs[a] < lo.OpenVbs[b] })
	}
	lo.PingsBefore, _, _, _ = d.Client.Counts()
	var gateDone chan struct{}
	if op.Gate != nil {
		// a document arrives and waits at the rollback-mitigation gate of its observer (nothing is persisted yet)
		if ob := d.Client.Observer(op.GateVb); ob != nil {
			gateDone = make(chan struct{})
			d.cfg.RollbackMitigation.Disabled = false
			go func() {
				defer close(gateDone)
				defer func() { _ = recover() }()
				d.deliver(ob, op.GateVb, op.Gate)
			}()
			time.Sleep(15 * time.Millisecond)
			d.cfg.RollbackMitigation.Disabled = true
			lo.Gated = true
		}
	}
	d.Hand.Take()
	d.Client.TakeCloses()
	t0 := d.Trace.Len()
	start := time.Now()
	d.Dcp.Close()
	res := ""
	wait := func(dur time.Duration) bool {
		select {
		case res = <-d.startDone:
			return true
		case <-time.After(dur):
			return false
		}
	}
	done := false
	if lo.InFlightBefore {
		// does the teardown wait for the store call in flight? (it does when its final save finds work to do)
		done = wait(120 * time.Millisecond)
		if !done {
			d.Store.Release(op.R1)
			select {
			case <-d.saveRet:
			case <-time.After(2 * time.Second):
			}
		}
	}
	deadline := time.After(5 * time.Second)
	for !done {
		select {
		case <-d.Store.Entered: // the final save reached the store
			d.Store.Release(op.R2)
		case res = <-d.startDone:
			done = true
		case <-deadline:
			lo.Hung = true
			done = true
		}
	}
	lo.ReturnedMs = time.Since(start).Milliseconds()
	outs := traceOuts(d.Trace.Since(t0))
	switch {
	case res == "returned":
		lo.Returned = true
		outs = append(outs, SOut{Kind: "returned"})
	case res != "":
		lo.Died = res
		outs = append(outs, SOut{Kind: "fail", Note: res}, SOut{Kind: "died"})
	default:
		outs = append(outs, SOut{Kind: "ignored", Note: "Start() did not return within 5 s of Close()"})
	}
	for _, o := range outs {
		if o.Kind == "closereq" {
			lo.ClosedVbs = append(lo.ClosedVbs, o.Vb)
		}
	}
	var opens int
	lo.PingsAtReturn, lo.DcpCloses, lo.ClientCloses, opens = d.Client.Counts()
	lo.OpensAtReturn = opens
	lo.SavesAtReturn = d.Store.SaveCount()
	lo.ConsumedAtRet = d.Cons.Count()
	lo.StoreAtReturn = map[uint16]SDoc{}
	for vb, doc := range d.Store.Snapshot() {
		lo.StoreAtReturn[vb] = SDoc{UUID: doc.Checkpoint.VbUUID, Seq: doc.Checkpoint.SeqNo, Start: doc.Checkpoint.Snapshot.StartSeqNo, End: doc.Checkpoint.Snapshot.EndSeqNo}
	}
	// a quiet period: nothing of the library may still be running
	time.Sleep(40 * time.Millisecond)
	if gateDone != nil {
		select {
		case <-gateDone:
		case <-time.After(time.Second):
			lo.GateStuck = true
		}
	}
	lo.PingsLater, _, _, lo.OpensLater = d.Client.Counts()
	lo.SavesLater = d.Store.SaveCount()
	lo.ConsumedLater = d.Cons.Count()
	d.Hand.Take()
	d.Client.TakeCloses()
	d.Client.TakeOpens()
	d.gatedOuts = d.collectConsumes()
	return outs
}

// RunHistoryDcp runs a fixed op list around a whole Dcp.
func RunHistoryDcp(cfg SCfg, initial map[uint16]SDoc, auto, health bool, numVb int, ops []SOp) *SHistory {
	d := NewSDriverDcp(cfg, initial, auto, health, numVb)
	h := &SHistory{Cfg: cfg, Initial: initial, Ops: ops, IsDcp: true, Auto: auto}
	for _, op := range ops {
		h.Outs = append(h.Outs, d.Exec(op))
	}
	h.Digest = d.Digest()
	h.Life = d.Life
	d.drainSaves()
	return h
}
