package scen

import (
	"encoding/json"
	"fmt"
	"strings"
	"time"

	"github.com/Trendyol/go-dcp/models"
)

// A late acknowledgement (and a Commit) arriving while the reopen half of a rebalance is loading the checkpoints: the
// stream is still closed -- the offsets of the new session do not exist yet -- and the acknowledgement must change and report
// nothing (C04_closed_window_frozen); the store's Load is the hook that places it there.
type reloadRes struct {
	TracksInWindow []uint64
	SavesInWindow  int
	TrackedAfter   uint64
	StoredAfter    uint64
	Err            string
}

func init() {
	Children["c04reload"] = func(raw json.RawMessage) {
		res := reloadRes{}
		defer func() {
			b, _ := json.Marshal(res)
			fmt.Println("RESULT " + string(b))
		}()
		d := NewSDriverOpt(SCfg{Colls: map[uint32]string{}}, map[uint16]SDoc{}, false)
		d.Store.Gate = false
		d.cfg.Dcp.Group.Membership.RebalanceDelay = 20 * time.Millisecond
		sv := &SServer{High: map[uint16]uint64{0: 40, 1: 40}, UUID: map[uint16]uint64{0: 70, 1: 71}}
		d.Disc.Set(0, 1)
		d.setServer(sv)
		d.Stream.Open()
		ob := d.Client.Observer(0)
		d.deliver(ob, 0, &SEv{Kind: "marker", S: 0, E: 40})
		var ctxs []*models.ListenerContext
		for seq := uint64(9); seq <= 11; seq++ {
			n := d.Cons.Count()
			d.deliver(ob, 0, &SEv{Kind: "mut", Item: &SItem{Seq: seq, Cas: 1, Key: []byte(fmt.Sprintf("k%d", seq)), Rest: seq}})
			ctx := d.Cons.Ctx(n)
			if ctx == nil {
				res.Err = "an event did not reach the consumer"
				return
			}
			ctxs = append(ctxs, ctx)
		}
		ctxs[0].Ack()
		ctxs[2].Ack() // 11 is settled; 10 is acknowledged late, inside the window
		d.Stream.Save()
		d.Cons.Take()
		saves0 := d.Store.SaveCount()
		d.Store.OnLoad = func(n int) {
			if n != 2 {
				return
			}
			// the reopen half is inside checkpoint.Load
			ctxs[1].Ack()
			d.Stream.Save()
			_, tracks := d.Cons.Take()
			for _, t := range tracks {
				res.TracksInWindow = append(res.TracksInWindow, t.Offset.SeqNo)
			}
			res.SavesInWindow = d.Store.SaveCount() - saves0
		}
		d.Stream.Rebalance()
		for t0 := time.Now(); time.Since(t0) < 4*time.Second && !d.Stream.IsOpen(); time.Sleep(5 * time.Millisecond) {
		}
		time.Sleep(30 * time.Millisecond)
		if !d.Stream.IsOpen() {
			res.Err = "the stream was not reopened within 4 s"
			return
		}
		offs, _, _ := d.Stream.GetOffsets()
		if o, ok := offs.Load(0); ok {
			res.TrackedAfter = o.SeqNo
		}
		if doc, ok := d.Store.Snapshot()[0]; ok && doc.Checkpoint != nil {
			res.StoredAfter = doc.Checkpoint.SeqNo
		}
	}
}

func runC04ReloadWindow(c *Ctx) {
	cr := RunChild("c04reload", map[string]int{}, 40*time.Second)
	rep := map[string]interface{}{"how": "vh child c04reload", "history": "vb 0: events 9, 10, 11 delivered; 9 and 11 acknowledged; save (checkpoint 11); membership change; " +
		"while the reopen is loading the checkpoints: event 10 acknowledged, Save(); the reopen finishes"}
	c.Count("ack-inside-reopen-load")
	c.Eval("ack inside the checkpoint load of a reopen", true)
	var res *reloadRes
	for _, l := range cr.Lines {
		if strings.HasPrefix(l, "RESULT ") {
			res = &reloadRes{}
			_ = json.Unmarshal([]byte(l[7:]), res)
		}
	}
	if res == nil {
		c.Violate("closed-window-ack", fmt.Sprintf("an acknowledgement while the reopen of a rebalance loads the checkpoints: the process died (exit %d) %s", cr.ExitCode, cr.Fatal), rep)
		return
	}
	rep["observed"] = res
	switch {
	case res.Err != "":
		c.Note("c04reload not driven: %s", res.Err)
	case len(res.TracksInWindow) > 0:
		c.Violate("closed-window-ack", fmt.Sprintf("the acknowledgement of event 10 arrived while the reopen was loading the checkpoints (position 11 stored): TrackOffset was told %v", res.TracksInWindow), rep)
	case res.StoredAfter != 11 || res.TrackedAfter != 11:
		c.Violate("closed-window-ack", fmt.Sprintf("after the reopen the position of vb 0 is %d and the stored checkpoint %d; 11 was settled and stored before the rebalance", res.TrackedAfter, res.StoredAfter), rep)
	}
}
