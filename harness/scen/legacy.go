package scen

import (
	"encoding/json"
	"fmt"
	"sort"
	"strings"
	"time"

	"github.com/Trendyol/go-dcp/couchbase"
	"github.com/Trendyol/go-dcp/stream"

	"verifharness/gal"
)

// Servers older than 5.5.0 (serial stream closing): the close of the streams is paced by the end notification of each
// closed stream. Monitors only (the step-exact histories run against a current server): a rebalance cycle and Close() on
// the real Dcp with 1..4 vBuckets; used by C11 (the stream is closed, then reopened once, the client keeps running),
// C13 (Close() returns) and C18 (the gate itself: which versions close serially).
type legacyArg struct {
	Kind   string // "rebalance" | "close"
	NumVb  int
	Ver    []int // server version (major, minor, patch, build); empty = 5.4.9-9
	NoEnd  bool  // the fake client sends no end notification for a closed stream: a serial close then waits forever at the second stream
	Cycles int   // kind rebalance: this many close / reopen cycles (default 1)
}

type legacyRes struct {
	CloseReqs   []uint16 // stream closes requested during the close half / the teardown, ascending
	CloseMs     int64
	CloseHung   bool
	Reopened    []uint16 // stream requests of the reopen half
	StillOpen   bool     // the stream reports open after the cycle
	StartResult string   // "returned" | "hung" | "died: ..." (kind close, and at the end of kind rebalance)
	Serial      bool     // the closes of the close half were issued one at a time, each after the end of the previous one
	Cycles      int      // rebalance cycles completed
	StoppedAt   int      // the client stopped by itself (Start() returned, nobody called Close()) after this cycle; 0 = never
}

func init() {
	Children["legacy"] = func(raw json.RawMessage) {
		var a legacyArg
		must(json.Unmarshal(raw, &a))
		sv := &SServer{High: map[uint16]uint64{}, UUID: map[uint16]uint64{}}
		for vb := 0; vb < a.NumVb; vb++ {
			sv.High[uint16(vb)] = 5
			sv.UUID[uint16(vb)] = 70 + uint64(vb)
		}
		if len(a.Ver) == 4 {
			verOverride = &couchbase.Version{Major: a.Ver[0], Minor: a.Ver[1], Patch: a.Ver[2], Build: a.Ver[3]}
		}
		d := newSDriverDcp(SCfg{Colls: map[uint32]string{}}, map[uint16]SDoc{}, true, false, a.NumVb, !a.NoEnd)
		d.cfg.Dcp.Group.Membership.RebalanceDelay = 100 * time.Millisecond
		d.execStart(SOp{Kind: "open", Sv: sv})
		d.Client.TakeOpens()
		d.Client.TakeCloses()
		res := legacyRes{}
		if a.Kind == "rebalance" {
			if a.Cycles == 0 {
				a.Cycles = 1
			}
			for cyc := 1; cyc <= a.Cycles && !res.CloseHung && res.StoppedAt == 0; cyc++ {
				d.Client.TakeOpens()
				d.Client.TakeCloses()
				done := make(chan struct{})
				t0 := time.Now()
				go func() { d.Stream.Rebalance(); close(done) }()
				select {
				case <-done:
				case <-time.After(4 * time.Second):
					res.CloseHung = true
				}
				res.CloseMs = time.Since(t0).Milliseconds()
				res.CloseReqs = d.Client.TakeCloses()
				if res.CloseHung {
					break
				}
				deadline := time.Now().Add(4 * time.Second)
				for time.Now().Before(deadline) && !d.Stream.IsOpen() {
					time.Sleep(5 * time.Millisecond)
				}
				time.Sleep(60 * time.Millisecond)
				res.StillOpen = d.Stream.IsOpen()
				res.Reopened = nil
				for _, oc := range d.Client.TakeOpens() {
					res.Reopened = append(res.Reopened, oc.VbID)
				}
				sort.Slice(res.Reopened, func(i, j int) bool { return res.Reopened[i] < res.Reopened[j] })
				res.Cycles = cyc
				select {
				case r := <-d.startDone:
					res.StoppedAt = cyc
					res.StartResult = r
				default:
				}
				if !res.StillOpen {
					break
				}
			}
		}
		if res.StoppedAt > 0 {
			b, _ := json.Marshal(res)
			fmt.Println("RESULT " + string(b))
			return
		}
		if !res.CloseHung {
			t0 := time.Now()
			d.Dcp.Close()
			select {
			case r := <-d.startDone:
				res.StartResult = r
			case <-time.After(4 * time.Second):
				res.StartResult = "hung"
			}
			if a.Kind == "close" {
				res.CloseMs = time.Since(t0).Milliseconds()
				res.CloseReqs = d.Client.TakeCloses()
			}
		}
		b, _ := json.Marshal(res)
		fmt.Println("RESULT " + string(b))
	}
}

// runLegacy reports under the classes of the calling property.
// copies x cycles: how often the rebalance cycle is repeated (the stop after a rebalance, K15, is a race that a single cycle
// shows once in about seventy times on an idle machine)
func runLegacy(c *Ctx, kinds []string, copies, cycles int) {
	type job struct {
		kind string
		n    int
	}
	var jobs []job
	for _, k := range kinds {
		for _, n := range []int{1, 2, 4} {
			jobs = append(jobs, job{k, n})
			for x := 1; x < copies && k == "rebalance"; x++ {
				jobs = append(jobs, job{k, n})
			}
		}
	}
	out := make([]ChildResult, len(jobs))
	Parallel(len(jobs), 8, func(i int) {
		out[i] = RunChild("legacy", legacyArg{Kind: jobs[i].kind, NumVb: jobs[i].n, Cycles: cycles}, 120*time.Second)
	})
	for i, j := range jobs {
		cr := out[i]
		rep := map[string]interface{}{"how": "vh child legacy", "kind": j.kind, "vbuckets": j.n, "server": "5.4.9-9"}
		c.Count("legacy-server:" + j.kind)
		c.Eval(fmt.Sprint("legacy ", j.kind, j.n, " #", i), true)
		var res *legacyRes
		for _, l := range cr.Lines {
			if strings.HasPrefix(l, "RESULT ") {
				res = &legacyRes{}
				_ = json.Unmarshal([]byte(l[7:]), res)
			}
		}
		what := fmt.Sprintf("server 5.4.9 (serial stream closing), %d vBuckets, %s", j.n, map[string]string{"rebalance": fmt.Sprintf("%d rebalance cycles", cycles), "close": "Close()"}[j.kind])
		if res == nil {
			c.Violate("legacy-server-"+j.kind, fmt.Sprintf("%s: the process died (exit %d) %s", what, cr.ExitCode, cr.Fatal), rep)
			continue
		}
		rep["observed"] = res
		want := make([]uint16, j.n)
		for v := range want {
			want[v] = uint16(v)
		}
		switch {
		case res.StoppedAt > 0:
			// K15: the ends answering the serial close posted "finished by end events", close() posted "finished by close" as
			// well when it read the flag before wait() had set it, and the wait() of the reopened stream stopped the client
			c.Violate("legacy-server-rebalance-stops-client", fmt.Sprintf("%s: the client stopped by itself after cycle %d (Start() %s, nobody called Close())", what, res.StoppedAt, res.StartResult), rep)
		case j.kind == "rebalance" && !res.CloseHung && !res.StillOpen:
			c.Violate("legacy-server-rebalance-stops-client", fmt.Sprintf("%s: the stream is closed again after cycle %d although nobody closed it", what, res.Cycles), rep)
		case res.CloseHung:
			c.Violate("legacy-server-"+j.kind, fmt.Sprintf("%s: the close half had not returned after 4 s (stream closes requested: %v)", what, res.CloseReqs), rep)
		case fmt.Sprint(res.CloseReqs) != fmt.Sprint(want):
			c.Violate("legacy-server-"+j.kind, fmt.Sprintf("%s: stream closes requested for %v, the assigned vBuckets are %v", what, res.CloseReqs, want), rep)
		case j.kind == "rebalance" && fmt.Sprint(res.Reopened) != fmt.Sprint(want):
			c.Violate("legacy-server-"+j.kind, fmt.Sprintf("%s: the reopen requested %v, the range is %v", what, res.Reopened, want), rep)
		case res.StartResult != "returned":
			c.Violate("legacy-server-"+j.kind, fmt.Sprintf("%s: Close(): Start() %s", what, res.StartResult), rep)
		}
	}
}

// runSerialGate (C18): which server versions make NewStream close streams serially? Without end notifications a serial
// close of two streams never gets past the second one, a concurrent close returns at once: the gate is read off that.
func runSerialGate(c *Ctx) {
	var vers [][]int
	for _, ma := range []int{4, 5, 6} {
		for _, mi := range []int{4, 5, 6} {
			for _, pa := range []int{0, 1} {
				for _, bu := range []int{0, 1, 2958} {
					vers = append(vers, []int{ma, mi, pa, bu})
				}
			}
		}
	}
	vers = append(vers, []int{5, 4, 9, 9999}, []int{5, 5, 0, 0}, []int{0, 0, 0, 0}, []int{7, 6, 3, 0}, []int{5, 10, 0, 0}, []int{10, 0, 0, 0})
	if !c.Thorough() {
		var v2 [][]int
		for i, v := range vers {
			if (v[0] == 5 && v[1] == 5) || i%5 == 0 || i >= len(vers)-6 {
				v2 = append(v2, v)
			}
		}
		vers = v2
	}
	out := make([]ChildResult, len(vers))
	Parallel(len(vers), 16, func(i int) {
		out[i] = RunChild("legacy", legacyArg{Kind: "close", NumVb: 2, Ver: vers[i], NoEnd: true}, 40*time.Second)
	})
	var cs []gal.Term
	var rs []string
	for i, v := range vers {
		rep := map[string]interface{}{"how": "vh child legacy", "version": v, "no_end_notifications": true, "vbuckets": 2}
		var res *legacyRes
		for _, l := range out[i].Lines {
			if strings.HasPrefix(l, "RESULT ") {
				res = &legacyRes{}
				_ = json.Unmarshal([]byte(l[7:]), res)
			}
		}
		c.Count("serial-gate")
		if res == nil {
			c.Violate("serial-gate", fmt.Sprintf("version %v: the process died (exit %d) %s", v, out[i].ExitCode, out[i].Fatal), rep)
			continue
		}
		rep["observed"] = res
		serial := res.StartResult == "hung"
		c.Eval(fmt.Sprint("serial gate ", v), true)
		// monitor: serial closing is for servers below 5.5.0 only (tuple order)
		below := v[0] < 5 || (v[0] == 5 && v[1] < 5)
		if serial != below {
			c.Violate("serial-gate", fmt.Sprintf("server version %v: streams closed serially = %v; serial closing is for versions below 5.5.0", v, serial), rep)
		}
		cs = append(cs, gal.Tuple(gal.Tuple(gal.Z(int64(v[0])), gal.Z(int64(v[1])), gal.Z(int64(v[2])), gal.Z(int64(v[3]))), gal.Bool(serial)))
		rs = append(rs, J(rep))
	}
	c.Emit("serial", "NewStream's serial-closing gate read off the real close vs Version.serial_close", []string{"Base.Bytes", "Model.Version", "Corr.CorrC18"},
		"(Z * Z * Z * Z) * bool", "chk_serial", cs, rs, 200)
}

// ---- the end-of-session signalling around a rebalance, step by step, against Model/SerialClose.v ----
// The real stream on a server older than 5.5.0 with the fake client that answers every close with the end of that stream;
// its signalling state (hook stream.VerifSignalState) is read at three points of one rebalance cycle: after the close
// sweep (held in AfterStreamStop, before close() decides about "finished by close"), after Rebalance() has returned (the
// reopen timer armed), after the reopen. The wait() goroutines run freely: compared are the quantities they cannot
// change -- signals posted (waiting or taken), active count, flags of the sweep -- and whether the client was stopped.
type sigArg struct {
	NumVb int
}

type sigPoint struct {
	Active      int32
	Ending      bool
	Queue       int
	PostedEnd   int // waiting in the channel or taken (flag set)
	PostedClose int
	Stopped     bool
}

type sigRes struct {
	Points []sigPoint
	Err    string
}

func init() {
	Children["legacysig"] = func(raw json.RawMessage) {
		var a sigArg
		must(json.Unmarshal(raw, &a))
		res := sigRes{}
		defer func() {
			b, _ := json.Marshal(res)
			fmt.Println("RESULT " + string(b))
		}()
		d := NewSDriverOpt(SCfg{Colls: map[uint32]string{}}, map[uint16]SDoc{}, true)
		d.Client.EndOnClose = true
		d.cfg.Dcp.Group.Membership.RebalanceDelay = 250 * time.Millisecond
		sv := &SServer{High: map[uint16]uint64{}, UUID: map[uint16]uint64{}}
		for vb := 0; vb < a.NumVb; vb++ {
			sv.High[uint16(vb)] = 5
			sv.UUID[uint16(vb)] = 70 + uint64(vb)
		}
		d.Disc.Set(0, uint16(a.NumVb-1))
		d.setServer(sv)
		d.Stream.Open()
		stopped := func() bool {
			select {
			case <-d.stopCh:
				return true
			default:
				return false
			}
		}
		point := func() {
			v := stream.VerifSignalState(d.Stream)
			p := sigPoint{Active: v.Active, Ending: v.Ending, Queue: v.Queue, PostedEnd: v.SigEnd, PostedClose: v.SigClose, Stopped: stopped()}
			if v.FinEnd {
				p.PostedEnd++
			}
			if v.FinClose {
				p.PostedClose++
			}
			res.Points = append(res.Points, p)
		}
		d.Hand.SetHold("AfterStreamStop", true)
		done := make(chan struct{})
		go func() { d.Stream.Rebalance(); close(done) }()
		select {
		case <-d.Hand.Held:
		case <-time.After(4 * time.Second):
			res.Err = "the close half did not reach AfterStreamStop within 4 s"
			return
		}
		time.Sleep(20 * time.Millisecond) // a wait() goroutine that has something to take takes it
		point()
		d.Hand.SetHold("AfterStreamStop", false)
		d.Hand.Resume()
		select {
		case <-done:
		case <-time.After(4 * time.Second):
			res.Err = "Rebalance() did not return within 4 s"
			return
		}
		time.Sleep(20 * time.Millisecond)
		point()
		deadline := time.Now().Add(4 * time.Second)
		for time.Now().Before(deadline) && !(d.Stream.IsOpen() && !stream.VerifSignalState(d.Stream).Balancing) {
			time.Sleep(5 * time.Millisecond)
		}
		time.Sleep(50 * time.Millisecond)
		point()
	}
}

func runLegacySignals(c *Ctx) {
	ns := []int{1, 2, 3, 5}
	out := make([]ChildResult, len(ns))
	Parallel(len(ns), 4, func(i int) { out[i] = RunChild("legacysig", sigArg{NumVb: ns[i]}, 40*time.Second) })
	var cs []gal.Term
	var rs []string
	for i, n := range ns {
		rep := map[string]interface{}{"how": "vh child legacysig", "vbuckets": n, "server": "5.4.9-9"}
		c.Count("legacy-signals")
		var res *sigRes
		for _, l := range out[i].Lines {
			if strings.HasPrefix(l, "RESULT ") {
				res = &sigRes{}
				_ = json.Unmarshal([]byte(l[7:]), res)
			}
		}
		if res == nil {
			c.Violate("legacy-server-rebalance", fmt.Sprintf("server 5.4.9, %d vBuckets, one rebalance cycle step by step: the process died (exit %d) %s", n, out[i].ExitCode, out[i].Fatal), rep)
			continue
		}
		if res.Err != "" || len(res.Points) != 3 {
			c.Note("legacysig %d not driven: %s", n, res.Err)
			continue
		}
		rep["observed"] = res.Points
		c.Eval(fmt.Sprint("legacy signals ", n), true)
		// monitors
		if res.Points[0].PostedEnd > 0 {
			c.Violate("legacy-server-rebalance-stops-client", fmt.Sprintf("server 5.4.9, %d vBuckets: the ends that answered the close sweep of a rebalance posted \"finished by end events\" (%d): together with the \"finished by close\" of close() one signal too many, the wait() of the reopened stream stops the client", n, res.Points[0].PostedEnd), rep)
		}
		if res.Points[2].Stopped {
			c.Violate("legacy-server-rebalance-stops-client", fmt.Sprintf("server 5.4.9, %d vBuckets: the client was stopped by the rebalance cycle", n), rep)
		}
		var pts []gal.Term
		for _, p := range res.Points {
			pts = append(pts, gal.Tuple(gal.Nat(int(p.Active)), gal.Bool(p.Ending), gal.Nat(p.PostedEnd), gal.Nat(p.PostedClose), gal.Bool(p.Stopped)))
		}
		cs = append(cs, gal.Tuple(gal.Nat(n), gal.List(pts)))
		rs = append(rs, J(rep))
	}
	c.Emit("signals", "signalling state of the real stream at three points of a rebalance cycle (server 5.4.9) vs SerialClose.sc_run", []string{"Model.SerialClose", "Corr.CorrC11"},
		"nat * list (nat * bool * nat * nat * bool)", "chk_signals", cs, rs, 50)
}
