package scen

import (
	"encoding/json"
	"fmt"
	"strings"
	"time"

	"github.com/asaskevich/EventBus"
	"github.com/prometheus/client_golang/prometheus"
	dto "github.com/prometheus/client_model/go"

	"github.com/Trendyol/go-dcp/config"
	"github.com/Trendyol/go-dcp/helpers"
	"github.com/Trendyol/go-dcp/membership"
	"github.com/Trendyol/go-dcp/metric"
	"github.com/Trendyol/go-dcp/stream"
)

// runC16Gauges: the membership gauges of the real collector over the real vBucketDiscovery (dynamic membership on a real bus):
// after every membership change and every Get() a scrape must show the member number, the group size and the range that Get()
// has just returned.
func runC16Gauges(c *Ctx) {
	for i := 0; i < c.Pick(40, 400); i++ {
		n := []int{12, 64, 128, 1024}[c.Rng.Intn(4)]
		bus := EventBus.New()
		dcfg := &config.Dcp{}
		dcfg.Dcp.Group.Membership.Type = membership.DynamicMembershipType
		vd := stream.NewVBucketDiscovery(nil, dcfg, n, bus)
		d := NewSDriverOpt(SCfg{Colls: map[uint32]string{}}, map[uint16]SDoc{}, false)
		d.Disc.Set(0, 1) // the collector shows nothing while the stream is closed: open it on two vBuckets
		d.setServer(&SServer{High: map[uint16]uint64{0: 3, 1: 3}, UUID: map[uint16]uint64{0: 70, 1: 71}})
		d.Stream.Open()
		col := metric.NewMetricCollector(d.Client, d.Stream, vd)
		t := 1 + c.Rng.Intn(8)
		var hist [][4]int
		for st := 0; st < 2+c.Rng.Intn(5); st++ {
			if c.Rng.Intn(3) == 0 {
				t = 1 + c.Rng.Intn(8)
			}
			k := 1 + c.Rng.Intn(t)
			bus.Publish(helpers.MembershipChangedBusEventName, &membership.Model{MemberNumber: k, TotalMembers: t})
			bus.WaitAsync()
			got := vd.Get()
			first, last := int(got[0]), int(got[len(got)-1])
			hist = append(hist, [4]int{t, k, first, last})
			ch := make(chan prometheus.Metric, 8192)
			func() {
				defer func() { _ = recover() }() // the stream part of the collector has nothing to show: only the gauges matter here
				col.Collect(ch)
			}()
			close(ch)
			seen := map[string]float64{}
			for m := range ch {
				var pb dto.Metric
				if m.Write(&pb) != nil || pb.Gauge == nil {
					continue
				}
				for _, name := range []string{"cbgo_total_members_current", "cbgo_member_number_current", "cbgo_vbucket_count_current", "cbgo_vbucket_range_start_current", "cbgo_vbucket_range_end_current"} {
					if strings.Contains(m.Desc().String(), `"`+name+`"`) {
						seen[name] = pb.Gauge.GetValue()
					}
				}
			}
			want := map[string]float64{"cbgo_total_members_current": float64(t), "cbgo_member_number_current": float64(k), "cbgo_vbucket_count_current": float64(n),
				"cbgo_vbucket_range_start_current": float64(first), "cbgo_vbucket_range_end_current": float64(last)}
			c.Eval(fmt.Sprint("gauges", n, hist), len(hist) > 1)
			c.Count("membership-gauges-scrape")
			for name, w := range want {
				if g, ok := seen[name]; !ok || g != w {
					c.Violate("membership-gauge", fmt.Sprintf("after membership updates (size, member, first, last) %v of a %d-vBucket bucket the scrape shows %s = %v (present: %v), expected %v",
						hist, n, name, g, ok, w), map[string]interface{}{"vbuckets": n, "updates_size_member_first_last": hist, "scraped": seen})
					break
				}
			}
		}
		vd.Close()
	}
}

// Scrapes at the callback points of a rebalance and of Close(): "a scrape at any point ... neither blocks nor crashes".
// The collector runs on a goroutine of its own (as prometheus runs it), so a panic ends the process: child processes.
type c16WinArg struct {
	Point string // the event-handler callback during which the scrape runs
	Op    string // "rebalance" | "close"
}

type c16WinRes struct {
	Reached bool   // the callback was reached
	Kind    string // "metrics" | "nometrics" | "ignored" (the scrape blocked)
	Rows    int
	Seqs    map[uint16]uint64
}

func init() {
	Children["c16win"] = func(raw json.RawMessage) {
		var a c16WinArg
		must(json.Unmarshal(raw, &a))
		d := NewSDriverOpt(SCfg{Colls: map[uint32]string{}}, map[uint16]SDoc{0: {UUID: 70, Seq: 2, Start: 2, End: 2}}, false)
		d.cfg.Dcp.Group.Membership.RebalanceDelay = 50 * time.Millisecond
		d.Disc.Set(0, 1)
		sv := &SServer{High: map[uint16]uint64{0: 9, 1: 9}, UUID: map[uint16]uint64{0: 70, 1: 71}}
		d.setServer(sv)
		d.Stream.Open()
		d.Hand.SetHold(a.Point, true)
		if a.Op == "rebalance" {
			go d.Stream.Rebalance()
		} else {
			go d.Stream.Close(false)
		}
		res := c16WinRes{}
		select {
		case <-d.Hand.Held:
			res.Reached = true
			o := d.scrape(sv.High)
			res.Kind = o.Kind
			res.Rows = len(o.OffRows)
			res.Seqs = map[uint16]uint64{}
			for vb, r := range o.OffRows {
				res.Seqs[vb] = r[0]
			}
			d.Hand.SetHold(a.Point, false)
			d.Hand.Resume()
		case <-time.After(3 * time.Second):
		}
		time.Sleep(200 * time.Millisecond)
		b, _ := json.Marshal(res)
		fmt.Println("RESULT " + string(b))
	}
}

func runC16Windows(c *Ctx) {
	var jobs []c16WinArg
	for _, p := range []string{"BeforeRebalanceStart", "BeforeStreamStop", "AfterStreamStop", "AfterRebalanceStart", "BeforeRebalanceEnd", "BeforeStreamStart", "AfterStreamStart", "AfterRebalanceEnd"} {
		jobs = append(jobs, c16WinArg{Point: p, Op: "rebalance"})
	}
	for _, p := range []string{"BeforeStreamStop", "AfterStreamStop"} {
		jobs = append(jobs, c16WinArg{Point: p, Op: "close"})
	}
	out := make([]ChildResult, len(jobs))
	Parallel(len(jobs), 10, func(i int) { out[i] = RunChild("c16win", jobs[i], 30*time.Second) })
	for i, j := range jobs {
		rep := map[string]interface{}{"how": "vh child c16win", "scrape_during": j.Point, "of": j.Op}
		c.Count("scrape-during:" + j.Point)
		c.Eval("scrape during "+j.Point+" of "+j.Op, true)
		var res *c16WinRes
		for _, l := range out[i].Lines {
			if strings.HasPrefix(l, "RESULT ") {
				res = &c16WinRes{}
				_ = json.Unmarshal([]byte(l[7:]), res)
			}
		}
		what := fmt.Sprintf("a scrape during %s of a %s", j.Point, j.Op)
		switch {
		case res == nil:
			c.Violate("scrape-crashes", fmt.Sprintf("%s: the process died (exit %d) %s", what, out[i].ExitCode, out[i].Fatal), rep)
		case !res.Reached:
			c.Note("c16win: %s was not reached", j.Point)
		case res.Kind == "ignored":
			c.Violate("scrape-blocks", what+" had not returned after 3 s", rep)
		case res.Kind == "metrics":
			// whatever is shown is the tracked position: vBucket 0 resumes from its checkpoint (2), vBucket 1 from 0
			for vb, s := range res.Seqs {
				if want := map[uint16]uint64{0: 2, 1: 0}[vb]; s != want {
					rep["observed"] = res
					c.Violate("scrape-window-value", fmt.Sprintf("%s shows vb %d at %d, the tracked position is %d", what, vb, s, want), rep)
				}
			}
		}
	}
}
