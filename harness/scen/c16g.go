package scen

import (
	"fmt"
	"strings"

	"github.com/asaskevich/EventBus"
	"github.com/prometheus/client_golang/prometheus"
	dto "github.com/prometheus/client_model/go"

	"github.com/Trendyol/go-dcp/config"
	"github.com/Trendyol/go-dcp/helpers"
	"github.com/Trendyol/go-dcp/membership"
	"github.com/Trendyol/go-dcp/metric"
	"github.com/Trendyol/go-dcp/stream"
)

// runC16Gauges: the membership gauges of the real collector over the real vBucketDiscovery (dynamic membership on a real bus):
// after every membership change and every Get() a scrape must show the member number, the group size and the range that Get()
// has just returned.
func runC16Gauges(c *Ctx) {
	for i := 0; i < c.Pick(40, 400); i++ {
		n := []int{12, 64, 128, 1024}[c.Rng.Intn(4)]
		bus := EventBus.New()
		dcfg := &config.Dcp{}
		dcfg.Dcp.Group.Membership.Type = membership.DynamicMembershipType
		vd := stream.NewVBucketDiscovery(nil, dcfg, n, bus)
		d := NewSDriverOpt(SCfg{Colls: map[uint32]string{}}, map[uint16]SDoc{}, false)
		d.Disc.Set(0, 1) // the collector shows nothing while the stream is closed: open it on two vBuckets
		d.setServer(&SServer{High: map[uint16]uint64{0: 3, 1: 3}, UUID: map[uint16]uint64{0: 70, 1: 71}})
		d.Stream.Open()
		col := metric.NewMetricCollector(d.Client, d.Stream, vd)
		t := 1 + c.Rng.Intn(8)
		var hist [][4]int
		for st := 0; st < 2+c.Rng.Intn(5); st++ {
			if c.Rng.Intn(3) == 0 {
				t = 1 + c.Rng.Intn(8)
			}
			k := 1 + c.Rng.Intn(t)
			bus.Publish(helpers.MembershipChangedBusEventName, &membership.Model{MemberNumber: k, TotalMembers: t})
			bus.WaitAsync()
			got := vd.Get()
			first, last := int(got[0]), int(got[len(got)-1])
			hist = append(hist, [4]int{t, k, first, last})
			ch := make(chan prometheus.Metric, 8192)
			func() {
				defer func() { _ = recover() }() // the stream part of the collector has nothing to show: only the gauges matter here
				col.Collect(ch)
			}()
			close(ch)
			seen := map[string]float64{}
			for m := range ch {
				var pb dto.Metric
				if m.Write(&pb) != nil || pb.Gauge == nil {
					continue
				}
				for _, name := range []string{"cbgo_total_members_current", "cbgo_member_number_current", "cbgo_vbucket_count_current", "cbgo_vbucket_range_start_current", "cbgo_vbucket_range_end_current"} {
					if strings.Contains(m.Desc().String(), `"`+name+`"`) {
						seen[name] = pb.Gauge.GetValue()
					}
				}
			}
			want := map[string]float64{"cbgo_total_members_current": float64(t), "cbgo_member_number_current": float64(k), "cbgo_vbucket_count_current": float64(n),
				"cbgo_vbucket_range_start_current": float64(first), "cbgo_vbucket_range_end_current": float64(last)}
			c.Eval(fmt.Sprint("gauges", n, hist), len(hist) > 1)
			c.Count("membership-gauges-scrape")
			for name, w := range want {
				if g, ok := seen[name]; !ok || g != w {
					c.Violate("membership-gauge", fmt.Sprintf("after membership updates (size, member, first, last) %v of a %d-vBucket bucket the scrape shows %s = %v (present: %v), expected %v",
						hist, n, name, g, ok, w), map[string]interface{}{"vbuckets": n, "updates_size_member_first_last": hist, "scraped": seen})
					break
				}
			}
		}
		vd.Close()
	}
}
