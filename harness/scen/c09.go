package scen

import (
	"fmt"

	"github.com/Trendyol/go-dcp/config"
	"github.com/Trendyol/go-dcp/helpers"
	"github.com/Trendyol/go-dcp/logger"
	"github.com/Trendyol/go-dcp/membership"
	"github.com/Trendyol/go-dcp/stream"
	"github.com/asaskevich/EventBus"
	"github.com/sirupsen/logrus"

	"verifharness/gal"
)

func init() {
	Registry["C09"] = runC09
	l := logrus.New()
	l.SetLevel(logrus.PanicLevel)
	logger.Log = &logger.Loggers{Logrus: l}
}

type c09Case struct {
	N, T   int
	Chunks [][2]int // (first, len)
}

// chunkReal runs the real helpers.ChunkSlice on the identity slice and describes the result.
// ok=false when the result is not a list of slices of consecutive ids (cannot be described as first/len).
func chunkReal(n, t int) (res [][2]int, shapeOK bool, panicked interface{}) {
	defer func() {
		if r := recover(); r != nil {
			panicked = r
		}
	}()
	ids := make([]uint16, n)
	for i := range ids {
		ids[i] = uint16(i)
	}
	cs := helpers.ChunkSlice[uint16](ids, t)
	shapeOK = true
	for _, c := range cs {
		first := 0
		if len(c) > 0 {
			first = int(c[0])
		}
		for j := range c {
			if int(c[j]) != first+j {
				shapeOK = false
			}
		}
		res = append(res, [2]int{first, len(c)})
	}
	return
}

// monitorC09 checks the property itself on a real result (independent of the Coq model).
func monitorC09(n, t int, cs [][2]int) string {
	if len(cs) != t {
		return fmt.Sprintf("expected %d chunks, got %d", t, len(cs))
	}
	next, minL, maxL := 0, n+1, 0
	for i, c := range cs {
		if c[1] < 1 {
			return fmt.Sprintf("chunk %d is empty", i)
		}
		if c[0] != next {
			return fmt.Sprintf("chunk %d starts at %d, expected %d (gap or overlap)", i, c[0], next)
		}
		next = c[0] + c[1]
		if c[1] < minL {
			minL = c[1]
		}
		if c[1] > maxL {
			maxL = c[1]
		}
	}
	if next != n {
		return fmt.Sprintf("chunks cover 0..%d, expected 0..%d", next-1, n-1)
	}
	if maxL-minL > 1 {
		return fmt.Sprintf("chunk sizes differ by %d", maxL-minL)
	}
	return ""
}

func rleLens(cs [][2]int) [][2]int {
	var r [][2]int
	for _, c := range cs {
		if len(r) > 0 && r[len(r)-1][0] == c[1] {
			r[len(r)-1][1]++
		} else {
			r = append(r, [2]int{c[1], 1})
		}
	}
	return r
}

func pairsTerm(ps [][2]int) gal.Term {
	ts := make([]gal.Term, len(ps))
	for i, p := range ps {
		ts[i] = gal.Tuple(gal.N(uint64(p[0])), gal.N(uint64(p[1])))
	}
	return gal.List(ts)
}

func runC09(c *Ctx) {
	c.Res.Rule = "pairs (N,T) with 1<=T<=N: every pair with N<=fullMax compared chunk by chunk; every pair up to rleMax " +
		"(all T for N in {64,128,1024} in quick) by run-length of the chunk sizes after the harness checked contiguity; " +
		"random (N,T,member) triples through the real static VBucketDiscovery.Get(). Distinct = distinct (N,T[,k]); " +
		"non-trivial = T>=2 (more than one chunk)"
	fullMax := c.Pick(48, 96)
	rleMax := c.Pick(96, 1024)
	var full, rle, mem []gal.Term
	var fullR, rleR, memR []string

	doPair := func(n, t int, wantFull bool) {
		cs, shapeOK, p := chunkReal(n, t)
		key := fmt.Sprintf("%d/%d", n, t)
		c.Eval(key, t >= 2)
		if p != nil {
			c.Violate("panic", fmt.Sprintf("ChunkSlice panicked for N=%d T=%d: %v", n, t, p), map[string]int{"n": n, "t": t})
			return
		}
		if !shapeOK {
			c.Violate("non-contiguous", fmt.Sprintf("ChunkSlice(N=%d,T=%d) returned a chunk of non-consecutive ids", n, t), map[string]int{"n": n, "t": t})
			return
		}
		if m := monitorC09(n, t, cs); m != "" {
			c.Violate("partition", fmt.Sprintf("N=%d T=%d: %s", n, t, m), map[string]interface{}{"n": n, "t": t, "chunks": cs})
		}
		if wantFull {
			full = append(full, gal.Tuple(gal.N(uint64(n)), gal.N(uint64(t)), pairsTerm(cs)))
			fullR = append(fullR, J(map[string]interface{}{"kind": "full", "n": n, "t": t, "chunks": cs}))
			c.Count("full")
		} else {
			r := rleLens(cs)
			rle = append(rle, gal.Tuple(gal.N(uint64(n)), gal.N(uint64(t)), pairsTerm(r)))
			rleR = append(rleR, J(map[string]interface{}{"kind": "rle", "n": n, "t": t, "rle": r}))
			c.Count("rle")
		}
		if n == 10 && t == 3 {
			c.Sample(map[string]interface{}{"n": n, "t": t, "chunks_first_len": cs})
		}
	}

	for n := 1; n <= rleMax; n++ {
		for t := 1; t <= n; t++ {
			doPair(n, t, n <= fullMax)
		}
	}
	if !c.Thorough() {
		for _, n := range []int{64, 128, 1024} {
			for t := 1; t <= n; t++ {
				if n > rleMax {
					doPair(n, t, false)
				}
			}
		}
	}
	c.Res.Exhaustive = c.Thorough()

	// the member's view through the real VBucketDiscovery (static membership)
	nMem := c.Pick(2000, 20000)
	for i := 0; i < nMem; i++ {
		var n int
		switch c.Rng.Intn(4) {
		case 0:
			n = []int{64, 128, 1024}[c.Rng.Intn(3)]
		default:
			n = 1 + c.Rng.Intn(1024)
		}
		t := 1 + c.Rng.Intn(n)
		if c.Rng.Intn(3) == 0 && n > 8 {
			t = 1 + c.Rng.Intn(8)
		}
		k := 1 + c.Rng.Intn(t)
		cfg := &config.Dcp{}
		cfg.Dcp.Group.Membership.Type = membership.StaticMembershipType
		cfg.Dcp.Group.Membership.MemberNumber = k
		cfg.Dcp.Group.Membership.TotalMembers = t
		vd := stream.NewVBucketDiscovery(nil, cfg, n, nil)
		got := vd.Get()
		c.Eval(fmt.Sprintf("m%d/%d/%d", n, t, k), t >= 2)
		c.Count("member")
		first, last := int(got[0]), int(got[len(got)-1])
		for j := range got {
			if int(got[j]) != first+j {
				c.Violate("non-contiguous", fmt.Sprintf("Get() N=%d T=%d k=%d not consecutive", n, t, k), map[string]int{"n": n, "t": t, "k": k})
			}
		}
		m := vd.GetMetric()
		if int(m.VBucketRangeStart) != first || int(m.VBucketRangeEnd) != last || m.MemberNumber != k || m.TotalMembers != t {
			c.Violate("metric", fmt.Sprintf("discovery metric disagrees with Get() for N=%d T=%d k=%d", n, t, k), map[string]int{"n": n, "t": t, "k": k})
		}
		mem = append(mem, gal.Tuple(gal.N(uint64(n)), gal.N(uint64(t)), gal.N(uint64(k)), gal.Tuple(gal.N(uint64(first)), gal.N(uint64(last)))))
		memR = append(memR, J(map[string]interface{}{"kind": "member", "n": n, "t": t, "k": k, "first": first, "last": last}))
		if i == 0 {
			c.Sample(map[string]interface{}{"n": n, "t": t, "member": k, "range": []int{first, last}})
		}
	}

	// whole groups through the real discovery: every member of (N,T) calls Get(); the ranges must partition 0..N-1
	groupCheck := func(n, t int) {
		cs := make([][2]int, 0, t)
		for k := 1; k <= t; k++ {
			cfg := &config.Dcp{}
			cfg.Dcp.Group.Membership.Type = membership.StaticMembershipType
			cfg.Dcp.Group.Membership.MemberNumber = k
			cfg.Dcp.Group.Membership.TotalMembers = t
			got := stream.NewVBucketDiscovery(nil, cfg, n, nil).Get()
			cs = append(cs, [2]int{int(got[0]), len(got)})
		}
		c.Count("group")
		c.Eval(fmt.Sprintf("g%d/%d", n, t), t >= 2)
		if m := monitorC09(n, t, cs); m != "" {
			c.Violate("partition", fmt.Sprintf("members 1..%d of a %d-vBucket bucket through VBucketDiscovery.Get(): %s", t, n, m),
				map[string]interface{}{"n": n, "t": t, "member_first_len": cs})
		}
	}
	for _, n := range []int{64, 128, 1024} {
		for t := 1; t <= n; t++ {
			if c.Thorough() || n < 1024 || t <= 128 || t%7 == 0 {
				groupCheck(n, t)
			}
		}
	}
	for i := 0; i < c.Pick(200, 3000); i++ {
		n := 1 + c.Rng.Intn(1024)
		groupCheck(n, 1+c.Rng.Intn(n))
	}

	// one long-lived discovery object whose membership changes (dynamic membership over the real bus):
	// the range must depend on the current (N, T, member) only
	var seqc []gal.Term
	var seqR []string
	for i := 0; i < c.Pick(60, 600); i++ {
		n := []int{64, 128, 1024, 1 + c.Rng.Intn(1024)}[c.Rng.Intn(4)]
		bus := EventBus.New()
		cfg := &config.Dcp{}
		cfg.Dcp.Group.Membership.Type = membership.DynamicMembershipType
		vd := stream.NewVBucketDiscovery(nil, cfg, n, bus)
		steps := 2 + c.Rng.Intn(6)
		t := 1 + c.Rng.Intn(minInt(n, 12))
		var hist [][4]int
		for st := 0; st < steps; st++ {
			switch c.Rng.Intn(3) {
			case 0: // group size changes
				t = 1 + c.Rng.Intn(minInt(n, 12))
			default: // same size, members renumbered
			}
			k := 1 + c.Rng.Intn(t)
			bus.Publish(helpers.MembershipChangedBusEventName, &membership.Model{MemberNumber: k, TotalMembers: t})
			bus.WaitAsync()
			got := vd.Get()
			first, last := int(got[0]), int(got[len(got)-1])
			hist = append(hist, [4]int{t, k, first, last})
			if m := vd.GetMetric(); int(m.VBucketRangeStart) != first || int(m.VBucketRangeEnd) != last || m.MemberNumber != k || m.TotalMembers != t {
				c.Violate("metric", fmt.Sprintf("after membership updates %v the discovery metric says member %d/%d range %d-%d but Get() returned %d-%d for member %d/%d",
					hist, m.MemberNumber, m.TotalMembers, m.VBucketRangeStart, m.VBucketRangeEnd, first, last, k, t), map[string]interface{}{"n": n, "history_t_k_first_last": hist})
			}
			seqc = append(seqc, gal.Tuple(gal.N(uint64(n)), gal.N(uint64(t)), gal.N(uint64(k)), gal.Tuple(gal.N(uint64(first)), gal.N(uint64(last)))))
			seqR = append(seqR, J(map[string]interface{}{"kind": "member-after-updates", "n": n, "history_t_k_first_last": append([][4]int{}, hist...)}))
			// monitor: same as a fresh computation
			cs, _, _ := chunkReal(n, t)
			if len(cs) == t && (cs[k-1][0] != first || cs[k-1][0]+cs[k-1][1]-1 != last) {
				c.Violate("impure", fmt.Sprintf("after membership updates %v a long-lived discovery returned range %d-%d for member %d/%d of %d vBuckets; a fresh computation gives %d-%d",
					hist, first, last, k, t, n, cs[k-1][0], cs[k-1][0]+cs[k-1][1]-1), map[string]interface{}{"n": n, "history_t_k_first_last": hist})
			}
			c.Eval(fmt.Sprintf("s%d/%v", n, hist), true)
			c.Count("member-after-update")
		}
		vd.Close()
		if i == 0 {
			c.Sample(map[string]interface{}{"n": n, "updates_t_k_first_last": hist})
		}
	}

	im := []string{"Model.Chunk", "Corr.CorrC09"}
	c.Emit("seq", "VBucketDiscovery.Get() after membership updates vs Chunk.member_range", im, "N * N * N * (N * N)", "chk_member", seqc, seqR, 500)
	c.Emit("full", "ChunkSlice result chunk by chunk vs Chunk.chunks", im, "N * N * list (N * N)", "chk_full", full, fullR, 300)
	c.Emit("rle", "run-length of chunk sizes vs Chunk.lens_rle", im, "N * N * list (N * N)", "chk_rle", rle, rleR, 700)
	c.Emit("member", "VBucketDiscovery.Get() range vs Chunk.member_range", im, "N * N * N * (N * N)", "chk_member", mem, memR, 500)
	// the file backend holds the checkpoints of vBuckets that left the range: the member still streams exactly its chunk
	runC04File(c)
	// ... and agree on the group size: a leader-assigned group that grows and shrinks (real serviceDiscovery.SetInfo, real
	// kubernetesHa membership behind the real vBucketDiscovery) is an exact partition after every step
	runHaGroup(c)
	// a server older than 5.5.0: after a rebalance the member holds streams for exactly its chunk (every stream of the old
	// range was closed, the last one too)
	runLegacy(c, []string{"rebalance"}, 1, 1)
}

func minInt(a, b int) int {
	if a < b {
		return a
	}
	return b
}
