package scen

import (
	"bytes"
	"encoding/json"
	"fmt"
	"io"
	"net"
	"net/http"
	"strings"
	"sync"
	"time"

	"github.com/asaskevich/EventBus"
	"github.com/prometheus/client_golang/prometheus"

	"github.com/Trendyol/go-dcp/api"
	"github.com/Trendyol/go-dcp/helpers"
	"github.com/Trendyol/go-dcp/membership"
	"github.com/Trendyol/go-dcp/metric"
	"github.com/Trendyol/go-dcp/models"
)

// The real api.NewAPI (fiber, on a local port) around the real stream: the state endpoints and the metrics endpoint
// must tell what the stream tracks (C16), the membership endpoint announces a numbering only when it differs (C10, dynamic
// membership), and the endpoints answer, without crashing, while the stream is closed. One child process per run (the
// collectors go into the process-wide prometheus registry).
type apiStep struct {
	What   string
	Status int
	Body   string
	Want   string // what the stream says at that moment (filled by the child for the comparing steps)
	Pubs   [][2]int
}

type apiRes struct {
	Steps []apiStep
	Err   string
}

func init() {
	Children["c16api"] = func(raw json.RawMessage) {
		var a struct{ Seed int64 }
		must(json.Unmarshal(raw, &a))
		rng := newRng(a.Seed)
		res := apiRes{}
		defer func() {
			b, _ := json.Marshal(res)
			fmt.Println("RESULT " + string(b))
		}()
		ln, err := net.Listen("tcp", "127.0.0.1:0")
		if err != nil {
			res.Err = "no local port: " + err.Error()
			return
		}
		port := ln.Addr().(*net.TCPAddr).Port
		_ = ln.Close()
		d := NewSDriverOpt(SCfg{Colls: map[uint32]string{}}, map[uint16]SDoc{1: {UUID: 71, Seq: 3, Start: 3, End: 3}}, false)
		d.cfg.Debug = true
		d.cfg.API.Port = port
		d.cfg.Metric.Path = "/metrics"
		d.cfg.Dcp.Group.Name = "g"
		d.cfg.HealthCheck.Disabled = false
		d.cfg.Dcp.Group.Membership.RebalanceDelay = 40 * time.Millisecond
		nvb := 3
		sv := &SServer{High: map[uint16]uint64{}, UUID: map[uint16]uint64{}}
		for vb := 0; vb < nvb; vb++ {
			sv.High[uint16(vb)] = 30
			sv.UUID[uint16(vb)] = 70 + uint64(vb)
		}
		d.Disc.Set(0, uint16(nvb-1))
		d.setServer(sv)
		bus := EventBus.New()
		var pmu sync.Mutex
		var pubs [][2]int
		_ = bus.SubscribeAsync(helpers.MembershipChangedBusEventName, func(m *membership.Model) {
			pmu.Lock()
			pubs = append(pubs, [2]int{m.MemberNumber, m.TotalMembers})
			pmu.Unlock()
		}, true)
		takePubs := func() [][2]int {
			bus.WaitAsync()
			pmu.Lock()
			defer pmu.Unlock()
			r := pubs
			pubs = nil
			return r
		}
		ap := api.NewAPI(d.cfg, d.Client, d.Stream, nil, []prometheus.Collector{metric.NewMetricCollector(d.Client, d.Stream, d.Disc)}, bus)
		go ap.Listen()
		base := fmt.Sprintf("http://127.0.0.1:%d", port)
		cl := &http.Client{Timeout: 5 * time.Second}
		up := false
		for t0 := time.Now(); time.Since(t0) < 5*time.Second; time.Sleep(20 * time.Millisecond) {
			if c, err := net.DialTimeout("tcp", fmt.Sprintf("127.0.0.1:%d", port), 200*time.Millisecond); err == nil {
				_ = c.Close()
				up = true
				break
			}
		}
		if !up {
			res.Err = "the API did not start listening within 5 s"
			return
		}
		call := func(what, method, path, body string) apiStep {
			req, _ := http.NewRequest(method, base+path, bytes.NewReader([]byte(body)))
			if body != "" {
				req.Header.Set("Content-Type", "application/json")
			}
			st := apiStep{What: what}
			resp, err := cl.Do(req)
			if err != nil {
				st.Status = -1
				st.Body = err.Error()
				return st
			}
			b, _ := io.ReadAll(resp.Body)
			_ = resp.Body.Close()
			st.Status, st.Body = resp.StatusCode, string(b)
			return st
		}
		tracked := func() string {
			offs, _, _ := d.Stream.GetOffsets()
			m := map[uint16]uint64{}
			offs.Range(func(vb uint16, o *models.Offset) bool { m[vb] = o.SeqNo; return true })
			b, _ := json.Marshal(m)
			return string(b)
		}
		add := func(s apiStep) { res.Steps = append(res.Steps, s) }

		// closed stream
		add(call("offsets while the stream has not been opened", "GET", "/states/offset", ""))
		add(call("rebalance while the stream has not been opened", "GET", "/rebalance", ""))
		add(call("metrics while the stream has not been opened", "GET", "/metrics", ""))
		d.Stream.Open()
		// some settled events
		for vb := uint16(0); vb < uint16(nvb); vb++ {
			ob := d.Client.Observer(vb)
			d.deliver(ob, vb, &SEv{Kind: "marker", S: 0, E: 30})
			first := uint64(1)
			if vb == 1 {
				first = 4
			}
			for k := 0; k < 1+rng.Intn(4); k++ {
				n := d.Cons.Count()
				seq := first + uint64(k)
				d.deliver(ob, vb, &SEv{Kind: "mut", Item: &SItem{Seq: seq, Cas: 1, Key: []byte(fmt.Sprintf("k%d", seq)), Rest: uint64(vb)*100 + seq}})
				if ctx := d.Cons.Ctx(n); ctx != nil && rng.Intn(4) != 0 {
					ctx.Ack()
				}
			}
		}
		s := call("offsets of the open stream", "GET", "/states/offset", "")
		s.Want = tracked()
		add(s)
		s = call("metrics of the open stream", "GET", "/metrics", "")
		s.Want = tracked()
		add(s)
		add(call("status", "GET", "/status", ""))
		add(call("followers without service discovery", "GET", "/states/followers", ""))
		// membership through the API: announced only when it differs
		takePubs()
		for _, mt := range [][2]int{{1, 2}, {1, 2}, {2, 2}, {2, 2}, {1, 1}} {
			s := call(fmt.Sprintf("membership info %d/%d", mt[0], mt[1]), "PUT", "/membership/info", fmt.Sprintf(`{"memberNumber":%d,"totalMembers":%d}`, mt[0], mt[1]))
			s.Pubs = takePubs()
			add(s)
		}
		add(call("membership info with a malformed body", "PUT", "/membership/info", "{not json"))
		// a rebalance through the API: the stream closes and reopens, the endpoints keep answering
		s = call("rebalance of the open stream", "GET", "/rebalance", "")
		add(s)
		add(call("offsets during the rebalance window", "GET", "/states/offset", ""))
		add(call("metrics during the rebalance window", "GET", "/metrics", ""))
		for t0 := time.Now(); time.Since(t0) < 4*time.Second && !d.Stream.IsOpen(); time.Sleep(5 * time.Millisecond) {
		}
		time.Sleep(30 * time.Millisecond)
		s = call("offsets after the reopen", "GET", "/states/offset", "")
		s.Want = tracked()
		add(s)
		ap.Shutdown()
	}
}

// promValue reads one sample of the text exposition.
func promSamples(body, name string) map[string]float64 {
	r := map[string]float64{}
	for _, l := range strings.Split(body, "\n") {
		if !strings.HasPrefix(l, name+"{") && !strings.HasPrefix(l, name+" ") {
			continue
		}
		i := strings.LastIndex(l, " ")
		if i < 0 {
			continue
		}
		var v float64
		fmt.Sscanf(l[i+1:], "%g", &v)
		key := ""
		if j := strings.Index(l, `vbId="`); j >= 0 {
			k := l[j+6:]
			key = k[:strings.Index(k, `"`)]
		}
		r[key] = v
	}
	return r
}

func runC16API(c *Ctx) {
	n := c.Pick(3, 12)
	seeds := make([]int64, n)
	for i := range seeds {
		seeds[i] = c.Rng.Int63()
	}
	out := make([]ChildResult, n)
	Parallel(n, 6, func(i int) { out[i] = RunChild("c16api", map[string]int64{"Seed": seeds[i]}, 60*time.Second) })
	for i := range out {
		rep := map[string]interface{}{"how": "vh child c16api", "seed": seeds[i]}
		c.Count("api-run")
		var res *apiRes
		for _, l := range out[i].Lines {
			if strings.HasPrefix(l, "RESULT ") {
				res = &apiRes{}
				_ = json.Unmarshal([]byte(l[7:]), res)
			}
		}
		if res == nil {
			c.Violate("api-crashes", fmt.Sprintf("the API around the real stream: the process died (exit %d) %s", out[i].ExitCode, out[i].Fatal), rep)
			continue
		}
		if res.Err != "" {
			c.Note("c16api not driven: %s", res.Err)
			continue
		}
		c.Eval(fmt.Sprint("api ", seeds[i]), true)
		rep["steps"] = res.Steps
		lastInfo := [2]int{0, 0}
		for _, s := range res.Steps {
			bad := func(f string, a ...interface{}) {
				c.Violate("api-endpoint", "API "+s.What+": "+fmt.Sprintf(f, a...), rep)
			}
			if s.Status == -1 {
				bad("the request failed: %s", s.Body)
				continue
			}
			switch {
			case strings.HasPrefix(s.What, "offsets while") || strings.HasPrefix(s.What, "offsets during"):
				if s.Status != 200 || !strings.Contains(s.Body, "not open") {
					// during the window the answer is either "not open" or the offsets; never an error
					var m map[string]json.RawMessage
					if s.Status != 200 || json.Unmarshal([]byte(s.Body), &m) != nil {
						bad("status %d, body %q", s.Status, s.Body)
					}
				}
			case strings.HasPrefix(s.What, "offsets "):
				var got map[string]struct{ SeqNo uint64 }
				var want map[string]uint64
				if s.Status != 200 || json.Unmarshal([]byte(s.Body), &got) != nil || json.Unmarshal([]byte(s.Want), &want) != nil {
					bad("status %d, body %q", s.Status, s.Body)
					break
				}
				if len(got) != len(want) {
					bad("%d vBuckets shown, the stream tracks %d", len(got), len(want))
				}
				for vb, w := range want {
					if g, ok := got[vb]; !ok || g.SeqNo != w {
						bad("vb %s shown at %d, the stream tracks %d", vb, g.SeqNo, w)
					}
				}
			case strings.HasPrefix(s.What, "metrics of the open stream"):
				var want map[string]uint64
				_ = json.Unmarshal([]byte(s.Want), &want)
				got := promSamples(s.Body, "cbgo_seq_no_current")
				if s.Status != 200 || len(got) != len(want) {
					bad("status %d, %d seq_no gauges, the stream tracks %d vBuckets", s.Status, len(got), len(want))
				}
				for vb, w := range want {
					if g, ok := got[vb]; !ok || uint64(g) != w {
						bad("gauge of vb %s shows %v, the stream tracks %d", vb, g, w)
					}
				}
			case strings.HasPrefix(s.What, "metrics "):
				if s.Status != 200 {
					bad("status %d", s.Status)
				}
			case strings.HasPrefix(s.What, "rebalance while"):
				if s.Status != 200 || !strings.Contains(s.Body, "skipped") {
					bad("status %d, body %q", s.Status, s.Body)
				}
			case strings.HasPrefix(s.What, "rebalance of"), s.What == "status":
				if s.Status != 200 || s.Body != "OK" {
					bad("status %d, body %q", s.Status, s.Body)
				}
			case strings.HasPrefix(s.What, "followers"):
				if s.Status != 200 || !strings.Contains(s.Body, "not enabled") {
					bad("status %d, body %q", s.Status, s.Body)
				}
			case strings.HasPrefix(s.What, "membership info with"):
				if s.Status != 400 || len(s.Pubs) != 0 {
					bad("status %d, %d announcements", s.Status, len(s.Pubs))
				}
			case strings.HasPrefix(s.What, "membership info "):
				var k, t int
				fmt.Sscanf(s.What, "membership info %d/%d", &k, &t)
				want := 0
				if lastInfo != [2]int{k, t} {
					want = 1
				}
				lastInfo = [2]int{k, t}
				if s.Status != 200 || len(s.Pubs) != want || (want == 1 && s.Pubs[0] != [2]int{k, t}) {
					bad("status %d, announcements %v; a numbering is announced exactly when it differs from the one in effect (expected %d)", s.Status, s.Pubs, want)
				}
			}
		}
	}
}
